/-
Same-name leaves on `python_version`: `python_version <op> "X.Y"` with a comparison operator and a
two-component literal.  Generic outcomes of `_merge_single_markers` as for the other version-like variables
(C05's regular setting at the environment's `python_version`); the two special branches (the `== X.Y`
candidate and the `get_python_constraint_from_marker` intersection/union) through the C11 builder's exactness of
the conversion (`normPair_exact`, `pyItem_agree`, `normPair_shape`).
-/
import PoetryVerif.Proofs.MarkerAlgSoundVerMk
import PoetryVerif.Proofs.PyConvLeaf
import PoetryVerif.Proofs.PyConvShape
import PoetryVerif.Proofs.PyConvSplitSem

set_option linter.unusedSimpArgs false
set_option linter.unusedVariables false

namespace Poetry.Marker
open Poetry Poetry.Version

theorem list_any_congr' {α : Type} {l : List α} {f g : α → Bool} (h : ∀ a ∈ l, f a = g a) : l.any f = l.any g := by
  induction l with
  | nil => rfl
  | cons a l ih => simp [h a (by simp), ih (fun b hb => h b (by simp [hb]))]

/-- the comparison operators of the fragment -/
def pvOps : List (Spec.SOp × String) :=
  [(.eq, "=="), (.ne, "!="), (.lt, "<"), (.le, "<="), (.gt, ">"), (.ge, ">=")]

/-- the constraint `SingleMarker("python_version", op ++ V)` stores -/
def pvClause : Spec.SOp → Version → VC
  | .eq, V => .single (.ver V)
  | .ne, V => .union [.rng ⟨none, some V, false, false⟩, .rng ⟨some V, none, false, false⟩]
  | sop, V => .single (.rng (ineqRange sop V))

/-- `python_version op "a.b"` -/
def pvLeafOf (sop : Spec.SOp) (ops : String) (a b : Nat) : Single :=
  ⟨"python_version", ops, Version.relText [a, b], false, .ver (pvClause sop (litV a [b]))⟩

/-- the fragment -/
def PvLeaf (l : Leaf) : Prop := ∃ sop ops a b, (sop, ops) ∈ pvOps ∧ l = .single (pvLeafOf sop ops a b)

theorem litV_eq_finalV (x : Nat) (r : List Nat) : litV x r = finalV (x :: r) := rfl

theorem pvOps_facts {sop ops} (h : (sop, ops) ∈ pvOps) (V : Version) :
    clauseVC sop V = .ok (pvClause sop V) ∧ (sop, ops) ∈ verOpTable ∧ RelOp ops := by
  simp only [pvOps, List.mem_cons, List.mem_nil_iff, or_false, Prod.mk.injEq] at h
  rcases h with ⟨rfl, rfl⟩ | ⟨rfl, rfl⟩ | ⟨rfl, rfl⟩ | ⟨rfl, rfl⟩ | ⟨rfl, rfl⟩ | ⟨rfl, rfl⟩ <;>
    exact ⟨rfl, by decide, by simp [RelOp]⟩

theorem mkSingle_pvLeaf {sop ops} (h : (sop, ops) ∈ pvOps) (a b : Nat) :
    mkSingle "python_version" (ops ++ Version.relText [a, b]) false = .ok (pvLeafOf sop ops a b) := by
  obtain ⟨h1, h2, _⟩ := pvOps_facts h (litV a [b])
  exact mkSingle_pv sop ops h2 a [b] _ h1

theorem pb2 (a b : Nat) : PyBound (litV a [b]) = true := pb [a, b]

/-- the stored clause is a constraint of C05's regular setting over Python bounds -/
theorem pvClause_ok {sop ops} (h : (sop, ops) ∈ pvOps) (a b : Nat) : PyVCok (pvClause sop (litV a [b])) := by
  have hb := pb2 a b
  simp only [pvOps, List.mem_cons, List.mem_nil_iff, or_false, Prod.mk.injEq] at h
  rcases h with ⟨rfl, rfl⟩ | ⟨rfl, rfl⟩ | ⟨rfl, rfl⟩ | ⟨rfl, rfl⟩ | ⟨rfl, rfl⟩ | ⟨rfl, rfl⟩
  · exact ok_ver _ hb
  · exact ok_ne _ hb
  · exact ok_hi _ false hb
  · exact ok_hi _ true hb
  · exact ok_lo _ false hb
  · exact ok_lo _ true hb

/-- the environment's `python_version` as a version -/
def pvProbe (X Y : Nat) : Version := litV X [Y]

theorem reg1_final (l : List Nat) {m : Version} (h : PyBound m = true) : Reg1 (finalV l) m := by
  obtain ⟨h1, h2, h3, h4, h5, _, hr⟩ := PyBound_parts h
  by_cases e : stripZeros l = stripZeros m.release
  · left
    rw [vk_eq_iff, cmp_plain ⟨rfl, rfl, rfl, rfl, rfl⟩ ⟨h1, h2, h3, h4, h5⟩]
    show compare (stripZeros l) (stripZeros m.release) = .eq
    rw [e]; exact compare_self_eq _
  · right
    intro hk
    apply e
    have := congrArg Prod.snd hk
    simpa [relKey, finalV] using this

theorem regular_final (B : List Version) (h : ∀ e ∈ B, PyBound e = true) (l : List Nat) : Regular B (finalV l) := by
  intro e he
  rcases reg1_final l (h e he) with h1 | h1
  · exact Or.inl ((vk_eq_iff _ _).1 h1)
  · exact Or.inr h1

theorem finalV_wf (l : List Nat) (h : l ≠ []) : (finalV l).wf = true := by
  cases l with
  | nil => exact absurd rfl h
  | cons a r => exact litV_wf a r

/-- the truth of a leaf of the fragment is membership of the environment's `python_version` -/
theorem pvLeaf_eval {E : Env} {X Y : Nat} (hE : E.get? "python_version" = some (Version.relText [X, Y]))
    {sop ops} (h : (sop, ops) ∈ pvOps) (a b : Nat) :
    (Leaf.single (pvLeafOf sop ops a b)).validate E = .ok ((pvClause sop (litV a [b])).allowsPlain (pvProbe X Y)) := by
  have hok := pvClause_ok h a b
  have hBp : ∀ e ∈ (pvClause sop (litV a [b])).flatten.flatMap RC.bounds, PyBound e = true := by
    intro e he
    simp only [List.mem_flatMap] at he
    obtain ⟨c, hc, hec⟩ := he
    exact (hok.2 c hc).2.2.2 e hec
  have hreg := regVC_of_ok (B := (pvClause sop (litV a [b])).flatten.flatMap RC.bounds) hok
    (fun c hc e he => List.mem_flatMap.2 ⟨c, hc, he⟩)
  simp only [Leaf.validate, pvLeafOf]
  rw [validateLike_ver "python_version" (by decide) _ E X [Y] hE]
  exact VC.allows_of_reg (regB_of_pyBound _ hBp) _ hreg.1 hreg.2 _

/-- an environment of interpreter `X.Y.0` (only its `python_version` matters for the leaves of the fragment) -/
def envXY (X Y : Nat) : Env :=
  ⟨[("python_version", Version.relText [X, Y]), ("python_full_version", Version.relText [X, Y, 0])], none⟩

theorem envXY_py (X Y : Nat) : EnvPy (envXY X Y) X Y 0 := by
  constructor <;> simp [envXY, Env.get?, List.find?]

theorem vk_pad (X Y : Nat) : vk (pyV X Y 0) = vk (pvProbe X Y) := by
  rw [vk_eq_iff, pyV, pvProbe, litV_eq_finalV, cmp_finalV, ← sz_pad2]
  exact compare_self_eq _

theorem allowsPlain_pad {g : VC} (hg : PyVCok g) (X Y : Nat) :
    g.allowsPlain (pyV X Y 0) = g.allowsPlain (pvProbe X Y) := by
  simp only [VC.allowsPlain]
  apply list_any_congr'
  intro c hc
  obtain ⟨hw, _, _, hb⟩ := hg.2 c hc
  exact RC.allows_congr c hw (pyV_wf X Y 0) (litV_wf X [Y])
    (regular_final c.bounds hb [X, Y, 0]) (vk_pad X Y)

/-- **the conversion of a leaf of the fragment is exact at the environment's `python_version`**:
`get_python_constraint_from_marker(leaf)` is a constraint of the regular setting over Python bounds that admits
`X.Y` exactly when the leaf holds (C11's `normPair_exact` + C06's `pyItem_agree`, read at interpreter `X.Y.0`) -/
theorem pvLeaf_gpc {E : Env} {X Y : Nat} (hE : E.get? "python_version" = some (Version.relText [X, Y]))
    {sop ops} (h : (sop, ops) ∈ pvOps) (a b : Nat) :
    ∃ g, gpcLeaf (.single (pvLeafOf sop ops a b)) = .ok g ∧ PyVCok g ∧
      g.allowsPlain (pvProbe X Y) = leafEval E (.single (pvLeafOf sop ops a b)) := by
  obtain ⟨_, _, hop⟩ := pvOps_facts h (litV a [b])
  have hE' := envXY_py X Y
  obtain ⟨item, bb, hitem, ⟨g, hg, hgb⟩, hev⟩ :=
    normPair_exact (envXY X Y) X Y 0 hE' "python_version" ops [a, b] hop (.short a b)
  obtain ⟨b0, hiv, hev0⟩ := pyItem_agree (envXY X Y) X Y 0 hE' "python_version" ops [a, b] hop (.short a b)
  rw [hev] at hev0
  have hbb : bb = b0 := Option.some.inj hev0
  obtain ⟨item', hitem', hok, hstar, vc', hp', hvok⟩ := normPair_shape "python_version" ops [a, b] hop (.short a b)
  rw [hitem] at hitem'
  have hii : item = item' := Except.ok.inj hitem'
  subst hii
  have hne : item ≠ "*" := by intro e; apply hstar; rw [e]; rfl
  have hgv : g = vc' := by
    rw [VParser.parseMarkerVersionConstraint, parseConstraintAux_single item true hok.nosep hne, hp'] at hg
    exact (Except.ok.inj hg).symm
  subst hgv
  refine ⟨g, ?_, hvok, ?_⟩
  · rw [gpcLeaf_single (pvLeafOf sop ops a b) item (show isPyName "python_version" = true by decide) hop hitem, hg]
  · rw [← allowsPlain_pad hvok, hgb, hbb]
    -- the model's value of the item in `envXY` is the leaf's truth in `E`
    simp only [itemV, itemConstraintString, Bool.false_eq_true, if_false, mkSingle_pvLeaf h a b] at hiv
    have e1 := pvLeaf_eval (E := envXY X Y) (X := X) (Y := Y) (by simp [envXY, Env.get?, List.find?]) h a b
    have e2 := pvLeaf_eval hE h a b
    simp only [Leaf.validate] at e1
    rw [e1] at hiv
    simp only [leafEval, e2]
    exact (Except.ok.inj hiv).symm

/-! ### the constructor on the text of a simple constraint -/

theorem leafPrepare_pv_bare (x : Nat) (r : List Nat) :
    leafPrepare "python_version" (Version.relText (x :: r)) false =
      .ok { name := "python_version", op := "==", value := Version.relText (x :: r), swapped := false,
            cstr := Version.relText (x :: r), kind := .version true } := by
  unfold leafPrepare
  simp only [Bool.false_eq_true, if_false, matchPattern1_relText x r, Option.getD_none]
  have f1 : Gen.versionLikeMarkerNames.contains "python_version" = true := by decide
  have f2 : ("python_version" == "python_full_version") = false := by decide
  have f3 : aliasName "python_version" = "python_version" := by decide
  have f4 : ("python_version" != "platform_release") = true := by decide
  have f1' : "python_version" ∈ Gen.versionLikeMarkerNames := by decide
  simp [f1, f1', f2, f3, f4]

theorem mkSingle_pv_bare (a b : Nat) :
    mkSingle "python_version" (Version.relText [a, b]) false = .ok (pvLeafOf .eq "==" a b) := by
  simp [mkSingle, leafPrepare_pv_bare a [b], bind, Except.bind, parseByKind_ver _ _ (pmvc_bare a [b]),
    pure, Except.pure, pvLeafOf, pvClause]

/-- every bound is a two-component release literal -/
def Lit2 (rc : VC) : Prop := ∀ c ∈ rc.flatten, ∀ e ∈ c.bounds, ∃ a b, e = litV a [b]

/-- **`SingleMarker("python_version", str(c))` for a simple constraint over two-component bounds** is a leaf of the
fragment whose clause admits a probe (well-formed, regular for Python bounds) exactly when `c` does -/
theorem mkSingleOfC_pv {rc : VC} (hok : PyVCok rc) (h2 : Lit2 rc) (he : rc.isEmpty = false) (ha : rc.isAny = false)
    (hs : rc.isSimple = .ok true) {s : Single} (hmk : mkSingleOfC "python_version" (.ver rc) = .ok s)
    (l : List Nat) (hl : l ≠ []) :
    ∃ sop ops a b, (sop, ops) ∈ pvOps ∧ s = pvLeafOf sop ops a b ∧
      (pvClause sop (litV a [b])).allowsPlain (finalV l) = rc.allowsPlain (finalV l) := by
  cases rc with
  | empty => simp [VC.isEmpty] at he
  | single c =>
    cases c with
    | ver V =>
      obtain ⟨a, b, rfl⟩ := h2 (.ver V) (by simp [VC.flatten]) V (by simp [RC.bounds, RC.view, VRange.bounds, RC.min])
      simp only [mkSingleOfC, LeafC.toStr, VC.toStr, RC.toStr, litV_text, bind, Except.bind,
        mkSingle_pv_bare a b] at hmk
      cases hmk
      exact ⟨.eq, "==", a, b, by decide, rfl, rfl⟩
    | rng R =>
      obtain ⟨mn, mx, imin, imax⟩ := R
      have htidy := (hok.2 (.rng ⟨mn, mx, imin, imax⟩) (by simp [VC.flatten])).2.1
      cases mn with
      | none =>
        cases mx with
        | none => simp [VC.isAny, RC.isAny, VRange.isAny] at ha
        | some V =>
          have him : imin = false := htidy.1 rfl
          subst him
          obtain ⟨a, b, rfl⟩ := h2 (.rng ⟨none, some V, false, imax⟩) (by simp [VC.flatten]) V
            (by simp [RC.bounds, RC.view, VRange.bounds, RC.min, RC.max])
          cases imax with
          | false =>
            simp only [mkSingleOfC, LeafC.toStr, VC.toStr, RC.toStr, VRange.toStr, litV_text, bind, Except.bind,
              Bool.false_eq_true, if_false, mkSingle_pvLeaf (sop := .lt) (ops := "<") (by decide) a b] at hmk
            cases hmk
            exact ⟨.lt, "<", a, b, by decide, rfl, rfl⟩
          | true =>
            simp only [mkSingleOfC, LeafC.toStr, VC.toStr, RC.toStr, VRange.toStr, litV_text, bind, Except.bind,
              if_true, mkSingle_pvLeaf (sop := .le) (ops := "<=") (by decide) a b] at hmk
            cases hmk
            exact ⟨.le, "<=", a, b, by decide, rfl, rfl⟩
      | some V =>
        cases mx with
        | some W => simp [VC.isSimple, RC.isSimple, VRange.isSimple] at hs
        | none =>
          have him : imax = false := htidy.2 rfl
          subst him
          obtain ⟨a, b, rfl⟩ := h2 (.rng ⟨some V, none, imin, false⟩) (by simp [VC.flatten]) V
            (by simp [RC.bounds, RC.view, VRange.bounds, RC.min, RC.max])
          cases imin with
          | false =>
            simp only [mkSingleOfC, LeafC.toStr, VC.toStr, RC.toStr, VRange.toStr, litV_text, bind, Except.bind,
              Bool.false_eq_true, if_false, mkSingle_pvLeaf (sop := .gt) (ops := ">") (by decide) a b] at hmk
            cases hmk
            exact ⟨.gt, ">", a, b, by decide, rfl, rfl⟩
          | true =>
            simp only [mkSingleOfC, LeafC.toStr, VC.toStr, RC.toStr, VRange.toStr, litV_text, bind, Except.bind,
              if_true, mkSingle_pvLeaf (sop := .ge) (ops := ">=") (by decide) a b] at hmk
            cases hmk
            exact ⟨.ge, ">=", a, b, by decide, rfl, rfl⟩
  | union rs =>
    -- the `!= V` shape
    let B : List Version := boundsOf rs
    have hpb : ∀ e ∈ B, PyBound e = true := by
      intro e he'
      simp only [B, boundsOf, List.mem_flatMap] at he'
      obtain ⟨c, hc, hec⟩ := he'
      exact (hok.2 c (by simpa [VC.flatten] using hc)).2.2.2 e hec
    have hB := regB_of_pyBound B hpb
    have hreg := regVC_of_ok (B := B) hok (fun c hc e he' => by
      simp only [B, boundsOf, List.mem_flatMap]; exact ⟨c, by simpa [VC.flatten] using hc, he'⟩)
    have hmr : ∀ c ∈ rs, RegMember B c := by simpa [VC.flatten] using hreg.2
    obtain ⟨hUok, hN⟩ := unionOK_of_reg hB rs hmr hok.1.2.2.1
    have hex : ∃ v, VC.excludedSingleVersion rs = .ok (some v) := by
      simp only [VC.isSimple, bind, Except.bind, pure, Except.pure] at hs
      cases h : VC.excludedSingleVersion rs with
      | error e => simp [h] at hs
      | ok o =>
        cases o with
        | none => simp [h] at hs
        | some v => exact ⟨v, rfl⟩
    obtain ⟨v, hv⟩ := hex
    have hinv : VC.inverted rs = .ok (.single (.ver v)) := by
      simp only [VC.excludedSingleVersion, bind, Except.bind, pure, Except.pure] at hv
      cases h : VC.inverted rs with
      | error e => simp [h] at hv
      | ok res =>
        simp only [h] at hv
        split at hv
        · cases hv; rfl
        · cases hv
    obtain ⟨_, hb, hsem⟩ := inverted_sem rs hUok _ hinv
    have hvB : v ∈ B := hb v (by simp [VC.bounds, RC.bounds, RC.view, VRange.bounds, RC.min])
    obtain ⟨c0, hc0, hvc0⟩ : ∃ c ∈ rs, v ∈ c.bounds := by
      simp only [B, boundsOf, List.mem_flatMap] at hvB; exact hvB
    obtain ⟨a, b, rfl⟩ := h2 c0 (by simpa [VC.flatten] using hc0) v hvc0
    have hstr : (LeafC.ver (.union rs)).toStr = .ok ("!=" ++ Version.relText [a, b]) := by
      simp [LeafC.toStr, VC.toStr, hv, bind, Except.bind, pure, Except.pure, litV_text]
    simp only [mkSingleOfC, hstr, bind, Except.bind,
      mkSingle_pvLeaf (sop := .ne) (ops := "!=") (by decide) a b] at hmk
    cases hmk
    refine ⟨.ne, "!=", a, b, by decide, rfl, ?_⟩
    have hp : (finalV l).wf = true := finalV_wf l hl
    have hregp := regular_final B hpb l
    have h1 := hsem (finalV l) hp hregp
    rw [anyAllows_eq_allowsPlain] at h1
    have hr1 : Reg1 (finalV l) (litV a [b]) := reg1_final l (pb2 a b)
    have hva : (VC.single (.ver (litV a [b]))).allowsPlain (finalV l) = (litV a [b]).allows (finalV l) := by
      simp [VC.allowsPlain, VC.flatten, RC.allows]
    rw [hva] at h1
    have h2' : (VC.union rs).allowsPlain (finalV l) = !(litV a [b]).allows (finalV l) := by rw [h1]; simp
    rw [h2']
    simp only [pvClause, VC.allowsPlain, VC.flatten, List.any_cons, List.any_nil, Bool.or_false, RC.allows]
    rw [Bool.eq_iff_iff]
    simp only [Bool.or_eq_true, Bool.not_eq_true', ← Bool.not_eq_true,
      upper_allows (litV a [b]) (finalV l) false (litV_wf a [b]) hp hr1,
      lower_allows (litV a [b]) (finalV l) false (litV_wf a [b]) hp hr1,
      RC.ver_allows_iff (litV a [b]) (finalV l) (litV_wf a [b]) hp hr1, Bool.false_eq_true, if_false]
    exact ⟨fun h => by rcases h with h | h; exact ne_of_lt h; exact fun e => (ne_of_lt h) e.symm,
      fun h => lt_or_gt_of_ne h⟩

/-! ### the conversion's result has two-component bounds -/

/-- the constraint `get_python_constraint_from_marker` computes for `python_version op "a.b"` -/
def gpcOf : Spec.SOp → Nat → Nat → VC
  | .eq, a, b => .single (.rng ⟨some (finalV [a, b]), some (finalV [a, b + 1]), true, false⟩)
  | .ne, a, b => .union [.rng ⟨none, some (finalV [a, b]), false, false⟩, .rng ⟨some (finalV [a, b + 1]), none, true, false⟩]
  | .lt, a, b => .single (.rng ⟨none, some (finalV [a, b]), false, false⟩)
  | .le, a, b => .single (.rng ⟨none, some (finalV [a, b + 1]), false, false⟩)
  | .gt, a, b => .single (.rng ⟨some (finalV [a, b + 1]), none, true, false⟩)
  | _, a, b => .single (.rng ⟨some (finalV [a, b]), none, true, false⟩)

theorem gpcOf_lit2 (sop : Spec.SOp) (a b : Nat) : Lit2 (gpcOf sop a b) := by
  intro c hc e he
  cases sop <;>
    simp only [gpcOf, VC.flatten, List.mem_cons, List.mem_nil_iff, or_false] at hc <;>
    (try rcases hc with rfl | rfl) <;> (try subst hc) <;>
    simp [RC.bounds, RC.view, VRange.bounds, RC.min, RC.max] at he <;>
    (first
      | (rcases he with rfl | rfl <;> first | exact ⟨a, b, rfl⟩ | exact ⟨a, b + 1, rfl⟩)
      | (subst he; first | exact ⟨a, b, rfl⟩ | exact ⟨a, b + 1, rfl⟩))

/-- the parse of the normalised clause, explicitly -/
theorem gpc_parse {sop ops} (h : (sop, ops) ∈ pvOps) (a b : Nat) :
    ∃ item, normalizePyPair ops (Version.relText [a, b]) = .ok item ∧
      VParser.parseSingle item.toList true = .ok (gpcOf sop a b) := by
  have hprec : (finalV [a, b]).precision = 2 := rfl
  simp only [pvOps, List.mem_cons, List.mem_nil_iff, or_false, Prod.mk.injEq] at h
  have tl : ∀ (pre : String) (l : List Nat), (pre ++ Version.relText l).toList = pre.toList ++ _root_.Poetry.relChars l := by
    intro pre l; simp [_root_.Poetry.relText_toList]
  rcases h with ⟨rfl, rfl⟩ | ⟨rfl, rfl⟩ | ⟨rfl, rfl⟩ | ⟨rfl, rfl⟩ | ⟨rfl, rfl⟩ | ⟨rfl, rfl⟩
  · refine ⟨"~" ++ Version.relText [a, b], by rw [normPair2]; simp, ?_⟩
    have := parseSingle_tilde a [b] true
    simp only [finalV_stable, finalV_nextMinor, hprec, relNextMinor, zeros] at this
    rw [tl]; simpa [gpcOf] using this
  · refine ⟨"!=" ++ Version.relText [a, b] ++ ".*", by rw [normPair2]; simp, ?_⟩
    have := (parseSingle_neStar true a [b] (xCore_star2 true a b)).trans (xRange_inv2 a b)
    have e : ("!=" ++ Version.relText [a, b] ++ ".*").toList = '!' :: '=' :: (_root_.Poetry.relChars [a, b] ++ ['.', '*']) := by
      simp [_root_.Poetry.relText_toList]
    rw [e]; simpa [gpcOf] using this
  · refine ⟨"<" ++ Version.relText [a, b], by rw [normPair2]; simp, ?_⟩
    rw [tl]; simpa [gpcOf] using _root_.Poetry.parseSingle_lt a [b] true
  · refine ⟨"<" ++ Version.relText [a, b + 1], by rw [normPair2]; simp, ?_⟩
    rw [tl]; simpa [gpcOf] using _root_.Poetry.parseSingle_lt a [b + 1] true
  · refine ⟨">=" ++ Version.relText [a, b + 1], by rw [normPair2]; simp, ?_⟩
    rw [tl]; simpa [gpcOf] using _root_.Poetry.parseSingle_ge a [b + 1] true
  · refine ⟨">=" ++ Version.relText [a, b], by rw [normPair2]; simp, ?_⟩
    rw [tl]; simpa [gpcOf] using _root_.Poetry.parseSingle_ge a [b] true

/-- the conversion of a leaf of the fragment, with its bounds -/
theorem pvLeaf_gpc' {E : Env} {X Y : Nat} (hE : E.get? "python_version" = some (Version.relText [X, Y]))
    {sop ops} (h : (sop, ops) ∈ pvOps) (a b : Nat) :
    ∃ g, gpcLeaf (.single (pvLeafOf sop ops a b)) = .ok g ∧ PyVCok g ∧ Lit2 g ∧
      g.allowsPlain (pvProbe X Y) = leafEval E (.single (pvLeafOf sop ops a b)) := by
  obtain ⟨g, h1, h2, h3⟩ := pvLeaf_gpc hE h a b
  refine ⟨g, h1, h2, ?_, h3⟩
  obtain ⟨_, _, hop⟩ := pvOps_facts h (litV a [b])
  obtain ⟨item, hitem, hp⟩ := gpc_parse h a b
  obtain ⟨item', hitem', hok, hstar, _⟩ := normPair_shape "python_version" ops [a, b] hop (.short a b)
  rw [hitem] at hitem'
  have hii : item = item' := Except.ok.inj hitem'
  subst hii
  have hne : item ≠ "*" := by intro e; apply hstar; rw [e]; rfl
  rw [gpcLeaf_single (pvLeafOf sop ops a b) item (show isPyName "python_version" = true by decide) hop hitem,
    VParser.parseMarkerVersionConstraint, parseConstraintAux_single item true hok.nosep hne, hp] at h1
  cases h1
  exact gpcOf_lit2 sop a b

/-! ### `_merge_single_markers` on two leaves of the fragment -/

/-- constraints that compare equal admit alike (members well-formed) -/
theorem eqvAllows' (a b : VC) (hma : ∀ c ∈ a.flatten, c.WF) (hmb : ∀ c ∈ b.flatten, c.WF)
    (h : VC.eqv a b = true) (p : Version) : a.allowsPlain p = b.allowsPlain p := by
  have nda : ∀ c ∈ a.flatten, EqHash.rcNonDegenerate c = true := fun c hc => rcNonDegenerate_of_WF (hma c hc)
  have ndb : ∀ c ∈ b.flatten, EqHash.rcNonDegenerate c = true := fun c hc => rcNonDegenerate_of_WF (hmb c hc)
  have wa : ∀ c ∈ a.flatten, c.wfB := fun c hc => (hma c hc).wfB
  have wb : ∀ c ∈ b.flatten, c.wfB := fun c hc => (hmb c hc).wfB
  cases a with
  | empty =>
    have : b.isEmpty = true := by simpa [VC.eqv] using h
    cases b <;> simp_all [VC.isEmpty, VC.allowsPlain, VC.flatten]
  | single x =>
    cases b with
    | empty => simp [VC.eqv, VC.isEmpty] at h
    | single y =>
      simp only [VC.eqv] at h
      simp only [VC.allowsPlain, VC.flatten, List.any_cons, List.any_nil, Bool.or_false]
      exact EqHash.rc_allows_congr (nda x (by simp [VC.flatten])) (ndb y (by simp [VC.flatten]))
        (wa x (by simp [VC.flatten])) (wb y (by simp [VC.flatten])) h p
    | union ys => simp [VC.eqv] at h
  | union xs =>
    cases b with
    | empty => simp [VC.eqv, VC.isEmpty] at h
    | single y => simp [VC.eqv] at h
    | union ys =>
      rw [EqHash.vc_eqv_union] at h
      simp only [VC.allowsPlain, VC.flatten]
      exact EqHash.rcList_any_allows_congr (by simpa [List.all_eq_true, VC.flatten] using nda)
        (by simpa [List.all_eq_true, VC.flatten] using ndb)
        (by simpa [VC.flatten] using wa) (by simpa [VC.flatten] using wb) h p

theorem cand_text (t : String) (ht : ValOk t) :
    "python_version == \"" ++ t ++ "\"" = leafText "python_version" "==" t false := by
  simp [leafText, String.append_assoc, ValOk.quoteOf ht]

theorem mkSingleOfC_pv_empty : mkSingleOfC "python_version" (.ver .empty) = .error .value := by rfl

theorem pyVCok_of_reg {B : List Version} (hpb : ∀ e ∈ B, PyBound e = true) {c : VC} (h : RegVC B c) : PyVCok c :=
  ⟨h.1, fun m hm => ⟨(h.2 m hm).1, (h.2 m hm).2.1, (h.2 m hm).2.2.1, fun e he => hpb e ((h.2 m hm).2.2.2 e he)⟩⟩

theorem lit2_of_reg {B : List Version} (hl : ∀ e ∈ B, ∃ a b, e = litV a [b]) {c : VC} (h : RegVC B c) : Lit2 c :=
  fun m hm e he => hl e ((h.2 m hm).2.2.2 e he)

theorem regVC_of_ok' {c : VC} (h : PyVCok c) : RegVC (boundsOf c.flatten) c :=
  regVC_of_ok h (fun m hm e he => by simp only [boundsOf, List.mem_flatMap]; exact ⟨m, hm, he⟩)

theorem RegVC.mono {B B' : List Version} (hs : ∀ e ∈ B, e ∈ B') {c : VC} (h : RegVC B c) : RegVC B' c :=
  ⟨h.1, fun m hm => ⟨(h.2 m hm).1, (h.2 m hm).2.1, (h.2 m hm).2.2.1, fun e he => hs e ((h.2 m hm).2.2.2 e he)⟩⟩

set_option hygiene false in
/-- the outcomes of `_merge_single_markers` shared with the other version-like variables: Empty, Any, one of the
operands, a re-built `SingleMarker`; leaves the non-simple case as the remaining goal -/
macro "pv_common" : tactic => `(tactic| (
  by_cases q1 : (LeafC.ver r0).isEmpty = true
  · rw [if_pos q1, pure_ok] at h; cases h
    have := vc_allowsPlain_of_isEmpty (c := r0) q1 (pvProbe X Y)
    exact ⟨M.good_empty, by rw [M.sem_empty, this]⟩
  rw [if_neg q1] at h
  by_cases q2 : (LeafC.ver r0).isAny = true
  · rw [if_pos q2, pure_ok] at h; cases h
    have := vc_allowsPlain_of_isAny (c := r0) q2 (pvProbe X Y)
    exact ⟨M.good_any, by rw [M.sem_any, this]⟩
  rw [if_neg q2] at h
  by_cases q3 : (LeafC.ver r0).eqv (LeafC.ver v1) = true
  · rw [if_pos q3, pure_ok] at h; cases h
    refine ⟨(M.good_leaf _).2 ⟨s1, o1, a1, b1, hm1, by simp [pvLeafOf, hv1]⟩, ?_⟩
    rw [M.sem_leaf]
    have := (eqvAllows B) r0 v1 hr0.1 hr1.1 hr0.2 hr1.2 q3 (pvProbe X Y)
    rw [this, ← e1] <;> simp [pvLeafOf, hv1]
  rw [if_neg q3] at h
  by_cases q4 : (LeafC.ver r0).eqv (LeafC.ver v2) = true
  · rw [if_pos q4, pure_ok] at h; cases h
    refine ⟨(M.good_leaf _).2 ⟨s2, o2, a2, b2, hm2, by simp [pvLeafOf, hv2]⟩, ?_⟩
    rw [M.sem_leaf]
    have := (eqvAllows B) r0 v2 hr0.1 hr2.1 hr0.2 hr2.2 q4 (pvProbe X Y)
    rw [this, ← e2] <;> simp [pvLeafOf, hv2]
  rw [if_neg q4] at h
  obtain ⟨bsimple, hb, h⟩ := bind_ok.1 h
  cases bsimple
  case true =>
    rw [if_pos rfl] at h
    obtain ⟨s, hs, h⟩ := bind_ok.1 h
    rw [pure_ok] at h; cases h
    obtain ⟨sop, ops, a, b, hmem, rfl, hall⟩ := mkSingleOfC_pv (pyVCok_of_reg hpb hr0) (lit2_of_reg hlB hr0)
      (by simpa [LeafC.isEmpty] using q1) (by simpa [LeafC.isAny] using q2) hb hs [X, Y] (by simp)
    refine ⟨(M.good_leaf _).2 ⟨sop, ops, a, b, hmem, rfl⟩, ?_⟩
    rw [M.sem_leaf]
    simp only [leafEval, pvLeaf_eval hE hmem a b]
    exact hall
  rw [if_neg Bool.false_ne_true] at h
  dsimp only at h))

theorem pvClause_lit2 {sop ops} (h : (sop, ops) ∈ pvOps) (a b : Nat) : Lit2 (pvClause sop (litV a [b])) := by
  intro c hc e he
  simp only [pvOps, List.mem_cons, List.mem_nil_iff, or_false, Prod.mk.injEq] at h
  rcases h with ⟨rfl, rfl⟩ | ⟨rfl, rfl⟩ | ⟨rfl, rfl⟩ | ⟨rfl, rfl⟩ | ⟨rfl, rfl⟩ | ⟨rfl, rfl⟩ <;>
    simp only [pvClause, ineqRange, VC.flatten, List.mem_cons, List.mem_nil_iff, or_false] at hc <;>
    (try rcases hc with rfl | rfl) <;> (try subst hc) <;>
    simp [RC.bounds, RC.view, VRange.bounds, RC.min, RC.max] at he <;>
    (first
      | (rcases he with rfl | rfl <;> exact ⟨a, b, rfl⟩)
      | (subst he; exact ⟨a, b, rfl⟩))

theorem pvLeaf_merge {E : Env} {X Y : Nat} (hE : E.get? "python_version" = some (Version.relText [X, Y]))
    (l1 l2 : Leaf) (im : Bool) (r : M) (h1 : PvLeaf l1) (h2 : PvLeaf l2)
    (h : mergeLeaves l1 l2 im = .ok (some r)) :
    M.Good PvLeaf r ∧
      M.sem (leafEval E) r = (if im then (leafEval E l1 && leafEval E l2) else (leafEval E l1 || leafEval E l2)) := by
  obtain ⟨s1, o1, a1, b1, hm1, rfl⟩ := h1
  obtain ⟨s2, o2, a2, b2, hm2, rfl⟩ := h2
  have ok1 := pvClause_ok hm1 a1 b1
  have ok2 := pvClause_ok hm2 a2 b2
  have lt1 := pvClause_lit2 hm1 a1 b1
  have lt2 := pvClause_lit2 hm2 a2 b2
  generalize hv1 : pvClause s1 (litV a1 [b1]) = v1 at ok1 lt1
  generalize hv2 : pvClause s2 (litV a2 [b2]) = v2 at ok2 lt2
  have e1 : leafEval E (.single (pvLeafOf s1 o1 a1 b1)) = v1.allowsPlain (pvProbe X Y) := by
    simp [leafEval, pvLeaf_eval hE hm1 a1 b1, hv1]
  have e2 : leafEval E (.single (pvLeafOf s2 o2 a2 b2)) = v2.allowsPlain (pvProbe X Y) := by
    simp [leafEval, pvLeaf_eval hE hm2 a2 b2, hv2]
  -- the common bound list
  let B : List Version := boundsOf v1.flatten ++ boundsOf v2.flatten
  have hr1 : RegVC B v1 := RegVC.mono (fun e he => List.mem_append_left _ he) (regVC_of_ok' ok1)
  have hr2 : RegVC B v2 := RegVC.mono (fun e he => List.mem_append_right _ he) (regVC_of_ok' ok2)
  have hpb : ∀ e ∈ B, PyBound e = true := by
    intro e he
    simp only [B, List.mem_append, boundsOf, List.mem_flatMap] at he
    rcases he with ⟨c, hc, hec⟩ | ⟨c, hc, hec⟩
    · exact (ok1.2 c hc).2.2.2 e hec
    · exact (ok2.2 c hc).2.2.2 e hec
  have hlB : ∀ e ∈ B, ∃ a b, e = litV a [b] := by
    intro e he
    simp only [B, List.mem_append, boundsOf, List.mem_flatMap] at he
    rcases he with ⟨c, hc, hec⟩ | ⟨c, hc, hec⟩
    · exact lt1 c hc e hec
    · exact lt2 c hc e hec
  have hB := regB_of_pyBound B hpb
  have hp : (pvProbe X Y).wf = true := litV_wf X [Y]
  have hregp : Regular B (pvProbe X Y) := regular_final B hpb [X, Y]
  have hreg := regular_sub hregp hr1 hr2
  simp only [mergeLeaves] at h
  rw [mergeSingle.eq_def] at h
  dsimp only at h
  simp only [Leaf.name, pvLeafOf, show ("python_version" == "python_full_version") = false from by decide,
    Bool.and_false, Bool.false_and, Bool.or_self, Bool.false_eq_true, if_false, bne_self_eq_false, Leaf.c,
    hv1, hv2] at h
  have hrec1 : (⟨"python_version", o1, Version.relText [a1, b1], false, LeafC.ver v1⟩ : Single) = pvLeafOf s1 o1 a1 b1 := by simp [pvLeafOf, hv1]
  have hrec2 : (⟨"python_version", o2, Version.relText [a2, b2], false, LeafC.ver v2⟩ : Single) = pvLeafOf s2 o2 a2 b2 := by simp [pvLeafOf, hv2]
  simp only [hrec1, hrec2] at h
  -- the conversions of the two operands, exact at the environment's `python_version`
  obtain ⟨g1, k1, okg1, ltg1, sem1⟩ := pvLeaf_gpc' hE hm1 a1 b1
  obtain ⟨g2, k2, okg2, ltg2, sem2⟩ := pvLeaf_gpc' hE hm2 a2 b2
  let B' : List Version := boundsOf g1.flatten ++ boundsOf g2.flatten
  have hg1 : RegVC B' g1 := RegVC.mono (fun e he => List.mem_append_left _ he) (regVC_of_ok' okg1)
  have hg2 : RegVC B' g2 := RegVC.mono (fun e he => List.mem_append_right _ he) (regVC_of_ok' okg2)
  have hpb' : ∀ e ∈ B', PyBound e = true := by
    intro e he
    simp only [B', List.mem_append, boundsOf, List.mem_flatMap] at he
    rcases he with ⟨c, hc, hec⟩ | ⟨c, hc, hec⟩
    · exact (okg1.2 c hc).2.2.2 e hec
    · exact (okg2.2 c hc).2.2.2 e hec
  have hlB' : ∀ e ∈ B', ∃ a b, e = litV a [b] := by
    intro e he
    simp only [B', List.mem_append, boundsOf, List.mem_flatMap] at he
    rcases he with ⟨c, hc, hec⟩ | ⟨c, hc, hec⟩
    · exact ltg1 c hc e hec
    · exact ltg2 c hc e hec
  have hB' := regB_of_pyBound B' hpb'
  have hreg' := regular_sub (regular_final B' hpb' [X, Y]) hg1 hg2
  have key : ∃ r0, (if im = true then (LeafC.ver v1).intersect (.ver v2) else (LeafC.ver v1).union (.ver v2)) =
        .ok (.ver r0) ∧ RegVC B r0 ∧
        r0.allowsPlain (pvProbe X Y) = (if im = true then (v1.allowsPlain (pvProbe X Y) && v2.allowsPlain (pvProbe X Y))
          else (v1.allowsPlain (pvProbe X Y) || v2.allowsPlain (pvProbe X Y))) := by
    cases im
    · obtain ⟨r0, a, b, c, d⟩ := VC.unionWith_reg hB v1 v2 hr1.1 hr2.1 hr1.2 hr2.2
      exact ⟨r0, by simp [LeafC.union, a, Except.map], ⟨b, c⟩, by simp [d _ hp hreg]⟩
    · obtain ⟨r0, a, b, c, d⟩ := VC.intersect_reg hB v1 v2 hr1.1 hr2.1 hr1.2 hr2.2
      exact ⟨r0, by simp [LeafC.intersect, a, Except.map], ⟨b, c⟩, by simp [d _ hp hreg]⟩
  obtain ⟨r0, hk, hr0, hden⟩ := key
  have hgoal : (if im = true then (leafEval E (.single (pvLeafOf s1 o1 a1 b1)) && leafEval E (.single (pvLeafOf s2 o2 a2 b2)))
      else (leafEval E (.single (pvLeafOf s1 o1 a1 b1)) || leafEval E (.single (pvLeafOf s2 o2 a2 b2)))) =
      r0.allowsPlain (pvProbe X Y) := by rw [hden, e1, e2]
  rw [hgoal]
  cases im
  · simp only [Bool.false_eq_true, if_false] at h hk hden ⊢
    obtain ⟨rc, hrc, h⟩ := bind_ok.1 h
    rw [hk] at hrc; cases hrc
    pv_common
    -- the non-simple union: `get_python_constraint_from_marker` of both operands, united
    cases r0 with
    | empty => simp [pure, Except.pure] at h
    | single c => cases c <;> simp [pure, Except.pure] at h
    | union rs =>
      dsimp only at h
      obtain ⟨g1', hq1, hx1⟩ := bind_ok.1 h
      obtain ⟨g2', hq2, hx2⟩ := bind_ok.1 hx1
      obtain ⟨u, hu, hx3⟩ := bind_ok.1 hx2
      clear h hx1 hx2
      have h := hx3
      clear hx3
      rw [k1] at hq1; cases hq1
      rw [k2] at hq2; cases hq2
      obtain ⟨u', ua, ub, uc, ud⟩ := VC.unionWith_reg hB' g1 g2 hg1.1 hg2.1 hg1.2 hg2.2
      rw [ua] at hu; cases hu
      have hsemu : u.allowsPlain (pvProbe X Y) = (VC.union rs).allowsPlain (pvProbe X Y) := by
        rw [ud _ hp hreg', sem1, sem2, e1, e2, hden]
      by_cases qa : u.isAny = true
      · rw [if_pos qa, pure_ok] at h; cases h
        exact ⟨M.good_any, by rw [M.sem_any, ← hsemu, vc_allowsPlain_of_isAny qa]⟩
      rw [if_neg qa] at h
      obtain ⟨bs, hbs, h⟩ := bind_ok.1 h
      cases bs
      · rw [if_neg Bool.false_ne_true, pure_ok] at h; cases h
      · rw [if_pos rfl] at h
        obtain ⟨s, hs, h⟩ := bind_ok.1 h
        rw [pure_ok] at h; cases h
        have hue : u.isEmpty = false := by
          cases u with
          | empty => rw [mkSingleOfC_pv_empty] at hs; cases hs
          | _ => rfl
        obtain ⟨sop, ops, a, b, hmem, rfl, hall⟩ := mkSingleOfC_pv (pyVCok_of_reg hpb' ⟨ub, uc⟩)
          (lit2_of_reg hlB' ⟨ub, uc⟩) hue (by simpa using qa) hbs hs [X, Y] (by simp)
        refine ⟨(M.good_leaf _).2 ⟨sop, ops, a, b, hmem, rfl⟩, ?_⟩
        rw [M.sem_leaf]
        simp only [leafEval, pvLeaf_eval hE hmem a b]
        exact hall.trans hsemu
  · simp only [if_true] at h hk hden ⊢
    obtain ⟨rc, hrc, h⟩ := bind_ok.1 h
    rw [hk] at hrc; cases hrc
    pv_common
    -- the intersection of the conversions is empty
    have S2 : ∀ (hh : (do
          let g1 ← gpcLeaf (Leaf.single (pvLeafOf s1 o1 a1 b1))
          let g2 ← gpcLeaf (Leaf.single (pvLeafOf s2 o2 a2 b2))
          let i ← g1.intersect g2
          pure (if i.isEmpty = true then some M.empty else none)) = Except.ok (some r)),
        M.Good PvLeaf r ∧ M.sem (leafEval E) r = r0.allowsPlain (pvProbe X Y) := by
      intro hh
      obtain ⟨g1', hq1, hx1⟩ := bind_ok.1 hh
      obtain ⟨g2', hq2, hx2⟩ := bind_ok.1 hx1
      obtain ⟨i, hi, hx3⟩ := bind_ok.1 hx2
      clear hh hx1 hx2
      have hh := hx3
      clear hx3
      rw [k1] at hq1; cases hq1
      rw [k2] at hq2; cases hq2
      obtain ⟨i', ia, ib, ic, id'⟩ := VC.intersect_reg hB' g1 g2 hg1.1 hg2.1 hg1.2 hg2.2
      rw [ia] at hi; cases hi
      rw [pure_ok] at hh
      by_cases qe : i.isEmpty = true
      · rw [if_pos qe] at hh; cases hh
        refine ⟨M.good_empty, ?_⟩
        rw [M.sem_empty, hden, ← e1, ← e2, ← sem1, ← sem2, ← id' _ hp hreg', vc_allowsPlain_of_isEmpty qe]
      · rw [if_neg qe] at hh; cases hh
    cases r0 with
    | empty => simp [pure, Except.pure] at h
    | union rs => simp [pure, Except.pure] at h
    | single c =>
      cases c with
      | ver v => simp [pure, Except.pure] at h
      | rng R =>
        dsimp only at h
        cases hmin : R.min with
        | none =>
          simp only [hmin] at h
          rw [pure_bind] at h
          exact S2 h
        | some mn =>
          simp only [hmin] at h
          by_cases hprec : mn.precision ≥ 2
          · rw [if_pos hprec] at h
            obtain ⟨candidate, hcq, h⟩ := bind_ok.1 h
            -- the candidate is the leaf `python_version == "a.b"`
            have hmnB : mn ∈ B := (hr0.2 (.rng R) (by simp [VC.flatten])).2.2.2 mn
              (by simp [RC.bounds, RC.view, VRange.bounds, RC.min, RC.max, hmin])
            obtain ⟨a, b, rfl⟩ := hlB mn hmnB
            rw [litV_text, cand_text _ (relText_valOk a [b]),
              parseItemMarker_leafText "python_version" "==" _ false (by decide) (by decide) (relText_valOk a [b])] at hcq
            simp only [itemConstraintString, Bool.false_eq_true, if_false,
              mkSingle_pvLeaf (sop := .eq) (ops := "==") (by decide) a b] at hcq
            cases hcq
            dsimp only at h
            obtain ⟨g, hgq, h⟩ := bind_ok.1 h
            obtain ⟨gc, kc, okgc, _, semc⟩ := pvLeaf_gpc' hE (sop := .eq) (ops := "==") (by decide) a b
            rw [kc] at hgq; cases hgq
            by_cases heq : VC.eqv g (VC.single (RC.rng R)) = true
            · simp only [heq, if_true] at h
              rw [pure_bind] at h
              simp only [pure_ok] at h
              cases h
              refine ⟨(M.good_leaf _).2 ⟨.eq, "==", a, b, by decide, rfl⟩, ?_⟩
              rw [M.sem_leaf, ← semc]
              exact eqvAllows' g _ (fun c hc => (okgc.2 c hc).1) (fun c hc => (hr0.2 c hc).1) heq _
            · simp only [heq, Bool.false_eq_true, if_false] at h
              rw [pure_bind] at h
              exact S2 h
          · rw [if_neg hprec] at h
            rw [pure_bind] at h
            exact S2 h

/-- **`LeafSpec` on same-name `python_version` leaves** (comparison operators, two-component literals), in every
environment whose `python_version` is a two-component release: no hypothesis left. -/
theorem leafSpec_pv {E : Env} {X Y : Nat} (hE : E.get? "python_version" = some (Version.relText [X, Y])) :
    LeafSpec (leafEval E) PvLeaf where
  congr := by
    intro a b ha hb h
    obtain ⟨s1, o1, a1, b1, hm1, rfl⟩ := ha
    obtain ⟨s2, o2, a2, b2, hm2, rfl⟩ := hb
    simp only [Leaf.beq, pvLeafOf, Bool.and_eq_true, beq_iff_eq] at h
    obtain ⟨⟨⟨_, ho⟩, hv⟩, _⟩ := h
    -- equal operator text and value text: the constructor returns the same leaf
    have m1 := mkSingle_pvLeaf hm1 a1 b1
    have m2 := mkSingle_pvLeaf hm2 a2 b2
    rw [ho, hv, m2] at m1
    subst ho
    rw [← Except.ok.inj m1]
  merge := fun l1 l2 im r h1 h2 h => pvLeaf_merge hE l1 l2 im r h1 h2 h

theorem pvLeaf_evaluable {E : Env} {X Y : Nat} (hE : E.get? "python_version" = some (Version.relText [X, Y]))
    {l : Leaf} (h : PvLeaf l) : ∃ b, l.validate E = .ok b := by
  obtain ⟨sop, ops, a, b, hm, rfl⟩ := h
  exact ⟨_, pvLeaf_eval hE hm a b⟩

/-- `python_version` comparison leaves together with plain string variables and `extra` -/
def PvDomLeaf (E : Env) (l : Leaf) : Prop := PlainLeaf E l ∨ PvLeaf l

theorem pvLeaf_name {l : Leaf} (h : PvLeaf l) : l.name = "python_version" := by
  obtain ⟨_, _, _, _, _, rfl⟩ := h; rfl

theorem leafSpec_pvDom {E : Env} {ex : List String} (hX : E.extras = some ex) {X Y : Nat}
    (hE : E.get? "python_version" = some (Version.relText [X, Y])) : LeafSpec (leafEval E) (PvDomLeaf E) := by
  refine LeafSpec.or (leafSpec_plain hX) (leafSpec_pv hE) ?_
  intro a b ha hb
  have hb' := pvLeaf_name hb
  rcases plainLeaf_name ha with h | h
  · rw [pyPair, pyPair, h, hb']; decide
  · simp only [plainStringVars, List.mem_cons, List.mem_nil_iff, or_false] at h
    rcases h with h | h | h | h | h | h | h <;> (rw [pyPair, pyPair, h, hb']; decide)

theorem pvDomLeaf_evaluable {E : Env} {ex : List String} (hX : E.extras = some ex) {X Y : Nat}
    (hE : E.get? "python_version" = some (Version.relText [X, Y])) {l : Leaf} (h : PvDomLeaf E l) :
    ∃ b, l.validate E = .ok b := by
  rcases h with h | h
  · exact plainLeaf_evaluable hX h
  · exact pvLeaf_evaluable hE h

end Poetry.Marker
