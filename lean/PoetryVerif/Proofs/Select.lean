/- Lemmas about the file-selection model (Model/Select.lean) used by Props/C09. -/
import PoetryVerif.Model.Select

set_option linter.unusedSimpArgs false
set_option linter.unusedVariables false

namespace Poetry.Select

/-! ### `set.add` bookkeeping -/

theorem mem_addSel {acc : List Sel} {x s : Sel} (h : s ∈ addSel acc x) : s ∈ acc ∨ s = x := by
  unfold addSel at h
  split at h
  · exact .inl h
  · simpa using h

theorem subset_addSel {acc : List Sel} {x s : Sel} (h : s ∈ acc) : s ∈ addSel acc x := by
  unfold addSel; split
  · exact h
  · simp [h]

theorem mem_foldl_addSel {xs acc : List Sel} {s : Sel} (h : s ∈ xs.foldl addSel acc) : s ∈ acc ∨ s ∈ xs := by
  induction xs generalizing acc with
  | nil => exact .inl h
  | cons x xs ih =>
    rcases ih h with h1 | h1
    · rcases mem_addSel h1 with h2 | h2
      · exact .inl h2
      · exact .inr (by simp [h2])
    · exact .inr (by simp [h1])

theorem acc_subset_foldl_addSel {xs acc : List Sel} {s : Sel} (h : s ∈ acc) : s ∈ xs.foldl addSel acc := by
  induction xs generalizing acc with
  | nil => exact h
  | cons x xs ih => exact ih (subset_addSel h)

theorem src_addSel (acc : List Sel) (x : Sel) : ∃ s ∈ addSel acc x, s.src = x.src := by
  unfold addSel
  split
  · rename_i h
    obtain ⟨t, ht, he⟩ := List.any_eq_true.mp h
    exact ⟨t, ht, by simpa using he⟩
  · exact ⟨x, by simp, rfl⟩

/-- every source path offered to the set ends up in it (perhaps under the archive name of an earlier offer) -/
theorem src_mem_foldl_addSel {xs acc : List Sel} {x : Sel} (h : x ∈ xs) :
    ∃ s ∈ xs.foldl addSel acc, s.src = x.src := by
  induction xs generalizing acc with
  | nil => simp at h
  | cons y ys ih =>
    rcases List.mem_cons.mp h with rfl | h'
    · obtain ⟨s, hs, he⟩ := src_addSel acc x
      exact ⟨s, by simpa [List.foldl_cons] using acc_subset_foldl_addSel (xs := ys) hs, he⟩
    · exact ih h'

/-! ### the `is_excluded` loop -/

theorem prefixHit_false {excl : List String} :
    ∀ (fuel : Nat) (p : Path), p.length < fuel → prefixHit excl fuel p = false →
      ∀ q, q ≠ [] → q <+: p → posix q ∉ excl := by
  intro fuel
  induction fuel with
  | zero => intro p h; omega
  | succ n ih =>
    intro p hlen h q hq hpre
    unfold prefixHit at h
    have h1 : posix p ∉ excl := by
      intro hm; simp [hm] at h
    have h2 : p.length > 1 → prefixHit excl n p.dropLast = false := by
      intro hl; simpa [h1, hl] using h
    by_cases hqp : q = p
    · subst hqp; exact h1
    · -- q is a proper prefix: it is a prefix of p.dropLast, and p has at least two components
      obtain ⟨t, ht⟩ := hpre
      have htne : t ≠ [] := by
        intro h0; subst h0; simp at ht; exact hqp ht
      have hdl : q <+: p.dropLast := by
        subst ht
        rw [List.dropLast_append_of_ne_nil htne]
        exact List.prefix_append _ _
      have hlen2 : p.length > 1 := by
        subst ht
        have : q.length ≥ 1 := by cases q <;> simp_all
        have : t.length ≥ 1 := by cases t <;> simp_all
        simp; omega
      exact ih p.dropLast (by simp; omega) (h2 hlen2) q hq hdl

theorem not_excluded_prefixes {excl : List String} {p : Path} (h : isExcluded excl p = false) :
    isBytecode p = false ∧ ∀ q, q ≠ [] → q <+: p → posix q ∉ excl := by
  unfold isExcluded at h
  simp only [Bool.or_eq_false_iff] at h
  exact ⟨h.1, prefixHit_false (p.length + 1) p (by omega) h.2⟩


/-! ### `mapM` in `Except` -/

theorem mapM_ok_mem {α β : Type} {f : α → PyM β} :
    ∀ {xs : List α} {ys : List β}, xs.mapM f = .ok ys →
      (∀ y ∈ ys, ∃ x ∈ xs, f x = .ok y) ∧ (∀ x ∈ xs, ∃ y ∈ ys, f x = .ok y) := by
  intro xs
  induction xs with
  | nil => intro ys h; simp [List.mapM_nil, pure, Except.pure] at h; subst h; simp
  | cons x xs ih =>
    intro ys h
    rw [List.mapM_cons] at h
    cases hx : f x with
    | error e => simp [hx, bind, Except.bind] at h
    | ok y =>
      cases hxs : xs.mapM f with
      | error e => simp [hx, hxs, bind, Except.bind] at h
      | ok ys' =>
        simp [hx, hxs, bind, Except.bind, pure, Except.pure] at h
        subst h
        obtain ⟨a, b⟩ := ih hxs
        constructor
        · intro z hz
          rcases List.mem_cons.mp hz with rfl | hz
          · exact ⟨x, by simp, hx⟩
          · obtain ⟨w, hw, he⟩ := a z hz; exact ⟨w, by simp [hw], he⟩
        · intro w hw
          rcases List.mem_cons.mp hw with rfl | hw
          · exact ⟨y, by simp, hx⟩
          · obtain ⟨z, hz, he⟩ := b w hw; exact ⟨z, by simp [hz], he⟩

/-! ### globbing -/

theorem stripBase_nil (p : Path) : stripBase [] p = some p := by cases p <;> rfl

theorem mem_insertBy {α : Type} (le : α → α → Bool) (x y : α) (ys : List α) :
    y ∈ insertBy le x ys ↔ y = x ∨ y ∈ ys := by
  induction ys with
  | nil => simp [insertBy]
  | cons z zs ih =>
    unfold insertBy
    split
    · simp
    · simp [ih]; grind

theorem mem_isort {α : Type} (le : α → α → Bool) (y : α) (xs : List α) : y ∈ isort le xs ↔ y ∈ xs := by
  induction xs with
  | nil => simp [isort]
  | cons x xs ih => simp [isort, mem_insertBy, ih]

theorem mem_sortEntries {es : List Entry} {e : Entry} : e ∈ sortEntries es ↔ e ∈ es := by
  unfold sortEntries; exact mem_isort _ _ _

theorem mem_globFrom_root {T : Tree} {pat : Pattern} {e : Entry} (h : e ∈ globFrom T [] pat) :
    e ∈ T ∧ globMatch pat e.path e.isDir = true := by
  unfold globFrom at h
  split at h
  · simp at h
  · rw [mem_sortEntries, List.mem_filter] at h
    simpa [stripBase_nil] using h

theorem mem_globFrom_root_iff {T : Tree} {pat : Pattern} {e : Entry} (hroot : isDirIn T [] = true) :
    e ∈ globFrom T [] pat ↔ e ∈ T ∧ globMatch pat e.path e.isDir = true := by
  unfold globFrom
  simp [hroot, mem_sortEntries, List.mem_filter, stripBase_nil]

/-! ### module construction -/

theorem mkInclude_ok {T : Tree} {spec : IncSpec} {o : IncObj} (h : mkInclude T spec = .ok o) :
    ∃ pat, parsePattern spec.path = .ok pat ∧ o.isPackage = false ∧ o.formats = spec.formats ∧
      o.elements = globFrom T [] pat ∧ o.pattern = pat := by
  unfold mkInclude at h
  cases hp : parsePattern spec.path with
  | error e => simp [hp, bind, Except.bind] at h
  | ok pat =>
    simp [hp, bind, Except.bind] at h
    subst h
    exact ⟨pat, rfl, rfl, rfl, rfl, rfl⟩

theorem mkPackage_ok {T : Tree} {rn : String} {spec : PkgSpec} {o : IncObj}
    (h : mkPackage T rn spec = .ok o) :
    ∃ pat els, parsePattern spec.incl = .ok pat ∧
      checkElements T rn (globFrom T (match spec.source with | some s => parseRel s | none => []) pat) = .ok els ∧
      o = { isPackage := true, base := (match spec.source with | some s => parseRel s | none => []), pattern := pat,
            source := spec.source.map parseRel, target := spec.target.map parseRel, formats := spec.formats,
            elements := els } := by
  unfold mkPackage at h
  cases hp : parsePattern spec.incl with
  | error e => simp [hp, bind, Except.bind] at h
  | ok pat =>
    simp only [hp, bind, Except.bind] at h
    split at h
    · simp at h
    · rename_i els hels
      simp at h
      exact ⟨pat, els, rfl, hels, h.symm⟩

theorem mkPackage_isPackage {T : Tree} {rn : String} {spec : PkgSpec} {o : IncObj}
    (h : mkPackage T rn spec = .ok o) : o.isPackage = true := by
  obtain ⟨pat, els, _, _, rfl⟩ := mkPackage_ok h; rfl

theorem mkModule_ok {fmt : Fmt} {T : Tree} {cfg : Cfg} {pobjs iobjs : List IncObj}
    (h : mkModule fmt T cfg = .ok (pobjs, iobjs)) :
    (∀ o ∈ pobjs, o.isPackage = true) ∧
    (∀ o ∈ iobjs, ∃ spec ∈ cfg.includes, fmt.name ∈ spec.formats ∧ mkInclude T spec = .ok o) ∧
    (∀ spec ∈ cfg.includes, fmt.name ∈ spec.formats → ∃ o ∈ iobjs, mkInclude T spec = .ok o) ∧
    (∃ pkgs : List PkgSpec, modulePackages fmt T cfg = .ok pkgs ∧
      pkgs.mapM (mkPackage T cfg.rootName) = .ok pobjs) := by
  unfold mkModule at h
  simp only [bind, Except.bind, pure, Except.pure] at h
  split at h
  · simp at h
  · rename_i pkgs hpk
    split at h
    · simp at h
    · rename_i po hpo
      split at h
      · simp at h
      · rename_i io hio
        cases h
        obtain ⟨a1, a2⟩ := mapM_ok_mem hpo
        obtain ⟨b1, b2⟩ := mapM_ok_mem hio
        refine ⟨?_, ?_, ?_, ?_⟩
        · intro o ho
          obtain ⟨x, _, hx⟩ := a1 o ho
          exact mkPackage_isPackage hx
        · intro o ho
          obtain ⟨x, hx, he⟩ := b1 o ho
          rw [List.mem_filter] at hx
          exact ⟨x, hx.1, by simpa using hx.2, he⟩
        · intro spec hs hf
          obtain ⟨y, hy, he⟩ := b2 spec (by rw [List.mem_filter]; exact ⟨hs, by simpa using hf⟩)
          exact ⟨y, hy, he⟩
        · exact ⟨pkgs, hpk, hpo⟩

theorem findFilesToAdd_ok {fmt : Fmt} {T : Tree} {cfg : Cfg} {ig : List String} {S : List Sel}
    (h : findFilesToAdd fmt T cfg ig = .ok S) :
    ∃ pobjs iobjs excl, mkModule fmt T cfg = .ok (pobjs, iobjs) ∧
      excludedSet fmt T cfg ig iobjs = .ok excl ∧
      S = ((pobjs ++ iobjs).flatMap (processInclude fmt T excl)).foldl addSel [] := by
  unfold findFilesToAdd at h
  simp only [bind, Except.bind] at h
  split at h
  · simp at h
  · rename_i m hm
    obtain ⟨pobjs, iobjs⟩ := m
    simp only at h
    split at h
    · simp at h
    · rename_i excl hex
      cases h
      exact ⟨pobjs, iobjs, excl, hm, hex, rfl⟩

theorem excludedSet_ok {fmt : Fmt} {T : Tree} {cfg : Cfg} {ig : List String} {iobjs : List IncObj} {excl : List String}
    (h : excludedSet fmt T cfg ig iobjs = .ok excl) :
    ∃ ee, explicitExcluded T cfg.excludes = .ok ee ∧
      excl = (ig ++ ee).filter (fun s => !(explicitIncluded fmt iobjs).contains s) := by
  unfold excludedSet at h
  simp only [bind, Except.bind] at h
  split at h
  · simp at h
  · rename_i ee hee
    cases h
    exact ⟨ee, hee, rfl⟩

/-- where a selected file comes from -/
theorem mem_processElement {fmt : Fmt} {T : Tree} {excl : List String} {inc : IncObj} {el : Entry} {s : Sel}
    (h : s ∈ processElement fmt T excl inc el) :
    el.path.contains Gen.pycacheDirName = false ∧
    ((el.isDir = true ∧ inc.formats.contains fmt.name = true ∧
        ∃ c ∈ descendants T el.path, c.isDir = false ∧ isExcluded excl c.path = false ∧ s = mkSel fmt inc c) ∨
     (el.isDir = false ∧ (isExcluded excl el.path = false ∨ inc.isPackage = false) ∧ s = mkSel fmt inc el)) := by
  unfold processElement at h
  split at h
  · simp at h
  · rename_i hpc
    refine ⟨by simpa using hpc, ?_⟩
    split at h
    · rename_i hd
      split at h
      · rename_i hf
        rw [List.mem_filterMap] at h
        obtain ⟨c, hc, he⟩ := h
        split at he
        · simp at he
        · rename_i hcond
          simp at he
          simp only [Bool.or_eq_true, not_or, Bool.not_eq_true] at hcond
          exact .inl ⟨hd, hf, c, hc, hcond.1, hcond.2, he.symm⟩
      · simp at h
    · rename_i hd
      split at h
      · simp at h
      · rename_i hcond
        simp at h
        refine .inr ⟨by simpa using hd, ?_, h⟩
        simp only [Bool.and_eq_true, not_and, Bool.not_eq_true] at hcond
        by_cases hx : isExcluded excl el.path = true
        · exact .inr (hcond hx)
        · exact .inl (by simpa using hx)

theorem mkSel_src (fmt : Fmt) (inc : IncObj) (e : Entry) : (mkSel fmt inc e).src = e.path := rfl
theorem mkSel_isDir (fmt : Fmt) (inc : IncObj) (e : Entry) : (mkSel fmt inc e).isDir = e.isDir := rfl

theorem mem_descendants {T : Tree} {d : Path} {c : Entry} (h : c ∈ descendants T d) :
    c ∈ T ∧ ∃ rel, rel ≠ [] ∧ c.path = d ++ rel := by
  unfold descendants at h
  rw [List.mem_filter] at h
  refine ⟨h.1, ?_⟩
  have h2 := h.2
  split at h2
  · rename_i rel hrel
    refine ⟨rel, by simpa using h2, ?_⟩
    clear h h2
    generalize c.path = p at hrel
    induction d generalizing p with
    | nil => simp [stripBase_nil] at hrel; simp [hrel]
    | cons b bs ih =>
      cases p with
      | nil => simp [stripBase] at hrel
      | cons x xs =>
        simp only [stripBase] at hrel
        split at hrel
        · rename_i hb
          have := ih xs hrel
          simp at hb
          simp [hb, this]
        · simp at hrel
  · simp at h2

theorem stripBase_nil_getD (p : Path) : (stripBase [] p).getD p = p := by simp [stripBase_nil]

/-- in the sdist every file keeps its project-relative path (source root = project root, no target) -/
theorem sdist_arc_eq_src {T : Tree} {cfg : Cfg} {ig : List String} {B A : List Sel} {s : Sel}
    (hs : s ∈ B ∨ (Fmt.sdist = Fmt.sdist ∧ ∃ A', sdistAdditional T cfg = .ok A' ∧ s ∈ A'))
    (hB : findFilesToAdd .sdist T cfg ig = .ok B) (hA : sdistAdditional T cfg = .ok A) : s.arc = s.src := by
  rcases hs with hs | ⟨_, A', hA', hs⟩
  · obtain ⟨pobjs, iobjs, excl, hm, hex, rfl⟩ := findFilesToAdd_ok hB
    rcases mem_foldl_addSel hs with hs | hs
    · simp at hs
    rw [List.mem_flatMap] at hs
    obtain ⟨inc, _, hs⟩ := hs
    unfold processInclude at hs
    rw [List.mem_flatMap] at hs
    obtain ⟨el, _, hs⟩ := hs
    obtain ⟨_, hcase⟩ := mem_processElement hs
    have : ∀ e : Entry, (mkSel .sdist inc e).arc = (mkSel .sdist inc e).src := by
      intro e
      unfold mkSel
      cases inc.isPackage <;> cases inc.source <;> cases inc.target <;> simp [stripBase_nil]
    rcases hcase with ⟨_, _, c, _, _, _, rfl⟩ | ⟨_, _, rfl⟩ <;> exact this _
  · unfold sdistAdditional at hA'
    cases hsc : scriptFiles T cfg with
    | error e => simp [hsc, bind, Except.bind] at hA'
    | ok scripts =>
      simp only [hsc, bind, Except.bind] at hA'
      cases hA'
      rw [List.mem_filterMap] at hs
      obtain ⟨p, _, hp⟩ := hs
      split at hp
      · simp at hp; subst hp; rfl
      · simp at hp

/-! ### path-locality of globbing; the unpacked tree -/

theorem mem_globFrom_iff {T : Tree} {base : Path} {pat : Pattern} {e : Entry} :
    e ∈ globFrom T base pat ↔
      isDirIn T base = true ∧ e ∈ T ∧ ∃ rel, stripBase base e.path = some rel ∧ globMatch pat rel e.isDir = true := by
  unfold globFrom
  by_cases hb : isDirIn T base = true
  · simp only [hb, Bool.not_true, Bool.false_eq_true, if_false, mem_sortEntries, List.mem_filter, true_and]
    constructor
    · rintro ⟨h1, h2⟩
      split at h2
      · rename_i rel hrel; exact ⟨h1, rel, hrel, h2⟩
      · simp at h2
    · rintro ⟨h1, rel, hrel, h2⟩
      exact ⟨h1, by simp [hrel, h2]⟩
  · simp [hb]

theorem mem_unpack {T : Tree} {S : List Sel} {txt : String} {e : Entry} :
    e ∈ unpack T S txt ↔
      (e ∈ T ∧ S.any (fun s => (stripBase e.path s.arc).isSome && (e.isDir || e.path == s.arc)) = true) ∨
      e = { path := [Gen.sdistPkgInfoName], isDir := false, content := txt } := by
  unfold unpack
  simp only [List.mem_append, List.mem_filter, List.mem_singleton]

theorem isDirIn_unpack {T : Tree} {S : List Sel} {txt : String} {p : Path}
    (h : isDirIn (unpack T S txt) p = true) : isDirIn T p = true := by
  unfold isDirIn at *
  obtain ⟨e, he, hc⟩ := List.any_eq_true.mp h
  rcases mem_unpack.mp he with ⟨heT, _⟩ | rfl
  · exact List.any_eq_true.mpr ⟨e, heT, hc⟩
  · simp at hc

end Poetry.Select
