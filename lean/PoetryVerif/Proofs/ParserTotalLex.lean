/-
C19 helper lemmas (lexability): when does the marker grammar read back the text `SingleMarker.__str__`
prints (`leafText`, with the quote choice `quoteOf` of repo fix 3046ca3), and consequences for `invert` and for
the re-parsing steps of the simplifier.
-/
import PoetryVerif.Proofs.ParserTotalSimp2
import PoetryVerif.Proofs.MarkerPrintChars
import PoetryVerif.Model.MarkerOps

set_option linter.unusedSimpArgs false
set_option linter.unusedVariables false

namespace Poetry.ParserTotal
open Poetry Marker

/-! ## values the grammar can read back -/

/-- no single quote -/
def SqOk (v : String) : Prop := ∀ c ∈ v.toList, c ≠ '\''

/-- **lexable value**: it can stand between double quotes (no `"`, no backslash, no newline — `ESCAPED_STRING`),
or it holds a double quote — then `_quoted` prints it between single quotes — and no single quote
(`SINGLE_QUOTED_STRING` = `'[^']*'`, which accepts backslashes and newlines).  A value with a backslash and no
double quote, or with both quote characters, is NOT lexable: see the counterexamples in Props/C19lex.lean. -/
def LexVal (v : String) : Prop := ValOk v ∨ (v.toList.contains '"' = true ∧ SqOk v)

theorem singleQuoted_ok (l rest : List Char) (h : ∀ c ∈ l, c ≠ '\'') :
    singleQuoted (l ++ '\'' :: rest) = some (l, rest) := by
  induction l with
  | nil => simp [singleQuoted]
  | cons c cs ih =>
    have hc := h c (by simp)
    have := ih (fun d hd => h d (by simp [hd]))
    simp only [List.cons_append]
    rw [singleQuoted]
    · simp [this]
    all_goals simp_all

theorem markerValue_sq (v rest : List Char) (h : ∀ c ∈ v, c ≠ '\'') :
    markerValue ('\'' :: (v ++ '\'' :: rest)) = some (String.ofList v, rest) := by
  simp [markerValue, singleQuoted_ok v rest h]

/-- `name op 'value'` -/
theorem parseItem_plain_sq (n op v : String) (hn : n ∈ names) (ho : op ∈ ops) (hv : SqOk v) (rest : List Char) :
    parseItem (n.toList ++ ' ' :: (op.toList ++ ' ' :: '\'' :: (v.toList ++ '\'' :: rest))) =
      some (.item n op v false, rest) := by
  have h0 := (name_head n hn (' ' :: (op.toList ++ ' ' :: '\'' :: (v.toList ++ '\'' :: rest)))).1
  have h1 := matchName_sp n hn (op.toList ++ ' ' :: '\'' :: (v.toList ++ '\'' :: rest))
  have h2 := matchOp_sp op ho ('\'' :: (v.toList ++ '\'' :: rest))
  have h3 := markerValue_sq v.toList rest hv
  unfold parseItem
  simp only [h0, h1, skipWs_sp, op_head op ho, h2]
  have e : skipWs ('\'' :: (v.toList ++ '\'' :: rest)) = '\'' :: (v.toList ++ '\'' :: rest) := by simp [skipWs]
  simp only [e, h3, String.ofList_toList]

/-- `'value' op name` -/
theorem parseItem_swapped_sq (n op v : String) (hn : n ∈ names) (ho : op ∈ ops) (hv : SqOk v)
    (rest : List Char) (hr : NameStop rest) :
    parseItem ('\'' :: (v.toList ++ '\'' :: ' ' :: (op.toList ++ ' ' :: (n.toList ++ rest)))) =
      some (.item n op v true, rest) := by
  have h1 := matchName_stop n hn rest hr
  have h2 := matchOp_sp op ho (n.toList ++ rest)
  have h3 := markerValue_sq v.toList (' ' :: (op.toList ++ ' ' :: (n.toList ++ rest))) hv
  have h4 := (name_head n hn rest).2.1
  unfold parseItem
  simp only [h3, skipWs_sp, op_head op ho, h2, h4, h1, String.ofList_toList]

/-- a text that is exactly one item -/
theorem parseText_of_item (text : String) (a : Marker.Atom) (h : parseItem text.toList = some (a, []))
    (h1 : skipWs text.toList = text.toList) (h2 : ∀ r, text.toList ≠ '(' :: r) :
    parseText text = .ok (.one a) := by
  unfold parseText
  simp only
  have hf : 2 * text.toList.length + 2 = (2 * text.toList.length) + 1 + 1 := by omega
  have hb : matchWord boolOps [] = none := by
    have := noBool_of_endOk (rest := []) (Or.inl rfl)
    simpa [skipWs] using this
  rw [hf, parseSyn, parseAtom_item _ _ h1 h2, h]
  simp [hb, skipWs]

theorem quoteOf_sq {v : String} (h : v.toList.contains '"' = true) (hs : SqOk v) : quoteOf v = "'" := by
  unfold quoteOf
  have h2 : v.toList.contains '\'' = false := by
    cases hc : v.toList.contains '\'' with
    | false => rfl
    | true => exact absurd rfl (hs _ (List.contains_iff_mem.mp hc))
  rw [h, h2]; simp

/-- **the grammar reads back what `SingleMarker.__str__` prints**, for a grammar name, a grammar operator and a
lexable value -/
theorem parseText_leafText (n op v : String) (sw : Bool) (hn : n ∈ names) (ho : op ∈ ops) (hv : LexVal v) :
    parseText (leafText n op v sw) = .ok (.one (.item n op v sw)) := by
  rcases hv with hv | ⟨hq, hv⟩
  · have := Marker.parseText_text (.one (.item n op v sw)) ⟨hn, ho, hv⟩
    simpa [Syn.text, Atom.text] using this
  · cases sw with
    | false =>
      have ht : (leafText n op v false).toList =
          n.toList ++ ' ' :: (op.toList ++ ' ' :: '\'' :: (v.toList ++ '\'' :: [])) := by
        simp [leafText, quoteOf_sq hq hv, String.toList_append]
      have hh := name_head n hn (' ' :: (op.toList ++ ' ' :: '\'' :: (v.toList ++ '\'' :: [])))
      apply parseText_of_item
      · rw [ht]; exact parseItem_plain_sq n op v hn ho hv []
      · rw [ht]; exact hh.2.1
      · rw [ht]; exact hh.2.2
    | true =>
      have ht : (leafText n op v true).toList =
          '\'' :: (v.toList ++ '\'' :: ' ' :: (op.toList ++ ' ' :: (n.toList ++ []))) := by
        simp [leafText, quoteOf_sq hq hv, String.toList_append]
      apply parseText_of_item
      · rw [ht]; exact parseItem_swapped_sq n op v hn ho hv [] (Or.inl rfl)
      · rw [ht]; simp [skipWs]
      · rw [ht]; intro r hr; cases hr

/-! ## `invert` -/

theorem invertOps_values : ∀ p ∈ Gen.markerInvertOps, p.2 = "<special>" ∨ p.2 ∈ ops := by decide

theorem invertOp?_mem {op op' : String} (h : invertOp? op = some op') : op' = "<special>" ∨ op' ∈ ops := by
  unfold invertOp? at h
  cases hf : Gen.markerInvertOps.find? (fun p => p.1 == op) with
  | none => simp [hf] at h
  | some p =>
    simp only [hf, Option.map_some, Option.some.injEq] at h
    subst h
    exact invertOps_values p (List.mem_of_find?_eq_some hf)

theorem parseItemMarker_leafText (n op v : String) (sw : Bool) (hn : n ∈ names) (ho : op ∈ ops) (hv : LexVal v) :
    parseItemMarker (leafText n op v sw) =
      (mkSingle n (itemConstraintString op v sw) sw >>= fun s => pure (.leaf (.single s))) := by
  unfold parseItemMarker
  rw [parseText_leafText n op v sw hn ho hv]

/-- errors of `SingleMarker.invert` (operators other than `~=`) on a lexable leaf: never lark's -/
theorem invertSimple_err (hvc : VCErrDocumented) (s : Single) (hn : s.name ∈ names) (hv : LexVal s.value)
    (e : PyErr) (h : invertSimple s = .error e) : e = .runtime ∨ e = .value ∨ e = .unmodelled := by
  unfold invertSimple at h
  split at h
  · cases h; exact .inl rfl
  · cases h; exact .inr (.inr rfl)
  · rename_i op' hns hop
    rcases invertOp?_mem hop with h' | ho
    · exact absurd h' hns
    · unfold invertedLeafText at h
      rw [parseItemMarker_leafText _ _ _ _ hn ho hv] at h
      rcases bind_err _ _ _ h with h | ⟨_, _, h⟩
      · rcases mkSingle_leafErr hvc _ _ _ _ h with h | h
        · exact .inr (.inl h)
        · exact .inr (.inr h)
      · simp [pure, Except.pure] at h

open Generic in
theorem gs_invert_err (c : GS) (e : PyErr) (h : c.invert = .error e) : e = .value := by
  cases c with
  | any => simp [GS.invert] at h
  | empty => simp [GS.invert] at h
  | atom a =>
    simp only [GS.invert] at h
    cases ha : a.invert with
    | error e' => simp only [ha] at h; cases h; exact atom_invert_err _ _ ha
    | ok b => simp [ha] at h
  | multi x cs =>
    simp only [GS.invert] at h
    cases hm : mapE Atom.invert cs with
    | error e' =>
      simp only [hm] at h; cases h
      obtain ⟨a, _, ha⟩ := mapE_err _ _ _ hm
      exact atom_invert_err _ _ ha
    | ok l => simp [hm] at h

open Generic in
/-- `invert` of a string constraint: `ValueError`, or the `NotImplementedError` of `UnionConstraint.invert` -/
theorem gc_invert_err (c : GC) (e : PyErr) (h : c.invert = .error e) : e = .value ∨ e = .notImplemented := by
  cases c with
  | s c => exact .inl (gs_invert_err c e h)
  | union ms =>
    simp only [GC.invert, unionInvert] at h
    cases hm : mapE GS.invert ms with
    | error e' =>
      simp only [hm] at h; cases h
      obtain ⟨a, _, ha⟩ := mapE_err _ _ _ hm
      exact .inl (gs_invert_err _ _ ha)
    | ok inv =>
      simp only [hm] at h
      cases ha : atomsOf? inv with
      | none => simp only [ha] at h; cases h; exact .inr rfl
      | some as =>
        simp only [ha] at h
        cases hk : mkMulti (as.any (fun a => a.x)) as with
        | error e' => simp only [hk] at h; cases h; exact .inl (mkMulti_err _ _ _ hk)
        | ok m => simp [hk] at h

/-- a leaf whose printed text the grammar reads back: grammar name, lexable value; the `~=` leaves (whose
inversion prints the bounds of the parsed constraint) are excluded here -/
def LexLeaf (l : Leaf) : Prop :=
  match l with
  | .single s => s.name ∈ names ∧ LexVal s.value ∧ s.op ≠ "~="
  | _ => True

theorem leaf_invert_no_syntax (hvc : VCErrDocumented) (l : Leaf) (hl : LexLeaf l) (e : PyErr)
    (h : l.invert = .error e) : e ≠ .syntax := by
  cases l with
  | single s =>
    obtain ⟨hn, hv, hop⟩ := hl
    unfold Leaf.invert at h
    simp only at h
    rw [if_neg (by simpa using hop)] at h
    rcases invertSimple_err hvc s hn hv e h with h | h | h <;> (rw [h]; decide)
  | amulti n c =>
    unfold Leaf.invert at h
    simp only at h
    rcases bind_err _ _ _ h with h | ⟨inv, _, h⟩
    · rcases gc_invert_err _ _ h with h | h <;> (rw [h]; decide)
    · repeat' split at h
      all_goals first
        | (simp [pure, Except.pure] at h; done)
        | (cases h; decide)
  | aunion n c =>
    unfold Leaf.invert at h
    simp only at h
    rcases bind_err _ _ _ h with h | ⟨inv, _, h⟩
    · rcases gc_invert_err _ _ h with h | h <;> (rw [h]; decide)
    · repeat' split at h
      all_goals first
        | (simp [pure, Except.pure] at h; done)
        | (cases h; decide)

mutual
theorem invert_no_syntax (hvc : VCErrDocumented) : ∀ (m : M), M.Good LexLeaf m → ∀ e, m.invert = .error e →
    e ≠ .syntax
  | .any, _, e, h => by simp [M.invert] at h
  | .empty, _, e, h => by simp [M.invert] at h
  | .leaf l, hg, e, h => by
    simp only [M.invert] at h
    exact leaf_invert_no_syntax hvc l (by simpa using hg) e h
  | .multi ms, hg, e, h => by
    simp only [M.invert] at h
    rcases bind_err _ _ _ h with h | ⟨_, _, h⟩
    · exact invertList_no_syntax hvc ms (by simpa using hg) e h
    · simp [pure, Except.pure] at h
  | .union ms, hg, e, h => by
    simp only [M.invert] at h
    rcases bind_err _ _ _ h with h | ⟨_, _, h⟩
    · exact invertList_no_syntax hvc ms (by simpa using hg) e h
    · simp [pure, Except.pure] at h
theorem invertList_no_syntax (hvc : VCErrDocumented) : ∀ (ms : List M), (∀ x ∈ ms, M.Good LexLeaf x) → ∀ e,
    M.invertList ms = .error e → e ≠ .syntax
  | [], _, e, h => by simp [M.invertList] at h
  | m :: ms, hg, e, h => by
    simp only [M.invertList] at h
    rcases bind_err _ _ _ h with h | ⟨_, _, h⟩
    · exact invert_no_syntax hvc m (hg m (by simp)) e h
    · rcases bind_err _ _ _ h with h | ⟨_, _, h⟩
      · exact invertList_no_syntax hvc ms (fun x hx => hg x (by simp [hx])) e h
      · simp [pure, Except.pure] at h
end

/-! ## the value a leaf stores is made of characters of its constraint string -/

theorem dotPlusToEnd_sub (s v : List Char) (h : dotPlusToEnd? s = some v) : ∀ c ∈ v, c ∈ s := by
  unfold dotPlusToEnd? at h
  simp only at h
  split at h
  · cases h
  · split at h
    · cases h
      intro c hc
      exact (List.takeWhile_sublist _).subset hc
    · cases h

theorem spacesGo_sub (s : List Char) : ∀ (fuel j : Nat) (v : List Char), spacesThenValue?.go s j fuel = some v →
    ∀ c ∈ v, c ∈ s := by
  intro fuel
  induction fuel with
  | zero => intro j v h; simp [spacesThenValue?.go] at h
  | succ f ih =>
    intro j v h
    unfold spacesThenValue?.go at h
    split at h
    · rename_i w hw
      cases h
      intro c hc
      exact (List.drop_sublist _ _).subset (dotPlusToEnd_sub _ _ hw c hc)
    · split at h
      · cases h
      · exact ih _ _ h

theorem spacesThenValue_sub (s v : List Char) (h : spacesThenValue? s = some v) : ∀ c ∈ v, c ∈ s :=
  spacesGo_sub s _ _ v h

theorem stripPrefixCI_sub (p s o r : List Char) (h : stripPrefixCI? p s = some (o, r)) : ∀ c ∈ r, c ∈ s := by
  unfold stripPrefixCI? at h
  split at h
  · cases h
    intro c hc
    exact (List.drop_sublist _ _).subset hc
  · cases h

theorem tryOps_sub (s : List Char) : ∀ (l : List String) (og : Option String) (val : String),
    matchPattern1.tryOps s l = some (og, val) → ∀ c ∈ val.toList, c ∈ s := by
  intro l
  induction l with
  | nil =>
    intro og val h
    unfold matchPattern1.tryOps at h
    split at h
    · rename_i v hv
      cases h
      simpa using spacesThenValue_sub _ _ hv
    · cases h
  | cons o rest ih =>
    intro og val h
    unfold matchPattern1.tryOps at h
    split at h
    · rename_i orig r hs
      split at h
      · rename_i v hv
        cases h
        intro c hc
        simp only [String.toList_ofList] at hc
        exact stripPrefixCI_sub _ _ _ _ hs c (spacesThenValue_sub _ _ hv c hc)
      · exact ih _ _ h
    · exact ih _ _ h

theorem matchPattern1_sub (s : List Char) (og : Option String) (val : String)
    (h : matchPattern1 s = some (og, val)) : ∀ c ∈ val.toList, c ∈ s := tryOps_sub s _ og val h

theorem strCmpGo_sub (q : Char) (body : List Char) : ∀ (fuel j : Nat) (val op : String),
    Marker.matchStrCmp.go q body j fuel = some (val, op) → ∀ c ∈ val.toList, c ∈ body := by
  intro fuel
  induction fuel with
  | zero => intro j val op h; simp [Marker.matchStrCmp.go] at h
  | succ f ih =>
    intro j val op h
    unfold Marker.matchStrCmp.go at h
    repeat' split at h
    all_goals first
      | (cases h; done)
      | exact ih _ _ _ h
      | (cases h
         intro c hc
         simp only [String.toList_ofList] at hc
         exact (List.take_sublist _ _).subset hc)

theorem matchStrCmp_sub (s : List Char) (val op : String) (h : Marker.matchStrCmp s = some (val, op)) :
    ∀ c ∈ val.toList, c ∈ s := by
  unfold Marker.matchStrCmp at h
  split at h
  · rename_i q body
    split at h
    · cases h
    · intro c hc
      exact List.mem_cons_of_mem _ (strCmpGo_sub q body _ _ _ _ h c hc)
  · cases h

theorem join_dotzero_chars (k : Nat) : ∀ c ∈ (String.join (List.replicate k ".0")).toList, c = '.' ∨ c = '0' := by
  induction k with
  | zero => intro c hc; simp [String.join] at hc
  | succ k ih =>
    intro c hc
    simp only [List.replicate_succ, String.join_cons, String.toList_append] at hc
    simp only [List.mem_append] at hc
    rcases hc with hc | hc
    · have : ".0".toList = ['.', '0'] := by decide
      rw [this] at hc
      simp at hc
      rcases hc with rfl | rfl <;> simp
    · exact ih c hc

/-- what `SingleMarker.__init__` stores as value: characters of the constraint string (or the `.0` padding of
`python_full_version`), and the operator group when the text was not swapped -/
theorem leafPrepare_value_sub (name cstr : String) (p : LeafPrep) (h : leafPrepare name cstr false = .ok p) :
    (∀ c ∈ p.value.toList, c ∈ cstr.toList ∨ c = '.' ∨ c = '0') ∧ p.name = aliasName name ∧
    ∃ og val, matchPattern1 cstr.toList = some (og, val) ∧ p.op = og.getD "==" := by
  unfold leafPrepare at h
  simp only [Bool.false_eq_true, if_false] at h
  cases hm : matchPattern1 cstr.toList with
  | none => simp [hm] at h
  | some pr =>
    obtain ⟨og, val⟩ := pr
    have hsub := matchPattern1_sub _ og val hm
    simp only [hm] at h
    repeat' split at h
    all_goals first
      | (cases h; done)
      | (cases h
         refine ⟨?_, rfl, og, val, rfl, rfl⟩
         intro c hc
         first
           | exact .inl (hsub c hc)
           | (simp only [String.toList_append, List.mem_append] at hc
              rcases hc with hc | hc
              · exact .inl (hsub c hc)
              · exact .inr (join_dotzero_chars _ c hc)))

theorem mkSingle_value_sub (name cstr : String) (s : Single) (h : mkSingle name cstr false = .ok s) :
    (∀ c ∈ s.value.toList, c ∈ cstr.toList ∨ c = '.' ∨ c = '0') ∧ s.name = aliasName name ∧
    ∃ og val, matchPattern1 cstr.toList = some (og, val) ∧ s.op = og.getD "==" := by
  unfold mkSingle at h
  obtain ⟨p, hp, h⟩ := bind_ok _ _ _ h
  obtain ⟨c, _, h⟩ := bind_ok _ _ _ h
  simp only [pure, Except.pure, Except.ok.injEq] at h
  subst h
  exact leafPrepare_value_sub name cstr p hp

/-- the operator group of `_CONSTRAINT_RE_PATTERN_1`, when present, is a prefix of the text -/
theorem tryOps_op_prefix (s : List Char) : ∀ (l : List String) (o val : String),
    matchPattern1.tryOps s l = some (some o, val) → ∃ k, o.toList = s.take k := by
  intro l
  induction l with
  | nil =>
    intro o val h
    unfold matchPattern1.tryOps at h
    split at h <;> cases h
  | cons p rest ih =>
    intro o val h
    unfold matchPattern1.tryOps at h
    split at h
    · rename_i orig r hs
      split at h
      · cases h
        unfold stripPrefixCI? at hs
        split at hs
        · rename_i hc
          cases hs
          simp only [Bool.and_eq_true, decide_eq_true_eq] at hc
          exact ⟨p.toList.length, by simp⟩
        · cases hs
      · exact ih _ _ h
    · exact ih _ _ h

/-! ## the leaves `_compact_markers` builds from a lexable syntax tree -/

/-- value of an item of the input that keeps every derived leaf value lexable: no backslash, no newline, and
not both quote characters (a `'…'` token never holds `'`; a `"…"` token holds `"` only behind a backslash) -/
def InVal (v : String) : Prop :=
  (∀ c ∈ v.toList, c ≠ '\\' ∧ c ≠ '\n') ∧ ((∀ c ∈ v.toList, c ≠ '"') ∨ (∀ c ∈ v.toList, c ≠ '\''))

theorem InVal.lex {v : String} (h : InVal v) : LexVal v := by
  obtain ⟨h1, h2 | h2⟩ := h
  · exact .inl (fun c hc => ⟨h2 c hc, (h1 c hc).1, (h1 c hc).2⟩)
  · cases hq : v.toList.contains '"' with
    | true => exact .inr ⟨hq, h2⟩
    | false =>
      refine .inl (fun c hc => ⟨?_, (h1 c hc).1, (h1 c hc).2⟩)
      intro hcq
      subst hcq
      have := List.contains_iff_mem.mpr hc
      rw [hq] at this; cases this

theorem ops_chars_clean : ∀ op ∈ ops, ∀ c ∈ op.toList, c ≠ '\\' ∧ c ≠ '\n' ∧ c ≠ '"' ∧ c ≠ '\'' := by decide

theorem ops_head_not_tilde : ∀ op ∈ ops, op ≠ "~=" → op.toList.head? ≠ some '~' := by decide

theorem alias_names : ∀ n ∈ names, aliasName n ∈ names := by decide

/-- **a leaf built from a grammar item with a clean value is lexable** (items `name op "value"`) -/
theorem mkSingle_lexLeaf (n op v : String) (hn : n ∈ names) (ho : op ∈ ops) (hop : op ≠ "~=") (hv : InVal v)
    (s : Single) (h : mkSingle n (itemConstraintString op v false) false = .ok s) : LexLeaf (.single s) := by
  obtain ⟨hsub, hname, og, val, hm, hso⟩ := mkSingle_value_sub n _ s h
  have hcs : (itemConstraintString op v false).toList = op.toList ++ v.toList := by
    simp [itemConstraintString, String.toList_append]
  refine ⟨by rw [hname]; exact alias_names n hn, InVal.lex ?_, ?_⟩
  · have hcl := ops_chars_clean op ho
    have key : ∀ c ∈ s.value.toList, c ∈ v.toList ∨ (c ≠ '\\' ∧ c ≠ '\n' ∧ c ≠ '"' ∧ c ≠ '\'') := by
      intro c hc
      rcases hsub c hc with h' | h' | h'
      · rw [hcs] at h'
        simp only [List.mem_append] at h'
        rcases h' with h' | h'
        · exact .inr (hcl c h')
        · exact .inl h'
      · subst h'; exact .inr (by decide)
      · subst h'; exact .inr (by decide)
    obtain ⟨h1, h2⟩ := hv
    refine ⟨fun c hc => ?_, ?_⟩
    · rcases key c hc with h' | h'
      · exact h1 c h'
      · exact ⟨h'.1, h'.2.1⟩
    · rcases h2 with h2 | h2
      · left; intro c hc
        rcases key c hc with h' | h'
        · exact h2 c h'
        · exact h'.2.2.1
      · right; intro c hc
        rcases key c hc with h' | h'
        · exact h2 c h'
        · exact h'.2.2.2
  · intro hto
    rw [hso] at hto
    cases og with
    | none => simp at hto
    | some o =>
      simp only [Option.getD_some] at hto
      subst hto
      obtain ⟨k, hk⟩ := tryOps_op_prefix _ _ _ _ hm
      rw [hcs] at hk
      have hne := ops_head_not_tilde op ho hop
      have h2 : "~=".toList = ['~', '='] := by decide
      rw [h2] at hk
      cases hopl : op.toList with
      | nil =>
        have : op ∈ ops := ho
        rw [ops_list] at this
        simp only [List.mem_cons, List.mem_nil_iff, or_false] at this
        rcases this with rfl | rfl | rfl | rfl | rfl | rfl | rfl | rfl | rfl | rfl <;> simp at hopl
      | cons a as =>
        rw [hopl] at hk hne
        cases k with
        | zero => simp at hk
        | succ k =>
          simp only [List.cons_append, List.take_succ_cons, List.cons.injEq] at hk
          exact hne (by simp [← hk.1])

mutual
/-- **lexable input**: every item is `name op "value"` (not swapped) with a grammar name, a grammar operator
other than `~=`, and a value without backslash or newline and not holding both quote characters -/
def AtomLexIn : Marker.Atom → Prop
  | .item n op v sw => n ∈ names ∧ op ∈ ops ∧ op ≠ "~=" ∧ sw = false ∧ InVal v
  | .paren m => SynLexIn m
def SynLexIn : Syn → Prop
  | .one a => AtomLexIn a
  | .more a _ rest => AtomLexIn a ∧ SynLexIn rest
end

mutual
theorem compactAtom_lex : ∀ (a : Marker.Atom) (m : M), AtomLexIn a → compactAtom a = .ok m → M.Good LexLeaf m
  | .item n op v sw, m, hl, h => by
    obtain ⟨hn, ho, hop, rfl, hv⟩ := hl
    unfold compactAtom at h
    obtain ⟨s, hs, h⟩ := bind_ok _ _ _ h
    simp only [pure, Except.pure, Except.ok.injEq] at h
    subst h
    simpa using mkSingle_lexLeaf n op v hn ho hop hv s hs
  | .paren syn, m, hl, h => by
    unfold compactAtom at h
    obtain ⟨gs, hg, h⟩ := bind_ok _ _ _ h
    simp only [pure, Except.pure, Except.ok.injEq] at h
    subst h
    apply mkUnion_good
    intro x hx
    simp only [List.mem_map] at hx
    obtain ⟨g, hg', rfl⟩ := hx
    exact groupMarker_good (compactGroups_lex syn gs hl hg g hg')
theorem compactGroups_lex : ∀ (s : Syn) (gs : List (List M)), SynLexIn s → compactGroups s = .ok gs →
    ∀ g ∈ gs, GL LexLeaf g
  | .one a, gs, hl, h => by
    unfold compactGroups at h
    obtain ⟨x, hx, h⟩ := bind_ok _ _ _ h
    simp only [pure, Except.pure, Except.ok.injEq] at h
    subst h
    intro g hg
    simp at hg; subst hg
    exact single_good (compactAtom_lex a x hl hx)
  | .more a isOr rest, gs, hl, h => by
    unfold compactGroups at h
    obtain ⟨x, hx, h⟩ := bind_ok _ _ _ h
    obtain ⟨gs', hgs, h⟩ := bind_ok _ _ _ h
    have gx := compactAtom_lex a x hl.1 hx
    have grest := compactGroups_lex rest gs' hl.2 hgs
    split at h
    · simp only [pure, Except.pure, Except.ok.injEq] at h
      subst h
      intro g hg
      simp at hg
      rcases hg with rfl | hg
      · exact single_good gx
      · exact grest g hg
    · split at h
      · rename_i g0 gs''
        simp only [pure, Except.pure, Except.ok.injEq] at h
        subst h
        intro g hg
        simp at hg
        rcases hg with rfl | hg
        · intro y hy
          simp at hy
          rcases hy with rfl | hy
          · exact gx
          · exact grest g0 (by simp) y hy
        · exact grest g (by simp [hg])
      · simp only [pure, Except.pure, Except.ok.injEq] at h
        subst h
        intro g hg
        simp at hg; subst hg
        exact single_good gx
end

theorem compactSubMarkers_lex (syn : Syn) (subs : List M) (hl : SynLexIn syn)
    (h : compactSubMarkers syn = .ok subs) : GL LexLeaf subs := by
  unfold compactSubMarkers at h
  obtain ⟨gs, hg, h⟩ := bind_ok _ _ _ h
  simp only [pure, Except.pure, Except.ok.injEq] at h
  subst h
  intro x hx
  simp only [List.mem_map] at hx
  obtain ⟨g, hg', rfl⟩ := hx
  exact groupMarker_good (compactGroups_lex syn gs hl hg g hg')

theorem compactRaw_lex (syn : Syn) (m : M) (hl : SynLexIn syn) (h : compactRaw syn = .ok m) :
    M.Good LexLeaf m := by
  unfold compactRaw at h
  obtain ⟨subs, hs, h⟩ := bind_ok _ _ _ h
  simp only [pure, Except.pure, Except.ok.injEq] at h
  subst h
  exact mkUnion_good (compactSubMarkers_lex syn subs hl hs)

/-! ## the simplifier, given that the leaf merge does not raise lark's error -/

/-- leaf errors without lark's -/
def MErr' (e : PyErr) : Prop := e = .value ∨ e = .unmodelled

/-- the named hypothesis: on leaves satisfying `G` the merge returns `G`-markers and does not fail with
lark's error -/
def MergeNoSyntax (G : Leaf → Prop) : Prop :=
  ∀ l1 l2 b, G l1 → G l2 → Res MErr' (OptGood G) (mergeLeaves l1 l2 b)

theorem simplifier_no_syntax_of {G : Leaf → Prop} (hM : MergeNoSyntax G) (n : Nat) : InvAt G MErr' n :=
  invAt hM n

theorem unionF_no_syntax_of {G : Leaf → Prop} (hM : MergeNoSyntax G) (n : Nat) (stk : Stack) (ms : List M)
    (hg : GL G ms) (e : PyErr) (h : unionF n stk ms = .error e) :
    e = .fuel ∨ e = .recursion ∨ e = .value ∨ e = .unmodelled := by
  rcases ((invAt hM n).uniF stk ms hg).of_err h with h | h | h | h
  · exact .inl h
  · exact .inr (.inl h)
  · exact .inr (.inr (.inl h))
  · exact .inr (.inr (.inr h))

/-- the hypothesis follows from Part X plus "no `.syntax` from the merge" -/
theorem mergeNoSyntax_of_ne {P : VC → Prop} (hvc : VCErrDocumented) (hP : VCOpsTotal P)
    (hne : ∀ l1 l2 b, LeafOK P l1 → LeafOK P l2 → mergeLeaves l1 l2 b ≠ .error .syntax) :
    MergeNoSyntax (LeafOK P) := by
  intro l1 l2 b h1 h2
  have R := mergeLeaves_res hvc hP l1 l2 b h1 h2
  cases hm : mergeLeaves l1 l2 b with
  | ok o => rw [hm] at R; exact R
  | error e =>
    rw [hm] at R
    rcases R with h | h | h | h | h
    · exact .inl h
    · exact .inr (.inl h)
    · exact absurd (by rw [← h]; exact hm) (hne l1 l2 b h1 h2)
    · exact .inr (.inr (.inl h))
    · exact .inr (.inr (.inr h))

theorem compactTop_no_syntax_of {P : VC → Prop} (hvc : VCErrDocumented) (hP : VCOpsTotal P)
    (hM : MergeNoSyntax (LeafOK P)) (syn : Syn) (e : PyErr) (h : Req.compactTop syn = .error e) :
    e = .fuel ∨ e = .recursion ∨ e = .value ∨ e = .unmodelled := by
  unfold Req.compactTop at h
  rcases bind_err _ _ _ h with h | ⟨subs, hs, h⟩
  · rcases compactSubMarkers_err hvc syn _ h with h | h
    · exact .inr (.inr (.inl h))
    · exact .inr (.inr (.inr h))
  · exact unionF_no_syntax_of hM _ _ _ (compactSubMarkers_good hvc hP syn subs hs) e h

theorem parseMarker_no_syntax_of {P : VC → Prop} (hvc : VCErrDocumented) (hP : VCOpsTotal P)
    (hM : MergeNoSyntax (LeafOK P)) (s : String) (syn : Syn) (hp : parseText s = .ok syn) (e : PyErr)
    (h : parseMarker s = .error e) : e = .fuel ∨ e = .recursion ∨ e = .value ∨ e = .unmodelled := by
  rcases parseMarker_cases s _ h with ⟨_, h⟩ | ⟨_, _, h⟩ | ⟨_, _, _, h⟩
  · cases h
  · cases h
  · rcases h with ⟨e', h1, h2⟩ | ⟨syn', e', h1, h2, h3⟩ | ⟨syn', subs, h1, h2, h3⟩
    · rw [hp] at h1; cases h1
    · cases h3
      rcases compactSubMarkers_err hvc syn' _ h2 with h | h
      · exact .inr (.inr (.inl h))
      · exact .inr (.inr (.inr h))
    · exact unionF_no_syntax_of hM _ _ _ (compactSubMarkers_good hvc hP syn' subs h2) e h3.symm

def isOkB {α : Type} (x : PyM α) : Bool :=
  match x with
  | .ok _ => true
  | .error _ => false

theorem exists_ok_of_isOkB {α : Type} (x : PyM α) (h : isOkB x = true) : ∃ a, x = .ok a := by
  cases x with
  | ok a => exact ⟨a, rfl⟩
  | error e => simp [isOkB] at h

end Poetry.ParserTotal
