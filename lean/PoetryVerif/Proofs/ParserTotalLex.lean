/-
C19 helper lemmas (lexability): when does the marker grammar read back the text `SingleMarker.__str__`
prints (`leafText`, with the quote choice `quoteOf` of repo fix 3046ca3), and consequences for `invert` and for
the re-parsing steps of the simplifier.
-/
import PoetryVerif.Proofs.ParserTotalSimp2
import PoetryVerif.Proofs.MarkerPrintChars
import PoetryVerif.Model.MarkerOps
import PoetryVerif.Proofs.MarkerProjNames
import PoetryVerif.Proofs.ParserTotalVC5

set_option linter.unusedSimpArgs false
set_option linter.unusedVariables false
set_option linter.unusedTactic false

namespace Poetry.ParserTotal
open Poetry Marker

/-! ## values the grammar can read back -/

/-- no single quote -/
def SqOk (v : String) : Prop := ∀ c ∈ v.toList, c ≠ '\''

/-- the `ESCAPED_STRING` reading of `l` followed by a closing quote returns `l` (`b`: an odd run of backslashes
precedes) -/
def EscL (b : Bool) (l : List Char) : Prop := ∀ rest, escapedQuoted b (l ++ '"' :: rest) = some (l, rest)

/-- the value can be read back between double quotes -/
def EscOk (v : String) : Prop := EscL false v.toList

/-- **lexable value** (for the printing of repo fixes 3046ca3 / 7b51c5a): the quote `_quoted` chooses reads the
value back — single quotes (chosen when the value holds no `'` and holds a `"` or a backslash;
`SINGLE_QUOTED_STRING` = `'[^']*'` accepts everything but `'`), or double quotes and the `ESCAPED_STRING`
reading returns the value (no newline, every inner `"` behind an odd run of backslashes, no odd run at the end). -/
def LexVal (v : String) : Prop := (quoteOf v = "'" ∧ SqOk v) ∨ (quoteOf v = "\"" ∧ EscOk v)

theorem singleQuoted_ok (l rest : List Char) (h : ∀ c ∈ l, c ≠ '\'') :
    singleQuoted (l ++ '\'' :: rest) = some (l, rest) := by
  induction l with
  | nil => simp [singleQuoted]
  | cons c cs ih =>
    have hc := h c (by simp)
    have := ih (fun d hd => h d (by simp [hd]))
    simp only [List.cons_append]
    rw [singleQuoted]
    · simp [this]
    all_goals simp_all

/-- reading the printed value back with quote character `q` -/
def ReadBack (q : Char) (v : String) : Prop :=
  (q = '"' ∨ q = '\'') ∧ ∀ rest, markerValue (q :: (v.toList ++ q :: rest)) = some (v, rest)

theorem readBack_sq {v : String} (h : SqOk v) : ReadBack '\'' v :=
  ⟨.inr rfl, fun rest => by simp [markerValue, singleQuoted_ok v.toList rest h]⟩

theorem readBack_dq {v : String} (h : EscOk v) : ReadBack '"' v :=
  ⟨.inl rfl, fun rest => by simp [markerValue, h rest]⟩

theorem skipWs_quote {q : Char} (hq : q = '"' ∨ q = '\'') (l : List Char) : skipWs (q :: l) = q :: l := by
  rcases hq with rfl | rfl <;> simp [skipWs]

/-- `name op <q>value<q>` -/
theorem parseItem_plain_rb (q : Char) (n op v : String) (hn : n ∈ names) (ho : op ∈ ops) (hv : ReadBack q v)
    (rest : List Char) :
    parseItem (n.toList ++ ' ' :: (op.toList ++ ' ' :: q :: (v.toList ++ q :: rest))) =
      some (.item n op v false, rest) := by
  have h0 := (name_head n hn (' ' :: (op.toList ++ ' ' :: q :: (v.toList ++ q :: rest)))).1
  have h1 := matchName_sp n hn (op.toList ++ ' ' :: q :: (v.toList ++ q :: rest))
  have h2 := matchOp_sp op ho (q :: (v.toList ++ q :: rest))
  have h3 := hv.2 rest
  unfold parseItem
  simp only [h0, h1, skipWs_sp, op_head op ho, h2]
  simp only [skipWs_quote hv.1, h3]

/-- `<q>value<q> op name` -/
theorem parseItem_swapped_rb (q : Char) (n op v : String) (hn : n ∈ names) (ho : op ∈ ops) (hv : ReadBack q v)
    (rest : List Char) (hr : NameStop rest) :
    parseItem (q :: (v.toList ++ q :: ' ' :: (op.toList ++ ' ' :: (n.toList ++ rest)))) =
      some (.item n op v true, rest) := by
  have h1 := matchName_stop n hn rest hr
  have h2 := matchOp_sp op ho (n.toList ++ rest)
  have h3 := hv.2 (' ' :: (op.toList ++ ' ' :: (n.toList ++ rest)))
  have h4 := (name_head n hn rest).2.1
  unfold parseItem
  simp only [h3, skipWs_sp, op_head op ho, h2, h4, h1]

/-- a text that is exactly one item -/
theorem parseText_of_item (text : String) (a : Marker.Atom) (h : parseItem text.toList = some (a, []))
    (h1 : skipWs text.toList = text.toList) (h2 : ∀ r, text.toList ≠ '(' :: r) :
    parseText text = .ok (.one a) := by
  unfold parseText
  simp only
  have hf : 2 * text.toList.length + 2 = (2 * text.toList.length) + 1 + 1 := by omega
  have hb : matchWord boolOps [] = none := by
    have := noBool_of_endOk (rest := []) (Or.inl rfl)
    simpa [skipWs] using this
  rw [hf, parseSyn, parseAtom_item _ _ h1 h2, h]
  simp [hb, skipWs]

theorem LexVal.readBack {v : String} (h : LexVal v) : ∃ q, (quoteOf v).toList = [q] ∧ ReadBack q v := by
  rcases h with ⟨hq, h⟩ | ⟨hq, h⟩
  · exact ⟨'\'', by rw [hq]; rfl, readBack_sq h⟩
  · exact ⟨'"', by rw [hq]; rfl, readBack_dq h⟩

/-- **the grammar reads back what `SingleMarker.__str__` prints**, for a grammar name, a grammar operator and a
lexable value -/
theorem parseText_leafText (n op v : String) (sw : Bool) (hn : n ∈ names) (ho : op ∈ ops) (hv : LexVal v) :
    parseText (leafText n op v sw) = .ok (.one (.item n op v sw)) := by
  obtain ⟨q, hq, hrb⟩ := hv.readBack
  cases sw with
  | false =>
    have ht : (leafText n op v false).toList =
        n.toList ++ ' ' :: (op.toList ++ ' ' :: q :: (v.toList ++ q :: [])) := by
      simp [leafText, String.toList_append, hq]
    have hh := name_head n hn (' ' :: (op.toList ++ ' ' :: q :: (v.toList ++ q :: [])))
    apply parseText_of_item
    · rw [ht]; exact parseItem_plain_rb q n op v hn ho hrb []
    · rw [ht]; exact hh.2.1
    · rw [ht]; exact hh.2.2
  | true =>
    have ht : (leafText n op v true).toList =
        q :: (v.toList ++ q :: ' ' :: (op.toList ++ ' ' :: (n.toList ++ []))) := by
      simp [leafText, String.toList_append, hq]
    apply parseText_of_item
    · rw [ht]; exact parseItem_swapped_rb q n op v hn ho hrb [] (Or.inl rfl)
    · rw [ht]; exact skipWs_quote hrb.1 _
    · rw [ht]; intro r hr; rcases hrb.1 with rfl | rfl <;> cases hr

/-! ## `invert` -/

theorem invertOps_values : ∀ p ∈ Gen.markerInvertOps, p.2 = "<special>" ∨ p.2 ∈ ops := by decide

theorem invertOp?_mem {op op' : String} (h : invertOp? op = some op') : op' = "<special>" ∨ op' ∈ ops := by
  unfold invertOp? at h
  cases hf : Gen.markerInvertOps.find? (fun p => p.1 == op) with
  | none => simp [hf] at h
  | some p =>
    simp only [hf, Option.map_some, Option.some.injEq] at h
    subst h
    exact invertOps_values p (List.mem_of_find?_eq_some hf)

theorem parseItemMarker_leafText (n op v : String) (sw : Bool) (hn : n ∈ names) (ho : op ∈ ops) (hv : LexVal v) :
    parseItemMarker (leafText n op v sw) =
      (mkSingle n (itemConstraintString op v sw) sw >>= fun s => pure (.leaf (.single s))) := by
  unfold parseItemMarker
  rw [parseText_leafText n op v sw hn ho hv]

/-- errors of `SingleMarker.invert` (operators other than `~=`) on a lexable leaf: never lark's -/
theorem invertSimple_err (hvc : VCErrDocumented) (s : Single) (hn : s.name ∈ names) (hv : LexVal s.value)
    (e : PyErr) (h : invertSimple s = .error e) : e = .runtime ∨ e = .value ∨ e = .unmodelled := by
  unfold invertSimple at h
  split at h
  · cases h; exact .inl rfl
  · cases h; exact .inr (.inr rfl)
  · rename_i op' hns hop
    rcases invertOp?_mem hop with h' | ho
    · exact absurd h' hns
    · unfold invertedLeafText at h
      rw [parseItemMarker_leafText _ _ _ _ hn ho hv] at h
      rcases bind_err _ _ _ h with h | ⟨_, _, h⟩
      · rcases mkSingle_leafErr hvc _ _ _ _ h with h | h
        · exact .inr (.inl h)
        · exact .inr (.inr h)
      · simp [pure, Except.pure] at h

open Generic in
theorem gs_invert_err (c : GS) (e : PyErr) (h : c.invert = .error e) : e = .value := by
  cases c with
  | any => simp [GS.invert] at h
  | empty => simp [GS.invert] at h
  | atom a =>
    simp only [GS.invert] at h
    cases ha : a.invert with
    | error e' => simp only [ha] at h; cases h; exact atom_invert_err _ _ ha
    | ok b => simp [ha] at h
  | multi x cs =>
    simp only [GS.invert] at h
    cases hm : mapE Atom.invert cs with
    | error e' =>
      simp only [hm] at h; cases h
      obtain ⟨a, _, ha⟩ := mapE_err _ _ _ hm
      exact atom_invert_err _ _ ha
    | ok l => simp [hm] at h

open Generic in
/-- `invert` of a string constraint: `ValueError`, or the `NotImplementedError` of `UnionConstraint.invert` -/
theorem gc_invert_err (c : GC) (e : PyErr) (h : c.invert = .error e) : e = .value ∨ e = .notImplemented := by
  cases c with
  | s c => exact .inl (gs_invert_err c e h)
  | union ms =>
    simp only [GC.invert, unionInvert] at h
    cases hm : mapE GS.invert ms with
    | error e' =>
      simp only [hm] at h; cases h
      obtain ⟨a, _, ha⟩ := mapE_err _ _ _ hm
      exact .inl (gs_invert_err _ _ ha)
    | ok inv =>
      simp only [hm] at h
      cases ha : atomsOf? inv with
      | none => simp only [ha] at h; cases h; exact .inr rfl
      | some as =>
        simp only [ha] at h
        cases hk : mkMulti (as.any (fun a => a.x)) as with
        | error e' => simp only [hk] at h; cases h; exact .inl (mkMulti_err _ _ _ hk)
        | ok m => simp [hk] at h

/-- a leaf whose printed text the grammar reads back: grammar name, lexable value; the `~=` leaves (whose
inversion prints the bounds of the parsed constraint) are excluded here -/
def LexLeaf (l : Leaf) : Prop :=
  match l with
  | .single s => s.name ∈ names ∧ LexVal s.value ∧ s.op ≠ "~="
  | _ => True

theorem leaf_invert_no_syntax (hvc : VCErrDocumented) (l : Leaf) (hl : LexLeaf l) (e : PyErr)
    (h : l.invert = .error e) : e ≠ .syntax := by
  cases l with
  | single s =>
    obtain ⟨hn, hv, hop⟩ := hl
    unfold Leaf.invert at h
    simp only at h
    rw [if_neg (by simpa using hop)] at h
    rcases invertSimple_err hvc s hn hv e h with h | h | h <;> (rw [h]; decide)
  | amulti n c =>
    unfold Leaf.invert at h
    simp only at h
    rcases bind_err _ _ _ h with h | ⟨inv, _, h⟩
    · rcases gc_invert_err _ _ h with h | h <;> (rw [h]; decide)
    · repeat' split at h
      all_goals first
        | (simp [pure, Except.pure] at h; done)
        | (cases h; decide)
  | aunion n c =>
    unfold Leaf.invert at h
    simp only at h
    rcases bind_err _ _ _ h with h | ⟨inv, _, h⟩
    · rcases gc_invert_err _ _ h with h | h <;> (rw [h]; decide)
    · repeat' split at h
      all_goals first
        | (simp [pure, Except.pure] at h; done)
        | (cases h; decide)

mutual
theorem invert_no_syntax (hvc : VCErrDocumented) : ∀ (m : M), M.Good LexLeaf m → ∀ e, m.invert = .error e →
    e ≠ .syntax
  | .any, _, e, h => by simp [M.invert] at h
  | .empty, _, e, h => by simp [M.invert] at h
  | .leaf l, hg, e, h => by
    simp only [M.invert] at h
    exact leaf_invert_no_syntax hvc l (by simpa using hg) e h
  | .multi ms, hg, e, h => by
    simp only [M.invert] at h
    rcases bind_err _ _ _ h with h | ⟨_, _, h⟩
    · exact invertList_no_syntax hvc ms (by simpa using hg) e h
    · simp [pure, Except.pure] at h
  | .union ms, hg, e, h => by
    simp only [M.invert] at h
    rcases bind_err _ _ _ h with h | ⟨_, _, h⟩
    · exact invertList_no_syntax hvc ms (by simpa using hg) e h
    · simp [pure, Except.pure] at h
theorem invertList_no_syntax (hvc : VCErrDocumented) : ∀ (ms : List M), (∀ x ∈ ms, M.Good LexLeaf x) → ∀ e,
    M.invertList ms = .error e → e ≠ .syntax
  | [], _, e, h => by simp [M.invertList] at h
  | m :: ms, hg, e, h => by
    simp only [M.invertList] at h
    rcases bind_err _ _ _ h with h | ⟨_, _, h⟩
    · exact invert_no_syntax hvc m (hg m (by simp)) e h
    · rcases bind_err _ _ _ h with h | ⟨_, _, h⟩
      · exact invertList_no_syntax hvc ms (fun x hx => hg x (by simp [hx])) e h
      · simp [pure, Except.pure] at h
end

/-! ## the value a leaf stores is made of characters of its constraint string -/

theorem dotPlusToEnd_sub (s v : List Char) (h : dotPlusToEnd? s = some v) : ∀ c ∈ v, c ∈ s := by
  unfold dotPlusToEnd? at h
  simp only at h
  split at h
  · cases h
  · split at h
    · cases h
      intro c hc
      exact (List.takeWhile_sublist _).subset hc
    · cases h

theorem spacesGo_sub (s : List Char) : ∀ (fuel j : Nat) (v : List Char), spacesThenValue?.go s j fuel = some v →
    ∀ c ∈ v, c ∈ s := by
  intro fuel
  induction fuel with
  | zero => intro j v h; simp [spacesThenValue?.go] at h
  | succ f ih =>
    intro j v h
    unfold spacesThenValue?.go at h
    split at h
    · rename_i w hw
      cases h
      intro c hc
      exact (List.drop_sublist _ _).subset (dotPlusToEnd_sub _ _ hw c hc)
    · split at h
      · cases h
      · exact ih _ _ h

theorem spacesThenValue_sub (s v : List Char) (h : spacesThenValue? s = some v) : ∀ c ∈ v, c ∈ s :=
  spacesGo_sub s _ _ v h

theorem stripPrefixCI_sub (p s o r : List Char) (h : stripPrefixCI? p s = some (o, r)) : ∀ c ∈ r, c ∈ s := by
  unfold stripPrefixCI? at h
  split at h
  · cases h
    intro c hc
    exact (List.drop_sublist _ _).subset hc
  · cases h

theorem tryOps_sub (s : List Char) : ∀ (l : List String) (og : Option String) (val : String),
    matchPattern1.tryOps s l = some (og, val) → ∀ c ∈ val.toList, c ∈ s := by
  intro l
  induction l with
  | nil =>
    intro og val h
    unfold matchPattern1.tryOps at h
    split at h
    · rename_i v hv
      cases h
      simpa using spacesThenValue_sub _ _ hv
    · cases h
  | cons o rest ih =>
    intro og val h
    unfold matchPattern1.tryOps at h
    split at h
    · rename_i orig r hs
      split at h
      · rename_i v hv
        cases h
        intro c hc
        simp only [String.toList_ofList] at hc
        exact stripPrefixCI_sub _ _ _ _ hs c (spacesThenValue_sub _ _ hv c hc)
      · exact ih _ _ h
    · exact ih _ _ h

theorem matchPattern1_sub (s : List Char) (og : Option String) (val : String)
    (h : matchPattern1 s = some (og, val)) : ∀ c ∈ val.toList, c ∈ s := tryOps_sub s _ og val h

theorem strCmpGo_sub (q : Char) (body : List Char) : ∀ (fuel j : Nat) (val op : String),
    Marker.matchStrCmp.go q body j fuel = some (val, op) → ∀ c ∈ val.toList, c ∈ body := by
  intro fuel
  induction fuel with
  | zero => intro j val op h; simp [Marker.matchStrCmp.go] at h
  | succ f ih =>
    intro j val op h
    unfold Marker.matchStrCmp.go at h
    repeat' split at h
    all_goals first
      | (cases h; done)
      | exact ih _ _ _ h
      | (cases h
         intro c hc
         simp only [String.toList_ofList] at hc
         exact (List.take_sublist _ _).subset hc)

theorem matchStrCmp_sub (s : List Char) (val op : String) (h : Marker.matchStrCmp s = some (val, op)) :
    ∀ c ∈ val.toList, c ∈ s := by
  unfold Marker.matchStrCmp at h
  split at h
  · rename_i q body
    split at h
    · cases h
    · intro c hc
      exact List.mem_cons_of_mem _ (strCmpGo_sub q body _ _ _ _ h c hc)
  · cases h

theorem join_dotzero_chars (k : Nat) : ∀ c ∈ (String.join (List.replicate k ".0")).toList, c = '.' ∨ c = '0' := by
  induction k with
  | zero => intro c hc; simp [String.join] at hc
  | succ k ih =>
    intro c hc
    simp only [List.replicate_succ, String.join_cons, String.toList_append] at hc
    simp only [List.mem_append] at hc
    rcases hc with hc | hc
    · have : ".0".toList = ['.', '0'] := by decide
      rw [this] at hc
      simp at hc
      rcases hc with rfl | rfl <;> simp
    · exact ih c hc

/-- what `SingleMarker.__init__` stores as value: characters of the constraint string (or the `.0` padding of
`python_full_version`), and the operator group when the text was not swapped -/
theorem leafPrepare_value_sub (name cstr : String) (p : LeafPrep) (h : leafPrepare name cstr false = .ok p) :
    (∀ c ∈ p.value.toList, c ∈ cstr.toList ∨ c = '.' ∨ c = '0') ∧ p.name = aliasName name ∧
    ∃ og val, matchPattern1 cstr.toList = some (og, val) ∧ p.op = og.getD "==" := by
  unfold leafPrepare at h
  simp only [Bool.false_eq_true, if_false] at h
  cases hm : matchPattern1 cstr.toList with
  | none => simp [hm] at h
  | some pr =>
    obtain ⟨og, val⟩ := pr
    have hsub := matchPattern1_sub _ og val hm
    simp only [hm] at h
    repeat' split at h
    all_goals first
      | (cases h; done)
      | (cases h
         refine ⟨?_, rfl, og, val, rfl, rfl⟩
         intro c hc
         first
           | exact .inl (hsub c hc)
           | (simp only [String.toList_append, List.mem_append] at hc
              rcases hc with hc | hc
              · exact .inl (hsub c hc)
              · exact .inr (join_dotzero_chars _ c hc)))

theorem mkSingle_value_sub (name cstr : String) (s : Single) (h : mkSingle name cstr false = .ok s) :
    (∀ c ∈ s.value.toList, c ∈ cstr.toList ∨ c = '.' ∨ c = '0') ∧ s.name = aliasName name ∧
    ∃ og val, matchPattern1 cstr.toList = some (og, val) ∧ s.op = og.getD "==" := by
  unfold mkSingle at h
  obtain ⟨p, hp, h⟩ := bind_ok _ _ _ h
  obtain ⟨c, _, h⟩ := bind_ok _ _ _ h
  simp only [pure, Except.pure, Except.ok.injEq] at h
  subst h
  exact leafPrepare_value_sub name cstr p hp

/-- the operator group of `_CONSTRAINT_RE_PATTERN_1`, when present, is a prefix of the text -/
theorem tryOps_op_prefix (s : List Char) : ∀ (l : List String) (o val : String),
    matchPattern1.tryOps s l = some (some o, val) → ∃ k, o.toList = s.take k := by
  intro l
  induction l with
  | nil =>
    intro o val h
    unfold matchPattern1.tryOps at h
    split at h <;> cases h
  | cons p rest ih =>
    intro o val h
    unfold matchPattern1.tryOps at h
    split at h
    · rename_i orig r hs
      split at h
      · cases h
        unfold stripPrefixCI? at hs
        split at hs
        · rename_i hc
          cases hs
          simp only [Bool.and_eq_true, decide_eq_true_eq] at hc
          exact ⟨p.toList.length, by simp⟩
        · cases hs
      · exact ih _ _ h
    · exact ih _ _ h

/-! ## the leaves `_compact_markers` builds from a lexable syntax tree -/

/-! ### the `ESCAPED_STRING` scanner -/

theorem escapedQuoted_plain (b : Bool) (c : Char) (cs : List Char) (h1 : c ≠ '\n') (h2 : c ≠ '"') (h3 : c ≠ '\\') :
    escapedQuoted b (c :: cs) =
      (match escapedQuoted false cs with
       | some (v, r) => some (c :: v, r)
       | none => none) := by
  rw [escapedQuoted]
  all_goals first | rfl | simp_all

/-- what the scanner returns can be scanned again (the token content is re-readable) -/
theorem esc_roundtrip : ∀ (cs : List Char) (b : Bool) (v r : List Char), escapedQuoted b cs = some (v, r) →
    EscL b v := by
  intro cs
  induction cs with
  | nil => intro b v r h; simp [escapedQuoted] at h
  | cons c cs ih =>
    intro b v r h
    by_cases hn : c = '\n'
    · subst hn; simp [escapedQuoted] at h
    by_cases hq : c = '"'
    · subst hq
      unfold escapedQuoted at h
      cases b with
      | true =>
        simp only [if_true] at h
        cases hr : escapedQuoted false cs with
        | none => simp [hr] at h
        | some p =>
          obtain ⟨v', r'⟩ := p
          simp only [hr, Option.some.injEq, Prod.mk.injEq] at h
          obtain ⟨rfl, rfl⟩ := h
          intro rest
          have := ih false v' r' hr rest
          simp only [List.cons_append]
          unfold escapedQuoted
          simp [this]
      | false =>
        simp only [Bool.false_eq_true, if_false, Option.some.injEq, Prod.mk.injEq] at h
        obtain ⟨rfl, rfl⟩ := h
        intro rest
        simp [escapedQuoted]
    by_cases hb : c = '\\'
    · subst hb
      unfold escapedQuoted at h
      cases hr : escapedQuoted (!b) cs with
      | none => simp [hr] at h
      | some p =>
        obtain ⟨v', r'⟩ := p
        simp only [hr, Option.some.injEq, Prod.mk.injEq] at h
        obtain ⟨rfl, rfl⟩ := h
        intro rest
        have := ih (!b) v' r' hr rest
        simp only [List.cons_append]
        unfold escapedQuoted
        simp [this]
    · rw [escapedQuoted_plain b c cs hn hq hb] at h
      cases hr : escapedQuoted false cs with
      | none => simp [hr] at h
      | some p =>
        obtain ⟨v', r'⟩ := p
        simp only [hr, Option.some.injEq, Prod.mk.injEq] at h
        obtain ⟨rfl, rfl⟩ := h
        intro rest
        have := ih false v' r' hr rest
        simp only [List.cons_append]
        rw [escapedQuoted_plain b c _ hn hq hb]
        simp [this]

/-- a character that is neither a quote nor a backslash nor a newline in front does not matter -/
theorem escL_cons_plain {c : Char} {l : List Char} (h1 : c ≠ '\n') (h2 : c ≠ '"') (h3 : c ≠ '\\') :
    EscL false (c :: l) ↔ EscL false l := by
  constructor
  · intro h rest
    have := h rest
    simp only [List.cons_append] at this
    rw [escapedQuoted_plain false c _ h1 h2 h3] at this
    cases hr : escapedQuoted false (l ++ '"' :: rest) with
    | none => simp [hr] at this
    | some p =>
      obtain ⟨v', r'⟩ := p
      simp only [hr, Option.some.injEq, Prod.mk.injEq, List.cons.injEq, true_and] at this
      rw [this.1, this.2]
  · intro h rest
    simp only [List.cons_append]
    rw [escapedQuoted_plain false c _ h1 h2 h3, h rest]

/-- plain characters in front can be added or dropped -/
theorem escL_drop_plain : ∀ (p l : List Char), (∀ c ∈ p, c ≠ '\n' ∧ c ≠ '"' ∧ c ≠ '\\') →
    (EscL false (p ++ l) ↔ EscL false l) := by
  intro p
  induction p with
  | nil => intro l _; simp
  | cons c p ih =>
    intro l h
    have hc := h c (by simp)
    simp only [List.cons_append]
    rw [escL_cons_plain hc.1 hc.2.1 hc.2.2]
    exact ih l (fun d hd => h d (by simp [hd]))

/-- a re-readable text has no newline -/
theorem escL_no_newline : ∀ (l : List Char) (b : Bool), EscL b l → ∀ c ∈ l, c ≠ '\n' := by
  intro l
  induction l with
  | nil => intro b _ c hc; simp at hc
  | cons d l ih =>
    intro b h c hc
    have h0 := h []
    simp only [List.cons_append] at h0
    by_cases hn : d = '\n'
    · subst hn; simp [escapedQuoted] at h0
    have tailOk : ∃ b', EscL b' l := by
      by_cases hq : d = '"'
      · subst hq
        cases b with
        | false => simp [escapedQuoted] at h0
        | true =>
          refine ⟨false, fun rest => ?_⟩
          have := h rest
          simp only [List.cons_append] at this
          unfold escapedQuoted at this
          simp only [if_true] at this
          cases hr : escapedQuoted false (l ++ '"' :: rest) with
          | none => simp [hr] at this
          | some p =>
            obtain ⟨v', r'⟩ := p
            simp only [hr, Option.some.injEq, Prod.mk.injEq, List.cons.injEq, true_and] at this
            rw [this.1, this.2]
      by_cases hb : d = '\\'
      · subst hb
        refine ⟨!b, fun rest => ?_⟩
        have := h rest
        simp only [List.cons_append] at this
        unfold escapedQuoted at this
        cases hr : escapedQuoted (!b) (l ++ '"' :: rest) with
        | none => simp [hr] at this
        | some p =>
          obtain ⟨v', r'⟩ := p
          simp only [hr, Option.some.injEq, Prod.mk.injEq, List.cons.injEq, true_and] at this
          rw [this.1, this.2]
      · refine ⟨false, fun rest => ?_⟩
        have := h rest
        simp only [List.cons_append] at this
        rw [escapedQuoted_plain b d _ hn hq hb] at this
        cases hr : escapedQuoted false (l ++ '"' :: rest) with
        | none => simp [hr] at this
        | some p =>
          obtain ⟨v', r'⟩ := p
          simp only [hr, Option.some.injEq, Prod.mk.injEq, List.cons.injEq, true_and] at this
          rw [this.1, this.2]
    obtain ⟨b', hb'⟩ := tailOk
    simp at hc
    rcases hc with rfl | hc
    · exact hn
    · exact ih b' hb' c hc

theorem escL_of_plain (l : List Char) (h : ∀ c ∈ l, c ≠ '"' ∧ c ≠ '\\' ∧ c ≠ '\n') : EscL false l :=
  fun rest => escapedQuoted_ok l rest h

/-! ### the value group of `_CONSTRAINT_RE_PATTERN_1`: the text minus a plain prefix, up to a newline -/

/-- neither a quote nor a backslash -/
def NoQB (c : Char) : Prop := c ≠ '"' ∧ c ≠ '\\' ∧ c ≠ '\''

/-- `val` is `s` without its first `m` characters (all plain), cut at the first newline -/
def CutOf (s : List Char) (val : List Char) : Prop :=
  ∃ m, val = (s.drop m).takeWhile (· != '\n') ∧ ∀ c ∈ s.take m, NoQB c

theorem dotPlusToEnd_eq (s v : List Char) (h : dotPlusToEnd? s = some v) : v = s.takeWhile (· != '\n') := by
  unfold dotPlusToEnd? at h
  simp only at h
  split at h
  · cases h
  · split at h
    · cases h; rfl
    · cases h

theorem countLeading_take (p : Char → Bool) : ∀ (s : List Char) (j : Nat), j ≤ countLeading p s →
    ∀ c ∈ s.take j, p c = true := by
  intro s
  induction s with
  | nil => intro j _ c hc; simp at hc
  | cons d s ih =>
    intro j hj c hc
    cases j with
    | zero => simp at hc
    | succ j =>
      unfold countLeading at hj
      split at hj
      · rename_i hd
        simp at hc
        rcases hc with rfl | hc
        · exact hd
        · exact ih j (by omega) c hc
      · omega

theorem spacesGo_cut (s : List Char) : ∀ (fuel j : Nat) (v : List Char), spacesThenValue?.go s j fuel = some v →
    ∃ j', j' ≤ j ∧ v = (s.drop j').takeWhile (· != '\n') := by
  intro fuel
  induction fuel with
  | zero => intro j v h; simp [spacesThenValue?.go] at h
  | succ f ih =>
    intro j v h
    unfold spacesThenValue?.go at h
    split at h
    · rename_i w hw
      cases h
      exact ⟨j, Nat.le_refl _, dotPlusToEnd_eq _ _ hw⟩
    · split at h
      · cases h
      · obtain ⟨j', hj', hv⟩ := ih _ _ h
        exact ⟨j', by omega, hv⟩

theorem isSpace_noQB (c : Char) (h : isSpace c = true) : NoQB c := by
  refine ⟨?_, ?_, ?_⟩ <;> (intro hc; subst hc; revert h; decide)

theorem spacesThenValue_cut (s v : List Char) (h : spacesThenValue? s = some v) : CutOf s v := by
  obtain ⟨j', hj', hv⟩ := spacesGo_cut s _ _ v h
  exact ⟨j', hv, fun c hc => isSpace_noQB c (countLeading_take isSpace s j' hj' c hc)⟩

theorem lowerChar_noQB (c : Char) (h : NoQB (lowerChar c)) : NoQB c := by
  refine ⟨?_, ?_, ?_⟩
  · intro hc; subst hc; exact h.1 (by decide)
  · intro hc; subst hc; exact h.2.1 (by decide)
  · intro hc; subst hc; exact h.2.2 (by decide)

theorem mem_takeWhile_pred {p : Char → Bool} : ∀ (l : List Char) (c : Char), c ∈ l.takeWhile p → p c = true := by
  intro l
  induction l with
  | nil => intro c hc; simp at hc
  | cons d l ih =>
    intro c hc
    rw [List.takeWhile_cons] at hc
    split at hc
    · rename_i hd
      simp at hc
      rcases hc with rfl | hc
      · exact hd
      · exact ih c hc
    · simp at hc

theorem takeWhile_all {p : Char → Bool} : ∀ (l : List Char), (∀ c ∈ l, p c = true) → l.takeWhile p = l := by
  intro l
  induction l with
  | nil => intro _; rfl
  | cons d l ih =>
    intro h
    rw [List.takeWhile_cons, if_pos (h d (by simp)), ih (fun c hc => h c (by simp [hc]))]

theorem pattern1Ops_plain : ∀ p ∈ pattern1Ops, ∀ c ∈ lowerStr p.toList, c ≠ '"' ∧ c ≠ '\\' ∧ c ≠ '\'' := by
  decide

theorem cutOf_drop (s : List Char) (k : Nat) (v : List Char) (hk : ∀ c ∈ s.take k, NoQB c)
    (h : CutOf (s.drop k) v) : CutOf s v := by
  obtain ⟨m, hv, hm⟩ := h
  refine ⟨k + m, by rw [hv, List.drop_drop], ?_⟩
  intro c hc
  rw [List.take_add] at hc
  simp only [List.mem_append] at hc
  rcases hc with hc | hc
  · exact hk c hc
  · exact hm c hc

theorem tryOps_cut (s : List Char) : ∀ (l : List String), (∀ p ∈ l, p ∈ pattern1Ops) →
    ∀ (og : Option String) (val : String), matchPattern1.tryOps s l = some (og, val) → CutOf s val.toList := by
  intro l
  induction l with
  | nil =>
    intro _ og val h
    unfold matchPattern1.tryOps at h
    split at h
    · rename_i v hv
      cases h
      simpa using spacesThenValue_cut _ _ hv
    · cases h
  | cons o rest ih =>
    intro hl og val h
    unfold matchPattern1.tryOps at h
    split at h
    · rename_i orig r hs
      split at h
      · rename_i v hv
        cases h
        simp only [String.toList_ofList]
        unfold stripPrefixCI? at hs
        split at hs
        · rename_i hc
          cases hs
          simp only [Bool.and_eq_true, decide_eq_true_eq, beq_iff_eq] at hc
          apply cutOf_drop s o.toList.length v _ (spacesThenValue_cut _ _ hv)
          intro c hc'
          apply lowerChar_noQB
          have hmem : lowerChar c ∈ lowerStr (s.take o.toList.length) := by
            unfold lowerStr; exact List.mem_map_of_mem hc'
          rw [hc.2] at hmem
          exact pattern1Ops_plain o (hl o (by simp)) _ hmem
        · cases hs
      · exact ih (fun p hp => hl p (by simp [hp])) _ _ h
    · exact ih (fun p hp => hl p (by simp [hp])) _ _ h

theorem matchPattern1_cut (s : List Char) (og : Option String) (val : String)
    (h : matchPattern1 s = some (og, val)) : CutOf s val.toList :=
  tryOps_cut s _ (fun p hp => hp) og val h

/-! ### values of the input tokens, and the leaves built from them -/

/-- what a string token of the marker grammar can hold: no `'` (`SINGLE_QUOTED_STRING`), or a text the
`ESCAPED_STRING` scanner reads back (`ESCAPED_STRING`) -/
def TokVal (v : String) : Prop := SqOk v ∨ EscL false v.toList

theorem quoteOf_sq_inv {v : String} (h : quoteOf v = "'") : SqOk v := by
  unfold quoteOf at h
  split at h
  · rename_i hc
    simp only [Bool.and_eq_true, Bool.not_eq_true'] at hc
    intro c hcm hce
    subst hce
    have := List.contains_iff_mem.mpr hcm
    rw [hc.1] at this; cases this
  · exact absurd h (by decide)

theorem quoteOf_dq_inv {v : String} (h : quoteOf v = "\"") (hs : SqOk v) :
    ∀ c ∈ v.toList, c ≠ '"' ∧ c ≠ '\\' := by
  unfold quoteOf at h
  split at h
  · exact absurd h (by decide)
  · rename_i hc
    have h1 : v.toList.contains '\'' = false := by
      cases hq : v.toList.contains '\'' with
      | false => rfl
      | true => exact absurd rfl (hs _ (List.contains_iff_mem.mp hq))
    simp only [h1, Bool.not_false, Bool.true_and, Bool.or_eq_true, not_or, Bool.not_eq_true] at hc
    intro c hcm
    refine ⟨?_, ?_⟩ <;> (intro hce; subst hce; have := List.contains_iff_mem.mpr hcm; simp_all)

/-- a value cut out of `plain prefix ++ token value` is lexable -/
theorem lexVal_of_cut (pre w : List Char) (val : String) (hpre : ∀ c ∈ pre, c ≠ '\n' ∧ NoQB c)
    (hw : (∀ c ∈ w, c ≠ '\'') ∨ EscL false w) (hcut : CutOf (pre ++ w) val.toList) : LexVal val := by
  obtain ⟨m, hv, hm⟩ := hcut
  have hnl : ∀ c ∈ val.toList, c ≠ '\n' := by
    intro c hc
    rw [hv] at hc
    have := mem_takeWhile_pred _ c hc
    simpa using this
  rcases quoteOf_cases val with hq | hq
  · refine .inr ⟨hq, ?_⟩
    rcases hw with hw | hw
    · -- no single quote anywhere: double quotes were chosen because the value is plain
      have hsq : SqOk val := by
        intro c hc
        rw [hv] at hc
        have hc' := (List.drop_sublist _ _).subset ((List.takeWhile_sublist _).subset hc)
        simp only [List.mem_append] at hc'
        rcases hc' with hc' | hc'
        · exact (hpre c hc').2.2.2
        · exact hw c hc'
      have := quoteOf_dq_inv hq hsq
      exact escL_of_plain _ (fun c hc => ⟨(this c hc).1, (this c hc).2, hnl c hc⟩)
    · -- an `ESCAPED_STRING` value: dropping plain characters keeps it re-readable
      have hall : EscL false (pre ++ w) :=
        (escL_drop_plain pre w (fun c hc => ⟨(hpre c hc).1, (hpre c hc).2.1, (hpre c hc).2.2.1⟩)).2 hw
      have hall' : EscL false ((pre ++ w).take m ++ (pre ++ w).drop m) := by
        rw [List.take_append_drop]; exact hall
      have hnoall := escL_no_newline _ false hall
      have hdrop : EscL false ((pre ++ w).drop m) := by
        refine (escL_drop_plain _ _ ?_).1 hall'
        intro c hc
        have hnq := hm c hc
        exact ⟨hnoall c ((List.take_sublist _ _).subset hc), hnq.1, hnq.2.1⟩
      have hno := escL_no_newline _ false hdrop
      have : ((pre ++ w).drop m).takeWhile (· != '\n') = (pre ++ w).drop m :=
        takeWhile_all _ (fun c hc => by simpa using hno c hc)
      unfold EscOk
      rw [hv, this]
      exact hdrop
  · exact .inl ⟨hq, quoteOf_sq_inv hq⟩

theorem ops_chars_clean : ∀ op ∈ ops, ∀ c ∈ op.toList, c ≠ '\\' ∧ c ≠ '\n' ∧ c ≠ '"' ∧ c ≠ '\'' := by decide

theorem ops_head_not_tilde : ∀ op ∈ ops, op ≠ "~=" → op.toList.head? ≠ some '~' := by decide

theorem alias_names : ∀ n ∈ names, aliasName n ∈ names := by decide

/-- plain text: no quote, no backslash, no newline -/
def PlainStr (v : String) : Prop := ∀ c ∈ v.toList, c ≠ '"' ∧ c ≠ '\\' ∧ c ≠ '\n' ∧ c ≠ '\''

theorem isDigit_plain (c : Char) (h : isDigit c = true) : c ≠ '"' ∧ c ≠ '\\' ∧ c ≠ '\n' ∧ c ≠ '\'' := by
  refine ⟨?_, ?_, ?_, ?_⟩ <;> (intro hc; subst hc; revert h; decide)

theorem PlainStr.lex {v : String} (h : PlainStr v) : LexVal v := by
  have hq : quoteOf v = "\"" := quoteOf_dq (fun c hc => ⟨(h c hc).1, (h c hc).2.1⟩)
  exact .inr ⟨hq, escL_of_plain _ (fun c hc => ⟨(h c hc).1, (h c hc).2.1, (h c hc).2.2.1⟩)⟩

/-- the value `SingleMarker.__init__` stores (text not swapped): cut out of the constraint string, or — the
`.0` padding of a short decimal `python_full_version` — plain -/
theorem leafPrepare_value_cut (name cstr : String) (p : LeafPrep) (h : leafPrepare name cstr false = .ok p) :
    (CutOf cstr.toList p.value.toList ∨ PlainStr p.value) ∧ p.name = aliasName name ∧
    ∃ og val, matchPattern1 cstr.toList = some (og, val) ∧ p.op = og.getD "==" := by
  unfold leafPrepare at h
  simp only [Bool.false_eq_true, if_false] at h
  cases hm : matchPattern1 cstr.toList with
  | none => simp [hm] at h
  | some pr =>
    obtain ⟨og, val⟩ := pr
    have hcut := matchPattern1_cut _ og val hm
    simp only [hm] at h
    repeat' split at h
    all_goals first
      | (cases h; done)
      | (cases h; exact ⟨.inl hcut, rfl, og, val, rfl, rfl⟩)
      | (rename_i hdec
         cases h
         refine ⟨.inr ?_, rfl, og, val, rfl, rfl⟩
         simp only [Bool.and_eq_true, decide_eq_true_eq] at hdec
         have hd := hdec.2
         unfold isDecimalAscii at hd
         simp only [Bool.and_eq_true, List.all_eq_true] at hd
         intro c hc
         simp only [String.toList_append, List.mem_append] at hc
         rcases hc with hc | hc
         · by_cases hdot : c = '.'
           · subst hdot; decide
           · exact isDigit_plain c (hd.2 c (List.mem_filter.2 ⟨hc, by simpa using hdot⟩))
         · rcases join_dotzero_chars _ c hc with rfl | rfl <;> decide)

theorem mkSingle_value_cut (name cstr : String) (s : Single) (h : mkSingle name cstr false = .ok s) :
    (CutOf cstr.toList s.value.toList ∨ PlainStr s.value) ∧ s.name = aliasName name ∧
    ∃ og val, matchPattern1 cstr.toList = some (og, val) ∧ s.op = og.getD "==" := by
  unfold mkSingle at h
  obtain ⟨p, hp, h⟩ := bind_ok _ _ _ h
  obtain ⟨c, _, h⟩ := bind_ok _ _ _ h
  simp only [pure, Except.pure, Except.ok.injEq] at h
  subst h
  exact leafPrepare_value_cut name cstr p hp

/-- **a leaf built from a grammar item is lexable** (items `name op <string token>`, operator not `~=`), whatever
the token holds -/
theorem mkSingle_lexLeaf (n op v : String) (hn : n ∈ names) (ho : op ∈ ops) (hop : op ≠ "~=") (hv : TokVal v)
    (s : Single) (h : mkSingle n (itemConstraintString op v false) false = .ok s) : LexLeaf (.single s) := by
  obtain ⟨hval, hname, og, val, hm, hso⟩ := mkSingle_value_cut n _ s h
  have hcs : (itemConstraintString op v false).toList = op.toList ++ v.toList := by
    simp [itemConstraintString, String.toList_append]
  refine ⟨by rw [hname]; exact alias_names n hn, ?_, ?_⟩
  · rcases hval with hcut | hpl
    · rw [hcs] at hcut
      have hcl := ops_chars_clean op ho
      exact lexVal_of_cut op.toList v.toList s.value
        (fun c hc => ⟨(hcl c hc).2.1, (hcl c hc).2.2.1, (hcl c hc).1, (hcl c hc).2.2.2⟩) hv hcut
    · exact hpl.lex
  · intro hto
    rw [hso] at hto
    cases og with
    | none => simp at hto
    | some o =>
      simp only [Option.getD_some] at hto
      subst hto
      obtain ⟨k, hk⟩ := tryOps_op_prefix _ _ _ _ hm
      rw [hcs] at hk
      have hne := ops_head_not_tilde op ho hop
      have h2 : "~=".toList = ['~', '='] := by decide
      rw [h2] at hk
      cases hopl : op.toList with
      | nil =>
        have : op ∈ ops := ho
        rw [ops_list] at this
        simp only [List.mem_cons, List.mem_nil_iff, or_false] at this
        rcases this with rfl | rfl | rfl | rfl | rfl | rfl | rfl | rfl | rfl | rfl <;> simp at hopl
      | cons a as =>
        rw [hopl] at hk hne
        cases k with
        | zero => simp at hk
        | succ k =>
          simp only [List.cons_append, List.take_succ_cons, List.cons.injEq] at hk
          exact hne (by simp [← hk.1])

/-! ### swapped items `"value" op name`: `STR_CMP_CONSTRAINT` -/

theorem stripPrefixCI_struct (p s o r : List Char) (h : stripPrefixCI? p s = some (o, r)) :
    s = o ++ r ∧ o.length = p.length ∧ lowerStr o = lowerStr p := by
  unfold stripPrefixCI? at h
  split at h
  · rename_i hc
    simp only [Bool.and_eq_true, decide_eq_true_eq, beq_iff_eq] at hc
    cases h
    exact ⟨(List.take_append_drop _ _).symm, by simp [List.length_take]; omega, hc.2⟩
  · cases h

theorem dropSpaces_split : ∀ (l : List Char), ∃ ws, l = ws ++ dropSpaces l ∧ ∀ c ∈ ws, isSpace c = true := by
  intro l
  induction l with
  | nil => exact ⟨[], by simp [dropSpaces], by intro c hc; simp at hc⟩
  | cons d l ih =>
    unfold dropSpaces
    split
    · rename_i hd
      obtain ⟨ws, h1, h2⟩ := ih
      refine ⟨d :: ws, by simp [← h1], ?_⟩
      intro c hc
      simp at hc
      rcases hc with rfl | hc
      · exact hd
      · exact h2 c hc
    · exact ⟨[], by simp, by intro c hc; simp at hc⟩

theorem lower_eq_noquote {o p : List Char} (h : lowerStr o = lowerStr p) (hp : ∀ c ∈ lowerStr p, c ≠ '"') :
    ∀ c ∈ o, c ≠ '"' := by
  intro c hc hq
  subst hq
  have : lowerChar '"' ∈ lowerStr o := by unfold lowerStr; exact List.mem_map_of_mem hc
  rw [h] at this
  exact hp _ this (by decide)

/-- the operator tail `\s*(not\sin|in)$`: it holds no double quote, and the operator group is not `~=` -/
theorem strCmpTail_spec (r : List Char) (o : String) (h : strCmpTail? r = some o) :
    (∀ c ∈ r, c ≠ '"') ∧ o ≠ "~=" := by
  obtain ⟨ws, hsplit, hws⟩ := dropSpaces_split r
  have hnq_ws : ∀ c ∈ ws, c ≠ '"' := fun c hc => (isSpace_noQB c (hws c hc)).1
  have endOk_nq : ∀ t : List Char, (t.isEmpty || t == ['\n']) = true → ∀ c ∈ t, c ≠ '"' := by
    intro t ht c hc
    simp only [Bool.or_eq_true, List.isEmpty_iff, beq_iff_eq] at ht
    rcases ht with rfl | rfl
    · simp at hc
    · simp at hc; subst hc; decide
  have hnot : ∀ c ∈ lowerStr "not".toList, c ≠ '"' := by decide
  have hin : ∀ c ∈ lowerStr "in".toList, c ≠ '"' := by decide
  unfold strCmpTail? at h
  simp only at h
  -- the `in` alternative
  have inCase : ∀ (o' : String), (match stripPrefixCI? "in".toList (dropSpaces r) with
      | some (o, r2) => if (r2.isEmpty || r2 == ['\n']) = true then some (String.ofList o) else none
      | none => none) = some o' → (∀ c ∈ r, c ≠ '"') ∧ o' ≠ "~=" := by
    intro o' h'
    split at h'
    · rename_i o2 r2 hs
      split at h'
      · rename_i hend
        cases h'
        obtain ⟨h1, h2, h3⟩ := stripPrefixCI_struct _ _ _ _ hs
        refine ⟨?_, ?_⟩
        · intro c hc
          rw [hsplit, h1] at hc
          simp only [List.mem_append] at hc
          rcases hc with hc | hc | hc
          · exact hnq_ws c hc
          · exact lower_eq_noquote h3 hin c hc
          · exact endOk_nq r2 hend c hc
        · intro he
          have : o2 = ['~', '='] := by
            have := congrArg String.toList he
            simpa using this
          rw [this] at h3
          revert h3; decide
      · cases h'
    · cases h'
  split at h
  · rename_i o' hn
    cases h
    -- the `not in` alternative
    split at hn
    · rename_i o1 c r2 hs1
      split at hn
      · rename_i hsp
        split at hn
        · rename_i o2 r3 hs2
          split at hn
          · rename_i hend
            cases hn
            obtain ⟨h1, h2, h3⟩ := stripPrefixCI_struct _ _ _ _ hs1
            obtain ⟨g1, g2, g3⟩ := stripPrefixCI_struct _ _ _ _ hs2
            refine ⟨?_, ?_⟩
            · intro d hd
              rw [hsplit, h1, g1] at hd
              simp only [List.mem_append, List.mem_cons] at hd
              rcases hd with hd | hd | rfl | hd | hd
              · exact hnq_ws d hd
              · exact lower_eq_noquote h3 hnot d hd
              · exact (isSpace_noQB _ hsp).1
              · exact lower_eq_noquote g3 hin d hd
              · exact endOk_nq r3 hend d hd
            · intro he
              have := congrArg (fun t => t.toList.length) he
              simp only [String.toList_ofList, List.length_append, List.length_cons, List.length_nil] at this
              rw [h2, g2] at this
              revert this; decide
          · cases hn
        · cases hn
      · cases hn
    · cases hn
  · exact inCase o h

/-- the structure of a `STR_CMP_CONSTRAINT` match: the value is a prefix of the text after the opening quote that
holds no newline and is followed by the quote and the operator tail -/
theorem strCmpGo_spec (q : Char) (body : List Char) : ∀ (fuel j : Nat) (val op : String),
    Marker.matchStrCmp.go q body j fuel = some (val, op) →
    ∃ j', val = String.ofList (body.take j') ∧ (body.take j').contains '\n' = false ∧
      ∃ r, body.drop j' = q :: r ∧ strCmpTail? r = some op := by
  intro fuel
  induction fuel with
  | zero => intro j val op h; simp [Marker.matchStrCmp.go] at h
  | succ f ih =>
    intro j val op h
    unfold Marker.matchStrCmp.go at h
    split at h
    · cases h
    · split at h
      · cases h
      · rename_i hnl
        split at h
        · rename_i c r hd
          split at h
          · rename_i hcq
            split at h
            · rename_i op' htail
              cases h
              refine ⟨j, rfl, by simpa using hnl, r, ?_, htail⟩
              rw [hd]; simp at hcq; rw [hcq]
            · exact ih _ _ _ h
          · exact ih _ _ _ h
        · cases h

/-- **on a swapped item the stored value is the whole token value** (only the last quote can be followed by the
operator tail), and the stored operator is not `~=` -/
theorem matchStrCmp_swapped (v op : String) (ho : op ∈ ops) (val o : String)
    (h : Marker.matchStrCmp (itemConstraintString op v true).toList = some (val, o)) :
    val = v ∧ (∀ c ∈ v.toList, c ≠ '\n') ∧ o ≠ "~=" := by
  have hcs : (itemConstraintString op v true).toList = '"' :: (v.toList ++ '"' :: ' ' :: op.toList) := by
    simp [itemConstraintString, String.toList_append]
  rw [hcs] at h
  unfold Marker.matchStrCmp at h
  simp only [bne_self_eq_false, Bool.false_and, Bool.false_eq_true, if_false] at h
  obtain ⟨j', hval, hnl, r, hdrop, htail⟩ := strCmpGo_spec _ _ _ _ _ _ h
  obtain ⟨hrq, hone⟩ := strCmpTail_spec r o htail
  have hopq : ∀ c ∈ op.toList, c ≠ '"' := fun c hc => (ops_chars_clean op ho c hc).2.2.1
  have hj : j' = v.toList.length := by
    rcases Nat.lt_trichotomy j' v.toList.length with hlt | heq | hgt
    · exfalso
      rw [List.drop_append_of_le_length (by omega)] at hdrop
      cases hdv : v.toList.drop j' with
      | nil =>
        have := congrArg List.length hdv
        simp at this; omega
      | cons x t =>
        rw [hdv] at hdrop
        simp only [List.cons_append, List.cons.injEq] at hdrop
        exact hrq '"' (by rw [← hdrop.2]; simp) rfl
    · exact heq
    · exfalso
      obtain ⟨k, hk⟩ : ∃ k, j' - v.toList.length = k + 1 := ⟨j' - v.toList.length - 1, by omega⟩
      have hd : (v.toList ++ '"' :: ' ' :: op.toList).drop j' = (' ' :: op.toList).drop k := by
        rw [List.drop_append]
        have h0 : v.toList.drop j' = [] := List.drop_eq_nil_of_le (by omega)
        rw [h0, List.nil_append, hk, List.drop_succ_cons]
      rw [hd] at hdrop
      have hmem : '"' ∈ (' ' :: op.toList) :=
        (List.drop_sublist _ _).subset (by rw [hdrop]; simp)
      simp at hmem
      exact hopq '"' hmem rfl
  subst hj
  have htake : (v.toList ++ '"' :: ' ' :: op.toList).take v.toList.length = v.toList := by simp
  rw [htake] at hval hnl
  refine ⟨by rw [hval]; simp, ?_, hone⟩
  intro c hc hce
  subst hce
  have := List.contains_iff_mem.mpr hc
  rw [hnl] at this; cases this

theorem leafPrepare_swapped (name cstr : String) (p : LeafPrep) (h : leafPrepare name cstr true = .ok p) :
    ∃ val o, Marker.matchStrCmp cstr.toList = some (val, o) ∧ p.value = val ∧ p.op = o ∧
      p.name = aliasName name := by
  unfold leafPrepare at h
  simp only [if_true, Bool.not_true, Bool.and_false, Bool.false_eq_true, if_false] at h
  cases hm : Marker.matchStrCmp cstr.toList with
  | none => simp [hm] at h
  | some pr =>
    obtain ⟨val, o⟩ := pr
    simp only [hm, Option.map_some] at h
    repeat' split at h
    all_goals first
      | (cases h; done)
      | (cases h; exact ⟨val, o, rfl, rfl, rfl, rfl⟩)

/-- a token value without newline is lexable -/
theorem lexVal_of_tok (v : String) (hv : TokVal v) (hnl : ∀ c ∈ v.toList, c ≠ '\n') : LexVal v := by
  refine lexVal_of_cut [] v.toList v (by intro c hc; simp at hc) hv ⟨0, ?_, by intro c hc; simp at hc⟩
  simp only [List.nil_append, List.drop_zero]
  exact (takeWhile_all _ (fun c hc => by simpa using hnl c hc)).symm

/-- **a leaf built from a swapped grammar item is lexable** -/
theorem mkSingle_lexLeaf_swapped (n op v : String) (hn : n ∈ names) (ho : op ∈ ops) (hv : TokVal v)
    (s : Single) (h : mkSingle n (itemConstraintString op v true) true = .ok s) : LexLeaf (.single s) := by
  unfold mkSingle at h
  obtain ⟨p, hp, h⟩ := bind_ok _ _ _ h
  obtain ⟨c, _, h⟩ := bind_ok _ _ _ h
  simp only [pure, Except.pure, Except.ok.injEq] at h
  subst h
  obtain ⟨val, o, hm, hval, hop, hname⟩ := leafPrepare_swapped n _ p hp
  obtain ⟨h1, h2, h3⟩ := matchStrCmp_swapped v op ho val o hm
  refine ⟨by show p.name ∈ names; rw [hname]; exact alias_names n hn, ?_, ?_⟩
  · show LexVal p.value
    rw [hval, h1]; exact lexVal_of_tok v hv h2
  · show p.op ≠ "~="
    rw [hop]; exact h3

mutual
/-- **lexable input**: every item has a grammar name, a grammar operator — not `~=` when the item is
`name op <string token>`; a swapped item `<string token> op name` is only accepted with `in` / `not in` — and a
token value (`TokVal` — what the grammar's string tokens hold, see `parseText_tok`) -/
def AtomLexIn : Marker.Atom → Prop
  | .item n op v sw => n ∈ names ∧ op ∈ ops ∧ (sw = false → op ≠ "~=") ∧ TokVal v
  | .paren m => SynLexIn m
def SynLexIn : Syn → Prop
  | .one a => AtomLexIn a
  | .more a _ rest => AtomLexIn a ∧ SynLexIn rest
end

mutual
theorem compactAtom_lex : ∀ (a : Marker.Atom) (m : M), AtomLexIn a → compactAtom a = .ok m → M.Good LexLeaf m
  | .item n op v sw, m, hl, h => by
    obtain ⟨hn, ho, hop, hv⟩ := hl
    unfold compactAtom at h
    obtain ⟨s, hs, h⟩ := bind_ok _ _ _ h
    simp only [pure, Except.pure, Except.ok.injEq] at h
    subst h
    cases sw with
    | false => simpa using mkSingle_lexLeaf n op v hn ho (hop rfl) hv s hs
    | true => simpa using mkSingle_lexLeaf_swapped n op v hn ho hv s hs
  | .paren syn, m, hl, h => by
    unfold compactAtom at h
    obtain ⟨gs, hg, h⟩ := bind_ok _ _ _ h
    simp only [pure, Except.pure, Except.ok.injEq] at h
    subst h
    apply mkUnion_good
    intro x hx
    simp only [List.mem_map] at hx
    obtain ⟨g, hg', rfl⟩ := hx
    exact groupMarker_good (compactGroups_lex syn gs hl hg g hg')
theorem compactGroups_lex : ∀ (s : Syn) (gs : List (List M)), SynLexIn s → compactGroups s = .ok gs →
    ∀ g ∈ gs, GL LexLeaf g
  | .one a, gs, hl, h => by
    unfold compactGroups at h
    obtain ⟨x, hx, h⟩ := bind_ok _ _ _ h
    simp only [pure, Except.pure, Except.ok.injEq] at h
    subst h
    intro g hg
    simp at hg; subst hg
    exact single_good (compactAtom_lex a x hl hx)
  | .more a isOr rest, gs, hl, h => by
    unfold compactGroups at h
    obtain ⟨x, hx, h⟩ := bind_ok _ _ _ h
    obtain ⟨gs', hgs, h⟩ := bind_ok _ _ _ h
    have gx := compactAtom_lex a x hl.1 hx
    have grest := compactGroups_lex rest gs' hl.2 hgs
    split at h
    · simp only [pure, Except.pure, Except.ok.injEq] at h
      subst h
      intro g hg
      simp at hg
      rcases hg with rfl | hg
      · exact single_good gx
      · exact grest g hg
    · split at h
      · rename_i g0 gs''
        simp only [pure, Except.pure, Except.ok.injEq] at h
        subst h
        intro g hg
        simp at hg
        rcases hg with rfl | hg
        · intro y hy
          simp at hy
          rcases hy with rfl | hy
          · exact gx
          · exact grest g0 (by simp) y hy
        · exact grest g (by simp [hg])
      · simp only [pure, Except.pure, Except.ok.injEq] at h
        subst h
        intro g hg
        simp at hg; subst hg
        exact single_good gx
end

theorem compactSubMarkers_lex (syn : Syn) (subs : List M) (hl : SynLexIn syn)
    (h : compactSubMarkers syn = .ok subs) : GL LexLeaf subs := by
  unfold compactSubMarkers at h
  obtain ⟨gs, hg, h⟩ := bind_ok _ _ _ h
  simp only [pure, Except.pure, Except.ok.injEq] at h
  subst h
  intro x hx
  simp only [List.mem_map] at hx
  obtain ⟨g, hg', rfl⟩ := hx
  exact groupMarker_good (compactGroups_lex syn gs hl hg g hg')

theorem compactRaw_lex (syn : Syn) (m : M) (hl : SynLexIn syn) (h : compactRaw syn = .ok m) :
    M.Good LexLeaf m := by
  unfold compactRaw at h
  obtain ⟨subs, hs, h⟩ := bind_ok _ _ _ h
  simp only [pure, Except.pure, Except.ok.injEq] at h
  subst h
  exact mkUnion_good (compactSubMarkers_lex syn subs hl hs)

/-! ## the simplifier, given that the leaf merge does not raise lark's error -/

/-- leaf errors without lark's -/
def MErr' (e : PyErr) : Prop := e = .value ∨ e = .unmodelled

/-- the named hypothesis: on leaves satisfying `G` the merge returns `G`-markers and does not fail with
lark's error -/
def MergeNoSyntax (G : Leaf → Prop) : Prop :=
  ∀ l1 l2 b, G l1 → G l2 → Res MErr' (OptGood G) (mergeLeaves l1 l2 b)

theorem simplifier_no_syntax_of {G : Leaf → Prop} (hM : MergeNoSyntax G) (n : Nat) : InvAt G MErr' n :=
  invAt hM n

theorem unionF_no_syntax_of {G : Leaf → Prop} (hM : MergeNoSyntax G) (n : Nat) (stk : Stack) (ms : List M)
    (hg : GL G ms) (e : PyErr) (h : unionF n stk ms = .error e) :
    e = .fuel ∨ e = .recursion ∨ e = .value ∨ e = .unmodelled := by
  rcases ((invAt hM n).uniF stk ms hg).of_err h with h | h | h | h
  · exact .inl h
  · exact .inr (.inl h)
  · exact .inr (.inr (.inl h))
  · exact .inr (.inr (.inr h))

/-- the hypothesis follows from Part X plus "no `.syntax` from the merge" -/
theorem mergeNoSyntax_of_ne {P : VC → Prop} (hvc : VCErrDocumented) (hP : VCOpsMin P)
    (hne : ∀ l1 l2 b, LeafOK P l1 → LeafOK P l2 → mergeLeaves l1 l2 b ≠ .error .syntax) :
    MergeNoSyntax (LeafOK P) := by
  intro l1 l2 b h1 h2
  have R := mergeLeaves_res hvc hP l1 l2 b h1 h2
  cases hm : mergeLeaves l1 l2 b with
  | ok o => rw [hm] at R; exact R
  | error e =>
    rw [hm] at R
    rcases R with h | h | h | h | h
    · exact .inl h
    · exact .inr (.inl h)
    · exact absurd (by rw [← h]; exact hm) (hne l1 l2 b h1 h2)
    · exact .inr (.inr (.inl h))
    · exact .inr (.inr (.inr h))

theorem compactTop_no_syntax_of {P : VC → Prop} (hvc : VCErrDocumented) (hP : VCOpsMin P)
    (hM : MergeNoSyntax (LeafOK P)) (syn : Syn) (e : PyErr) (h : Req.compactTop syn = .error e) :
    e = .fuel ∨ e = .recursion ∨ e = .value ∨ e = .unmodelled := by
  unfold Req.compactTop at h
  rcases bind_err _ _ _ h with h | ⟨subs, hs, h⟩
  · rcases compactSubMarkers_err hvc syn _ h with h | h
    · exact .inr (.inr (.inl h))
    · exact .inr (.inr (.inr h))
  · exact unionF_no_syntax_of hM _ _ _ (compactSubMarkers_good hvc hP syn subs hs) e h

theorem parseMarker_no_syntax_of {P : VC → Prop} (hvc : VCErrDocumented) (hP : VCOpsMin P)
    (hM : MergeNoSyntax (LeafOK P)) (s : String) (syn : Syn) (hp : parseText s = .ok syn) (e : PyErr)
    (h : parseMarker s = .error e) : e = .fuel ∨ e = .recursion ∨ e = .value ∨ e = .unmodelled := by
  rcases parseMarker_cases s _ h with ⟨_, h⟩ | ⟨_, _, h⟩ | ⟨_, _, _, h⟩
  · cases h
  · cases h
  · rcases h with ⟨e', h1, h2⟩ | ⟨syn', e', h1, h2, h3⟩ | ⟨syn', subs, h1, h2, h3⟩
    · rw [hp] at h1; cases h1
    · cases h3
      rcases compactSubMarkers_err hvc syn' _ h2 with h | h
      · exact .inr (.inr (.inl h))
      · exact .inr (.inr (.inr h))
    · exact unionF_no_syntax_of hM _ _ _ (compactSubMarkers_good hvc hP syn' subs h2) e h3.symm

def isOkB {α : Type} (x : PyM α) : Bool :=
  match x with
  | .ok _ => true
  | .error _ => false

theorem exists_ok_of_isOkB {α : Type} (x : PyM α) (h : isOkB x = true) : ∃ a, x = .ok a := by
  cases x with
  | ok a => exact ⟨a, rfl⟩
  | error e => simp [isOkB] at h

/-! ## what the grammar returns -/

mutual
/-- every item carries a grammar name, a grammar operator and a token value -/
def AtomTok : Marker.Atom → Prop
  | .item n op v _ => n ∈ names ∧ op ∈ ops ∧ TokVal v
  | .paren m => SynTok m
def SynTok : Syn → Prop
  | .one a => AtomTok a
  | .more a _ rest => AtomTok a ∧ SynTok rest
end

mutual
/-- no item `name ~= "value"` (decidable on the tree) -/
def AtomNoCompat : Marker.Atom → Bool
  | .item _ op _ sw => sw || op != "~="
  | .paren m => SynNoCompat m
def SynNoCompat : Syn → Bool
  | .one a => AtomNoCompat a
  | .more a _ rest => AtomNoCompat a && SynNoCompat rest
end

mutual
theorem atomLexIn_of : ∀ (a : Marker.Atom), AtomTok a → AtomNoCompat a = true → AtomLexIn a
  | .item n op v sw, ht, hp => by
    refine ⟨ht.1, ht.2.1, ?_, ht.2.2⟩
    intro hsw
    subst hsw
    simpa [AtomNoCompat] using hp
  | .paren m, ht, hp => synLexIn_of m ht (by simpa [AtomNoCompat] using hp)
theorem synLexIn_of : ∀ (m : Syn), SynTok m → SynNoCompat m = true → SynLexIn m
  | .one a, ht, hp => atomLexIn_of a ht (by simpa [SynNoCompat] using hp)
  | .more a _ rest, ht, hp => by
    simp only [SynNoCompat, Bool.and_eq_true] at hp
    exact ⟨atomLexIn_of a ht.1 hp.1, synLexIn_of rest ht.2 hp.2⟩
end

theorem matchWord_mem (ws : List String) : ∀ (s : List Char) (w : String) (r : List Char),
    matchWord ws s = some (w, r) → w ∈ ws := by
  induction ws with
  | nil => intro s w r h; simp [matchWord] at h
  | cons x xs ih =>
    intro s w r h
    unfold matchWord at h
    split at h
    · simp only [Option.some.injEq, Prod.mk.injEq] at h; simp [h.1]
    · simp [ih s w r h]

theorem singleQuoted_out : ∀ (cs v r : List Char), singleQuoted cs = some (v, r) → ∀ c ∈ v, c ≠ '\'' := by
  intro cs
  induction cs with
  | nil => intro v r h; simp [singleQuoted] at h
  | cons d cs ih =>
    intro v r h
    by_cases hd : d = '\''
    · subst hd
      simp only [singleQuoted, Option.some.injEq, Prod.mk.injEq] at h
      intro c hc; rw [← h.1] at hc; simp at hc
    · rw [singleQuoted] at h
      · cases hr : singleQuoted cs with
        | none => simp [hr] at h
        | some p =>
          obtain ⟨v', r'⟩ := p
          simp only [hr, Option.some.injEq, Prod.mk.injEq] at h
          intro c hc
          rw [← h.1] at hc
          simp at hc
          rcases hc with rfl | hc
          · exact hd
          · exact ih v' r' hr c hc
      all_goals simp_all

theorem markerValue_tok (s : List Char) (v : String) (r : List Char) (h : markerValue s = some (v, r)) :
    TokVal v := by
  unfold markerValue at h
  split at h
  · rename_i r0
    cases hr : singleQuoted r0 with
    | none => simp [hr] at h
    | some p =>
      obtain ⟨l, r'⟩ := p
      simp only [hr, Option.map_some, Option.some.injEq, Prod.mk.injEq] at h
      left
      intro c hc
      rw [← h.1] at hc
      simp only [String.toList_ofList] at hc
      exact singleQuoted_out _ _ _ hr c hc
  · rename_i r0
    cases hr : escapedQuoted false r0 with
    | none => simp [hr] at h
    | some p =>
      obtain ⟨l, r'⟩ := p
      simp only [hr, Option.map_some, Option.some.injEq, Prod.mk.injEq] at h
      right
      rw [← h.1]
      simp only [String.toList_ofList]
      exact esc_roundtrip _ _ _ _ hr
  · cases h

theorem parseItem_tok (s : List Char) (a : Marker.Atom) (r : List Char) (h : parseItem s = some (a, r)) :
    AtomTok a := by
  unfold parseItem at h
  repeat' split at h
  all_goals first
    | (cases h; done)
    | (cases h
       exact ⟨matchWord_mem _ _ _ _ (by assumption), matchWord_mem _ _ _ _ (by assumption),
         markerValue_tok _ _ _ (by assumption)⟩)

theorem parse_tok : ∀ (f : Nat),
    (∀ s a r, parseAtom f s = some (a, r) → AtomTok a) ∧ (∀ s m r, parseSyn f s = some (m, r) → SynTok m) := by
  intro f
  induction f with
  | zero => exact ⟨fun s a r h => by simp [parseAtom] at h, fun s m r h => by simp [parseSyn] at h⟩
  | succ f ih =>
    have hA : ∀ s a r, parseAtom (f + 1) s = some (a, r) → AtomTok a := by
      intro s a r h
      rw [parseAtom] at h
      split at h
      · split at h
        · split at h
          · cases h
            exact ih.2 _ _ _ (by assumption)
          · cases h
        · cases h
      · exact parseItem_tok _ _ _ h
    refine ⟨hA, ?_⟩
    intro s m r h
    rw [parseSyn] at h
    split at h
    · cases h
    · split at h
      · split at h
        · cases h
          exact ⟨ih.1 _ _ _ (by assumption), ih.2 _ _ _ (by assumption)⟩
        · cases h
      · cases h
        exact ih.1 _ _ _ (by assumption)

/-- **every tree the grammar returns carries grammar names, grammar operators and token values** -/
theorem parseText_tok (s : String) (syn : Syn) (h : parseText s = .ok syn) : SynTok syn := by
  unfold parseText at h
  simp only at h
  split at h
  · split at h
    · cases h; exact (parse_tok _).2 _ _ _ (by assumption)
    · cases h
  · cases h

/-! ## markers that do not mention BOTH python-version variables: no lark error from the simplifier -/

mutual
theorem good_and {G1 G2 : Leaf → Prop} : ∀ (m : M), M.Good G1 m → M.Good G2 m → M.Good (fun l => G1 l ∧ G2 l) m
  | .any, _, _ => by simp
  | .empty, _, _ => by simp
  | .leaf l, h1, h2 => by simp only [M.good_leaf] at *; exact ⟨h1, h2⟩
  | .multi ms, h1, h2 => by
    simp only [M.good_multi] at *
    exact goodAll_and ms h1 h2
  | .union ms, h1, h2 => by
    simp only [M.good_union] at *
    exact goodAll_and ms h1 h2
theorem goodAll_and {G1 G2 : Leaf → Prop} : ∀ (ms : List M), (∀ m ∈ ms, M.Good G1 m) → (∀ m ∈ ms, M.Good G2 m) →
    ∀ m ∈ ms, M.Good (fun l => G1 l ∧ G2 l) m
  | [], _, _ => by intro m hm; simp at hm
  | x :: xs, h1, h2 => by
    intro m hm
    simp at hm
    rcases hm with rfl | hm
    · exact good_and m (h1 m (by simp)) (h2 m (by simp))
    · exact goodAll_and xs (fun y hy => h1 y (by simp [hy])) (fun y hy => h2 y (by simp [hy])) m hm
end

/-- the grammar's variable names without `python_version` / without `python_full_version` -/
def namesNoPv : List String := names.filter (fun n => n != "python_version")
def namesNoPfv : List String := names.filter (fun n => n != "python_full_version")

/-- the invariant of Part X together with "named by a variable of `N`, spelt canonically" -/
def NamedOK (P : VC → Prop) (N : List String) (l : Leaf) : Prop := LeafOK P l ∧ Named N l

/-- **the leaf merge does not raise lark's error** on leaves named in `N`, when `N`-named leaves never form a
re-parsing pair (`NoSyn … false`) -/
theorem mergeNoSyntax_named {P : VC → Prop} (hvc : VCErrDocumented) (hP : VCOpsMin P) (N : List String)
    (hN : ∀ l1 l2, Named N l1 → Named N l2 → NoSyn P false l1 l2) : MergeNoSyntax (NamedOK P N) := by
  intro l1 l2 b h1 h2
  have hns := hN l1 l2 h1.2 h2.2
  have R := mergeLeaves_resS (sb := false) hvc hP l1 l2 b h1.1 h2.1 hns
  have hp : ((l1.name == "python_version" && l2.name == "python_full_version") ||
      (l1.name == "python_full_version" && l2.name == "python_version")) = false := by
    cases hq : ((l1.name == "python_version" && l2.name == "python_full_version") ||
      (l1.name == "python_full_version" && l2.name == "python_version")) with
    | false => rfl
    | true =>
      exfalso
      simp only [Bool.or_eq_true, Bool.and_eq_true, beq_iff_eq] at hq
      rcases hns with h | h | h
      · cases h
      · rcases hq with ⟨h', _⟩ | ⟨_, h'⟩
        · exact h.1 h'
        · exact h.2 h'
      · rcases hq with ⟨_, h'⟩ | ⟨h', _⟩
        · exact h.2.2 h'
        · exact h.2.1 h'
  cases hm : mergeLeaves l1 l2 b with
  | error e =>
    rw [hm] at R
    rcases R with h | h | ⟨hf, _⟩ | h | h
    · exact .inl h
    · exact .inr (.inl h)
    · cases hf
    · exact .inr (.inr (.inl h))
    · exact .inr (.inr (.inr h))
  | ok o =>
    rw [hm] at R
    show OptGood (NamedOK P N) o
    intro r hr
    subst hr
    have hnamed := mergeSingle_nonpy_named N 2 l1 l2 b r hp h1.2 h2.2 hm
    exact good_and r (R r rfl) hnamed

theorem namesNoPv_ne : ∀ n ∈ namesNoPv, n ≠ "python_version" := by decide
theorem namesNoPfv_ne : ∀ n ∈ namesNoPfv, n ≠ "python_full_version" := by decide

/-- no leaf named `python_version`: hypothesis-free -/
theorem mergeNoSyntax_noPv {P : VC → Prop} (hvc : VCErrDocumented) (hP : VCOpsMin P) :
    MergeNoSyntax (NamedOK P namesNoPv) :=
  mergeNoSyntax_named hvc hP namesNoPv
    (fun l1 l2 h1 h2 => .inr (.inl ⟨namesNoPv_ne _ h1.1, namesNoPv_ne _ h2.1⟩))

/-- no leaf named `python_full_version`: needs the candidate text to be readable (`SiteAOk`) -/
theorem mergeNoSyntax_noPfv {P : VC → Prop} (hvc : VCErrDocumented) (hP : VCOpsMin P) (hA : SiteAOk P) :
    MergeNoSyntax (NamedOK P namesNoPfv) :=
  mergeNoSyntax_named hvc hP namesNoPfv
    (fun l1 l2 h1 h2 => .inr (.inr ⟨hA, namesNoPfv_ne _ h1.1, namesNoPfv_ne _ h2.1⟩))

/-- the texts of the bounds of constraints in `P` are plain -/
def TextOkP (P : VC → Prop) : Prop :=
  ∀ c, P c → ∀ r ∈ c.flatten, ∀ v ∈ r.bounds, ∀ ch ∈ v.text.toList, ch ≠ '"' ∧ ch ≠ '\\' ∧ ch ≠ '\n' ∧ ch ≠ '\''

theorem siteAOk_of_text {P : VC → Prop} (hT : TextOkP P) : SiteAOk P := by
  intro r mn hr hmn
  have hpl : PlainStr mn.text := by
    intro ch hch
    refine hT _ hr (.rng r) (by simp [VC.flatten]) mn ?_ ch hch
    simp [RC.bounds, RC.view, VRange.bounds, RC.min, hmn]
  have hq : quoteOf mn.text = "\"" := quoteOf_dq (fun c hc => ⟨(hpl c hc).1, (hpl c hc).2.1⟩)
  have ht : "python_version == \"" ++ mn.text ++ "\"" = leafText "python_version" "==" mn.text false := by
    simp [leafText, hq, String.append_assoc]
  rw [ht]
  exact parseText_leafText _ _ _ _ (by decide) (by decide) hpl.lex

mutual
/-- every item's variable is in `N` (decidable on the tree) -/
def AtomIn (N : List String) : Marker.Atom → Bool
  | .item n _ _ _ => N.contains n
  | .paren m => SynIn N m
def SynIn (N : List String) : Syn → Bool
  | .one a => AtomIn N a
  | .more a _ rest => AtomIn N a && SynIn N rest
end

/-- `N` is closed under alias resolution, which is idempotent on it -/
def AliasClosed (N : List String) : Prop := ∀ n ∈ N, aliasName n ∈ N ∧ aliasName (aliasName n) = aliasName n

theorem aliasClosed_noPv : AliasClosed namesNoPv := by unfold AliasClosed; decide
theorem aliasClosed_noPfv : AliasClosed namesNoPfv := by unfold AliasClosed; decide

mutual
theorem compactAtom_named (N : List String) (hN : AliasClosed N) : ∀ (a : Marker.Atom) (m : M),
    AtomIn N a = true → compactAtom a = .ok m → M.Good (Named N) m
  | .item n op v sw, m, hp, h => by
    unfold compactAtom at h
    obtain ⟨s, hs, h⟩ := bind_ok _ _ _ h
    simp only [pure, Except.pure, Except.ok.injEq] at h
    subst h
    have hn : n ∈ N := by simpa [AtomIn] using hp
    have := hN n hn
    simp only [M.good_leaf, Named, Leaf.name]
    rw [mkSingle_name' _ _ _ _ hs]
    exact this
  | .paren syn, m, hp, h => by
    unfold compactAtom at h
    obtain ⟨gs, hg, h⟩ := bind_ok _ _ _ h
    simp only [pure, Except.pure, Except.ok.injEq] at h
    subst h
    apply mkUnion_good
    intro x hx
    simp only [List.mem_map] at hx
    obtain ⟨g, hg', rfl⟩ := hx
    exact groupMarker_good (compactGroups_named N hN syn gs (by simpa [AtomIn] using hp) hg g hg')
theorem compactGroups_named (N : List String) (hN : AliasClosed N) : ∀ (s : Syn) (gs : List (List M)),
    SynIn N s = true → compactGroups s = .ok gs → ∀ g ∈ gs, GL (Named N) g
  | .one a, gs, hp, h => by
    unfold compactGroups at h
    obtain ⟨x, hx, h⟩ := bind_ok _ _ _ h
    simp only [pure, Except.pure, Except.ok.injEq] at h
    subst h
    intro g hg
    simp at hg; subst hg
    exact single_good (compactAtom_named N hN a x (by simpa [SynIn] using hp) hx)
  | .more a isOr rest, gs, hp, h => by
    unfold compactGroups at h
    obtain ⟨x, hx, h⟩ := bind_ok _ _ _ h
    obtain ⟨gs', hgs, h⟩ := bind_ok _ _ _ h
    simp only [SynIn, Bool.and_eq_true] at hp
    have gx := compactAtom_named N hN a x hp.1 hx
    have grest := compactGroups_named N hN rest gs' hp.2 hgs
    split at h
    · simp only [pure, Except.pure, Except.ok.injEq] at h
      subst h
      intro g hg
      simp at hg
      rcases hg with rfl | hg
      · exact single_good gx
      · exact grest g hg
    · split at h
      · rename_i g0 gs''
        simp only [pure, Except.pure, Except.ok.injEq] at h
        subst h
        intro g hg
        simp at hg
        rcases hg with rfl | hg
        · intro y hy
          simp at hy
          rcases hy with rfl | hy
          · exact gx
          · exact grest g0 (by simp) y hy
        · exact grest g (by simp [hg])
      · simp only [pure, Except.pure, Except.ok.injEq] at h
        subst h
        intro g hg
        simp at hg; subst hg
        exact single_good gx
end

theorem compactSubMarkers_named {P : VC → Prop} (hvc : VCErrDocumented) (hP : VCOpsMin P) (N : List String)
    (hN : AliasClosed N) (syn : Syn) (subs : List M) (hp : SynIn N syn = true)
    (h : compactSubMarkers syn = .ok subs) : GL (NamedOK P N) subs := by
  have h1 := compactSubMarkers_good hvc hP syn subs h
  have h2 : GL (Named N) subs := by
    unfold compactSubMarkers at h
    obtain ⟨gs, hg, h⟩ := bind_ok _ _ _ h
    simp only [pure, Except.pure, Except.ok.injEq] at h
    subst h
    intro x hx
    simp only [List.mem_map] at hx
    obtain ⟨g, hg', rfl⟩ := hx
    exact groupMarker_good (compactGroups_named N hN syn gs hp hg g hg')
  exact fun m hm => good_and m (h1 m hm) (h2 m hm)

/-- `parse_marker` on a text whose variables are all in `N`, given that the merge on `N`-named leaves does not
raise lark's error -/
theorem parseMarker_named {P : VC → Prop} (hvc : VCErrDocumented) (hP : VCOpsMin P) (N : List String)
    (hN : AliasClosed N) (hM : MergeNoSyntax (NamedOK P N)) (s : String) (syn : Syn)
    (hp : parseText s = .ok syn) (hnp : SynIn N syn = true) (e : PyErr) (h : parseMarker s = .error e) :
    e = .fuel ∨ e = .recursion ∨ e = .value ∨ e = .unmodelled := by
  rcases parseMarker_cases s _ h with ⟨_, h⟩ | ⟨_, _, h⟩ | ⟨_, _, _, h⟩
  · cases h
  · cases h
  · rcases h with ⟨e', h1, h2⟩ | ⟨syn', e', h1, h2, h3⟩ | ⟨syn', subs, h1, h2, h3⟩
    · rw [hp] at h1; cases h1
    · cases h3
      rcases compactSubMarkers_err hvc syn' _ h2 with h | h
      · exact .inr (.inr (.inl h))
      · exact .inr (.inr (.inr h))
    · rw [hp] at h1; cases h1
      exact unionF_no_syntax_of hM _ _ _ (compactSubMarkers_named hvc hP N hN syn subs hnp h2) e h3.symm

theorem compactTop_named {P : VC → Prop} (hvc : VCErrDocumented) (hP : VCOpsMin P) (N : List String)
    (hN : AliasClosed N) (hM : MergeNoSyntax (NamedOK P N)) (syn : Syn) (hnp : SynIn N syn = true) (e : PyErr)
    (h : Req.compactTop syn = .error e) : e = .fuel ∨ e = .recursion ∨ e = .value ∨ e = .unmodelled := by
  unfold Req.compactTop at h
  rcases bind_err _ _ _ h with h | ⟨subs, hs, h⟩
  · rcases compactSubMarkers_err hvc syn _ h with h | h
    · exact .inr (.inr (.inl h))
    · exact .inr (.inr (.inr h))
  · exact unionF_no_syntax_of hM _ _ _ (compactSubMarkers_named hvc hP N hN syn subs hnp hs) e h

theorem takeTail_tok (s : List Char) (syn : Syn) (h : Req.takeTail s = some (some syn)) : SynTok syn := by
  unfold Req.takeTail at h
  split at h
  · cases h
  · split at h
    · rename_i syn' hp
      cases h
      exact parseText_tok _ _ hp
    · cases h
  · cases h

theorem parseRest_marker_tok (name : List Char) (es : List (List Char)) (r : List Char) (raw : Req.Raw)
    (syn : Syn) (h : Req.parseRest name es r = some raw) (hm : raw.marker = some syn) : SynTok syn := by
  unfold Req.parseRest at h
  repeat' split at h
  all_goals first
    | (cases h; done)
    | (simp only [Option.map_eq_some_iff] at h
       obtain ⟨m, hm', rfl⟩ := h
       have hm2 : m = some syn := hm
       subst hm2
       exact takeTail_tok _ _ hm')

/-- the marker part of a requirement the grammar accepts carries token values -/
theorem parseRaw_marker_tok (cs : List Char) (raw : Req.Raw) (syn : Syn) (h : Req.parseRaw cs = some raw)
    (hm : raw.marker = some syn) : SynTok syn := by
  unfold Req.parseRaw at h
  repeat' split at h
  all_goals first
    | (cases h; done)
    | exact parseRest_marker_tok _ _ _ _ _ h hm

/-! ## the text-clean version-constraint package (Proofs/ParserTotalVC5.lean) -/

theorem VCOpsTotalT.toMin {P : VC → Prop} (h : VCOpsTotalT P) : VCOpsMin P :=
  ⟨h.any, h.parsed, h.inter, h.unionWith, h.isSimple, h.toStr⟩

theorem VCOpsTotalT.textOkP {P : VC → Prop} (h : VCOpsTotalT P) : TextOkP P := by
  intro c hc r hr v hv ch hch
  have hv' := h.textOk c hc r hr v hv ch hch
  exact ⟨vchar_ne ch '"' hv' (by decide), vchar_ne ch '\\' hv' (by decide), vchar_ne ch '\n' hv' (by decide),
    vchar_ne ch '\'' hv' (by decide)⟩

/-! ## `~=` markers: their inversion prints the bounds of the parsed constraint -/

/-- a leaf whose printed text the grammar reads back, with its version constraint in `P` -/
def LexLeafT (P : VC → Prop) (l : Leaf) : Prop :=
  match l with
  | .single s => s.name ∈ names ∧ LexVal s.value ∧ ∀ c, s.c = .ver c → P c
  | _ => True

theorem optVerStr_plain {P : VC → Prop} (hT : TextOkP P) (rc : RC) (hrc : P (.single rc)) :
    PlainStr (optVerStr rc.min) ∧ PlainStr (optVerStr rc.max) := by
  have key : ∀ (o : Option Version), (∀ v, o = some v → v ∈ rc.bounds) → PlainStr (optVerStr o) := by
    intro o ho
    cases o with
    | none => unfold optVerStr PlainStr; decide
    | some v =>
      intro ch hch
      exact hT _ hrc rc (by simp [VC.flatten]) v (ho v rfl) ch hch
  constructor
  · apply key
    intro v hv
    simp [RC.bounds, RC.view, VRange.bounds, hv]
  · apply key
    intro v hv
    simp [RC.bounds, RC.view, VRange.bounds, hv]

theorem tildeOps_plain : ∀ op ∈ [">=", ">", "<=", "<"], ∀ c ∈ op.toList,
    c ≠ '\n' ∧ c ≠ '"' ∧ c ≠ '\\' ∧ c ≠ '\'' := by decide

/-- the bound leaf `name >= <text>` built by the `~=` inversion is lexable -/
theorem tilde_bound_leaf (name op T : String) (hn : name ∈ names) (hop : op = ">=" ∨ op = ">" ∨ op = "<=" ∨ op = "<")
    (hT : PlainStr T) (a : Single) (h : mkSingle name (op ++ " " ++ T) false = .ok a) :
    a.name ∈ names ∧ LexVal a.value := by
  obtain ⟨hval, hname, _⟩ := mkSingle_value_cut name _ a h
  refine ⟨by rw [hname]; exact alias_names name hn, ?_⟩
  rcases hval with hcut | hpl
  · have hcs : (op ++ " " ++ T).toList = (op.toList ++ [' ']) ++ T.toList := by
      simp [String.toList_append]
    rw [hcs] at hcut
    refine lexVal_of_cut (op.toList ++ [' ']) T.toList a.value ?_ (.inl (fun c hc => (hT c hc).2.2.2)) hcut
    intro c hc
    simp only [List.mem_append, List.mem_singleton] at hc
    rcases hc with hc | rfl
    · have hmem : op ∈ [">=", ">", "<=", "<"] := by
        rcases hop with rfl | rfl | rfl | rfl <;> simp
      have := tildeOps_plain op hmem c hc
      exact ⟨this.1, this.2.1, this.2.2.1, this.2.2.2⟩
    · exact ⟨by decide, by decide, by decide, by decide⟩
  · exact hpl.lex

theorem single_invert_no_syntax {P : VC → Prop} (hvc : VCErrDocumented) (hT : TextOkP P) (s : Single)
    (hl : LexLeafT P (.single s)) (e : PyErr) (h : Leaf.invert (.single s) = .error e) : e ≠ .syntax := by
  obtain ⟨hn, hv, hc⟩ := hl
  unfold Leaf.invert at h
  simp only at h
  split at h
  · -- `~=`
    split at h
    · rename_i rc hsc
      have hpl := optVerStr_plain hT rc (hc _ hsc)
      rcases bind_err _ _ _ h with h | ⟨a, ha, h⟩
      · rcases mkSingle_leafErr hvc _ _ _ _ h with h | h <;> (rw [h]; decide)
      rcases bind_err _ _ _ h with h | ⟨b, hb, h⟩
      · rcases mkSingle_leafErr hvc _ _ _ _ h with h | h <;> (rw [h]; decide)
      have hA := tilde_bound_leaf s.name _ _ hn (by split <;> simp) hpl.1 a ha
      have hB := tilde_bound_leaf s.name _ _ hn (by split <;> simp) hpl.2 b hb
      rcases bind_err _ _ _ h with h | ⟨_, _, h⟩
      · obtain ⟨m, hm, hme⟩ := mapM_err _ _ _ h
        let Gx : Leaf → Prop := fun l => ∃ x, l = .single x ∧ x.name ∈ names ∧ LexVal x.value
        have hg : GL Gx (flattenMarkers true [.leaf (.single a), .leaf (.single b)]) :=
          flattenMarkers_good true _ (pair_good (by simpa using ⟨a, rfl, hA⟩) (by simpa using ⟨b, rfl, hB⟩))
        have hgm := hg m hm
        cases m with
        | leaf l =>
          cases l with
          | single x =>
            simp only [M.good_leaf] at hgm
            obtain ⟨x', hx', hxn, hxv⟩ := hgm
            cases hx'
            rcases invertSimple_err hvc x hxn hxv e hme with h | h | h <;> (rw [h]; decide)
          | amulti _ _ => cases hme; decide
          | aunion _ _ => cases hme; decide
        | any => cases hme; decide
        | empty => cases hme; decide
        | multi _ => cases hme; decide
        | union _ => cases hme; decide
      · simp [pure, Except.pure] at h
    · cases h; decide
  · rcases invertSimple_err hvc s hn hv e h with h | h | h <;> (rw [h]; decide)

theorem leaf_invert_no_syntaxT {P : VC → Prop} (hvc : VCErrDocumented) (hT : TextOkP P) (l : Leaf)
    (hl : LexLeafT P l) (e : PyErr) (h : l.invert = .error e) : e ≠ .syntax := by
  cases l with
  | single s => exact single_invert_no_syntax hvc hT s hl e h
  | amulti n c => exact leaf_invert_no_syntax hvc (.amulti n c) trivial e h
  | aunion n c => exact leaf_invert_no_syntax hvc (.aunion n c) trivial e h

mutual
theorem invert_no_syntaxT {P : VC → Prop} (hvc : VCErrDocumented) (hT : TextOkP P) : ∀ (m : M),
    M.Good (LexLeafT P) m → ∀ e, m.invert = .error e → e ≠ .syntax
  | .any, _, e, h => by simp [M.invert] at h
  | .empty, _, e, h => by simp [M.invert] at h
  | .leaf l, hg, e, h => by
    simp only [M.invert] at h
    exact leaf_invert_no_syntaxT hvc hT l (by simpa using hg) e h
  | .multi ms, hg, e, h => by
    simp only [M.invert] at h
    rcases bind_err _ _ _ h with h | ⟨_, _, h⟩
    · exact invertList_no_syntaxT hvc hT ms (by simpa using hg) e h
    · simp [pure, Except.pure] at h
  | .union ms, hg, e, h => by
    simp only [M.invert] at h
    rcases bind_err _ _ _ h with h | ⟨_, _, h⟩
    · exact invertList_no_syntaxT hvc hT ms (by simpa using hg) e h
    · simp [pure, Except.pure] at h
theorem invertList_no_syntaxT {P : VC → Prop} (hvc : VCErrDocumented) (hT : TextOkP P) : ∀ (ms : List M),
    (∀ x ∈ ms, M.Good (LexLeafT P) x) → ∀ e, M.invertList ms = .error e → e ≠ .syntax
  | [], _, e, h => by simp [M.invertList] at h
  | m :: ms, hg, e, h => by
    simp only [M.invertList] at h
    rcases bind_err _ _ _ h with h | ⟨_, _, h⟩
    · exact invert_no_syntaxT hvc hT m (hg m (by simp)) e h
    · rcases bind_err _ _ _ h with h | ⟨_, _, h⟩
      · exact invertList_no_syntaxT hvc hT ms (fun x hx => hg x (by simp [hx])) e h
      · simp [pure, Except.pure] at h
end

/-! ## every accepted text: the un-simplified marker can be inverted without lark's error -/

/-- name and value of a single leaf are readable -/
def Lex0 (l : Leaf) : Prop :=
  match l with
  | .single s => s.name ∈ names ∧ LexVal s.value
  | _ => True

theorem mkSingle_lex0 (n op v : String) (sw : Bool) (hn : n ∈ names) (ho : op ∈ ops) (hv : TokVal v)
    (s : Single) (h : mkSingle n (itemConstraintString op v sw) sw = .ok s) : Lex0 (.single s) := by
  cases sw with
  | true =>
    have := mkSingle_lexLeaf_swapped n op v hn ho hv s h
    exact ⟨this.1, this.2.1⟩
  | false =>
    obtain ⟨hval, hname, _⟩ := mkSingle_value_cut n _ s h
    have hcs : (itemConstraintString op v false).toList = op.toList ++ v.toList := by
      simp [itemConstraintString, String.toList_append]
    refine ⟨by rw [hname]; exact alias_names n hn, ?_⟩
    rcases hval with hcut | hpl
    · rw [hcs] at hcut
      have hcl := ops_chars_clean op ho
      exact lexVal_of_cut op.toList v.toList s.value
        (fun c hc => ⟨(hcl c hc).2.1, (hcl c hc).2.2.1, (hcl c hc).1, (hcl c hc).2.2.2⟩) hv hcut
    · exact hpl.lex

mutual
theorem compactAtom_lex0 : ∀ (a : Marker.Atom) (m : M), AtomTok a → compactAtom a = .ok m → M.Good Lex0 m
  | .item n op v sw, m, ht, h => by
    unfold compactAtom at h
    obtain ⟨s, hs, h⟩ := bind_ok _ _ _ h
    simp only [pure, Except.pure, Except.ok.injEq] at h
    subst h
    simpa using mkSingle_lex0 n op v sw ht.1 ht.2.1 ht.2.2 s hs
  | .paren syn, m, ht, h => by
    unfold compactAtom at h
    obtain ⟨gs, hg, h⟩ := bind_ok _ _ _ h
    simp only [pure, Except.pure, Except.ok.injEq] at h
    subst h
    apply mkUnion_good
    intro x hx
    simp only [List.mem_map] at hx
    obtain ⟨g, hg', rfl⟩ := hx
    exact groupMarker_good (compactGroups_lex0 syn gs ht hg g hg')
theorem compactGroups_lex0 : ∀ (s : Syn) (gs : List (List M)), SynTok s → compactGroups s = .ok gs →
    ∀ g ∈ gs, GL Lex0 g
  | .one a, gs, ht, h => by
    unfold compactGroups at h
    obtain ⟨x, hx, h⟩ := bind_ok _ _ _ h
    simp only [pure, Except.pure, Except.ok.injEq] at h
    subst h
    intro g hg
    simp at hg; subst hg
    exact single_good (compactAtom_lex0 a x ht hx)
  | .more a isOr rest, gs, ht, h => by
    unfold compactGroups at h
    obtain ⟨x, hx, h⟩ := bind_ok _ _ _ h
    obtain ⟨gs', hgs, h⟩ := bind_ok _ _ _ h
    have gx := compactAtom_lex0 a x ht.1 hx
    have grest := compactGroups_lex0 rest gs' ht.2 hgs
    split at h
    · simp only [pure, Except.pure, Except.ok.injEq] at h
      subst h
      intro g hg
      simp at hg
      rcases hg with rfl | hg
      · exact single_good gx
      · exact grest g hg
    · split at h
      · rename_i g0 gs''
        simp only [pure, Except.pure, Except.ok.injEq] at h
        subst h
        intro g hg
        simp at hg
        rcases hg with rfl | hg
        · intro y hy
          simp at hy
          rcases hy with rfl | hy
          · exact gx
          · exact grest g0 (by simp) y hy
        · exact grest g (by simp [hg])
      · simp only [pure, Except.pure, Except.ok.injEq] at h
        subst h
        intro g hg
        simp at hg; subst hg
        exact single_good gx
end

mutual
theorem good_mono {G1 G2 : Leaf → Prop} (hG : ∀ l, G1 l → G2 l) : ∀ (m : M), M.Good G1 m → M.Good G2 m
  | .any, _ => by simp
  | .empty, _ => by simp
  | .leaf l, h => by simp only [M.good_leaf] at *; exact hG l h
  | .multi ms, h => by simp only [M.good_multi] at *; exact goodAll_mono hG ms h
  | .union ms, h => by simp only [M.good_union] at *; exact goodAll_mono hG ms h
theorem goodAll_mono {G1 G2 : Leaf → Prop} (hG : ∀ l, G1 l → G2 l) : ∀ (ms : List M),
    (∀ m ∈ ms, M.Good G1 m) → ∀ m ∈ ms, M.Good G2 m
  | [], _ => by intro m hm; simp at hm
  | x :: xs, h => by
    intro m hm
    simp at hm
    rcases hm with rfl | hm
    · exact good_mono hG m (h m (by simp))
    · exact goodAll_mono hG xs (fun y hy => h y (by simp [hy])) m hm
end

/-- **the un-simplified marker of every tree carrying token values is invertible without lark's error** -/
theorem compactRaw_invert_no_syntax {P : VC → Prop} (hvc : VCErrDocumented) (hP : VCOpsMin P) (hT : TextOkP P)
    (syn : Syn) (m : M) (ht : SynTok syn) (hc : compactRaw syn = .ok m) (e : PyErr) (h : m.invert = .error e) :
    e ≠ .syntax := by
  unfold compactRaw at hc
  obtain ⟨subs, hs, hc⟩ := bind_ok _ _ _ hc
  simp only [pure, Except.pure, Except.ok.injEq] at hc
  subst hc
  have h1 := compactSubMarkers_good hvc hP syn subs hs
  have h2 : GL Lex0 subs := by
    unfold compactSubMarkers at hs
    obtain ⟨gs, hg, hs⟩ := bind_ok _ _ _ hs
    simp only [pure, Except.pure, Except.ok.injEq] at hs
    subst hs
    intro x hx
    simp only [List.mem_map] at hx
    obtain ⟨g, hg', rfl⟩ := hx
    exact groupMarker_good (compactGroups_lex0 syn gs ht hg g hg')
  have hcomb : GL (LexLeafT P) subs := by
    intro x hx
    refine good_mono ?_ x (good_and x (h1 x hx) (h2 x hx))
    intro l hl
    cases l with
    | single s => exact ⟨hl.2.1, hl.2.2, hl.1.2⟩
    | amulti _ _ => trivial
    | aunion _ _ => trivial
  exact invert_no_syntaxT hvc hT _ (mkUnion_good hcomb) e h

end Poetry.ParserTotal
