/-
`create_nested_marker` through poetry's own `parse_marker` (helper lemmas for C11): the leaf invariant of the
markers `_compact_markers` builds, C06's compaction agreement restated for `compactSubMarkers` and the tree
semantics `M.sem (leafEval E)`, and the composition with C07's `union` soundness.
-/
import PoetryVerif.Proofs.PyConvNorm
import PoetryVerif.Proofs.MarkerAlgSoundOps
import PoetryVerif.Proofs.MarkerShape
import PoetryVerif.Proofs.MarkerLeafVersionText
import PoetryVerif.Proofs.MarkerProjVars

set_option linter.unusedSimpArgs false
set_option linter.unusedVariables false

namespace Poetry.Marker
open Poetry Poetry.Spec.Pep508

variable {G : Leaf → Prop}

/-! ### the leaf invariant survives flattening (no semantics involved) -/

theorem appendNew_good (ms : List M) : ∀ (acc : List M), (∀ x ∈ acc, M.Good G x) → (∀ x ∈ ms, M.Good G x) →
    ∀ x ∈ appendNew acc ms, M.Good G x := by
  intro acc ha hm x hx
  rcases appendNew_mem ms acc hx with h | h
  · exact ha x h
  · exact hm x h

theorem flattenAux_good (b : Bool) (ms acc : List M) : (∀ x ∈ ms, M.Good G x) → (∀ x ∈ acc, M.Good G x) →
    ∀ x ∈ flattenAux b ms acc, M.Good G x := by
  induction ms, acc using flattenAux.induct b with
  | case1 acc => intro _ ha; rw [flattenAux.eq_def]; simpa using ha
  | case2 rest acc inner hb ih1 ih2 =>
    intro hm ha
    rw [flattenAux.eq_def]
    subst hb
    simp only
    have hi : ∀ x ∈ inner, M.Good G x := by
      have := hm (.multi inner) (by simp); simpa using this
    exact ih2 (fun x hx => hm x (by simp [hx])) (appendNew_good _ acc ha (ih1 hi (by simp)))
  | case3 rest acc inner hb ih1 ih2 =>
    intro hm ha
    rw [flattenAux.eq_def]
    subst hb
    simp only
    have hi : ∀ x ∈ inner, M.Good G x := by
      have := hm (.union inner) (by simp); simpa using this
    exact ih2 (fun x hx => hm x (by simp [hx])) (appendNew_good _ acc ha (ih1 hi (by simp)))
  | case4 rest acc m hn1 hn2 ih =>
    intro hm ha
    simp only [dite_eq_ite] at ih
    have h1 : ∀ x ∈ (if m.mem acc = true then acc else acc ++ [m]), M.Good G x := by
      intro x hx
      split at hx
      · exact ha x hx
      · rcases List.mem_append.1 hx with h | h
        · exact ha x h
        · simp at h; subst h; exact hm _ (by simp)
    have h3 := ih (fun x hx => hm x (by simp [hx])) h1
    rw [flattenAux.eq_def]
    have e : (match m, b with
      | M.multi inner, true => flattenAux b rest (appendNew acc (flattenAux b inner []))
      | M.union inner, false => flattenAux b rest (appendNew acc (flattenAux b inner []))
      | m, x => flattenAux b rest (if m.mem acc = true then acc else acc ++ [m])) =
        flattenAux b rest (if m.mem acc = true then acc else acc ++ [m]) := by
      cases m <;> cases b <;> first | rfl | (exact absurd rfl (fun h => hn1 _ h rfl)) | (exact absurd rfl (fun h => hn2 _ h rfl))
    simp only [e]
    exact h3


theorem mkUnion_good (ms : List M) (h : ∀ x ∈ ms, M.Good G x) : M.Good G (mkUnion ms) := by
  simpa [mkUnion, flattenMarkers] using flattenAux_good false ms [] h (by simp)

theorem mkMulti_good (ms : List M) (h : ∀ x ∈ ms, M.Good G x) : M.Good G (mkMulti ms) := by
  simpa [mkMulti, flattenMarkers] using flattenAux_good true ms [] h (by simp)

theorem groupMarker_good (g : List M) (h : ∀ x ∈ g, M.Good G x) : M.Good G (groupMarker g) := by
  unfold groupMarker
  split
  · exact h _ (by simp)
  · exact mkMulti_good g h

/-! ### the markers `_compact_markers` builds -/

mutual
/-- every `item` of the tree, once built as a `SingleMarker`, satisfies `G` -/
def AtomItems (G : Leaf → Prop) : Atom → Prop
  | .item n op v sw => ∀ s, mkSingle n (itemConstraintString op v sw) sw = .ok s → G (.single s)
  | .paren m => SynItems G m
def SynItems (G : Leaf → Prop) : Syn → Prop
  | .one a => AtomItems G a
  | .more a _ rest => AtomItems G a ∧ SynItems G rest
end

mutual
theorem compactAtom_good : ∀ (a : Atom) (x : M), compactAtom a = .ok x → AtomItems G a → M.Good G x
  | .item n op v sw, x, h, hi => by
    simp only [compactAtom, bind, Except.bind, pure, Except.pure] at h
    cases hs : mkSingle n (itemConstraintString op v sw) sw with
    | error e => rw [hs] at h; cases h
    | ok s =>
      rw [hs] at h; cases h
      simpa using hi s hs
  | .paren m, x, h, hi => by
    simp only [compactAtom, bind, Except.bind, pure, Except.pure] at h
    cases hg : compactGroups m with
    | error e => rw [hg] at h; cases h
    | ok gs =>
      rw [hg] at h; cases h
      have := compactGroups_good m gs hg (by simpa [AtomItems] using hi)
      apply mkUnion_good
      intro x hx
      obtain ⟨g, hg', rfl⟩ := List.mem_map.1 hx
      exact groupMarker_good g (this g hg')
theorem compactGroups_good : ∀ (s : Syn) (gs : List (List M)), compactGroups s = .ok gs → SynItems G s →
    ∀ g ∈ gs, ∀ x ∈ g, M.Good G x
  | .one a, gs, h, hi => by
    simp only [compactGroups, bind, Except.bind, pure, Except.pure] at h
    cases hx : compactAtom a with
    | error e => rw [hx] at h; cases h
    | ok x =>
      rw [hx] at h; cases h
      have := compactAtom_good a x hx (by simpa [SynItems] using hi)
      intro g hg y hy
      simp at hg; subst hg; simp at hy; subst hy; exact this
  | .more a isOr rest, gs, h, hi => by
    simp only [compactGroups, bind, Except.bind, pure, Except.pure] at h
    simp only [SynItems] at hi
    cases hx : compactAtom a with
    | error e => rw [hx] at h; cases h
    | ok x =>
      rw [hx] at h
      simp only at h
      cases hr : compactGroups rest with
      | error e => rw [hr] at h; cases h
      | ok gr =>
        rw [hr] at h
        simp only at h
        have h1 := compactAtom_good a x hx hi.1
        have h2 := compactGroups_good rest gr hr hi.2
        cases isOr with
        | true =>
          simp only [if_true] at h; cases h
          intro g hg y hy
          rcases List.mem_cons.1 hg with rfl | hg
          · simp at hy; subst hy; exact h1
          · exact h2 g hg y hy
        | false =>
          simp only [Bool.false_eq_true, if_false] at h
          cases gr with
          | nil =>
            simp at h; cases h
            intro g hg y hy
            simp at hg; subst hg; simp at hy; subst hy; exact h1
          | cons g0 gs' =>
            simp at h; cases h
            intro g hg y hy
            rcases List.mem_cons.1 hg with rfl | hg
            · rcases List.mem_cons.1 hy with rfl | hy
              · exact h1
              · exact h2 g0 (by simp) y hy
            · exact h2 g (by simp [hg]) y hy
end

theorem compactSub_good (syn : Syn) (subs : List M) (h : compactSubMarkers syn = .ok subs) (hi : SynItems G syn) :
    M.GoodAll G subs := by
  simp only [compactSubMarkers, bind, Except.bind, pure, Except.pure] at h
  cases hg : compactGroups syn with
  | error e => rw [hg] at h; cases h
  | ok gs =>
    rw [hg] at h; cases h
    rw [M.goodAll_iff]
    intro x hx
    obtain ⟨g, hg', rfl⟩ := List.mem_map.1 hx
    exact groupMarker_good g (compactGroups_good syn gs hg hi g hg')


theorem aliasName_idem (n : String) : aliasName (aliasName n) = aliasName n := by
  have hall : ∀ p ∈ Gen.markerAliases, aliasName p.2 = p.2 := by decide
  unfold aliasName
  cases hf : Gen.markerAliases.find? (fun p => p.1 == n) with
  | none => simp [hf]
  | some p =>
    obtain ⟨k, v⟩ := p
    simp only
    have hm := List.mem_of_find?_eq_some hf
    have := hall (k, v) hm
    unfold aliasName at this
    exact this

/-- the invariant of the leaves `_compact_markers` builds from items that have a value on `E`: a coherent
`SingleMarker` (rebuilding it from its own fields gives its constraint back) that evaluates on `E`, its variable
spelt canonically -/
def CompLeaf (E : Env) (l : Leaf) : Prop :=
  ∃ s, l = .single s ∧ s.coherent = true ∧ (∃ b, l.validate E = .ok b) ∧ Canon l

mutual
theorem atomItems_of_agree (E : Env) : ∀ a : Atom, a.agree E → a.coh = true → AtomItems (CompLeaf E) a
  | .item n op v sw, ha, hc => by
    simp only [Atom.agree] at ha
    simp only [Atom.coh, itemCoherent] at hc
    obtain ⟨b, hb, _⟩ := ha
    intro s hs
    simp only [itemV, hs] at hb
    rw [hs] at hc
    exact ⟨s, rfl, hc, ⟨b, by simpa [Leaf.validate] using hb⟩, by
      show aliasName s.name = s.name
      rw [mkSingle_name' _ _ _ _ hs, aliasName_idem]⟩
  | .paren m, ha, hc => by
    simp only [AtomItems]
    exact synItems_of_agree E m (by simpa [Atom.agree] using ha) (by simpa [Atom.coh] using hc)
theorem synItems_of_agree (E : Env) : ∀ s : Syn, s.agree E → s.coh = true → SynItems (CompLeaf E) s
  | .one a, ha, hc => by
    simp only [SynItems]
    exact atomItems_of_agree E a (by simpa [Syn.agree] using ha) (by simpa [Syn.coh] using hc)
  | .more a _ rest, ha, hc => by
    simp only [Syn.agree] at ha
    simp only [Syn.coh, Bool.and_eq_true] at hc
    exact ⟨atomItems_of_agree E a ha.1 hc.1, synItems_of_agree E rest ha.2 hc.2⟩
end

/-- **C06's compaction agreement, for `compactSubMarkers` and the tree semantics**: when every item of the tree
has a value that the reference shares (`agree`) and the leaves are coherent (`coh`), the sub-markers
`parse_marker` hands to `union` satisfy `CompLeaf E`, and their disjunction under `leafEval E` is the reference
value of the tree. -/
theorem compactSub_agree (E : Env) (S : LeafSpec (leafEval E) (CompLeaf E)) (syn : Syn) (subs : List M) (b : Bool)
    (h : compactSubMarkers syn = .ok subs) (ha : syn.agree E) (hc : syn.coh = true)
    (he : evalSyn E syn = some b) :
    M.GoodAll (CompLeaf E) subs ∧ M.semAny (leafEval E) subs = b := by
  have hg := compactSub_good syn subs h (synItems_of_agree E syn ha hc)
  have hgl := (M.goodAll_iff subs).1 hg
  refine ⟨hg, ?_⟩
  have hraw : compactRaw syn = .ok (mkUnion subs) := by
    simp [compactRaw, h, bind, Except.bind, pure, Except.pure]
  obtain ⟨b', h1, h2⟩ := synV_spec E syn ha true
  have hval : M.validate E (mkUnion subs) = .ok b' := by
    rw [(compactRaw_sem E syn _ hraw hc).2, h1]
  have hb : b' = b := by
    have : evalSyn E syn = some b' := by simpa [evalSyn] using h2
    rw [he] at this; injection this with this; exact this.symm
  subst hb
  have hev : M.Evaluable E (mkUnion subs) :=
    M.good_mono (fun l hl => by obtain ⟨s, _, _, hb, _⟩ := hl; exact hb) _ (mkUnion_good subs hgl)
  rw [M.validate_eq_sem E _ hev] at hval
  injection hval with hval
  rw [(mkUnion_spec S subs hgl).2, ← M.semAny_eq] at hval
  exact hval


/-! ### the trees `create_nested_marker` prints are in C06's proved domain -/

theorem cmpOp_ordered {op : String} (h : CmpOp op) : ∃ sop, (sop, op) ∈ orderedOps := by
  rcases h with rfl | rfl | rfl | rfl | rfl
  · exact ⟨.ge, by decide⟩
  · exact ⟨.gt, by decide⟩
  · exact ⟨.le, by decide⟩
  · exact ⟨.lt, by decide⟩
  · exact ⟨.eq, by decide⟩

theorem pyItem3_agree {Q : String → String → List Nat → Prop} (E : Env) (X Y Z : Nat) (hE : EnvPy E X Y Z) (n op v : String)
    (h : PyItemQ Q n op v) :
    (∃ b, itemV E n op v false = .ok b ∧ evalItem n op v false E = some b) ∧ itemCoherent n op v false = true := by
  obtain ⟨lit, hn, hop, hne, hfull, _, rfl⟩ := h
  obtain ⟨sop, hs⟩ := cmpOp_ordered hop
  obtain ⟨x, r, rfl⟩ : ∃ x r, lit = x :: r := by cases lit <;> simp_all
  rcases hn with rfl | rfl
  · obtain ⟨b, h1, h2, h3⟩ := agree_pv E sop op hs x r X [Y] hE.1
    exact ⟨⟨b, h1, h2⟩, h3⟩
  · have hr : 2 ≤ r.length := by have := hfull rfl; simp at this; omega
    obtain ⟨b, h1, h2, h3⟩ := agree_pfv3 E sop op hs x r hr X [Y, Z] hE.2
    exact ⟨⟨b, h1, h2⟩, h3⟩

mutual
theorem pyAtom_agree {Q : String → String → List Nat → Prop} (E : Env) (X Y Z : Nat) (hE : EnvPy E X Y Z) :
    ∀ a : Atom, PyAtomQ Q a → a.agree E ∧ a.coh = true
  | .item n op v sw, h => by
    simp only [PyAtomQ] at h
    obtain ⟨rfl, hi⟩ := h
    simpa [Atom.agree, Atom.coh] using pyItem3_agree E X Y Z hE n op v hi
  | .paren m, h => by
    simpa [Atom.agree, Atom.coh] using pySyn_agree E X Y Z hE m (by simpa [PyAtomQ] using h)
theorem pySyn_agree {Q : String → String → List Nat → Prop} (E : Env) (X Y Z : Nat) (hE : EnvPy E X Y Z) :
    ∀ s : Syn, PySynQ Q s → s.agree E ∧ s.coh = true
  | .one a, h => by
    simpa [Syn.agree, Syn.coh] using pyAtom_agree E X Y Z hE a (by simpa [PySynQ] using h)
  | .more a _ rest, h => by
    simp only [PySynQ] at h
    have h1 := pyAtom_agree E X Y Z hE a h.1
    have h2 := pySyn_agree E X Y Z hE rest h.2
    simp [Syn.agree, Syn.coh, h1.1, h1.2, h2.1, h2.2]
end

end Poetry.Marker

namespace Poetry
open Poetry.Marker Poetry.Spec.Pep508

/-- the domain of a whole constraint: the universal range, one range constraint, or a union of them -/
def PyDomVC : VC → Bool
  | .empty => false
  | .single rc => rc.isAny || PyDom rc
  | .union rs => !rs.isEmpty && rs.all PyDom

theorem parseText_empty : parseText "" = .error .syntax := rfl

/-- reference value of a marker text (the empty text is the absent marker) -/
def refEval (E : Env) (txt : String) : Option Bool :=
  if txt.isEmpty then some true
  else match parseText txt with
    | .ok syn => evalSyn E syn
    | .error _ => none

/-- C06's compaction agreement for ALL syntax trees, as a hypothesis (used by C02 for declared marker texts and the
`sys_platform` clause, which are arbitrary texts; for the trees `create_nested_marker` prints it is proved:
`compactSub_agree` with `pySyn_agree`): the sub-markers `parse_marker` builds from a syntax tree satisfy the leaf
invariant, and their disjunction has the reference value of the tree -/
def CompactAgree (E : Env) (ev : Leaf → Bool) (G : Leaf → Prop) : Prop :=
  ∀ syn subs b, compactSubMarkers syn = .ok subs → evalSyn E syn = some b →
    M.GoodAll G subs ∧ M.semAny ev subs = b

/-- a text with a reference value is read by `parse_marker` as a marker with that truth (C07's `union`
soundness, proved; compaction agreement as hypothesis) -/
theorem parseMarker_sem {E : Env} {ev : Leaf → Bool} {G : Leaf → Prop} (S : LeafSpec ev G)
    (hC : CompactAgree E ev G) (txt : String) (b : Bool) (m : M)
    (hr : refEval E txt = some b) (hm : parseMarker txt = .ok m) : M.Good G m ∧ M.sem ev m = b := by
  unfold refEval at hr
  by_cases he : txt.isEmpty = true
  · simp only [he, if_true, Option.some.injEq] at hr
    have : txt = "" := by simpa [String.isEmpty_iff] using he
    subst this
    simp [parseMarker] at hm
    subst hm; subst hr; simp
  · simp only [he, if_false] at hr
    cases hp : parseText txt with
    | error e => simp [hp] at hr
    | ok syn =>
      simp only [hp] at hr
      have h1 : (txt == "<empty>") = false := by
        cases h : txt == "<empty>" with
        | false => rfl
        | true =>
          have : txt = "<empty>" := by simpa using h
          subst this
          have : parseText "<empty>" = .error .syntax := rfl
          rw [this] at hp; cases hp
      have h2 : (txt == "*") = false := by
        cases h : txt == "*" with
        | false => rfl
        | true =>
          have : txt = "*" := by simpa using h
          subst this
          have : parseText "*" = .error .syntax := rfl
          rw [this] at hp; cases hp
      have he' : txt.isEmpty = false := by simpa using he
      simp only [parseMarker, h1, he', h2, Bool.false_eq_true, if_false, Bool.or_false, hp, bind, Except.bind] at hm
      split at hm
      · cases hm
      · rename_i subs hs
        have hc := hC syn subs b hs hr
        have := unionF_sound S hc.1 hm
        exact ⟨this.1, by rw [this.2, hc.2]⟩

/-- what `create_nested_marker` prints for a constraint of the domain: the empty text for the universal range,
otherwise a text that parses to a tree of python items whose reference value is membership -/
theorem createNested_synQ {Q : String → String → List Nat → Prop} (E : Env) (c : VC) (hd : PyDomVC c = true)
    (hQ : ∀ rc ∈ c.flatten, RCBoundQ Q rc) (X Y Z : Nat) (hE : EnvPy E X Y Z) :
    ∃ txt, createNestedMarker "python_version" c = .ok txt ∧
      ((txt = "" ∧ c.allowsPlain (pyV X Y Z) = true) ∨
       (txt.isEmpty = false ∧ ∃ syn, parseText txt = .ok syn ∧
          evalSyn E syn = some (c.allowsPlain (pyV X Y Z)) ∧ PySynQ Q syn)) := by
  have hnonempty : ∀ (t : String) (syn : Syn), parseText t = .ok syn → t.isEmpty = false := by
    intro t syn hp
    cases h : t.isEmpty with
    | false => rfl
    | true =>
      have : t = "" := by simpa [String.isEmpty_iff] using h
      rw [this, parseText_empty] at hp; cases hp
  cases c with
  | empty => simp [PyDomVC] at hd
  | single rc =>
    by_cases ha : rc.isAny = true
    · refine ⟨"", by simp [createNestedMarker, VC.isAny, ha], Or.inl ⟨rfl, ?_⟩⟩
      cases rc with
      | ver x => simp [RC.isAny] at ha
      | rng r =>
        simp only [RC.isAny, VRange.isAny, Bool.and_eq_true, Option.isNone_iff_eq_none] at ha
        simp [VC.allowsPlain, VC.flatten, RC.allows, VRange.allows, VRange.allowsLo, VRange.allowsHi, ha.1, ha.2]
    · have hd' : PyDom rc = true := by simpa [PyDomVC, ha] using hd
      obtain ⟨syn, _, hp, he, hpy⟩ := nestedRC_conj E rc hd' (hQ rc (by simp [VC.flatten])) X Y Z hE
      have hal : (VC.single rc).allowsPlain (pyV X Y Z) = rc.allows (pyV X Y Z) := by
        simp [VC.allowsPlain, VC.flatten]
      exact ⟨nestedRC "python_version" rc, by simp [createNestedMarker, VC.isAny, ha],
        Or.inr ⟨hnonempty _ syn hp, syn, hp, by rw [hal]; exact he, hpy⟩⟩
  | union rs =>
    simp only [PyDomVC, Bool.and_eq_true, Bool.not_eq_true', List.isEmpty_eq_false_iff, List.all_eq_true] at hd
    obtain ⟨syn, hp, he, hpy⟩ := nestedUnion_exact E rs hd.1 hd.2 (fun rc hrc => hQ rc (by simpa [VC.flatten] using hrc)) X Y Z hE
    generalize htx : joinWith " or " (rs.map (fun rc => "(" ++ (if rc.isAny then "" else nestedRC "python_version" rc) ++ ")")) = tx at hp
    have hcn : createNestedMarker "python_version" (.union rs) = .ok tx := by
      simp [createNestedMarker, VC.isAny, htx]
    have hal : (VC.union rs).allowsPlain (pyV X Y Z) = rs.any (fun rc => rc.allows (pyV X Y Z)) := by
      simp [VC.allowsPlain, VC.flatten]
    exact ⟨tx, hcn, Or.inr ⟨hnonempty tx syn hp, syn, hp, by rw [hal]; exact he, hpy⟩⟩

theorem createNested_syn (E : Env) (c : VC) (hd : PyDomVC c = true) (X Y Z : Nat) (hE : EnvPy E X Y Z) :
    ∃ txt, createNestedMarker "python_version" c = .ok txt ∧
      ((txt = "" ∧ c.allowsPlain (pyV X Y Z) = true) ∨
       (txt.isEmpty = false ∧ ∃ syn, parseText txt = .ok syn ∧
          evalSyn E syn = some (c.allowsPlain (pyV X Y Z)) ∧ PySyn syn)) :=
  createNested_synQ E c hd (fun rc _ => rcBoundQ_true rc) X Y Z hE

/-- the text is empty or parses to a tree in C06's proved domain on `E`: every item has a value that the
reference shares (`agree`) and builds a coherent leaf (`coh`) -/
def TextAgree (E : Env) (txt : String) : Prop :=
  txt.isEmpty = true ∨ ∃ syn, parseText txt = .ok syn ∧ syn.agree E ∧ syn.coh = true

/-- `parse_marker` of a text in C06's domain, against poetry's own evaluation: the compaction agreement is used
as proved (`compactSub_agree`), only the leaf specification remains -/
theorem parseMarker_sem_agree (E : Env) (S : LeafSpec (leafEval E) (CompLeaf E)) (txt : String) (b : Bool) (m : M)
    (ha : TextAgree E txt) (hr : refEval E txt = some b) (hm : parseMarker txt = .ok m) :
    M.Good (CompLeaf E) m ∧ M.sem (leafEval E) m = b := by
  unfold refEval at hr
  rcases ha with he | ⟨syn, hp, hag, hco⟩
  · simp only [he, if_true, Option.some.injEq] at hr
    have : txt = "" := by simpa [String.isEmpty_iff] using he
    subst this
    simp [parseMarker] at hm
    subst hm; subst hr; simp
  · have he' : txt.isEmpty = false := by
      cases h : txt.isEmpty with
      | false => rfl
      | true =>
        have : txt = "" := by simpa [String.isEmpty_iff] using h
        rw [this, parseText_empty] at hp; cases hp
    simp only [he', Bool.false_eq_true, if_false, hp] at hr
    have h1 : (txt == "<empty>") = false := by
      cases h : txt == "<empty>" with
      | false => rfl
      | true =>
        have : txt = "<empty>" := by simpa using h
        subst this
        have : parseText "<empty>" = .error .syntax := rfl
        rw [this] at hp; cases hp
    have h2 : (txt == "*") = false := by
      cases h : txt == "*" with
      | false => rfl
      | true =>
        have : txt = "*" := by simpa using h
        subst this
        have : parseText "*" = .error .syntax := rfl
        rw [this] at hp; cases hp
    simp only [parseMarker, h1, he', h2, Bool.false_eq_true, if_false, Bool.or_false, hp, bind, Except.bind] at hm
    split at hm
    · cases hm
    · rename_i subs hs
      have hca := compactSub_agree E S syn subs b hs hag hco hr
      have := unionF_sound S hca.1 hm
      exact ⟨this.1, by rw [this.2, hca.2]⟩

/-- `create_nested_marker` then `parse_marker`, for an arbitrary leaf truth and invariant, relative to the generic
compaction agreement (the form C02 composes with its other marker texts) -/
theorem createNested_poetry_of_agree {E : Env} {ev : Leaf → Bool} {G : Leaf → Prop} (S : LeafSpec ev G)
    (hC : CompactAgree E ev G) (c : VC) (hd : PyDomVC c = true) (X Y Z : Nat) (hE : EnvPy E X Y Z)
    (txt : String) (m : M) (ht : createNestedMarker "python_version" c = .ok txt)
    (hm : parseMarker txt = .ok m) : M.Good G m ∧ M.sem ev m = c.allowsPlain (pyV X Y Z) := by
  obtain ⟨txt', ht', hcase⟩ := createNested_syn E c hd X Y Z hE
  rw [ht] at ht'; injection ht' with ht'; subst ht'
  refine parseMarker_sem S hC txt _ m ?_ hm
  rcases hcase with ⟨rfl, hall⟩ | ⟨hne, syn, hp, he, _⟩
  · simp [refEval, hall]
  · simp [refEval, hne, hp, he]

/-- **`create_nested_marker` then poetry's own `parse_marker` and evaluation**: the marker object satisfies the
leaf invariant `CompLeaf E`, its truth under `leafEval E` is membership of `X.Y.Z` in the constraint, and
`validate` returns exactly that.  C06's compaction agreement and leaf agreement for python items and C07's
`union` soundness are used as proved; the one hypothesis is the leaf specification for `CompLeaf E`. -/
theorem createNested_poetry (E : Env) (S : LeafSpec (leafEval E) (CompLeaf E)) (c : VC) (hd : PyDomVC c = true)
    (X Y Z : Nat) (hE : EnvPy E X Y Z) (txt : String) (m : M)
    (ht : createNestedMarker "python_version" c = .ok txt) (hm : parseMarker txt = .ok m) :
    M.Good (CompLeaf E) m ∧ M.sem (leafEval E) m = c.allowsPlain (pyV X Y Z) ∧
      M.validate E m = .ok (c.allowsPlain (pyV X Y Z)) := by
  have key : M.Good (CompLeaf E) m ∧ M.sem (leafEval E) m = c.allowsPlain (pyV X Y Z) := by
    obtain ⟨txt', ht', hcase⟩ := createNested_syn E c hd X Y Z hE
    rw [ht] at ht'; injection ht' with ht'; subst ht'
    rcases hcase with ⟨rfl, hall⟩ | ⟨hne, syn, hp, he, hpy⟩
    · simp [parseMarker] at hm; subst hm; simp [hall]
    · have h1 : (txt == "<empty>") = false := by
        cases h : txt == "<empty>" with
        | false => rfl
        | true =>
          have : txt = "<empty>" := by simpa using h
          subst this
          have : parseText "<empty>" = .error .syntax := rfl
          rw [this] at hp; cases hp
      have h2 : (txt == "*") = false := by
        cases h : txt == "*" with
        | false => rfl
        | true =>
          have : txt = "*" := by simpa using h
          subst this
          have : parseText "*" = .error .syntax := rfl
          rw [this] at hp; cases hp
      simp only [parseMarker, h1, hne, h2, Bool.false_eq_true, if_false, Bool.or_false, hp, bind, Except.bind] at hm
      split at hm
      · cases hm
      · rename_i subs hs
        obtain ⟨ha, hc⟩ := pySyn_agree E X Y Z hE syn hpy
        have hca := compactSub_agree E S syn subs _ hs ha hc he
        have := unionF_sound S hca.1 hm
        exact ⟨this.1, by rw [this.2, hca.2]⟩
  refine ⟨key.1, key.2, ?_⟩
  rw [M.validate_eq_sem E m (M.good_mono (fun l hl => by obtain ⟨s, _, _, hb, _⟩ := hl; exact hb) m key.1), key.2]

end Poetry
