/-
`_merge_single_markers` on two `python_version` leaves, for ABSTRACT operands: what the proof of `pvLeaf_merge`
uses of an operand is only its clause (a constraint of the regular setting over two-component Python bounds,
admitting the environment's `python_version` exactly when the leaf holds) and the exactness of its conversion
(`get_python_constraint_from_marker`).  The outcome is Empty, Any, one of the operands, or a comparison leaf
`python_version <op> "X.Y"`.  Instances: the comparison leaves (`PvLeaf`), `~=` leaves, `in` / `not in` lists.
(The proof text is that of `pvLeaf_merge` with the operands abstracted.)
-/
import PoetryVerif.Proofs.MarkerAlgSoundCompat

set_option linter.unusedSimpArgs false
set_option linter.unusedVariables false

namespace Poetry.Marker
open Poetry Poetry.Version

/-- what the merge needs of a `python_version` operand -/
def PvOperand (E : Env) (X Y : Nat) (s : Single) : Prop :=
  s.name = "python_version" ∧ ∃ v, s.c = .ver v ∧ PyVCok v ∧ Lit2 v ∧
    leafEval E (.single s) = v.allowsPlain (pvProbe X Y) ∧
    ∃ g, gpcLeaf (.single s) = .ok g ∧ PyVCok g ∧ Lit2 g ∧
      g.allowsPlain (pvProbe X Y) = leafEval E (.single s)

/-- what `_merge_single_markers` returns on two `python_version` operands -/
def PvOutcome (s1 s2 : Single) (r : M) : Prop :=
  r = .empty ∨ r = .any ∨ r = .leaf (.single s1) ∨ r = .leaf (.single s2) ∨ ∃ l, r = .leaf l ∧ PvLeaf l

set_option hygiene false in
/-- the outcomes of `_merge_single_markers` shared with the other version-like variables: Empty, Any, one of the
operands, a re-built `SingleMarker`; leaves the non-simple case as the remaining goal -/
macro "pvg_common" : tactic => `(tactic| (
  by_cases q1 : (LeafC.ver r0).isEmpty = true
  · rw [if_pos q1, pure_ok] at h; cases h
    have := vc_allowsPlain_of_isEmpty (c := r0) q1 (pvProbe X Y)
    exact ⟨Or.inl rfl, by rw [M.sem_empty, this]⟩
  rw [if_neg q1] at h
  by_cases q2 : (LeafC.ver r0).isAny = true
  · rw [if_pos q2, pure_ok] at h; cases h
    have := vc_allowsPlain_of_isAny (c := r0) q2 (pvProbe X Y)
    exact ⟨Or.inr (Or.inl rfl), by rw [M.sem_any, this]⟩
  rw [if_neg q2] at h
  by_cases q3 : (LeafC.ver r0).eqv (LeafC.ver v1) = true
  · rw [if_pos q3, pure_ok] at h; cases h
    refine ⟨Or.inr (Or.inr (Or.inl rfl)), ?_⟩
    rw [M.sem_leaf]
    have := (eqvAllows B) r0 v1 hr0.1 hr1.1 hr0.2 hr1.2 q3 (pvProbe X Y)
    rw [this, ← e1]
  rw [if_neg q3] at h
  by_cases q4 : (LeafC.ver r0).eqv (LeafC.ver v2) = true
  · rw [if_pos q4, pure_ok] at h; cases h
    refine ⟨Or.inr (Or.inr (Or.inr (Or.inl rfl))), ?_⟩
    rw [M.sem_leaf]
    have := (eqvAllows B) r0 v2 hr0.1 hr2.1 hr0.2 hr2.2 q4 (pvProbe X Y)
    rw [this, ← e2]
  rw [if_neg q4] at h
  obtain ⟨bsimple, hb, h⟩ := bind_ok.1 h
  cases bsimple
  case true =>
    rw [if_pos rfl] at h
    obtain ⟨s, hs, h⟩ := bind_ok.1 h
    rw [pure_ok] at h; cases h
    obtain ⟨sop, ops, a, b, hmem, rfl, hall⟩ := mkSingleOfC_pv (pyVCok_of_reg hpb hr0) (lit2_of_reg hlB hr0)
      (by simpa [LeafC.isEmpty] using q1) (by simpa [LeafC.isAny] using q2) hb hs [X, Y] (by simp)
    refine ⟨Or.inr (Or.inr (Or.inr (Or.inr ⟨_, rfl, sop, ops, a, b, hmem, rfl⟩))), ?_⟩
    rw [M.sem_leaf]
    simp only [leafEval, pvLeaf_eval hE hmem a b]
    exact hall
  rw [if_neg Bool.false_ne_true] at h
  dsimp only at h))


theorem pvOperand_merge {E : Env} {X Y : Nat} (hE : E.get? "python_version" = some (Version.relText [X, Y]))
    (s1 s2 : Single) (im : Bool) (r : M) (h1 : PvOperand E X Y s1) (h2 : PvOperand E X Y s2)
    (h : mergeLeaves (.single s1) (.single s2) im = .ok (some r)) :
    PvOutcome s1 s2 r ∧
      M.sem (leafEval E) r = (if im then (leafEval E (.single s1) && leafEval E (.single s2))
        else (leafEval E (.single s1) || leafEval E (.single s2))) := by
  obtain ⟨hn1, v1, hc1, ok1, lt1, e1, g1, k1, okg1, ltg1, sem1⟩ := h1
  obtain ⟨hn2, v2, hc2, ok2, lt2, e2, g2, k2, okg2, ltg2, sem2⟩ := h2
  -- the common bound list
  let B : List Version := boundsOf v1.flatten ++ boundsOf v2.flatten
  have hr1 : RegVC B v1 := RegVC.mono (fun e he => List.mem_append_left _ he) (regVC_of_ok' ok1)
  have hr2 : RegVC B v2 := RegVC.mono (fun e he => List.mem_append_right _ he) (regVC_of_ok' ok2)
  have hpb : ∀ e ∈ B, PyBound e = true := by
    intro e he
    simp only [B, List.mem_append, boundsOf, List.mem_flatMap] at he
    rcases he with ⟨c, hc, hec⟩ | ⟨c, hc, hec⟩
    · exact (ok1.2 c hc).2.2.2 e hec
    · exact (ok2.2 c hc).2.2.2 e hec
  have hlB : ∀ e ∈ B, ∃ a b, e = litV a [b] := by
    intro e he
    simp only [B, List.mem_append, boundsOf, List.mem_flatMap] at he
    rcases he with ⟨c, hc, hec⟩ | ⟨c, hc, hec⟩
    · exact lt1 c hc e hec
    · exact lt2 c hc e hec
  have hB := regB_of_pyBound B hpb
  have hp : (pvProbe X Y).wf = true := litV_wf X [Y]
  have hregp : Regular B (pvProbe X Y) := regular_final B hpb [X, Y]
  have hreg := regular_sub hregp hr1 hr2
  simp only [mergeLeaves] at h
  rw [mergeSingle.eq_def] at h
  dsimp only at h
  simp only [Leaf.name, hn1, hn2, show ("python_version" == "python_full_version") = false from by decide,
    Bool.and_false, Bool.false_and, Bool.or_self, Bool.false_eq_true, if_false, bne_self_eq_false, Leaf.c,
    hc1, hc2] at h
  let B' : List Version := boundsOf g1.flatten ++ boundsOf g2.flatten
  have hg1 : RegVC B' g1 := RegVC.mono (fun e he => List.mem_append_left _ he) (regVC_of_ok' okg1)
  have hg2 : RegVC B' g2 := RegVC.mono (fun e he => List.mem_append_right _ he) (regVC_of_ok' okg2)
  have hpb' : ∀ e ∈ B', PyBound e = true := by
    intro e he
    simp only [B', List.mem_append, boundsOf, List.mem_flatMap] at he
    rcases he with ⟨c, hc, hec⟩ | ⟨c, hc, hec⟩
    · exact (okg1.2 c hc).2.2.2 e hec
    · exact (okg2.2 c hc).2.2.2 e hec
  have hlB' : ∀ e ∈ B', ∃ a b, e = litV a [b] := by
    intro e he
    simp only [B', List.mem_append, boundsOf, List.mem_flatMap] at he
    rcases he with ⟨c, hc, hec⟩ | ⟨c, hc, hec⟩
    · exact ltg1 c hc e hec
    · exact ltg2 c hc e hec
  have hB' := regB_of_pyBound B' hpb'
  have hreg' := regular_sub (regular_final B' hpb' [X, Y]) hg1 hg2
  have key : ∃ r0, (if im = true then (LeafC.ver v1).intersect (.ver v2) else (LeafC.ver v1).union (.ver v2)) =
        .ok (.ver r0) ∧ RegVC B r0 ∧
        r0.allowsPlain (pvProbe X Y) = (if im = true then (v1.allowsPlain (pvProbe X Y) && v2.allowsPlain (pvProbe X Y))
          else (v1.allowsPlain (pvProbe X Y) || v2.allowsPlain (pvProbe X Y))) := by
    cases im
    · obtain ⟨r0, a, b, c, d⟩ := VC.unionWith_reg hB v1 v2 hr1.1 hr2.1 hr1.2 hr2.2
      exact ⟨r0, by simp [LeafC.union, a, Except.map], ⟨b, c⟩, by simp [d _ hp hreg]⟩
    · obtain ⟨r0, a, b, c, d⟩ := VC.intersect_reg hB v1 v2 hr1.1 hr2.1 hr1.2 hr2.2
      exact ⟨r0, by simp [LeafC.intersect, a, Except.map], ⟨b, c⟩, by simp [d _ hp hreg]⟩
  obtain ⟨r0, hk, hr0, hden⟩ := key
  have hgoal : (if im = true then (leafEval E (.single s1) && leafEval E (.single s2))
      else (leafEval E (.single s1) || leafEval E (.single s2))) =
      r0.allowsPlain (pvProbe X Y) := by rw [hden, e1, e2]
  rw [hgoal]
  cases im
  · simp only [Bool.false_eq_true, if_false] at h hk hden ⊢
    obtain ⟨rc, hrc, h⟩ := bind_ok.1 h
    rw [hk] at hrc; cases hrc
    pvg_common
    -- the non-simple union: `get_python_constraint_from_marker` of both operands, united
    cases r0 with
    | empty => simp [pure, Except.pure] at h
    | single c => cases c <;> simp [pure, Except.pure] at h
    | union rs =>
      dsimp only at h
      obtain ⟨g1', hq1, hx1⟩ := bind_ok.1 h
      obtain ⟨g2', hq2, hx2⟩ := bind_ok.1 hx1
      obtain ⟨u, hu, hx3⟩ := bind_ok.1 hx2
      clear h hx1 hx2
      have h := hx3
      clear hx3
      rw [k1] at hq1; cases hq1
      rw [k2] at hq2; cases hq2
      obtain ⟨u', ua, ub, uc, ud⟩ := VC.unionWith_reg hB' g1 g2 hg1.1 hg2.1 hg1.2 hg2.2
      rw [ua] at hu; cases hu
      have hsemu : u.allowsPlain (pvProbe X Y) = (VC.union rs).allowsPlain (pvProbe X Y) := by
        rw [ud _ hp hreg', sem1, sem2, e1, e2, hden]
      by_cases qa : u.isAny = true
      · rw [if_pos qa, pure_ok] at h; cases h
        exact ⟨Or.inr (Or.inl rfl), by rw [M.sem_any, ← hsemu, vc_allowsPlain_of_isAny qa]⟩
      rw [if_neg qa] at h
      obtain ⟨bs, hbs, h⟩ := bind_ok.1 h
      cases bs
      · rw [if_neg Bool.false_ne_true, pure_ok] at h; cases h
      · rw [if_pos rfl] at h
        obtain ⟨s, hs, h⟩ := bind_ok.1 h
        rw [pure_ok] at h; cases h
        have hue : u.isEmpty = false := by
          cases u with
          | empty => rw [mkSingleOfC_pv_empty] at hs; cases hs
          | _ => rfl
        obtain ⟨sop, ops, a, b, hmem, rfl, hall⟩ := mkSingleOfC_pv (pyVCok_of_reg hpb' ⟨ub, uc⟩)
          (lit2_of_reg hlB' ⟨ub, uc⟩) hue (by simpa using qa) hbs hs [X, Y] (by simp)
        refine ⟨Or.inr (Or.inr (Or.inr (Or.inr ⟨_, rfl, sop, ops, a, b, hmem, rfl⟩))), ?_⟩
        rw [M.sem_leaf]
        simp only [leafEval, pvLeaf_eval hE hmem a b]
        exact hall.trans hsemu
  · simp only [if_true] at h hk hden ⊢
    obtain ⟨rc, hrc, h⟩ := bind_ok.1 h
    rw [hk] at hrc; cases hrc
    pvg_common
    -- the intersection of the conversions is empty
    have S2 : ∀ (hh : (do
          let g1 ← gpcLeaf (Leaf.single s1)
          let g2 ← gpcLeaf (Leaf.single s2)
          let i ← g1.intersect g2
          pure (if i.isEmpty = true then some M.empty else none)) = Except.ok (some r)),
        PvOutcome s1 s2 r ∧ M.sem (leafEval E) r = r0.allowsPlain (pvProbe X Y) := by
      intro hh
      obtain ⟨g1', hq1, hx1⟩ := bind_ok.1 hh
      obtain ⟨g2', hq2, hx2⟩ := bind_ok.1 hx1
      obtain ⟨i, hi, hx3⟩ := bind_ok.1 hx2
      clear hh hx1 hx2
      have hh := hx3
      clear hx3
      rw [k1] at hq1; cases hq1
      rw [k2] at hq2; cases hq2
      obtain ⟨i', ia, ib, ic, id'⟩ := VC.intersect_reg hB' g1 g2 hg1.1 hg2.1 hg1.2 hg2.2
      rw [ia] at hi; cases hi
      rw [pure_ok] at hh
      by_cases qe : i.isEmpty = true
      · rw [if_pos qe] at hh; cases hh
        refine ⟨Or.inl rfl, ?_⟩
        rw [M.sem_empty, hden, ← e1, ← e2, ← sem1, ← sem2, ← id' _ hp hreg', vc_allowsPlain_of_isEmpty qe]
      · rw [if_neg qe] at hh; cases hh
    cases r0 with
    | empty => simp [pure, Except.pure] at h
    | union rs => simp [pure, Except.pure] at h
    | single c =>
      cases c with
      | ver v => simp [pure, Except.pure] at h
      | rng R =>
        dsimp only at h
        cases hmin : R.min with
        | none =>
          simp only [hmin] at h
          rw [pure_bind] at h
          exact S2 h
        | some mn =>
          simp only [hmin] at h
          by_cases hprec : mn.precision ≥ 2
          · rw [if_pos hprec] at h
            obtain ⟨candidate, hcq, h⟩ := bind_ok.1 h
            -- the candidate is the leaf `python_version == "a.b"`
            have hmnB : mn ∈ B := (hr0.2 (.rng R) (by simp [VC.flatten])).2.2.2 mn
              (by simp [RC.bounds, RC.view, VRange.bounds, RC.min, RC.max, hmin])
            obtain ⟨a, b, rfl⟩ := hlB mn hmnB
            rw [litV_text, cand_text _ (relText_valOk a [b]),
              parseItemMarker_leafText "python_version" "==" _ false (by decide) (by decide) (relText_valOk a [b])] at hcq
            simp only [itemConstraintString, Bool.false_eq_true, if_false,
              mkSingle_pvLeaf (sop := .eq) (ops := "==") (by decide) a b] at hcq
            cases hcq
            dsimp only at h
            obtain ⟨g, hgq, h⟩ := bind_ok.1 h
            obtain ⟨gc, kc, okgc, _, semc⟩ := pvLeaf_gpc' hE (sop := .eq) (ops := "==") (by decide) a b
            rw [kc] at hgq; cases hgq
            by_cases heq : VC.eqv g (VC.single (RC.rng R)) = true
            · simp only [heq, if_true] at h
              rw [pure_bind] at h
              simp only [pure_ok] at h
              cases h
              refine ⟨Or.inr (Or.inr (Or.inr (Or.inr ⟨_, rfl, .eq, "==", a, b, by decide, rfl⟩))), ?_⟩
              rw [M.sem_leaf, ← semc]
              exact eqvAllows' g _ (fun c hc => (okgc.2 c hc).1) (fun c hc => (hr0.2 c hc).1) heq _
            · simp only [heq, Bool.false_eq_true, if_false] at h
              rw [pure_bind] at h
              exact S2 h
          · rw [if_neg hprec] at h
            rw [pure_bind] at h
            exact S2 h


end Poetry.Marker

namespace Poetry.Marker
open Poetry Poetry.Version

/-! ### instances -/

theorem pvOperand_of_pvLeaf {E : Env} {X Y : Nat} (hE : E.get? "python_version" = some (Version.relText [X, Y]))
    {sop ops} (h : (sop, ops) ∈ pvOps) (a b : Nat) : PvOperand E X Y (pvLeafOf sop ops a b) := by
  obtain ⟨g, k, okg, ltg, sem⟩ := pvLeaf_gpc' hE h a b
  exact ⟨rfl, _, rfl, pvClause_ok h a b, pvClause_lit2 h a b, by simp [leafEval, pvLeaf_eval hE h a b],
    g, k, okg, ltg, sem⟩

theorem relOp_compat : RelOp "~=" := by simp [RelOp]

/-- the conversion of `python_version ~= "a.b"` is exact at the environment's `python_version` -/
theorem pvCompat_gpc {E : Env} {X Y : Nat} (hE : E.get? "python_version" = some (Version.relText [X, Y]))
    (a b : Nat) :
    ∃ g, gpcLeaf (.single (pvCompatOf a b)) = .ok g ∧ PyVCok g ∧ Lit2 g ∧
      g.allowsPlain (pvProbe X Y) = leafEval E (.single (pvCompatOf a b)) := by
  have hop := relOp_compat
  have hE' := envXY_py X Y
  obtain ⟨item, bb, hitem, ⟨g, hg, hgb⟩, hev⟩ :=
    normPair_exact (envXY X Y) X Y 0 hE' "python_version" "~=" [a, b] hop (.short a b)
  obtain ⟨b0, hiv, hev0⟩ := pyItem_agree (envXY X Y) X Y 0 hE' "python_version" "~=" [a, b] hop (.short a b)
  rw [hev] at hev0
  have hbb : bb = b0 := Option.some.inj hev0
  obtain ⟨item', hitem', hok, hstar, vc', hp', hvok⟩ := normPair_shape "python_version" "~=" [a, b] hop (.short a b)
  rw [hitem] at hitem'
  have hii : item = item' := Except.ok.inj hitem'
  subst hii
  have hne : item ≠ "*" := by intro e; apply hstar; rw [e]; rfl
  have hgv : g = vc' := by
    rw [VParser.parseMarkerVersionConstraint, parseConstraintAux_single item true hok.nosep hne, hp'] at hg
    exact (Except.ok.inj hg).symm
  subst hgv
  -- the parse, explicitly
  have hitem2 : normalizePyPair "~=" (Version.relText [a, b]) = .ok ("~=" ++ Version.relText [a, b]) := by
    rw [normPair2]; simp
  rw [hitem2] at hitem
  have hi2 : item = "~=" ++ Version.relText [a, b] := (Except.ok.inj hitem).symm
  have hgx : g = compatVC (litV a [b]) (litV (a + 1) [0]) := by
    have := _root_.Poetry.parseSingle_compat a [b] true
    have hprec : (finalV [a, b]).precision = 2 := rfl
    simp only [finalV_stable, finalV_nextMajor, hprec, relNextMajor, relMajor, zeros] at this
    have tl : ("~=" ++ Version.relText [a, b]).toList = '~' :: '=' :: _root_.Poetry.relChars [a, b] := by
      simp [_root_.Poetry.relText_toList]
    rw [hi2, tl] at hp'
    rw [hp'] at this
    simpa [compatVC, litV_eq_finalV] using (Except.ok.inj this)
  refine ⟨g, ?_, hvok, ?_, ?_⟩
  · rw [gpcLeaf_single (pvCompatOf a b) item (show isPyName "python_version" = true by decide)
      (by simp [pvCompatOf, RelOp]) (by rw [hi2]; exact hitem2), hg]
  · rw [hgx]; exact compatVC_lit2 a b
  · rw [← allowsPlain_pad hvok, hgb, hbb]
    simp only [itemV, itemConstraintString, Bool.false_eq_true, if_false, mkSingle_pvCompat a b] at hiv
    have e1 := pvCompat_eval (E := envXY X Y) (X := X) (Y := Y) (by simp [envXY, Env.get?, List.find?]) a b
    have e2 := pvCompat_eval hE a b
    simp only [Leaf.validate] at e1
    rw [e1] at hiv
    simp only [leafEval, e2]
    exact (Except.ok.inj hiv).symm

theorem pvOperand_compat {E : Env} {X Y : Nat} (hE : E.get? "python_version" = some (Version.relText [X, Y]))
    (a b : Nat) : PvOperand E X Y (pvCompatOf a b) := by
  obtain ⟨g, k, okg, ltg, sem⟩ := pvCompat_gpc hE a b
  exact ⟨rfl, _, rfl, compatVC_ok2 a b, compatVC_lit2 a b, by simp [leafEval, pvCompat_eval hE a b],
    g, k, okg, ltg, sem⟩

/-- comparison leaves and `~=` leaves on `python_version` -/
def PvLeafC (l : Leaf) : Prop := PvLeaf l ∨ ∃ a b, l = .single (pvCompatOf a b)

theorem pvLeafC_operand {E : Env} {X Y : Nat} (hE : E.get? "python_version" = some (Version.relText [X, Y]))
    {l : Leaf} (h : PvLeafC l) : ∃ s, l = .single s ∧ PvOperand E X Y s := by
  rcases h with ⟨sop, ops, a, b, hm, rfl⟩ | ⟨a, b, rfl⟩
  · exact ⟨_, rfl, pvOperand_of_pvLeaf hE hm a b⟩
  · exact ⟨_, rfl, pvOperand_compat hE a b⟩

theorem pvLeafC_merge {E : Env} {X Y : Nat} (hE : E.get? "python_version" = some (Version.relText [X, Y]))
    (l1 l2 : Leaf) (im : Bool) (r : M) (h1 : PvLeafC l1) (h2 : PvLeafC l2)
    (h : mergeLeaves l1 l2 im = .ok (some r)) :
    M.Good PvLeafC r ∧
      M.sem (leafEval E) r = (if im then (leafEval E l1 && leafEval E l2) else (leafEval E l1 || leafEval E l2)) := by
  obtain ⟨s1, rfl, o1⟩ := pvLeafC_operand hE h1
  obtain ⟨s2, rfl, o2⟩ := pvLeafC_operand hE h2
  obtain ⟨hout, hsem⟩ := pvOperand_merge hE s1 s2 im r o1 o2 h
  refine ⟨?_, hsem⟩
  rcases hout with rfl | rfl | rfl | rfl | ⟨l, rfl, hl⟩
  · exact M.good_empty
  · exact M.good_any
  · exact (M.good_leaf _).2 h1
  · exact (M.good_leaf _).2 h2
  · exact (M.good_leaf _).2 (Or.inl hl)

/-- **`LeafSpec` on same-name `python_version` leaves with the comparison operators and `~=`**, no hypothesis -/
theorem leafSpec_pvC {E : Env} {X Y : Nat} (hE : E.get? "python_version" = some (Version.relText [X, Y])) :
    LeafSpec (leafEval E) PvLeafC where
  congr := by
    intro a b ha hb h
    -- equal name, operator text, value text and orientation: the constructor returns the same leaf
    have key : ∀ l, PvLeafC l → ∃ s, l = .single s ∧
        mkSingle s.name (itemConstraintString s.op s.value s.swapped) s.swapped = .ok s := by
      intro l hl
      rcases hl with ⟨sop, ops, a, b, hm, rfl⟩ | ⟨a, b, rfl⟩
      · exact ⟨_, rfl, by simpa [pvLeafOf, itemConstraintString] using mkSingle_pvLeaf hm a b⟩
      · exact ⟨_, rfl, by simpa [pvCompatOf, itemConstraintString] using mkSingle_pvCompat a b⟩
    obtain ⟨sa, rfl, ma⟩ := key a ha
    obtain ⟨sb, rfl, mb⟩ := key b hb
    simp only [Leaf.beq, Bool.and_eq_true, beq_iff_eq] at h
    obtain ⟨⟨⟨h1, h2⟩, h3⟩, h4⟩ := h
    rw [h1, h2, h3, h4, mb] at ma
    rw [Except.ok.inj ma]
  merge := fun l1 l2 im r h1 h2 h => pvLeafC_merge hE l1 l2 im r h1 h2 h

theorem pvLeafC_evaluable {E : Env} {X Y : Nat} (hE : E.get? "python_version" = some (Version.relText [X, Y]))
    {l : Leaf} (h : PvLeafC l) : ∃ b, l.validate E = .ok b := by
  rcases h with h | ⟨a, b, rfl⟩
  · exact pvLeaf_evaluable hE h
  · exact ⟨_, pvCompat_eval hE a b⟩

theorem pvLeafC_name {l : Leaf} (h : PvLeafC l) : l.name = "python_version" := by
  rcases h with h | ⟨a, b, rfl⟩
  · exact pvLeaf_name h
  · rfl

end Poetry.Marker
