/-
`SplitSoundE` (C11): the constraint parser on a text of normalised *entries* — an entry is one clause or the
`, `-joined clauses a `not in` list contributes — blanks between entries = and, `||` = or.  From
Proofs/PyConvSplitE.lean (both kinds of and-separators).
-/
import PoetryVerif.Proofs.PyConvSplitE
import PoetryVerif.Proofs.PyConvSplitSound

set_option linter.unusedSimpArgs false
set_option linter.unusedVariables false

namespace Poetry.Marker
open Poetry Poetry.VParser

/-- an entry of a conjunction: one or more clause texts joined by `, ` -/
def EntryShape (e : String) : Prop := ∃ its : List String, its ≠ [] ∧ e = joinWith ", " its ∧ ∀ it ∈ its, ItemShape it

theorem entryShape_item {it : String} (h : ItemShape it) : EntryShape it :=
  ⟨[it], by simp, by simp [joinWith], by simpa using h⟩

/-- the clauses of an entry with their constraints -/
abbrev EntryD := (List Char × VC) × List (List Char × VC)

def EntryD.items (d : EntryD) : List (List Char × VC) := d.1 :: d.2
def EntryD.chars (d : EntryD) : List Char := cJoin d.1.1 (d.2.map (fun r => (true, r.1)))

/-- the group made of entries -/
def grpOf (e : EntryD) (es : List EntryD) : GrpE :=
  ⟨e.1, e.2.map (fun r => (true, r)) ++ es.flatMap (fun d => (false, d.1) :: d.2.map (fun r => (true, r)))⟩

theorem cJoin_append (it : List Char) (r1 : List (Bool × List Char)) (x : List Char) (r2 : List (Bool × List Char)) :
    cJoin it (r1 ++ (false, x) :: r2) = cJoin it r1 ++ ' ' :: cJoin x r2 := by
  induction r1 generalizing it with
  | nil => simp [cJoin, sepChars]
  | cons q r1 ih => obtain ⟨b, y⟩ := q; simp [cJoin, ih]

theorem grpOf_chars (e : EntryD) (es : List EntryD) :
    (grpOf e es).chars = spJoin (e.chars :: es.map EntryD.chars) := by
  induction es generalizing e with
  | nil => simp [grpOf, GrpE.chars, GrpE.seps, EntryD.chars, spJoin, List.map_map, Function.comp_def]
  | cons d ds ih =>
    have := ih d
    simp only [grpOf, GrpE.chars, GrpE.seps, List.map_append, List.map_map, Function.comp_def, List.flatMap_cons,
      List.map_cons, List.append_assoc, List.cons_append] at this ⊢
    rw [cJoin_append]
    simp only [spJoin, EntryD.chars, List.map_map, Function.comp_def]
    congr 2

theorem grpOf_items (e : EntryD) (es : List EntryD) :
    (grpOf e es).items = e.items ++ es.flatMap EntryD.items := by
  simp only [grpOf, GrpE.items, EntryD.items, List.map_append, List.map_map, Function.comp_def, List.map_id',
    List.cons_append]
  congr 2
  induction es with
  | nil => rfl
  | cons d ds ih => simp [List.flatMap_cons, ih, List.map_map, Function.comp_def, EntryD.items]

theorem commaJoin_toList : ∀ (it : String) (its : List String),
    (joinWith ", " (it :: its)).toList = cJoin it.toList (its.map (fun x => (true, x.toList)))
  | it, [] => by simp [joinWith, cJoin]
  | it, b :: r => by
    have := commaJoin_toList b r
    simp only [joinWith, String.toList_append, List.map_cons, cJoin, sepChars, if_true] at this ⊢
    rw [this]
    have h : (", " : String).toList = [',', ' '] := by decide
    simp [h]

/-- the facts about the clauses of an entry, as the parser sees them -/
def EntryOK (d : EntryD) : Prop :=
  ∀ q ∈ d.items, ItemOK q.1 ∧ q.1 ≠ ['*'] ∧ parseSingle q.1 true = .ok q.2 ∧ PyVCok q.2

theorem choose_entryD (e : String) (h : EntryShape e) : ∃ d : EntryD, d.chars = e.toList ∧ EntryOK d := by
  obtain ⟨its, hne, rfl, hall⟩ := h
  obtain ⟨ivs, h1, h2⟩ := choose_items its hall
  cases its with
  | nil => exact absurd rfl hne
  | cons it rest =>
    cases ivs with
    | nil => simp at h1
    | cons iv ivs' =>
      simp only [List.map_cons, List.cons.injEq] at h1
      refine ⟨(iv, ivs'), ?_, h2⟩
      rw [commaJoin_toList, EntryD.chars, h1.1]
      congr 1
      have h3 : (ivs'.map (fun x => x.1)).map (fun c => (true, c)) =
          (rest.map String.toList).map (fun c => (true, c)) := by rw [h1.2]
      simpa [List.map_map, Function.comp_def] using h3

/-- the bounds of the clauses of a list of groups -/
def boundsOfGroups (gvs : List GrpE) : List Version :=
  gvs.flatMap (fun g => g.items.flatMap (fun q => q.2.flatten.flatMap RC.bounds))

theorem groups_reg (gvs : List GrpE)
    (k3 : ∀ g ∈ gvs, ∀ q ∈ g.items, ItemOK q.1 ∧ q.1 ≠ ['*'] ∧ parseSingle q.1 true = .ok q.2 ∧ PyVCok q.2) :
    (∀ e ∈ boundsOfGroups gvs, PyBound e = true) ∧
    ∀ g ∈ gvs, ∀ q ∈ g.items, ItemOK q.1 ∧ parseSingle q.1 true = .ok q.2 ∧ RegVC (boundsOfGroups gvs) q.2 := by
  constructor
  · intro e he
    simp only [boundsOfGroups, List.mem_flatMap] at he
    obtain ⟨g, hg, q, hq, c, hc, hec⟩ := he
    exact ((k3 g hg q hq).2.2.2.2 c hc).2.2.2 e hec
  · intro g hg q hq
    obtain ⟨a, _, b, c⟩ := k3 g hg q hq
    refine ⟨a, b, regVC_of_ok c ?_⟩
    intro m hm e he
    simp only [boundsOfGroups, List.mem_flatMap]
    exact ⟨g, hg, q, hq, m, hm, he⟩

/-- an entry is read as the conjunction of its clauses -/
theorem entry_parse (e : String) (d : EntryD) (hc : d.chars = e.toList) (hd : EntryOK d) (X Y Z : Nat) :
    ClauseMeans e X Y Z (d.items.all (fun q => q.2.allowsPlain (pyV X Y Z))) := by
  have k3 : ∀ g ∈ [grpOf d []], ∀ q ∈ g.items, ItemOK q.1 ∧ q.1 ≠ ['*'] ∧ parseSingle q.1 true = .ok q.2 ∧ PyVCok q.2 := by
    intro g hg q hq
    simp only [List.mem_singleton] at hg
    subst hg
    rw [grpOf_items] at hq
    exact hd q (by simpa using hq)
  obtain ⟨hpb, hreg⟩ := groups_reg _ k3
  obtain ⟨res, hres, _, hal⟩ := parse_groupsE hpb X Y Z [grpOf d []] (by simp) hreg
    (fun g hg q hq => (k3 g hg q hq).2.1) e (by simp [orJoin, grpOf_chars, spJoin, hc])
  refine ⟨res, by rw [parseMarkerVersionConstraint, hres], ?_⟩
  rw [hal]
  simp [grpOf_items]

/-- the meaning of one entry is the conjunction of its clauses -/
theorem entry_means (e : String) (d : EntryD) (hc : d.chars = e.toList) (hd : EntryOK d) (X Y Z : Nat) (b : Bool)
    (hm : ClauseMeans e X Y Z b) : d.items.all (fun q => q.2.allowsPlain (pyV X Y Z)) = b := by
  obtain ⟨vc, hvc, hb⟩ := entry_parse e d hc hd X Y Z
  obtain ⟨vc', hvc', hb'⟩ := hm
  rw [hvc] at hvc'
  injection hvc' with hvc'
  subst hvc'
  rw [← hb, hb']

/-- the constraint parser on a text of several normalised entries (blank = and, `||` = or) -/
def SplitSoundE (X Y Z : Nat) : Prop :=
  ∀ gs : List (List String), gs ≠ [] → (∀ g ∈ gs, g ≠ []) →
    (∀ g ∈ gs, ∀ e ∈ g, EntryShape e ∧ ∃ b, ClauseMeans e X Y Z b) →
    ((∃ g ∈ gs, ∀ e ∈ g, ClauseMeans e X Y Z true) →
      ClauseMeans (joinWith " || " (gs.map (joinWith " "))) X Y Z true) ∧
    ((∀ g ∈ gs, ∃ e ∈ g, ClauseMeans e X Y Z false) →
      ClauseMeans (joinWith " || " (gs.map (joinWith " "))) X Y Z false)

theorem choose_entries (g : List String) (h : ∀ e ∈ g, EntryShape e) :
    ∃ ds : List EntryD, ds.map EntryD.chars = g.map String.toList ∧ ∀ d ∈ ds, EntryOK d := by
  induction g with
  | nil => exact ⟨[], rfl, by simp⟩
  | cons e rest ih =>
    obtain ⟨d, hd, hok⟩ := choose_entryD e (h e (by simp))
    obtain ⟨ds, h1, h2⟩ := ih (fun x hx => h x (by simp [hx]))
    refine ⟨d :: ds, by simp [hd, h1], ?_⟩
    intro x hx
    rcases List.mem_cons.1 hx with rfl | hx
    · exact hok
    · exact h2 x hx

theorem choose_groupsE (gs : List (List String)) (hnn : ∀ g ∈ gs, g ≠ []) (h : ∀ g ∈ gs, ∀ e ∈ g, EntryShape e) :
    ∃ gds : List (EntryD × List EntryD),
      gds.map (fun p => (p.1 :: p.2).map EntryD.chars) = gs.map (fun g => g.map String.toList) ∧
      ∀ p ∈ gds, ∀ d ∈ p.1 :: p.2, EntryOK d := by
  induction gs with
  | nil => exact ⟨[], rfl, by simp⟩
  | cons g rest ih =>
    obtain ⟨ds, h1, h2⟩ := choose_entries g (h g (by simp))
    obtain ⟨gds, k1, k2⟩ := ih (fun x hx => hnn x (by simp [hx])) (fun x hx => h x (by simp [hx]))
    cases ds with
    | nil =>
      have : g = [] := by simpa using h1.symm
      exact absurd this (hnn g (by simp))
    | cons d ds' =>
      refine ⟨(d, ds') :: gds, by
        rw [List.map_cons, List.map_cons, k1]
        congr 1, ?_⟩
      intro p hp
      rcases List.mem_cons.1 hp with rfl | hp
      · exact h2
      · exact k2 p hp

/-- the conjunction of a group is the conjunction of its entries -/
theorem grpOf_all (p : EntryD × List EntryD) (f : List Char × VC → Bool) :
    (grpOf p.1 p.2).items.all f = (p.1 :: p.2).all (fun d => d.items.all f) := by
  rw [grpOf_items]
  simp [List.all_append, List.all_flatMap]

/-- **`SplitSoundE` holds.** -/
theorem splitSoundE_holds (X Y Z : Nat) : SplitSoundE X Y Z := by
  intro gs hne hnn hall
  obtain ⟨gds, k1, k2⟩ := choose_groupsE gs hnn (fun g hg e he => (hall g hg e he).1)
  have k3 : ∀ g ∈ gds.map (fun p => grpOf p.1 p.2), ∀ q ∈ g.items,
      ItemOK q.1 ∧ q.1 ≠ ['*'] ∧ parseSingle q.1 true = .ok q.2 ∧ PyVCok q.2 := by
    intro g hg q hq
    obtain ⟨p, hp, rfl⟩ := List.mem_map.1 hg
    rw [grpOf_items] at hq
    rcases List.mem_append.1 hq with hq | hq
    · exact k2 p hp p.1 (by simp) q hq
    · obtain ⟨d, hd, hqd⟩ := List.mem_flatMap.1 hq
      exact k2 p hp d (by simp [hd]) q hqd
  obtain ⟨hpb, hreg⟩ := groups_reg _ k3
  have hgne : gds.map (fun p => grpOf p.1 p.2) ≠ [] := by
    intro e
    have : gds = [] := by simpa using e
    rw [this] at k1
    have := congrArg List.length k1; simp at this
    exact hne (List.length_eq_zero_iff.1 this.symm)
  have hs : (joinWith " || " (gs.map (joinWith " "))).toList =
      orJoin ((gds.map (fun p => grpOf p.1 p.2)).map GrpE.chars) := by
    rw [orJoin_toList, List.map_map, List.map_map]
    congr 1
    have : gs.map (fun g => spJoin (g.map String.toList)) =
        gds.map (fun p => spJoin ((p.1 :: p.2).map EntryD.chars)) := by
      have := congrArg (List.map spJoin) k1
      simpa [List.map_map, Function.comp_def] using this.symm
    rw [show (String.toList ∘ joinWith " ") = fun g => spJoin (g.map String.toList) from
      funext (fun g => spJoin_toList g), this]
    apply List.map_congr_left
    intro p _
    simp [Function.comp_def, grpOf_chars]
  obtain ⟨res, hres, _, hal⟩ := parse_groupsE hpb X Y Z _ hgne hreg (fun g hg q hq => (k3 g hg q hq).2.1) _ hs
  -- a group of `gs` and its data
  have hfind : ∀ g ∈ gs, ∃ p ∈ gds, (p.1 :: p.2).map EntryD.chars = g.map String.toList := by
    intro g hg
    have : g.map String.toList ∈ gds.map (fun p => (p.1 :: p.2).map EntryD.chars) := by
      rw [k1]; exact List.mem_map.2 ⟨g, hg, rfl⟩
    obtain ⟨p, hp, hpe⟩ := List.mem_map.1 this
    exact ⟨p, hp, hpe⟩
  have hfind' : ∀ p ∈ gds, ∃ g ∈ gs, (p.1 :: p.2).map EntryD.chars = g.map String.toList := by
    intro p hp
    have : (p.1 :: p.2).map EntryD.chars ∈ gs.map (fun g => g.map String.toList) := by
      rw [← k1]; exact List.mem_map.2 ⟨p, hp, rfl⟩
    obtain ⟨g, hg, hge⟩ := List.mem_map.1 this
    exact ⟨g, hg, hge.symm⟩
  -- the value of an entry datum through the entry it stands for
  have hval : ∀ g ∈ gs, ∀ p ∈ gds, (p.1 :: p.2).map EntryD.chars = g.map String.toList →
      ∀ d ∈ p.1 :: p.2, ∃ e ∈ g, d.chars = e.toList ∧
        ∀ b, ClauseMeans e X Y Z b → d.items.all (fun q => q.2.allowsPlain (pyV X Y Z)) = b := by
    intro g hg p hp hpe d hd
    have : d.chars ∈ g.map String.toList := by rw [← hpe]; exact List.mem_map.2 ⟨d, hd, rfl⟩
    obtain ⟨e, he, hee⟩ := List.mem_map.1 this
    exact ⟨e, he, hee.symm, fun b hm => entry_means e d hee.symm (k2 p hp d hd) X Y Z b hm⟩
  constructor
  · rintro ⟨g, hg, htrue⟩
    refine ⟨res, hres, ?_⟩
    rw [hal, List.any_map, List.any_eq_true]
    obtain ⟨p, hp, hpe⟩ := hfind g hg
    refine ⟨p, hp, ?_⟩
    simp only [Function.comp_def]
    rw [grpOf_all, List.all_eq_true]
    intro d hd
    obtain ⟨e, he, _, hv⟩ := hval g hg p hp hpe d hd
    exact hv true (htrue e he)
  · intro hfalse
    refine ⟨res, hres, ?_⟩
    rw [hal, List.any_map]
    apply Bool.eq_false_iff.2
    intro hany
    rw [List.any_eq_true] at hany
    obtain ⟨p, hp, hall'⟩ := hany
    simp only [Function.comp_def] at hall'
    rw [grpOf_all, List.all_eq_true] at hall'
    obtain ⟨g, hg, hpe⟩ := hfind' p hp
    obtain ⟨e, he, hef⟩ := hfalse g hg
    -- the datum of `e`
    have : e.toList ∈ (p.1 :: p.2).map EntryD.chars := by rw [hpe]; exact List.mem_map.2 ⟨e, he, rfl⟩
    obtain ⟨d, hd, hde⟩ := List.mem_map.1 this
    have h1 := hall' d hd
    have h2 := entry_means e d hde (k2 p hp d hd) X Y Z false hef
    rw [h2] at h1; cases h1

/-- the constraint parser on a text of several normalised entries returns a constraint of the regular setting over
Python bounds -/
theorem split_okE (gs : List (List String)) (hne : gs ≠ []) (hnn : ∀ g ∈ gs, g ≠ [])
    (hall : ∀ g ∈ gs, ∀ e ∈ g, EntryShape e) (X Y Z : Nat) :
    ∃ vc, parseMarkerVersionConstraint (joinWith " || " (gs.map (joinWith " "))) = .ok vc ∧ PyVCok vc := by
  obtain ⟨gds, k1, k2⟩ := choose_groupsE gs hnn hall
  have k3 : ∀ g ∈ gds.map (fun p => grpOf p.1 p.2), ∀ q ∈ g.items,
      ItemOK q.1 ∧ q.1 ≠ ['*'] ∧ parseSingle q.1 true = .ok q.2 ∧ PyVCok q.2 := by
    intro g hg q hq
    obtain ⟨p, hp, rfl⟩ := List.mem_map.1 hg
    rw [grpOf_items] at hq
    rcases List.mem_append.1 hq with hq | hq
    · exact k2 p hp p.1 (by simp) q hq
    · obtain ⟨d, hd, hqd⟩ := List.mem_flatMap.1 hq
      exact k2 p hp d (by simp [hd]) q hqd
  obtain ⟨hpb, hreg⟩ := groups_reg _ k3
  have hgne : gds.map (fun p => grpOf p.1 p.2) ≠ [] := by
    intro e
    have : gds = [] := by simpa using e
    rw [this] at k1
    have := congrArg List.length k1; simp at this
    exact hne (List.length_eq_zero_iff.1 this.symm)
  have hs : (joinWith " || " (gs.map (joinWith " "))).toList =
      orJoin ((gds.map (fun p => grpOf p.1 p.2)).map GrpE.chars) := by
    rw [orJoin_toList, List.map_map, List.map_map]
    congr 1
    have : gs.map (fun g => spJoin (g.map String.toList)) =
        gds.map (fun p => spJoin ((p.1 :: p.2).map EntryD.chars)) := by
      have := congrArg (List.map spJoin) k1
      simpa [List.map_map, Function.comp_def] using this.symm
    rw [show (String.toList ∘ joinWith " ") = fun g => spJoin (g.map String.toList) from
      funext (fun g => spJoin_toList g), this]
    apply List.map_congr_left
    intro p _
    simp [Function.comp_def, grpOf_chars]
  obtain ⟨res, hres, hrg, _⟩ := parse_groupsE hpb X Y Z _ hgne hreg (fun g hg q hq => (k3 g hg q hq).2.1) _ hs
  exact ⟨res, hres, hrg.1, fun m hm => ⟨(hrg.2 m hm).1, (hrg.2 m hm).2.1, (hrg.2 m hm).2.2.1,
    fun e he => hpb e ((hrg.2 m hm).2.2.2 e he)⟩⟩

end Poetry.Marker
