/-
C18 helper lemmas, part 9: the one place where `VersionUnion.allows` does not go through the members — the
`excludes_single_version` shortcut `not (excluded == version)`, taken when the union excludes a single LOCAL build — on
the shape the parser gives `!=V`: `<V || >V`.  Computed symbolically for an arbitrary `V` (local or not, any probe).
-/
import PoetryVerif.Proofs.EqHashAllows

set_option linter.unusedSimpArgs false
set_option linter.unusedVariables false

namespace Poetry.EqHash
open Poetry Poetry.Version Poetry.Marker

/-- `!=x` as the parser builds it (`x'` is the same version object; kept apart so that re-spelled copies fit too) -/
def neShape (x x' : Version) : List RC := [.rng ⟨none, some x, false, false⟩, .rng ⟨some x', none, false, false⟩]

theorem allowedMax_upper (x : Version) :
    ∃ A, (⟨none, some x, false, false⟩ : VRange).allowedMax = some A := by
  unfold VRange.allowedMax
  simp only [optVerEq, Bool.false_and, Bool.false_eq_true, if_false]
  split <;> exact ⟨_, rfl⟩

/-- `VersionUnion._inverted` of `<x || >x'` (with `x == x'`) is the single version `x` -/
theorem inverted_neShape (x x' : Version) (h : Version.eqv x x' = true) :
    VC.inverted (neShape x x') = .ok (.single (.ver x)) := by
  obtain ⟨A, hA⟩ := allowedMax_upper x
  have hany : (⟨none, none, false, false⟩ : VRange).allowedMax = none := rfl
  have hlo : (⟨some x, none, true, false⟩ : VRange).allowedMax = none := rfl
  have hlo' : (⟨some x', none, false, false⟩ : VRange).allowedMax = none := rfl
  have hk := (eqv_iff_key x x').1 h
  have hlt : Version.lt x x' = false := by
    unfold Version.lt; rw [(cmp_eq_iff_key x x').2 hk]; rfl
  have hgt : Version.gt x x' = false := by
    unfold Version.gt; rw [(cmp_eq_iff_key x x').2 hk]; rfl
  simp [VC.inverted, neShape, VC.rngDiffUnionLoop, RC.view, RC.min, RC.max, RC.imin, RC.imax, VRange.isStrictlyLower,
    VRange.isStrictlyHigher, VRange.allowedMin, VRange.any, hA, hany, hlo, hlo', RC.difference, RC.rngDifferenceRng,
    RC.allowsAny, VRange.allowsLower, VRange.allowsHigher, optVerEq, h, hlt, hgt, bind, Except.bind, pure, Except.pure,
    VC.rngDiffFinish]

/-- `(<x || >x').allows(v)`, for every `x` and every probe -/
theorem allows_neShape (x x' : Version) (h : Version.eqv x x' = true) (v : Version) :
    VC.allows (.union (neShape x x')) v =
      .ok (if x.isLocal then !(Version.eqv x v) else (neShape x x').any (fun c => c.allows v)) := by
  simp only [VC.allows, VC.excludedSingleVersion, inverted_neShape x x' h, bind, Except.bind, pure, Except.pure]
  split <;> rfl

/-- **equal `!=` constraints admit the same versions** — the excluded version may be a local build, the probe anything -/
theorem neShape_allows_congr (x x' y y' : Version) (hx : x.wf = true) (hx' : x'.wf = true) (hy : y.wf = true)
    (hy' : y'.wf = true) (h1 : Version.eqv x x' = true) (h2 : Version.eqv y y' = true)
    (h : Marker.VC.eqv (.union (neShape x x')) (.union (neShape y y')) = true) (v : Version) :
    VC.allows (.union (neShape x x')) v = VC.allows (.union (neShape y y')) v := by
  rw [allows_neShape x x' h1 v, allows_neShape y y' h2 v]
  rw [vc_eqv_union] at h
  have hxy : Version.eqv x y = true := by
    simp only [neShape, rcListEqv_cons, RC.eqv, VRange.eqv, RC.view, RC.min, RC.max, RC.imin, RC.imax, optVerEq,
      Bool.and_eq_true] at h
    exact h.1.1.1.2
  have hk := (eqv_iff_key x y).1 hxy
  have hl : x.isLocal = y.isLocal := isLocal_of_key_eq hx hy hk
  have hmem : (neShape x x').any (fun c => c.allows v) = (neShape y y').any (fun c => c.allows v) := by
    refine rcList_any_allows_congr (by simp [neShape, rcNonDegenerate, degenerate])
      (by simp [neShape, rcNonDegenerate, degenerate]) ?_ ?_ h v
    · intro c hc
      simp only [neShape, List.mem_cons, List.mem_nil_iff, or_false] at hc
      rcases hc with rfl | rfl <;> intro e he <;>
        simp [RC.bounds, RC.view, VRange.bounds, RC.min, RC.max] at he <;> subst he <;> assumption
    · intro c hc
      simp only [neShape, List.mem_cons, List.mem_nil_iff, or_false] at hc
      rcases hc with rfl | rfl <;> intro e he <;>
        simp [RC.bounds, RC.view, VRange.bounds, RC.min, RC.max] at he <;> subst he <;> assumption
  rw [hl, eqv_congr_key_left hk v, hmem]

end Poetry.EqHash
