/-
C14: the trusted base of "validation ⇒ METADATA parses into the declared fields", with the printers proved:
`to_pep_508`, `str(constraint)`, `format_python_constraint`, `str(marker)`, `canonicalize_name`, `Version.to_string`,
the uri format and the SPDX fallback names are all proved line-free at the model level.  What remains is that the
OBJECTS handed to the printers hold line-free strings.  Core Lean only.
-/
import PoetryVerif.Proofs.MetaDepText
import PoetryVerif.Proofs.MetaParseBounds

set_option linter.unusedSimpArgs false
set_option linter.unusedVariables false

namespace Poetry.Meta
open Poetry Poetry.Dep

/-- **What is still assumed** (no printer any more). -/
structure Objects (proj : ProjectT) (tool : ToolT) (spdx : String → Option License) (extras rd : List String)
    (fp : String) : Prop where
  /-- legacy Requires-Python: `fp` is unused (`""`) or is `format_python_constraint` of a constraint whose bounds carry
  line-free texts (for a constraint parsed from a single-line string: `parseConstraint_boundsLineFree`) -/
  pythonPrinted : fp = "" ∨ ∃ c, Dep02.formatPythonConstraint c = .ok fp ∧ BoundsLineFree c
  /-- Provides-Extra: every configured extra is `canonicalize_name` of a (validated) key of the extras table -/
  extrasCanonical : ∀ e ∈ extras, ∃ n ∈ proj.optionalDependencyNames ++ tool.extraNames, e = canonicalizeName n
  /-- Requires-Dist: every line is `to_pep_508()` of a dependency object whose stored strings are line-free — name,
  extras, url / reference / subdirectory (the verbatim parts: validated), the texts of the constraint bounds (parser),
  the strings in the marker leaves (`parse_marker` rejects values holding white space) -/
  requiresDistObjects : DependencySourcesSingleLine tool → ∀ s ∈ rd, ∃ d : Dep, d.toPep508 = .ok s ∧ DepLineFree d
  /-- schema validation accepted [tool.poetry] homepage / repository / documentation (`format: uri`) -/
  toolLinksFormat : ∀ u, (tool.homepage = some u ∨ tool.repository = some u ∨ tool.documentation = some u) →
    uriFormatMatch u.toList = true
  /-- `license_by_id` returns the SPDX table's entry for the licences whose name is printed -/
  spdxTable : ∀ raw l, spdx raw = some l → NameNeeded l → (l.id, l.name) ∈ Gen.licenseFallbackNames

theorem printers_of_objects {proj : ProjectT} {tool : ToolT} {spdx : String → Option License} {extras rd : List String}
    {fp : String} (h : Objects proj tool spdx extras rd fp) : Printers proj tool spdx extras rd fp where
  formatPython := by
    rcases h.pythonPrinted with rfl | ⟨c, hc, hb⟩
    · exact singleLine_empty
    · exact formatPythonConstraint_singleLine c fp hc hb
  extrasCanonical := h.extrasCanonical
  requiresDist := fun hs s hsrd => by
    obtain ⟨d, hd, hlf⟩ := h.requiresDistObjects hs s hsrd
    exact Dep.toPep508_singleLine d s hd hlf
  toolLinksFormat := h.toolLinksFormat
  spdxTable := h.spdxTable

/-- **validation ⇒ guard, no printer trusted** -/
theorem validated_guard_objects (proj : ProjectT) (tool : ToolT) (spdx : String → Option License) (stored : Option String)
    (extras rd texts : List String) (fp : String) (m : Meta)
    (hv : validateSingleLine proj tool = [])
    (hm : (configure proj tool spdx stored extras rd).toMeta texts fp = .ok m)
    (ho : Objects proj tool spdx extras rd fp) :
    NoLineBreakInSingleLineFields m :=
  validated_guard_printers proj tool spdx stored extras rd texts fp m hv hm (printers_of_objects ho)


/-- `Objects.pythonPrinted` for a legacy project whose `python` string is single-line: the parser gives line-free
bounds, the printer keeps them -/
theorem pythonPrinted_of_parse (s fp : String) (c : VC) (hs : SingleLine s)
    (hp : VParser.parseConstraint s = .ok c) (hf : Dep02.formatPythonConstraint c = .ok fp) :
    fp = "" ∨ ∃ c, Dep02.formatPythonConstraint c = .ok fp ∧ BoundsLineFree c :=
  Or.inr ⟨c, hf, parseConstraint_boundsLineFree s c hs hp⟩

end Poetry.Meta
