/-
Text level of the constraint round trip (helper lemmas for C15): wildcards on post-releases (`==1.0.post0.*`).
The printer writes `first.without_devrelease().text + ".*"`; `BASIC_CONSTRAINT` reads the post-release back and
`_make_x_constraint_range` builds `[V.dev0, next_postrelease(V).dev0)`, whose ends compare equal to the printed
range's.
-/
import PoetryVerif.Proofs.VRangeTextX

set_option linter.unusedSimpArgs false
set_option linter.unusedVariables false
set_option linter.unnecessarySeqFocus false

namespace Poetry
open Poetry.Marker
open Version

/-- the characters of `N!X.postK` -/
def postBase (e x : Nat) (r : List Nat) (n : Nat) : List Char :=
  epochChars e ++ (relChars x r ++ ('.' :: tagChars ⟨.post, n⟩))

/-- the post-release with these numbers, in normal-form text -/
def pV (e x : Nat) (r : List Nat) (n : Nat) : Version := mk' e (x :: r) none (some ⟨.post, n⟩) none none

theorem postBase_eq_body (e x : Nat) (r : List Nat) (n : Nat) :
    postBase e x r n = bodyChars e x r none (some ⟨.post, n⟩) none none := by
  simp [postBase, bodyChars, preChars, dotTagChars, locChars]

theorem postBase_nchar (e x : Nat) (r : List Nat) (n : Nat) : ∀ c ∈ postBase e x r n, nchar c = true := by
  rw [postBase_eq_body]
  exact bodyChars_nchar e x r none _ none none (by intro segs h; cases h)

theorem postBase_head (e x : Nat) (r : List Nat) (n : Nat) :
    ∃ d ds, postBase e x r n = d :: ds ∧ isDigit d = true := by
  rw [postBase_eq_body]; exact bodyChars_head e x r none _ none none

theorem pV_wf (e x : Nat) (r : List Nat) (n : Nat) : (pV e x r n).wf = true := by
  simp [pV, mk', Version.wf, optAll]

theorem pV_textOK (e x : Nat) (r : List Nat) (n : Nat) : TextOK (pV e x r n) :=
  textOK_mk' e (x :: r) none _ none none (pV_wf e x r n) (by intro segs h; cases h)

theorem pV_text (e x : Nat) (r : List Nat) (n : Nat) : (pV e x r n).text = String.ofList (postBase e x r n) := by
  apply str_eq_of_toList
  show (Version.toStr e (x :: r) none (some ⟨.post, n⟩) none none).toList = _
  rw [toStr_toList, String.toList_ofList, ← postBase_eq_body, map_lower_nchar _ (postBase_nchar e x r n)]

/-- the tail `.postK.*` -/
def postTail (n : Nat) : List Char := '.' :: (tagChars ⟨.post, n⟩ ++ dotStar)

theorem postTail_eq (n : Nat) : postTail n = '.' :: 'p' :: 'o' :: 's' :: 't' :: (dg n ++ dotStar) := by
  simp [postTail, tagChars, Phase.str, Gen.phaseIdPost]

theorem relStop_postTail (n : Nat) : RelStop (postTail n) := by
  rw [postTail_eq]
  exact ⟨by intro c hc; simp at hc; subst hc; exact ⟨by decide, by decide⟩,
    by intro c cs h; injection h with _ h; injection h with h _; subst h; decide⟩

theorem parseBody_postWild (e x : Nat) (r : List Nat) (n : Nat) :
    parseBody "" (postBase e x r n ++ dotStar) =
      some ({ epoch := e, release := x :: r, pre := none, post := some ⟨.post, n⟩, dev := none, loc := none,
              text := "" }, dotStar) := by
  obtain ⟨d, ds, hd, hdig⟩ := postBase_head e x r n
  have hsv : stripV (postBase e x r n ++ dotStar) = postBase e x r n ++ dotStar := by
    rw [hd, List.cons_append]; exact stripV_digit d _ hdig
  have hsplit : postBase e x r n ++ dotStar = epochChars e ++ (relChars x r ++ postTail n) := by
    simp [postBase, postTail]
  have h1 := parseEpochRelease_tail e x r (postTail n) (relStop_postTail n)
  have h2 : parsePre (postTail n) = (none, postTail n) := by rw [postTail_eq]; exact parsePre_post _
  have h3 : parsePost (postTail n) = (some ⟨.post, n⟩, dotStar) :=
    parsePost_tag n dotStar (by intro c hc; simp [dotStar] at hc; subst hc; decide)
  obtain ⟨_, _, p3, p4⟩ := dotStar_parsers
  unfold parseBody
  rw [hsv, hsplit]
  simp only [h1, h2, h3, p3, p4]

theorem basicVersion?_postWild (e x : Nat) (r : List Nat) (n : Nat) :
    VParser.basicVersion? (postBase e x r n ++ dotStar) = some (String.ofList (postBase e x r n), true) := by
  have hl : (postBase e x r n ++ dotStar).map lowerChar = postBase e x r n ++ dotStar := by
    rw [List.map_append, map_lower_nchar _ (postBase_nchar e x r n)]; rfl
  unfold VParser.basicVersion?
  simp only [hl, parseBody_postWild]
  simp [dotStar, VParser.atEnd]

/-- no suffix `.Y…​.postK.*` of the text is `.*` -/
theorem relTail_postTail_not_dotStar (r : List Nat) (n : Nat) : ∀ t, relTail r ++ postTail n ≠ '.' :: '*' :: t := by
  intro t h
  cases r with
  | nil => rw [postTail_eq] at h; simp [relTail] at h
  | cons y r' =>
    obtain ⟨d, ds, hd, hdig⟩ := dg_cons y
    simp [relTail, hd] at h
    exact digit_ne d '*' hdig (by decide) h.1

theorem xmore_relTail_postTail (y : Nat) (r : List Nat) (n : Nat) :
    xmore (relTail (y :: r) ++ postTail n) = ('.' :: dg y, relTail r ++ postTail n) := by
  have ht := takeDigits_append (dg y) (relTail r ++ postTail n) (dg_isDigit y) (by
    intro c hc
    cases r with
    | nil => rw [postTail_eq] at hc; simp [relTail] at hc; subst hc; decide
    | cons z r' => simp [relTail] at hc; subst hc; decide)
  have hne : (dg y).isEmpty = false := by
    obtain ⟨d, ds, hd, _⟩ := dg_cons y; rw [hd]; rfl
  simp [xmore, relTail, ht, hne]

theorem xmore_postTail (n : Nat) : xmore (postTail n) = ([], postTail n) := by
  rw [postTail_eq]; simp [xmore, takeDigits, isDigit]

theorem xcore2_postWild (inv : Bool) (x : Nat) (r : List Nat) (n : Nat) :
    xcore2 inv (relChars x r ++ postTail n) = none := by
  have ht : takeDigits (relChars x r ++ postTail n) = (dg x, relTail r ++ postTail n) := by
    have := takeDigits_append (dg x) (relTail r ++ postTail n) (dg_isDigit x) (by
      intro c hc
      cases r with
      | nil => rw [postTail_eq] at hc; simp [relTail] at hc; subst hc; decide
      | cons z r' => simp [relTail] at hc; subst hc; decide)
    simpa [relChars] using this
  have hne : (dg x).isEmpty = false := by
    obtain ⟨d, ds, hd, _⟩ := dg_cons x; rw [hd]; rfl
  have hney : ∀ y, ('.' :: dg y).isEmpty = false := fun _ => rfl
  have xt : ∀ ver r', xtry inv ver (relTail r' ++ postTail n) = none :=
    fun ver r' => xtry_other inv ver _ (relTail_postTail_not_dotStar r' n)
  unfold xcore2
  simp only [ht, hne, Bool.false_eq_true, if_false]
  have xt0 : ∀ ver, xtry inv ver (postTail n) = none := fun ver => by simpa [relTail] using xt ver []
  match r with
  | [] =>
    simp [relTail, xmore_postTail, xt0]
  | [y] =>
    have h2 : xmore ('.' :: (dg y ++ postTail n)) = ('.' :: dg y, postTail n) := by
      simpa [relTail] using xmore_relTail_postTail y [] n
    have t2 : ∀ ver, xtry inv ver ('.' :: (dg y ++ postTail n)) = none := fun ver => by
      simpa [relTail] using xt ver [y]
    simp [relTail, h2, xmore_postTail, xt0, t2]
  | y :: z :: r' =>
    have h2 := xmore_relTail_postTail y (z :: r') n
    have h3 := xmore_relTail_postTail z r' n
    rw [h2]
    simp only [hney, Bool.false_eq_true, if_false, h3, xt]

theorem xcore_postWild (inv : Bool) (e x : Nat) (r : List Nat) (n : Nat) :
    xcore inv (postBase e x r n ++ dotStar) = none := by
  obtain ⟨d, ds, hd, hdig⟩ := postBase_head e x r n
  have hs : vstrip (dropSpaces (postBase e x r n ++ dotStar)) = postBase e x r n ++ dotStar := by
    rw [hd, List.cons_append, dropSpaces_of_head d _ (digit_not_space d hdig), vstrip_digit d _ hdig]
  have hsplit : postBase e x r n ++ dotStar = epochChars e ++ (relChars x r ++ postTail n) := by
    simp [postBase, postTail]
  unfold xcore
  rw [hs, hsplit]
  by_cases he : e = 0
  · simp only [epochChars, he, bne_self_eq_false, Bool.false_eq_true, if_false, List.nil_append]
    exact xcore2_postWild inv x r n
  · have hb : epochChars e ++ (relChars x r ++ postTail n) = dg e ++ '!' :: (relChars x r ++ postTail n) := by
      simp [epochChars, he]
    have hte := takeDigits_append (dg e) ('!' :: (relChars x r ++ postTail n)) (dg_isDigit e)
      (fun c hc => by simp at hc; subst hc; decide)
    have hnee : (dg e).isEmpty = false := by
      obtain ⟨d', ds', hd', _⟩ := dg_cons e; rw [hd']; rfl
    have hxm : xmore ('!' :: (relChars x r ++ postTail n)) = ([], '!' :: (relChars x r ++ postTail n)) := by
      simp [xmore]
    have hxt : ∀ ver, xtry inv ver ('!' :: (relChars x r ++ postTail n)) = none :=
      fun ver => xtry_other inv ver _ (by intro t h; injection h with h _; exact absurd h (by decide))
    rw [hb]
    unfold xcore2
    simp [hte, hnee, hxm, hxt]

theorem postBase_ne_dev (e x : Nat) (r : List Nat) (n : Nat) : (String.ofList (postBase e x r n) == "dev") = false := by
  rw [← pV_text]; exact text_ne_dev (pV_textOK e x r n)

/-- **`parse_single_constraint("==X.postK.*")` / `("!=X.postK.*")`**: `_make_x_constraint_range` on the post-release -/
theorem parseSingle_postWild (b inv : Bool) (e x : Nat) (r : List Nat) (n : Nat) :
    VParser.parseSingle ((if inv then '!' else '=') :: '=' :: (postBase e x r n ++ dotStar)) b =
      VParser.makeXConstraintRange (pV e x r n) inv b := by
  have hp : Version.parse (String.ofList (postBase e x r n)) = .ok (pV e x r n) := by
    rw [← pV_text]; exact (pV_textOK e x r n).parse
  obtain ⟨d, ds, hd, hdig⟩ := postBase_head e x r n
  have hds : dropSpaces (postBase e x r n ++ dotStar) = postBase e x r n ++ dotStar := by
    rw [hd, List.cons_append]; exact dropSpaces_of_head d _ (digit_not_space d hdig)
  have hbv := basicVersion?_postWild e x r n
  have hdev := postBase_ne_dev e x r n
  have hx := xcore_postWild inv e x r n
  cases inv
  · unfold VParser.parseSingle
    simp [VParser.isAnyPattern, xConstraint?_eq, xprefix, hx, VParser.basicOp, hds, hbv, hdev,
      VParser.parseVersionText, hp, bind, Except.bind, pure, Except.pure,
      show (VParser.BasicOp.eq == VParser.BasicOp.ne) = false from by decide]
  · unfold VParser.parseSingle
    simp [VParser.isAnyPattern, xConstraint?_eq, xprefix, hx, VParser.basicOp, hds, hbv, hdev,
      VParser.parseVersionText, hp, bind, Except.bind, pure, Except.pure,
      show (VParser.BasicOp.eq == VParser.BasicOp.ne) = false from by decide]

theorem parseConstraint_postWild (inv : Bool) (e x : Nat) (r : List Nat) (n : Nat) :
    VParser.parseConstraint (String.ofList ((if inv then '!' else '=') :: '=' :: (postBase e x r n ++ dotStar))) =
      VParser.makeXConstraintRange (pV e x r n) inv false := by
  have hpl : ∀ c ∈ (if inv then '!' else '=') :: '=' :: (postBase e x r n ++ dotStar), vPlain c := by
    intro c hc
    simp only [List.mem_cons, List.mem_append, dotStar, List.mem_nil_iff, or_false] at hc
    rcases hc with rfl | rfl | hc | rfl | rfl
    · cases inv <;> (unfold vPlain; decide)
    · unfold vPlain; decide
    · exact vchar_plain c (nchar_vchar c (postBase_nchar e x r n c hc))
    · unfold vPlain; decide
    · unfold vPlain; decide
  unfold VParser.parseConstraint
  rw [parseConstraintAux_one false _ (groupText_of_vPlain _ hpl (by simp)) (by cases inv <;> simp),
    parseGroup_plain false _ hpl]
  exact parseSingle_postWild false inv e x r n

/-- `_make_x_constraint_range` on a post-release (not a dev-release) -/
theorem makeX_post (V : Version) (t : Tag) (hp : V.post = some t) (hd : V.dev = none) :
    VParser.makeXConstraintRange V false false =
      .ok (.single (.rng ⟨some V.firstDevrelease, some V.nextPostrelease.firstDevrelease, true, false⟩)) := by
  simp [VParser.makeXConstraintRange, isDevrelease, isPostrelease, hp, hd, nextPostrelease, mk']

/-! ### what `_is_wildcard_candidate` says for a post-release lower end -/

theorem wildcardCandidate_facts_post (mn mx : Version) (h : isWildcardCandidate mn mx false = true)
    (hp : mn.isPostrelease = true) :
    mn.epoch = mx.epoch ∧ mn.isLocal = false ∧ mx.isLocal = false ∧ mn.isPrerelease = false ∧
    mx.isPrerelease = false ∧ Version.eqv mn.firstDevrelease mn = true ∧
    (mx.isDevrelease = true → Version.eqv mx.firstDevrelease mx = true) ∧
    stripZeros mn.release = stripZeros mx.release ∧ optTagEq (mn.post.map Tag.next) mx.post = true := by
  unfold isWildcardCandidate at h
  by_cases hg : (mn.epoch != mx.epoch || mn.isLocal || mx.isLocal || mn.isPrerelease || mx.isPrerelease
      || (mn.isPostrelease != mx.isPostrelease) || !(Version.eqv mn.firstDevrelease mn)
      || (mx.isDevrelease && !(Version.eqv mx.firstDevrelease mx))) = true
  · rw [if_pos hg] at h; cases h
  · rw [if_neg hg] at h
    simp only [Bool.or_eq_true, not_or, Bool.not_eq_true, bne_eq_false_iff_eq, Bool.and_eq_false_iff,
      Bool.not_eq_false'] at hg
    obtain ⟨⟨⟨⟨⟨⟨⟨g1, g2⟩, g3⟩, g4⟩, g5⟩, g6⟩, g7⟩, g8⟩ := hg
    simp only [Bool.false_eq_true, if_false, hp, if_true] at h
    generalize hP : stripZeros mx.release = P at h ⊢
    by_cases hPe : P.isEmpty = true
    · simp [hPe] at h
    · simp only [hPe, Bool.false_eq_true, if_false] at h
      generalize hpf0 : mn.release ++ zeros (P.length - mn.release.length) = pf0 at h
      by_cases hex : (!(pf0.drop P.length).all (· == 0)) = true
      · simp [hex] at h
      · simp only [hex, Bool.false_eq_true, if_false, Bool.and_eq_true, beq_iff_eq] at h
        obtain ⟨hd, hl⟩ := h
        simp only [Bool.not_eq_true', Bool.not_eq_false, List.all_eq_true, beq_iff_eq] at hex
        have hex' : ∀ x ∈ pf0.drop P.length, x = 0 := by
          intro x hx; have := hex x hx; simpa using this
        refine ⟨g1, g2, g3, g4, g5, by simpa using g7, ?_, ?_, hl⟩
        · intro hdv
          rcases g8 with h8 | h8
          · rw [hdv] at h8; cases h8
          · exact h8
        · have e1 : stripZeros mn.release = stripZeros pf0 := by
            rw [← hpf0, zeros, stripZeros_append_replicate]
          have e2 : stripZeros pf0 = stripZeros (pf0.take P.length) := stripZeros_take pf0 P.length hex'
          rw [e1, e2, hd, ← hP, stripZeros_idem]

theorem vk_mk_release_congr (e : Nat) (R1 R2 : List Nat) (pre post dev : Option Tag) (loc : Option (List String))
    (h : stripZeros R1 = stripZeros R2) : vk (mk' e R1 pre post dev loc) = vk (mk' e R2 pre post dev loc) := by
  rw [vk_eq_iff_key]
  simp [key, mk', preK, postK, devK, h]

/-- **any range the printer spells `==X.postK.*` is printed, read back, and the re-read range admits the same
versions on EVERY probe** -/
theorem post_wildcard_spelt_roundtrip (mn mx : Version) (hwf : (⟨some mn, some mx, true, false⟩ : VRange).WF)
    (hw : isWildcardCandidate mn mx false = true) (hp : mn.isPostrelease = true) :
    ∃ s c', (VC.single (.rng ⟨some mn, some mx, true, false⟩)).toStr = .ok s ∧
      VParser.parseConstraint s = .ok c' ∧
      ∀ p, p.wf = true → c'.allows p = (VC.single (.rng ⟨some mn, some mx, true, false⟩)).allows p := by
  obtain ⟨g1, g2, g3, g4, g5, g7, g8, hrel, htag⟩ := wildcardCandidate_facts_post mn mx hw hp
  have hmnw : mn.wf = true := hwf.1 mn (by simp [VRange.bounds])
  have hmxw : mx.wf = true := hwf.1 mx (by simp [VRange.bounds])
  have hlt : vk mn < vk mx := hwf.2 mn mx rfl rfl
  obtain ⟨hrne, _, hpostph, _⟩ := wf_parts hmnw
  obtain ⟨_, _, hpostph', _⟩ := wf_parts hmxw
  -- the parts of `mn`
  obtain ⟨e, rel, pre, post, dev, loc, text⟩ := mn
  simp only at g1 g2 g4 g7 hrel htag hp hrne hpostph hlt hw
  have hpre : pre = none := by simpa [isPrerelease] using g4
  have hloc : loc = none := by simpa [isLocal] using g2
  subst hpre; subst hloc
  cases post with
  | none => simp [isPostrelease] at hp
  | some t =>
    obtain ⟨ph, n⟩ := t
    have hph : ph = .post := by simpa [optAll] using hpostph
    subst hph
    cases rel with
    | nil => exact absurd rfl hrne
    | cons x r =>
      -- the parts of `mx`
      have hxpre : mx.pre = none := by simpa [isPrerelease] using g5
      have hxloc : mx.loc = none := by simpa [isLocal] using g3
      have hxpost : mx.post = some ⟨.post, n + 1⟩ := by
        cases hmp : mx.post with
        | none => rw [hmp] at htag; simp [optTagEq] at htag
        | some t' =>
          obtain ⟨ph', n'⟩ := t'
          rw [hmp] at htag hpostph'
          simp only [Option.map_some, optTagEq, Tag.next, Bool.and_eq_true, beq_iff_eq] at htag
          have : ph' = .post := by simpa [optAll] using hpostph'
          rw [this, ← htag.2]
      -- the text
      have hwd : (Version.mk e (x :: r) none (some ⟨.post, n⟩) dev none text).withoutDevrelease = pV e x r n := by
        simp [withoutDevrelease, pV]
      have hstr : singleWildcardRangeString (Version.mk e (x :: r) none (some ⟨.post, n⟩) dev none text) mx =
          .ok (String.ofList (postBase e x r n ++ dotStar)) := by
        unfold singleWildcardRangeString
        simp only [hp, if_true, hwd, pV_text]
        congr 1
        exact str_eq_of_toList (by simp [dotStar])
      have hprint : (VC.single (.rng ⟨some (Version.mk e (x :: r) none (some ⟨.post, n⟩) dev none text), some mx, true,
          false⟩)).toStr = .ok (String.ofList ('=' :: '=' :: (postBase e x r n ++ dotStar))) := by
        simp only [VC.toStr, RC.toStr, VRange.toStr, VRange.isSingleWildcardRange, hw, hstr, Bool.not_true, Bool.false_or,
          Bool.false_eq_true, if_false, if_true, bind, Except.bind, pure, Except.pure]
        congr 1
        exact str_eq_of_toList (by simp)
      have hparse := parseConstraint_postWild false e x r n
      simp only [Bool.false_eq_true, if_false] at hparse
      rw [makeX_post (pV e x r n) ⟨.post, n⟩ rfl rfl] at hparse
      refine ⟨_, _, hprint, hparse, fun p hpw => ?_⟩
      simp only [VC.allows, RC.allows]
      congr 1
      -- lower ends
      have kD : vk (pV e x r n).firstDevrelease = vk (Version.mk e (x :: r) none (some ⟨.post, n⟩) dev none text) := by
        have : (pV e x r n).firstDevrelease =
            (Version.mk e (x :: r) none (some ⟨.post, n⟩) dev none text).firstDevrelease := rfl
        rw [this]; exact (eqv_iff _ _).1 g7
      -- effective upper ends
      have hE : (pV e x r n).nextPostrelease.firstDevrelease =
          mk' e (x :: r) none (some ⟨.post, n + 1⟩) (some ⟨.dev, 0⟩) none := by
        simp [pV, nextPostrelease, firstDevrelease, mk', Tag.next]
      have kMx : vk mx.firstDevrelease = vk (mk' e (x :: r) none (some ⟨.post, n + 1⟩) (some ⟨.dev, 0⟩) none) := by
        have : mx.firstDevrelease = mk' e mx.release none (some ⟨.post, n + 1⟩) (some ⟨.dev, 0⟩) none := by
          simp [firstDevrelease, hxpre, hxpost, ← g1]
        rw [this]
        exact vk_mk_release_congr e _ _ _ _ _ _ hrel.symm
      have hA' : (⟨some (pV e x r n).firstDevrelease, some (pV e x r n).nextPostrelease.firstDevrelease, true, false⟩ :
          VRange).allowedMax = some (pV e x r n).nextPostrelease.firstDevrelease := by
        simp [VRange.allowedMax, firstDevrelease, mk', isUnstable, isDevrelease]
      have hA := VRange.allowedMax_eq_of_lt
        (r := ⟨some (Version.mk e (x :: r) none (some ⟨.post, n⟩) dev none text), some mx, true, false⟩) (M := mx) rfl
        (by intro m hm; cases hm; exact ne_of_lt hlt)
      simp only [Bool.false_or] at hA
      have kA : vk (if mx.isUnstable = true then mx else mx.firstDevrelease) =
          vk (pV e x r n).nextPostrelease.firstDevrelease := by
        rw [hE]
        by_cases hu : mx.isUnstable = true
        · simp only [hu, if_true]
          have hdev : mx.isDevrelease = true := by simpa [isUnstable, g5] using hu
          rw [← kMx]; exact ((eqv_iff _ _).1 (g8 hdev)).symm
        · simp only [hu, Bool.false_eq_true, if_false]; exact kMx
      have lo : (⟨some (pV e x r n).firstDevrelease, some (pV e x r n).nextPostrelease.firstDevrelease, true, false⟩ :
          VRange).allowsLo p =
          (⟨some (Version.mk e (x :: r) none (some ⟨.post, n⟩) dev none text), some mx, true, false⟩ : VRange).allowsLo p := by
        apply bool_eq_of_iff
        rw [VRange.allowsLo_incl _ p _ hpw rfl rfl, VRange.allowsLo_incl _ p _ hpw rfl rfl, kD]
      have hi : (⟨some (pV e x r n).firstDevrelease, some (pV e x r n).nextPostrelease.firstDevrelease, true, false⟩ :
          VRange).allowsHi p =
          (⟨some (Version.mk e (x :: r) none (some ⟨.post, n⟩) dev none text), some mx, true, false⟩ : VRange).allowsHi p := by
        apply bool_eq_of_iff
        rw [VRange.allowsHi_excl _ p _ _ hpw rfl hA' rfl, VRange.allowsHi_excl _ p mx _ hpw rfl hA rfl, kA]
      unfold VRange.allows
      rw [lo, hi]

end Poetry
