/-
Bridge between the reference specifier semantics (`Spec/Specifier.lean`, over the reference order
`cmpRef`) and the poetry model (helper lemmas for C04).
-/
import PoetryVerif.Proofs.VRangeBump
import PoetryVerif.Proofs.VRangeOps
import PoetryVerif.Spec.Specifier
import PoetryVerif.Model.VParser

set_option linter.unusedSimpArgs false
set_option linter.unusedVariables false

namespace Poetry
open Version Spec

attribute [local instance] lexOrd

/-! ### the reference comparisons in the vocabulary of the linear order -/

theorem vLe_iff {a b : Version} (ha : a.wf = true) (hb : b.wf = true) : vLe a b = true ↔ vk a ≤ vk b := by
  unfold vLe; rw [← cmp_eq_cmpRef a b ha hb, vk_le_iff]; simp

theorem vLt_iff {a b : Version} (ha : a.wf = true) (hb : b.wf = true) : vLt a b = true ↔ vk a < vk b := by
  unfold vLt; rw [← cmp_eq_cmpRef a b ha hb, vk_lt_iff]; simp

theorem vGt_iff {a b : Version} (ha : a.wf = true) (hb : b.wf = true) : vGt a b = true ↔ vk b < vk a := by
  unfold vGt; rw [← cmp_eq_cmpRef a b ha hb, vk_lt_iff, beq_iff_eq, cmp_gt_iff_lt]

theorem vGe_iff {a b : Version} (ha : a.wf = true) (hb : b.wf = true) : vGe a b = true ↔ vk b ≤ vk a := by
  unfold vGe
  rw [← cmp_eq_cmpRef a b ha hb]
  have : vk b ≤ vk a ↔ ¬ vk a < vk b := not_lt.symm
  rw [this, vk_lt_iff]; simp

theorem sameRelease_iff (lit v : Version) : sameRelease lit v = true ↔ relKey v = relKey lit := by
  simp [sameRelease, relKey, stripZeros_eq_ref]

/-! ### versions of different releases: every comparison is decided by the release keys -/

theorem le_iff_lt_of_relKey_ne {a b : Version} (h : relKey a ≠ relKey b) : vk a ≤ vk b ↔ vk a < vk b :=
  ⟨fun hle => lt_of_le_of_ne hle (vk_ne_of_relKey_ne h), le_of_lt⟩

/-- both bounds have the release `R ≠ relKey v`: they compare alike with `v` -/
theorem lt_congr_bounds {B V v : Version} (hB : relKey B = relKey V) (hne : relKey v ≠ relKey V) :
    (vk B < vk v ↔ vk V < vk v) ∧ (vk v < vk B ↔ vk v < vk V) ∧
    (vk B ≤ vk v ↔ vk V < vk v) ∧ (vk v ≤ vk B ↔ vk v < vk V) := by
  have hne' : relKey B ≠ relKey v := fun e => hne (e.symm.trans hB)
  have hne2 : relKey v ≠ relKey B := fun e => hne' e.symm
  have h1 : vk B < vk v ↔ vk V < vk v := lt_congr_left hB hne'
  have h2 : vk v < vk B ↔ vk v < vk V := lt_congr_right hB hne'
  exact ⟨h1, h2, (le_iff_lt_of_relKey_ne hne').trans h1, (le_iff_lt_of_relKey_ne hne2).trans h2⟩

/-! ### `0.dev0` is the least version -/

theorem wf_minVersion : minVersion.wf = true := by decide

theorem minVersion_le (v : Version) (hv : v.wf = true) : vk minVersion ≤ vk v := by
  by_cases hr : relKey v = relKey minVersion
  · have : vk (mk' 0 [0] none none none none).firstDevrelease ≤ vk v :=
      firstDev_final_le (X := mk' 0 [0] none none none none) rfl hv hr
    exact this
  · have hne : relKey minVersion ≠ relKey v := fun e => hr e.symm
    apply le_of_lt
    rw [vk_lt_iff, cmp_of_relKey_ne _ _ hne]
    simp only [relCmp, relKey, minVersion, mkV]
    have hs : stripZeros [0] = [] := by decide
    rw [hs]
    cases he : compare 0 v.epoch with
    | lt => rfl
    | gt => exact absurd (Nat.compare_eq_gt.1 he) (by omega)
    | eq =>
      simp only [Ordering.then]
      have he' : v.epoch = 0 := (Nat.compare_eq_eq.1 he).symm
      cases hl : stripZeros v.release with
      | nil => exact absurd (by simp [relKey, minVersion, mkV, he', hl, hs]) hr
      | cons x xs => exact List.compare_nil_cons

/-! ### the reference's derived bounds -/

theorem wf_parts {V : Version} (h : V.wf = true) :
    V.release ≠ [] ∧ optAll Tag.isPre V.pre = true ∧ optAll (fun t => t.phase == .post) V.post = true ∧
    optAll (fun t => t.phase == .dev) V.dev = true := by
  simp only [wf, Bool.and_eq_true, Bool.not_eq_true', List.isEmpty_eq_false_iff] at h
  exact ⟨h.1.1.1.1, h.1.1.1.2, h.1.1.2, h.1.2⟩

theorem wf_mkV_nolocal {e : Nat} {r : List Nat} {pre post dev : Option Tag} (hr : r ≠ [])
    (h1 : optAll Tag.isPre pre = true) (h2 : optAll (fun t => t.phase == .post) post = true)
    (h3 : optAll (fun t => t.phase == .dev) dev = true) : (mkV e r pre post dev none).wf = true := by
  simp only [wf, mkV, Bool.and_eq_true, Bool.not_eq_true', List.isEmpty_eq_false_iff, optAll]
  exact ⟨⟨⟨⟨hr, h1⟩, h2⟩, h3⟩, trivial⟩

/-- `V.dev(N+1)`: above `V`, same release -/
theorem devBump_gt {V : Version} {d : Tag} (hd : V.dev = some d) :
    vk V < vk (mkV V.epoch V.release V.pre V.post (some { d with num := d.num + 1 }) none) := by
  apply lt_of_pubKey_lt
  have : compare (NumK.fin d.num) (NumK.fin (d.num + 1)) = .lt := by
    rw [compare_numK_fin]; exact Nat.compare_eq_lt.2 (by omega)
  simp only [pubKey, mkV, compare_pair, preK, postK, devK, hd, tagK, Option.isSome_some]
  simp [compare_self_eq, Ordering.then, this]

/-- `V.post(N+1).dev0` (V without dev segment): above `V`, same release -/
theorem postBump_gt {V : Version} {p : Tag} (hp : V.post = some p) :
    vk V < vk (mkV V.epoch V.release V.pre (some { p with num := p.num + 1 }) dev0 none) := by
  apply lt_of_pubKey_lt
  have : compare (NumK.fin p.num) (NumK.fin (p.num + 1)) = .lt := by
    rw [compare_numK_fin]; exact Nat.compare_eq_lt.2 (by omega)
  simp only [pubKey, mkV, compare_pair, preK, postK, devK, hp, tagK, Option.isSome_some, Option.isNone_some,
    Bool.and_false, Bool.false_and, Bool.false_eq_true, if_false]
  simp [compare_self_eq, Ordering.then, this]

theorem vk_mkV_firstDev (V : Version) :
    vk (mkV V.epoch V.release V.pre V.post dev0 none) = vk V.firstDevrelease := by
  rw [vk_eq_iff_key]; rfl

theorem ltBound_le (V : Version) : vk (ltBound V) ≤ vk V := by
  unfold ltBound
  by_cases h : isPre V = true
  · simp [h]
  · rw [if_neg h, vk_mkV_firstDev]
    have : V.isUnstable = false := by
      simp only [isPre, Bool.or_eq_true, not_or, Bool.not_eq_true] at h
      simp [isUnstable, isPrerelease, isDevrelease, h.1, h.2]
    exact le_of_lt (firstDev_lt this)

theorem relKey_ltBound (V : Version) : relKey (ltBound V) = relKey V := by
  unfold ltBound; split <;> rfl

theorem wf_ltBound {V : Version} (h : V.wf = true) (hl : V.loc = none) : (ltBound V).wf = true := by
  unfold ltBound; split
  · exact h
  · obtain ⟨h0, h1, h2, _⟩ := wf_parts h
    exact wf_mkV_nolocal h0 h1 h2 (by simp [dev0, optAll])

/-! ### the reference clauses on regular probes -/

theorem spec_ge {V v : Version} (hV : V.wf = true) (hv : v.wf = true) :
    containsGe V v = true ↔ vk V ≤ vk v := vLe_iff hV hv

theorem spec_le {V v : Version} (hV : V.wf = true) (hv : v.wf = true) (hreg : Reg1 v V) :
    containsLe V v = true ↔ vk v ≤ vk V := by
  unfold containsLe belowAfterLocals
  rw [Bool.or_eq_true, vGe_iff hV hv]
  rcases hreg with he | hne
  · simp [he]
  · have : inLocalFamily V v = false := by
      have : sameRelease V v = false := by
        cases h : sameRelease V v
        · rfl
        · exact absurd ((sameRelease_iff V v).1 h) hne
      simp [inLocalFamily, this]
    simp [this]

theorem spec_gt {V v : Version} (hV : V.wf = true) (hv : v.wf = true) (hreg : Reg1 v V) :
    containsGt V v = true ↔ vk V < vk v := by
  obtain ⟨h0, h1, h2, h3⟩ := wf_parts hV
  have finish : ∀ B : Version, B.wf = true → relKey B = relKey V → vk V < vk B →
      (vLe B v = true ↔ vk V < vk v) := by
    intro B hB hr hlt
    rw [vLe_iff hB hv]
    rcases hreg with he | hne
    · rw [he]; exact ⟨fun h => absurd (lt_of_lt_of_le hlt h) (lt_irrefl _), fun h => absurd h (lt_irrefl _)⟩
    · exact (lt_congr_bounds hr hne).2.2.1
  unfold containsGt
  cases hd : V.dev with
  | some d =>
    simp only
    refine finish _ (wf_mkV_nolocal h0 h1 h2 ?_) rfl (devBump_gt hd)
    have := wf_dev hV hd
    simp [optAll, this]
  | none =>
    cases hp : V.post with
    | some p =>
      simp only
      refine finish _ (wf_mkV_nolocal h0 h1 ?_ (by simp [dev0, optAll])) rfl (postBump_gt hp)
      have := wf_post hV hp
      simp [optAll, this]
    | none =>
      simp only [aboveAfterPosts, Bool.and_eq_true, Bool.not_eq_true', ← Bool.not_eq_true, vGe_iff hV hv]
      rcases hreg with he | hne
      · simp [he]
      · have : inPostFamily V v = false := by
          have : sameRelease V v = false := by
            cases h : sameRelease V v
            · rfl
            · exact absurd ((sameRelease_iff V v).1 h) hne
          simp [inPostFamily, this]
        simp [this]

theorem spec_lt {V v : Version} (hV : V.wf = true) (hl : V.loc = none) (hv : v.wf = true) (hreg : Reg1 v V) :
    containsLt V v = true ↔ vk v < vk V := by
  have hB := wf_ltBound hV hl
  have hle := ltBound_le V
  have hr := relKey_ltBound V
  unfold containsLt
  have core : vGt (ltBound V) v = true ↔ vk v < vk V := by
    rw [vGt_iff hB hv]
    rcases hreg with he | hne
    · rw [he]; exact ⟨fun h => absurd (lt_of_lt_of_le h hle) (lt_irrefl _), fun h => absurd h (lt_irrefl _)⟩
    · exact (lt_congr_bounds hr hne).2.1
  by_cases hmin : vLe (ltBound V) minVersion = true
  · simp only [hmin, if_true]
    have h1 := (vLe_iff hB wf_minVersion).1 hmin
    constructor
    · intro h; cases h
    · intro h
      have h2 := (vGt_iff hB hv).1 (core.2 h)
      exact absurd (lt_of_lt_of_le (lt_of_lt_of_le h2 h1) (minVersion_le v hv)) (lt_irrefl _)
  · simp only [hmin]; exact core

theorem spec_eq {V v : Version} (hV : V.wf = true) (hv : v.wf = true) (hreg : Reg1 v V) :
    containsEq V v = true ↔ vk v = vk V := by
  unfold containsEq belowAfterLocals
  rcases hreg with he | hne
  · have h1 : vLe V v = true := (vLe_iff hV hv).2 (by rw [he])
    have h2 : vGe V v = true := (vGe_iff hV hv).2 (by rw [he])
    simp [h1, h2, he]
  · have hfam : inLocalFamily V v = false := by
      have : sameRelease V v = false := by
        cases h : sameRelease V v
        · rfl
        · exact absurd ((sameRelease_iff V v).1 h) hne
      simp [inLocalFamily, this]
    have hne' : vk v ≠ vk V := vk_ne_of_relKey_ne hne
    constructor
    · intro h
      simp only [Bool.and_eq_true, hfam, Bool.or_false] at h
      have h1 := (vLe_iff hV hv).1 h.1
      have h2 : vGe V v = true := by
        cases hl : V.loc.isSome <;> simp [hl] at h <;> exact h.2
      exact absurd (le_antisymm ((vGe_iff hV hv).1 h2) h1) hne'
    · intro h; exact absurd h hne'

theorem spec_ne {V v : Version} (hV : V.wf = true) (hv : v.wf = true) (hreg : Reg1 v V) :
    containsNe V v = true ↔ vk v ≠ vk V := by
  unfold containsNe aboveAfterLocals
  rcases hreg with he | hne
  · have h1 : vGt V v = false := by
      rw [← Bool.not_eq_true, vGt_iff hV hv, he]; exact lt_irrefl _
    have h2 : vLt V v = false := by
      rw [← Bool.not_eq_true, vLt_iff hV hv, he]; exact lt_irrefl _
    have h3 : vGe V v = true := (vGe_iff hV hv).2 (by rw [he])
    simp [h1, h2, h3, he]
  · have hfam : inLocalFamily V v = false := by
      have : sameRelease V v = false := by
        cases h : sameRelease V v
        · rfl
        · exact absurd ((sameRelease_iff V v).1 h) hne
      simp [inLocalFamily, this]
    have hne' : vk v ≠ vk V := vk_ne_of_relKey_ne hne
    simp only [hne', ne_eq, not_false_eq_true, iff_true, Bool.or_eq_true, hfam, Bool.not_false, Bool.and_true]
    rcases lt_or_gt_of_ne hne' with h | h
    · exact Or.inl ((vGt_iff hV hv).2 h)
    · right
      cases hl : V.loc.isSome
      · simp only [Bool.false_eq_true, if_false, Bool.not_eq_true', ← Bool.not_eq_true, vGe_iff hV hv]
        exact not_le.2 h
      · simp only [if_true]; exact (vLt_iff hV hv).2 h

/-! ### the poetry side: what `parse_single_constraint` builds for a PEP 440 clause -/

/-- the constraint `parse_single_constraint` builds for the clause `op V` (token level: the operator and the
version have been recognised) -/
def clauseVC : SOp → Version → PyM VC
  | .eq, V => .ok (.single (.ver V))
  | .ne, V => .ok (.union [.rng ⟨none, some V, false, false⟩, .rng ⟨some V, none, false, false⟩])
  | .lt, V => .ok (.single (.rng ⟨none, some V, false, false⟩))
  | .le, V => .ok (.single (.rng ⟨none, some V, false, true⟩))
  | .gt, V => .ok (.single (.rng ⟨some V, none, false, false⟩))
  | .ge, V => .ok (.single (.rng ⟨some V, none, true, false⟩))
  | .compat, V => .ok (.single (.rng ⟨some V, some (compatHigh V), true, false⟩))
  | .eqStar, V => VParser.makeXConstraintRange V false false
  | .neStar, V => VParser.makeXConstraintRange V true false

theorem lower_allows (V v : Version) (imin : Bool) (hV : V.wf = true) (hv : v.wf = true) (hreg : Reg1 v V) :
    (⟨some V, none, imin, false⟩ : VRange).allows v = true ↔ (if imin then vk V ≤ vk v else vk V < vk v) := by
  rw [VRange.allows_iff_raw _ v (by intro e he; simp [VRange.bounds] at he; subst he; exact hV) hv
    (by intro e he; simp [VRange.bounds] at he; subst he
        rcases hreg with h | h
        · exact Or.inl ((vk_eq_iff _ _).1 h)
        · exact Or.inr h)]
  simp [VRange.raw, VRange.denLo, VRange.rawHi]

theorem upper_allows (V v : Version) (imax : Bool) (hV : V.wf = true) (hv : v.wf = true) (hreg : Reg1 v V) :
    (⟨none, some V, false, imax⟩ : VRange).allows v = true ↔ (if imax then vk v ≤ vk V else vk v < vk V) := by
  rw [VRange.allows_iff_raw _ v (by intro e he; simp [VRange.bounds] at he; subst he; exact hV) hv
    (by intro e he; simp [VRange.bounds] at he; subst he
        rcases hreg with h | h
        · exact Or.inl ((vk_eq_iff _ _).1 h)
        · exact Or.inr h)]
  simp [VRange.raw, VRange.denLo, VRange.rawHi]

/-- `!=V` is stored as `<V || >V`; its complement is computed back to the single version `V` -/
theorem inverted_ne (V : Version) :
    VC.inverted [.rng ⟨none, some V, false, false⟩, .rng ⟨some V, none, false, false⟩] = .ok (.single (.ver V)) := by
  have h1 : Version.lt V V = false := by rw [lt_false_iff]
  have h2 : Version.gt V V = false := by rw [gt_false_iff]
  have h3 : Version.eqv V V = true := (eqv_iff V V).2 rfl
  have hA : ∃ M', (⟨none, some V, false, false⟩ : VRange).allowedMax = some M' := by
    have := VRange.allowedMax_isSome (r := ⟨none, some V, false, false⟩)
    cases h : (⟨none, some V, false, false⟩ : VRange).allowedMax with
    | none => simp [h] at this
    | some M' => exact ⟨M', rfl⟩
  obtain ⟨M', hM'⟩ := hA
  simp [VC.inverted, VC.rngDiffUnionLoop, RC.view, RC.min, RC.max, RC.imin, RC.imax,
    VRange.isStrictlyLower, VRange.isStrictlyHigher, VRange.any, RC.difference, RC.rngDifferenceRng,
    RC.allowsAny, VRange.allowsLower, VRange.allowsHigher, VRange.allowedMin, optVerEq, VC.rngDiffFinish,
    bind, Except.bind, pure, Except.pure, h1, h2, h3, hM', VRange.allowedMax_none]

/-- membership in `!=V` on regular probes -/
theorem ne_allows (V v : Version) (hV : V.wf = true) (hv : v.wf = true) (hreg : Reg1 v V) :
    ∃ b, VC.allows (.union [.rng ⟨none, some V, false, false⟩, .rng ⟨some V, none, false, false⟩]) v = .ok b ∧
      (b = true ↔ vk v ≠ vk V) := by
  simp only [VC.allows, VC.excludedSingleVersion, inverted_ne, bind, Except.bind, pure, Except.pure]
  by_cases hl : V.isLocal = true
  · simp only [hl, if_true]
    refine ⟨_, rfl, ?_⟩
    rw [Bool.not_eq_true', eqv_false_iff]
    exact ⟨fun h e => h e.symm, fun h e => h e.symm⟩
  · simp only [hl, Bool.false_eq_true, if_false]
    refine ⟨_, rfl, ?_⟩
    simp only [List.any_cons, List.any_nil, Bool.or_false, Bool.or_eq_true, RC.allows]
    rw [upper_allows V v false hV hv hreg, lower_allows V v false hV hv hreg]
    simp only [Bool.false_eq_true, if_false]
    exact ⟨fun h => by rcases h with h | h; exact ne_of_lt h; exact fun e => (ne_of_lt h) e.symm,
      fun h => lt_or_gt_of_ne h⟩

/-! ### bounds of the form `F.dev0` with `F` final: no regularity needed -/

theorem wf_firstDev {F : Version} (h : F.wf = true) : F.firstDevrelease.wf = true := by
  obtain ⟨h0, h1, h2, _⟩ := wf_parts h
  simp only [wf, firstDevrelease, mk', Bool.and_eq_true, Bool.not_eq_true', List.isEmpty_eq_false_iff, optAll]
  exact ⟨⟨⟨⟨h0, h1⟩, h2⟩, by decide⟩, trivial⟩

theorem final_parts {F : Version} (h : F.isFinal = true) :
    F.pre = none ∧ F.post = none ∧ F.dev = none ∧ F.loc = none := by
  simp only [isFinal, Bool.and_eq_true, Option.isNone_iff_eq_none] at h
  exact ⟨h.1.1.1, h.1.1.2, h.1.2, h.2⟩

/-- an inclusive lower bound `F.dev0` (F final) admits exactly the versions `≥ F.dev0` — all of F's release -/
theorem allowsLo_firstDev (r : VRange) (F : Version) (hF : F.isFinal = true) (hFwf : F.wf = true)
    (hm : r.min = some F.firstDevrelease) (hi : r.imin = true) (v : Version) (hv : v.wf = true) :
    r.allowsLo v = true ↔ vk F.firstDevrelease ≤ vk v := by
  by_cases hr : relKey v = relKey F
  · have hle : vk F.firstDevrelease ≤ vk v := firstDev_final_le hF hv hr
    simp only [hle, iff_true]
    unfold VRange.allowsLo
    rw [hm]
    simp only [hi, Bool.not_true, Bool.false_and, Bool.false_eq_true, if_false, isLocal_firstDev, Bool.not_false,
      Bool.true_and]
    generalize ho : (if v.isLocal = true then v.withoutLocal else v) = o
    have howf : o.wf = true := by rw [← ho]; split; exact wf_withoutLocal hv; exact hv
    have hor : relKey o = relKey F := by rw [← ho]; split <;> simp [hr]
    have := firstDev_final_le hF howf hor
    have h1 : Version.lt o F.firstDevrelease = false := (lt_false_iff _ _).2 this
    simp [h1]
  · have := VRange.allowsLo_iff_denLo r v hv (fun m hm' => by
      rw [hm] at hm'; cases hm'; exact ⟨wf_firstDev hFwf, Or.inr (by simpa using hr)⟩)
    rw [this]; simp [VRange.denLo, hm, hi]

/-- an exclusive upper bound `N.dev0` (N final) admits exactly the versions `< N.dev0` — none of N's release -/
theorem allowsHi_firstDev (r : VRange) (N : Version) (hN : N.isFinal = true) (hNwf : N.wf = true)
    (hM : r.max = some N.firstDevrelease) (hi : r.imax = false) (v : Version) (hv : v.wf = true) :
    r.allowsHi v = true ↔ vk v < vk N.firstDevrelease := by
  have hA : r.allowedMax = some N.firstDevrelease := by
    rcases VRange.allowedMax_cases hM with h | ⟨_, _, h⟩
    · exact h
    · simp [isUnstable, isDevrelease, firstDevrelease, mk'] at h
  by_cases hr : relKey v = relKey N
  · have hle : vk N.firstDevrelease ≤ vk v := firstDev_final_le hN hv hr
    have : ¬ vk v < vk N.firstDevrelease := not_lt.2 hle
    simp only [this, iff_false, Bool.not_eq_true]
    unfold VRange.allowsHi
    rw [hM, hA]
    simp only [isLocal_firstDev, Bool.not_false, Bool.true_and, hi]
    generalize ho : (if v.isLocal = true then v.withoutLocal else v) = o
    have howf : o.wf = true := by rw [← ho]; split; exact wf_withoutLocal hv; exact hv
    have hor : relKey o = relKey N := by rw [← ho]; split <;> simp [hr]
    have hle' := firstDev_final_le hN howf hor
    rcases lt_or_eq_of_le hle' with h | h
    · simp [(gt_iff _ _).2 h]
    · have e1 : Version.gt o N.firstDevrelease = false := by rw [gt_false_iff, h]
      have e2 : Version.eqv o N.firstDevrelease = true := (eqv_iff _ _).2 h.symm
      simp [e1, e2]
  · have := VRange.allowsHi_iff_denHi r v hv (fun M hM' => by
      rw [hM] at hM'; cases hM'; exact ⟨wf_firstDev hNwf, Or.inr (by simpa using hr)⟩)
    rw [this]; simp [VRange.denHi, hA, hi]

/-! ### `==V.*` -/

theorem bumpLast_eq_incrLast : ∀ r : List Nat, bumpLast r = incrLast r
  | [] => rfl
  | [x] => rfl
  | x :: y :: rest => by
    have := bumpLast_eq_incrLast (y :: rest)
    simp only [bumpLast, incrLast] at this ⊢
    rw [this]

theorem relNext_eq_incrLast : ∀ r : List Nat, r ≠ [] → relNext r = incrLast r
  | [], h => absurd rfl h
  | [a], _ => by simp [relNext, relNextMajor, relMajor, zeros, incrLast]
  | [a, b], _ => by simp [relNext, relNextMinor, zeros, incrLast]
  | [a, b, c], _ => by simp [relNext, relNextPatch, zeros, incrLast]
  | a :: b :: c :: d :: rest, _ => by simp [relNext]

/-- for a final `V`, `==V.*` is the range `[V.dev0, N.dev0)` with `N` the final release with V's last release
component incremented -/
theorem eqStar_range (V : Version) (hV : V.isFinal = true) :
    VParser.makeXConstraintRange V false false =
      .ok (.single (.rng ⟨some V.firstDevrelease, some V.nextStable.firstDevrelease, true, false⟩)) ∧
    V.nextStable.isFinal = true := by
  obtain ⟨h1, h2, h3, h4⟩ := final_parts hV
  have hs : V.isStable = true := by simp [isStable, isUnstable, isPrerelease, isDevrelease, h1, h3]
  constructor
  · simp [VParser.makeXConstraintRange, isPostrelease, h2, h3, hs, nextStable, isDevrelease, mk']
  · simp [nextStable, hs, h4, isFinal, mk']

theorem eqStar_allows (V v : Version) (hV : V.isFinal = true) (hVwf : V.wf = true) (hv : v.wf = true) :
    (⟨some V.firstDevrelease, some V.nextStable.firstDevrelease, true, false⟩ : VRange).allows v =
      containsEqStar V v := by
  have hN := (eqStar_range V hV).2
  obtain ⟨h1, h2, h3, h4⟩ := final_parts hV
  have hs : V.isStable = true := by simp [isStable, isUnstable, isPrerelease, isDevrelease, h1, h3]
  have hne := wf_release_ne hVwf
  have hNrel : V.nextStable.release = incrLast V.release := by
    simp [nextStable, hs, mk', relNext_eq_incrLast _ hne]
  have hNwf : V.nextStable.wf = true := by
    have : V.nextStable = mk' V.epoch (incrLast V.release) none none none none := by
      simp [nextStable, hs, h4, relNext_eq_incrLast _ hne]
    rw [this]
    exact wf_final _ _ (by
      cases hr : V.release with
      | nil => exact absurd hr hne
      | cons a as => cases as <;> simp [incrLast])
  apply bool_eq_of_iff
  unfold VRange.allows
  rw [Bool.and_eq_true, allowsLo_firstDev _ V hV hVwf rfl rfl v hv,
    allowsHi_firstDev _ V.nextStable hN hNwf rfl rfl v hv]
  unfold containsEqStar
  have k1 : vk (baseDev0 V) = vk V.firstDevrelease := by
    rw [vk_eq_iff_key]; simp [baseDev0, mkV, firstDevrelease, mk', key, preK, postK, devK, h1, h2, dev0]
  have k2 : vk (nextPrefixDev0 V.epoch V.release) = vk V.nextStable.firstDevrelease := by
    rw [vk_eq_iff_key]
    simp [nextPrefixDev0, mkV, firstDevrelease, mk', key, preK, postK, devK, dev0, nextStable, hs,
      bumpLast_eq_incrLast, relNext_eq_incrLast _ hne]
  have w1 : (baseDev0 V).wf = true :=
    wf_mkV_nolocal hne (by simp [optAll]) (by simp [optAll]) (by simp [dev0, optAll])
  have w2 : (nextPrefixDev0 V.epoch V.release).wf = true :=
    wf_mkV_nolocal (by
      rw [bumpLast_eq_incrLast]
      cases hr : V.release with
      | nil => exact absurd hr hne
      | cons a as => cases as <;> simp [incrLast]) (by simp [optAll]) (by simp [optAll]) (by simp [dev0, optAll])
  rw [Bool.and_eq_true, vLe_iff w1 hv, vGt_iff w2 hv, k1, k2]

/-! ### `~=V` -/

/-- facts about the upper end of `~=V` shared by the lemmas below -/
theorem compat_facts (V : Version) (hVwf : V.wf = true) (hp : 2 ≤ V.precision) :
    (compatHigh V).isFinal = true ∧ vk V < vk (compatHigh V) ∧ (compatHigh V).wf = true ∧
    relKey V ≠ relKey (compatHigh V) ∧
    vk (nextPrefixDev0 V.epoch V.release.dropLast) = vk (compatHigh V).firstDevrelease ∧
    (nextPrefixDev0 V.epoch V.release.dropLast).wf = true ∧ ¬ V.release.length < 2 := by
  obtain ⟨h1, h2, h3⟩ := compatHigh_release V hp
  have hfin : (compatHigh V).isFinal = true := by rw [h3]; rfl
  have hne := wf_release_ne hVwf
  have hlt' : compare (stripZeros V.release) (stripZeros (compatHigh V).release) = .lt := by
    rw [h1, stripZeros_append_zero]; exact incrLast_dropLast_gt _ hp
  have hlt : vk V < vk (compatHigh V) := (vk_lt_iff _ _).2 (cmp_lt_of_rel_lt h2.symm hlt')
  have hHwf : (compatHigh V).wf = true := by rw [h3]; exact wf_final _ _ (by rw [h1]; simp)
  have hdl : V.release.dropLast ≠ [] := by
    unfold precision at hp
    cases hr : V.release with
    | nil => rw [hr] at hp; simp at hp
    | cons a as =>
      cases as with
      | nil => rw [hr] at hp; simp at hp
      | cons b bs => simp
  have k2 : vk (nextPrefixDev0 V.epoch V.release.dropLast) = vk (compatHigh V).firstDevrelease := by
    rw [vk_eq_iff_key]
    obtain ⟨f1, f2, _, _⟩ := final_parts hfin
    simp [nextPrefixDev0, mkV, firstDevrelease, mk', key, preK, postK, devK, dev0, f1, f2, h1, h2,
      bumpLast_eq_incrLast, stripZeros_append_zero]
  have w2 : (nextPrefixDev0 V.epoch V.release.dropLast).wf = true :=
    wf_mkV_nolocal (by
      rw [bumpLast_eq_incrLast]
      cases hr : V.release.dropLast with
      | nil => exact absurd hr hdl
      | cons a as => cases as <;> simp [incrLast]) (by simp [optAll]) (by simp [optAll]) (by simp [dev0, optAll])
  exact ⟨hfin, hlt, hHwf, relKey_ne_of_rel_lt hlt', k2, w2, by unfold precision at hp; omega⟩

theorem compat_allows (V v : Version) (hVwf : V.wf = true) (hp : 2 ≤ V.precision) (hv : v.wf = true)
    (hreg : Reg1 v V) :
    (⟨some V, some (compatHigh V), true, false⟩ : VRange).allows v = containsCompat V v := by
  obtain ⟨h1, h2, h3⟩ := compatHigh_release V hp
  have hfin : (compatHigh V).isFinal = true := by rw [h3]; rfl
  have hne := wf_release_ne hVwf
  have hlt' : compare (stripZeros V.release) (stripZeros (compatHigh V).release) = .lt := by
    rw [h1, stripZeros_append_zero]; exact incrLast_dropLast_gt _ hp
  have hlt : vk V < vk (compatHigh V) := (vk_lt_iff _ _).2 (cmp_lt_of_rel_lt h2.symm hlt')
  have hHwf : (compatHigh V).wf = true := by rw [h3]; exact wf_final _ _ (by rw [h1]; simp)
  -- the reference's upper bound has the key of `H.dev0`
  have hdl : V.release.dropLast ≠ [] := by
    unfold precision at hp
    cases hr : V.release with
    | nil => rw [hr] at hp; simp at hp
    | cons a as =>
      cases as with
      | nil => rw [hr] at hp; simp at hp
      | cons b bs => simp
  have k2 : vk (nextPrefixDev0 V.epoch V.release.dropLast) = vk (compatHigh V).firstDevrelease := by
    rw [vk_eq_iff_key]
    obtain ⟨f1, f2, _, _⟩ := final_parts hfin
    simp [nextPrefixDev0, mkV, firstDevrelease, mk', key, preK, postK, devK, dev0, f1, f2, h1, h2,
      bumpLast_eq_incrLast, stripZeros_append_zero]
  have w2 : (nextPrefixDev0 V.epoch V.release.dropLast).wf = true :=
    wf_mkV_nolocal (by
      rw [bumpLast_eq_incrLast]
      cases hr : V.release.dropLast with
      | nil => exact absurd hr hdl
      | cons a as => cases as <;> simp [incrLast]) (by simp [optAll]) (by simp [optAll]) (by simp [dev0, optAll])
  have hlen : ¬ V.release.length < 2 := by unfold precision at hp; omega
  unfold containsCompat
  simp only [hlen, if_false]
  apply bool_eq_of_iff
  rw [Bool.and_eq_true, vLe_iff hVwf hv, vGt_iff w2 hv, k2]
  by_cases hr : relKey v = relKey (compatHigh V)
  · have hrej := VRange.halfOpen_rejects_upper_release (V := V) hfin (ne_of_lt hlt) hv hr
    have : (⟨some V, some (compatHigh V), true, false⟩ : VRange).allows v = false := hrej
    rw [this]
    have hmin := firstDev_final_le hfin hv hr
    constructor
    · intro h; cases h
    · intro h; exact absurd (lt_of_lt_of_le h.2 hmin) (lt_irrefl _)
  · unfold VRange.allows
    rw [Bool.and_eq_true,
      VRange.allowsLo_iff_denLo _ v hv (fun m hm => by simp at hm; subst hm; exact ⟨hVwf, hreg⟩),
      VRange.allowsHi_iff_denHi _ v hv (fun M hM => by simp at hM; subst hM; exact ⟨hHwf, Or.inr hr⟩)]
    have hA := VRange.halfOpen_allowedMax (V := V) hfin (ne_of_lt hlt)
    simp only [VRange.halfOpen] at hA
    simp [VRange.denLo, VRange.denHi, hA]

/-- `[V, H)` with `H` a final release above `V`: membership for every probe that is regular for `V` (no
condition relative to `H`): at least `V`, and below every version of `H`'s release -/
theorem halfOpen_allows_iff (V H v : Version) (hVwf : V.wf = true) (hHwf : H.wf = true) (hfin : H.isFinal = true)
    (hlt : vk V < vk H) (hv : v.wf = true) (hreg : Reg1 v V) :
    (VRange.halfOpen V H).allows v = true ↔ vk V ≤ vk v ∧ vk v < vk H.firstDevrelease := by
  by_cases hr : relKey v = relKey H
  · have hrej := VRange.halfOpen_rejects_upper_release (V := V) hfin (ne_of_lt hlt) hv hr
    rw [hrej]
    have hmin := firstDev_final_le hfin hv hr
    constructor
    · intro h; cases h
    · intro h; exact absurd (lt_of_lt_of_le h.2 hmin) (lt_irrefl _)
  · unfold VRange.allows
    rw [Bool.and_eq_true,
      VRange.allowsLo_iff_denLo _ v hv (fun m hm => by simp [VRange.halfOpen] at hm; subst hm; exact ⟨hVwf, hreg⟩),
      VRange.allowsHi_iff_denHi _ v hv (fun M hM => by simp [VRange.halfOpen] at hM; subst hM; exact ⟨hHwf, Or.inr hr⟩)]
    have hA := VRange.halfOpen_allowedMax (V := V) hfin (ne_of_lt hlt)
    simp only [VRange.halfOpen] at hA
    simp [VRange.denLo, VRange.denHi, hA, VRange.halfOpen]

/-- the one-member constraints of the ordered comparisons and `==` -/
def memberOf : SOp → Version → Option RC
  | .eq, V => some (.ver V)
  | .lt, V => some (.rng ⟨none, some V, false, false⟩)
  | .le, V => some (.rng ⟨none, some V, false, true⟩)
  | .gt, V => some (.rng ⟨some V, none, false, false⟩)
  | .ge, V => some (.rng ⟨some V, none, true, false⟩)
  | _, _ => none

theorem memberOf_spec (op : SOp) (V : Version) (m : RC) (h : memberOf op V = some m) :
    clauseVC op V = .ok (.single m) ∧ (∀ e ∈ m.bounds, e = V) ∧ (V.wf = true → m.WF) := by
  cases op <;> simp [memberOf] at h <;> subst h <;>
    refine ⟨rfl, by intro e he; simp [RC.bounds, RC.view, VRange.bounds, RC.min, RC.max] at he; simp [he], ?_⟩
  · intro h; exact h
  all_goals
    intro h
    refine ⟨by intro e he; simp [VRange.bounds] at he; subst he; exact h, ?_⟩
    intro m M hm hM; simp at hm hM


/-! ### `!=V.*` -/

theorem incrLast_gt : ∀ r : List Nat, r ≠ [] → compare (stripZeros r) (stripZeros (incrLast r)) = .lt
  | [], h => absurd rfl h
  | [x], _ => by
    show compare (stripZeros (x :: [])) (stripZeros ((x + 1) :: [])) = .lt
    exact sz_cmp_lt_head (by omega) _ _
  | x :: y :: rest, _ => by
    have ih := incrLast_gt (y :: rest) (by simp)
    show compare (stripZeros (x :: y :: rest)) (stripZeros (x :: incrLast (y :: rest))) = .lt
    rw [sz_cmp_cons]; exact ih

/-- the two ends of the wildcard range of a final `V` -/
theorem wildcard_ends_lt (V : Version) (hV : V.isFinal = true) (hVwf : V.wf = true) :
    vk V.firstDevrelease < vk V.nextStable.firstDevrelease := by
  obtain ⟨h1, h2, h3, h4⟩ := final_parts hV
  have hs : V.isStable = true := by simp [isStable, isUnstable, isPrerelease, isDevrelease, h1, h3]
  have hne := wf_release_ne hVwf
  rw [vk_lt_iff]
  apply cmp_lt_of_rel_lt
  · simp [firstDevrelease, nextStable, mk']
  · have : V.nextStable.firstDevrelease.release = incrLast V.release := by
      simp [firstDevrelease, nextStable, hs, mk', relNext_eq_incrLast _ hne]
    rw [this]
    exact incrLast_gt _ hne

/-- for a final `V`, `!=V.*` is the union `<V.dev0 || >=N.dev0` -/
theorem neStar_range (V : Version) (hV : V.isFinal = true) (hVwf : V.wf = true) :
    VParser.makeXConstraintRange V true false =
      .ok (.union [.rng ⟨none, some V.firstDevrelease, false, false⟩,
                   .rng ⟨some V.nextStable.firstDevrelease, none, true, false⟩]) := by
  obtain ⟨h1, h2, h3, h4⟩ := final_parts hV
  have hs : V.isStable = true := by simp [isStable, isUnstable, isPrerelease, isDevrelease, h1, h3]
  have hlt := wildcard_ends_lt V hV hVwf
  generalize hD : V.firstDevrelease = D at *
  generalize hE : V.nextStable.firstDevrelease = E at *
  have hDu : D.isUnstable = true := by rw [← hD]; simp [isUnstable, isDevrelease, firstDevrelease, mk']
  have hEu : E.isUnstable = true := by rw [← hE]; simp [isUnstable, isDevrelease, firstDevrelease, mk']
  have l1 : Version.lt D E = true := (lt_iff _ _).2 hlt
  have l2 : Version.gt D E = false := (gt_false_iff _ _).2 (le_of_lt hlt)
  have l3 : Version.eqv D E = false := (eqv_false_iff _ _).2 (ne_of_lt hlt)
  have l4 : Version.gt E D = true := (gt_iff _ _).2 hlt
  have l5 : Version.lt E D = false := (lt_false_iff _ _).2 (le_of_lt hlt)
  have hx : VParser.makeXConstraintRange V true false =
      VC.difference VC.any (.single (.rng ⟨some D, some E, true, false⟩)) := by
    rw [← hD, ← hE]
    simp [VParser.makeXConstraintRange, isPostrelease, h2, h3, hs, nextStable, isDevrelease, mk']
  rw [hx]
  simp [VC.difference, VC.any, RC.difference, RC.rngDifferenceRng, RC.allowsAny, VRange.isStrictlyLower,
    VRange.isStrictlyHigher, VRange.any, VRange.allowedMax, VRange.allowedMin, VRange.allowsLower,
    VRange.allowsHigher, optVerEq, hDu, hEu, l1, l2, l3, l4, l5, bind, Except.bind, pure, Except.pure,
    unionOfFlat, RC.isAny, VRange.isAny, sortRCs, insertSorted, RC.lt, VRange.cmp, mergeLoop, RC.view,
    VRange.isAdjacentTo, RC.min, RC.max, RC.imin, RC.imax]

/-- the complement of `<D || >=E` (D < E) is computed back to the range `[D, E)` -/
theorem inverted_two_sided (D E : Version) (hlt : vk D < vk E) :
    VC.inverted [.rng ⟨none, some D, false, false⟩, .rng ⟨some E, none, true, false⟩] =
      .ok (.single (.rng ⟨some D, some E, true, false⟩)) := by
  have l1 : Version.lt D E = true := (lt_iff _ _).2 hlt
  have l2 : Version.gt D E = false := (gt_false_iff _ _).2 (le_of_lt hlt)
  have l3 : Version.eqv D E = false := (eqv_false_iff _ _).2 (ne_of_lt hlt)
  have hA : ∃ M', (⟨none, some D, false, false⟩ : VRange).allowedMax = some M' := by
    have := VRange.allowedMax_isSome (r := ⟨none, some D, false, false⟩)
    cases h : (⟨none, some D, false, false⟩ : VRange).allowedMax with
    | none => simp [h] at this
    | some M' => exact ⟨M', rfl⟩
  obtain ⟨M', hM'⟩ := hA
  simp [VC.inverted, VC.rngDiffUnionLoop, RC.view, RC.min, RC.max, RC.imin, RC.imax,
    VRange.isStrictlyLower, VRange.isStrictlyHigher, VRange.any, RC.difference, RC.rngDifferenceRng,
    RC.allowsAny, VRange.allowsLower, VRange.allowsHigher, VRange.allowedMin, optVerEq, VC.rngDiffFinish,
    bind, Except.bind, pure, Except.pure, l1, l2, l3, hM', VRange.allowedMax_none]

/-- **`!=V.*` for a final `V` on every candidate**: the real `VersionUnion.allows` of what the parser builds
equals the reference -/
theorem neStar_allows (V v : Version) (hV : V.isFinal = true) (hVwf : V.wf = true) (hv : v.wf = true) :
    VC.allows (.union [.rng ⟨none, some V.firstDevrelease, false, false⟩,
                       .rng ⟨some V.nextStable.firstDevrelease, none, true, false⟩]) v =
      .ok (containsNeStar V v) := by
  have hlt := wildcard_ends_lt V hV hVwf
  have hN := (eqStar_range V hV).2
  obtain ⟨h1, h2, h3, h4⟩ := final_parts hV
  have hs : V.isStable = true := by simp [isStable, isUnstable, isPrerelease, isDevrelease, h1, h3]
  have hne := wf_release_ne hVwf
  have hNwf : V.nextStable.wf = true := by
    have : V.nextStable = mk' V.epoch (incrLast V.release) none none none none := by
      simp [nextStable, hs, h4, relNext_eq_incrLast _ hne]
    rw [this]
    exact wf_final _ _ (by
      cases hr : V.release with
      | nil => exact absurd hr hne
      | cons a as => cases as <;> simp [incrLast])
  simp only [VC.allows, VC.excludedSingleVersion, inverted_two_sided _ _ hlt, bind, Except.bind, pure, Except.pure]
  congr 1
  -- the reference: `!=V.*` is the negation of `==V.*`
  have hspec : containsNeStar V v = !containsEqStar V v := by
    simp only [containsNeStar, containsEqStar, vGt, vLe]
    cases cmpRef (baseDev0 V) v <;> cases cmpRef (nextPrefixDev0 V.epoch V.release) v <;> rfl
  rw [hspec, ← eqStar_allows V v hV hVwf hv]
  -- the model: each half is the negation of one half of the wildcard range
  have e1 := allowsHi_firstDev ⟨none, some V.firstDevrelease, false, false⟩ V hV hVwf rfl rfl v hv
  have e2 := allowsLo_firstDev ⟨some V.nextStable.firstDevrelease, none, true, false⟩ V.nextStable hN hNwf rfl rfl v hv
  have e3 := allowsLo_firstDev ⟨some V.firstDevrelease, some V.nextStable.firstDevrelease, true, false⟩ V hV hVwf rfl rfl v hv
  have e4 := allowsHi_firstDev ⟨some V.firstDevrelease, some V.nextStable.firstDevrelease, true, false⟩
    V.nextStable hN hNwf rfl rfl v hv
  apply bool_eq_of_iff
  simp only [List.any_cons, List.any_nil, Bool.or_false, Bool.or_eq_true, RC.allows, VRange.allows,
    Bool.and_eq_true, Bool.not_eq_true', Bool.and_eq_false_iff]
  have t1 : (⟨none, some V.firstDevrelease, false, false⟩ : VRange).allowsLo v = true := rfl
  have t2 : (⟨some V.nextStable.firstDevrelease, none, true, false⟩ : VRange).allowsHi v = true := rfl
  rw [t1, t2, e1, e2]
  simp only [true_and, and_true, ← Bool.not_eq_true, e3, e4, not_le, not_lt]

end Poetry
