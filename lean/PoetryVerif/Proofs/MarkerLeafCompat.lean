/-
`~=` on version variables (helper lemmas for C06): the list fact relating the reference's prefix match to the
order of zero-stripped releases, `~=` at token level for final releases of any length, and at text level for
`python_version` (two or more components) and `python_full_version` (three or more).
-/
import PoetryVerif.Proofs.MarkerLeafVersionText

set_option linter.unusedSimpArgs false
set_option linter.unusedVariables false
set_option linter.unnecessarySeqFocus false

namespace Poetry.Marker
open Poetry
open Version Std

/-! ### `~=`: the prefix match against the order of zero-stripped releases -/

/-- comparison of two releases up to trailing zeros -/
def sc (a b : List Nat) : Ordering := compare (stripZeros a) (stripZeros b)

theorem sc_cons (x : Nat) (xs ys : List Nat) : sc (x :: xs) (x :: ys) = sc xs ys := sz_cmp_cons x xs ys

theorem sc_lt_head {x y : Nat} (h : x < y) (xs ys : List Nat) : sc (x :: xs) (y :: ys) = .lt :=
  sz_cmp_lt_head h xs ys

theorem sc_swap (a b : List Nat) : sc a b = (sc b a).swap := by
  unfold sc; exact Std.OrientedCmp.eq_swap

theorem sc_gt_head {x y : Nat} (h : y < x) (xs ys : List Nat) : sc (x :: xs) (y :: ys) = .gt := by
  rw [sc_swap, sc_lt_head h]; rfl

theorem sc_nil_zero (a : List Nat) : sc a [] = sc a [0] := by
  unfold sc; simp [stripZeros]

theorem sc_zero_nil (a : List Nat) : sc [] a = sc [0] a := by
  unfold sc; simp [stripZeros]

theorem sc_nil_right_ne_lt (a : List Nat) : sc a [] ≠ .lt := by
  unfold sc
  simp only [stripZeros]
  cases stripZeros a with
  | nil => simp [List.compare_nil_nil]
  | cons x xs => simp [List.compare_cons_nil]

open Spec.Pep508 in
theorem prefixMatch_nil (c : List Nat) : prefixMatch [] c = true := by simp [prefixMatch]

open Spec.Pep508 in
theorem prefixMatch_cons_cons (p : Nat) (pre : List Nat) (c : Nat) (cs : List Nat) :
    prefixMatch (p :: pre) (c :: cs) = (c == p && prefixMatch pre cs) := by
  simp only [prefixMatch, List.length_cons, Nat.add_sub_add_right, List.cons_append, List.take_succ_cons]
  by_cases h : c = p
  · subst h; simp
  · simp [h]

open Spec.Pep508 in
theorem prefixMatch_cons_nil (p : Nat) (pre : List Nat) :
    prefixMatch (p :: pre) [] = prefixMatch (p :: pre) [0] := by
  simp [prefixMatch, List.replicate_succ]

open Spec.Pep508 in
/-- **the list fact behind `~=`**: for a candidate at least the literal `pre ++ [z]`, being below the release
with the last prefix component incremented is the prefix match -/
theorem compat_prefix : ∀ (pre : List Nat), pre ≠ [] → ∀ (z : Nat) (rv : List Nat),
    sc (pre ++ [z]) rv ≠ .gt → (sc rv (incrLast pre) = .lt ↔ prefixMatch pre rv = true)
  | [], h, _, _, _ => absurd rfl h
  | [p], _, z, [], hle => by
    rw [sc_nil_zero] at hle
    rw [sc_zero_nil, prefixMatch_cons_nil]
    exact compat_prefix [p] (by simp) z [0] hle
  | [p], _, z, c :: cs, hle => by
    simp only [incrLast, prefixMatch_cons_cons, prefixMatch_nil, Bool.and_true, beq_iff_eq]
    rcases Nat.lt_trichotomy c p with h | h | h
    · exact absurd (sc_gt_head h _ _) hle
    · subst h; simp [sc_lt_head (Nat.lt_succ_self c)]
    · constructor
      · intro hlt
        rcases Nat.lt_or_ge (p + 1) c with h2 | h2
        · rw [sc_gt_head h2] at hlt; cases hlt
        · have : c = p + 1 := by omega
          subst this
          rw [sc_cons] at hlt
          exact absurd hlt (sc_nil_right_ne_lt cs)
      · intro e; omega
  | p :: q :: pre, _, z, [], hle => by
    rw [sc_nil_zero] at hle
    rw [sc_zero_nil, prefixMatch_cons_nil]
    exact compat_prefix (p :: q :: pre) (by simp) z [0] hle
  | p :: q :: pre, _, z, c :: cs, hle => by
    have e : incrLast (p :: q :: pre) = p :: incrLast (q :: pre) := by simp [incrLast]
    rw [e, prefixMatch_cons_cons]
    rcases Nat.lt_trichotomy c p with h | h | h
    · exact absurd (sc_gt_head h _ _) hle
    · subst h
      rw [List.cons_append, sc_cons] at hle
      rw [sc_cons]
      simpa using compat_prefix (q :: pre) (by simp) z cs hle
    · rw [sc_gt_head h]
      have : (c == p) = false := by simpa using (Nat.ne_of_gt h)
      simp [this]
termination_by pre _ _ rv _ => (pre.length, if rv = [] then 1 else 0)
decreasing_by
  all_goals simp_wf
  · exact Prod.Lex.right _ (by simp)
  · exact Prod.Lex.right _ (by simp)
  · exact Prod.Lex.left _ _ (by simp)

theorem cmpRef_final {a b : Version} (ha : Spec.Pep508.isFinal a = true) (hb : Spec.Pep508.isFinal b = true) :
    Spec.cmpRef a b = sc a.release b.release := by
  obtain ⟨a1, a2, a3, a4, a5⟩ := pep508_final_parts ha
  obtain ⟨b1, b2, b3, b4, b5⟩ := pep508_final_parts hb
  simp [Spec.cmpRef, Spec.refPre, Spec.refPost, Spec.refDev, Spec.refLocal, a1, a2, a3, a4, a5, b1, b2, b3, b4, b5,
    Spec.Ext.cmp, sc, stripZeros_eq_ref]

/-- the reference's exclusive upper bound of `~=V` against a final candidate: decided by the releases -/
theorem cmpRef_nextPrefix {v : Version} (hv : Spec.Pep508.isFinal v = true) (pre : List Nat) :
    Spec.vGt (Spec.nextPrefixDev0 0 pre) v = (sc v.release (incrLast pre) == .lt) := by
  obtain ⟨b1, b2, b3, b4, b5⟩ := pep508_final_parts hv
  have hsw := sc_swap v.release (incrLast pre)
  unfold sc at hsw
  simp only [Spec.vGt, Spec.cmpRef, Spec.nextPrefixDev0, Spec.mkV, Spec.refPre, Spec.refPost, Spec.refDev,
    Spec.refLocal, Spec.dev0, b1, b2, b3, b4, b5, bumpLast_eq_incrLast, sc, ← stripZeros_eq_ref]
  rw [hsw]
  cases compare (stripZeros (incrLast pre)) (stripZeros v.release) <;>
    simp [Spec.Ext.cmp, Ordering.then, Ordering.swap]

open Spec.Pep508 in
/-- **`~=` at token level**: final literal with at least two release components, final candidate -/
theorem compat_token_agree (V v : Version) (hV : Spec.Pep508.isFinal V = true) (hv : Spec.Pep508.isFinal v = true)
    (hVwf : V.wf = true) (hvwf : v.wf = true) (hp : 2 ≤ V.release.length) :
    ∃ c b, clauseVC .compat V = .ok c ∧ c.allows v = .ok b ∧ versionOp "~=" V v = some b := by
  have hreg := reg1_of_final hv hV
  have hep := (pep508_final_parts hV).1
  refine ⟨_, _, rfl, rfl, ?_⟩
  have hlen : ¬ V.release.length < 2 := by omega
  simp only [versionOp, hV, hv, Bool.and_self, Bool.not_true, Bool.false_eq_true, if_false, hlen,
    Option.some.injEq, RC.allows]
  rw [compat_allows V v hVwf hp hvwf hreg]
  unfold Spec.containsCompat
  simp only [hlen, if_false, hep]
  rw [cmpRef_nextPrefix hv, cmpRef_final hv hV]
  have hle : Spec.vLe V v = (sc v.release V.release != .lt) := by
    unfold Spec.vLe
    rw [cmpRef_final hV hv, sc_swap V.release v.release]
    cases sc v.release V.release <;> rfl
  rw [hle]
  -- the list fact
  have hdl : V.release.dropLast ≠ [] := by
    rcases hr : V.release with _ | ⟨a, _ | ⟨b, rest⟩⟩
    · rw [hr] at hp; simp at hp
    · rw [hr] at hp; simp at hp
    · simp
  have hne : V.release ≠ [] := by intro e; rw [e] at hp; simp at hp
  have hsplit : V.release = V.release.dropLast ++ [V.release.getLast hne] := (List.dropLast_concat_getLast hne).symm
  by_cases hge : sc v.release V.release = .lt
  · simp [hge]
  · have hle' : sc (V.release.dropLast ++ [V.release.getLast hne]) v.release ≠ .gt := by
      rw [← hsplit, sc_swap]
      intro e
      cases h : sc v.release V.release <;> simp [h] at e hge
    have key := compat_prefix V.release.dropLast hdl _ v.release hle'
    have h1 : (sc v.release V.release != .lt) = true := by simpa using hge
    rw [h1, Bool.true_and, Bool.true_and]
    apply bool_eq_of_iff
    rw [beq_iff_eq]; exact key.symm

theorem compat_mem : (Spec.SOp.compat, "~=") ∈ verOpTable := by decide

open Spec.Pep508 in
/-- **`python_version ~= "X.Y…"`, text level** (two or more components) -/
theorem agree_pv_compat (E : Env) (x : Nat) (r : List Nat) (hr : 1 ≤ r.length) (x' : Nat) (r' : List Nat)
    (hev : E.get? "python_version" = some (Version.relText (x' :: r'))) :
    ∃ b, itemV E "python_version" "~=" (Version.relText (x :: r)) false = .ok b ∧
      evalItem "python_version" "~=" (Version.relText (x :: r)) false E = some b ∧
      itemCoherent "python_version" "~=" (Version.relText (x :: r)) false = true := by
  obtain ⟨c, b, hc, ha, hs⟩ := compat_token_agree (litV x r) (litV x' r') (litV_final x r)
    (litV_final x' r') (litV_wf x r) (litV_wf x' r') (by simp [litV, relVersion]; omega)
  have hm := mkSingle_pv .compat "~=" compat_mem x r c hc
  refine ⟨b, ?_, ?_, ?_⟩
  · simp only [itemV, itemConstraintString, Bool.false_eq_true, if_false, hm]
    rw [validateLike_ver _ (by decide) c E x' r' hev, ha]
  · rw [evalItem_ver _ (by decide) .compat "~=" compat_mem E x r x' r' hev, hs]
  · simp [itemCoherent, Single.coherent, itemConstraintString, hm]

open Spec.Pep508 in
/-- **`python_full_version ~= "X.Y.Z…"`, text level** (three or more components: no padding) -/
theorem agree_pfv3_compat (E : Env) (x : Nat) (r : List Nat) (hr : 2 ≤ r.length) (x' : Nat) (r' : List Nat)
    (hev : E.get? "python_full_version" = some (Version.relText (x' :: r'))) :
    ∃ b, itemV E "python_full_version" "~=" (Version.relText (x :: r)) false = .ok b ∧
      evalItem "python_full_version" "~=" (Version.relText (x :: r)) false E = some b ∧
      itemCoherent "python_full_version" "~=" (Version.relText (x :: r)) false = true := by
  obtain ⟨c, b, hc, ha, hs⟩ := compat_token_agree (litV x r) (litV x' r') (litV_final x r)
    (litV_final x' r') (litV_wf x r) (litV_wf x' r') (by simp [litV, relVersion]; omega)
  have hm := mkSingle_pfv3 .compat "~=" compat_mem x r hr c hc
  refine ⟨b, ?_, ?_, ?_⟩
  · simp only [itemV, itemConstraintString, Bool.false_eq_true, if_false, hm]
    rw [validateLike_ver _ (by decide) c E x' r' hev, ha]
  · rw [evalItem_ver _ (by decide) .compat "~=" compat_mem E x r x' r' hev, hs]
  · simp [itemCoherent, Single.coherent, itemConstraintString, hm]

end Poetry.Marker
