/-
Inversion of an `extra` atomic union whose members repeat a value (`extra == "a" or extra != "a"`-like constraints
are well-formed unions: only an `ExtraMultiConstraint` mentions every value once).  The inverse is the atomic multi
marker over the flipped atoms, which repeats the value too: it is not a leaf of the merge fragment `XLeaf` (whose
multi constraints mention every value once), but it evaluates like one — evaluation of an atomic multi marker never
uses that the values are different.  Inversion needs no closure under merging, so the statement is made with the
congruence-only De Morgan theorem (`M.invert_sound_congr`) over the fragment widened by those leaves.
-/
import PoetryVerif.Proofs.MarkerAlgSoundInvert
import PoetryVerif.Proofs.MarkerSemCongr

set_option linter.unusedSimpArgs false
set_option linter.unusedVariables false

namespace Poetry.Marker
open Poetry.Generic

/-- an atomic multi marker on `extra` over `==` / `!=` atoms with quotable values, values possibly repeated -/
def XMultiRep (l : Leaf) : Prop :=
  ∃ cs : List Generic.Atom, l = .amulti "extra" (.s (.multi true cs)) ∧
    (∀ a ∈ cs, a.x = true ∧ a.isEqNe = true) ∧ ∀ a ∈ cs, QuotableValue a.value

theorem xMultiRep_eval {E : Env} {ex : List String} (hE : E.extras = some ex) {cs : List Generic.Atom}
    (hwa : ∀ a ∈ cs, a.x = true ∧ a.isEqNe = true) (hW : ∀ a ∈ cs, QuotableValue a.value) :
    (Leaf.amulti "extra" (.s (.multi true cs))).validate E =
      .ok ((GC.s (.multi true cs)).denX (extrasPred ex)) := by
  obtain ⟨hm, _⟩ := expand_eval mkExtraOKW_quotable E ex hE cs hwa hW
  simp only [Leaf.validate, beq_self_eq_true, if_true, expandLeaves, gcMembers, hm, bind, Except.bind]
  rw [allPy_ok _ (fun s => match s.c with | .gen (.s (.atom a)) => a.denX (extrasPred ex) | _ => false)]
  · simp [GC.denX, GC.sem, GS.sem, List.all_map, sOfAtom, Function.comp_def]
  · intro s hs
    simp only [List.mem_map] at hs
    obtain ⟨a, ha, rfl⟩ := hs
    simpa [sOfAtom] using validateLike_extra_atom E ex hE a (hwa a ha).2

/-- the quotable string / `extra` fragment widened by the atomic multi markers with repeated values -/
def InvLeafR (E : Env) (l : Leaf) : Prop := InvLeaf E l ∨ XMultiRep l

/-- every `extra` leaf of the widened fragment evaluates to the denotation of its constraint -/
theorem invLeafR_extra_eval {E : Env} {ex : List String} (hE : E.extras = some ex) {l : Leaf}
    (h : XLeafW QuotableValue l ∨ XMultiRep l) :
    l.name = "extra" ∧ ∃ gc, l.c = .gen gc ∧ leafEval E l = gc.denX (extrasPred ex) := by
  rcases h with h | ⟨cs, rfl, hwa, hW⟩
  · obtain ⟨hn, gc, hc, _, hv⟩ := xLeaf_view mkExtraOKW_quotable hE h.1 h.2
    exact ⟨hn, gc, hc, by simp [leafEval, hv]⟩
  · exact ⟨rfl, _, rfl, by simp [leafEval, xMultiRep_eval hE hwa hW]⟩

theorem leaf_beq_facts {a b : Leaf} (h : Leaf.beq a b = true) : a.name = b.name ∧
    ((∃ sa sb, a = .single sa ∧ b = .single sb) ∨ a.c = b.c) := by
  cases a <;> cases b <;> simp only [Leaf.beq, Bool.and_eq_true, beq_iff_eq, Bool.false_eq_true] at h
  · exact ⟨h.1.1.1, Or.inl ⟨_, _, rfl, rfl⟩⟩
  all_goals first | exact ⟨h.1, Or.inr (by simp [Leaf.c, h.2])⟩ | exact h.elim

theorem leafCongr_invR {E : Env} {ex : List String} (hE : E.extras = some ex) :
    LeafCongr (leafEval E) (InvLeafR E) where
  congr := by
    intro a b ha hb h
    by_cases hab : InvLeaf E a ∧ InvLeaf E b
    · exact (leafSpec_inv hE).congr a b hab.1 hab.2 h
    obtain ⟨hn, hc⟩ := leaf_beq_facts h
    -- one of them is a repeated-value multi: both are `extra` leaves
    have hx : (XLeafW QuotableValue a ∨ XMultiRep a) ∧ (XLeafW QuotableValue b ∨ XMultiRep b) := by
      have name_str : ∀ l, InvStrLeaf E l → l.name ≠ "extra" := by
        intro l hl e
        have := (strLeaf_view hl.1).1
        rw [e] at this; simp at this
      have name_rep : ∀ l, XMultiRep l → l.name = "extra" := by
        rintro l ⟨cs, rfl, _⟩; rfl
      rcases ha with (ha | ha) | ha <;> rcases hb with (hb | hb) | hb
      · exact absurd ⟨Or.inl ha, Or.inl hb⟩ hab
      · exact absurd ⟨Or.inl ha, Or.inr hb⟩ hab
      · exact absurd (hn ▸ name_rep b hb) (name_str a ha)
      · exact absurd ⟨Or.inr ha, Or.inl hb⟩ hab
      · exact absurd ⟨Or.inr ha, Or.inr hb⟩ hab
      · exact ⟨Or.inl ha, Or.inr hb⟩
      · exact absurd (hn ▸ name_rep a ha : b.name = "extra") (name_str b hb)
      · exact ⟨Or.inr ha, Or.inl hb⟩
      · exact ⟨Or.inr ha, Or.inr hb⟩
    obtain ⟨_, ga, hca, eva⟩ := invLeafR_extra_eval hE hx.1
    obtain ⟨_, gb, hcb, evb⟩ := invLeafR_extra_eval hE hx.2
    rcases hc with ⟨sa, sb, rfl, rfl⟩ | hc
    · -- two single markers are leaves of the unwidened fragment
      have sa' : InvLeaf E (.single sa) := by
        rcases ha with ha | ⟨cs, e, _⟩
        · exact ha
        · cases e
      have sb' : InvLeaf E (.single sb) := by
        rcases hb with hb | ⟨cs, e, _⟩
        · exact hb
        · cases e
      exact absurd ⟨sa', sb'⟩ hab
    · rw [hca, hcb] at hc
      cases hc
      rw [eva, evb]

/-- **inverting an `AtomicMarkerUnion` on `extra`, values possibly repeated** -/
theorem invert_aunion_extra_rep {E : Env} {ex : List String} (hE : E.extras = some ex) {as : List Generic.Atom}
    (h : XLeafW QuotableValue (.aunion "extra" (.union (as.map GS.atom)))) {r : M}
    (hi : Leaf.invert (.aunion "extra" (.union (as.map GS.atom))) = .ok r) :
    M.Good (InvLeafR E) r ∧
      M.sem (leafEval E) r = !leafEval E (.aunion "extra" (.union (as.map GS.atom))) := by
  have h' := h
  obtain ⟨⟨_, hw, _⟩, hW⟩ := h
  have e0 := xLeaf_eval mkExtraOKW_quotable hE h' (l := .aunion "extra" (.union (as.map GS.atom))) rfl
  have hne : as ≠ [] := by
    intro e; subst e; simp [GC.wfX] at hw
  have hcs : ∀ a ∈ as, a.x = true ∧ a.isEqNe = true := by
    intro a ha
    have := hw
    simp only [GC.wfX, Bool.and_eq_true, List.all_eq_true, List.mem_map] at this
    have := this.2 (.atom a) ⟨a, ha, rfl⟩
    simpa [GS.wfX] using this
  let g : Generic.Atom → Generic.Atom := fun a => ⟨a.value, flipOp a.op, a.x⟩
  have hmap : Generic.mapE GS.invert (as.map GS.atom) = .ok ((as.map g).map (fun a => GC.s (.atom a))) := by
    have := gmapE_ok GS.invert (fun m => match m with | GS.atom a => GC.s (.atom (g a)) | _ => default)
      (as.map GS.atom) (by
        intro m hm
        simp only [List.mem_map] at hm
        obtain ⟨a, ha, rfl⟩ := hm
        simp [GS.invert, Atom.invert_flip a (hcs a ha).2, g])
    rw [this]; simp [List.map_map, Function.comp_def]
  have hany : (as.map g).any (fun a => a.x) = true := by
    cases as with
    | nil => exact absurd rfl hne
    | cons a l => simp [g, (hcs a (by simp)).1]
  have hmk : Generic.mkMulti true (as.map g) = .ok (.multi true (as.map g)) := by
    have : (as.map g).any (fun c => !(multiOps true).contains c.op.str) = false := by
      simp only [List.any_map, List.any_eq_false, Function.comp_def]
      intro a ha
      have := flip_isEqNe a (hcs a ha).2
      cases a with | mk v op ax =>
      cases op <;> simp_all [g, multiOps, Gen.extraMultiOperators, Generic.Op.str, flipOp, Atom.isEqNe]
    simp only [Generic.mkMulti, this, Bool.false_eq_true, if_false]
  have hinv : (GC.union (as.map GS.atom)).invert = .ok (.s (.multi true (as.map g))) := by
    simp only [GC.invert, unionInvert, hmap]
    rw [atomsOf?_atoms]
    simp only [hany, hmk]
  have hall : ((as.map g).all fun a => [Generic.Op.eq, Generic.Op.ne].contains a.op) = true := by
    simp only [List.all_map, List.all_eq_true, Function.comp_def]
    intro a ha
    have := flip_isEqNe a (hcs a ha).2
    simpa [g, Atom.isEqNe] using this
  simp only [Leaf.invert, hinv, bind, Except.bind, beq_self_eq_true, if_true, hall,
    pure, Except.pure] at hi
  cases hi
  have hwa : ∀ c ∈ as.map g, c.x = true ∧ c.isEqNe = true := by
    intro c hc
    simp only [List.mem_map] at hc
    obtain ⟨b, hb, rfl⟩ := hc
    exact ⟨(hcs b hb).1, flip_isEqNe b (hcs b hb).2⟩
  have hWg : ∀ c ∈ as.map g, QuotableValue c.value := by
    intro c hc
    simp only [List.mem_map] at hc
    obtain ⟨b, hb, rfl⟩ := hc
    apply hW b
    simp only [leafAtoms, Leaf.c, GC.atoms, List.mem_flatMap, List.mem_map]
    exact ⟨.atom b, ⟨b, hb, rfl⟩, by simp [GS.atoms]⟩
  refine ⟨(M.good_leaf _).2 (Or.inr ⟨as.map g, rfl, hwa, hWg⟩), ?_⟩
  rw [M.sem_leaf]
  simp only [leafEval, xMultiRep_eval hE hwa hWg]
  have := e0
  simp only [leafEval] at this
  rw [this]
  exact GC.invert_X _ _ (GC.frag_of_wfX hw) hinv _

/-- leaves ready to be inverted, without the condition that the extras of an atomic union are pairwise different -/
def InvReadyR (E : Env) : Leaf → Prop
  | .single s => InvLeaf E (.single s)
  | .amulti n c => InvLeaf E (.amulti n c) ∧ ∃ x cs, c = .s (.multi x cs) ∧ cs ≠ []
  | .aunion n c => InvLeaf E (.aunion n c) ∧ ∃ as : List Generic.Atom, c = .union (as.map GS.atom) ∧
      (n = "extra" ∨ ∀ a ∈ as, a.op = Generic.Op.eq)

theorem invReadyR_ok {E : Env} {ex : List String} (hE : E.extras = some ex) {l : Leaf} (h : InvReadyR E l) :
    InvOK (leafEval E) (InvLeafR E) l := by
  have old : InvReady E l → InvOK (leafEval E) (InvLeafR E) l := fun hr =>
    fun r hi => ⟨M.good_mono (fun l hl => Or.inl hl) r ((invReady_ok hE hr).2 r hi).1, ((invReady_ok hE hr).2 r hi).2⟩
  cases l with
  | single s => exact old h
  | amulti n c => exact old h
  | aunion n c =>
    obtain ⟨hl, as, rfl, hc⟩ := h
    by_cases hn : n = "extra"
    · subst hn
      rcases hl with hl | hl
      · have := (strLeaf_view hl.1).1
        simp [Leaf.name] at this
      · intro r hi
        exact invert_aunion_extra_rep hE hl hi
    · rcases hc with hc | hc
      · exact absurd hc hn
      · exact old ⟨hl, as, rfl, Or.inr ⟨hn, hc⟩⟩

/-- **`invert` preserves truth on the quotable string / `extra` fragment, atomic unions with repeated extras
included** -/
theorem M.invert_sound_invR {E : Env} {ex : List String} (hE : E.extras = some ex) {a r : M}
    (ha : M.Good (InvReadyR E) a) (h : M.invert a = .ok r) :
    M.Good (InvLeafR E) r ∧ M.sem (leafEval E) r = !M.sem (leafEval E) a :=
  M.invert_sound_congr (leafCongr_invR hE) a r (M.good_mono (fun l hl => invReadyR_ok hE hl) a ha) h

theorem invLeafR_evaluable {E : Env} {ex : List String} (hE : E.extras = some ex) {l : Leaf}
    (h : InvLeafR E l) : ∃ b, l.validate E = .ok b := by
  rcases h with h | ⟨cs, rfl, hwa, hW⟩
  · exact invLeaf_evaluable hE h
  · exact ⟨_, xMultiRep_eval hE hwa hW⟩

end Poetry.Marker
