/-
The python_version / python_full_version pairing of `_merge_single_markers` is sound under `EnvPy E X Y Z`:
the component facts of `PairCtx` for poetry's own leaf truth, on the leaves `python_version op "a.b"` and
`python_full_version op "a.b.c"` with a comparison operator.
-/
import PoetryVerif.Proofs.PyConvPairRewrite
import PoetryVerif.Proofs.PyConvPairShape

set_option linter.unusedSimpArgs false
set_option linter.unusedVariables false

namespace Poetry.Marker
open Poetry Poetry.Version VParser

/-! ### the conversion of the `python_version` operand -/

/-- `get_python_constraint_from_marker(python_version op "a.b")`, explicitly -/
theorem gpcLeaf_pvLeafOf {sop ops} (h : (sop, ops) ∈ pvOps) (a b : Nat) :
    gpcLeaf (.single (pvLeafOf sop ops a b)) = .ok (gpcOf sop a b) := by
  obtain ⟨_, _, hop⟩ := pvOps_facts h (litV a [b])
  obtain ⟨item, hitem, hp⟩ := gpc_parse h a b
  obtain ⟨item', hitem', hok, hstar, _⟩ := normPair_shape "python_version" ops [a, b] hop (.short a b)
  rw [hitem] at hitem'
  have hii : item = item' := Except.ok.inj hitem'
  subst hii
  have hne : item ≠ "*" := by intro e; apply hstar; rw [e]; rfl
  rw [gpcLeaf_single (pvLeafOf sop ops a b) item (show isPyName "python_version" = true by decide) hop hitem,
    VParser.parseMarkerVersionConstraint, parseConstraintAux_single item true hok.nosep hne, hp]

theorem ver_allows_py (v : Version) (hv : PyBound v = true) (X Y Z : Nat) :
    v.allows (pyV X Y Z) = true ↔
      lex3 (pad3 v.release).1 (pad3 v.release).2.1 (pad3 v.release).2.2 X Y Z = .eq := by
  have hreg : Reg1 (pyV X Y Z) v := by
    rcases regular_py hv X Y Z with h | h
    · exact Or.inl ((vk_eq_iff _ _).2 h)
    · exact Or.inr h
  rw [RC.ver_allows_iff v (pyV X Y Z) (PyBound_wf hv) (pyV_wf X Y Z) hreg, eq_comm, vk_eq_iff,
    cmp_bound_py hv]

/-- **the conversion is exact at `X.Y.Z`** for poetry's own truth of `python_version op "a.b"` -/
theorem gpcOf_exact {E : Env} {X Y Z : Nat} (hE : EnvPy E X Y Z) {sop ops} (h : (sop, ops) ∈ pvOps) (a b : Nat) :
    (gpcOf sop a b).allowsPlain (pyV X Y Z) = leafEval E (.single (pvLeafOf sop ops a b)) := by
  have e1 := pvLeaf_eval hE.1 h a b
  simp only [leafEval, e1]
  rw [← allowsPlain_pad (pvClause_ok h a b)]
  simp only [pvOps, List.mem_cons, List.mem_nil_iff, or_false, Prod.mk.injEq] at h
  rw [Bool.eq_iff_iff]
  rcases h with ⟨rfl, rfl⟩ | ⟨rfl, rfl⟩ | ⟨rfl, rfl⟩ | ⟨rfl, rfl⟩ | ⟨rfl, rfl⟩ | ⟨rfl, rfl⟩
  · simp only [gpcOf, pvClause, VC.allowsPlain, VC.flatten, List.any_cons, List.any_nil, Bool.or_false, RC.allows,
      allows_both _ _ true false (pb [a, b]) (pb [a, b + 1]), ver_allows_py _ (pb2 a b), if_true,
      Bool.false_eq_true, if_false]
    simp only [litV_eq_finalV, finalV, pad3, lex3_lt, lex3_gt, lex3_eq, ne_eq]
    simp only [Nat.not_lt_zero, and_false, or_false, and_true]
    try (constructor <;> intro hh <;> omega)
  · simp only [gpcOf, pvClause, VC.allowsPlain, VC.flatten, List.any_cons, List.any_nil, Bool.or_false, RC.allows,
      Bool.or_eq_true, allows_hi _ false (pb [a, b]), allows_lo _ true (pb [a, b + 1]),
      allows_hi _ false (pb2 a b), allows_lo _ false (pb2 a b), if_true, Bool.false_eq_true, if_false]
    simp only [litV_eq_finalV, finalV, pad3, lex3_lt, lex3_gt, ne_eq]
    simp only [Nat.not_lt_zero, and_false, or_false, and_true]
    try (constructor <;> intro hh <;> omega)
  · simp only [gpcOf, pvClause, ineqRange, VC.allowsPlain, VC.flatten, List.any_cons, List.any_nil, Bool.or_false,
      RC.allows, allows_hi _ false (pb [a, b]), allows_hi _ false (pb2 a b), Bool.false_eq_true, if_false]
    simp only [litV_eq_finalV, finalV, pad3, lex3_lt]
    simp only [Nat.not_lt_zero, and_false, or_false, and_true]
    try (constructor <;> intro hh <;> omega)
  · simp only [gpcOf, pvClause, ineqRange, VC.allowsPlain, VC.flatten, List.any_cons, List.any_nil, Bool.or_false,
      RC.allows, allows_hi _ false (pb [a, b + 1]), allows_hi _ true (pb2 a b), Bool.false_eq_true, if_false, if_true]
    simp only [litV_eq_finalV, finalV, pad3, lex3_lt, lex3_gt, ne_eq]
    simp only [Nat.not_lt_zero, and_false, or_false, and_true]
    try (constructor <;> intro hh <;> omega)
  · simp only [gpcOf, pvClause, ineqRange, VC.allowsPlain, VC.flatten, List.any_cons, List.any_nil, Bool.or_false,
      RC.allows, allows_lo _ true (pb [a, b + 1]), allows_lo _ false (pb2 a b), Bool.false_eq_true, if_false, if_true]
    simp only [litV_eq_finalV, finalV, pad3, lex3_lt, lex3_gt, ne_eq]
    simp only [Nat.not_lt_zero, and_false, or_false, and_true]
    try (constructor <;> intro hh <;> omega)
  · simp only [gpcOf, pvClause, ineqRange, VC.allowsPlain, VC.flatten, List.any_cons, List.any_nil, Bool.or_false,
      RC.allows, allows_lo _ true (pb [a, b]), allows_lo _ true (pb2 a b), if_true]
    simp only [litV_eq_finalV, finalV, pad3, lex3_gt, ne_eq]
    simp only [Nat.not_lt_zero, and_false, or_false, and_true]
    try (constructor <;> intro hh <;> omega)

/-! ### the `python_full_version` operand is an intermediate marker -/

theorem pvClause_boundsV (sop : Spec.SOp) (V : Version) : ∀ c ∈ (pvClause sop V).flatten, ∀ e ∈ c.bounds, e = V := by
  intro c hc e he
  cases sop <;>
    simp only [pvClause, ineqRange, VC.flatten, List.mem_cons, List.mem_nil_iff, or_false] at hc <;>
    (try rcases hc with rfl | rfl) <;> (try subst hc) <;>
    simp [RC.bounds, RC.view, VRange.bounds, RC.min, RC.max] at he <;>
    (first | exact he | (rcases he with rfl | rfl <;> rfl))

theorem pfv3Single_verLeaf {B : List Version} {sop ops} (h : (sop, ops) ∈ pvOps) (a b c : Nat)
    (hB : litV a [b, c] ∈ B) : VerLeaf B "python_full_version" (.single (pfv3Single sop ops a b c)) := by
  have hreg : RegVC B (pvClause sop (litV a [b, c])) :=
    regVC_of_ok (pvClause_ok3 h a b c) (fun c' hc e he => by rw [pvClause_boundsV sop _ c' hc e he]; exact hB)
  refine ⟨rfl, ?_, _, rfl, hreg.1, hreg.2⟩
  simp only [Single.coherent, pfv3Single, itemConstraintString, Bool.false_eq_true, if_false,
    mkSingle_pfv3Single h a b c]
  simp [pfv3Single]

/-- the environment gives `python_full_version` the version `X.Y.Z`, regular for Python bounds -/
theorem verEnv_py {B : List Version} (hpb : ∀ e ∈ B, PyBound e = true) {E : Env} {X Y Z : Nat}
    (hE : EnvPy E X Y Z) : VerEnv B E "python_full_version" (pyV X Y Z) where
  get := ⟨_, hE.2, by
    have := pmvc_bare X [Y, Z]
    simp [parseVersionKind, this]; rfl⟩
  wf := pyV_wf X Y Z
  reg := regular_pyV B hpb X Y Z

/-- the same-name merge does not look at the recursion depth -/
theorem mergeSingle_depth2 (d : Nat) (l1 l2 : Leaf) (im : Bool) (hp : pyPair l1 l2 = false) :
    mergeSingle d l1 l2 im = mergeSingle 2 l1 l2 im := by
  simp only [pyPair] at hp
  rw [mergeSingle.eq_def, mergeSingle.eq_def 2]
  dsimp only
  rw [hp]
  simp only [Bool.false_eq_true, if_false]

end Poetry.Marker
