/-
C18 helper lemmas, part 13 (layer 3 of the `allows` congruence): lists of range constraints — the stable sort by `<`,
the merge loop of `VersionUnion.of`, `VersionUnion.of` itself — respect the structural relation.
-/
import PoetryVerif.Proofs.EqHashRelRange

set_option linter.unusedSimpArgs false
set_option linter.unusedVariables false

namespace Poetry.EqHash
open Poetry Poetry.Version Poetry.Marker

/-! ### related lists -/

theorem LRel.nil : LRel [] [] := trivial
theorem LRel.cons {a b : RC} {as bs : List RC} (h : CRel a b) (t : LRel as bs) : LRel (a :: as) (b :: bs) := ⟨h, t⟩

theorem LRel.length : ∀ {as bs : List RC}, LRel as bs → as.length = bs.length
  | [], [], _ => rfl
  | [], _ :: _, h => by simp [LRel] at h
  | _ :: _, [], h => by simp [LRel] at h
  | _ :: as, _ :: bs, h => by simp [LRel.length h.2]

theorem LRel.isEmpty {as bs : List RC} (h : LRel as bs) : as.isEmpty = bs.isEmpty := by
  cases as <;> cases bs <;> simp_all [LRel]

theorem LRel.append : ∀ {as bs cs ds : List RC}, LRel as bs → LRel cs ds → LRel (as ++ cs) (bs ++ ds)
  | [], [], _, _, _, h2 => h2
  | [], _ :: _, _, _, h, _ => by simp [LRel] at h
  | _ :: _, [], _, _, h, _ => by simp [LRel] at h
  | _ :: as, _ :: bs, _, _, h1, h2 => ⟨h1.1, LRel.append h1.2 h2⟩

theorem LRel.single {a b : RC} (h : CRel a b) : LRel [a] [b] := ⟨h, trivial⟩

theorem LRel.reverse : ∀ {as bs : List RC}, LRel as bs → LRel as.reverse bs.reverse
  | [], [], _ => trivial
  | [], _ :: _, h => by simp [LRel] at h
  | _ :: _, [], h => by simp [LRel] at h
  | a :: as, b :: bs, h => by
    simp only [List.reverse_cons]
    exact LRel.append (LRel.reverse h.2) (LRel.single h.1)

theorem LRel.head? : ∀ {as bs : List RC}, LRel as bs → OCRel as.head? bs.head?
  | [], [], _ => trivial
  | [], _ :: _, h => by simp [LRel] at h
  | _ :: _, [], h => by simp [LRel] at h
  | _ :: _, _ :: _, h => h.1

theorem LRel.getLast? {as bs : List RC} (h : LRel as bs) : OCRel as.getLast? bs.getLast? := by
  have := LRel.head? (LRel.reverse h)
  simpa [List.head?_reverse] using this

theorem LRel.anyIsAny : ∀ {as bs : List RC}, LRel as bs → as.any RC.isAny = bs.any RC.isAny
  | [], [], _ => rfl
  | [], _ :: _, h => by simp [LRel] at h
  | _ :: _, [], h => by simp [LRel] at h
  | _ :: as, _ :: bs, h => by simp only [List.any_cons, rcIsAny_congr h.1, LRel.anyIsAny h.2]

/-- members of related unions admit alike (same probe on both sides, or related probes) -/
theorem LRel.anyAllows : ∀ {as bs : List RC}, LRel as bs → ∀ {v w : Version}, SameBound v w →
    as.any (fun c => c.allows v) = bs.any (fun c => c.allows w)
  | [], [], _, _, _, _ => rfl
  | [], _ :: _, h, _, _, _ => by simp [LRel] at h
  | _ :: _, [], h, _, _, _ => by simp [LRel] at h
  | _ :: as, _ :: bs, h, v, w, hv => by
    simp only [List.any_cons, rcAllows_congr2 h.1 hv, LRel.anyAllows h.2 hv]

/-! ### `list.sort()` -/

theorem insertSorted_congr {x x' : RC} (hx : CRel x x') : ∀ {l l' : List RC}, LRel l l' →
    LRel (insertSorted x l) (insertSorted x' l')
  | [], [], _ => LRel.single hx
  | [], _ :: _, h => by simp [LRel] at h
  | _ :: _, [], h => by simp [LRel] at h
  | y :: ys, y' :: ys', h => by
    simp only [insertSorted, rcLt_congr hx h.1]
    split
    · exact ⟨hx, h⟩
    · exact ⟨h.1, insertSorted_congr hx h.2⟩

theorem foldl_insert_congr : ∀ {l l' : List RC}, LRel l l' → ∀ {acc acc' : List RC}, LRel acc acc' →
    LRel (l.foldl (fun a x => insertSorted x a) acc) (l'.foldl (fun a x => insertSorted x a) acc')
  | [], [], _, _, _, ha => ha
  | [], _ :: _, h, _, _, _ => by simp [LRel] at h
  | _ :: _, [], h, _, _, _ => by simp [LRel] at h
  | x :: xs, x' :: xs', h, _, _, ha => by
    simp only [List.foldl_cons]
    exact foldl_insert_congr h.2 (insertSorted_congr h.1 ha)

theorem sortRCs_congr {l l' : List RC} (h : LRel l l') : LRel (sortRCs l) (sortRCs l') :=
  foldl_insert_congr h LRel.nil

/-! ### the merge loop and `VersionUnion.of` -/

theorem mergeLoop_congr : ∀ {l l' : List RC}, LRel l l' → ∀ {acc acc' : List RC}, LRel acc acc' →
    PRel LRel (mergeLoop l acc) (mergeLoop l' acc')
  | [], [], _, _, _, ha => by simp only [mergeLoop]; exact LRel.reverse ha
  | [], _ :: _, h, _, _, _ => by simp [LRel] at h
  | _ :: _, [], h, _, _, _ => by simp [LRel] at h
  | c :: rest, c' :: rest', h, [], [], _ => by
    simp only [mergeLoop]; exact mergeLoop_congr h.2 (LRel.single h.1)
  | _ :: _, _ :: _, _, [], _ :: _, ha => by simp [LRel] at ha
  | _ :: _, _ :: _, _, _ :: _, [], ha => by simp [LRel] at ha
  | c :: rest, c' :: rest', h, last :: more, last' :: more', ha => by
    obtain ⟨any, hany⟩ := allowsAny_ok last c
    have hany' : RC.allowsAny last' c' = .ok any := by rw [← rcAllowsAny_congr ha.1 h.1]; exact hany
    simp only [mergeLoop, hany, hany', bind, Except.bind, isAdjacentTo_congr (view_rel ha.1) (view_rel h.1)]
    split
    · exact mergeLoop_congr h.2 (LRel.cons h.1 ha)
    · have hu := rcUnionSingle_congr ha.1 h.1
      cases h1 : rcUnionSingle last c with
      | error e =>
        cases h2 : rcUnionSingle last' c' with
        | error e' => rw [h1, h2] at hu; simpa [PRel] using hu
        | ok o' => rw [h1, h2] at hu; simp [PRel] at hu
      | ok o =>
        cases h2 : rcUnionSingle last' c' with
        | error e' => rw [h1, h2] at hu; simp [PRel] at hu
        | ok o' =>
          rw [h1, h2] at hu
          simp only [PRel] at hu
          cases o with
          | none => cases o' with
            | none => simp [PRel]
            | some u' => simp [OCRel] at hu
          | some u => cases o' with
            | none => simp [OCRel] at hu
            | some u' => exact mergeLoop_congr h.2 (LRel.cons hu ha.2)

theorem unionOfFlat_congr {l l' : List RC} (h : LRel l l') : PRel VCRel (unionOfFlat l) (unionOfFlat l') := by
  unfold unionOfFlat
  rw [h.isEmpty, h.anyIsAny]
  split
  · trivial
  · split
    · exact ⟨trivial, trivial, rfl, rfl⟩
    · have hm := mergeLoop_congr (sortRCs_congr h) LRel.nil
      simp only [bind, Except.bind]
      cases h1 : mergeLoop (sortRCs l) [] with
      | error e =>
        cases h2 : mergeLoop (sortRCs l') [] with
        | error e' => rw [h1, h2] at hm; simpa [PRel] using hm
        | ok m' => rw [h1, h2] at hm; simp [PRel] at hm
      | ok m =>
        cases h2 : mergeLoop (sortRCs l') [] with
        | error e' => rw [h1, h2] at hm; simp [PRel] at hm
        | ok m' =>
          rw [h1, h2] at hm
          simp only [PRel] at hm
          match m, m', hm with
          | [], [], _ => simp [PRel, pure, Except.pure, VCRel, LRel]
          | [c], [c'], hm => simpa [PRel, pure, Except.pure, VCRel] using hm.1
          | a :: b :: t, a' :: b' :: t', hm => simpa [PRel, pure, Except.pure, VCRel] using hm
          | [], _ :: _, hm => simp [LRel] at hm
          | _ :: _, [], hm => simp [LRel] at hm
          | [_], _ :: _ :: _, hm => simp [LRel] at hm
          | _ :: _ :: _, [_], hm => simp [LRel] at hm

end Poetry.EqHash
