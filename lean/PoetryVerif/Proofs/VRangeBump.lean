/-
Bumps (`next_major`, `next_minor`, `next_patch`, `next_breaking`, `stable`) against the version order,
and the minimality of `X.dev0` within the release of a final `X` (helper lemmas for C15, C04).
-/
import PoetryVerif.Proofs.VRangeSem

set_option linter.unusedSimpArgs false
set_option linter.unusedVariables false

namespace Poetry
open Version Std

attribute [local instance] lexOrd

namespace Version

/-! ### comparing release keys -/

theorem stripZeros_cons (x : Nat) (xs : List Nat) :
    stripZeros (x :: xs) = if x = 0 ∧ stripZeros xs = [] then [] else x :: stripZeros xs := by
  simp only [stripZeros]
  by_cases h : x = 0 <;> cases hs : stripZeros xs <;> simp [h, hs]

theorem stripZeros_zeros (n : Nat) : stripZeros (zeros n) = [] := by
  induction n with
  | zero => rfl
  | succ n ih => simp [zeros, List.replicate_succ, stripZeros_cons] at *; exact ih

theorem cmp_nil_of_ne {l : List Nat} (h : l ≠ []) : compare ([] : List Nat) l = .lt := by
  cases l with
  | nil => exact absurd rfl h
  | cons a as => exact List.compare_nil_cons

/-- P: a common head can be dropped -/
theorem sz_cmp_cons (x : Nat) (xs ys : List Nat) :
    compare (stripZeros (x :: xs)) (stripZeros (x :: ys)) = compare (stripZeros xs) (stripZeros ys) := by
  rw [stripZeros_cons, stripZeros_cons]
  by_cases hx : x = 0
  · subst hx
    cases hxs : stripZeros xs <;> cases hys : stripZeros ys <;>
      simp [List.compare_nil_cons, List.compare_cons_nil, List.compare_cons_cons, compare_self_eq,
        List.compare_nil_nil]
  · simp [hx, List.compare_cons_cons, compare_self_eq]

/-- Q: a smaller head decides -/
theorem sz_cmp_lt_head {x y : Nat} (h : x < y) (xs ys : List Nat) :
    compare (stripZeros (x :: xs)) (stripZeros (y :: ys)) = .lt := by
  rw [stripZeros_cons, stripZeros_cons]
  have hy : y ≠ 0 := by omega
  have hc : compare x y = .lt := Nat.compare_eq_lt.2 h
  by_cases hx : x = 0 ∧ stripZeros xs = []
  · simp [hx, hy, List.compare_nil_cons]
  · simp only [hx, hy, false_and, if_false, List.compare_cons_cons, hc, Ordering.lt_then]

/-- R: the empty release key is below every non-empty one -/
theorem sz_cmp_nil {ys : List Nat} (h : stripZeros ys ≠ []) :
    compare (stripZeros []) (stripZeros ys) = .lt := by
  simp only [stripZeros]; exact cmp_nil_of_ne h

theorem relNextMajor_gt (r : List Nat) (h : r ≠ []) :
    compare (stripZeros r) (stripZeros (relNextMajor r)) = .lt := by
  cases r with
  | nil => exact absurd rfl h
  | cons m rest => exact sz_cmp_lt_head (by simp [relMajor]) _ _

theorem relNextMinor_gt (r : List Nat) (h : r ≠ []) :
    compare (stripZeros r) (stripZeros (relNextMinor r)) = .lt := by
  match r, h with
  | [m], _ =>
    simp only [relNextMinor]
    rw [sz_cmp_cons]; exact sz_cmp_nil (by decide)
  | m :: n :: rest, _ =>
    simp only [relNextMinor]
    rw [sz_cmp_cons]; exact sz_cmp_lt_head (by omega) _ _

theorem relNextPatch_gt (r : List Nat) (h : r ≠ []) :
    compare (stripZeros r) (stripZeros (relNextPatch r)) = .lt := by
  match r, h with
  | [m], _ =>
    simp only [relNextPatch]
    rw [sz_cmp_cons]; exact sz_cmp_nil (by decide)
  | [m, n], _ =>
    simp only [relNextPatch]
    rw [sz_cmp_cons, sz_cmp_cons]; exact sz_cmp_nil (by decide)
  | m :: n :: p :: rest, _ =>
    simp only [relNextPatch]
    rw [sz_cmp_cons, sz_cmp_cons]; exact sz_cmp_lt_head (by omega) _ _

/-! ### versions -/

/-- L1: a strictly greater release (same epoch) decides the comparison -/
theorem cmp_lt_of_rel_lt {a b : Version} (he : a.epoch = b.epoch)
    (h : compare (stripZeros a.release) (stripZeros b.release) = .lt) : Version.cmp a b = .lt := by
  unfold Version.cmp cmpKey key
  simp only [compare_pair, he, compare_self_eq, h, Ordering.then]

/-- a final release: no pre, post, dev, local -/
def isFinal (v : Version) : Bool := v.pre.isNone && v.post.isNone && v.dev.isNone && v.loc.isNone

theorem wf_release_ne {v : Version} (h : v.wf = true) : v.release ≠ [] := by
  simp [wf] at h
  intro e; simp [e] at h

/-- an unstable version that is not "post without pre" sorts below the final release of its release -/
theorem lt_final_of_unstable {v : Version} (hwf : v.wf = true) (h : v.isIncrementRequired = false) :
    vk v < vk (mk' v.epoch v.release none none none none) := by
  apply lt_of_pubKey_lt
  simp only [pubKey, mk', compare_pair, compare_self_eq, Ordering.then, preK]
  simp only [isIncrementRequired, isStable, isUnstable, isPrerelease, isPostrelease, isDevrelease,
    Bool.or_eq_false_iff, Bool.not_eq_false', Bool.and_eq_false_iff, Bool.not_eq_eq_eq_not, Bool.not_true,
    Bool.or_eq_true] at h
  cases hpre : v.pre with
  | some t =>
    have := compare_preTag_infTag t (wf_pre hwf hpre)
    simp [this]
  | none =>
    simp only [hpre, Option.isSome_none, Bool.false_eq_true, false_or, Option.isNone_none] at h ⊢
    obtain ⟨hdev, hpost⟩ := h
    rcases hpost with hpost | hpost
    · simp at hpost
    · have hp : v.post = none := by cases hq : v.post <;> simp_all
      have hd : v.dev.isSome = true := by simpa using hdev
      simp [hp, hd, compare_negInf_inf]

theorem nextMajor_isFinal (v : Version) : v.nextMajor.isFinal = true := rfl
theorem nextMinor_isFinal (v : Version) : v.nextMinor.isFinal = true := rfl
theorem nextPatch_isFinal (v : Version) : v.nextPatch.isFinal = true := rfl

theorem nextMajor_gt (v : Version) (hwf : v.wf = true) : Version.cmp v v.nextMajor = .lt := by
  unfold nextMajor
  by_cases hc : (v.isIncrementRequired || relLt [relMajor v.release, 0, 0] v.release) = true
  · simp only [hc, if_true]
    exact cmp_lt_of_rel_lt rfl (relNextMajor_gt _ (wf_release_ne hwf))
  · simp only [hc]
    simp only [Bool.or_eq_true, not_or, Bool.not_eq_true] at hc
    exact (vk_lt_iff _ _).1 (lt_final_of_unstable hwf hc.1)

theorem nextMinor_gt (v : Version) (hwf : v.wf = true) : Version.cmp v v.nextMinor = .lt := by
  unfold nextMinor
  by_cases hc : (v.isIncrementRequired ||
      relLt [relMajor v.release, (relMinor v.release).getD 0, 0] v.release) = true
  · simp only [hc, if_true]
    exact cmp_lt_of_rel_lt rfl (relNextMinor_gt _ (wf_release_ne hwf))
  · simp only [hc]
    simp only [Bool.or_eq_true, not_or, Bool.not_eq_true] at hc
    exact (vk_lt_iff _ _).1 (lt_final_of_unstable hwf hc.1)

theorem nextPatch_gt (v : Version) (hwf : v.wf = true) : Version.cmp v v.nextPatch = .lt := by
  unfold nextPatch
  by_cases hc : (v.isIncrementRequired ||
      relLt [relMajor v.release, (relMinor v.release).getD 0, (relPatch v.release).getD 0] v.release) = true
  · simp only [hc, if_true]
    exact cmp_lt_of_rel_lt rfl (relNextPatch_gt _ (wf_release_ne hwf))
  · simp only [hc]
    simp only [Bool.or_eq_true, not_or, Bool.not_eq_true] at hc
    exact (vk_lt_iff _ _).1 (lt_final_of_unstable hwf hc.1)

/-! ### `stable` and `next_breaking` -/

theorem stable_epoch (v : Version) : v.stable.epoch = v.epoch := by
  unfold stable; split <;> rfl
theorem stable_release (v : Version) : v.stable.release = v.release := by
  unfold stable; split <;> rfl
theorem stable_isStable (v : Version) : v.stable.isStable = true := by
  unfold stable
  by_cases h : v.isStable = true
  · simp [h]
  · rw [if_neg h]; simp [isStable, isUnstable, isPrerelease, isDevrelease, mk']

theorem isIncrementRequired_of_stable {v : Version} (h : v.isStable = true) : v.isIncrementRequired = true := by
  simp [isIncrementRequired, h]

theorem stable_nextMajor_release (v : Version) : v.stable.nextMajor.release = relNextMajor v.release := by
  simp [nextMajor, isIncrementRequired_of_stable (stable_isStable v), mk', stable_release]
theorem stable_nextMinor_release (v : Version) : v.stable.nextMinor.release = relNextMinor v.release := by
  simp [nextMinor, isIncrementRequired_of_stable (stable_isStable v), mk', stable_release]
theorem stable_nextPatch_release (v : Version) : v.stable.nextPatch.release = relNextPatch v.release := by
  simp [nextPatch, isIncrementRequired_of_stable (stable_isStable v), mk', stable_release]

theorem stable_nextMajor_gt (v : Version) (hwf : v.wf = true) : Version.cmp v v.stable.nextMajor = .lt :=
  cmp_lt_of_rel_lt (by simp [nextMajor, mk', stable_epoch])
    (by rw [stable_nextMajor_release]; exact relNextMajor_gt _ (wf_release_ne hwf))
theorem stable_nextMinor_gt (v : Version) (hwf : v.wf = true) : Version.cmp v v.stable.nextMinor = .lt :=
  cmp_lt_of_rel_lt (by simp [nextMinor, mk', stable_epoch])
    (by rw [stable_nextMinor_release]; exact relNextMinor_gt _ (wf_release_ne hwf))
theorem stable_nextPatch_gt (v : Version) (hwf : v.wf = true) : Version.cmp v v.stable.nextPatch = .lt :=
  cmp_lt_of_rel_lt (by simp [nextPatch, mk', stable_epoch])
    (by rw [stable_nextPatch_release]; exact relNextPatch_gt _ (wf_release_ne hwf))

theorem nextBreaking_isFinal (v : Version) : v.nextBreaking.isFinal = true := by
  unfold nextBreaking; split
  · rfl
  · split <;> rfl

theorem nextBreaking_gt (v : Version) (hwf : v.wf = true) : Version.cmp v v.nextBreaking = .lt := by
  unfold nextBreaking; split
  · exact stable_nextMajor_gt v hwf
  · split
    · exact stable_nextMinor_gt v hwf
    · exact stable_nextPatch_gt v hwf

/-- the release of a bump of `v.stable` is strictly above `v`'s -/
theorem nextBreaking_relKey_ne (v : Version) (hwf : v.wf = true) : relKey v ≠ relKey v.nextBreaking := by
  have hne := wf_release_ne hwf
  intro e
  have e2 : stripZeros v.release = stripZeros v.nextBreaking.release := (Prod.mk.inj e).2
  have : compare (stripZeros v.release) (stripZeros v.nextBreaking.release) = .lt := by
    unfold nextBreaking; split
    · rw [stable_nextMajor_release]; exact relNextMajor_gt _ hne
    · split
      · rw [stable_nextMinor_release]; exact relNextMinor_gt _ hne
      · rw [stable_nextPatch_release]; exact relNextPatch_gt _ hne
  rw [e2, compare_self_eq] at this
  cases this

/-! ### `X.dev0` is the least version of the release of a final `X` -/

theorem wf_withoutLocal {v : Version} (h : v.wf = true) : v.withoutLocal.wf = true := by
  simp [wf, withoutLocal, mk', optAll] at h ⊢
  exact h.1

theorem firstDev_final_le {X o : Version} (hX : X.isFinal = true) (ho : o.wf = true)
    (hr : relKey o = relKey X) : vk X.firstDevrelease ≤ vk o := by
  simp only [isFinal, Bool.and_eq_true, Option.isNone_iff_eq_none] at hX
  obtain ⟨⟨⟨hpre, hpost⟩, hdev⟩, hloc⟩ := hX
  have he : o.epoch = X.epoch := (Prod.mk.inj hr).1
  have hrel : stripZeros o.release = stripZeros X.release := (Prod.mk.inj hr).2
  show compare (key X.firstDevrelease) (key o) ≠ .gt
  simp only [key, firstDevrelease, mk', compare_pair, preK, postK, devK, hpre, hpost, he, hrel,
    compare_self_eq, Ordering.then]
  by_cases hc : (o.pre.isNone && o.post.isNone && o.dev.isSome) = true
  · simp only [Bool.and_eq_true, Option.isNone_iff_eq_none] at hc
    obtain ⟨⟨hp, hq⟩, hd⟩ := hc
    cases hdv : o.dev with
    | none => simp [hdv] at hd
    | some t =>
      have hph := wf_dev ho hdv
      simp only [hp, hq, hdv, Option.isNone_none, Option.isSome_some, Bool.and_self, if_true,
        compare_self_eq, locK]
      have : compare (tagK ⟨Phase.dev, 0⟩) (tagK t) = compare 0 t.num := by
        simp only [tagK, compare_pair, hph, compare_self_eq, Ordering.then, compare_numK_fin]
      rw [this]
      cases h0 : compare 0 t.num with
      | lt => simp
      | gt => exact absurd (Nat.compare_eq_gt.1 h0) (by omega)
      | eq =>
        simp only
        cases hl : o.loc with
        | none => simp [locK, compare_self_eq]
        | some ps =>
          have := noLocal_lt_local ps (wf_loc ho hl)
          simp only [locK] at this
          rw [this]; simp
  · simp only [hc]
    cases hp : o.pre with
    | none => simp [compare_negInf_inf]
    | some t => simp [compare_negInfTag_tag]

end Version
end Poetry

/-! ## ranges `[V, H)` whose upper end is a final release of a greater release (`^V`, `~V`, `~=V`) -/
namespace Poetry
open Version

namespace Version

theorem relKey_ne_of_rel_lt {a b : Version}
    (h : compare (stripZeros a.release) (stripZeros b.release) = .lt) : relKey a ≠ relKey b := by
  intro e
  have e2 : stripZeros a.release = stripZeros b.release := (Prod.mk.inj e).2
  rw [e2, compare_self_eq] at h
  cases h

theorem wf_final (e : Nat) (r : List Nat) (h : r ≠ []) : (mk' e r none none none none).wf = true := by
  cases r with
  | nil => exact absurd rfl h
  | cons x xs => simp [wf, mk', optAll]

theorem isUnstable_of_final {X : Version} (h : X.isFinal = true) : X.isUnstable = false := by
  simp only [isFinal, Bool.and_eq_true, Option.isNone_iff_eq_none] at h
  simp [isUnstable, isPrerelease, isDevrelease, h.1.1.1, h.1.2]

end Version

namespace VRange

/-- the half-open range `[V, H)` -/
def halfOpen (V H : Version) : VRange := ⟨some V, some H, true, false⟩

theorem halfOpen_allowedMax {V H : Version} (hH : H.isFinal = true) (hne : vk V ≠ vk H) :
    (halfOpen V H).allowedMax = some H.firstDevrelease := by
  have := allowedMax_eq_of_lt (r := halfOpen V H) (M := H) rfl
    (by intro m hm; simp [halfOpen] at hm; subst hm; exact hne)
  rw [this]; simp [halfOpen, isUnstable_of_final hH]

/-- `[V, H)` admits `V` -/
theorem halfOpen_allows_min {V H : Version} (hV : V.wf = true) (hHwf : H.wf = true)
    (hlt : vk V < vk H) (hrk : relKey V ≠ relKey H) : (halfOpen V H).allows V = true := by
  have hreg : Regular (halfOpen V H).bounds V := by
    intro e he
    simp [bounds, halfOpen] at he
    rcases he with rfl | rfl
    · exact Or.inl (cmp_refl _)
    · exact Or.inr hrk
  have hwf : (halfOpen V H).wfB := by
    intro e he
    simp [bounds, halfOpen] at he
    rcases he with rfl | rfl <;> assumption
  rw [allows_iff_raw _ _ hwf hV hreg]
  simp [raw, denLo, rawHi, halfOpen, hlt]

/-- `[V, H)` with `H` a final release rejects every version of `H`'s release: `H` itself, all its
pre-releases and dev-releases (and post-releases and local builds) -/
theorem halfOpen_rejects_upper_release {V H w : Version} (hH : H.isFinal = true) (hne : vk V ≠ vk H)
    (hw : w.wf = true) (hr : relKey w = relKey H) : (halfOpen V H).allows w = false := by
  have hA := halfOpen_allowedMax hH hne
  have hhi : (halfOpen V H).allowsHi w = false := by
    unfold allowsHi
    rw [hA]
    simp only [halfOpen, isLocal_firstDev, Bool.not_false, Bool.true_and]
    generalize ho : (if w.isLocal = true then w.withoutLocal else w) = o
    have howf : o.wf = true := by rw [← ho]; split; exact wf_withoutLocal hw; exact hw
    have hor : relKey o = relKey H := by rw [← ho]; split <;> simp [hr]
    have hle := firstDev_final_le hH howf hor
    rcases lt_or_eq_of_le hle with h | h
    · simp [(gt_iff _ _).2 h]
    · have e1 : Version.gt o H.firstDevrelease = false := by rw [gt_false_iff, h]
      have e2 : Version.eqv o H.firstDevrelease = true := (eqv_iff _ _).2 h.symm
      simp [e1, e2]
  simp [allows, hhi]

end VRange
end Poetry

/-! ## the upper end of `~=V` -/
namespace Poetry
open Version

/-- the upper end `parse_single_constraint` computes for `~=V` -/
def compatHigh (v : Version) : Version :=
  if v.precision == 2 then v.stable.nextMajor
  else if v.precision ≤ 3 then v.stable.nextMinor
  else Version.mk' v.epoch (Version.bumpSecondToLast v.release) none none none none

theorem bump_eq : ∀ (r : List Nat), 2 ≤ r.length → bumpSecondToLast r = incrLast r.dropLast ++ [0]
  | [], h => by simp at h
  | [x], h => by simp at h
  | [x, y], _ => by simp [bumpSecondToLast, incrLast]
  | x :: y :: z :: rest, _ => by
    have ih := bump_eq (y :: z :: rest) (by simp)
    show x :: bumpSecondToLast (y :: z :: rest) = _
    rw [ih]
    simp [List.dropLast, incrLast]

theorem incrLast_dropLast_gt : ∀ (r : List Nat), 2 ≤ r.length →
    compare (stripZeros r) (stripZeros (incrLast r.dropLast)) = .lt
  | [], h => by simp at h
  | [x], h => by simp at h
  | [x, y], _ => by
    show compare (stripZeros (x :: [y])) (stripZeros ((x + 1) :: [])) = .lt
    exact sz_cmp_lt_head (by omega) _ _
  | x :: y :: z :: rest, _ => by
    have ih := incrLast_dropLast_gt (y :: z :: rest) (by simp)
    have e : incrLast (x :: y :: z :: rest).dropLast = x :: incrLast (y :: z :: rest).dropLast := by
      simp [List.dropLast, incrLast]
    rw [e, sz_cmp_cons]; exact ih

/-- the upper end of `~=V`, uniformly: drop the last release component, increment the new last one, pad
with a zero -/
theorem compatHigh_release (v : Version) (hp : 2 ≤ v.precision) :
    (compatHigh v).release = incrLast v.release.dropLast ++ [0] ∧ (compatHigh v).epoch = v.epoch ∧
    compatHigh v = mk' (compatHigh v).epoch (compatHigh v).release none none none none := by
  unfold precision at hp
  rcases hr : v.release with _ | ⟨a, _ | ⟨b, _ | ⟨c, _ | ⟨d, rest⟩⟩⟩⟩
  · rw [hr] at hp; simp at hp
  · rw [hr] at hp; simp at hp
  · have h2 : (v.precision == 2) = true := by simp [precision, hr]
    simp only [compatHigh, h2, if_true]
    refine ⟨?_, by simp [nextMajor, mk', stable_epoch], rfl⟩
    rw [stable_nextMajor_release, hr]; simp [relNextMajor, relMajor, zeros, incrLast]
  · have h2 : (v.precision == 2) = false := by simp [precision, hr]
    have h3 : v.precision ≤ 3 := by simp [precision, hr]
    simp only [compatHigh, h2, h3, if_true, Bool.false_eq_true, if_false]
    refine ⟨?_, by simp [nextMinor, mk', stable_epoch], rfl⟩
    rw [stable_nextMinor_release, hr]; simp [relNextMinor, zeros, incrLast]
  · have h2 : (v.precision == 2) = false := by simp [precision, hr]
    have h3 : ¬ v.precision ≤ 3 := by simp [precision, hr]
    simp only [compatHigh, h2, h3, Bool.false_eq_true, if_false]
    refine ⟨?_, rfl, rfl⟩
    simp only [mk']
    rw [hr]; exact bump_eq _ (by simp)


end Poetry
