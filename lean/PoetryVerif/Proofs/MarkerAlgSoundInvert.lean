/-
`Leaf.invert` on the string and `extra` fragments: the inverted leaf is built by re-parsing the text
`name <flipped op> "value"` (`SingleMarker.invert`), which the character-level theorem of
Proofs/MarkerPrintChars.lean reads back exactly; atomic multi/union leaves invert through the constraint
algebra (C16 `GC.invert_G` / `GC.invert_X`).
-/
import PoetryVerif.Proofs.MarkerAlgSoundComb
import PoetryVerif.Proofs.MarkerPrintChars

set_option linter.unusedSimpArgs false
set_option linter.unusedVariables false

namespace Poetry.Marker
open Poetry.Generic

/-- a plain value that can also stand between double quotes -/
def QuotableValue (v : String) : Prop := PlainValue v ∧ ValOk v

/-- `parse_marker` on the text of one item is the constructor on that item -/
theorem parseItemMarker_leafText (n op v : String) (sw : Bool) (hn : n ∈ names) (ho : op ∈ ops) (hv : ValOk v) :
    parseItemMarker (leafText n op v sw) =
      (match mkSingle n (itemConstraintString op v sw) sw with
       | .ok s => .ok (.leaf (.single s))
       | .error e => .error e) := by
  have ht : (Syn.one (.item n op v sw)).text = leafText n op v sw := by simp [Syn.text, Atom.text]
  have := parseText_text (.one (.item n op v sw)) ⟨hn, ho, hv⟩
  rw [ht] at this
  simp only [parseItemMarker, this]
  cases mkSingle n (itemConstraintString op v sw) sw <;> rfl

theorem plainStringVars_names (n : String) (h : n ∈ plainStringVars) : n ∈ names := by
  simp only [plainStringVars, List.mem_cons, List.mem_nil_iff, or_false] at h
  rcases h with rfl | rfl | rfl | rfl | rfl | rfl | rfl <;> decide

theorem invertOp_eq : invertOp? "==" = some "!=" := by decide
theorem invertOp_ne : invertOp? "!=" = some "==" := by decide

/-- the string fragment with quotable values -/
def InvStrLeaf (E : Env) : Leaf → Prop := StrLeafW (fun n => n ∈ plainStringVars) QuotableValue E

theorem startOk_head {v : String} (h : PlainValue v) : v.toList.head? ≠ some '=' := h.2

/-- **inverting a `SingleMarker` of the string fragment**: the result is the leaf with the flipped operator,
again in the fragment, true exactly where the operand is false -/
theorem invert_single_str {E : Env} {s : Single} (h : InvStrLeaf E (.single s)) {r : M}
    (hi : Leaf.invert (.single s) = .ok r) :
    M.Good (InvStrLeaf E) r ∧ M.sem (leafEval E) r = !leafEval E (.single s) := by
  obtain ⟨hs, hN, hW⟩ := h
  have hs' := hs
  obtain ⟨hx, hp, ⟨ve, hve⟩, hsw, a, hc, hax, hae, hop, hval⟩ := hs
  have hq : QuotableValue a.value := hW a (by simp [leafAtoms, Leaf.c, hc, GC.atoms, GS.atoms])
  obtain ⟨hn1, hn2⟩ := plainStringVars_facts s.name hN
  have hnm := plainStringVars_names s.name hN
  have e0 := strLeaf_atomic_eval hs' hc hve
  cases a with | mk v op x =>
  simp only at hax hop hval hq; subst hax
  cases op with
  | eq =>
    have hop' : s.op = "==" := hop
    have hinv : Leaf.invert (.single s) = parseItemMarker (leafText s.name "!=" s.value false) := by
      simp [Leaf.invert, invertSimple, hop', invertOp_eq, invertedLeafText, hsw]
    rw [hinv] at hi
    rw [parseItemMarker_leafText s.name "!=" s.value false hnm (by decide) (hval ▸ hq.2)] at hi
    have hm := mkSingle_string_ne s.name v hn1 hq.1.1
    simp only [itemConstraintString, Bool.false_eq_true, if_false, hval, hm] at hi
    cases hi
    have hsl : StrLeaf E (.single ⟨aliasName s.name, "!=", v, false, .gen (.atom ⟨v, .ne, false⟩)⟩) := by
      rw [hn2]
      exact ⟨hx, hp, ⟨ve, hve⟩, rfl, ⟨v, .ne, false⟩, rfl, rfl, rfl, rfl, rfl⟩
    refine ⟨(M.good_leaf _).2 ⟨hsl, by simpa [Leaf.name, hn2] using hN, ?_⟩, ?_⟩
    · intro y hy
      simp only [leafAtoms, Leaf.c, GC.atoms, GS.atoms, List.mem_singleton] at hy
      subst hy; exact hq
    · rw [M.sem_leaf, strLeaf_atomic_eval hsl rfl (by simpa [Leaf.name, hn2] using hve), e0]
      simp [GC.den, GC.sem, GS.sem, Atom.den, bne]
  | ne =>
    have hop' : s.op = "!=" := hop
    have hinv : Leaf.invert (.single s) = parseItemMarker (leafText s.name "==" s.value false) := by
      simp [Leaf.invert, invertSimple, hop', invertOp_ne, invertedLeafText, hsw]
    rw [hinv] at hi
    rw [parseItemMarker_leafText s.name "==" s.value false hnm (by decide) (hval ▸ hq.2)] at hi
    have hm := mkSingle_string_eq s.name v hn1 hq.1.1 (startOk_head hq.1)
    simp only [itemConstraintString, Bool.false_eq_true, if_false, hval, hm] at hi
    cases hi
    have hsl : StrLeaf E (.single ⟨aliasName s.name, "==", v, false, .gen (.atom ⟨v, .eq, false⟩)⟩) := by
      rw [hn2]
      exact ⟨hx, hp, ⟨ve, hve⟩, rfl, ⟨v, .eq, false⟩, rfl, rfl, rfl, rfl, rfl⟩
    refine ⟨(M.good_leaf _).2 ⟨hsl, by simpa [Leaf.name, hn2] using hN, ?_⟩, ?_⟩
    · intro y hy
      simp only [leafAtoms, Leaf.c, GC.atoms, GS.atoms, List.mem_singleton] at hy
      subst hy; exact hq
    · rw [M.sem_leaf, strLeaf_atomic_eval hsl rfl (by simpa [Leaf.name, hn2] using hve), e0]
      simp [GC.den, GC.sem, GS.sem, Atom.den, bne]
  | in_ => simp [Atom.isEqNe] at hae
  | nc => simp [Atom.isEqNe] at hae

theorem mkExtraOKW_quotable : MkExtraOKW QuotableValue := fun a hv hx he => mkExtraOK_plain a hv.1 hx he

theorem mkAtomOKW_quotable (E : Env) : MkAtomOKW (fun n => n ∈ plainStringVars) QuotableValue E :=
  fun n a s hn hv _ _ _ hx he h => mkAtomOK_plain n a s hn hv.1 hx he h

/-- **inverting a `SingleMarker` on `extra`** -/
theorem invert_single_extra {E : Env} {ex : List String} (hE : E.extras = some ex) {s : Single}
    (h : XLeafW QuotableValue (.single s)) {r : M} (hi : Leaf.invert (.single s) = .ok r) :
    M.Good (XLeafW QuotableValue) r ∧ M.sem (leafEval E) r = !leafEval E (.single s) := by
  have h' := h
  obtain ⟨⟨hnm, hsw, a, hc, hax, hae, hop, hval⟩, hW⟩ := h
  have hq : QuotableValue a.value := hW a (by simp [leafAtoms, Leaf.c, hc, GC.atoms, GS.atoms])
  have e0 := xLeaf_eval mkExtraOKW_quotable hE h' hc
  cases a with | mk v op x =>
  simp only at hax hop hval hq; subst hax
  cases op with
  | eq =>
    have hop' : s.op = "==" := hop
    have hinv : Leaf.invert (.single s) = parseItemMarker (leafText s.name "!=" s.value false) := by
      simp [Leaf.invert, invertSimple, hop', invertOp_eq, invertedLeafText, hsw]
    rw [hinv, hnm] at hi
    rw [parseItemMarker_leafText "extra" "!=" s.value false (by decide) (by decide) (hval ▸ hq.2)] at hi
    have hm := mkSingle_extra_ne v hq.1.1
    simp only [itemConstraintString, Bool.false_eq_true, if_false, hval, hm] at hi
    cases hi
    have hsl : XLeafW QuotableValue (.single ⟨"extra", "!=", v, false, .gen (.atom ⟨v, .ne, true⟩)⟩) := by
      refine ⟨⟨rfl, rfl, ⟨v, .ne, true⟩, rfl, rfl, rfl, rfl, rfl⟩, ?_⟩
      intro y hy
      simp only [leafAtoms, Leaf.c, GC.atoms, GS.atoms, List.mem_singleton] at hy
      subst hy; exact hq
    refine ⟨(M.good_leaf _).2 hsl, ?_⟩
    rw [M.sem_leaf, xLeaf_eval mkExtraOKW_quotable hE hsl rfl, e0]
    simp [GC.denX, GC.sem, GS.sem, Atom.denX]
  | ne =>
    have hop' : s.op = "!=" := hop
    have hinv : Leaf.invert (.single s) = parseItemMarker (leafText s.name "==" s.value false) := by
      simp [Leaf.invert, invertSimple, hop', invertOp_ne, invertedLeafText, hsw]
    rw [hinv, hnm] at hi
    rw [parseItemMarker_leafText "extra" "==" s.value false (by decide) (by decide) (hval ▸ hq.2)] at hi
    have hm := mkSingle_extra_eq v hq.1.1 (startOk_head hq.1)
    simp only [itemConstraintString, Bool.false_eq_true, if_false, hval, hm] at hi
    cases hi
    have hsl : XLeafW QuotableValue (.single ⟨"extra", "==", v, false, .gen (.atom ⟨v, .eq, true⟩)⟩) := by
      refine ⟨⟨rfl, rfl, ⟨v, .eq, true⟩, rfl, rfl, rfl, rfl, rfl⟩, ?_⟩
      intro y hy
      simp only [leafAtoms, Leaf.c, GC.atoms, GS.atoms, List.mem_singleton] at hy
      subst hy; exact hq
    refine ⟨(M.good_leaf _).2 hsl, ?_⟩
    rw [M.sem_leaf, xLeaf_eval mkExtraOKW_quotable hE hsl rfl, e0]
    simp [GC.denX, GC.sem, GS.sem, Atom.denX]
  | in_ => simp [Atom.isEqNe] at hae
  | nc => simp [Atom.isEqNe] at hae

/-! ### the combined fragment and inversion of whole markers -/

/-- string and `extra` leaves over quotable plain values -/
def InvLeaf (E : Env) (l : Leaf) : Prop := InvStrLeaf E l ∨ XLeafW QuotableValue l

theorem leafSpec_inv {E : Env} {ex : List String} (hE : E.extras = some ex) :
    LeafSpec (leafEval E) (InvLeaf E) := by
  refine LeafSpec.or (leafSpec_strW (mkAtomOKW_quotable E)) (leafSpec_extraW mkExtraOKW_quotable hE) ?_
  intro a b ha hb
  obtain ⟨hx, hp, _⟩ := strLeaf_view ha.1
  have hb' := xLeaf_name hb.1
  obtain ⟨p1, p2⟩ := isPyName_false hp
  refine ⟨?_, ?_, ?_⟩
  · rw [hb']; simpa using hx
  · simp [pyPair, p1, p2]
  · simp [pyPair, p1, p2]

theorem invLeaf_evaluable {E : Env} {ex : List String} (hE : E.extras = some ex) {l : Leaf}
    (h : InvLeaf E l) : ∃ b, l.validate E = .ok b := by
  rcases h with h | h
  · exact strLeaf_evaluable h.1
  · exact xLeaf_evaluable mkExtraOKW_quotable hE h

/-- inverting this leaf is sound (a per-leaf statement) -/
def InvOK (ev : Leaf → Bool) (G : Leaf → Prop) (l : Leaf) : Prop :=
  ∀ r, l.invert = .ok r → M.Good G r ∧ M.sem ev r = !ev l

mutual
/-- `invert` on a marker all of whose leaves invert soundly (De Morgan over the flattening constructors) -/
theorem M.invert_sound_on {ev : Leaf → Bool} {G : Leaf → Prop} (S : LeafSpec ev G) :
    ∀ (a r : M), M.Good (fun l => G l ∧ InvOK ev G l) a → M.invert a = .ok r →
      M.Good G r ∧ M.sem ev r = !M.sem ev a
  | .any, r, _, h => by simp [M.invert] at h; subst h; simp
  | .empty, r, _, h => by simp [M.invert] at h; subst h; simp
  | .leaf l, r, hg, h => by
      simp only [M.invert] at h
      have := ((M.good_leaf l).1 hg).2 r h
      simpa using this
  | .multi ms, r, hg, h => by
      simp only [M.invert] at h
      obtain ⟨is, h1, h2⟩ := bind_ok.1 h
      rw [pure_ok] at h2; subst h2
      have hl := M.invertList_sound_on S ms is (by simpa using hg) h1
      have := mkUnion_spec (ev := ev) S is hl.1
      refine ⟨this.1, ?_⟩
      rw [this.2, M.sem_multi, ← any_not_eq]
      have e : ∀ l : List M, l.any (fun m => !M.sem ev m) = (l.map (fun m => !M.sem ev m)).any id := by
        intro l; simp [List.any_map]
      have e' : is.any (M.sem ev) = (is.map (M.sem ev)).any id := by simp [List.any_map]
      rw [e', hl.2, e]
  | .union ms, r, hg, h => by
      simp only [M.invert] at h
      obtain ⟨is, h1, h2⟩ := bind_ok.1 h
      rw [pure_ok] at h2; subst h2
      have hl := M.invertList_sound_on S ms is (by simpa using hg) h1
      have := mkMulti_spec (ev := ev) S is hl.1
      refine ⟨this.1, ?_⟩
      rw [this.2, M.sem_union, ← all_not_eq]
      have e : ∀ l : List M, l.all (fun m => !M.sem ev m) = (l.map (fun m => !M.sem ev m)).all id := by
        intro l; simp [List.all_map]
      have e' : is.all (M.sem ev) = (is.map (M.sem ev)).all id := by simp [List.all_map]
      rw [e', hl.2, e]
theorem M.invertList_sound_on {ev : Leaf → Bool} {G : Leaf → Prop} (S : LeafSpec ev G) :
    ∀ (ms rs : List M), (∀ x ∈ ms, M.Good (fun l => G l ∧ InvOK ev G l) x) → M.invertList ms = .ok rs →
      (∀ x ∈ rs, M.Good G x) ∧ rs.map (M.sem ev) = ms.map (fun m => !M.sem ev m)
  | [], rs, _, h => by simp [M.invertList] at h; subst h; simp
  | m :: ms, rs, hg, h => by
      simp only [M.invertList] at h
      obtain ⟨x, h1, h⟩ := bind_ok.1 h
      obtain ⟨xs, h2, h3⟩ := bind_ok.1 h
      rw [pure_ok] at h3; subst h3
      have a := M.invert_sound_on S m x (hg m (by simp)) h1
      have b := M.invertList_sound_on S ms xs (fun y hy => hg y (by simp [hy])) h2
      refine ⟨?_, by simp [a.2, b.2]⟩
      intro y hy; simp at hy; rcases hy with rfl | hy
      · exact a.1
      · exact b.1 y hy
end

/-- single-marker leaves of the fragment invert soundly -/
theorem invOK_single {E : Env} {ex : List String} (hE : E.extras = some ex) {s : Single}
    (h : InvLeaf E (.single s)) : InvOK (leafEval E) (InvLeaf E) (.single s) := by
  intro r hi
  rcases h with h | h
  · obtain ⟨g, e⟩ := invert_single_str h hi
    exact ⟨M.good_mono (fun l hl => Or.inl hl) r g, e⟩
  · obtain ⟨g, e⟩ := invert_single_extra hE h hi
    exact ⟨M.good_mono (fun l hl => Or.inr hl) r g, e⟩

/-! ### atomic multi markers of the string fragment -/

theorem gmapE_ok {α β : Type} (f : α → PyM β) (g : α → β) : ∀ (l : List α), (∀ x ∈ l, f x = .ok (g x)) →
    Generic.mapE f l = .ok (l.map g)
  | [], _ => rfl
  | x :: xs, h => by
      have h1 := h x (by simp)
      have h2 := gmapE_ok f g xs (fun y hy => h y (by simp [hy]))
      simp [Generic.mapE, h1, h2]

/-- **inverting an `AtomicMultiMarker`** (`v != "a" and v != "b"` ↦ `v == "a" or v == "b"`) -/
theorem invert_amulti_str {E : Env} {n : String} {x : Bool} {cs : List Generic.Atom}
    (h : InvStrLeaf E (.amulti n (.s (.multi x cs)))) (hne : cs ≠ []) {r : M}
    (hi : Leaf.invert (.amulti n (.s (.multi x cs))) = .ok r) :
    M.Good (InvStrLeaf E) r ∧ M.sem (leafEval E) r = !leafEval E (.amulti n (.s (.multi x cs))) := by
  obtain ⟨hs, hN, hW⟩ := h
  have hs' := hs
  obtain ⟨hx, hp, ⟨ve, hve⟩, hw⟩ := hs
  have e0 := strLeaf_atomic_eval hs' (l := .amulti n (.s (.multi x cs))) rfl hve
  obtain ⟨hx0, hcs⟩ := wfG_multi hw
  let g : Generic.Atom → Generic.Atom := fun a => ⟨a.value, .eq, false⟩
  have hmap : Generic.mapE Atom.invert cs = .ok (cs.map g) := by
    apply gmapE_ok
    intro a ha
    obtain ⟨h1, h2⟩ := hcs a ha
    cases a with | mk v op ax =>
    simp only at h1 h2; subst h1; subst h2
    exact Op.inv_ne v false
  have hinv : (GC.s (.multi x cs)).invert = .ok (.union ((cs.map g).map GS.atom)) := by
    simp [GC.invert, GS.invert, hmap]
  have hall : ((cs.map g).map GS.atom).all (atomOpsWithin [Generic.Op.eq]) = true := by
    simp [List.all_map, atomOpsWithin, g]
  simp only [Leaf.invert, hinv, bind, Except.bind, hx, Bool.false_eq_true, if_false, hall, if_true,
    pure, Except.pure] at hi
  cases hi
  have hwi : (GC.union ((cs.map g).map GS.atom)).wfG = true := by
    simp only [GC.wfG, Bool.and_eq_true, Bool.not_eq_true', List.all_eq_true, List.mem_map]
    refine ⟨by cases cs <;> simp_all, ?_⟩
    rintro m ⟨a, ⟨b, hb, rfl⟩, rfl⟩
    simp [GS.wfG, Atom.isEqNe, g]
  have hsl : StrLeaf E (.aunion n (.union ((cs.map g).map GS.atom))) := ⟨hx, hp, ⟨ve, hve⟩, hwi⟩
  refine ⟨(M.good_leaf _).2 ⟨hsl, hN, ?_⟩, ?_⟩
  · intro y hy
    simp only [leafAtoms, Leaf.c, GC.atoms, List.mem_flatMap, List.mem_map] at hy
    obtain ⟨m, ⟨a, ⟨b, hb, rfl⟩, rfl⟩, hy⟩ := hy
    simp only [GS.atoms, List.mem_singleton] at hy
    subst hy
    exact hW b (by simp [leafAtoms, Leaf.c, GC.atoms, GS.atoms, hb])
  · rw [M.sem_leaf, strLeaf_atomic_eval hsl rfl hve, e0]
    exact GC.invert_G _ _ hinv ve

theorem atomsOf?_atoms : ∀ (as : List Generic.Atom), atomsOf? (as.map (fun a => GC.s (.atom a))) = some as
  | [] => rfl
  | a :: as => by simp [atomsOf?, atomsOf?_atoms as]

/-- **inverting an `AtomicMarkerUnion`** over `==` atoms (`v == "a" or v == "b"` ↦ `v != "a" and v != "b"`) -/
theorem invert_aunion_str {E : Env} {n : String} {as : List Generic.Atom}
    (h : InvStrLeaf E (.aunion n (.union (as.map GS.atom)))) (heq : ∀ a ∈ as, a.op = .eq) {r : M}
    (hi : Leaf.invert (.aunion n (.union (as.map GS.atom))) = .ok r) :
    M.Good (InvStrLeaf E) r ∧ M.sem (leafEval E) r = !leafEval E (.aunion n (.union (as.map GS.atom))) := by
  obtain ⟨hs, hN, hW⟩ := h
  have hs' := hs
  obtain ⟨hx, hp, ⟨ve, hve⟩, hw⟩ := hs
  have e0 := strLeaf_atomic_eval hs' (l := .aunion n (.union (as.map GS.atom))) rfl hve
  have hxs : ∀ a ∈ as, a.x = false := by
    intro a ha
    have := hw
    simp only [GC.wfG, Bool.and_eq_true, List.all_eq_true, List.mem_map] at this
    have := this.2 (.atom a) ⟨a, ha, rfl⟩
    simp [GS.wfG] at this; exact this.1
  let g : Generic.Atom → Generic.Atom := fun a => ⟨a.value, .ne, false⟩
  have hmap : Generic.mapE GS.invert (as.map GS.atom) = .ok ((as.map g).map (fun a => GC.s (.atom a))) := by
    have := gmapE_ok GS.invert (fun m => match m with | GS.atom a => GC.s (.atom (g a)) | _ => default)
      (as.map GS.atom) (by
        intro m hm
        simp only [List.mem_map] at hm
        obtain ⟨a, ha, rfl⟩ := hm
        have h1 := hxs a ha
        have h2 := heq a ha
        cases a with | mk v op ax =>
        simp only at h1 h2; subst h1; subst h2
        simp [GS.invert, Op.inv_eq, g])
    rw [this]; simp [List.map_map, Function.comp_def]
  have hmk : Generic.mkMulti false (as.map g) = .ok (.multi false (as.map g)) := by
    have : (as.map g).any (fun c => !(multiOps false).contains c.op.str) = false := by
      simp only [List.any_map, List.any_eq_false, Function.comp_def]
      intro a _; simp [g, multiOps, Gen.multiOperators, Generic.Op.str]
    simp only [Generic.mkMulti, this, Bool.false_eq_true, if_false]
  have hany : (as.map g).any (fun a => a.x) = false := by simp [List.any_map, g]
  have hinv : (GC.union (as.map GS.atom)).invert = .ok (.s (.multi false (as.map g))) := by
    simp only [GC.invert, unionInvert, hmap]
    rw [atomsOf?_atoms]
    simp only [hany, hmk]
  have hall : ((as.map g).all fun a => [Generic.Op.ne].contains a.op) = true := by
    simp [List.all_map, g]
  simp only [Leaf.invert, hinv, bind, Except.bind, hx, Bool.false_eq_true, if_false, hall, if_true,
    pure, Except.pure] at hi
  cases hi
  have hwi : (GC.s (.multi false (as.map g))).wfG = true := by
    simp [GC.wfG, GS.wfG, List.all_map, g]
  have hsl : StrLeaf E (.amulti n (.s (.multi false (as.map g)))) := ⟨hx, hp, ⟨ve, hve⟩, hwi⟩
  refine ⟨(M.good_leaf _).2 ⟨hsl, hN, ?_⟩, ?_⟩
  · intro y hy
    simp only [leafAtoms, Leaf.c, GC.atoms, GS.atoms, List.mem_map] at hy
    obtain ⟨b, hb, rfl⟩ := hy
    apply hW b
    simp only [leafAtoms, Leaf.c, GC.atoms, List.mem_flatMap, List.mem_map]
    exact ⟨.atom b, ⟨b, hb, rfl⟩, by simp [GS.atoms]⟩
  · rw [M.sem_leaf, strLeaf_atomic_eval hsl rfl hve, e0]
    exact GC.invert_G _ _ hinv ve

/-! ### atomic markers on `extra` -/

def flipOp : Generic.Op → Generic.Op
  | .eq => .ne
  | .ne => .eq
  | o => o

theorem Atom.invert_flip (a : Generic.Atom) (he : a.isEqNe = true) :
    Atom.invert a = .ok ⟨a.value, flipOp a.op, a.x⟩ := by
  cases a with | mk v op x =>
  cases op
  · exact Op.inv_eq v x
  · exact Op.inv_ne v x
  · simp [Atom.isEqNe] at he
  · simp [Atom.isEqNe] at he

theorem flip_isEqNe (a : Generic.Atom) (he : a.isEqNe = true) :
    (⟨a.value, flipOp a.op, a.x⟩ : Generic.Atom).isEqNe = true := by
  cases a with | mk v op x => cases op <;> simp_all [Atom.isEqNe, flipOp]

/-- **inverting an `AtomicMultiMarker` on `extra`** -/
theorem invert_amulti_extra {E : Env} {ex : List String} (hE : E.extras = some ex) {x : Bool}
    {cs : List Generic.Atom} (h : XLeafW QuotableValue (.amulti "extra" (.s (.multi x cs)))) (hne : cs ≠ [])
    {r : M} (hi : Leaf.invert (.amulti "extra" (.s (.multi x cs))) = .ok r) :
    M.Good (XLeafW QuotableValue) r ∧
      M.sem (leafEval E) r = !leafEval E (.amulti "extra" (.s (.multi x cs))) := by
  have h' := h
  obtain ⟨⟨_, hw, _⟩, hW⟩ := h
  have e0 := xLeaf_eval mkExtraOKW_quotable hE h' (l := .amulti "extra" (.s (.multi x cs))) rfl
  obtain ⟨hx0, hcs, _⟩ := wfX_multi hw
  let g : Generic.Atom → Generic.Atom := fun a => ⟨a.value, flipOp a.op, a.x⟩
  have hmap : Generic.mapE Atom.invert cs = .ok (cs.map g) :=
    gmapE_ok _ _ cs (fun a ha => Atom.invert_flip a (hcs a ha).2)
  have hinv : (GC.s (.multi x cs)).invert = .ok (.union ((cs.map g).map GS.atom)) := by
    simp [GC.invert, GS.invert, hmap]
  have hall : ((cs.map g).map GS.atom).all (atomOpsWithin [Generic.Op.eq, Generic.Op.ne]) = true := by
    simp only [List.all_map, List.all_eq_true, Function.comp_def]
    intro a ha
    have := flip_isEqNe a (hcs a ha).2
    simpa [atomOpsWithin, g, Atom.isEqNe] using this
  simp only [Leaf.invert, hinv, bind, Except.bind, beq_self_eq_true, if_true, hall,
    pure, Except.pure] at hi
  cases hi
  have hwi : (GC.union ((cs.map g).map GS.atom)).wfX = true := by
    simp only [GC.wfX, Bool.and_eq_true, Bool.not_eq_true', List.all_eq_true, List.mem_map]
    refine ⟨by cases cs <;> simp_all, ?_⟩
    rintro m ⟨a, ⟨b, hb, rfl⟩, rfl⟩
    have := flip_isEqNe b (hcs b hb).2
    simp only [Atom.isEqNe] at this
    simp [GS.wfX, g, (hcs b hb).1, Atom.isEqNe, this]
  have hsl : XLeafW QuotableValue (.aunion "extra" (.union ((cs.map g).map GS.atom))) := by
    refine ⟨⟨rfl, hwi, _, rfl, hall⟩, ?_⟩
    intro y hy
    simp only [leafAtoms, Leaf.c, GC.atoms, List.mem_flatMap, List.mem_map] at hy
    obtain ⟨m, ⟨a, ⟨b, hb, rfl⟩, rfl⟩, hy⟩ := hy
    simp only [GS.atoms, List.mem_singleton] at hy
    subst hy
    exact hW b (by simp [leafAtoms, Leaf.c, GC.atoms, GS.atoms, hb])
  refine ⟨(M.good_leaf _).2 hsl, ?_⟩
  rw [M.sem_leaf, xLeaf_eval mkExtraOKW_quotable hE hsl rfl, e0]
  exact GC.invert_X _ _ (GC.frag_of_wfX hw) hinv _

/-- **inverting an `AtomicMarkerUnion` on `extra`** whose members mention pairwise different extras -/
theorem invert_aunion_extra {E : Env} {ex : List String} (hE : E.extras = some ex) {as : List Generic.Atom}
    (h : XLeafW QuotableValue (.aunion "extra" (.union (as.map GS.atom))))
    (hnd : (as.map (fun c => c.value)).Nodup) {r : M}
    (hi : Leaf.invert (.aunion "extra" (.union (as.map GS.atom))) = .ok r) :
    M.Good (XLeafW QuotableValue) r ∧
      M.sem (leafEval E) r = !leafEval E (.aunion "extra" (.union (as.map GS.atom))) := by
  have h' := h
  obtain ⟨⟨_, hw, _⟩, hW⟩ := h
  have e0 := xLeaf_eval mkExtraOKW_quotable hE h' (l := .aunion "extra" (.union (as.map GS.atom))) rfl
  have hne : as ≠ [] := by
    intro e; subst e; simp [GC.wfX] at hw
  have hcs : ∀ a ∈ as, a.x = true ∧ a.isEqNe = true := by
    intro a ha
    have := hw
    simp only [GC.wfX, Bool.and_eq_true, List.all_eq_true, List.mem_map] at this
    have := this.2 (.atom a) ⟨a, ha, rfl⟩
    simpa [GS.wfX] using this
  let g : Generic.Atom → Generic.Atom := fun a => ⟨a.value, flipOp a.op, a.x⟩
  have hmap : Generic.mapE GS.invert (as.map GS.atom) = .ok ((as.map g).map (fun a => GC.s (.atom a))) := by
    have := gmapE_ok GS.invert (fun m => match m with | GS.atom a => GC.s (.atom (g a)) | _ => default)
      (as.map GS.atom) (by
        intro m hm
        simp only [List.mem_map] at hm
        obtain ⟨a, ha, rfl⟩ := hm
        simp [GS.invert, Atom.invert_flip a (hcs a ha).2, g])
    rw [this]; simp [List.map_map, Function.comp_def]
  have hany : (as.map g).any (fun a => a.x) = true := by
    cases as with
    | nil => exact absurd rfl hne
    | cons a l => simp [g, (hcs a (by simp)).1]
  have hmk : Generic.mkMulti true (as.map g) = .ok (.multi true (as.map g)) := by
    have : (as.map g).any (fun c => !(multiOps true).contains c.op.str) = false := by
      simp only [List.any_map, List.any_eq_false, Function.comp_def]
      intro a ha
      have := flip_isEqNe a (hcs a ha).2
      cases a with | mk v op ax =>
      cases op <;> simp_all [g, multiOps, Gen.extraMultiOperators, Generic.Op.str, flipOp, Atom.isEqNe]
    simp only [Generic.mkMulti, this, Bool.false_eq_true, if_false]
  have hinv : (GC.union (as.map GS.atom)).invert = .ok (.s (.multi true (as.map g))) := by
    simp only [GC.invert, unionInvert, hmap]
    rw [atomsOf?_atoms]
    simp only [hany, hmk]
  have hall : ((as.map g).all fun a => [Generic.Op.eq, Generic.Op.ne].contains a.op) = true := by
    simp only [List.all_map, List.all_eq_true, Function.comp_def]
    intro a ha
    have := flip_isEqNe a (hcs a ha).2
    simpa [g, Atom.isEqNe] using this
  simp only [Leaf.invert, hinv, bind, Except.bind, beq_self_eq_true, if_true, hall,
    pure, Except.pure] at hi
  cases hi
  have hwi : (GC.s (.multi true (as.map g))).wfX = true := by
    apply wfX_multi_mk
    · intro c hc
      simp only [List.mem_map] at hc
      obtain ⟨b, hb, rfl⟩ := hc
      exact ⟨(hcs b hb).1, flip_isEqNe b (hcs b hb).2⟩
    · simpa [List.map_map, Function.comp_def, g] using hnd
  have hsl : XLeafW QuotableValue (.amulti "extra" (.s (.multi true (as.map g)))) := by
    refine ⟨⟨rfl, hwi, _, _, rfl⟩, ?_⟩
    intro y hy
    simp only [leafAtoms, Leaf.c, GC.atoms, GS.atoms, List.mem_map] at hy
    obtain ⟨b, hb, rfl⟩ := hy
    apply hW b
    simp only [leafAtoms, Leaf.c, GC.atoms, List.mem_flatMap, List.mem_map]
    exact ⟨.atom b, ⟨b, hb, rfl⟩, by simp [GS.atoms]⟩
  refine ⟨(M.good_leaf _).2 hsl, ?_⟩
  rw [M.sem_leaf, xLeaf_eval mkExtraOKW_quotable hE hsl rfl, e0]
  exact GC.invert_X _ _ (GC.frag_of_wfX hw) hinv _

/-! ### packaging -/

/-- leaves of the quotable string/`extra` fragment that are ready to be inverted: every single marker; atomic
multi markers with at least one member; atomic unions over `==` atoms (string variables) resp. over pairwise
different extras -/
def InvReady (E : Env) : Leaf → Prop
  | .single s => InvLeaf E (.single s)
  | .amulti n c => InvLeaf E (.amulti n c) ∧ ∃ x cs, c = .s (.multi x cs) ∧ cs ≠ []
  | .aunion n c => InvLeaf E (.aunion n c) ∧ ∃ as : List Generic.Atom, c = .union (as.map GS.atom) ∧
      ((n = "extra" ∧ (as.map (fun c => c.value)).Nodup) ∨ (n ≠ "extra" ∧ ∀ a ∈ as, a.op = Generic.Op.eq))

theorem invReady_ok {E : Env} {ex : List String} (hE : E.extras = some ex) {l : Leaf} (h : InvReady E l) :
    InvLeaf E l ∧ InvOK (leafEval E) (InvLeaf E) l := by
  cases l with
  | single s => exact ⟨h, invOK_single hE h⟩
  | amulti n c =>
    obtain ⟨hl, x, cs, rfl, hne⟩ := h
    refine ⟨hl, ?_⟩
    intro r hi
    rcases hl with hl | hl
    · obtain ⟨g, e⟩ := invert_amulti_str hl hne hi
      exact ⟨M.good_mono (fun l hl => Or.inl hl) r g, e⟩
    · have hn : n = "extra" := hl.1.1
      subst hn
      obtain ⟨g, e⟩ := invert_amulti_extra hE hl hne hi
      exact ⟨M.good_mono (fun l hl => Or.inr hl) r g, e⟩
  | aunion n c =>
    obtain ⟨hl, as, rfl, hc⟩ := h
    refine ⟨hl, ?_⟩
    intro r hi
    rcases hl with hl | hl
    · have hx : (n == "extra") = false := hl.1.1
      rcases hc with ⟨hn, _⟩ | ⟨_, heq⟩
      · subst hn; simp at hx
      · obtain ⟨g, e⟩ := invert_aunion_str hl heq hi
        exact ⟨M.good_mono (fun l hl => Or.inl hl) r g, e⟩
    · have hn : n = "extra" := hl.1.1
      subst hn
      rcases hc with ⟨_, hnd⟩ | ⟨hn, _⟩
      · obtain ⟨g, e⟩ := invert_aunion_extra hE hl hnd hi
        exact ⟨M.good_mono (fun l hl => Or.inr hl) r g, e⟩
      · exact absurd rfl hn

/-- **`invert` preserves truth on the quotable string/`extra` fragment** -/
theorem M.invert_sound_inv {E : Env} {ex : List String} (hE : E.extras = some ex) {a r : M}
    (ha : M.Good (InvReady E) a) (h : M.invert a = .ok r) :
    M.Good (InvLeaf E) r ∧ M.sem (leafEval E) r = !M.sem (leafEval E) a :=
  M.invert_sound_on (leafSpec_inv hE) a r (M.good_mono (fun l hl => invReady_ok hE hl) a ha) h

end Poetry.Marker
