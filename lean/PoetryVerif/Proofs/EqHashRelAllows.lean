/-
C18 helper lemmas, part 15 (layer 5 of the `allows` congruence): the loop of `VersionRange.difference(VersionUnion)`,
`VersionUnion._inverted`, `excludes_single_version`, and `allows` of every constraint respect the structural relation;
equal well-formed constraints without degenerate ranges are related.  Hence equal constraints admit the same versions
through `allows` itself — unions with local builds or same-release bounds included, every probe.
-/
import PoetryVerif.Proofs.EqHashRelDiff

set_option linter.unusedSimpArgs false
set_option linter.unusedVariables false

namespace Poetry.EqHash
open Poetry Poetry.Version Poetry.Marker

theorem rngDiffFinish_congr {c c' : RC} {l l' : List RC} (hc : CRel c c') (hl : LRel l l') :
    PRel VCRel (VC.rngDiffFinish c l) (VC.rngDiffFinish c' l') := by
  unfold VC.rngDiffFinish
  rw [hl.isEmpty]
  split
  · exact hc
  · exact unionOfFlat_congr (LRel.append hl (LRel.single hc))

theorem rngDiffUnionLoop_congr : ∀ {rs rs' : List RC}, LRel rs rs' → ∀ {c c' : RC}, CRel c c' →
    ∀ {l l' : List RC}, LRel l l' → PRel VCRel (VC.rngDiffUnionLoop rs c l) (VC.rngDiffUnionLoop rs' c' l')
  | [], [], _, _, _, hc, _, _, hl => by simp only [VC.rngDiffUnionLoop]; exact rngDiffFinish_congr hc hl
  | [], _ :: _, h, _, _, _, _, _, _ => by simp [LRel] at h
  | _ :: _, [], h, _, _, _, _, _, _ => by simp [LRel] at h
  | r :: rest, r' :: rest', h, c, c', hc, l, l', hl => by
    simp only [VC.rngDiffUnionLoop, isStrictlyLower_congr (view_rel h.1) (view_rel hc),
      isStrictlyHigher_congr (view_rel h.1) (view_rel hc)]
    split
    · exact rngDiffUnionLoop_congr h.2 hc hl
    · split
      · exact rngDiffFinish_congr hc hl
      · refine PRel.bind (rcDifference_congr hc h.1) (fun d d' hd => ?_)
        cases d <;> cases d' <;> simp only [VCRel] at hd
        · exact unionOfFlat_congr hl
        · exact rngDiffUnionLoop_congr h.2 hd hl
        · rename_i ds ds'
          have h0 := hd.head?
          have h1 := hd.getLast?
          cases e0 : ds.head? <;> cases e0' : ds'.head? <;> rw [e0, e0'] at h0 <;> simp only [OCRel] at h0
          · simp only [e0, e0']; exact rfl
          · cases e1 : ds.getLast? <;> cases e1' : ds'.getLast? <;> rw [e1, e1'] at h1 <;> simp only [OCRel] at h1
            · simp only [e0, e0', e1, e1']; exact rfl
            · simp only [e0, e0', e1, e1']
              exact rngDiffUnionLoop_congr h.2 h1 (LRel.append hl (LRel.single h0))

theorem inverted_congr {rs rs' : List RC} (h : LRel rs rs') : PRel VCRel (VC.inverted rs) (VC.inverted rs') :=
  rngDiffUnionLoop_congr h (c := .rng VRange.any) (c' := .rng VRange.any) RRel.any LRel.nil

theorem excludedSingleVersion_congr {rs rs' : List RC} (h : LRel rs rs') :
    PRel ORel (VC.excludedSingleVersion rs) (VC.excludedSingleVersion rs') := by
  unfold VC.excludedSingleVersion
  refine PRel.bind (inverted_congr h) (fun d d' hd => ?_)
  cases d <;> cases d' <;> simp only [VCRel] at hd
  · trivial
  · rename_i c c'
    cases c <;> cases c' <;> simp only [CRel] at hd
    · exact hd
    · trivial
  · trivial

/-- **`c.allows(v)` for related constraints and related probes** -/
theorem vcAllows_congr2 {a b : VC} (h : VCRel a b) {v w : Version} (hv : SameBound v w) :
    a.allows v = b.allows w := by
  cases a <;> cases b <;> simp only [VCRel] at h
  · rfl
  · simp only [VC.allows, rcAllows_congr2 h hv]
  · rename_i rs rs'
    have hex := excludedSingleVersion_congr h
    have hany := h.anyAllows hv
    simp only [VC.allows, bind, Except.bind]
    cases e1 : VC.excludedSingleVersion rs <;> cases e2 : VC.excludedSingleVersion rs' <;> rw [e1, e2] at hex <;>
      simp only [PRel] at hex
    · rw [hex]
    · rename_i o o'
      cases o <;> cases o' <;> simp only [ORel] at hex
      · simp only [hany]
      · rename_i ex ex'
        simp only [hex.loc, eqv_congr2 hex hv, hany]

/-! ### equal constraints are related -/

theorem sameBound_of_eqv' {a b : Version} (ha : a.wf = true) (hb : b.wf = true) (h : Version.eqv a b = true) :
    SameBound a b := sameBound_of_eqv ha hb h

theorem ORel_of_optVerEq {x y : Option Version} (hx : ∀ e, x = some e → e.wf = true)
    (hy : ∀ e, y = some e → e.wf = true) (h : optVerEq x y = true) : ORel x y := by
  cases x <;> cases y <;> simp_all [optVerEq, ORel]
  exact sameBound_of_eqv hx hy h

theorem CRel_of_eqv {a b : RC} (ha : rcNonDegenerate a = true) (hb : rcNonDegenerate b = true)
    (hwa : a.wfB) (hwb : b.wfB) (h : RC.eqv a b = true) : CRel a b := by
  cases a with
  | ver x =>
    cases b with
    | ver y =>
      exact sameBound_of_eqv (hwa x (by simp [RC.bounds, RC.view, VRange.bounds, RC.min]))
        (hwb y (by simp [RC.bounds, RC.view, VRange.bounds, RC.min])) h
    | rng r => have := degenerate_of_ver_eqv h; simp [rcNonDegenerate, this] at hb
  | rng r =>
    cases b with
    | ver y => have := degenerate_of_rng_eqv_ver h; simp [rcNonDegenerate, this] at ha
    | rng s =>
      simp only [RC.eqv, RC.view, RC.min, RC.max, RC.imin, RC.imax, VRange.eqv, Bool.and_eq_true, beq_iff_eq] at h
      obtain ⟨⟨⟨h1, h2⟩, h3⟩, h4⟩ := h
      exact ⟨ORel_of_optVerEq (fun e he => hwa e (VRange.mem_bounds_min he)) (fun e he => hwb e (VRange.mem_bounds_min he)) h1,
        ORel_of_optVerEq (fun e he => hwa e (VRange.mem_bounds_max he)) (fun e he => hwb e (VRange.mem_bounds_max he)) h2,
        h3, h4⟩

theorem LRel_of_eqv : ∀ {as bs : List RC}, as.all rcNonDegenerate = true → bs.all rcNonDegenerate = true →
    (∀ c ∈ as, c.wfB) → (∀ c ∈ bs, c.wfB) → rcListEqv as bs = true → LRel as bs
  | [], [], _, _, _, _, _ => trivial
  | [], _ :: _, _, _, _, _, h => by simp [rcListEqv_nil_cons] at h
  | _ :: _, [], _, _, _, _, h => by simp [rcListEqv_cons_nil] at h
  | a :: as, b :: bs, ha, hb, hwa, hwb, h => by
    rw [rcListEqv_cons, Bool.and_eq_true] at h
    simp only [List.all_cons, Bool.and_eq_true] at ha hb
    exact ⟨CRel_of_eqv ha.1 hb.1 (hwa a (by simp)) (hwb b (by simp)) h.1,
      LRel_of_eqv ha.2 hb.2 (fun c hc => hwa c (by simp [hc])) (fun c hc => hwb c (by simp [hc])) h.2⟩

theorem VCRel_of_eqv {a b : VC} (ha : vcNonDegenerate a = true) (hb : vcNonDegenerate b = true)
    (hwa : a.wfB) (hwb : b.wfB) (h : Marker.VC.eqv a b = true) : VCRel a b := by
  cases a with
  | empty => cases b <;> simp_all [Marker.VC.eqv, VC.isEmpty, VCRel]
  | single x =>
    cases b with
    | empty => simp [Marker.VC.eqv, VC.isEmpty] at h
    | union bs => simp [Marker.VC.eqv] at h
    | single y => exact CRel_of_eqv ha hb (hwa x (by simp [VC.flatten])) (hwb y (by simp [VC.flatten])) h
  | union as =>
    cases b with
    | empty => simp [Marker.VC.eqv, VC.isEmpty] at h
    | single y => simp [Marker.VC.eqv] at h
    | union bs =>
      rw [vc_eqv_union] at h
      exact LRel_of_eqv ha hb (fun c hc => hwa c (by simpa [VC.flatten] using hc))
        (fun c hc => hwb c (by simpa [VC.flatten] using hc)) h

/-- **equal constraints admit the same versions through `allows`** — every constraint shape, every probe -/
theorem vc_allows_congr (a b : VC) (ha : vcNonDegenerate a = true) (hb : vcNonDegenerate b = true)
    (hwa : a.wfB) (hwb : b.wfB) (h : Marker.VC.eqv a b = true) (v : Version) : a.allows v = b.allows v :=
  vcAllows_congr2 (VCRel_of_eqv ha hb hwa hwb h) (SameBound.rfl' v)

end Poetry.EqHash
