/-
The requirement recogniser (Model/Requirement.lean) on PRINTED text: `name[e1,e2] (tok,tok) ; marker` and
`name[e1,e2] @ url ; marker`, exactly as `to_pep_508` lays the pieces out (single blanks), is read back into the
same pieces.  Character-list level; the composition with `Dep.toPep508` is in Proofs/DepRoundtrip.lean.
-/
import PoetryVerif.Proofs.Dep

set_option linter.unusedSimpArgs false
set_option linter.unusedVariables false

namespace Poetry.Req
open Poetry Poetry.Marker Poetry.Dep

/-! ### pieces -/

/-- a `NAME` / `EXTRA` token: alphanumeric first character, then `[A-Za-z0-9-_.]*` -/
def Ident (n : List Char) : Prop := ∃ c r, n = c :: r ∧ isAlnum c = true ∧ ∀ x ∈ r, isNameChar x = true

/-- one `LEGACY_VERSION_CONSTRAINT` token as the printers write it: operator immediately followed by a
non-empty value without `, ; )` and white space -/
def SpecTok (t : List Char) : Prop :=
  ∃ a b x, t = a :: b :: x ∧ ∃ op v, takeOp (a :: b :: x) = some (op, v) ∧ a :: b :: x = op ++ v ∧ v ≠ [] ∧
    ∀ c ∈ v, isSpecChar c = true

def commaJoin : List (List Char) → List Char
  | [] => []
  | [t] => t
  | t :: u :: r => t ++ ',' :: commaJoin (u :: r)

def extrasText (es : List (List Char)) : List Char :=
  match es with
  | [] => []
  | _ => '[' :: commaJoin es ++ [']']

def specsText (ts : List (List Char)) : List Char :=
  match ts with
  | [] => []
  | _ => ' ' :: '(' :: commaJoin ts ++ [')']

def urlText (u : Option (List Char)) : List Char :=
  match u with
  | none => []
  | some u => ' ' :: '@' :: ' ' :: u

def markerText (m : Option (List Char)) : List Char :=
  match m with
  | none => []
  | some m => ' ' :: ';' :: ' ' :: m

/-- a URI token as printed: non-empty, no blank, not starting with a tab -/
def UriOK (u : List Char) : Prop := (∃ c r, u = c :: r ∧ c ≠ '\t') ∧ ∀ c ∈ u, c ≠ ' '

/-- a marker text as printed: starts with a non-blank character and is accepted by the marker recogniser -/
def MarkerOK (m : List Char) (syn : Syn) : Prop := skipWs m = m ∧ parseText (String.ofList m) = .ok syn

/-- the optional marker text and the tree the recogniser must return for it -/
def TailOK (mo : Option (List Char)) (so : Option Syn) : Prop :=
  match mo, so with
  | none, none => True
  | some m, some syn => MarkerOK m syn
  | _, _ => False

/-! ### small facts -/

theorem skipWs_nonblank (c : Char) (r : List Char) (h1 : c ≠ ' ') (h2 : c ≠ '\t') : skipWs (c :: r) = c :: r := by
  unfold skipWs
  split
  · rename_i heq; injection heq with e _; exact absurd e h1
  · rename_i heq; injection heq with e _; exact absurd e h2
  · rfl

theorem skipWs_idem (l : List Char) : skipWs (skipWs l) = skipWs l := by
  induction l with
  | nil => rfl
  | cons c r ih =>
    by_cases h1 : c = ' '
    · subst h1; simpa [skipWs] using ih
    · by_cases h2 : c = '\t'
      · subst h2; simpa [skipWs] using ih
      · rw [skipWs_nonblank c r h1 h2, skipWs_nonblank c r h1 h2]

theorem alnum_nonblank {c : Char} (h : isAlnum c = true) : c ≠ ' ' ∧ c ≠ '\t' := by
  constructor <;> (intro e; subst e; simp [isAlnum, isDigit, isLowerAlpha] at h)

theorem Ident.skipWs {n : List Char} (h : Ident n) (r : List Char) : skipWs (n ++ r) = n ++ r := by
  obtain ⟨c, x, rfl, hc, _⟩ := h
  exact skipWs_nonblank c _ (alnum_nonblank hc).1 (alnum_nonblank hc).2

/-- the continuation of a NAME token: nothing, or a character outside `[A-Za-z0-9-_.]` -/
def NameStop (r : List Char) : Prop := ∀ c q, r = c :: q → isNameChar c = false

theorem takeName_ident {n : List Char} (h : Ident n) (r : List Char) (hr : NameStop r) :
    takeName (n ++ r) = some (n, r) := by
  obtain ⟨c, x, rfl, hc, hx⟩ := h
  have := takeWhileC_append isNameChar x r hx hr
  simp [takeName, hc, this]

/-! ### `[e1,e2]` -/

theorem takeExtras_join (es : List (List Char)) (hne : es ≠ []) (hi : ∀ e ∈ es, Ident e) (rest : List Char) (fuel : Nat)
    (hf : es.length ≤ fuel) : takeExtras fuel (commaJoin es ++ ']' :: rest) = some (es, ']' :: rest) := by
  induction es generalizing fuel with
  | nil => exact absurd rfl hne
  | cons e es ih =>
    cases fuel with
    | zero => simp at hf
    | succ fuel =>
      have he := hi e (by simp)
      cases es with
      | nil =>
        have h1 : skipWs (e ++ ']' :: rest) = e ++ ']' :: rest := he.skipWs _
        have h2 : takeName (e ++ ']' :: rest) = some (e, ']' :: rest) :=
          takeName_ident he _ (by intro c q hq; injection hq with hq _; subst hq; decide)
        simp only [commaJoin, takeExtras, h1, h2]
        rw [skipWs_nonblank ']' rest (by decide) (by decide)]
        simp
      | cons e2 es2 =>
        have h1 : skipWs (e ++ ',' :: (commaJoin (e2 :: es2) ++ ']' :: rest)) = e ++ ',' :: (commaJoin (e2 :: es2) ++ ']' :: rest) :=
          he.skipWs _
        have h2 : takeName (e ++ ',' :: (commaJoin (e2 :: es2) ++ ']' :: rest)) = some (e, ',' :: (commaJoin (e2 :: es2) ++ ']' :: rest)) :=
          takeName_ident he _ (by intro c q hq; injection hq with hq _; subst hq; decide)
        have ih' := ih (by simp) (fun x hx => hi x (by simp [hx])) fuel (by simp at hf ⊢; omega)
        have e0 : commaJoin (e :: e2 :: es2) ++ ']' :: rest = e ++ ',' :: (commaJoin (e2 :: es2) ++ ']' :: rest) := by
          simp [commaJoin]
        rw [e0]
        simp only [takeExtras, h1, h2]
        rw [skipWs_nonblank ',' _ (by decide) (by decide)]
        simp only [ih']

theorem length_le_commaJoin : ∀ (es : List (List Char)), (∀ e ∈ es, e ≠ []) → es.length ≤ (commaJoin es).length
  | [], _ => by simp
  | [e], h => by
    have := h e (by simp)
    cases e with
    | nil => exact absurd rfl this
    | cons c x => simp [commaJoin]
  | e :: e2 :: r, h => by
    have ih := length_le_commaJoin (e2 :: r) (fun y hy => h y (by simp [hy]))
    simp only [commaJoin, List.length_cons, List.length_append] at ih ⊢
    omega

theorem takeBracket_join (es : List (List Char)) (hne : es ≠ []) (hi : ∀ e ∈ es, Ident e) (rest : List Char) :
    takeBracket (commaJoin es ++ ']' :: rest) = some (es, rest) := by
  obtain ⟨e, es', rfl⟩ : ∃ e es', es = e :: es' := by cases es with | nil => exact absurd rfl hne | cons e es' => exact ⟨e, es', rfl⟩
  have he := hi e (by simp)
  obtain ⟨c, x, hcx, hc, _⟩ := he
  have hhead : ∃ q, commaJoin (e :: es') ++ ']' :: rest = c :: q := by
    subst hcx; cases es' <;> simp [commaJoin]
  obtain ⟨q, hq⟩ := hhead
  have hs : skipWs (commaJoin (e :: es') ++ ']' :: rest) = commaJoin (e :: es') ++ ']' :: rest := by
    rw [hq]; exact skipWs_nonblank c q (alnum_nonblank hc).1 (alnum_nonblank hc).2
  have hc' : c ≠ ']' := by intro e; subst e; simp [isAlnum, isDigit, isLowerAlpha] at hc
  have ht := takeExtras_join (e :: es') (by simp) hi rest ((commaJoin (e :: es') ++ ']' :: rest).length + 1) (by
    have : (e :: es').length ≤ (commaJoin (e :: es')).length :=
      length_le_commaJoin _ (fun y hy => by obtain ⟨c', x', h', _, _⟩ := hi y hy; subst h'; simp)
    simp only [List.length_cons, List.length_append] at this ⊢; omega)
  unfold takeBracket
  rw [hs, hq]
  rw [hq] at ht
  split
  · rename_i heq; injection heq with e1 _; exact absurd e1 hc'
  · simp only [ht]
    rw [skipWs_nonblank ']' rest (by decide) (by decide)]
    all_goals rfl

/-! ### `(tok,tok)` -/

theorem takeOp_append (a b : Char) (x y op v : List Char) (h : takeOp (a :: b :: x) = some (op, v)) :
    takeOp (a :: b :: (x ++ y)) = some (op, v ++ y) := by
  unfold takeOp at h ⊢
  split at h <;> (try cases h) <;> simp_all
  all_goals (
    rename_i hne heq
    obtain ⟨rfl, rfl⟩ := heq
    have hb : b ≠ '=' := fun e => hne x (by rw [e])
    split <;> simp_all)

theorem takeOp_head (s op v : List Char) (h : takeOp s = some (op, v)) :
    ∃ c q, s = c :: q ∧ (c = '~' ∨ c = '=' ∨ c = '!' ∨ c = '<' ∨ c = '>') := by
  unfold takeOp at h
  split at h <;> simp_all

theorem specChar_nonblank {c : Char} (h : isSpecChar c = true) : c ≠ ' ' ∧ c ≠ '\t' ∧ isSpace c = false := by
  simp only [isSpecChar, Bool.not_eq_true', Bool.or_eq_false_iff] at h
  refine ⟨?_, ?_, h.2⟩ <;> (intro e; subst e; simp [isSpace] at h)

/-- the continuation of a spec token inside the list: `,` or `)` -/
def SpecStop (r : List Char) : Prop := ∃ q, r = ',' :: q ∨ r = ')' :: q

theorem takeSpec_tok {t : List Char} (h : SpecTok t) (r : List Char) (hr : SpecStop r) :
    skipWs (t ++ r) = t ++ r ∧ takeSpec (t ++ r) = some (t, r) := by
  obtain ⟨a, b, x, rfl, op, v, hop, hsplit, hv, hchars⟩ := h
  have hop' : takeOp (a :: b :: (x ++ r)) = some (op, v ++ r) := takeOp_append a b x r op v hop
  obtain ⟨v0, v', rfl⟩ : ∃ v0 v', v = v0 :: v' := by cases v with | nil => exact absurd rfl hv | cons v0 v' => exact ⟨v0, v', rfl⟩
  have hv0 := specChar_nonblank (hchars v0 (by simp))
  have h1 : takeWhileC isSpace (v0 :: v' ++ r) = ([], v0 :: v' ++ r) := by simp [takeWhileC, hv0.2.2]
  have hstop : ∀ c q, r = c :: q → isSpecChar c = false := by
    intro c q hq
    obtain ⟨q', h | h⟩ := hr <;> (rw [h] at hq; injection hq with e _; subst e; decide)
  have h2 : takeWhileC isSpecChar (v0 :: v' ++ r) = (v0 :: v', r) := takeWhileC_append isSpecChar _ r hchars hstop
  have ha : a ≠ ' ' ∧ a ≠ '\t' := by
    obtain ⟨c, q, hcq, hc⟩ := takeOp_head _ _ _ hop
    injection hcq with e1 _
    subst e1
    rcases hc with rfl | rfl | rfl | rfl | rfl <;> (constructor <;> decide)
  refine ⟨skipWs_nonblank a _ ha.1 ha.2, ?_⟩
  show takeSpec (a :: b :: (x ++ r)) = _
  simp only [takeSpec, hop', h1, h2, List.append_nil]
  rw [← hsplit]

theorem takeSpecs_join (ts : List (List Char)) (hne : ts ≠ []) (ht : ∀ t ∈ ts, SpecTok t) (rest : List Char) (fuel : Nat)
    (hf : ts.length ≤ fuel) : takeSpecs fuel (commaJoin ts ++ ')' :: rest) = some (ts, ')' :: rest) := by
  induction ts generalizing fuel with
  | nil => exact absurd rfl hne
  | cons t ts ih =>
    cases fuel with
    | zero => simp at hf
    | succ fuel =>
      have htk := ht t (by simp)
      cases ts with
      | nil =>
        obtain ⟨h1, h2⟩ := takeSpec_tok htk (')' :: rest) ⟨rest, Or.inr rfl⟩
        simp only [commaJoin, takeSpecs, h1, h2]
        rw [skipWs_nonblank ')' rest (by decide) (by decide)]
        rfl
      | cons t2 ts2 =>
        obtain ⟨h1, h2⟩ := takeSpec_tok htk (',' :: (commaJoin (t2 :: ts2) ++ ')' :: rest)) ⟨_, Or.inl rfl⟩
        have ih' := ih (by simp) (fun x hx => ht x (by simp [hx])) fuel (by simp at hf ⊢; omega)
        have e0 : commaJoin (t :: t2 :: ts2) ++ ')' :: rest = t ++ ',' :: (commaJoin (t2 :: ts2) ++ ')' :: rest) := by
          simp [commaJoin]
        rw [e0]
        simp only [takeSpecs, h1, h2]
        rw [skipWs_nonblank ',' _ (by decide) (by decide)]
        simp only [ih']

theorem SpecTok.ne_nil {t : List Char} (h : SpecTok t) : t ≠ [] := by
  obtain ⟨a, b, x, rfl, _⟩ := h; simp

/-! ### tail -/

theorem takeTail_marker (mo : Option (List Char)) (so : Option Syn)
    (h : TailOK mo so) :
    takeTail (markerText mo) = some so := by
  cases mo with
  | none => cases so with
    | none => rfl
    | some _ => exact absurd h (by simp [TailOK])
  | some m => cases so with
    | none => exact absurd h (by simp [TailOK])
    | some syn =>
      obtain ⟨h1, h2⟩ : MarkerOK m syn := h
      have e1 : skipWs (' ' :: ';' :: ' ' :: m) = ';' :: ' ' :: m := by
        simp only [skipWs]; exact skipWs_nonblank ';' _ (by decide) (by decide)
      have e2 : skipWs (' ' :: m) = m := by simp only [skipWs]; exact h1
      simp only [markerText, takeTail, e1, e2, h2]

theorem markerText_skip (mo : Option (List Char)) :
    skipWs (markerText mo) = (match mo with | none => [] | some m => ';' :: ' ' :: m) := by
  cases mo with
  | none => rfl
  | some m => simp only [markerText, skipWs]; exact skipWs_nonblank ';' _ (by decide) (by decide)

/-! ### the whole requirement -/

/-- **the recogniser reads a printed registry requirement back**: `name[extras] (tok,…) ; marker` with identifier
name and extras, printed spec tokens and an accepted marker text gives exactly these pieces -/
theorem parseRaw_registry (name : List Char) (es ts : List (List Char)) (mo : Option (List Char)) (so : Option Syn)
    (hn : Ident name) (he : ∀ e ∈ es, Ident e) (ht : ∀ t ∈ ts, SpecTok t)
    (hm : TailOK mo so) :
    parseRaw (name ++ extrasText es ++ specsText ts ++ markerText mo) =
      some (mkRaw name es (match ts with | [] => none | _ => some ts) none so) := by
  -- the text after the name
  have hstop : NameStop (extrasText es ++ specsText ts ++ markerText mo) := by
    intro c q hq
    cases es with
    | cons e es' => simp [extrasText] at hq; rw [← hq.1]; decide
    | nil =>
      cases ts with
      | cons t ts' => simp [extrasText, specsText] at hq; rw [← hq.1]; decide
      | nil =>
        cases mo with
        | some m => simp [extrasText, specsText, markerText] at hq; rw [← hq.1]; decide
        | none => simp [extrasText, specsText, markerText] at hq
  have e0 : name ++ extrasText es ++ specsText ts ++ markerText mo = name ++ (extrasText es ++ specsText ts ++ markerText mo) := by
    simp [List.append_assoc]
  rw [e0]
  unfold parseRaw
  rw [hn.skipWs, takeName_ident hn _ hstop]
  simp only []
  -- extras
  have hext : ∃ r2, parseExtras (skipWs (extrasText es ++ specsText ts ++ markerText mo)) = some (es, r2) ∧
      skipWs r2 = skipWs (specsText ts ++ markerText mo) := by
    cases es with
    | nil =>
      refine ⟨skipWs (specsText ts ++ markerText mo), ?_, skipWs_idem _⟩
      simp only [extrasText, List.nil_append]
      unfold parseExtras
      split
      · rename_i r heq
        -- the text after the name does not start with '['
        exfalso
        cases ts with
        | cons t ts' =>
          simp only [specsText, List.cons_append, skipWs] at heq
          rw [skipWs_nonblank '(' _ (by decide) (by decide)] at heq
          injection heq with h1 _; exact absurd h1 (by decide)
        | nil =>
          simp only [specsText, List.nil_append] at heq
          rw [markerText_skip] at heq
          cases mo with
          | none => simp at heq
          | some m => simp at heq
      · rfl
    | cons e es' =>
      refine ⟨specsText ts ++ markerText mo, ?_, rfl⟩
      have : extrasText (e :: es') ++ specsText ts ++ markerText mo =
          '[' :: (commaJoin (e :: es') ++ ']' :: (specsText ts ++ markerText mo)) := by
        simp [extrasText, List.append_assoc]
      rw [this, skipWs_nonblank '[' _ (by decide) (by decide)]
      unfold parseExtras
      simp only []
      exact takeBracket_join (e :: es') (by simp) he _
  obtain ⟨r2, h1, h2⟩ := hext
  rw [h1]
  simp only [h2]
  -- specs and tail
  cases ts with
  | nil =>
    simp only [specsText, List.nil_append]
    rw [markerText_skip]
    cases mo with
    | none =>
      cases so with
      | none => simp [parseRest, takeOp, takeTail, skipWs, mkRaw]
      | some _ => exact absurd hm (by simp [TailOK])
    | some m =>
      cases so with
      | none => exact absurd hm (by simp [TailOK])
      | some syn =>
        have hm' : MarkerOK m syn := hm
        have e2 : skipWs (' ' :: m) = m := by simp only [skipWs]; exact hm'.1
        have e1 : skipWs (';' :: ' ' :: m) = ';' :: ' ' :: m := skipWs_nonblank ';' _ (by decide) (by decide)
        simp [parseRest, takeOp, takeTail, e1, e2, hm'.2, mkRaw]
  | cons t ts' =>
    have e3 : specsText (t :: ts') ++ markerText mo = ' ' :: '(' :: (commaJoin (t :: ts') ++ ')' :: markerText mo) := by
      simp [specsText, List.append_assoc]
    rw [e3]
    simp only [skipWs]
    rw [skipWs_nonblank '(' _ (by decide) (by decide)]
    have hts := takeSpecs_join (t :: ts') (by simp) ht (markerText mo)
      ((commaJoin (t :: ts') ++ ')' :: markerText mo).length + 1) (by
        have := length_le_commaJoin (t :: ts') (fun y hy => (ht y hy).ne_nil)
        simp only [List.length_cons, List.length_append] at this ⊢; omega)
    simp only [parseRest, hts]
    rw [skipWs_nonblank ')' _ (by decide) (by decide)]
    simp only [takeTail_marker mo so hm, Option.map]

/-- **the recogniser reads a printed direct-reference requirement back**: `name[extras] @ url ; marker` -/
theorem parseRaw_url (name : List Char) (es : List (List Char)) (u : List Char) (mo : Option (List Char)) (so : Option Syn)
    (hn : Ident name) (he : ∀ e ∈ es, Ident e) (hu : UriOK u)
    (hm : TailOK mo so) :
    parseRaw (name ++ extrasText es ++ urlText (some u) ++ markerText mo) = some (mkRaw name es none (some u) so) := by
  have hstop : NameStop (extrasText es ++ urlText (some u) ++ markerText mo) := by
    intro c q hq
    cases es with
    | cons e es' => simp [extrasText] at hq; rw [← hq.1]; decide
    | nil => simp [extrasText, urlText] at hq; rw [← hq.1]; decide
  have e0 : name ++ extrasText es ++ urlText (some u) ++ markerText mo =
      name ++ (extrasText es ++ urlText (some u) ++ markerText mo) := by simp [List.append_assoc]
  rw [e0]
  unfold parseRaw
  rw [hn.skipWs, takeName_ident hn _ hstop]
  simp only []
  have hT : skipWs (urlText (some u) ++ markerText mo) = '@' :: ' ' :: (u ++ markerText mo) := by
    simp only [urlText, List.cons_append, skipWs]
    exact skipWs_nonblank '@' _ (by decide) (by decide)
  have hext : ∃ r2, parseExtras (skipWs (extrasText es ++ urlText (some u) ++ markerText mo)) = some (es, r2) ∧
      skipWs r2 = skipWs (urlText (some u) ++ markerText mo) := by
    cases es with
    | nil =>
      refine ⟨skipWs (urlText (some u) ++ markerText mo), ?_, skipWs_idem _⟩
      simp only [extrasText, List.nil_append]
      rw [hT]
      rfl
    | cons e es' =>
      refine ⟨urlText (some u) ++ markerText mo, ?_, rfl⟩
      have : extrasText (e :: es') ++ urlText (some u) ++ markerText mo =
          '[' :: (commaJoin (e :: es') ++ ']' :: (urlText (some u) ++ markerText mo)) := by
        simp [extrasText, List.append_assoc]
      rw [this, skipWs_nonblank '[' _ (by decide) (by decide)]
      unfold parseExtras
      simp only []
      exact takeBracket_join (e :: es') (by simp) he _
  obtain ⟨r2, h1, h2⟩ := hext
  rw [h1]
  simp only [h2, hT]
  obtain ⟨⟨c, r, hcr, hct⟩, hall⟩ := hu
  have hcs : c ≠ ' ' := hall c (by rw [hcr]; simp)
  have e1 : skipWs (' ' :: (u ++ markerText mo)) = u ++ markerText mo := by
    simp only [skipWs]; rw [hcr]; exact skipWs_nonblank c _ hcs hct
  have e2 : takeWhileC (fun c => c != ' ') (u ++ markerText mo) = (u, markerText mo) := by
    apply takeWhileC_append
    · intro x hx; simpa using hall x hx
    · intro x q hq
      cases mo with
      | none => simp [markerText] at hq
      | some m => simp [markerText] at hq; rw [← hq.1]; decide
  have e3 : takeUri (u ++ markerText mo) = some (u, markerText mo) := by
    unfold takeUri
    rw [e2, hcr]
  simp only [parseRest, e1, e3, takeTail_marker mo so hm, Option.map]

end Poetry.Req
