/-
`_merge_single_markers` on two leaves `python_version >= "L"` / `python_version < "H"` (literals of one or two
components): the outcome is Empty, Any or one of the two operands, and it means the conjunction / disjunction --
provided the candidate `python_version == "a.b"` of a pair `>= "a.b"`, `< H` is not taken (`H` is not `a.(b+1)`).
Every other path of the function (re-built leaf, union of the conversions) is shown not to be reached.
-/
import PoetryVerif.Proofs.PyConvOneLeaf

set_option linter.unusedSimpArgs false
set_option linter.unusedVariables false

namespace Poetry.Marker
open Poetry Poetry.Version

/-- the conversion of the candidate `python_version == "a.b"` -/
theorem pvEq_gpc (a b : Nat) :
    gpcLeaf (.single (pvLeafOf .eq "==" a b)) = .ok (gpcOf .eq a b) := by
  have h : (Spec.SOp.eq, "==") ∈ pvOps := by decide
  obtain ⟨_, _, hop⟩ := pvOps_facts h (litV a [b])
  obtain ⟨item, hitem, hp⟩ := gpc_parse h a b
  obtain ⟨item', hitem', hok, hstar, _⟩ := normPair_shape "python_version" "==" [a, b] hop (.short a b)
  rw [hitem] at hitem'
  have hii : item = item' := Except.ok.inj hitem'
  subst hii
  have hne : item ≠ "*" := by intro e; apply hstar; rw [e]; rfl
  rw [gpcLeaf_single (pvLeafOf .eq "==" a b) item (show isPyName "python_version" = true by decide) hop hitem,
    VParser.parseMarkerVersionConstraint, parseConstraintAux_single item true hok.nosep hne, hp]

theorem vc_eqv_refl_rng (R : VRange) (hw : ∀ e ∈ R.bounds, e.wf = true) :
    VC.eqv (.single (.rng R)) (.single (.rng R)) = true := by
  obtain ⟨mn, mx, i1, i2⟩ := R
  have hr : ∀ v : Version, Version.eqv v v = true := fun v => (eqv_iff v v).2 rfl
  cases mn <;> cases mx <;> simp [VC.eqv, RC.eqv, VRange.eqv, RC.view, RC.min, RC.max, RC.imin, RC.imax, optVerEq, hr]


set_option hygiene false in
/-- the outcomes Empty, Any, one of the operands; leaves the test `is_simple` as the remaining goal -/
macro "one_common" : tactic => `(tactic| (
  by_cases q1 : (LeafC.ver r0).isEmpty = true
  · rw [if_pos q1, pure_ok] at h; cases h
    have := vc_allowsPlain_of_isEmpty (c := r0) q1 (pvProbe X Y)
    exact ⟨Or.inl rfl, by rw [M.sem_empty, this]⟩
  rw [if_neg q1] at h
  by_cases q2 : (LeafC.ver r0).isAny = true
  · rw [if_pos q2, pure_ok] at h; cases h
    have := vc_allowsPlain_of_isAny (c := r0) q2 (pvProbe X Y)
    exact ⟨Or.inr (Or.inl rfl), by rw [M.sem_any, this]⟩
  rw [if_neg q2] at h
  by_cases q3 : (LeafC.ver r0).eqv (LeafC.ver (VC.single (RC.rng R1))) = true
  · rw [if_pos q3, pure_ok] at h; cases h
    refine ⟨Or.inr (Or.inr (Or.inl rfl)), ?_⟩
    rw [M.sem_leaf]
    have := (eqvAllows B) r0 (VC.single (RC.rng R1)) hr0.1 hr1.1 hr0.2 hr1.2 q3 (pvProbe X Y)
    rw [this, ← e1]
  rw [if_neg q3] at h
  by_cases q4 : (LeafC.ver r0).eqv (LeafC.ver (VC.single (RC.rng R2))) = true
  · rw [if_pos q4, pure_ok] at h; cases h
    refine ⟨Or.inr (Or.inr (Or.inr rfl)), ?_⟩
    rw [M.sem_leaf]
    have := (eqvAllows B) r0 (VC.single (RC.rng R2)) hr0.1 hr2.1 hr0.2 hr2.2 q4 (pvProbe X Y)
    rw [this, ← e2]
  rw [if_neg q4] at h
  obtain ⟨bsimple, hb, h⟩ := bind_ok.1 h))

theorem oneLeaf_merge {E : Env} {X Y : Nat} (hE : E.get? "python_version" = some (Version.relText [X, Y]))
    {s1 s2 : Single} {R1 R2 : VRange} (h1 : OneLeaf s1 R1) (h2 : OneLeaf s2 R2)
    (hna : ∀ a b W, (R1 = geR (litV a [b]) ∨ R2 = geR (litV a [b])) → (R1 = ltR W ∨ R2 = ltR W) →
      Version.eqv (finalV [a, b + 1]) W = false)
    (im : Bool) (r : M) (h : mergeLeaves (.single s1) (.single s2) im = .ok (some r)) :
    (r = .empty ∨ r = .any ∨ r = .leaf (.single s1) ∨ r = .leaf (.single s2)) ∧
      M.sem (leafEval E) r = (if im then (leafEval E (.single s1) && leafEval E (.single s2))
        else (leafEval E (.single s1) || leafEval E (.single s2))) := by
  have hn1 := h1.name
  have hn2 := h2.name
  have hc1 := h1.c
  have hc2 := h2.c
  have ok1 := h1.ok
  have ok2 := h2.ok
  have e1 := h1.leafEval hE
  have e2 := h2.leafEval hE
  have k1 := h1.gpc
  have k2 := h2.gpc
  let B : List Version := boundsOf (VC.single (RC.rng R1)).flatten ++ boundsOf (VC.single (RC.rng R2)).flatten
  have hr1 : RegVC B (VC.single (RC.rng R1)) :=
    RegVC.mono (fun e he => List.mem_append_left _ he) (regVC_of_ok' ok1)
  have hr2 : RegVC B (VC.single (RC.rng R2)) :=
    RegVC.mono (fun e he => List.mem_append_right _ he) (regVC_of_ok' ok2)
  have hpb : ∀ e ∈ B, PyBound e = true := by
    intro e he
    simp only [B, List.mem_append, boundsOf, List.mem_flatMap] at he
    rcases he with ⟨c, hc, hec⟩ | ⟨c, hc, hec⟩
    · exact (ok1.2 c hc).2.2.2 e hec
    · exact (ok2.2 c hc).2.2.2 e hec
  have hB := regB_of_pyBound B hpb
  have hp : (pvProbe X Y).wf = true := litV_wf X [Y]
  have hregp : Regular B (pvProbe X Y) := regular_final B hpb [X, Y]
  have hreg := regular_sub hregp hr1 hr2
  simp only [mergeLeaves] at h
  rw [mergeSingle.eq_def] at h
  dsimp only at h
  simp only [Leaf.name, hn1, hn2, show ("python_version" == "python_full_version") = false from by decide,
    Bool.and_false, Bool.false_and, Bool.or_self, Bool.false_eq_true, if_false, bne_self_eq_false, Leaf.c,
    hc1, hc2] at h
  have key : ∃ r0, (if im = true then (LeafC.ver (VC.single (RC.rng R1))).intersect (.ver (VC.single (RC.rng R2)))
          else (LeafC.ver (VC.single (RC.rng R1))).union (.ver (VC.single (RC.rng R2)))) = .ok (.ver r0) ∧
        RegVC B r0 ∧
        (if im = true then RC.rngIntersectRng R1 R2 = .ok r0 else RC.union (.rng R1) (.rng R2) = .ok r0) ∧
        r0.allowsPlain (pvProbe X Y) =
          (if im = true then ((VC.single (RC.rng R1)).allowsPlain (pvProbe X Y) &&
              (VC.single (RC.rng R2)).allowsPlain (pvProbe X Y))
            else ((VC.single (RC.rng R1)).allowsPlain (pvProbe X Y) ||
              (VC.single (RC.rng R2)).allowsPlain (pvProbe X Y))) := by
    cases im
    · obtain ⟨r0, a, b, c, d⟩ := VC.unionWith_reg hB _ _ hr1.1 hr2.1 hr1.2 hr2.2
      exact ⟨r0, by simp [LeafC.union, a, Except.map], ⟨b, c⟩, by simpa [VC.unionWith] using a,
        by simp [d _ hp hreg]⟩
    · obtain ⟨r0, a, b, c, d⟩ := VC.intersect_reg hB _ _ hr1.1 hr2.1 hr1.2 hr2.2
      exact ⟨r0, by simp [LeafC.intersect, a, Except.map], ⟨b, c⟩, by simpa [VC.intersect, RC.intersect] using a,
        by simp [d _ hp hreg]⟩
  obtain ⟨r0, hk, hr0, hop0, hden⟩ := key
  have hgoal : (if im = true then (leafEval E (.single s1) && leafEval E (.single s2))
      else (leafEval E (.single s1) || leafEval E (.single s2))) =
      r0.allowsPlain (pvProbe X Y) := by rw [hden, e1, e2]
  rw [hgoal]
  have rfl1 := vc_eqv_refl_rng R1 (fun e he => PyBound_wf (h1.bounds e he))
  have rfl2 := vc_eqv_refl_rng R2 (fun e he => PyBound_wf (h2.bounds e he))
  cases im
  · simp only [Bool.false_eq_true, if_false] at h hk hden hop0 ⊢
    obtain ⟨rc, hrc, h⟩ := bind_ok.1 h
    rw [hk] at hrc; cases hrc
    have hsh := union_shape h1.oneSided h2.oneSided h1.bounds h2.bounds hop0
    one_common
    rcases hsh with rfl | rfl | rfl | ⟨V, W, hV, hW, hlt, rfl⟩
    · exact absurd (by simp [LeafC.isAny, VC.isAny, RC.isAny, VRange.isAny, VRange.any]) q2
    · exact absurd rfl1 q3
    · exact absurd rfl2 q4
    · have hinv := inverted_two_sided W V hlt
      have hns : (VC.union [.rng (ltR W), .rng (geR V)]).isSimple = .ok false := by
        simp [VC.isSimple, VC.excludedSingleVersion, ltR, geR, hinv, bind, Except.bind, pure, Except.pure]
      dsimp only at hb
      rw [hns] at hb; cases hb
      rw [if_neg Bool.false_ne_true] at h
      dsimp only at h
      have hu : (VC.single (RC.rng R1)).unionWith (VC.single (RC.rng R2)) =
          .ok (VC.union [.rng (ltR W), .rng (geR V)]) := hop0
      simp only [k1, k2, hu, bind, Except.bind, VC.isAny, hns, pure, Except.pure, Bool.false_eq_true,
        if_false] at h
      cases h
  · simp only [if_true] at h hk hden hop0 ⊢
    obtain ⟨rc, hrc, h⟩ := bind_ok.1 h
    rw [hk] at hrc; cases hrc
    have hsh := inter_shape h1.oneSided h2.oneSided hop0
    one_common
    rcases hsh with rfl | rfl | rfl | rfl | ⟨V, W, hV, hW, hne, rfl⟩
    · exact absurd (by rfl) q1
    · exact absurd (by simp [LeafC.isAny, VC.isAny, RC.isAny, VRange.isAny, VRange.any]) q2
    · exact absurd rfl1 q3
    · exact absurd rfl2 q4
    · have hns : (VC.single (.rng ⟨some V, some W, true, false⟩)).isSimple = .ok false := rfl
      dsimp only at hb
      rw [hns] at hb; cases hb
      rw [if_neg Bool.false_ne_true] at h
      dsimp only at h
      have hi : (VC.single (RC.rng R1)).intersect (VC.single (RC.rng R2)) =
          .ok (VC.single (.rng ⟨some V, some W, true, false⟩)) := hop0
      -- the tail: the intersection of the conversions is the range itself, not empty
      have tail : ¬ ((do
            let g1 ← gpcLeaf (Leaf.single s1)
            let g2 ← gpcLeaf (Leaf.single s2)
            let i ← g1.intersect g2
            pure (if i.isEmpty = true then some M.empty else none)) = Except.ok (some r)) := by
        intro hh
        simp only [k1, k2, hi, bind, Except.bind, VC.isEmpty, pure, Except.pure, Bool.false_eq_true,
          if_false] at hh
        cases hh
      have hVf : ∃ a t, t.length ≤ 1 ∧ V = litV a t := by
        rcases hV with e | e
        · exact h1.ge_form e
        · exact h2.ge_form e
      obtain ⟨a, t, ht, rfl⟩ := hVf
      match t, ht with
      | [], _ =>
        have hprec : ¬ ((litV a []).precision ≥ 2) := by simp [Version.precision, litV, relVersion]
        rw [if_neg hprec] at h
        simp only [pure_bind] at h
        exact absurd h tail
      | [b], _ =>
        have hprec : (litV a [b]).precision ≥ 2 := by simp [Version.precision, litV, relVersion]
        rw [if_pos hprec] at h
        obtain ⟨candidate, hcq, h⟩ := bind_ok.1 h
        rw [litV_text, cand_text _ (relText_valOk a [b]),
          parseItemMarker_leafText "python_version" "==" _ false (by decide) (by decide) (relText_valOk a [b])] at hcq
        simp only [itemConstraintString, Bool.false_eq_true, if_false,
          mkSingle_pvLeaf (sop := .eq) (ops := "==") (by decide) a b] at hcq
        cases hcq
        dsimp only at h
        obtain ⟨g, hgq, h⟩ := bind_ok.1 h
        rw [pvEq_gpc] at hgq; cases hgq
        have heq : VC.eqv (gpcOf .eq a b)
            (VC.single (RC.rng { min := some (litV a [b]), max := some W, imin := true, imax := false })) = false := by
          simp [gpcOf, VC.eqv, RC.eqv, VRange.eqv, RC.view, RC.min, RC.max, RC.imin, RC.imax, optVerEq,
            hna a b W hV hW]
        simp only [heq, Bool.false_eq_true, if_false] at h
        rw [pure_bind] at h
        exact absurd h tail

end Poetry.Marker
