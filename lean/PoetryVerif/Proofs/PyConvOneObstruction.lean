/-
Why the leaf specification cannot be extended to all comparison operators on one-component `python_version`
literals: `python_version >= "3" and python_version <= "3.0"` merges to `python_version == "3"`, and the union of
`python_version == "3"` with `python_version >= "3.2"` is computed from the conversions (`== "3"` is converted to
`~3` = `>=3,<4`), giving `python_version >= "3"`, which holds on Python 3.1 where neither operand does.
The real code agrees on every step (replayed with PYTHONPATH=/repo/src).
-/
import PoetryVerif.Proofs.PyConvOneNested

set_option linter.unusedSimpArgs false
set_option linter.unusedVariables false

namespace Poetry.Marker
open Poetry

/-- a final release with its text as written -/
def wv (l : List Nat) (t : String) : Version := ⟨0, l, none, none, none, none, t⟩

def oneEq3 : Single := ⟨"python_version", "==", "3", false, .ver (.single (.ver (wv [3] "3")))⟩
def oneGe3 : Single := ⟨"python_version", ">=", "3", false, .ver (.single (.rng ⟨some (wv [3] "3"), none, true, false⟩))⟩
def oneLe30 : Single :=
  ⟨"python_version", "<=", "3.0", false, .ver (.single (.rng ⟨none, some (wv [3, 0] "3.0"), false, true⟩))⟩
def oneGe32 : Single :=
  ⟨"python_version", ">=", "3.2", false, .ver (.single (.rng ⟨some (wv [3, 2] "3.2"), none, true, false⟩))⟩

/-- CPython 3.1.0 -/
def env31 : Env := ⟨[("python_version", "3.1"), ("python_full_version", "3.1.0")], some []⟩

theorem one_mk :
    mkSingle "python_version" "==3" false = .ok oneEq3 ∧ mkSingle "python_version" ">=3" false = .ok oneGe3 ∧
    mkSingle "python_version" "<=3.0" false = .ok oneLe30 ∧ mkSingle "python_version" ">=3.2" false = .ok oneGe32 :=
  ⟨by rfl, by rfl, by rfl, by rfl⟩

theorem one_merge_and :
    mergeLeaves (.single oneGe3) (.single oneLe30) true = .ok (some (.leaf (.single oneEq3))) := by
  unfold mergeLeaves
  rw [mergeSingle.eq_def]
  rfl

theorem one_merge_or :
    mergeLeaves (.single oneEq3) (.single oneGe32) false = .ok (some (.leaf (.single oneGe3))) := by
  unfold mergeLeaves
  rw [mergeSingle.eq_def]
  rfl

theorem one_validate :
    (Leaf.single oneEq3).validate env31 = .ok false ∧ (Leaf.single oneGe32).validate env31 = .ok false ∧
    (Leaf.single oneGe3).validate env31 = .ok true := by
  decide +kernel

/-- **no leaf specification on a domain with `>= "3"`, `<= "3.0"` and `>= "3.2"`** -/
theorem no_leafSpec_one (G : Leaf → Prop) (h1 : G (.single oneGe3)) (h2 : G (.single oneLe30))
    (h3 : G (.single oneGe32)) : ¬ LeafSpec (leafEval env31) G := by
  intro S
  have hEq : G (.single oneEq3) := (S.merge _ _ true _ h1 h2 one_merge_and).1
  have := (S.merge _ _ false _ hEq h3 one_merge_or).2
  simp only [M.sem_leaf, leafEval, one_validate.1, one_validate.2.1, one_validate.2.2] at this
  exact absurd this (by decide)

end Poetry.Marker
