/-
Exactness at a given probe without regularity for every bound (helper lemmas for C04/C05): the two halves of
`VersionRange.allows` are plain comparisons on EVERY well-formed probe when the lower bound is inclusive or the
upper bound is exclusive (over the effective end `allowed_max`); only an exclusive lower bound (PEP 440 gap above
it: its post-releases and local builds) and an inclusive upper bound (its local builds) need the probe to be regular
for them.  `intersect` is exact at every probe that is fine in this sense for the bounds of both operands.
-/
import PoetryVerif.Proofs.VRangeSpecFinal
import PoetryVerif.Proofs.VRangeWalk

set_option linter.unusedSimpArgs false
set_option linter.unusedVariables false

namespace Poetry
open Version

namespace VRange

/-- the lower bound is inclusive, or the probe is regular for it -/
def LoOK (r : VRange) (p : Version) : Prop := ∀ m, r.min = some m → r.imin = true ∨ Reg1 p m
/-- the upper bound is exclusive, or the probe is regular for it -/
def HiOK (r : VRange) (p : Version) : Prop := ∀ M, r.max = some M → r.imax = false ∨ Reg1 p M
/-- the probe is fine for both ends -/
def OKat (r : VRange) (p : Version) : Prop := r.LoOK p ∧ r.HiOK p

/-- half-open: an inclusive lower end (if any) and an exclusive upper end (if any) -/
def HalfOpen (r : VRange) : Prop := (∀ m, r.min = some m → r.imin = true) ∧ (∀ M, r.max = some M → r.imax = false)

theorem OKat_of_regular {r : VRange} {p : Version} (h : Regular r.bounds p) : r.OKat p :=
  ⟨fun m hm => Or.inr (h.reg1 (mem_bounds_min hm)), fun M hM => Or.inr (h.reg1 (mem_bounds_max hM))⟩

/-- **an inclusive lower bound is a plain comparison on every probe** -/
theorem allowsLo_incl (r : VRange) (p m : Version) (hp : p.wf = true) (hm : r.min = some m) (hi : r.imin = true) :
    r.allowsLo p = true ↔ vk m ≤ vk p := by
  unfold allowsLo
  simp only [hm, hi, Bool.not_true, Bool.false_and, Bool.false_eq_true, if_false]
  by_cases hl : m.isLocal = true
  · simp only [hl, Bool.not_true, Bool.false_and, Bool.false_eq_true, if_false]
    cases h : Version.lt p m
    · simp [(lt_false_iff _ _).1 h]
    · simp [not_le.2 ((lt_iff _ _).1 h)]
  · have hloc : m.loc = none := by simpa [isLocal] using hl
    have hl' : m.isLocal = false := by simpa using hl
    simp only [hl', Bool.not_false, Bool.true_and]
    have : (if p.isLocal = true then p.withoutLocal else p) = dropLoc p := rfl
    rw [this, ← le_dropLoc_iff hloc hp]
    cases h : Version.lt (dropLoc p) m
    · simp [(lt_false_iff _ _).1 h]
    · simp [not_le.2 ((lt_iff _ _).1 h)]

theorem allowsLo_sharp (r : VRange) (p : Version) (hr : ∀ m, r.min = some m → m.wf = true) (hp : p.wf = true)
    (h : r.LoOK p) : r.allowsLo p = true ↔ r.denLo p := by
  cases hmin : r.min with
  | none => simp [allowsLo, denLo, hmin]
  | some m =>
    rcases h m hmin with hi | hreg
    · rw [allowsLo_incl r p m hp hmin hi]
      simp [denLo, hmin, hi]
    · exact allowsLo_iff_denLo r p hp (fun m' hm' => by
        rw [hmin] at hm'; cases hm'; exact ⟨hr m hmin, hreg⟩)

/-- **an exclusive upper bound is a plain comparison with the effective end on every probe** -/
theorem allowsHi_excl (r : VRange) (p M M' : Version) (hp : p.wf = true) (hM : r.max = some M)
    (hA : r.allowedMax = some M') (hi : r.imax = false) :
    r.allowsHi p = true ↔ vk p < vk M' := by
  have hle : vk M' ≤ vk M := allowedMax_le hM hA
  unfold allowsHi
  simp only [hM, hA, hi, Bool.not_false, Bool.true_and]
  generalize ho : (if (!M'.isLocal && p.isLocal) = true then p.withoutLocal else p) = o
  have hlt : vk o < vk M' ↔ vk p < vk M' := by
    by_cases hl : M'.isLocal = true
    · simp only [hl, Bool.not_true, Bool.false_and, Bool.false_eq_true, if_false] at ho
      rw [← ho]
    · have hloc : M'.loc = none := by simpa [isLocal] using hl
      have hl' : M'.isLocal = false := by simpa using hl
      simp only [hl', Bool.not_false, Bool.true_and] at ho
      have : o = dropLoc p := ho.symm
      rw [this, ← not_le, ← not_le, le_dropLoc_iff hloc hp]
  rw [← hlt]
  by_cases h1 : vk o < vk M'
  · have g : Version.gt o M' = false := (gt_false_iff _ _).2 (le_of_lt h1)
    have e1 : Version.eqv o M' = false := (eqv_false_iff _ _).2 (ne_of_lt h1)
    have e2 : Version.eqv o M = false := (eqv_false_iff _ _).2 (ne_of_lt (lt_of_lt_of_le h1 hle))
    simp [g, e1, e2, h1]
  · simp only [h1, iff_false]
    rcases lt_or_eq_of_le (not_lt.1 h1) with h2 | h2
    · simp [(gt_iff _ _).2 h2]
    · have e1 : Version.eqv o M' = true := (eqv_iff _ _).2 h2.symm
      simp [e1]

theorem allowsHi_sharp (r : VRange) (p : Version) (hr : ∀ M, r.max = some M → M.wf = true) (hp : p.wf = true)
    (h : r.HiOK p) : r.allowsHi p = true ↔ r.denHi p := by
  cases hmax : r.max with
  | none => simp [allowsHi, denHi, hmax, allowedMax_none hmax]
  | some M =>
    rcases h M hmax with hi | hreg
    · cases hA : r.allowedMax with
      | none => have := allowedMax_isSome (r := r); simp [hA, hmax] at this
      | some M' =>
        rw [allowsHi_excl r p M M' hp hmax hA hi]
        simp [denHi, hA, hi]
    · exact allowsHi_iff_denHi r p hp (fun M' hM' => by
        rw [hmax] at hM'; cases hM'; exact ⟨hr M hmax, hreg⟩)

/-- **`allows` is plain interval membership (over the effective ends) at every fine probe** -/
theorem allows_iff_den_at (r : VRange) (p : Version) (hr : r.wfB) (hp : p.wf = true) (h : r.OKat p) :
    r.allows p = true ↔ r.den p := by
  unfold allows den
  rw [Bool.and_eq_true, allowsLo_sharp r p (fun m hm => hr m (mem_bounds_min hm)) hp h.1,
    allowsHi_sharp r p (fun M hM => hr M (mem_bounds_max hM)) hp h.2]

theorem OKat_congr {r : VRange} {p q : Version} (h : r.OKat p) (hk : vk p = vk q) : r.OKat q := by
  have tr : ∀ e, Reg1 p e → Reg1 q e := by
    intro e he
    rcases he with h1 | h1
    · exact Or.inl (hk.symm.trans h1)
    · exact Or.inr (fun x => h1 ((relKey_of_vk_eq hk).trans x))
  exact ⟨fun m hm => (h.1 m hm).imp id (tr m), fun M hM => (h.2 M hM).imp id (tr M)⟩

/-- key-equal probes are admitted alike by a range they are fine for -/
theorem allows_congr_at (r : VRange) {p q : Version} (hr : r.wfB) (hp : p.wf = true) (hq : q.wf = true)
    (h : r.OKat p) (hk : vk p = vk q) : r.allows p = r.allows q := by
  have := (allows_iff_den_at r p hr hp h).trans ((den_congr r hk).trans (allows_iff_den_at r q hr hq (OKat_congr h hk)).symm)
  cases h1 : r.allows p <;> cases h2 : r.allows q <;> simp_all

/-! ### the shape of `VersionRange.intersect(VersionRange)` -/

theorem interFinish_shape (mn : Option Version) (i : Bool) (mx : Option Version) (j : Bool) (c : VC)
    (h : interFinish mn i mx j = .ok c) :
    (mn = none ∧ mx = none ∧ c = .single (.rng VRange.any)) ∨
    (∃ x, mn = some x ∧ optVerEq mn mx = true ∧ i = true ∧ j = true ∧ c = .single (.ver x)) ∨
    (optVerEq mn mx = false ∧ c = .single (.rng ⟨mn, mx, i, j⟩)) := by
  unfold interFinish at h
  by_cases h1 : (mn.isNone && mx.isNone) = true
  · simp only [h1, if_true] at h
    simp only [Bool.and_eq_true, Option.isNone_iff_eq_none] at h1
    injection h with h
    exact Or.inl ⟨h1.1, h1.2, h.symm⟩
  · simp only [h1, Bool.false_eq_true, if_false] at h
    by_cases h2 : optVerEq mn mx = true
    · simp only [h2, if_true] at h
      by_cases h3 : (i && j) = true
      · simp only [h3, if_true] at h
        cases mn with
        | none => cases h
        | some x =>
          simp only at h
          injection h with h
          simp only [Bool.and_eq_true] at h3
          exact Or.inr (Or.inl ⟨x, rfl, h2, h3.1, h3.2, h.symm⟩)
      · simp only [h3] at h; cases h
    · simp only [h2, Bool.false_eq_true, if_false] at h
      injection h with h
      exact Or.inr (Or.inr ⟨by simpa using h2, h.symm⟩)

theorem rngIntersectRng_shape (a b : VRange) (c : VC) (h : RC.rngIntersectRng a b = .ok c) :
    c = .empty ∨ ∃ L H, (L = a ∨ L = b) ∧ (H = a ∨ H = b) ∧ interFinish L.min L.imin H.max H.imax = .ok c := by
  rw [rngIntersectRng_eq] at h
  by_cases h1 : a.allowsLower b = true
  · simp only [h1, if_true] at h
    by_cases h2 : a.isStrictlyLower b = true
    · simp only [h2, if_true] at h; injection h with h; exact Or.inl h.symm
    · simp only [h2, Bool.false_eq_true, if_false] at h
      by_cases h3 : a.allowsHigher b = true
      · simp only [h3, if_true] at h; exact Or.inr ⟨b, b, Or.inr rfl, Or.inr rfl, h⟩
      · simp only [h3, Bool.false_eq_true, if_false] at h; exact Or.inr ⟨b, a, Or.inr rfl, Or.inl rfl, h⟩
  · simp only [h1, Bool.false_eq_true, if_false] at h
    by_cases h2 : b.isStrictlyLower a = true
    · simp only [h2, if_true] at h; injection h with h; exact Or.inl h.symm
    · simp only [h2, Bool.false_eq_true, if_false] at h
      by_cases h3 : a.allowsHigher b = true
      · simp only [h3, if_true] at h; exact Or.inr ⟨a, b, Or.inl rfl, Or.inr rfl, h⟩
      · simp only [h3, Bool.false_eq_true, if_false] at h; exact Or.inr ⟨a, a, Or.inl rfl, Or.inl rfl, h⟩

end VRange

/-- the probe is fine for a member: regular for a `Version`, fine for both ends of a range -/
def RC.OKat : RC → Version → Prop
  | .ver x, p => Reg1 p x
  | .rng r, p => r.OKat p

namespace VRange

/-- **`VersionRange ∩ VersionRange` is exact at every probe that is fine for both operands**, and the probe is
fine for the result -/
theorem intersect_exact_at (a b : VRange) (ha : a.WF) (hb : b.WF) (p : Version) (hp : p.wf = true)
    (hoa : a.OKat p) (hob : b.OKat p) :
    ∃ c, RC.rngIntersectRng a b = .ok c ∧ c.notUnion ∧ (∀ m ∈ c.flatten, m.WF ∧ m.OKat p) ∧
      (∀ e ∈ c.bounds, e ∈ a.bounds ∨ e ∈ b.bounds) ∧
      c.allowsPlain p = (a.allows p && b.allows p) := by
  have bridge : ((a.allows p && b.allows p) = true ↔ a.den p ∧ b.den p) := by
    rw [Bool.and_eq_true, allows_iff_den_at a p ha.1 hp hoa, allows_iff_den_at b p hb.1 hp hob]
  have okOf : ∀ L, L = a ∨ L = b → L.OKat p := by
    intro L hL; rcases hL with rfl | rfl
    · exact hoa
    · exact hob
  rcases intersect_den a b ha hb with ⟨h, hsem⟩ | ⟨x, h, hx, hsem⟩ | ⟨r, h, hr, hrb, hsem⟩
  · refine ⟨_, h, trivial, by simp [VC.flatten], by simp [VC.bounds], ?_⟩
    simp only [VC.allowsPlain, VC.flatten, List.any_nil]
    cases hc : (a.allows p && b.allows p)
    · rfl
    · exact absurd (bridge.1 hc) (hsem p)
  · have hxwf : x.wf = true := by
      rcases hx with hx | hx
      · exact ha.1 x hx
      · exact hb.1 x hx
    have hreg : Reg1 p x := by
      rcases rngIntersectRng_shape a b _ h with he | ⟨L, H, hL, hH, hf⟩
      · cases he
      · rcases interFinish_shape _ _ _ _ _ hf with ⟨_, _, hc⟩ | ⟨x', hmn, hov, _, hj, hc⟩ | ⟨_, hc⟩
        · cases hc
        · injection hc with hc; injection hc with hc; subst hc
          cases hM : H.max with
          | none => rw [hmn, hM] at hov; simp [optVerEq] at hov
          | some M =>
            rw [hmn, hM] at hov
            have hk : vk x = vk M := (eqv_iff _ _).1 (by simpa [optVerEq] using hov)
            rcases (okOf H hH).2 M hM with hi | hr'
            · rw [hj] at hi; cases hi
            · exact reg1_vk_congr hr' hk.symm
        · cases hc
    refine ⟨_, h, trivial, ?_, ?_, ?_⟩
    · intro m hm; simp [VC.flatten] at hm; subst hm; exact ⟨hxwf, hreg⟩
    · intro e he; simp [VC.bounds, RC.bounds_ver] at he; subst he; exact hx
    · simp only [VC.allowsPlain, VC.flatten, List.any_cons, List.any_nil, Bool.or_false, RC.allows]
      apply bool_eq_of_iff
      rw [RC.ver_allows_iff x p hxwf hp hreg, hsem p, bridge]
  · have hok : r.OKat p := by
      rcases rngIntersectRng_shape a b _ h with he | ⟨L, H, hL, hH, hf⟩
      · cases he
      · rcases interFinish_shape _ _ _ _ _ hf with ⟨_, _, hc⟩ | ⟨x', _, _, _, _, hc⟩ | ⟨_, hc⟩
        · injection hc with hc; injection hc with hc; subst hc
          exact ⟨by intro m hm; simp [VRange.any] at hm, by intro M hM; simp [VRange.any] at hM⟩
        · cases hc
        · injection hc with hc; injection hc with hc; subst hc
          exact ⟨fun m hm => (okOf L hL).1 m hm, fun M hM => (okOf H hH).2 M hM⟩
    refine ⟨_, h, trivial, ?_, ?_, ?_⟩
    · intro m hm; simp [VC.flatten] at hm; subst hm; exact ⟨hr, hok⟩
    · intro e he; exact hrb e (by simpa [VC.bounds, RC.bounds_rng] using he)
    · simp only [VC.allowsPlain, VC.flatten, List.any_cons, List.any_nil, Bool.or_false, RC.allows]
      apply bool_eq_of_iff
      rw [allows_iff_den_at r p hr.1 hp hok, hsem p, bridge]

end VRange
/-- the bounds of a range member carry no local label (a `Version` member may) -/
def RC.RngNoLocal : RC → Prop
  | .ver _ => True
  | .rng r => ∀ e ∈ r.bounds, e.isLocal = false

namespace RC

theorem rngIntersectVer_at (r : VRange) (x p : Version) (hr : r.wfB) (hx : x.wf = true) (hp : p.wf = true)
    (ok : r.OKat p) (hrx : Reg1 p x) (hnl : ∀ m, r.min = some m → m.isLocal = false) :
    (rngIntersectVer r x).allowsPlain p = (r.allows p && x.allows p) ∧
      (rngIntersectVer r x = .single (.ver x) ∨ rngIntersectVer r x = .empty) := by
  have ex := ver_allows_iff x p hx hp hrx
  have key : x.allows p = true → r.allows p = r.allows x := fun h2 =>
    VRange.allows_congr_at r hr hp hx ok (ex.1 h2)
  have shape : rngIntersectVer r x = .single (.ver x) ∨ rngIntersectVer r x = .empty := by
    unfold rngIntersectVer
    by_cases h1 : r.allows x = true
    · simp [h1]
    · rw [if_neg h1]
      cases hm : r.min with
      | none => simp
      | some m => simp [hnl m hm]
  refine ⟨?_, shape⟩
  by_cases h1 : r.allows x = true
  · have e : rngIntersectVer r x = .single (.ver x) := by simp [rngIntersectVer, h1]
    rw [e]
    simp only [VC.allowsPlain, VC.flatten, List.any_cons, List.any_nil, Bool.or_false, RC.allows]
    cases h2 : x.allows p
    · simp
    · simp [key h2, h1]
  · have e : rngIntersectVer r x = .empty := by
      rcases shape with h | h
      · exfalso
        unfold rngIntersectVer at h
        rw [if_neg h1] at h
        cases hm : r.min with
        | none => simp [hm] at h
        | some m => simp [hm, hnl m hm] at h
      · exact h
    rw [e]
    simp only [VC.allowsPlain, VC.flatten, List.any_nil]
    cases h2 : x.allows p
    · simp
    · simp [key h2, h1]

/-- **`a.intersect(b)` for two non-union operands is exact at every probe that is fine for both**, and the
probe is fine for the result -/
theorem intersect_exact_at (m n : RC) (hm : m.WF) (hn : n.WF) (p : Version) (hp : p.wf = true)
    (om : m.OKat p) (on : n.OKat p) (lm : m.RngNoLocal) (ln : n.RngNoLocal) :
    ∃ c, RC.intersect m n = .ok c ∧ c.notUnion ∧ (∀ x ∈ c.flatten, x.WF ∧ x.OKat p ∧ x.RngNoLocal) ∧
      c.allowsPlain p = (m.allows p && n.allows p) := by
  cases m with
  | ver x =>
    cases n with
    | ver y =>
      refine ⟨_, rfl, verIntersectVer_notUnion x y, ?_, verIntersectVer_exact x y p hm hn hp om on⟩
      intro z hz
      unfold verIntersectVer at hz
      split at hz
      · simp [VC.flatten] at hz; subst hz; exact ⟨hn, on, trivial⟩
      · split at hz
        · simp [VC.flatten] at hz; subst hz; exact ⟨hm, om, trivial⟩
        · simp [VC.flatten] at hz
    | rng r =>
      obtain ⟨h1, h2⟩ := rngIntersectVer_at r x p hn.1 hm hp on om
        (fun mm hmm => ln mm (VRange.mem_bounds_min hmm))
      refine ⟨_, rfl, rngIntersectVer_notUnion r x, ?_, by rw [h1, Bool.and_comm]; rfl⟩
      intro z hz
      have hz : z ∈ (rngIntersectVer r x).flatten := hz
      rcases h2 with h2 | h2 <;> rw [h2] at hz <;> simp [VC.flatten] at hz
      subst hz; exact ⟨hm, om, trivial⟩
  | rng r =>
    cases n with
    | ver y =>
      obtain ⟨h1, h2⟩ := rngIntersectVer_at r y p hm.1 hn hp om on
        (fun mm hmm => lm mm (VRange.mem_bounds_min hmm))
      refine ⟨_, rfl, rngIntersectVer_notUnion r y, ?_, h1⟩
      intro z hz
      have hz : z ∈ (rngIntersectVer r y).flatten := hz
      rcases h2 with h2 | h2 <;> rw [h2] at hz <;> simp [VC.flatten] at hz
      subst hz; exact ⟨hn, on, trivial⟩
    | rng s =>
      obtain ⟨c, h1, h2, h3, h4, h5⟩ := VRange.intersect_exact_at r s hm hn p hp om on
      refine ⟨c, h1, h2, ?_, h5⟩
      intro z hz
      refine ⟨(h3 z hz).1, (h3 z hz).2, ?_⟩
      cases z with
      | ver _ => trivial
      | rng t =>
        intro e he
        have : e ∈ c.bounds := by
          rw [VC.bounds_eq_flatMap]; exact List.mem_flatMap.2 ⟨_, hz, he⟩
        rcases h4 e this with h | h
        · exact lm e h
        · exact ln e h

end RC

/-- the fold `parse_constraint` runs over the members of a comma-joined group, at one probe that is fine for
every member: defined, and the answer is the conjunction -/
theorem foldIntersect_at (p : Version) (hp : p.wf = true) :
    ∀ (rest : List RC) (acc : VC) (b : Bool), acc.notUnion →
      (∀ c ∈ acc.flatten, c.WF ∧ c.OKat p ∧ c.RngNoLocal) → acc.allowsPlain p = b →
      (∀ n ∈ rest, n.WF ∧ n.OKat p ∧ n.RngNoLocal) →
      ∃ c, rest.foldlM (fun acc n => VC.intersect acc (.single n)) acc = .ok c ∧ c.notUnion ∧
        c.allowsPlain p = (b && rest.all (fun n => n.allows p))
  | [], acc, b, hnu, _, hb, _ => ⟨acc, rfl, hnu, by simpa using hb⟩
  | n :: ns, acc, b, hnu, hw, hb, hrest => by
    have hn := hrest n (by simp)
    simp only [List.foldlM_cons, bind, Except.bind]
    cases acc with
    | union ds => exact absurd hnu (by simp [VC.notUnion])
    | empty =>
      simp only [VC.intersect]
      have hb' : b = false := by simpa [VC.allowsPlain, VC.flatten] using hb.symm
      obtain ⟨c, hc1, hc2, hc3⟩ := foldIntersect_at p hp ns .empty false trivial (by simp [VC.flatten]) rfl
        (fun x hx => hrest x (by simp [hx]))
      exact ⟨c, hc1, hc2, by rw [hc3, hb']; simp⟩
    | single m =>
      obtain ⟨hmw, hmo, hml⟩ := hw m (by simp [VC.flatten])
      obtain ⟨i, hi, s1, s2, s3⟩ := RC.intersect_exact_at m n hmw hn.1 p hp hmo hn.2.1 hml hn.2.2
      have hb' : b = m.allows p := by simpa [VC.allowsPlain, VC.flatten] using hb.symm
      simp only [VC.intersect, hi]
      obtain ⟨c, hc1, hc2, hc3⟩ := foldIntersect_at p hp ns i (m.allows p && n.allows p) s1 s2 s3
        (fun x hx => hrest x (by simp [hx]))
      exact ⟨c, hc1, hc2, by rw [hc3, hb']; simp [Bool.and_assoc]⟩

end Poetry
