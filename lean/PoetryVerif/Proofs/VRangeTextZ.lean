/-
Text level of the constraint round trip (helper lemmas for C15): when exactly the printer spells a union `!=X.*`
(`excludes_single_wildcard_range`), and unions spelt `!=X.postK.*`.
-/
import PoetryVerif.Proofs.VRangeTextY
import PoetryVerif.Proofs.EqHashParse

set_option linter.unusedSimpArgs false
set_option linter.unusedVariables false
set_option linter.unnecessarySeqFocus false

namespace Poetry
open Poetry.Marker
open Version

/-- **when the printer spells a two-member union with a wildcard**: exactly when it is `<A || >=B` — the first
member without lower end and with an EXCLUSIVE upper end, the second with an INCLUSIVE lower end and without upper
end — and `_is_wildcard_candidate(B, A, inverted=True)` holds -/
theorem excludedWildcard_iff (a b : VRange) (ha : a.max.isSome = true) (x y : Version) :
    VC.excludedWildcard [.rng a, .rng b] = some (x, y) ↔
      (a.min = none ∧ a.max = some x ∧ a.imax = false ∧ b.min = some y ∧ b.imin = true ∧ b.max = none ∧
        isWildcardCandidate y x true = true) := by
  obtain ⟨amin, amax, aimin, aimax⟩ := a
  obtain ⟨bmin, bmax, bimin, bimax⟩ := b
  simp only at ha
  cases amax with
  | none => simp at ha
  | some M =>
    simp only [VC.excludedWildcard, RC.max, RC.min, RC.imax, RC.imin, Option.isSome_some, if_true]
    cases bmin with
    | none => simp
    | some m =>
      simp only
      cases aimax <;> cases bimin <;> cases amin <;> cases bmax <;> simp <;>
        (by_cases hw : isWildcardCandidate m M true = true <;> simp [hw]) <;>
        (try (intro h1 h2; subst h1; subst h2; simpa using hw))

/-- `VersionRange().difference([D, E))` for unstable ends -/
theorem anyMinus_two_sided (D E : Version) (hlt : vk D < vk E) (hDu : D.isUnstable = true) (hEu : E.isUnstable = true) :
    VC.difference VC.any (.single (.rng ⟨some D, some E, true, false⟩)) =
      .ok (.union [.rng ⟨none, some D, false, false⟩, .rng ⟨some E, none, true, false⟩]) := by
  have l1 : Version.lt D E = true := (lt_iff _ _).2 hlt
  have l2 : Version.gt D E = false := (gt_false_iff _ _).2 (le_of_lt hlt)
  have l3 : Version.eqv D E = false := (eqv_false_iff _ _).2 (ne_of_lt hlt)
  have l4 : Version.gt E D = true := (gt_iff _ _).2 hlt
  have l5 : Version.lt E D = false := (lt_false_iff _ _).2 (le_of_lt hlt)
  simp [VC.difference, VC.any, RC.difference, RC.rngDifferenceRng, RC.allowsAny, VRange.isStrictlyLower,
    VRange.isStrictlyHigher, VRange.any, VRange.allowedMax, VRange.allowedMin, VRange.allowsLower,
    VRange.allowsHigher, optVerEq, hDu, hEu, l1, l2, l3, l4, l5, bind, Except.bind, pure, Except.pure,
    unionOfFlat, RC.isAny, VRange.isAny, sortRCs, insertSorted, RC.lt, VRange.cmp, mergeLoop, RC.view,
    VRange.isAdjacentTo, RC.min, RC.max, RC.imin, RC.imax]

/-- `_make_x_constraint_range(V, invert)` on a post-release -/
theorem makeX_post_inv (V : Version) (t : Tag) (hp : V.post = some t) (hd : V.dev = none) :
    VParser.makeXConstraintRange V true false =
      .ok (.union [.rng ⟨none, some V.firstDevrelease, false, false⟩,
        .rng ⟨some V.nextPostrelease.firstDevrelease, none, true, false⟩]) := by
  have hlt := EqHash.xP_plain hp hd
  have hx : VParser.makeXConstraintRange V true false =
      VC.difference VC.any (.single (.rng ⟨some V.firstDevrelease, some V.nextPostrelease.firstDevrelease, true, false⟩)) := by
    simp [VParser.makeXConstraintRange, isDevrelease, isPostrelease, hp, hd, nextPostrelease, mk']
  rw [hx]
  exact anyMinus_two_sided _ _ hlt (by simp [firstDevrelease, mk', isUnstable, isDevrelease])
    (by simp [firstDevrelease, mk', isUnstable, isDevrelease])

/-! ### unions spelt `!=X.postK.*` -/

theorem wildcardCandidate_facts_post_inv (mn mx : Version) (h : isWildcardCandidate mn mx true = true)
    (hp : mx.isPostrelease = true) :
    mn.epoch = mx.epoch ∧ mn.isLocal = false ∧ mx.isLocal = false ∧ mn.isPrerelease = false ∧
    mx.isPrerelease = false ∧ Version.eqv mn.firstDevrelease mn = true ∧
    (mx.isDevrelease = true → Version.eqv mx.firstDevrelease mx = true) ∧
    stripZeros mx.release = stripZeros mn.release ∧ optTagEq (mx.post.map Tag.next) mn.post = true := by
  unfold isWildcardCandidate at h
  by_cases hg : (mn.epoch != mx.epoch || mn.isLocal || mx.isLocal || mn.isPrerelease || mx.isPrerelease
      || (mn.isPostrelease != mx.isPostrelease) || !(Version.eqv mn.firstDevrelease mn)
      || (mx.isDevrelease && !(Version.eqv mx.firstDevrelease mx))) = true
  · rw [if_pos hg] at h; cases h
  · rw [if_neg hg] at h
    simp only [Bool.or_eq_true, not_or, Bool.not_eq_true, bne_eq_false_iff_eq, Bool.and_eq_false_iff,
      Bool.not_eq_false'] at hg
    obtain ⟨⟨⟨⟨⟨⟨⟨g1, g2⟩, g3⟩, g4⟩, g5⟩, g6⟩, g7⟩, g8⟩ := hg
    simp only [if_true, hp] at h
    generalize hP : stripZeros mn.release = P at h ⊢
    by_cases hPe : P.isEmpty = true
    · simp [hPe] at h
    · simp only [hPe, Bool.false_eq_true, if_false] at h
      generalize hpf0 : mx.release ++ zeros (P.length - mx.release.length) = pf0 at h
      by_cases hex : (!(pf0.drop P.length).all (· == 0)) = true
      · simp [hex] at h
      · simp only [hex, Bool.false_eq_true, if_false, Bool.and_eq_true, beq_iff_eq] at h
        obtain ⟨hd, hl⟩ := h
        simp only [Bool.not_eq_true', Bool.not_eq_false, List.all_eq_true, beq_iff_eq] at hex
        have hex' : ∀ x ∈ pf0.drop P.length, x = 0 := by
          intro x hx; have := hex x hx; simpa using this
        refine ⟨g1, g2, g3, g4, g5, by simpa using g7, ?_, ?_, hl⟩
        · intro hdv
          rcases g8 with h8 | h8
          · rw [hdv] at h8; cases h8
          · exact h8
        · have e1 : stripZeros mx.release = stripZeros pf0 := by
            rw [← hpf0, zeros, stripZeros_append_replicate]
          have e2 : stripZeros pf0 = stripZeros (pf0.take P.length) := stripZeros_take pf0 P.length hex'
          rw [e1, e2, hd, ← hP, stripZeros_idem]

/-- **any two-member union the printer spells `!=X.postK.*` is printed, read back, and the re-read union admits
the same versions on EVERY probe** -/
theorem post_wildcard_spelt_union_roundtrip (omax tmin : Version) (ho : omax.wf = true) (ht : tmin.wf = true)
    (hlt : vk omax < vk tmin) (hw : isWildcardCandidate tmin omax true = true) (hp : omax.isPostrelease = true) :
    ∃ s c', (VC.union [.rng ⟨none, some omax, false, false⟩, .rng ⟨some tmin, none, true, false⟩]).toStr = .ok s ∧
      VParser.parseConstraint s = .ok c' ∧
      ∀ p, p.wf = true →
        c'.allows p = (VC.union [.rng ⟨none, some omax, false, false⟩, .rng ⟨some tmin, none, true, false⟩]).allows p := by
  obtain ⟨g1, g2, g3, g4, g5, g7, g8, hrel, htag⟩ := wildcardCandidate_facts_post_inv tmin omax hw hp
  obtain ⟨hrne, _, hpostph, _⟩ := wf_parts ho
  obtain ⟨_, _, hpostph', _⟩ := wf_parts ht
  obtain ⟨e, rel, pre, post, dev, loc, text⟩ := omax
  simp only at g1 g3 g5 g8 hrel htag hp hrne hpostph hlt hw
  have hpre : pre = none := by simpa [isPrerelease] using g5
  have hloc : loc = none := by simpa [isLocal] using g3
  subst hpre; subst hloc
  cases post with
  | none => simp [isPostrelease] at hp
  | some t =>
    obtain ⟨ph, n⟩ := t
    have hph : ph = .post := by simpa [optAll] using hpostph
    subst hph
    cases rel with
    | nil => exact absurd rfl hrne
    | cons x r =>
      have htpre : tmin.pre = none := by simpa [isPrerelease] using g4
      have htpost : tmin.post = some ⟨.post, n + 1⟩ := by
        cases hmp : tmin.post with
        | none => rw [hmp] at htag; simp [optTagEq] at htag
        | some t' =>
          obtain ⟨ph', n'⟩ := t'
          rw [hmp] at htag hpostph'
          simp only [Option.map_some, optTagEq, Tag.next, Bool.and_eq_true, beq_iff_eq] at htag
          have : ph' = .post := by simpa [optAll] using hpostph'
          rw [this, ← htag.2]
      have hwd : (Version.mk e (x :: r) none (some ⟨.post, n⟩) dev none text).withoutDevrelease = pV e x r n := by
        simp [withoutDevrelease, pV]
      have hstr : singleWildcardRangeString (Version.mk e (x :: r) none (some ⟨.post, n⟩) dev none text) tmin =
          .ok (String.ofList (postBase e x r n ++ dotStar)) := by
        unfold singleWildcardRangeString
        simp only [hp, if_true, hwd, pV_text]
        congr 1
        exact str_eq_of_toList (by simp [dotStar])
      have hinv := inverted_two_sided _ _ hlt
      have hprint : (VC.union [.rng ⟨none, some (Version.mk e (x :: r) none (some ⟨.post, n⟩) dev none text), false, false⟩,
          .rng ⟨some tmin, none, true, false⟩]).toStr =
          .ok (String.ofList ('!' :: '=' :: (postBase e x r n ++ dotStar))) := by
        simp only [VC.toStr, VC.excludedSingleVersion, hinv, VC.excludedWildcard, RC.max, RC.min, RC.imax, RC.imin, hw,
          hstr, Option.isSome_some, Option.isSome_none, if_true, Bool.false_or, Bool.not_true, Bool.false_eq_true,
          if_false, bind, Except.bind, pure, Except.pure]
        congr 1
        exact str_eq_of_toList (by simp)
      have hparse := parseConstraint_postWild true e x r n
      simp only [if_true] at hparse
      rw [makeX_post_inv (pV e x r n) ⟨.post, n⟩ rfl rfl] at hparse
      have hlt' : vk (pV e x r n).firstDevrelease < vk (pV e x r n).nextPostrelease.firstDevrelease :=
        EqHash.xP_plain (v := pV e x r n) rfl rfl
      have hinv' := inverted_two_sided _ _ hlt'
      refine ⟨_, _, hprint, hparse, fun p hpw => ?_⟩
      simp only [VC.allows, VC.excludedSingleVersion, hinv, hinv', bind, Except.bind, pure, Except.pure, List.any_cons,
        List.any_nil, Bool.or_false, RC.allows]
      congr 1
      have hE : (pV e x r n).nextPostrelease.firstDevrelease =
          mk' e (x :: r) none (some ⟨.post, n + 1⟩) (some ⟨.dev, 0⟩) none := by
        simp [pV, nextPostrelease, firstDevrelease, mk', Tag.next]
      have kT : vk tmin = vk (pV e x r n).nextPostrelease.firstDevrelease := by
        have h1 : tmin.firstDevrelease = mk' e tmin.release none (some ⟨.post, n + 1⟩) (some ⟨.dev, 0⟩) none := by
          simp [firstDevrelease, htpre, htpost, g1]
        rw [← (eqv_iff _ _).1 g7, h1, hE]
        exact vk_mk_release_congr e _ _ _ _ _ _ hrel.symm
      have hfd : (Version.mk e (x :: r) none (some ⟨.post, n⟩) dev none text).firstDevrelease =
          (pV e x r n).firstDevrelease := rfl
      have hA := VRange.allowedMax_eq_of_lt
        (r := ⟨none, some (Version.mk e (x :: r) none (some ⟨.post, n⟩) dev none text), false, false⟩)
        (M := Version.mk e (x :: r) none (some ⟨.post, n⟩) dev none text) rfl (by intro m hm; cases hm)
      simp only [Bool.false_or] at hA
      have hA' : (⟨none, some (pV e x r n).firstDevrelease, false, false⟩ : VRange).allowedMax =
          some (pV e x r n).firstDevrelease := by
        simp [VRange.allowedMax, firstDevrelease, mk', isUnstable, isDevrelease]
      have kA : vk (if (Version.mk e (x :: r) none (some ⟨.post, n⟩) dev none text).isUnstable = true then
          Version.mk e (x :: r) none (some ⟨.post, n⟩) dev none text
          else (Version.mk e (x :: r) none (some ⟨.post, n⟩) dev none text).firstDevrelease) =
          vk (pV e x r n).firstDevrelease := by
        by_cases hu : (Version.mk e (x :: r) none (some ⟨.post, n⟩) dev none text).isUnstable = true
        · simp only [hu, if_true]
          have hdev : (Version.mk e (x :: r) none (some ⟨.post, n⟩) dev none text).isDevrelease = true := by
            simpa [isUnstable, isPrerelease] using hu
          rw [← hfd]; exact ((eqv_iff _ _).1 (g8 hdev)).symm
        · simp only [hu, Bool.false_eq_true, if_false]; rw [hfd]
      have m1 : (⟨none, some (pV e x r n).firstDevrelease, false, false⟩ : VRange).allows p =
          (⟨none, some (Version.mk e (x :: r) none (some ⟨.post, n⟩) dev none text), false, false⟩ : VRange).allows p := by
        unfold VRange.allows
        have hi : (⟨none, some (pV e x r n).firstDevrelease, false, false⟩ : VRange).allowsHi p =
            (⟨none, some (Version.mk e (x :: r) none (some ⟨.post, n⟩) dev none text), false, false⟩ : VRange).allowsHi p := by
          apply bool_eq_of_iff
          rw [VRange.allowsHi_excl _ p _ _ hpw rfl hA' rfl, VRange.allowsHi_excl _ p _ _ hpw rfl hA rfl, kA]
        rw [hi]; rfl
      have m2 : (⟨some (pV e x r n).nextPostrelease.firstDevrelease, none, true, false⟩ : VRange).allows p =
          (⟨some tmin, none, true, false⟩ : VRange).allows p := by
        unfold VRange.allows
        have lo : (⟨some (pV e x r n).nextPostrelease.firstDevrelease, none, true, false⟩ : VRange).allowsLo p =
            (⟨some tmin, none, true, false⟩ : VRange).allowsLo p := by
          apply bool_eq_of_iff
          rw [VRange.allowsLo_incl _ p _ hpw rfl rfl, VRange.allowsLo_incl _ p tmin hpw rfl rfl, kT]
        rw [lo]; rfl
      rw [m1, m2]

end Poetry
