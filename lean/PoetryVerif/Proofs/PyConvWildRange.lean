/-
Wildcard Python ranges `X.*` / `X.Y.*` (bounds `X.Y.dev0`) through `create_nested_marker`, `parse_marker` and
poetry's own `validate` (helper lemmas for C11): the text printed, its parse, the value of its two items, and
membership of a final interpreter in the range.
-/
import PoetryVerif.Proofs.PyConvWild

set_option linter.unusedSimpArgs false
set_option linter.unusedVariables false

namespace Poetry.Marker
open Poetry Poetry.Version Poetry.VParser Std

attribute [local instance] lexOrd

/-- the range `[lit.dev0, lit'.dev0)` of a wildcard requirement -/
def wildRng (lit lit' : List Nat) : VRange := ⟨some (devV lit), some (devV lit'), true, false⟩

/-- membership of a final release in a wildcard range -/
theorem allows_wild (lit lit' l : List Nat) :
    (wildRng lit lit').allows (finalV l) =
      ((compare (stripZeros l) (stripZeros lit) != .lt) && (compare (stripZeros l) (stripZeros lit') == .lt)) := by
  rw [← allows_ge_dev lit l, ← allows_lt_dev lit' l]
  have hu : (devV lit').isUnstable = true := by simp [Version.isUnstable, Version.isDevrelease, devV]
  simp [wildRng, VRange.allows, VRange.allowsLo, VRange.allowsHi, VRange.allowedMax, hu]

theorem devChars_qfree (lit : List Nat) : QFree (devChars lit) := by
  intro c hc
  simp only [devChars, List.mem_append, List.mem_cons, List.mem_nil_iff, or_false] at hc
  rcases hc with h | rfl | rfl | rfl | rfl | rfl
  · exact plain_qfree (plain_relChars lit) c h
  all_goals decide

/-- the text `create_nested_marker` prints for a wildcard range on one or two components -/
theorem nestedRC_wild (lit lit' : List Nat) (h : lit.length < 3) (h' : lit'.length < 3) :
    nestedRC "python_version" (.rng (wildRng lit lit')) =
      "python_version" ++ " " ++ ">=" ++ " \"" ++ devText lit ++ "\"" ++ " and " ++
        ("python_version" ++ " " ++ "<" ++ " \"" ++ devText lit' ++ "\"") := by
  have hp : (devV lit).precision = lit.length := rfl
  have hp' : (devV lit').precision = lit'.length := rfl
  have h1 : ¬ lit.length ≥ 3 := by omega
  have h2 : ¬ lit'.length ≥ 3 := by omega
  rw [nestedRC_rng]
  have ht : (devV lit).text = devText lit := rfl
  have ht' : (devV lit').text = devText lit' := rfl
  simp [nestedLo, nestedHi, wildRng, hp, hp', h1, h2, joinWith, ht, ht']

/-- … and its parse -/
theorem parseText_wild (lit lit' : List Nat) (h : lit.length < 3) (h' : lit'.length < 3) :
    parseText (nestedRC "python_version" (.rng (wildRng lit lit'))) =
      .ok (.more (.item "python_version" ">=" (devText lit) false) false
        (.one (.item "python_version" "<" (devText lit') false))) := by
  rw [nestedRC_wild lit lit' h h']
  have hc : ConjParse ("python_version" ++ " " ++ ">=" ++ " \"" ++ devText lit ++ "\"" ++ " and " ++
        ("python_version" ++ " " ++ "<" ++ " \"" ++ devText lit' ++ "\"")).toList
      (.more (.item "python_version" ">=" (devText lit) false) false
        (.one (.item "python_version" "<" (devText lit') false))) := by
    intro f rest hr
    have := parseSyn_two f "python_version" ">=" (devChars lit) "python_version" "<" (devChars lit') rest
      (Or.inl rfl) (Or.inl rfl) (devChars_qfree lit) (Or.inl rfl) (Or.inr (Or.inr (Or.inr (Or.inl rfl))))
      (devChars_qfree lit') hr
    rw [ofList_devChars, ofList_devChars] at this
    rw [← this]
    congr 1
    simp [leafChars, String.toList_append, devText_toList]
  exact parseText_of_conj _ _ hc (by simp [String.toList_append])

/-- the release key of `X.Y.Z` against a literal of one or two components is that of `X.Y` -/
theorem cmp_xyz_short (X Y Z : Nat) (lit : List Nat) (h : lit.length < 3) (hne : lit ≠ []) :
    ((compare (stripZeros [X, Y, Z]) (stripZeros lit) != .lt) = (compare (stripZeros [X, Y]) (stripZeros lit) != .lt)) ∧
    ((compare (stripZeros [X, Y, Z]) (stripZeros lit) == .lt) = (compare (stripZeros [X, Y]) (stripZeros lit) == .lt)) := by
  have key : (compare (stripZeros [X, Y, Z]) (stripZeros lit) = .lt) ↔
      (compare (stripZeros [X, Y]) (stripZeros lit) = .lt) := by
    match lit, h, hne with
    | [a], _, _ =>
      rw [sz_pad1 a, sz_pad2 X Y, sz3, sz3, lex3_lt, lex3_lt]; omega
    | [a, b], _, _ =>
      rw [sz_pad2 a b, sz_pad2 X Y, sz3, sz3, lex3_lt, lex3_lt]; omega
  constructor
  · cases h1 : compare (stripZeros [X, Y, Z]) (stripZeros lit) <;>
      cases h2 : compare (stripZeros [X, Y]) (stripZeros lit) <;> first | rfl | simp_all
  · cases h1 : compare (stripZeros [X, Y, Z]) (stripZeros lit) <;>
      cases h2 : compare (stripZeros [X, Y]) (stripZeros lit) <;> first | rfl | simp_all

/-- **wildcard ranges through `create_nested_marker`, `parse_marker` and `validate`**: for `X.*` / `X.Y.*`
(one- or two-component literals), on an environment of interpreter `X.Y.Z`, the marker read back validates to
membership of `X.Y.Z` in the range (relative to the leaf specification for `CompLeaf E`) -/
theorem createNested_wild (E : Env) (S : LeafSpec (leafEval E) (CompLeaf E)) (X Y Z : Nat) (hE : EnvPy E X Y Z)
    (a : Nat) (r : List Nat) (a' : Nat) (r' : List Nat) (h : (a :: r).length < 3) (h' : (a' :: r').length < 3)
    (txt : String) (m : M)
    (ht : createNestedMarker "python_version" (.single (.rng (wildRng (a :: r) (a' :: r')))) = .ok txt)
    (hm : parseMarker txt = .ok m) :
    M.Good (CompLeaf E) m ∧
      M.validate E m = .ok ((wildRng (a :: r) (a' :: r')).allows (pyV X Y Z)) := by
  have hany : (VC.single (.rng (wildRng (a :: r) (a' :: r')))).isAny = false := by
    simp [VC.isAny, RC.isAny, VRange.isAny, wildRng]
  have htxt : txt = nestedRC "python_version" (.rng (wildRng (a :: r) (a' :: r'))) := by
    simp [createNestedMarker, hany] at ht
    exact ht.symm
  subst htxt
  have hp := parseText_wild (a :: r) (a' :: r') h h'
  obtain ⟨v1, c1⟩ := itemV_ge_dev E a r X Y hE.1
  obtain ⟨v2, c2⟩ := itemV_lt_dev E a' r' X Y hE.1
  have hne : (nestedRC "python_version" (.rng (wildRng (a :: r) (a' :: r')))).isEmpty = false := by
    rw [nestedRC_wild _ _ h h']
    simp [String.isEmpty_iff]
  have hv : SynVal E (.more (.item "python_version" ">=" (devText (a :: r)) false) false
      (.one (.item "python_version" "<" (devText (a' :: r')) false))) := by
    simp only [SynVal, AtomVal]
    exact ⟨⟨trivial, _, v1, c1⟩, trivial, _, v2, c2⟩
  obtain ⟨g, e⟩ := parseMarker_synV E S _ _ m
    ((compare (stripZeros [X, Y]) (stripZeros (a :: r)) != .lt) &&
      (compare (stripZeros [X, Y]) (stripZeros (a' :: r')) == .lt)) hne hp hv (by
      simp only [synV, atomV, v1, v2, conn]
      cases compare (stripZeros [X, Y]) (stripZeros (a :: r)) != .lt <;> simp) hm
  refine ⟨g, ?_⟩
  rw [e, show pyV X Y Z = finalV [X, Y, Z] from rfl, allows_wild,
    (cmp_xyz_short X Y Z (a :: r) h (by simp)).1, (cmp_xyz_short X Y Z (a' :: r') h' (by simp)).2]

/-! ### the requirement text `X.Y.*` / `X.*` is such a range -/

theorem firstDev_finalV (l : List Nat) : (finalV l).firstDevrelease = devV l := by
  have ht : Version.toStr 0 l none none (some ⟨.dev, 0⟩) none = devText l := by
    simp only [Version.toStr]
    have h1 : Tag.toString ⟨.dev, 0⟩ = "dev0" := by decide
    have h2 : (relText l ++ "." ++ "dev0").toList = devChars l := by
      simp [String.toList_append, _root_.Poetry.relText_toList, devChars]
    simp [h1, h2, devChars_map_lower, ofList_devChars]
  simp [Version.firstDevrelease, Version.mk', finalV, devV, ht]

theorem finalV_nextStable1 (a : Nat) : (finalV [a]).nextStable = finalV [a + 1] := by
  rw [← bumpV_eq [a + 1]]
  simp [Version.nextStable, Version.isStable, Version.isUnstable, Version.isPrerelease, Version.isDevrelease,
    finalV, bumpV, relNext, relNextMajor, relMajor, zeros]

/-- `parse_constraint("a.b.*")` is the wildcard range `[a.b.dev0, a.(b+1).dev0)` -/
theorem parseConstraint_star2 (a b : Nat) :
    parseConstraint (Version.relText [a, b] ++ ".*") = .ok (.single (.rng (wildRng [a, b] [a, b + 1]))) := by
  have hl : (Version.relText [a, b] ++ ".*").toList = _root_.Poetry.relChars [a, b] ++ ['.', '*'] := by
    simp [String.toList_append, _root_.Poetry.relText_toList]
  have hns : NoSep (Version.relText [a, b] ++ ".*").toList := by
    rw [hl]
    exact noSep_append (noSep_rel _) (noSep_cons (sp (by simp)) (noSep_cons (sp (by simp)) (fun _ h => by cases h)))
  have hne : Version.relText [a, b] ++ ".*" ≠ "*" := by
    intro e
    have := congrArg String.toList e
    rw [hl] at this
    obtain ⟨c, cs, hc, _⟩ := relChars_head a [b]
    rw [hc] at this
    simp at this
  rw [parseConstraint, parseConstraintAux_single _ false hns hne, hl,
    _root_.Poetry.parseSingle_star false a [b] (xCore_star2 false a b)]
  have hp : (finalV [a, b]).isPostrelease = false := rfl
  have hs : (finalV [a, b]).isStable = true := rfl
  have hdv : (finalV [a, b]).isDevrelease = false := rfl
  have hdv' : (finalV [a, b + 1]).isDevrelease = false := rfl
  simp [makeXConstraintRange, hdv, hp, hs, finalV_nextStable2, hdv', firstDev_finalV, wildRng]

/-- `parse_constraint("a.*")` is the wildcard range `[a.dev0, (a+1).dev0)` -/
theorem parseConstraint_star1 (a : Nat) :
    parseConstraint (Version.relText [a] ++ ".*") = .ok (.single (.rng (wildRng [a] [a + 1]))) := by
  have hl : (Version.relText [a] ++ ".*").toList = _root_.Poetry.relChars [a] ++ ['.', '*'] := by
    simp [String.toList_append, _root_.Poetry.relText_toList]
  have hns : NoSep (Version.relText [a] ++ ".*").toList := by
    rw [hl]
    exact noSep_append (noSep_rel _) (noSep_cons (sp (by simp)) (noSep_cons (sp (by simp)) (fun _ h => by cases h)))
  have hne : Version.relText [a] ++ ".*" ≠ "*" := by
    intro e
    have := congrArg String.toList e
    rw [hl] at this
    obtain ⟨c, cs, hc, _⟩ := relChars_head a []
    rw [hc] at this
    simp at this
  rw [parseConstraint, parseConstraintAux_single _ false hns hne, hl,
    _root_.Poetry.parseSingle_star false a [] (xCore_star1 false a)]
  have hp : (finalV [a]).isPostrelease = false := rfl
  have hs : (finalV [a]).isStable = true := rfl
  have hdv : (finalV [a]).isDevrelease = false := rfl
  have hdv' : (finalV [a + 1]).isDevrelease = false := rfl
  simp [makeXConstraintRange, hdv, hp, hs, finalV_nextStable1, hdv', firstDev_finalV, wildRng]

end Poetry.Marker
