/-
C14: the printers of version constraints emit no CR / LF when the texts of the bounds hold none:
`str(constraint)` (`VC.toStr`), `create_nested_marker` for version constraints (`createNestedMarker`) and
`format_python_constraint` (`Dep02.formatPythonConstraint`).  Core Lean only.
-/
import PoetryVerif.Proofs.MetaPrintersPy
import PoetryVerif.Proofs.MetaValidate
import PoetryVerif.Proofs.MetaVersionText
import PoetryVerif.Proofs.VRangeTextS
import PoetryVerif.Props.C15
import PoetryVerif.Model.MarkerOps

set_option linter.unusedSimpArgs false
set_option linter.unusedVariables false

namespace Poetry.Meta
open Poetry Poetry.Marker Poetry.Version Poetry.Spec Poetry.Spec.Rfc822

/-! ### pieces of a normal-form text -/

theorem digit_not_nl (c : Char) (h : isDigit c = true) : isNL c = false :=
  nchar_not_nl c (by simp [nchar, h])

theorem natToString_singleLine (n : Nat) : SingleLine (natToString n) :=
  fun c hc => digit_not_nl c (dg_isDigit n c hc)

theorem phaseStr_singleLine (p : Phase) : SingleLine p.str := by
  cases p <;> decide

theorem tagToString_singleLine (t : Tag) : SingleLine t.toString := by
  unfold Tag.toString
  rw [singleLine_append]
  exact ⟨phaseStr_singleLine _, natToString_singleLine _⟩

theorem relText_singleLine (r : List Nat) : SingleLine (relText r) := by
  unfold relText
  apply joinWith_singleLine "." (by decide)
  intro x hx
  obtain ⟨n, _, rfl⟩ := List.mem_map.1 hx
  exact natToString_singleLine n

theorem lower_singleLine (s : String) (h : SingleLine s) : SingleLine (String.ofList (s.toList.map lowerChar)) := by
  rw [singleLine_ofList]
  intro c hc
  obtain ⟨d, hd, rfl⟩ := List.mem_map.1 hc
  exact lowerChar_not_nl d (h d hd)

/-- the normal-form text of a version without local label: no hypothesis on the release -/
theorem toStr_noLocal_singleLine (e : Nat) (r : List Nat) (pre post dev : Option Tag) :
    SingleLine (Version.toStr e r pre post dev none) := by
  unfold Version.toStr
  apply lower_singleLine
  have hr := relText_singleLine r
  have h0 : SingleLine (if (e != 0) = true then natToString e ++ "!" ++ relText r else relText r) := by
    split
    · rw [singleLine_append, singleLine_append]
      exact ⟨⟨natToString_singleLine e, by decide⟩, hr⟩
    · exact hr
  have hdot : SingleLine "." := by decide
  cases pre <;> cases post <;> cases dev <;>
    simp only [singleLine_append, h0, hdot, tagToString_singleLine, and_self, and_true, true_and]

/-! ### `str(constraint)` -/

/-- the texts of the bounds of a constraint contain no CR / LF -/
def BoundsLineFree (c : VC) : Prop := ∀ e ∈ c.bounds, SingleLine e.text

theorem isWildcardCandidate_noLocal (mn mx : Version) (inv : Bool) (h : isWildcardCandidate mn mx inv = true) :
    mn.isLocal = false ∧ mx.isLocal = false := by
  cases h1 : mn.isLocal with
  | true => simp [isWildcardCandidate, h1] at h
  | false =>
    cases h2 : mx.isLocal with
    | true => simp [isWildcardCandidate, h2] at h
    | false => exact ⟨rfl, rfl⟩

theorem singleWildcardRangeString_singleLine (first second : Version) (s : String)
    (h : singleWildcardRangeString first second = .ok s) (hl : first.isLocal = false) : SingleLine s := by
  unfold singleWildcardRangeString at h
  split at h
  · cases h
    rw [singleLine_append]
    refine ⟨?_, by decide⟩
    have hloc : first.loc = none := by
      cases hc : first.loc with
      | none => rfl
      | some x => simp [Version.isLocal, hc] at hl
    simp only [Version.withoutDevrelease, Version.mk', hloc]
    exact toStr_noLocal_singleLine _ _ _ _ _
  · simp only at h
    split at h
    · cases h
    · split at h
      · cases h
      · cases h
        rw [singleLine_append]
        refine ⟨?_, by decide⟩
        have hj : SingleLine (joinWith "." (List.map natToString
            ((Version.stripZeros second.release).dropLast ++ [‹Nat› - 1]))) := by
          apply joinWith_singleLine "." (by decide)
          intro x hx
          obtain ⟨n, _, rfl⟩ := List.mem_map.1 hx
          exact natToString_singleLine n
        split
        · rw [singleLine_append, singleLine_append]
          exact ⟨⟨natToString_singleLine _, by decide⟩, hj⟩
        · exact hj

theorem VRange.toStr_singleLine (r : VRange) (s : String) (h : r.toStr = .ok s)
    (hb : ∀ e ∈ r.bounds, SingleLine e.text) : SingleLine s := by
  obtain ⟨mn, mx, imin, imax⟩ := r
  have hop : ∀ b : Bool, SingleLine (if b = true then ">=" else ">") ∧ SingleLine (if b = true then "<=" else "<") := by
    intro b; cases b <;> exact ⟨by decide, by decide⟩
  cases mn with
  | none =>
    cases mx with
    | none => simp [VRange.toStr] at h; subst h; decide
    | some M =>
      simp [VRange.toStr] at h; subst h
      rw [singleLine_append]
      exact ⟨(hop imax).2, hb M (by simp [VRange.bounds])⟩
  | some m =>
    cases mx with
    | none =>
      simp [VRange.toStr] at h; subst h
      rw [singleLine_append]
      exact ⟨(hop imin).1, hb m (by simp [VRange.bounds])⟩
    | some M =>
      simp only [VRange.toStr] at h
      split at h
      · rename_i hw
        simp only [VRange.isSingleWildcardRange] at hw
        split at hw
        · cases hw
        · have hl := (isWildcardCandidate_noLocal m M false hw).1
          cases hs : singleWildcardRangeString m M with
          | error e => simp [hs, bind, Except.bind] at h
          | ok t =>
            simp [hs, bind, Except.bind, pure, Except.pure] at h
            subst h
            rw [singleLine_append]
            exact ⟨by decide, singleWildcardRangeString_singleLine m M t hs hl⟩
      · cases h
        simp only [singleLine_append]
        exact ⟨⟨⟨⟨(hop imin).1, hb m (by simp [VRange.bounds])⟩, by decide⟩, (hop imax).2⟩,
          hb M (by simp [VRange.bounds])⟩

theorem RC.toStr_singleLine (c : RC) (s : String) (h : c.toStr = .ok s)
    (hb : ∀ e ∈ c.bounds, SingleLine e.text) : SingleLine s := by
  cases c with
  | ver v =>
    simp [RC.toStr] at h; subst h
    exact hb v (by simp [RC.bounds_ver])
  | rng r => exact VRange.toStr_singleLine r s h hb

/-! ### the bounds of `_inverted` are bounds of the members (no hypothesis on the members) -/

section Bounds
variable (P : Version → Prop)

/-- every bound of the member satisfies `P` -/
def RCP (c : RC) : Prop := ∀ e ∈ c.bounds, P e

theorem rcp_iff (c : RC) : RCP P c ↔ (∀ m, c.min = some m → P m) ∧ (∀ m, c.max = some m → P m) := by
  simp only [RCP, RC.bounds, RC.view, VRange.bounds, List.mem_append, Option.mem_toList]
  constructor
  · intro h; exact ⟨fun m hm => h m (Or.inl hm), fun m hm => h m (Or.inr hm)⟩
  · rintro ⟨h1, h2⟩ e (he | he)
    · exact h1 e he
    · exact h2 e he

theorem rcp_ver {v : Version} (h : P v) : RCP P (.ver v) := by
  intro e he; simp [RC.bounds_ver] at he; subst he; exact h

theorem rcp_rng {mn mx : Option Version} {a b : Bool} (h1 : ∀ m, mn = some m → P m) (h2 : ∀ m, mx = some m → P m) :
    RCP P (.rng ⟨mn, mx, a, b⟩) := (rcp_iff P _).2 ⟨h1, h2⟩

theorem rcp_of_ends {u x y : RC} (hx : RCP P x) (hy : RCP P y) (hmin : u.min = x.min ∨ u.min = y.min)
    (hmax : u.max = x.max ∨ u.max = y.max) : RCP P u := by
  rw [rcp_iff] at hx hy ⊢
  constructor
  · intro m hm
    rcases hmin with h | h
    · exact hx.1 m (h ▸ hm)
    · exact hy.1 m (h ▸ hm)
  · intro m hm
    rcases hmax with h | h
    · exact hx.2 m (h ▸ hm)
    · exact hy.2 m (h ▸ hm)

theorem rcUnionSingle_P (x y u : RC) (h : rcUnionSingle x y = .ok (some u)) (hx : RCP P x) (hy : RCP P y) :
    RCP P u := by
  cases x with
  | ver a =>
    simp only [rcUnionSingle] at h
    repeat' split at h
    all_goals first
      | (cases h; exact hy)
      | (cases h; exact hx)
      | cases h
  | rng r =>
    cases y with
    | ver v =>
      simp only [rcUnionSingle] at h
      repeat' split at h
      all_goals first
        | (cases h; exact hx)
        | cases h
    | rng t =>
      simp only [rcUnionSingle, bind, Except.bind, pure, Except.pure, RC.allowsAny] at h
      split at h
      · cases h
      · simp only [Except.ok.injEq, Option.some.injEq] at h
        subst h
        apply rcp_of_ends P hx hy
        · simp only [RC.min]; split <;> simp
        · simp only [RC.max]; split <;> simp

theorem mergeLoop_P : ∀ (l acc res : List RC), mergeLoop l acc = .ok res → (∀ c ∈ l, RCP P c) →
    (∀ c ∈ acc, RCP P c) → ∀ c ∈ res, RCP P c
  | [], acc, res, h, _, ha => by
    simp only [mergeLoop, Except.ok.injEq] at h
    intro c hc; rw [← h] at hc; exact ha c (by simpa using hc)
  | c :: rest, [], res, h, hl, _ => by
    simp only [mergeLoop] at h
    exact mergeLoop_P rest [c] res h (fun x hx => hl x (by simp [hx]))
      (fun x hx => by simp at hx; rw [hx]; exact hl c (by simp))
  | c :: rest, last :: more, res, h, hl, ha => by
    simp only [mergeLoop, bind, Except.bind] at h
    cases hany : RC.allowsAny last c with
    | error e => simp [hany] at h
    | ok any =>
      rw [hany] at h
      simp only at h
      split at h
      · exact mergeLoop_P rest (c :: last :: more) res h (fun x hx => hl x (by simp [hx]))
          (fun x hx => by
            simp only [List.mem_cons] at hx
            rcases hx with rfl | hx
            · exact hl _ (by simp)
            · exact ha x (by simpa using hx))
      · cases hu : rcUnionSingle last c with
        | error e => simp [hu] at h
        | ok o =>
          cases o with
          | none => simp [hu] at h
          | some u =>
            simp only [hu] at h
            have huw := rcUnionSingle_P P last c u hu (ha last (by simp)) (hl c (by simp))
            exact mergeLoop_P rest (u :: more) res h (fun x hx => hl x (by simp [hx]))
              (fun x hx => by
                simp only [List.mem_cons] at hx
                rcases hx with rfl | hx
                · exact huw
                · exact ha x (by simp [hx]))

/-- every bound of every member satisfies `P` -/
def VCP (c : VC) : Prop := ∀ r ∈ c.flatten, RCP P r

theorem vcp_iff (c : VC) : VCP P c ↔ ∀ e ∈ c.bounds, P e := by
  rw [VC.bounds_eq_flatMap]
  simp only [VCP, RCP, List.mem_flatMap]
  constructor
  · rintro h e ⟨r, hr, he⟩; exact h r hr e he
  · intro h r hr e he; exact h e ⟨r, hr, he⟩

theorem vcp_empty : VCP P .empty := by intro r hr; simp [VC.flatten] at hr

theorem vcp_single {c : RC} (h : RCP P c) : VCP P (.single c) := by
  intro r hr; simp [VC.flatten] at hr; subst hr; exact h

theorem vcp_any : VCP P VC.any := by
  apply vcp_single
  intro e he
  simp [RC.bounds, RC.view, VRange.bounds, VRange.any, RC.min, RC.max] at he

theorem unionOfFlat_P (l : List RC) (res : VC) (h : unionOfFlat l = .ok res) (hl : ∀ c ∈ l, RCP P c) :
    VCP P res := by
  unfold unionOfFlat at h
  split at h
  · cases h; exact vcp_empty P
  · split at h
    · cases h; exact vcp_any P
    · simp only [bind, Except.bind] at h
      cases hm : mergeLoop (sortRCs l) [] with
      | error e => simp [hm] at h
      | ok merged =>
        simp only [hm] at h
        have hw := mergeLoop_P P (sortRCs l) [] merged hm (fun c hc => hl c ((mem_sortRCs c l).1 hc)) (by simp)
        split at h
        · simp only [pure, Except.pure, Except.ok.injEq] at h; rw [← h]; exact vcp_single P (hw _ (by simp))
        · simp only [pure, Except.pure, Except.ok.injEq] at h; rw [← h]
          intro r hr; exact hw r (by simpa [VC.flatten] using hr)

theorem beforePiece_P (a b : VRange) (o : RC) (h : VRange.beforePiece a b = .ok (some o))
    (ha : RCP P (.rng a)) (hb : RCP P (.rng b)) : RCP P o := by
  rw [rcp_iff] at ha hb
  unfold VRange.beforePiece at h
  split at h
  · cases h
  · split at h
    · split at h
      · rename_i m hm
        cases h
        exact rcp_ver P (ha.1 m hm)
      · cases h
    · cases h
      exact rcp_rng P ha.1 hb.1

theorem afterPiece_P (a b : VRange) (o : RC) (h : VRange.afterPiece a b = .ok (some o))
    (ha : RCP P (.rng a)) (hb : RCP P (.rng b)) : RCP P o := by
  rw [rcp_iff] at ha hb
  unfold VRange.afterPiece at h
  split at h
  · cases h
  · split at h
    · split at h
      · rename_i m hm
        cases h
        exact rcp_ver P (ha.2 m hm)
      · cases h
    · cases h
      exact rcp_rng P hb.2 ha.2

theorem difference_P (a b : RC) (d : VC) (h : RC.difference a b = .ok d) (ha : RCP P a) (hb : RCP P b) :
    VCP P d := by
  cases a with
  | ver x =>
    simp only [RC.difference, RC.verDifference, Except.ok.injEq] at h
    subst h
    split
    · exact vcp_empty P
    · exact vcp_single P ha
  | rng r =>
    cases b with
    | ver v =>
      have hv : P v := hb v (by simp [RC.bounds_ver])
      have har := (rcp_iff P _).1 ha
      simp only [RC.difference, RC.rngDifferenceVer] at h
      repeat' split at h
      all_goals first
        | (cases h; exact vcp_single P ha)
        | (exact unionOfFlat_P P _ d h (by
            intro c hc
            simp only [List.mem_cons, List.mem_nil_iff, or_false] at hc
            rcases hc with rfl | rfl
            · exact rcp_rng P har.1 (by intro m hm; cases hm; exact hv)
            · exact rcp_rng P (by intro m hm; cases hm; exact hv) har.2))
    | rng t =>
      simp only [RC.difference] at h
      rw [VRange.rngDifferenceRng_eq] at h
      simp only [bind, Except.bind, pure, Except.pure, RC.allowsAny] at h
      split at h
      · cases h; exact vcp_single P ha
      · cases hbp : VRange.beforePiece r t with
        | error e => simp [hbp] at h
        | ok ob =>
          cases hap : VRange.afterPiece r t with
          | error e => simp [hbp, hap] at h
          | ok oa =>
            simp only [hbp, hap] at h
            cases ob with
            | none =>
              cases oa with
              | none => cases h; exact vcp_empty P
              | some y => cases h; exact vcp_single P (afterPiece_P P r t y hap ha hb)
            | some x =>
              have hx := beforePiece_P P r t x hbp ha hb
              cases oa with
              | none => cases h; exact vcp_single P hx
              | some y =>
                have hy := afterPiece_P P r t y hap ha hb
                exact unionOfFlat_P P _ d h (by
                  intro c hc
                  simp only [List.mem_cons, List.mem_nil_iff, or_false] at hc
                  rcases hc with rfl | rfl
                  · exact hx
                  · exact hy)

theorem rngDiffFinish_P (cur : RC) (ranges : List RC) (res : VC) (h : VC.rngDiffFinish cur ranges = .ok res)
    (hc : RCP P cur) (hr : ∀ c ∈ ranges, RCP P c) : VCP P res := by
  unfold VC.rngDiffFinish at h
  split at h
  · cases h; exact vcp_single P hc
  · exact unionOfFlat_P P _ res h (by
      intro c hcm
      simp only [List.mem_append, List.mem_singleton] at hcm
      rcases hcm with h' | rfl
      · exact hr c h'
      · exact hc)

theorem rngDiffUnionLoop_P : ∀ (rs : List RC) (cur : RC) (ranges : List RC) (res : VC),
    VC.rngDiffUnionLoop rs cur ranges = .ok res → (∀ c ∈ rs, RCP P c) → RCP P cur → (∀ c ∈ ranges, RCP P c) →
    VCP P res
  | [], cur, ranges, res, h, _, hc, hr => by
    simp only [VC.rngDiffUnionLoop] at h
    exact rngDiffFinish_P P cur ranges res h hc hr
  | r :: rest, cur, ranges, res, h, hrs, hc, hr => by
    have hrest : ∀ c ∈ rest, RCP P c := fun c hcm => hrs c (by simp [hcm])
    simp only [VC.rngDiffUnionLoop] at h
    split at h
    · exact rngDiffUnionLoop_P rest cur ranges res h hrest hc hr
    · split at h
      · exact rngDiffFinish_P P cur ranges res h hc hr
      · simp only [bind, Except.bind] at h
        cases hd : RC.difference cur r with
        | error e => simp [hd] at h
        | ok d =>
          simp only [hd] at h
          have hdP := difference_P P cur r d hd hc (hrs r (by simp))
          cases d with
          | empty =>
            simp only at h
            exact unionOfFlat_P P ranges res h hr
          | single d' =>
            simp only at h
            exact rngDiffUnionLoop_P rest d' ranges res h hrest (hdP d' (by simp [VC.flatten])) hr
          | union ds =>
            simp only at h
            split at h
            · rename_i d0 dl h0 hl
              have hd0 : d0 ∈ ds := List.mem_of_mem_head? h0
              have hdl : dl ∈ ds := List.mem_of_getLast? hl
              exact rngDiffUnionLoop_P rest dl (ranges ++ [d0]) res h hrest (hdP dl (by simpa [VC.flatten] using hdl))
                (by
                  intro c hcm
                  simp only [List.mem_append, List.mem_singleton] at hcm
                  rcases hcm with h' | rfl
                  · exact hr c h'
                  · exact hdP _ (by simpa [VC.flatten] using hd0))
            · cases h

theorem inverted_P (rs : List RC) (res : VC) (h : VC.inverted rs = .ok res) (hrs : ∀ c ∈ rs, RCP P c) :
    VCP P res := by
  unfold VC.inverted at h
  exact rngDiffUnionLoop_P P rs _ [] res h hrs ((vcp_any P) _ (by simp [VC.any, VC.flatten])) (by simp)

/-- the version a union excludes (`!=V`) is one of its bounds, hence satisfies what all bounds satisfy -/
theorem excludedSingleVersion_P (rs : List RC) (v : Version) (h : VC.excludedSingleVersion rs = .ok (some v))
    (hrs : ∀ c ∈ rs, RCP P c) : P v := by
  unfold VC.excludedSingleVersion at h
  cases hi : VC.inverted rs with
  | error e => simp [hi, bind, Except.bind] at h
  | ok c =>
    simp only [hi, bind, Except.bind, pure, Except.pure] at h
    have hc := inverted_P P rs c hi hrs
    split at h
    · rename_i w
      injection h with h; injection h with h; subst h
      exact hc (.ver w) (by simp [VC.flatten]) w (by simp [RC.bounds_ver])
    · cases h

end Bounds

/-- **the version a union prints as `!=V` is one of the bounds of the union** (no hypothesis on the members) -/
theorem excludedSingleVersion_mem_bounds (rs : List RC) (v : Version)
    (h : VC.excludedSingleVersion rs = .ok (some v)) : v ∈ (VC.union rs).bounds :=
  excludedSingleVersion_P (fun e => e ∈ (VC.union rs).bounds) rs v h (by
    intro c hc e he
    exact List.mem_flatMap.2 ⟨c, hc, he⟩)

theorem excludedWildcard_noLocal (rs : List RC) (omax tmin : Version)
    (h : VC.excludedWildcard rs = some (omax, tmin)) : omax.isLocal = false := by
  unfold VC.excludedWildcard at h
  split at h
  · rename_i r0 r1
    by_cases hm : r0.max.isSome = true
    · simp only [hm, if_true] at h
      split at h
      · split at h
        · cases h
        · split at h
          · rename_i hw; cases h; exact (isWildcardCandidate_noLocal _ _ true hw).2
          · cases h
      · cases h
    · simp only [hm, Bool.false_eq_true, if_false] at h
      split at h
      · split at h
        · cases h
        · split at h
          · rename_i hw; cases h; exact (isWildcardCandidate_noLocal _ _ true hw).2
          · cases h
      · cases h
  · cases h

theorem mapM_toStr_singleLine : ∀ (rs : List RC) (parts : List String), rs.mapM RC.toStr = .ok parts →
    (∀ c ∈ rs, ∀ e ∈ c.bounds, SingleLine e.text) → ∀ p ∈ parts, SingleLine p
  | [], parts, h, _ => by
    simp [pure, Except.pure] at h
    subst h
    intro p hp; simp at hp
  | r :: rest, parts, h, hb => by
    simp only [List.mapM_cons, bind, Except.bind, pure, Except.pure] at h
    cases h1 : RC.toStr r with
    | error e => simp [h1] at h
    | ok t =>
      simp only [h1] at h
      cases h2 : rest.mapM RC.toStr with
      | error e => simp [h2] at h
      | ok ts =>
        simp only [h2, Except.ok.injEq] at h
        subst h
        intro p hp
        simp only [List.mem_cons] at hp
        rcases hp with rfl | hp
        · exact RC.toStr_singleLine r _ h1 (hb r (by simp))
        · exact mapM_toStr_singleLine rest ts h2 (fun c hc => hb c (by simp [hc])) p hp

/-- **`str(constraint)` holds no CR / LF when the texts of the bounds hold none** -/
theorem VC.toStr_singleLine (c : VC) (s : String) (h : c.toStr = .ok s) (hb : BoundsLineFree c) :
    SingleLine s := by
  cases c with
  | empty => simp [VC.toStr] at h; subst h; decide
  | single m => exact RC.toStr_singleLine m s h hb
  | union rs =>
    have hrs : ∀ c ∈ rs, ∀ e ∈ c.bounds, SingleLine e.text :=
      fun c hc e he => hb e (List.mem_flatMap.2 ⟨c, hc, he⟩)
    simp only [VC.toStr, bind, Except.bind] at h
    cases hx : VC.excludedSingleVersion rs with
    | error e => simp [hx] at h
    | ok o =>
      simp only [hx] at h
      cases o with
      | some v =>
        simp [pure, Except.pure] at h
        subst h
        rw [singleLine_append]
        exact ⟨by decide, hb v (excludedSingleVersion_mem_bounds rs v hx)⟩
      | none =>
        simp only at h
        cases hw : VC.excludedWildcard rs with
        | some pr =>
          obtain ⟨omax, tmin⟩ := pr
          simp only [hw] at h
          cases hs : singleWildcardRangeString omax tmin with
          | error e => simp [hs] at h
          | ok t =>
            simp [hs, pure, Except.pure] at h
            subst h
            rw [singleLine_append]
            exact ⟨by decide, singleWildcardRangeString_singleLine omax tmin t hs
              (excludedWildcard_noLocal rs omax tmin hw)⟩
        | none =>
          simp only [hw] at h
          cases hm : rs.mapM RC.toStr with
          | error e => simp [hm] at h
          | ok parts =>
            simp [hm, pure, Except.pure] at h
            subst h
            exact joinWith_singleLine " || " (by decide) parts (mapM_toStr_singleLine rs parts hm hrs)

/-- the texts `TextOK` describes hold no CR / LF -/
theorem boundsLineFree_of_textOK (c : VC) (h : ∀ e ∈ c.bounds, TextOK e) : BoundsLineFree c := by
  intro e he ch hch
  have hv := vchar_toNat ch ((h e he).chars ch hch)
  simp only [isNL, Bool.or_eq_false_iff, decide_eq_false_iff_not]
  constructor
  · intro e; subst e; revert hv; decide
  · intro e; subst e; revert hv; decide

/-! ### `create_nested_marker` for version constraints -/

theorem ite_singleLine {p : Prop} [Decidable p] {a b : String} (ha : SingleLine a) (hb : SingleLine b) :
    SingleLine (if p then a else b) := by
  split <;> assumption

theorem padZeros_singleLine (n : Nat) : SingleLine (padZeros n) := by
  unfold padZeros SingleLine
  rw [String.toList_join]
  intro c hc
  obtain ⟨s, hs, hcs⟩ := List.mem_flatMap.1 hc
  have := (List.mem_replicate.1 hs).2
  subst this
  exact (by decide : SingleLine ".0") c hcs

theorem mem_ite_singleton {p : Prop} [Decidable p] {a b x : String} (hx : x ∈ (if p then [a] else [b]))
    (ha : SingleLine a) (hb : SingleLine b) : SingleLine x := by
  split at hx <;> simp only [List.mem_singleton] at hx <;> subst hx <;> assumption

theorem nestedRC_singleLine (name : String) (c : RC) (hn : SingleLine name)
    (hb : ∀ e ∈ c.bounds, SingleLine e.text) : SingleLine (nestedRC name c) := by
  cases c with
  | ver v =>
    have hv := hb v (by simp [RC.bounds_ver])
    simp only [nestedRC, singleLine_append]
    exact ⟨⟨⟨ite_singleLine (by decide) hn, by decide⟩, hv⟩, by decide⟩
  | rng r =>
    obtain ⟨mn, mx, imin, imax⟩ := r
    simp only [nestedRC]
    apply joinWith_singleLine " and " (by decide)
    intro x hx
    rw [List.mem_append] at hx
    rcases hx with hx | hx
    · cases mn with
      | none => simp at hx
      | some v =>
        have hv := hb v (by simp [RC.bounds, RC.view, VRange.bounds, RC.min])
        simp only at hx
        exact mem_ite_singleton hx
          (singleLine_append.2 ⟨singleLine_append.2 ⟨singleLine_append.2 ⟨by decide, hv⟩, padZeros_singleLine _⟩,
            by decide⟩)
          (singleLine_append.2 ⟨singleLine_append.2 ⟨singleLine_append.2 ⟨singleLine_append.2
            ⟨singleLine_append.2 ⟨ite_singleLine (by decide) hn, by decide⟩, ite_singleLine (by decide) (by decide)⟩,
            by decide⟩, hv⟩, by decide⟩)
    · cases mx with
      | none => simp at hx
      | some v =>
        have hv := hb v (by simp [RC.bounds, RC.view, VRange.bounds, RC.max])
        simp only at hx
        exact mem_ite_singleton hx
          (singleLine_append.2 ⟨singleLine_append.2 ⟨singleLine_append.2 ⟨by decide, hv⟩, padZeros_singleLine _⟩,
            by decide⟩)
          (singleLine_append.2 ⟨singleLine_append.2 ⟨singleLine_append.2 ⟨singleLine_append.2
            ⟨singleLine_append.2 ⟨ite_singleLine (by decide) hn, by decide⟩, ite_singleLine (by decide) (by decide)⟩,
            by decide⟩, hv⟩, by decide⟩)

/-- **`create_nested_marker(name, constraint)` holds no CR / LF** when the name and the texts of the bounds hold none -/
theorem createNestedMarker_singleLine (name : String) (c : VC) (s : String)
    (h : createNestedMarker name c = .ok s) (hn : SingleLine name) (hb : BoundsLineFree c) : SingleLine s := by
  unfold createNestedMarker at h
  split at h
  · cases h; decide
  · cases c with
    | empty => cases h
    | single rc => cases h; exact nestedRC_singleLine name rc hn hb
    | union rs =>
      cases h
      apply joinWith_singleLine " or " (by decide)
      intro x hx
      obtain ⟨rc, hrc, rfl⟩ := List.mem_map.1 hx
      simp only [singleLine_append]
      exact ⟨⟨by decide, ite_singleLine (by decide)
        (nestedRC_singleLine name rc hn (fun e he => hb e (List.mem_flatMap.2 ⟨rc, hrc, he⟩)))⟩, by decide⟩

/-! ### `format_python_constraint` -/

theorem nextMajor_text_singleLine (v : Version) : SingleLine v.nextMajor.text := by
  simp only [Version.nextMajor, Version.mk']
  exact toStr_noLocal_singleLine _ _ _ _ _

theorem nextMinor_text_singleLine (v : Version) : SingleLine v.nextMinor.text := by
  simp only [Version.nextMinor, Version.mk']
  exact toStr_noLocal_singleLine _ _ _ _ _

theorem nextPatch_text_singleLine (v : Version) : SingleLine v.nextPatch.text := by
  simp only [Version.nextPatch, Version.mk']
  exact toStr_noLocal_singleLine _ _ _ _ _

theorem nextBreaking_text_singleLine (v : Version) : SingleLine v.nextBreaking.text := by
  unfold Version.nextBreaking
  split
  · exact nextMajor_text_singleLine _
  · split
    · exact nextMinor_text_singleLine _
    · exact nextPatch_text_singleLine _

theorem relChars_vPlain (x : Nat) (r : List Nat) : ∀ c ∈ relChars x r, vPlain c := by
  intro c hc
  refine ⟨relChars_noSpace x r c hc, ?_, ?_⟩
  · rcases relChars_chars x r c hc with h | rfl
    · exact digit_ne c '|' h (by decide)
    · decide
  · rcases relChars_chars x r c hc with h | rfl
    · exact digit_ne c ',' h (by decide)
    · decide

/-- `parse_constraint` on one clause without blanks, commas, bars -/
theorem parseConstraint_plain (l : List Char) (hp : ∀ c ∈ l, vPlain c) (hne : l ≠ [])
    (hstar : l.head? ≠ some '*') :
    VParser.parseConstraint (String.ofList l) = VParser.parseSingle l false := by
  unfold VParser.parseConstraint
  rw [parseConstraintAux_one false l (groupText_of_vPlain l hp hne) hstar, Poetry.parseGroup_plain false l hp]

theorem litV_parse (x : Nat) (r : List Nat) :
    VParser.versionToEnd? (dropSpaces (relChars x r)) = some (Version.relText (x :: r)) ∧
    Version.parse (Version.relText (x :: r)) = .ok (litV x r) := by
  rw [dropSpaces_noSpace _ (relChars_noSpace x r), versionToEnd?_relChars, ofList_relChars]
  exact ⟨rfl, parse_relText x r⟩

theorem parseConstraint_tilde (a b : Nat) :
    VParser.parseConstraint ("~" ++ toString a ++ "." ++ toString b) =
      .ok (.single (.rng (C15.tildeRange (litV a [b])))) := by
  have e : "~" ++ toString a ++ "." ++ toString b = String.ofList ('~' :: relChars a [b]) := by
    apply str_eq_of_toList
    simp [String.toList_append, relChars, relTail, dg, natToString]
  rw [e, parseConstraint_plain _ (by
      intro c hc
      simp only [List.mem_cons] at hc
      rcases hc with rfl | hc
      · exact ⟨by decide, by decide, by decide⟩
      · exact relChars_vPlain a [b] c hc) (by simp) (by simp)]
  obtain ⟨d, ds, hd, hdig⟩ := relChars_cons a [b]
  have hl := litV_parse a [b]
  rw [hd] at hl ⊢
  exact C15.parse_tilde d ds _ _ false (digit_ne d '=' hdig (by decide)) hl.1 hl.2

theorem parseConstraint_caret (a : Nat) :
    VParser.parseConstraint ("^" ++ toString a ++ ".0") =
      .ok (.single (.rng (C15.caretRange (litV a [0])))) := by
  have e : "^" ++ toString a ++ ".0" = String.ofList ('^' :: relChars a [0]) := by
    apply str_eq_of_toList
    have h0 : dg 0 = ['0'] := by decide
    simp [String.toList_append, relChars, relTail, h0]
    simp [dg, natToString]
  rw [e, parseConstraint_plain _ (by
      intro c hc
      simp only [List.mem_cons] at hc
      rcases hc with rfl | hc
      · exact ⟨by decide, by decide, by decide⟩
      · exact relChars_vPlain a [0] c hc) (by simp) (by simp)]
  have hl := litV_parse a [0]
  exact C15.parse_caret _ _ _ false hl.1 hl.2

theorem litV_text_singleLine (x : Nat) (r : List Nat) : SingleLine (litV x r).text :=
  relText_singleLine (x :: r)

/-- **`format_python_constraint` holds no CR / LF when the texts of the bounds hold none** -/
theorem formatPythonConstraint_singleLine (c : VC) (t : String) (h : Dep02.formatPythonConstraint c = .ok t)
    (hb : BoundsLineFree c) : SingleLine t := by
  cases c with
  | empty =>
    simp only [Dep02.formatPythonConstraint, bind, Except.bind, pure, Except.pure] at h
    exact VC.toStr_singleLine _ t h hb
  | union rs => exact formatPython_union_singleLine rs t h
  | single m =>
    cases m with
    | rng r =>
      simp only [Dep02.formatPythonConstraint, bind, Except.bind, pure, Except.pure] at h
      exact VC.toStr_singleLine _ t h hb
    | ver v =>
      simp only [Dep02.formatPythonConstraint, bind, Except.bind, pure, Except.pure] at h
      by_cases h3 : v.precision ≥ 3
      · simp only [h3, if_true] at h
        cases h
        rw [singleLine_append]
        exact ⟨by decide, hb v (by simp [VC.bounds, RC.bounds_ver])⟩
      · simp only [h3, if_false] at h
        by_cases h2 : (v.precision == 2) = true
        · simp only [h2, if_true, parseConstraint_tilde] at h
          refine VC.toStr_singleLine _ t h ?_
          intro e he
          simp only [VC.bounds, RC.bounds_rng, VRange.bounds, C15.tildeRange, Option.toList_some, List.cons_append,
            List.nil_append, List.mem_cons, List.mem_nil_iff, or_false] at he
          rcases he with rfl | rfl
          · exact litV_text_singleLine _ _
          · split
            · exact nextMajor_text_singleLine _
            · exact nextMinor_text_singleLine _
        · simp only [h2, Bool.false_eq_true, if_false, parseConstraint_caret] at h
          refine VC.toStr_singleLine _ t h ?_
          intro e he
          simp only [VC.bounds, RC.bounds_rng, VRange.bounds, C15.caretRange, Option.toList_some, List.cons_append,
            List.nil_append, List.mem_cons, List.mem_nil_iff, or_false] at he
          rcases he with rfl | rfl
          · exact litV_text_singleLine _ _
          · exact nextBreaking_text_singleLine _

end Poetry.Meta
