/-
C19 helper lemmas (marker simplifier, second part): the LEAF INVARIANT and its preservation by the whole
mutual block of `Model/MarkerAlg.lean`, together with the error classification on invariant operands — one
induction on the fuel, in the style of a Hoare logic over `PyM` (`Res`).  Parametric in the leaf predicate `G`,
the error class `E` of the leaf merge and, for the concrete invariant `LeafOK P`, in a predicate `P` on
version constraints closed under the operations the merge uses (`VCOpsMin P`).
-/
import PoetryVerif.Proofs.ParserTotalSimp
import PoetryVerif.Proofs.ParserTotalVC4

set_option linter.unusedSimpArgs false
set_option linter.unusedVariables false

namespace Poetry.ParserTotal
open Poetry Marker

/-- the part of the version-constraint package the leaf merge uses (both `VCOpsTotal` and the text-clean
`VCOpsTotalT` provide it) -/
structure VCOpsMin (P : VC → Prop) : Prop where
  any : P VC.any
  parsed : ∀ s m c, VParser.parseConstraintAux s m = .ok c → P c
  inter : ∀ a b, P a → P b → ∃ c, VC.intersect a b = .ok c ∧ P c
  unionWith : ∀ a b, P a → P b → ∃ c, VC.unionWith a b = .ok c ∧ P c
  isSimple : ∀ c, P c → ∃ b, VC.isSimple c = .ok b
  toStr : ∀ c, P c → ∃ t, VC.toStr c = .ok t

theorem VCOpsTotal.toMin {P : VC → Prop} (h : VCOpsTotal P) : VCOpsMin P :=
  ⟨h.any, h.parsed, h.inter, h.unionWith, h.isSimple, h.toStr⟩

variable {G : Leaf → Prop} {E : PyErr → Prop}

/-! ## markers whose leaves all satisfy `G` (`M.Good G`, Proofs/MarkerSem.lean) -/

abbrev GL (G : Leaf → Prop) (l : List M) : Prop := ∀ x ∈ l, M.Good G x

theorem appendNew_good (ms : List M) : ∀ (acc : List M), GL G acc → GL G ms → GL G (appendNew acc ms) := by
  induction ms with
  | nil => intro acc hacc _; simpa [appendNew] using hacc
  | cons x xs ih =>
    intro acc hacc hms
    have hx := hms x (by simp)
    have hxs : GL G xs := fun m hm => hms m (by simp [hm])
    simp only [appendNew, List.foldl_cons]
    split
    · exact ih acc hacc hxs
    · apply ih _ _ hxs
      intro m hm
      simp at hm
      rcases hm with hm | rfl
      · exact hacc m hm
      · exact hx

theorem flattenAux_good (b : Bool) (ms acc : List M) (hms : GL G ms) (hacc : GL G acc) :
    GL G (flattenAux b ms acc) := by
  fun_induction flattenAux b ms acc with
  | case1 acc => exact hacc
  | case2 rest acc inner hb ih1 ih2 =>
    subst hb
    have h1 : GL G inner := by simpa using hms (.multi inner) (by simp)
    exact ih2 (fun m hm => hms m (by simp [hm])) (appendNew_good _ _ hacc (ih1 h1 (by intro x hx; simp at hx)))
  | case3 rest acc inner hb ih1 ih2 =>
    subst hb
    have h1 : GL G inner := by simpa using hms (.union inner) (by simp)
    exact ih2 (fun m hm => hms m (by simp [hm])) (appendNew_good _ _ hacc (ih1 h1 (by intro x hx; simp at hx)))
  | case4 rest acc m _ _ ih =>
    apply ih (fun x hx => hms x (by simp [hx]))
    split
    · exact hacc
    · intro m' hm'
      simp at hm'
      rcases hm' with hm' | rfl
      · exact hacc m' hm'
      · exact hms _ (by simp)

theorem flattenMarkers_good (b : Bool) (ms : List M) (h : GL G ms) : GL G (flattenMarkers b ms) :=
  flattenAux_good b ms [] h (by intro x hx; simp at hx)

theorem mkMulti_good {ms : List M} (h : GL G ms) : M.Good G (Marker.mkMulti ms) := by
  unfold Marker.mkMulti; simpa using flattenMarkers_good true ms h

theorem mkUnion_good {ms : List M} (h : GL G ms) : M.Good G (mkUnion ms) := by
  unfold mkUnion; simpa using flattenMarkers_good false ms h

theorem unwrapSingleton_good : ∀ (k : Nat) (m : M), M.Good G m → M.Good G (unwrapSingleton k m) := by
  intro k
  induction k with
  | zero => intro m h; simpa [unwrapSingleton] using h
  | succ k ih =>
    intro m h
    unfold unwrapSingleton
    split
    · exact ih _ (by simpa using h)
    · exact ih _ (by simpa using h)
    · exact h

theorem setAt_good {l : List M} {i : Nat} {x : M} (hl : GL G l) (hx : M.Good G x) : GL G (setAt l i x) := by
  intro y hy
  unfold setAt at hy
  rcases List.mem_or_eq_of_mem_set hy with h | rfl
  · exact hl y h
  · exact hx

theorem product_good {ls : List (List M)} (h : ∀ l ∈ ls, GL G l) : ∀ c ∈ product ls, GL G c := by
  intro c hc x hx
  obtain ⟨l, hl, hxl⟩ := product_mem hc x hx
  exact h l hl x hxl

theorem membersIfMulti_good {c : M} (h : M.Good G c) : GL G (membersIfMulti c) := by
  cases c with
  | multi ms => simpa [membersIfMulti] using h
  | any => intro x hx; simp [membersIfMulti] at hx; subst hx; exact h
  | empty => intro x hx; simp [membersIfMulti] at hx; subst hx; exact h
  | leaf l => intro x hx; simp [membersIfMulti] at hx; subst hx; exact h
  | union ms => intro x hx; simp [membersIfMulti] at hx; subst hx; exact h

theorem membersIfUnion_good {c : M} (h : M.Good G c) : GL G (membersIfUnion c) := by
  cases c with
  | union ms => simpa [membersIfUnion] using h
  | any => intro x hx; simp [membersIfUnion] at hx; subst hx; exact h
  | empty => intro x hx; simp [membersIfUnion] at hx; subst hx; exact h
  | leaf l => intro x hx; simp [membersIfUnion] at hx; subst hx; exact h
  | multi ms => intro x hx; simp [membersIfUnion] at hx; subst hx; exact h

theorem filter_good {l : List M} (p : M → Bool) (h : GL G l) : GL G (l.filter p) :=
  fun x hx => h x (List.mem_filter.1 hx).1

theorem append_good {l1 l2 : List M} (h1 : GL G l1) (h2 : GL G l2) : GL G (l1 ++ l2) := by
  intro x hx; simp at hx; rcases hx with hx | hx
  · exact h1 x hx
  · exact h2 x hx

theorem pair_good {a b : M} (ha : M.Good G a) (hb : M.Good G b) : GL G [a, b] := by
  intro x hx; simp at hx; rcases hx with rfl | rfl <;> assumption

theorem single_good {a : M} (ha : M.Good G a) : GL G [a] := by
  intro x hx; simp at hx; subst hx; exact ha

/-! ## a Hoare logic over `PyM`: the result satisfies `Q`, an error lies in `BlockErr E` -/

def Res (E : PyErr → Prop) {α : Type} (Q : α → Prop) : PyM α → Prop
  | .ok a => Q a
  | .error e => BlockErr E e

theorem Res.bind {α β : Type} {Q : α → Prop} {R : β → Prop} {x : PyM α} {f : α → PyM β}
    (hx : Res E Q x) (hf : ∀ a, Q a → Res E R (f a)) : Res E R (x >>= f) := by
  cases x with
  | error e => exact hx
  | ok a => exact hf a hx

theorem Res.pure_bind {α β : Type} {R : β → Prop} {a : α} {f : α → PyM β} (h : Res E R (f a)) :
    Res E R (Pure.pure a >>= f) := h

theorem Res.pure {α : Type} {Q : α → Prop} {a : α} (h : Q a) : Res E Q (Pure.pure a : PyM α) := h
theorem Res.ok {α : Type} {Q : α → Prop} {a : α} (h : Q a) : Res E Q (.ok a : PyM α) := h
theorem Res.fuel {α : Type} {Q : α → Prop} : Res E Q (.error .fuel : PyM α) := .inl rfl
theorem Res.recursion {α : Type} {Q : α → Prop} : Res E Q (.error .recursion : PyM α) := .inr (.inl rfl)

theorem Res.mono {α : Type} {Q Q' : α → Prop} {x : PyM α} (hx : Res E Q x) (h : ∀ a, Q a → Q' a) :
    Res E Q' x := by
  cases x with
  | error e => exact hx
  | ok a => exact h a hx

theorem Res.ite {α : Type} {Q : α → Prop} {c : Prop} [Decidable c] {a b : PyM α}
    (ha : c → Res E Q a) (hb : ¬ c → Res E Q b) : Res E Q (if c then a else b) := by
  by_cases hc : c
  · rw [if_pos hc]; exact ha hc
  · rw [if_neg hc]; exact hb hc

theorem Res.of_ok {α : Type} {Q : α → Prop} {x : PyM α} {a : α} (hx : Res E Q x) (h : x = .ok a) : Q a := by
  rw [h] at hx; exact hx

theorem Res.of_err {α : Type} {Q : α → Prop} {x : PyM α} {e : PyErr} (hx : Res E Q x) (h : x = .error e) :
    BlockErr E e := by
  rw [h] at hx; exact hx

/-! ## the invariant through the mutual block -/

def OptGood (G : Leaf → Prop) (o : Option M) : Prop := ∀ r, o = some r → M.Good G r
def OptGL (G : Leaf → Prop) (o : Option (List M)) : Prop := ∀ l, o = some l → GL G l
def TryGL (G : Leaf → Prop) (r : Unit ⊕ Option (List M)) : Prop := ∀ l, r = .inr (some l) → GL G l

/-- what the block needs from `_merge_single_markers`: on leaves satisfying `G` a merged marker satisfies
`G` again and an error lies in `E` (or is fuel) -/
def MergeRes (G : Leaf → Prop) (E : PyErr → Prop) : Prop :=
  ∀ l1 l2 b, G l1 → G l2 → Res E (OptGood G) (mergeLeaves l1 l2 b)

structure InvAt (G : Leaf → Prop) (E : PyErr → Prop) (n : Nat) : Prop where
  inter : ∀ stk a b, M.Good G a → M.Good G b → Res E (M.Good G) (mIntersect n stk a b)
  uni : ∀ stk a b, M.Good G a → M.Good G b → Res E (M.Good G) (mUnion n stk a b)
  interF : ∀ stk ms, GL G ms → Res E (M.Good G) (intersectionF n stk ms)
  uniF : ∀ stk ms, GL G ms → Res E (M.Good G) (unionF n stk ms)
  cnf : ∀ stk m, M.Good G m → Res E (M.Good G) (Marker.cnf n stk m)
  dnf : ∀ stk m, M.Good G m → Res E (M.Good G) (Marker.dnf n stk m)
  mOf : ∀ stk ms, GL G ms → Res E (M.Good G) (multiOf n stk ms)
  mLoop : ∀ stk old new, GL G new → Res E (M.Good G) (multiOfLoop n stk old new)
  mPass : ∀ stk todo new, GL G todo → GL G new → Res E (OptGL G) (multiPass n stk todo new)
  mTry : ∀ stk marker all i remaining, M.Good G marker → GL G all → GL G remaining →
    Res E (TryGL G) (multiTry n stk marker all i remaining)
  uOf : ∀ stk ms, GL G ms → Res E (M.Good G) (unionOf n stk ms)
  uLoop : ∀ stk old new, GL G new → Res E (M.Good G) (unionOfLoop n stk old new)
  uPass : ∀ stk todo new, GL G todo → GL G new → Res E (OptGL G) (unionPass n stk todo new)
  uTry : ∀ stk marker all i remaining, M.Good G marker → GL G all → GL G remaining →
    Res E (TryGL G) (unionTry n stk marker all i remaining)
  iSimp : ∀ stk ours other, GL G ours → M.Good G other → Res E (OptGood G) (intersectSimplify n stk ours other)
  uSimp : ∀ stk ours other, GL G ours → M.Good G other → Res E (OptGood G) (unionSimplify n stk ours other)

theorem union_good {l : List M} (h : GL G l) : M.Good G (.union l) := by simpa using h
theorem multi_good {l : List M} (h : GL G l) : M.Good G (.multi l) := by simpa using h
theorem good_any' : M.Good G .any := by simp
theorem good_empty' : M.Good G .empty := by simp

theorem mIntersect_istep (hM : MergeRes G E) {n : Nat} (ih : InvAt G E n) :
    ∀ stk a b, M.Good G a → M.Good G b → Res E (M.Good G) (mIntersect (n + 1) stk a b) := by
  intro stk a b ha hb
  rw [mIntersect.eq_def]
  simp only
  cases a with
  | any => exact hb
  | empty => exact Res.ok good_empty'
  | leaf la =>
    cases b with
    | leaf lb =>
      simp only
      refine Res.bind (hM la lb true (by simpa using ha) (by simpa using hb)) ?_
      intro o ho
      cases o with
      | some r => exact ho r rfl
      | none => exact Res.pure (mkMulti_good (pair_good ha hb))
    | any => exact ih.inter _ _ _ hb ha
    | empty => exact ih.inter _ _ _ hb ha
    | multi ms => exact ih.inter _ _ _ hb ha
    | union ms => exact ih.inter _ _ _ hb ha
  | multi ms => exact ih.interF _ _ (pair_good ha hb)
  | union ms => exact ih.interF _ _ (pair_good ha hb)

theorem mUnion_istep (hM : MergeRes G E) {n : Nat} (ih : InvAt G E n) :
    ∀ stk a b, M.Good G a → M.Good G b → Res E (M.Good G) (mUnion (n + 1) stk a b) := by
  intro stk a b ha hb
  rw [mUnion.eq_def]
  simp only
  cases a with
  | any => exact Res.ok good_any'
  | empty => exact hb
  | leaf la =>
    cases b with
    | leaf lb =>
      simp only
      refine Res.bind (hM la lb false (by simpa using ha) (by simpa using hb)) ?_
      intro o ho
      cases o with
      | some r => exact ho r rfl
      | none => exact Res.pure (mkUnion_good (pair_good ha hb))
    | any => exact ih.uni _ _ _ hb ha
    | empty => exact ih.uni _ _ _ hb ha
    | multi ms => exact ih.uni _ _ _ hb ha
    | union ms => exact ih.uni _ _ _ hb ha
  | multi ms => exact ih.uniF _ _ (pair_good ha hb)
  | union ms => exact ih.uniF _ _ (pair_good ha hb)

theorem mapCnf_inv {n : Nat} {stk : Stack} (hc : ∀ m, M.Good G m → Res E (M.Good G) (Marker.cnf n stk m)) :
    ∀ ms, GL G ms → Res E (GL G) (mapCnf n stk ms) := by
  intro ms
  induction ms with
  | nil => intro _; rw [mapCnf.eq_def]; exact Res.ok (by intro x hx; simp at hx)
  | cons m ms ihl =>
    intro hg
    rw [mapCnf.eq_def]
    simp only
    refine Res.bind (hc m (hg m (by simp))) (fun x hx => ?_)
    refine Res.bind (ihl (fun y hy => hg y (by simp [hy]))) (fun xs hxs => ?_)
    exact Res.pure (by intro y hy; simp at hy; rcases hy with rfl | hy; exact hx; exact hxs y hy)

theorem mapDnf_inv {n : Nat} {stk : Stack} (hc : ∀ m, M.Good G m → Res E (M.Good G) (Marker.dnf n stk m)) :
    ∀ ms, GL G ms → Res E (GL G) (mapDnf n stk ms) := by
  intro ms
  induction ms with
  | nil => intro _; rw [mapDnf.eq_def]; exact Res.ok (by intro x hx; simp at hx)
  | cons m ms ihl =>
    intro hg
    rw [mapDnf.eq_def]
    simp only
    refine Res.bind (hc m (hg m (by simp))) (fun x hx => ?_)
    refine Res.bind (ihl (fun y hy => hg y (by simp [hy]))) (fun xs hxs => ?_)
    exact Res.pure (by intro y hy; simp at hy; rcases hy with rfl | hy; exact hx; exact hxs y hy)

theorem mapUnionOf_inv {n : Nat} {stk : Stack} (hc : ∀ c, GL G c → Res E (M.Good G) (unionOf n stk c)) :
    ∀ cs, (∀ c ∈ cs, GL G c) → Res E (GL G) (mapUnionOf n stk cs) := by
  intro cs
  induction cs with
  | nil => intro _; rw [mapUnionOf.eq_def]; exact Res.ok (by intro x hx; simp at hx)
  | cons c cs ihl =>
    intro hg
    rw [mapUnionOf.eq_def]
    simp only
    refine Res.bind (hc c (hg c (by simp))) (fun x hx => ?_)
    refine Res.bind (ihl (fun y hy => hg y (by simp [hy]))) (fun xs hxs => ?_)
    exact Res.pure (by intro y hy; simp at hy; rcases hy with rfl | hy; exact hx; exact hxs y hy)

theorem mapMultiOf_inv {n : Nat} {stk : Stack} (hc : ∀ c, GL G c → Res E (M.Good G) (multiOf n stk c)) :
    ∀ cs, (∀ c ∈ cs, GL G c) → Res E (GL G) (mapMultiOf n stk cs) := by
  intro cs
  induction cs with
  | nil => intro _; rw [mapMultiOf.eq_def]; exact Res.ok (by intro x hx; simp at hx)
  | cons c cs ihl =>
    intro hg
    rw [mapMultiOf.eq_def]
    simp only
    refine Res.bind (hc c (hg c (by simp))) (fun x hx => ?_)
    refine Res.bind (ihl (fun y hy => hg y (by simp [hy]))) (fun xs hxs => ?_)
    exact Res.pure (by intro y hy; simp at hy; rcases hy with rfl | hy; exact hx; exact hxs y hy)

theorem cnf_istep {n : Nat} (ih : InvAt G E n) :
    ∀ stk m, M.Good G m → Res E (M.Good G) (Marker.cnf (n + 1) stk m) := by
  intro stk m hg
  rw [cnf.eq_def]
  simp only
  cases m with
  | union ms =>
    simp only
    refine Res.bind (mapCnf_inv (ih.cnf stk) ms (by simpa using hg)) (fun cs hcs => ?_)
    refine Res.bind (mapUnionOf_inv (ih.uOf stk) _ (product_good ?_)) (fun us hus => ih.mOf _ _ hus)
    intro l hl
    simp only [List.mem_map] at hl
    obtain ⟨c, hc, rfl⟩ := hl
    exact membersIfMulti_good (hcs c hc)
  | multi ms =>
    simp only
    exact Res.bind (mapCnf_inv (ih.cnf stk) ms (by simpa using hg)) (fun cs hcs => ih.mOf _ _ hcs)
  | any => exact hg
  | empty => exact hg
  | leaf l => exact hg

theorem dnf_istep {n : Nat} (ih : InvAt G E n) :
    ∀ stk m, M.Good G m → Res E (M.Good G) (Marker.dnf (n + 1) stk m) := by
  intro stk m hg
  rw [dnf.eq_def]
  simp only
  cases m with
  | multi ms =>
    simp only
    refine Res.bind (mapDnf_inv (ih.dnf stk) ms (by simpa using hg)) (fun cs hcs => ?_)
    refine Res.bind (mapMultiOf_inv (ih.mOf stk) _ (product_good ?_)) (fun us hus => ih.uOf _ _ hus)
    intro l hl
    simp only [List.mem_map] at hl
    obtain ⟨c, hc, rfl⟩ := hl
    exact membersIfUnion_good (hcs c hc)
  | union ms =>
    simp only
    exact Res.bind (mapDnf_inv (ih.dnf stk) ms (by simpa using hg)) (fun cs hcs => ih.uOf _ _ hcs)
  | any => exact hg
  | empty => exact hg
  | leaf l => exact hg

theorem min_res {c : M} {cs : List M} (h : GL G (c :: cs)) :
    Res E (M.Good G) (match minByComplexity (c :: cs) with
      | some r => (Except.ok r : PyM M)
      | none => .error .runtime) := by
  cases hm : minByComplexity (c :: cs) with
  | none => simp [minByComplexity] at hm
  | some r => exact Res.ok (h r (minByComplexity_mem hm))

theorem unionF_istep {n : Nat} (ih : InvAt G E n) :
    ∀ stk ms, GL G ms → Res E (M.Good G) (unionF (n + 1) stk ms) := by
  intro stk ms hg
  rw [unionF.eq_def]
  simp only
  by_cases hs : Stack.has stk true ms = true
  · rw [if_pos hs]; exact Res.recursion
  · rw [if_neg hs]
    have hU : M.Good G (unwrapSingleton (ms.length + 2) (mkUnion (ms.filter (fun m => !m.isEmpty)))) :=
      unwrapSingleton_good _ _ (mkUnion_good (filter_good _ hg))
    generalize unwrapSingleton (ms.length + 2) (mkUnion (ms.filter (fun m => !m.isEmpty))) = U at hU ⊢
    have h1 := ih.cnf ((true, ms) :: stk) U hU
    cases hd : Marker.cnf n ((true, ms) :: stk) U with
    | error e => rw [hd] at h1; exact h1
    | ok d =>
      rw [hd] at h1
      have hd' : M.Good G d := h1
      dsimp only
      cases d with
      | multi us =>
        dsimp only
        have h2 := ih.dnf ((true, ms) :: stk) (.multi us) hd'
        cases hc : Marker.dnf n ((true, ms) :: stk) (.multi us) with
        | error e' =>
          rw [hc] at h2
          cases e' <;> first
            | exact min_res (by intro x hx; simp at hx; rcases hx with rfl | rfl <;> assumption)
            | exact h2
        | ok c =>
          rw [hc] at h2
          have hc' : M.Good G c := h2
          dsimp only
          cases c with
          | union vs =>
            exact min_res (by intro x hx; simp at hx; rcases hx with rfl | rfl | rfl <;> assumption)
          | any => exact Res.ok hc'
          | empty => exact Res.ok hc'
          | leaf l => exact Res.ok hc'
          | multi vs => exact Res.ok hc'
      | any => exact Res.ok hd'
      | empty => exact Res.ok hd'
      | leaf l => exact Res.ok hd'
      | union vs => exact Res.ok hd'

theorem intersectionF_istep {n : Nat} (ih : InvAt G E n) :
    ∀ stk ms, GL G ms → Res E (M.Good G) (intersectionF (n + 1) stk ms) := by
  intro stk ms hg
  rw [intersectionF.eq_def]
  simp only
  by_cases hs : Stack.has stk false ms = true
  · rw [if_pos hs]; exact Res.recursion
  · rw [if_neg hs]
    have hU : M.Good G (unwrapSingleton (ms.length + 2) (Marker.mkMulti (ms.filter (fun m => !m.isAny)))) :=
      unwrapSingleton_good _ _ (mkMulti_good (filter_good _ hg))
    generalize unwrapSingleton (ms.length + 2) (Marker.mkMulti (ms.filter (fun m => !m.isAny))) = U at hU ⊢
    have h1 := ih.dnf ((false, ms) :: stk) U hU
    cases hd : Marker.dnf n ((false, ms) :: stk) U with
    | error e => rw [hd] at h1; exact h1
    | ok d =>
      rw [hd] at h1
      have hd' : M.Good G d := h1
      dsimp only
      cases d with
      | union us =>
        dsimp only
        have h2 := ih.cnf ((false, ms) :: stk) (.union us) hd'
        cases hc : Marker.cnf n ((false, ms) :: stk) (.union us) with
        | error e' =>
          rw [hc] at h2
          cases e' <;> first
            | exact min_res (by intro x hx; simp at hx; rcases hx with rfl | rfl <;> assumption)
            | exact h2
        | ok c =>
          rw [hc] at h2
          have hc' : M.Good G c := h2
          dsimp only
          cases c with
          | multi vs =>
            exact min_res (by intro x hx; simp at hx; rcases hx with rfl | rfl | rfl <;> assumption)
          | any => exact Res.ok hc'
          | empty => exact Res.ok hc'
          | leaf l => exact Res.ok hc'
          | union vs => exact Res.ok hc'
      | any => exact Res.ok hd'
      | empty => exact Res.ok hd'
      | leaf l => exact Res.ok hd'
      | multi vs => exact Res.ok hd'

theorem multiOf_istep {n : Nat} (ih : InvAt G E n) :
    ∀ stk ms, GL G ms → Res E (M.Good G) (multiOf (n + 1) stk ms) := by
  intro stk ms hg
  rw [multiOf.eq_def]
  exact ih.mLoop _ _ _ (flattenMarkers_good true ms hg)

theorem unionOf_istep {n : Nat} (ih : InvAt G E n) :
    ∀ stk ms, GL G ms → Res E (M.Good G) (unionOf (n + 1) stk ms) := by
  intro stk ms hg
  rw [unionOf.eq_def]
  exact ih.uLoop _ _ _ (flattenMarkers_good false ms hg)

theorem multiOfLoop_istep {n : Nat} (ih : InvAt G E n) :
    ∀ stk old new, GL G new → Res E (M.Good G) (multiOfLoop (n + 1) stk old new) := by
  intro stk old new hg
  rw [multiOfLoop.eq_def]
  simp only
  refine Res.ite (fun _ => ?_) (fun _ => ?_)
  · refine Res.ite (fun _ => Res.ok good_empty') (fun _ => ?_)
    split
    · exact Res.ok good_any'
    · exact Res.ok (hg _ (by simp))
    · exact Res.ok (mkMulti_good hg)
  · refine Res.bind (ih.mPass stk new [] hg (by intro x hx; simp at hx)) (fun o ho => ?_)
    cases o with
    | none => exact Res.pure good_empty'
    | some l => exact ih.mLoop _ _ _ (ho l rfl)

theorem unionOfLoop_istep {n : Nat} (ih : InvAt G E n) :
    ∀ stk old new, GL G new → Res E (M.Good G) (unionOfLoop (n + 1) stk old new) := by
  intro stk old new hg
  rw [unionOfLoop.eq_def]
  simp only
  refine Res.ite (fun _ => ?_) (fun _ => ?_)
  · refine Res.ite (fun _ => Res.ok good_any') (fun _ => ?_)
    split
    · exact Res.ok good_empty'
    · exact Res.ok (hg _ (by simp))
    · exact Res.ok (mkUnion_good hg)
  · refine Res.bind (ih.uPass stk new [] hg (by intro x hx; simp at hx)) (fun o ho => ?_)
    cases o with
    | none => exact Res.pure good_any'
    | some l => exact ih.uLoop _ _ _ (ho l rfl)

theorem multiPass_istep {n : Nat} (ih : InvAt G E n) :
    ∀ stk todo new, GL G todo → GL G new → Res E (OptGL G) (multiPass (n + 1) stk todo new) := by
  intro stk todo new ht hn
  rw [multiPass.eq_def]
  simp only
  cases todo with
  | nil => exact Res.ok (by intro l hl; cases hl; exact hn)
  | cons marker rest =>
    have hm : M.Good G marker := ht marker (by simp)
    have hr : GL G rest := fun x hx => ht x (by simp [hx])
    dsimp only
    refine Res.ite (fun _ => ih.mPass _ _ _ hr hn) (fun _ => ?_)
    refine Res.ite (fun _ => ih.mPass _ _ _ hr hn) (fun _ => ?_)
    refine Res.bind (ih.mTry stk marker new 0 new hm hn hn) (fun r hr' => ?_)
    match r, hr' with
    | .inl (), _ => exact Res.pure (by intro l hl; cases hl)
    | .inr (some l), hr' => exact ih.mPass _ _ _ hr (flattenMarkers_good true l (hr' l rfl))
    | .inr none, _ => exact ih.mPass _ _ _ hr (append_good hn (single_good hm))

theorem unionPass_istep {n : Nat} (ih : InvAt G E n) :
    ∀ stk todo new, GL G todo → GL G new → Res E (OptGL G) (unionPass (n + 1) stk todo new) := by
  intro stk todo new ht hn
  rw [unionPass.eq_def]
  simp only
  cases todo with
  | nil => exact Res.ok (by intro l hl; cases hl; exact hn)
  | cons marker rest =>
    have hm : M.Good G marker := ht marker (by simp)
    have hr : GL G rest := fun x hx => ht x (by simp [hx])
    dsimp only
    refine Res.ite (fun _ => ih.uPass _ _ _ hr hn) (fun _ => ?_)
    refine Res.ite (fun _ => ih.uPass _ _ _ hr hn) (fun _ => ?_)
    refine Res.bind (ih.uTry stk marker new 0 new hm hn hn) (fun r hr' => ?_)
    match r, hr' with
    | .inl (), _ => exact Res.pure (by intro l hl; cases hl)
    | .inr (some l), hr' => exact ih.uPass _ _ _ hr (flattenMarkers_good false l (hr' l rfl))
    | .inr none, _ => exact ih.uPass _ _ _ hr (append_good hn (single_good hm))

theorem multiTry_istep {n : Nat} (ih : InvAt G E n) :
    ∀ stk marker all i remaining, M.Good G marker → GL G all → GL G remaining →
    Res E (TryGL G) (multiTry (n + 1) stk marker all i remaining) := by
  intro stk marker all i remaining hm hall hrem
  rw [multiTry.eq_def]
  simp only
  cases remaining with
  | nil => exact Res.ok (by intro l hl; cases hl)
  | cons mark more =>
    have hmark : M.Good G mark := hrem mark (by simp)
    have hmore : GL G more := fun x hx => hrem x (by simp [hx])
    dsimp only
    have tail : ∀ (sm : Option M), OptGood G sm → ∀ (k : Option M → PyM (Unit ⊕ Option (List M))),
        (∀ x, k (some x) = Pure.pure (Sum.inr (some (setAt all i x)))) →
        (Res E (TryGL G) (k none)) → Res E (TryGL G) (k sm) := by
      intro sm hsm k hk hn
      cases sm with
      | some x => rw [hk]; exact Res.pure (by intro l hl; cases hl; exact setAt_good hall (hsm x rfl))
      | none => exact hn
    have rest : Res E (TryGL G) (multiTry n stk marker all (i + 1) more) :=
      ih.mTry _ _ _ _ _ hm hall hmore
    split
    · rename_i us
      refine Res.bind (ih.iSimp stk us marker (by simpa using hmark) hm) (fun r hr => ?_)
      refine Res.pure_bind ?_
      dsimp only
      refine tail r hr (fun sm => match sm with
        | some x => Pure.pure (Sum.inr (some (setAt all i x)))
        | none => multiTry n stk marker all (i + 1) more) (fun x => rfl) rest
    · rename_i us _
      refine Res.bind (ih.iSimp stk us mark (by simpa using hm) hmark) (fun r hr => ?_)
      refine Res.pure_bind ?_
      dsimp only
      refine tail r hr (fun sm => match sm with
        | some x => Pure.pure (Sum.inr (some (setAt all i x)))
        | none => multiTry n stk (M.union us) all (i + 1) more) (fun x => rfl) rest
    · refine Res.pure_bind ?_
      dsimp only
      split
      · refine Res.bind (ih.inter stk _ marker hmark hm) (fun nm hnm => ?_)
        refine Res.ite (fun _ => Res.pure (by intro l hl; cases hl)) (fun _ => ?_)
        split
        · exact Res.pure (by intro l hl; cases hl; exact setAt_good hall hnm)
        · exact rest
      · exact rest

theorem unionTry_istep {n : Nat} (ih : InvAt G E n) :
    ∀ stk marker all i remaining, M.Good G marker → GL G all → GL G remaining →
    Res E (TryGL G) (unionTry (n + 1) stk marker all i remaining) := by
  intro stk marker all i remaining hm hall hrem
  rw [unionTry.eq_def]
  simp only
  cases remaining with
  | nil => exact Res.ok (by intro l hl; cases hl)
  | cons mark more =>
    have hmark : M.Good G mark := hrem mark (by simp)
    have hmore : GL G more := fun x hx => hrem x (by simp [hx])
    dsimp only
    have tail : ∀ (sm : Option M), OptGood G sm → ∀ (k : Option M → PyM (Unit ⊕ Option (List M))),
        (∀ x, k (some x) = Pure.pure (Sum.inr (some (setAt all i x)))) →
        (Res E (TryGL G) (k none)) → Res E (TryGL G) (k sm) := by
      intro sm hsm k hk hn
      cases sm with
      | some x => rw [hk]; exact Res.pure (by intro l hl; cases hl; exact setAt_good hall (hsm x rfl))
      | none => exact hn
    have rest : Res E (TryGL G) (unionTry n stk marker all (i + 1) more) :=
      ih.uTry _ _ _ _ _ hm hall hmore
    split
    · rename_i us
      refine Res.bind (ih.uSimp stk us marker (by simpa using hmark) hm) (fun r hr => ?_)
      refine Res.pure_bind ?_
      dsimp only
      refine tail r hr (fun sm => match sm with
        | some x => Pure.pure (Sum.inr (some (setAt all i x)))
        | none => unionTry n stk marker all (i + 1) more) (fun x => rfl) rest
    · rename_i us _
      refine Res.bind (ih.uSimp stk us mark (by simpa using hm) hmark) (fun r hr => ?_)
      refine Res.pure_bind ?_
      dsimp only
      refine tail r hr (fun sm => match sm with
        | some x => Pure.pure (Sum.inr (some (setAt all i x)))
        | none => unionTry n stk (M.multi us) all (i + 1) more) (fun x => rfl) rest
    · refine Res.pure_bind ?_
      dsimp only
      split
      · refine Res.bind (ih.uni stk _ marker hmark hm) (fun nm hnm => ?_)
        refine Res.ite (fun _ => Res.pure (by intro l hl; cases hl)) (fun _ => ?_)
        split
        · exact Res.pure (by intro l hl; cases hl; exact setAt_good hall hnm)
        · exact rest
      · exact rest

theorem intersectSimplify_istep {n : Nat} (ih : InvAt G E n) :
    ∀ stk ours other, GL G ours → M.Good G other →
    Res E (OptGood G) (intersectSimplify (n + 1) stk ours other) := by
  intro stk ours other ho hother
  rw [intersectSimplify.eq_def]
  simp only
  refine Res.ite (fun _ => Res.ok (by intro r hr; cases hr; exact hother)) (fun _ => ?_)
  cases other with
  | union theirs =>
    have ht : GL G theirs := by simpa using hother
    dsimp only
    refine Res.ite (fun _ => Res.ok (by intro r hr; cases hr; exact union_good ho)) (fun _ => ?_)
    refine Res.ite (fun _ => Res.ok (by intro r hr; cases hr; exact hother)) (fun _ => ?_)
    refine Res.ite (fun _ => Res.ok (by intro r hr; cases hr)) (fun _ => ?_)
    refine Res.bind (ih.inter stk _ _ (mkUnion_good (filter_good _ ho)) (mkUnion_good (filter_good _ ht)))
      (fun ui hui => ?_)
    split
    · exact Res.bind (ih.uni stk _ _ hui (mkUnion_good (filter_good _ ho)))
        (fun r hr => Res.pure (by intro r' hr'; cases hr'; exact hr))
    · exact Res.bind (ih.uni stk _ _ hui (mkUnion_good (filter_good _ ho)))
        (fun r hr => Res.pure (by intro r' hr'; cases hr'; exact hr))
    · exact Res.pure (by intro r hr; cases hr)
  | any => exact Res.ok (by intro r hr; cases hr)
  | empty => exact Res.ok (by intro r hr; cases hr)
  | leaf l => exact Res.ok (by intro r hr; cases hr)
  | multi ms => exact Res.ok (by intro r hr; cases hr)

theorem unionSimplify_istep {n : Nat} (ih : InvAt G E n) :
    ∀ stk ours other, GL G ours → M.Good G other →
    Res E (OptGood G) (unionSimplify (n + 1) stk ours other) := by
  intro stk ours other ho hother
  rw [unionSimplify.eq_def]
  simp only
  refine Res.ite (fun _ => Res.ok (by intro r hr; cases hr; exact hother)) (fun _ => ?_)
  cases other with
  | multi theirs =>
    have ht : GL G theirs := by simpa using hother
    dsimp only
    refine Res.ite (fun _ => Res.ok (by intro r hr; cases hr; exact multi_good ho)) (fun _ => ?_)
    refine Res.ite (fun _ => Res.ok (by intro r hr; cases hr; exact hother)) (fun _ => ?_)
    refine Res.ite (fun _ => Res.ok (by intro r hr; cases hr)) (fun _ => ?_)
    refine Res.bind (ih.uni stk _ _ (mkMulti_good (filter_good _ ho)) (mkMulti_good (filter_good _ ht)))
      (fun uu huu => ?_)
    split
    · exact Res.bind (ih.inter stk _ _ huu (mkMulti_good (filter_good _ ho)))
        (fun r hr => Res.pure (by intro r' hr'; cases hr'; exact hr))
    · exact Res.bind (ih.inter stk _ _ huu (mkMulti_good (filter_good _ ho)))
        (fun r hr => Res.pure (by intro r' hr'; cases hr'; exact hr))
    · exact Res.pure (by intro r hr; cases hr)
  | any => exact Res.ok (by intro r hr; cases hr)
  | empty => exact Res.ok (by intro r hr; cases hr)
  | leaf l => exact Res.ok (by intro r hr; cases hr)
  | union ms => exact Res.ok (by intro r hr; cases hr)

theorem invAt_zero : InvAt G E 0 where
  inter := by intro stk a b _ _; rw [mIntersect.eq_def]; exact Res.fuel
  uni := by intro stk a b _ _; rw [mUnion.eq_def]; exact Res.fuel
  interF := by intro stk ms _; rw [intersectionF.eq_def]; exact Res.fuel
  uniF := by intro stk ms _; rw [unionF.eq_def]; exact Res.fuel
  cnf := by intro stk m _; rw [cnf.eq_def]; exact Res.fuel
  dnf := by intro stk m _; rw [dnf.eq_def]; exact Res.fuel
  mOf := by intro stk ms _; rw [multiOf.eq_def]; exact Res.fuel
  mLoop := by intro stk old new _; rw [multiOfLoop.eq_def]; exact Res.fuel
  mPass := by intro stk todo new _ _; rw [multiPass.eq_def]; exact Res.fuel
  mTry := by intro stk marker all i remaining _ _ _; rw [multiTry.eq_def]; exact Res.fuel
  uOf := by intro stk ms _; rw [unionOf.eq_def]; exact Res.fuel
  uLoop := by intro stk old new _; rw [unionOfLoop.eq_def]; exact Res.fuel
  uPass := by intro stk todo new _ _; rw [unionPass.eq_def]; exact Res.fuel
  uTry := by intro stk marker all i remaining _ _ _; rw [unionTry.eq_def]; exact Res.fuel
  iSimp := by intro stk ours other _ _; rw [intersectSimplify.eq_def]; exact Res.fuel
  uSimp := by intro stk ours other _ _; rw [unionSimplify.eq_def]; exact Res.fuel

/-- **The leaf invariant is preserved by the whole mutual block, and on invariant operands every error is
fuel, `RecursionError`, or an error of the leaf merge on invariant leaves** — for every fuel, recursion stack
and argument. -/
theorem invAt (hM : MergeRes G E) : ∀ n, InvAt G E n
  | 0 => invAt_zero
  | n + 1 =>
    have ih := invAt hM n
    { inter := mIntersect_istep hM ih
      uni := mUnion_istep hM ih
      interF := intersectionF_istep ih
      uniF := unionF_istep ih
      cnf := cnf_istep ih
      dnf := dnf_istep ih
      mOf := multiOf_istep ih
      mLoop := multiOfLoop_istep ih
      mPass := multiPass_istep ih
      mTry := multiTry_istep ih
      uOf := unionOf_istep ih
      uLoop := unionOfLoop_istep ih
      uPass := unionPass_istep ih
      uTry := unionTry_istep ih
      iSimp := intersectSimplify_istep ih
      uSimp := unionSimplify_istep ih }

/-! ## the concrete leaf invariant -/

/-- **the leaf invariant**: a marker named `python_version` / `python_full_version` is a `SingleMarker`
holding a version constraint; every version constraint held by a leaf lies in `P` -/
def LeafOK (P : VC → Prop) (l : Leaf) : Prop :=
  (isPyName l.name = true → ∃ s c, l = .single s ∧ s.c = .ver c) ∧ (∀ c, l.c = .ver c → P c)

/-- the version constraint inside a leaf constraint lies in `P` -/
@[reducible] def LCOK (P : VC → Prop) (c : LeafC) : Prop := ∀ vc, c = .ver vc → P vc

/-- error classes of leaf construction and re-parsing -/
def MErr (e : PyErr) : Prop := e = .syntax ∨ e = .value ∨ e = .unmodelled

/-- the same class with lark's error switched on or off (`sb = false`: `ValueError` / `.unmodelled` only) -/
def MErrS (sb : Bool) (e : PyErr) : Prop := (sb = true ∧ e = .syntax) ∨ e = .value ∨ e = .unmodelled

theorem MErrS.toMErr {sb : Bool} {e : PyErr} (h : MErrS sb e) : MErr e := by
  rcases h with ⟨_, h⟩ | h | h
  · exact .inl h
  · exact .inr (.inl h)
  · exact .inr (.inr h)

theorem Res.weaken {E E' : PyErr → Prop} {α : Type} {Q : α → Prop} {x : PyM α} (hE : ∀ e, E e → E' e)
    (h : Res E Q x) : Res E' Q x := by
  cases x with
  | ok a => exact h
  | error e =>
    rcases h with h | h | h
    · exact .inl h
    · exact .inr (.inl h)
    · exact .inr (.inr (hE e h))

variable {P : VC → Prop} {sb : Bool}

theorem lcok_ver {u : VC} (h : P u) : LCOK P (.ver u) := by intro vc hvc; cases hvc; exact h
theorem lcok_gen (g : Generic.GC) : LCOK P (.gen g) := by intro vc hvc; cases hvc

theorem alias_values_not_py : ∀ p ∈ Gen.markerAliases, isPyName p.2 = false := by decide

theorem alias_py {n : String} (h : isPyName (aliasName n) = true) : isPyName n = true := by
  unfold aliasName at h
  split at h
  · rename_i k v hf
    have := alias_values_not_py _ (List.mem_of_find?_eq_some hf)
    simp only at this
    rw [this] at h; cases h
  · exact h

theorem py_versionLike : ∀ n ∈ Gen.pythonVersionMarkers, Gen.versionLikeMarkerNames.contains n = true := by decide

theorem leafPrepare_py (name cstr : String) (sw : Bool) (p : LeafPrep)
    (h : leafPrepare name cstr sw = .ok p) (hn : isPyName p.name = true) : ∃ b, p.kind = .version b := by
  have hpy : Gen.pythonVersionMarkers.contains name = true := by
    have : p.name = aliasName name := by
      unfold leafPrepare at h
      simp only at h
      repeat' split at h
      all_goals first
        | (cases h; done)
        | (cases h; rfl)
    rw [this] at hn
    exact alias_py hn
  have hvl : Gen.versionLikeMarkerNames.contains name = true :=
    py_versionLike name (by simpa using hpy)
  unfold leafPrepare at h
  simp only [hpy, hvl, Bool.not_true, Bool.and_false, Bool.false_eq_true, if_false, if_true] at h
  repeat' split at h
  all_goals first
    | (cases h; done)
    | (cases h; exact ⟨_, rfl⟩)

theorem parseVersionKind_ok (hP : VCOpsMin P) (b : Bool) (s : String) (vc : VC)
    (h : parseVersionKind b s = .ok vc) : P vc := by
  unfold parseVersionKind at h
  split at h
  · split at h <;> cases h
  · exact hP.parsed s true vc h

theorem parseByKind_ok (hP : VCOpsMin P) (k : LeafKind) (s : String) (c : LeafC)
    (h : parseByKind k s = .ok c) : LCOK P c ∧ ((∃ b, k = .version b) → ∃ vc, c = .ver vc) := by
  unfold parseByKind at h
  cases k with
  | version b =>
    simp only at h
    cases hv : parseVersionKind b s with
    | error e => simp [hv, Except.map] at h
    | ok vc =>
      simp only [hv, Except.map, Except.ok.injEq] at h
      subst h
      exact ⟨lcok_ver (parseVersionKind_ok hP b s vc hv), fun _ => ⟨vc, rfl⟩⟩
  | extra =>
    simp only at h
    cases hv : Generic.parseExtraConstraint s with
    | error e => simp [hv, Except.map] at h
    | ok g =>
      simp only [hv, Except.map, Except.ok.injEq] at h
      subst h
      exact ⟨lcok_gen g, fun ⟨b, hb⟩ => by cases hb⟩
  | generic =>
    simp only at h
    cases hv : Generic.parseConstraint s with
    | error e => simp [hv, Except.map] at h
    | ok g =>
      simp only [hv, Except.map, Except.ok.injEq] at h
      subst h
      exact ⟨lcok_gen g, fun ⟨b, hb⟩ => by cases hb⟩

theorem MErr.ofLeaf {sb : Bool} {e : PyErr} (h : LeafErr e) : BlockErr (MErrS sb) e := by
  rcases h with h | h
  · exact .inr (.inr (.inr (.inl h)))
  · exact .inr (.inr (.inr (.inr h)))

/-- `SingleMarker(name, constraint_string)`: fails with `ValueError`/`.unmodelled`, or returns a leaf
satisfying the invariant -/
theorem mkSingle_res (hvc : VCErrDocumented) (hP : VCOpsMin P) (name cstr : String) (sw : Bool) :
    Res (MErrS sb) (fun s => M.Good (LeafOK P) (.leaf (.single s))) (mkSingle name cstr sw) := by
  cases h : mkSingle name cstr sw with
  | error e => exact MErr.ofLeaf (mkSingle_leafErr hvc _ _ _ _ h)
  | ok s =>
    show M.Good (LeafOK P) (.leaf (.single s))
    simp only [M.good_leaf]
    unfold mkSingle at h
    obtain ⟨p, hp, h⟩ := bind_ok _ _ _ h
    obtain ⟨c, hc, h⟩ := bind_ok _ _ _ h
    simp only [pure, Except.pure, Except.ok.injEq] at h
    subst h
    obtain ⟨h1, h2⟩ := parseByKind_ok hP _ _ _ hc
    refine ⟨?_, ?_⟩
    · intro hn
      obtain ⟨vc, hvc'⟩ := h2 (leafPrepare_py _ _ _ p hp hn)
      exact ⟨_, vc, rfl, hvc'⟩
    · intro vc hvc'
      exact h1 vc hvc'

theorem mkSingleOfC_res (hvc : VCErrDocumented) (hP : VCOpsMin P) (name : String) (c : LeafC)
    (hc : LCOK P c) : Res (MErrS sb) (fun s => M.Good (LeafOK P) (.leaf (.single s))) (mkSingleOfC name c) := by
  unfold mkSingleOfC
  refine Res.bind (Q := fun _ => True) ?_ (fun t _ => mkSingle_res hvc hP _ _ _)
  cases c with
  | ver vc =>
    obtain ⟨t, ht⟩ := hP.toStr vc (hc vc rfl)
    simp only [LeafC.toStr, ht]
    exact Res.ok trivial
  | gen g => exact Res.ok trivial

theorem parseItemMarker_res (hvc : VCErrDocumented) (hP : VCOpsMin P) (text : String) :
    Res (MErrS true) (M.Good (LeafOK P)) (parseItemMarker text) := by
  unfold parseItemMarker
  split
  · rename_i e hp
    rw [parseText_err _ _ hp]
    exact .inr (.inr (.inl ⟨rfl, rfl⟩))
  · exact Res.bind (mkSingle_res hvc hP _ _ _) (fun s hs => Res.pure hs)
  · exact .inr (.inr (.inr (.inr rfl)))

theorem gpcLeaf_res (hvc : VCErrDocumented) (hP : VCOpsMin P) (l : Leaf) : Res (MErrS sb) P (gpcLeaf l) := by
  have key : ∀ (disj : List (List (String × String))),
      Res (MErrS sb) P (normalizePyMarkers disj >>= fun txt => VParser.parseMarkerVersionConstraint txt) := by
    intro disj
    refine Res.bind (Q := fun _ => True) ?_ (fun txt _ => ?_)
    · cases h : normalizePyMarkers disj with
      | error e => rw [normalizePyMarkers_err _ _ h]; exact .inr (.inr (.inr (.inl rfl)))
      | ok t => exact Res.ok trivial
    · cases h : VParser.parseMarkerVersionConstraint txt with
      | error e => rw [hvc _ _ h]; exact .inr (.inr (.inr (.inl rfl)))
      | ok c => exact Res.ok (hP.parsed _ true _ h)
  unfold gpcLeaf
  split
  · exact Res.ok hP.any
  · split <;> exact key _

theorem vc_intersect_res (hP : VCOpsMin P) {a b : VC} (ha : P a) (hb : P b) :
    Res (MErrS sb) P (a.intersect b) := by
  obtain ⟨r, hr, hpr⟩ := hP.inter a b ha hb
  rw [hr]; exact Res.ok hpr

theorem vc_union_res (hP : VCOpsMin P) {a b : VC} (ha : P a) (hb : P b) :
    Res (MErrS sb) P (a.unionWith b) := by
  obtain ⟨r, hr, hpr⟩ := hP.unionWith a b ha hb
  rw [hr]; exact Res.ok hpr

theorem vc_isSimple_res (hP : VCOpsMin P) {c : VC} (hc : P c) :
    Res (MErrS sb) (fun _ => True) c.isSimple := by
  obtain ⟨b, hb⟩ := hP.isSimple c hc
  rw [hb]; exact Res.ok trivial

theorem leafC_intersect_res (hP : VCOpsMin P) {c1 c2 : LeafC} (hk : SameKind c1 c2)
    (h1 : LCOK P c1) (h2 : LCOK P c2) : Res (MErrS sb) (LCOK P) (c1.intersect c2) := by
  rcases hk with ⟨a, b, rfl, rfl⟩ | ⟨a, b, rfl, rfl⟩
  · obtain ⟨r, hr, hpr⟩ := hP.inter a b (h1 a rfl) (h2 b rfl)
    simp only [LeafC.intersect, hr, Except.map]
    exact Res.ok (lcok_ver hpr)
  · simp only [LeafC.intersect]
    cases h : a.intersect b with
    | error e => rw [gc_intersect_err _ _ _ h]; exact .inr (.inr (.inr (.inl rfl)))
    | ok r => exact Res.ok (lcok_gen r)

theorem leafC_union_res (hP : VCOpsMin P) {c1 c2 : LeafC} (hk : SameKind c1 c2)
    (h1 : LCOK P c1) (h2 : LCOK P c2) : Res (MErrS sb) (LCOK P) (c1.union c2) := by
  rcases hk with ⟨a, b, rfl, rfl⟩ | ⟨a, b, rfl, rfl⟩
  · obtain ⟨r, hr, hpr⟩ := hP.unionWith a b (h1 a rfl) (h2 b rfl)
    simp only [LeafC.union, hr, Except.map]
    exact Res.ok (lcok_ver hpr)
  · simp only [LeafC.union]
    cases h : a.unionWith b with
    | error e => rw [gc_unionWith_err _ _ _ h]; exact .inr (.inr (.inr (.inl rfl)))
    | ok r => exact Res.ok (lcok_gen r)

/-! ## `_merge_single_markers` on invariant leaves -/

/-- the text `python_version == "<min.text>"` that the merge builds from the lower bound of a range in `P` is read
back by the grammar as that item (follows from "the texts of the bounds are clean", Proofs/ParserTotalLex.lean) -/
def SiteAOk (P : VC → Prop) : Prop :=
  ∀ (r : VRange) (mn : Version), P (.single (.rng r)) → r.min = some mn →
    parseText ("python_version == \"" ++ mn.text ++ "\"") = .ok (.one (.item "python_version" "==" mn.text false))

/-- when the merge of `m1`, `m2` cannot raise lark's error: the switch is on (`sb = true`: the error is admitted
in the class), or neither leaf is named `python_version` (no re-parsing step is reached), or neither is named
`python_full_version` and the candidate text is readable (only the first re-parsing step is reached) -/
def NoSyn (P : VC → Prop) (sb : Bool) (m1 m2 : Leaf) : Prop :=
  sb = true ∨ (m1.name ≠ "python_version" ∧ m2.name ≠ "python_version") ∨
    (SiteAOk P ∧ m1.name ≠ "python_full_version" ∧ m2.name ≠ "python_full_version")

theorem parseItem_clean (hvc : VCErrDocumented) (hP : VCOpsMin P) (hA : SiteAOk P) {r : VRange} {mn : Version}
    (hr : P (.single (.rng r))) (hmn : r.min = some mn) :
    Res (MErrS sb) (M.Good (LeafOK P)) (parseItemMarker ("python_version == \"" ++ mn.text ++ "\"")) := by
  unfold parseItemMarker
  rw [hA r mn hr hmn]
  exact Res.bind (mkSingle_res hvc hP _ _ _) (fun s hs => Res.pure hs)

theorem atomic_leafOK {l : Leaf} {a : Generic.GC} (hl : LeafOK P l) (hc : l.c = .gen a) :
    (∀ g, LeafOK P (.aunion l.name g)) ∧ (∀ g, LeafOK P (.amulti l.name g)) := by
  have hn : isPyName l.name = false := by
    cases hp : isPyName l.name with
    | false => rfl
    | true =>
      obtain ⟨s, c, rfl, hs⟩ := hl.1 hp
      simp only [Leaf.c] at hc
      rw [hs] at hc; cases hc
  constructor <;> intro g <;> refine ⟨?_, ?_⟩
  · intro h; have h' : isPyName l.name = true := h; rw [hn] at h'; cases h'
  · intro c h; simp [Leaf.c] at h
  · intro h; have h' : isPyName l.name = true := h; rw [hn] at h'; cases h'
  · intro c h; simp [Leaf.c] at h

theorem Res.ok_bind {α β : Type} {R : β → Prop} {a : α} {f : α → PyM β} (h : Res E R (f a)) :
    Res E R ((Except.ok a : PyM α) >>= f) := h

theorem Res.pure_bind_opt {β : Type} {R : β → Prop} {o : Option M} {f : Option M → PyM β}
    (ho : OptGood G o) (h : ∀ o', OptGood G o' → Res E R (f o')) : Res E R (Pure.pure o >>= f) := h o ho

set_option hygiene false in
/-- `OptGood` goals of the merge -/
local macro "og" : tactic => `(tactic| (
  unfold OptGood
  intro r hr
  first
    | (cases hr; done)
    | (cases hr; first
        | exact good_empty' | exact good_any' | assumption
        | exact (‹OptGood (LeafOK P) (some _)›) _ rfl
        | (simp only [M.good_leaf]; first | assumption | exact hau _ | exact ham _))
    | (split at hr <;> first
        | (cases hr; done)
        | (cases hr; first | exact good_empty' | exact good_any' | assumption))))

set_option hygiene false in
local macro "pra" : tactic => `(tactic| first | assumption | exact (‹LCOK P (LeafC.ver _)›) _ rfl)

local macro "lcp" : tactic => `(tactic| first | assumption | exact lcok_ver (by assumption))

set_option hygiene false in
local macro "hstep" : tactic => `(tactic| first
  | ((with_reducible refine Res.pure ?_); og)
  | with_reducible refine Res.pure_bind_opt (G := LeafOK P) (by og) (fun _ _ => ?_)
  | with_reducible refine Res.pure_bind ?_
  | (rcases hsb with hsb | hsb | hsb <;> first
      | (subst hsb; with_reducible refine Res.bind (parseItemMarker_res hvc hP _) (fun _ _ => ?_))
      | (exfalso
         have hpv : m1.name = "python_version" := by simpa using ‹¬(m1.name != "python_version") = true›
         exact hsb.1 hpv)
      | (with_reducible refine Res.bind (parseItem_clean hvc hP hsb.1 (by pra) (by assumption)) (fun _ _ => ?_)))
  | with_reducible refine Res.bind (gpcLeaf_res hvc hP _) (fun _ _ => ?_)
  | with_reducible refine Res.bind (mkSingleOfC_res hvc hP _ _ (by lcp)) (fun _ _ => ?_)
  | with_reducible refine Res.bind (vc_intersect_res hP (by assumption) (by assumption)) (fun _ _ => ?_)
  | with_reducible refine Res.bind (vc_union_res hP (by assumption) (by assumption)) (fun _ _ => ?_)
  | with_reducible refine Res.bind (vc_isSimple_res hP (by assumption)) (fun _ _ => ?_)
  | with_reducible refine Res.ite (fun _ => ?_) (fun _ => ?_)
  | with_reducible exact Res.ok trivial
  | exact vc_isSimple_res hP ((‹LCOK P (LeafC.ver _)›) _ rfl)
  | with_reducible refine Res.ok_bind ?_
  | with_reducible refine Res.bind (Q := fun _ => True) ?_ (fun _ _ => ?_)
  | split)

theorem mergeSingle_rest_vv (hvc : VCErrDocumented) (hP : VCOpsMin P) (m1 m2 : Leaf) (isMulti : Bool)
    (h1 : LeafOK P m1) (h2 : LeafOK P m2) (depth : Nat)
    (hp : ¬ ((m1.name == "python_version" && m2.name == "python_full_version") ||
      (m1.name == "python_full_version" && m2.name == "python_version")) = true)
    (hsb : NoSyn P sb m1 m2)
    (a b : VC) (hc1 : m1.c = .ver a) (hc2 : m2.c = .ver b) :
    Res (MErrS sb) (OptGood (LeafOK P)) (mergeSingle depth m1 m2 isMulti) := by
  have hg1 : M.Good (LeafOK P) (.leaf m1) := by simpa using h1
  have hg2 : M.Good (LeafOK P) (.leaf m2) := by simpa using h2
  have ha : P a := h1.2 a hc1
  have hb : P b := h2.2 b hc2
  have hau : ∀ g, LeafOK P (.aunion m1.name g) → LeafOK P (.aunion m1.name g) := fun g h => h
  have ham : ∀ g, LeafOK P (.amulti m1.name g) → LeafOK P (.amulti m1.name g) := fun g h => h
  rw [mergeSingle.eq_def]
  simp only
  rw [if_neg hp]
  refine Res.ite (fun _ => Res.ok (by intro r hr; cases hr)) (fun _ => ?_)
  rw [hc1, hc2]
  dsimp only
  refine Res.ite (fun _ => ?_) (fun _ => ?_)
  · obtain ⟨r, hr, hpr⟩ := hP.inter a b ha hb
    have hI : (LeafC.ver a).intersect (.ver b) = .ok (.ver r) := by simp [LeafC.intersect, hr, Except.map]
    rw [hI]
    refine Res.pure_bind ?_
    dsimp only
    repeat' hstep
  · obtain ⟨r, hr, hpr⟩ := hP.unionWith a b ha hb
    have hI : (LeafC.ver a).union (.ver b) = .ok (.ver r) := by simp [LeafC.union, hr, Except.map]
    rw [hI]
    refine Res.pure_bind ?_
    dsimp only
    repeat' hstep

theorem mergeSingle_rest_gg (hvc : VCErrDocumented) (hP : VCOpsMin P) (m1 m2 : Leaf) (isMulti : Bool)
    (h1 : LeafOK P m1) (h2 : LeafOK P m2) (depth : Nat)
    (hp : ¬ ((m1.name == "python_version" && m2.name == "python_full_version") ||
      (m1.name == "python_full_version" && m2.name == "python_version")) = true)
    (hsb : NoSyn P sb m1 m2)
    (a b : Generic.GC) (hc1 : m1.c = .gen a) (hc2 : m2.c = .gen b) :
    Res (MErrS sb) (OptGood (LeafOK P)) (mergeSingle depth m1 m2 isMulti) := by
  have hg1 : M.Good (LeafOK P) (.leaf m1) := by simpa using h1
  have hg2 : M.Good (LeafOK P) (.leaf m2) := by simpa using h2
  have hk : SameKind (LeafC.gen a) (LeafC.gen b) := .inr ⟨_, _, rfl, rfl⟩
  obtain ⟨hau, ham⟩ := atomic_leafOK h1 hc1
  rw [mergeSingle.eq_def]
  simp only
  rw [if_neg hp]
  refine Res.ite (fun _ => Res.ok (by intro r hr; cases hr)) (fun _ => ?_)
  rw [hc1, hc2]
  dsimp only
  refine Res.ite (fun _ => Res.bind (leafC_intersect_res hP hk (lcok_gen a) (lcok_gen b)) (fun rc hrc => ?_))
    (fun _ => Res.bind (leafC_union_res hP hk (lcok_gen a) (lcok_gen b)) (fun rc hrc => ?_))
  · repeat' hstep
  · repeat' hstep

theorem mergeSingle_rest_res (hvc : VCErrDocumented) (hP : VCOpsMin P) (m1 m2 : Leaf) (isMulti : Bool)
    (h1 : LeafOK P m1) (h2 : LeafOK P m2) (depth : Nat)
    (hp : ¬ ((m1.name == "python_version" && m2.name == "python_full_version") ||
      (m1.name == "python_full_version" && m2.name == "python_version")) = true)
    (hsb : NoSyn P sb m1 m2) :
    Res (MErrS sb) (OptGood (LeafOK P)) (mergeSingle depth m1 m2 isMulti) := by
  cases hc1 : m1.c with
  | ver a =>
    cases hc2 : m2.c with
    | ver b => exact mergeSingle_rest_vv hvc hP m1 m2 isMulti h1 h2 depth hp hsb a b hc1 hc2
    | gen b =>
      rw [mergeSingle.eq_def]
      simp only
      rw [if_neg hp]
      refine Res.ite (fun _ => Res.ok (by intro r hr; cases hr)) (fun _ => ?_)
      rw [hc1, hc2]
      exact Res.ok (by intro r hr; cases hr)
  | gen a =>
    cases hc2 : m2.c with
    | gen b => exact mergeSingle_rest_gg hvc hP m1 m2 isMulti h1 h2 depth hp hsb a b hc1 hc2
    | ver b =>
      rw [mergeSingle.eq_def]
      simp only
      rw [if_neg hp]
      refine Res.ite (fun _ => Res.ok (by intro r hr; cases hr)) (fun _ => ?_)
      rw [hc1, hc2]
      exact Res.ok (by intro r hr; cases hr)

theorem mergePythonVersion_res (hvc : VCErrDocumented) (hP : VCOpsMin P) {d : Nat}
    (ihd : ∀ l1 l2 b, LeafOK P l1 → LeafOK P l2 → Res (MErrS true) (OptGood (LeafOK P)) (mergeSingle d l1 l2 b)) :
    ∀ s1 s2 b, LeafOK P (.single s1) → LeafOK P (.single s2) →
      Res (MErrS true) (OptGood (LeafOK P)) (mergePythonVersion d s1 s2 b) := by
  intro s1 s2 b h1 h2
  have tail : ∀ (vm fm : Single), LeafOK P (.single vm) → LeafOK P (.single fm) → ∀ (nm : Single),
      M.Good (LeafOK P) (.leaf (.single nm)) → ∀ merged, OptGood (LeafOK P) merged →
      Res (MErrS true) (OptGood (LeafOK P)) (match merged with
        | none => (Pure.pure none : PyM (Option M))
        | some mm =>
          if M.beq mm (.leaf (.single nm)) then Pure.pure (some (.leaf (.single vm)))
          else
            match mm with
            | .leaf (.single ms) =>
              if ms.op == "in" || ms.op == "not in" then Pure.pure (some mm) else do
              let str := leafText ms.name ms.op ms.value ms.swapped
              let precision := countChar '.' str + 1
              let lt_ge := ms.op == "<" || ms.op == ">="
              let str' :=
                if precision < 3 then
                  let target := if lt_ge then 2 else 3
                  let s1 := if lt_ge then strReplace str "python_full_version" "python_version" else str
                  dropRight s1 1 ++ String.join (List.replicate (target - precision) ".0") ++ "\""
                else if precision == 3 && lt_ge && (dropRight str 1).endsWith ".0" then
                  let s1 := strReplace str "python_full_version" "python_version"
                  dropRight s1 3 ++ "\""
                else str
              let r ← parseItemMarker str'
              Pure.pure (some r)
            | other => Pure.pure (some other)) := by
    intro vm fm hvm hfm nm hnm merged hmerged
    cases merged with
    | none => exact Res.pure (by intro r hr; cases hr)
    | some mm =>
      have hmm : M.Good (LeafOK P) mm := hmerged mm rfl
      dsimp only
      refine Res.ite (fun _ => Res.pure (by intro r hr; cases hr; simpa using hvm)) (fun _ => ?_)
      split
      · refine Res.ite (fun _ => Res.pure (by intro r hr; cases hr; exact hmm)) (fun _ => ?_)
        exact Res.bind (parseItemMarker_res hvc hP _) (fun r hr => Res.pure (by intro r' hr'; cases hr'; exact hr))
      · exact Res.pure (by intro r hr; cases hr; exact hmm)
  rw [mergePythonVersion.eq_def]
  simp only
  split
  · dsimp only
    refine Res.bind (gpcLeaf_res hvc hP _) (fun nc hnc => ?_)
    refine Res.bind (mkSingleOfC_res hvc hP _ _ (lcok_ver hnc)) (fun nm hnm => ?_)
    refine Res.bind (ihd _ _ _ (by simpa using hnm) h2) (fun merged hmerged => ?_)
    exact tail s1 s2 h1 h2 nm hnm merged hmerged
  · dsimp only
    refine Res.bind (gpcLeaf_res hvc hP _) (fun nc hnc => ?_)
    refine Res.bind (mkSingleOfC_res hvc hP _ _ (lcok_ver hnc)) (fun nm hnm => ?_)
    refine Res.bind (ihd _ _ _ (by simpa using hnm) h1) (fun merged hmerged => ?_)
    exact tail s2 s1 h2 h1 nm hnm merged hmerged

theorem mergeSingle_res (hvc : VCErrDocumented) (hP : VCOpsMin P) {depth : Nat}
    (hPV : ∀ d, depth = d + 1 → ∀ s1 s2 b, LeafOK P (.single s1) → LeafOK P (.single s2) →
      Res (MErrS true) (OptGood (LeafOK P)) (mergePythonVersion d s1 s2 b)) :
    ∀ m1 m2 b, LeafOK P m1 → LeafOK P m2 → NoSyn P sb m1 m2 →
      Res (MErrS sb) (OptGood (LeafOK P)) (mergeSingle depth m1 m2 b) := by
  intro m1 m2 isMulti h1 h2 hsb
  by_cases hp : ((m1.name == "python_version" && m2.name == "python_full_version") ||
      (m1.name == "python_full_version" && m2.name == "python_version")) = true
  · have hn1 : isPyName m1.name = true := by
      simp only [Bool.or_eq_true, Bool.and_eq_true, beq_iff_eq] at hp
      rcases hp with ⟨h, _⟩ | ⟨h, _⟩ <;> rw [h] <;> decide
    have hn2 : isPyName m2.name = true := by
      simp only [Bool.or_eq_true, Bool.and_eq_true, beq_iff_eq] at hp
      rcases hp with ⟨_, h⟩ | ⟨_, h⟩ <;> rw [h] <;> decide
    rcases hsb with hsb | hsb | hsb
    · subst hsb
      obtain ⟨s1, _, rfl, _⟩ := h1.1 hn1
      obtain ⟨s2, _, rfl, _⟩ := h2.1 hn2
      rw [mergeSingle.eq_def]
      simp only
      rw [if_pos hp]
      cases depth with
      | zero => exact Res.fuel
      | succ d => exact hPV d rfl s1 s2 isMulti h1 h2
    · exfalso
      simp only [Bool.or_eq_true, Bool.and_eq_true, beq_iff_eq] at hp
      rcases hp with ⟨h, _⟩ | ⟨_, h⟩
      · exact hsb.1 h
      · exact hsb.2 h
    · exfalso
      simp only [Bool.or_eq_true, Bool.and_eq_true, beq_iff_eq] at hp
      rcases hp with ⟨_, h⟩ | ⟨h, _⟩
      · exact hsb.2.2 h
      · exact hsb.2.1 h
  · exact mergeSingle_rest_res hvc hP m1 m2 isMulti h1 h2 depth hp hsb

/-- the merge with lark's error switched on (`sb = true`: all leaves) or off (`sb = false`: the first leaf is
not named `python_version` / `python_full_version`, so neither re-parsing step is reached) -/
theorem mergeLeaves_resS (hvc : VCErrDocumented) (hP : VCOpsMin P) (l1 l2 : Leaf) (b : Bool)
    (h1 : LeafOK P l1) (h2 : LeafOK P l2) (hsb : NoSyn P sb l1 l2) :
    Res (MErrS sb) (OptGood (LeafOK P)) (mergeLeaves l1 l2 b) := by
  unfold mergeLeaves
  have r0 : ∀ m1 m2 b, LeafOK P m1 → LeafOK P m2 →
      Res (MErrS true) (OptGood (LeafOK P)) (mergeSingle 0 m1 m2 b) :=
    fun m1 m2 b h1 h2 => mergeSingle_res hvc hP (fun d hd => by cases hd) m1 m2 b h1 h2 (.inl rfl)
  have r1 : ∀ m1 m2 b, LeafOK P m1 → LeafOK P m2 →
      Res (MErrS true) (OptGood (LeafOK P)) (mergeSingle 1 m1 m2 b) :=
    fun m1 m2 b h1 h2 => mergeSingle_res hvc hP
      (fun d hd => by cases hd; exact mergePythonVersion_res hvc hP r0) m1 m2 b h1 h2 (.inl rfl)
  exact mergeSingle_res hvc hP (fun d hd => by cases hd; exact mergePythonVersion_res hvc hP r1) l1 l2 b h1 h2 hsb

/-- **`_merge_single_markers` on leaves satisfying the invariant**: the result satisfies it again; an error is
fuel (model), lark's error on a re-parsed text, `ValueError` or `.unmodelled` — no `AssertionError`, and no
error of the version-constraint algebra. -/
theorem mergeLeaves_res (hvc : VCErrDocumented) (hP : VCOpsMin P) : MergeRes (LeafOK P) MErr :=
  fun l1 l2 b h1 h2 => Res.weaken (fun _ h => MErrS.toMErr h)
    (mergeLeaves_resS (sb := true) hvc hP l1 l2 b h1 h2 (.inl rfl))

/-! ## what `_compact_markers` builds satisfies the invariant -/

theorem groupMarker_good {ms : List M} (h : GL G ms) : M.Good G (groupMarker ms) := by
  unfold groupMarker
  split
  · exact h _ (by simp)
  · exact mkMulti_good h

mutual
theorem compactAtom_good (hvc : VCErrDocumented) (hP : VCOpsMin P) : ∀ (a : Marker.Atom) (m : M),
    compactAtom a = .ok m → M.Good (LeafOK P) m
  | .item n op v sw, m, h => by
    unfold compactAtom at h
    obtain ⟨s, hs, h⟩ := bind_ok _ _ _ h
    simp only [pure, Except.pure, Except.ok.injEq] at h
    subst h
    exact (mkSingle_res (sb := true) hvc hP n _ sw).of_ok hs
  | .paren syn, m, h => by
    unfold compactAtom at h
    obtain ⟨gs, hg, h⟩ := bind_ok _ _ _ h
    simp only [pure, Except.pure, Except.ok.injEq] at h
    subst h
    apply mkUnion_good
    intro x hx
    simp only [List.mem_map] at hx
    obtain ⟨g, hg', rfl⟩ := hx
    exact groupMarker_good (compactGroups_good hvc hP syn gs hg g hg')
theorem compactGroups_good (hvc : VCErrDocumented) (hP : VCOpsMin P) : ∀ (s : Syn) (gs : List (List M)),
    compactGroups s = .ok gs → ∀ g ∈ gs, GL (LeafOK P) g
  | .one a, gs, h => by
    unfold compactGroups at h
    obtain ⟨x, hx, h⟩ := bind_ok _ _ _ h
    simp only [pure, Except.pure, Except.ok.injEq] at h
    subst h
    intro g hg
    simp at hg; subst hg
    exact single_good (compactAtom_good hvc hP a x hx)
  | .more a isOr rest, gs, h => by
    unfold compactGroups at h
    obtain ⟨x, hx, h⟩ := bind_ok _ _ _ h
    obtain ⟨gs', hgs, h⟩ := bind_ok _ _ _ h
    have gx := compactAtom_good hvc hP a x hx
    have grest := compactGroups_good hvc hP rest gs' hgs
    split at h
    · simp only [pure, Except.pure, Except.ok.injEq] at h
      subst h
      intro g hg
      simp at hg
      rcases hg with rfl | hg
      · exact single_good gx
      · exact grest g hg
    · split at h
      · rename_i g0 gs''
        simp only [pure, Except.pure, Except.ok.injEq] at h
        subst h
        intro g hg
        simp at hg
        rcases hg with rfl | hg
        · intro y hy
          simp at hy
          rcases hy with rfl | hy
          · exact gx
          · exact grest g0 (by simp) y hy
        · exact grest g (by simp [hg])
      · simp only [pure, Except.pure, Except.ok.injEq] at h
        subst h
        intro g hg
        simp at hg; subst hg
        exact single_good gx
end

theorem compactSubMarkers_good (hvc : VCErrDocumented) (hP : VCOpsMin P) (syn : Syn) (subs : List M)
    (h : compactSubMarkers syn = .ok subs) : GL (LeafOK P) subs := by
  unfold compactSubMarkers at h
  obtain ⟨gs, hg, h⟩ := bind_ok _ _ _ h
  simp only [pure, Except.pure, Except.ok.injEq] at h
  subst h
  intro x hx
  simp only [List.mem_map] at hx
  obtain ⟨g, hg', rfl⟩ := hx
  exact groupMarker_good (compactGroups_good hvc hP syn gs hg g hg')

/-- the whole block on the concrete invariant -/
theorem simplifier_invAt (hvc : VCErrDocumented) (hP : VCOpsMin P) (n : Nat) : InvAt (LeafOK P) MErr n :=
  invAt (mergeLeaves_res hvc hP) n

/-! ## the entry points -/

/-- error classes left once the invariant is used: the model's fuel, `detect_recursion`'s `RecursionError`,
lark's error (input text, or a marker text re-parsed by the python-version merge), `ValueError`, and the model's
coverage limit -/
def FinalErr (e : PyErr) : Prop := e = .fuel ∨ e = .recursion ∨ e = .syntax ∨ e = .value ∨ e = .unmodelled

theorem FinalErr.ofBlock {e : PyErr} (h : BlockErr MErr e) : FinalErr e := by
  rcases h with h | h | h | h | h
  · exact .inl h
  · exact .inr (.inl h)
  · exact .inr (.inr (.inl h))
  · exact .inr (.inr (.inr (.inl h)))
  · exact .inr (.inr (.inr (.inr h)))

theorem unionF_final (hvc : VCErrDocumented) (hP : VCOpsMin P) (n : Nat) (stk : Stack) (ms : List M)
    (hg : GL (LeafOK P) ms) :
    (∀ e, unionF n stk ms = .error e → FinalErr e) ∧ (∀ r, unionF n stk ms = .ok r → M.Good (LeafOK P) r) :=
  ⟨fun e h => .ofBlock (((simplifier_invAt hvc hP n).uniF stk ms hg).of_err h),
   fun r h => ((simplifier_invAt hvc hP n).uniF stk ms hg).of_ok h⟩

theorem compactTop_final (hvc : VCErrDocumented) (hP : VCOpsMin P) (syn : Syn) :
    (∀ e, Req.compactTop syn = .error e → FinalErr e) ∧
    (∀ r, Req.compactTop syn = .ok r → M.Good (LeafOK P) r) := by
  unfold Req.compactTop
  cases hc : compactSubMarkers syn with
  | error e' =>
    refine ⟨fun e h => ?_, fun r h => by simp [bind, Except.bind] at h⟩
    simp only [bind, Except.bind] at h
    cases h
    rcases compactSubMarkers_err hvc syn _ hc with h | h
    · exact .inr (.inr (.inr (.inl h)))
    · exact .inr (.inr (.inr (.inr h)))
  | ok subs =>
    have hg := compactSubMarkers_good hvc hP syn subs hc
    simpa [bind, Except.bind] using unionF_final hvc hP defaultFuel [] subs hg

theorem parseMarker_final (hvc : VCErrDocumented) (hP : VCOpsMin P) (s : String) :
    (∀ e, parseMarker s = .error e → FinalErr e) ∧ (∀ r, parseMarker s = .ok r → M.Good (LeafOK P) r) := by
  refine ⟨fun e h => ?_, fun r h => ?_⟩
  · rcases parseMarker_cases s _ h with ⟨_, h⟩ | ⟨_, _, h⟩ | ⟨_, _, _, h⟩
    · cases h
    · cases h
    · rcases h with ⟨e', h1, h2⟩ | ⟨syn, e', h1, h2, h3⟩ | ⟨syn, subs, h1, h2, h3⟩
      · cases h2; exact .inr (.inr (.inl (parseText_err s _ h1)))
      · cases h3
        rcases compactSubMarkers_err hvc syn _ h2 with h | h
        · exact .inr (.inr (.inr (.inl h)))
        · exact .inr (.inr (.inr (.inr h)))
      · exact (unionF_final hvc hP _ _ _ (compactSubMarkers_good hvc hP syn subs h2)).1 e h3.symm
  · rcases parseMarker_cases s _ h with ⟨_, h⟩ | ⟨_, _, h⟩ | ⟨_, _, _, h⟩
    · cases h; simp
    · cases h; simp
    · rcases h with ⟨e', h1, h2⟩ | ⟨syn, e', h1, h2, h3⟩ | ⟨syn, subs, h1, h2, h3⟩
      · cases h2
      · cases h3
      · exact (unionF_final hvc hP _ _ _ (compactSubMarkers_good hvc hP syn subs h2)).2 r h3.symm

end Poetry.ParserTotal
