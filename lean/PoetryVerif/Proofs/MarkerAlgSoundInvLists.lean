/-
Instances of the agreement-based inversion theorem: `in` / `not in` lists on `python_version` (two-component
entries) and `python_full_version` (entries of three or more components) — C06's `agree_pv_in`,
`agree_pv_notin`, `agree_pfv_in`, `agree_pfv_notin` put both the item and its flipped item into the
agreement domain.
-/
import PoetryVerif.Proofs.MarkerAlgSoundInvAgree
import PoetryVerif.Proofs.MarkerLeafVersionNotIn
import PoetryVerif.Proofs.MarkerAlgSoundVerInv
import PoetryVerif.Proofs.MarkerLeafString

set_option linter.unusedSimpArgs false
set_option linter.unusedVariables false

namespace Poetry.Marker
open Poetry Poetry.Spec.Pep508

theorem sepRun_valOk {s : String} (h : SepRun s) : ValOk s := by
  intro c hc
  have := h.2 c hc
  simp only [Spec.Pep508.isListSep, Bool.or_eq_true, beq_iff_eq] at this
  rcases this with (rfl | rfl) | rfl <;> decide

theorem valOk_append {a b : String} (ha : ValOk a) (hb : ValOk b) : ValOk (a ++ b) := by
  intro c hc
  simp only [String.toList_append, List.mem_append] at hc
  rcases hc with hc | hc
  · exact ha c hc
  · exact hb c hc

theorem valOk_join (l : List String) (h : ∀ s ∈ l, ValOk s) : ValOk (String.join l) := by
  induction l with
  | nil => intro c hc; simp [String.join] at hc
  | cons a l ih =>
    have : String.join (a :: l) = a ++ String.join l := by
      apply str_eq_of_toList; simp [join_toList]
    rw [this]
    exact valOk_append (h a (by simp)) (ih (fun s hs => h s (by simp [hs])))

theorem valOk_listLit (t0 : String) (rest : List (String × String)) (h0 : ValOk t0)
    (hr : ∀ p ∈ rest, SepRun p.1 ∧ ValOk p.2) : ValOk (listLit t0 rest) := by
  unfold listLit
  refine valOk_append h0 (valOk_join _ ?_)
  intro s hs
  obtain ⟨p, hp, rfl⟩ := List.mem_map.1 hs
  exact valOk_append (sepRun_valOk (hr p hp).1) (hr p hp).2

theorem valOk_verList2 (p0 : Nat × Nat) (rest : List (String × (Nat × Nat))) (hs : ∀ q ∈ rest, SepRun q.1) :
    ValOk (verList2 p0 rest) := by
  refine valOk_listLit _ _ (relText_valOk _ _) ?_
  intro p hp
  obtain ⟨q, hq, rfl⟩ := List.mem_map.1 hp
  exact ⟨hs q hq, relText_valOk _ _⟩

theorem valOk_verListN (t0 : VTok) (rest : List (String × VTok)) (hs : ∀ q ∈ rest, SepRun q.1) :
    ValOk (verListN t0 rest) := by
  refine valOk_listLit _ _ (relText_valOk _ _) ?_
  intro p hp
  obtain ⟨q, hq, rfl⟩ := List.mem_map.1 hp
  exact ⟨hs q hq, relText_valOk _ _⟩

/-- a list item on a python variable keeps its name, operator and value -/
theorem itemPlain_list (n : String) (hn : n ∈ pyVerNames) (ops : String) (isIn : Bool)
    (hops : (ops = "in" ∧ isIn = true) ∨ (ops = "not in" ∧ isIn = false)) (v : String)
    (hvo : valueOk' v.toList) {s : Single} (hm : mkSingle n (itemConstraintString ops v false) false = .ok s) :
    ItemPlain s n ops v false := by
  have hp := leafPrepare_list_ver n hn ops isIn hops v hvo
  have : itemConstraintString ops v false = ops ++ v := by simp [itemConstraintString]
  rw [this] at hm
  exact mkSingle_fields hm hp

theorem itemOK_leaf {E : Env} {n op v : String} {sw : Bool} (h : ItemOK E n op v sw) :
    ∃ s, mkSingle n (itemConstraintString op v sw) sw = .ok s := by
  obtain ⟨b, hb, _⟩ := h
  cases hm : mkSingle n (itemConstraintString op v sw) sw with
  | error e => simp [itemV, hm] at hb
  | ok s => exact ⟨s, rfl⟩

/-- **`python_version in "X0.Y0 X1.Y1 …"` and `python_version not in "…"` leaves are ready to be inverted**, in every
environment whose `python_version` is a two-component release -/
theorem flipReady_pv_list (E : Env) (isIn : Bool) (p0 : Nat × Nat) (rest : List (String × (Nat × Nat)))
    (hs : ∀ q ∈ rest, SepRun q.1) (x' y' : Nat)
    (hev : E.get? "python_version" = some (Version.relText [x', y'])) :
    ∃ s, mkSingle "python_version" ((if isIn then "in" else "not in") ++ verList2 p0 rest) false = .ok s ∧
      FlipReady E (.single s) := by
  have hin : ItemOK E "python_version" "in" (verList2 p0 rest) false := agree_pv_in E p0 rest hs x' y' hev
  have hni : ItemOK E "python_version" "not in" (verList2 p0 rest) false := agree_pv_notin E p0 rest hs x' y' hev
  have hvo := listLit_valueOk _ _ (verList2_ok p0 rest hs)
  have hv := valOk_verList2 p0 rest hs
  cases isIn
  · obtain ⟨s, hm⟩ := itemOK_leaf hni
    refine ⟨s, by simpa [itemConstraintString] using hm, "python_version", "not in", "in", _, false, s, hm, rfl,
      itemPlain_list _ (by decide) _ false (Or.inr ⟨rfl, rfl⟩) _ hvo hm, by decide, by decide, by decide, by decide,
      by decide, hv, hni, hin⟩
  · obtain ⟨s, hm⟩ := itemOK_leaf hin
    refine ⟨s, by simpa [itemConstraintString] using hm, "python_version", "in", "not in", _, false, s, hm, rfl,
      itemPlain_list _ (by decide) _ true (Or.inl ⟨rfl, rfl⟩) _ hvo hm, by decide, by decide, by decide, by decide,
      by decide, hv, hin, hni⟩

/-- **`python_full_version in "X.Y.Z …"` / `not in "…"` leaves are ready to be inverted** (entries of three or more
components), in every environment whose `python_full_version` is a final release -/
theorem flipReady_pfv_list (E : Env) (isIn : Bool) (t0 : VTok) (rest : List (String × VTok))
    (hs : ∀ q ∈ rest, SepRun q.1) (h3 : ∀ t ∈ t0 :: rest.map (·.2), 2 ≤ t.2.length) (x' : Nat) (r' : List Nat)
    (hev : E.get? "python_full_version" = some (Version.relText (x' :: r'))) :
    ∃ s, mkSingle "python_full_version" ((if isIn then "in" else "not in") ++ verListN t0 rest) false = .ok s ∧
      FlipReady E (.single s) := by
  have hin : ItemOK E "python_full_version" "in" (verListN t0 rest) false :=
    agree_pfv_in E t0 rest hs h3 x' r' hev
  have hni : ItemOK E "python_full_version" "not in" (verListN t0 rest) false :=
    agree_pfv_notin E t0 rest hs h3 x' r' hev
  have hvo := listLit_valueOk _ _ (verListN_ok t0 rest hs)
  have hv := valOk_verListN t0 rest hs
  cases isIn
  · obtain ⟨s, hm⟩ := itemOK_leaf hni
    refine ⟨s, by simpa [itemConstraintString] using hm, "python_full_version", "not in", "in", _, false, s, hm, rfl,
      itemPlain_list _ (by decide) _ false (Or.inr ⟨rfl, rfl⟩) _ hvo hm, by decide, by decide, by decide, by decide,
      by decide, hv, hni, hin⟩
  · obtain ⟨s, hm⟩ := itemOK_leaf hin
    refine ⟨s, by simpa [itemConstraintString] using hm, "python_full_version", "in", "not in", _, false, s, hm, rfl,
      itemPlain_list _ (by decide) _ true (Or.inl ⟨rfl, rfl⟩) _ hvo hm, by decide, by decide, by decide, by decide,
      by decide, hv, hin, hni⟩

/-! ### string variables: lists and reversed operands -/

/-- **`name in "a b …"` / `name not in "…"` leaves on the canonical string variables are ready to be inverted**
(tokens of plain characters that can stand between double quotes), wherever the variable is defined -/
theorem flipReady_str_list (E : Env) (isIn : Bool) (n ev : String) (hn : n ∈ plainStringVars) (t0 : String)
    (rest : List (String × String)) (h : ListLitOk t0 rest) (h0 : ValOk t0) (hr : ∀ p ∈ rest, ValOk p.2)
    (hev : E.get? (canonVar n) = some ev) :
    ∃ s, mkSingle n ((if isIn then "in" else "not in") ++ listLit t0 rest) false = .ok s ∧
      FlipReady E (.single s) := by
  obtain ⟨hn1, hn2⟩ := plainStringVars_facts n hn
  have hin : ItemOK E n "in" (listLit t0 rest) false := agree_in_list E n ev hn1 t0 rest h hev
  have hni : ItemOK E n "not in" (listLit t0 rest) false := agree_notin_list E n ev hn1 t0 rest h hev
  have hv : ValOk (listLit t0 rest) := valOk_listLit t0 rest h0 (fun p hp => ⟨(h.2 p hp).1, hr p hp⟩)
  have hnm : n ∈ names := by
    simp only [plainStringVars, List.mem_cons, List.mem_nil_iff, or_false] at hn
    rcases hn with rfl | rfl | rfl | rfl | rfl | rfl | rfl <;> decide
  have e1 : itemConstraintString "in" (listLit t0 rest) false = "in" ++ listLit t0 rest := by
    simp [itemConstraintString]
  have e2 : itemConstraintString "not in" (listLit t0 rest) false = "not in" ++ listLit t0 rest := by
    simp [itemConstraintString]
  cases isIn
  · obtain ⟨s, hm⟩ := itemOK_leaf hni
    have hf := mkSingle_fields (e2 ▸ hm) (leafPrepare_notin n hn1 t0 rest h)
    refine ⟨s, by simpa [itemConstraintString] using hm, n, "not in", "in", _, false, s, hm, rfl,
      ⟨by rw [hf.1, hn2], hf.2.1, hf.2.2.1, hf.2.2.2⟩, by decide, by decide, by decide, hnm, by decide, hv, hni, hin⟩
  · obtain ⟨s, hm⟩ := itemOK_leaf hin
    have hf := mkSingle_fields (e1 ▸ hm) (leafPrepare_in n hn1 t0 rest h)
    refine ⟨s, by simpa [itemConstraintString] using hm, n, "in", "not in", _, false, s, hm, rfl,
      ⟨by rw [hf.1, hn2], hf.2.1, hf.2.2.1, hf.2.2.2⟩, by decide, by decide, by decide, hnm, by decide, hv, hin, hni⟩

/-- **reversed-operand leaves `"v" in name` / `"v" not in name` on the canonical string variables are ready to be
inverted** -/
theorem flipReady_rev (E : Env) (isIn : Bool) (n v ev : String) (hn : n ∈ plainStringVars) (hv : PlainTok v)
    (hq : ValOk v) (hev : E.get? (canonVar n) = some ev) :
    ∃ s, mkSingle n (itemConstraintString (if isIn then "in" else "not in") v true) true = .ok s ∧
      FlipReady E (.single s) := by
  obtain ⟨hn1, hn2⟩ := plainStringVars_facts n hn
  have hin : ItemOK E n "in" v true := agree_rev E n v ev hn1 hv "in" .in_ (by decide) hev
  have hni : ItemOK E n "not in" v true := agree_rev E n v ev hn1 hv "not in" .nc (by decide) hev
  have hnm : n ∈ names := by
    simp only [plainStringVars, List.mem_cons, List.mem_nil_iff, or_false] at hn
    rcases hn with rfl | rfl | rfl | rfl | rfl | rfl | rfl <;> decide
  cases isIn
  · have hm := mkSingle_rev n v hn1 hv "not in" .nc (by decide)
    exact ⟨_, hm, n, "not in", "in", v, true, _, hm, rfl, ⟨hn2, rfl, rfl, rfl⟩, by decide, by decide, by decide,
      hnm, by decide, hq, hni, hin⟩
  · have hm := mkSingle_rev n v hn1 hv "in" .in_ (by decide)
    exact ⟨_, hm, n, "in", "not in", v, true, _, hm, rfl, ⟨hn2, rfl, rfl, rfl⟩, by decide, by decide, by decide,
      hnm, by decide, hq, hin, hni⟩

end Poetry.Marker
