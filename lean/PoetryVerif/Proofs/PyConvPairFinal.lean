/-
**The python_version / python_full_version pairing of `_merge_single_markers` is sound** under `EnvPy E X Y Z`,
between `python_version op "a.b"` and `python_full_version op "c.d.e"` (comparison operators): `PairSound`, the
cross-merge part of the `merge` field of `LeafSpec` on the python leaves.
-/
import PoetryVerif.Proofs.MarkerAlgSoundPfv
import PoetryVerif.Proofs.PyConvPairSound

set_option linter.unusedSimpArgs false
set_option linter.unusedVariables false

namespace Poetry.Marker
open Poetry Poetry.Version VParser

theorem pfv3Single_eq (sop : Spec.SOp) (ops : String) (a b c : Nat) :
    pfv3Single sop ops a b c = pfvLeafOf sop ops a [b, c] := rfl

/-- the bounds involved in pairing `python_version op "a.b"` with `python_full_version op "c.d.e"` -/
def pairBounds (a b c d e : Nat) : List Version :=
  [finalV [a, b], finalV [a, b + 1], finalV [a, b, 0], finalV [a, b + 1, 0], finalV [c, d, e]]

theorem pairBounds_py (a b c d e : Nat) : ∀ v ∈ pairBounds a b c d e, PyBound v = true := by
  intro v hv
  simp only [pairBounds, List.mem_cons, List.mem_nil_iff, or_false] at hv
  rcases hv with rfl | rfl | rfl | rfl | rfl <;> exact pb _

theorem pairBounds_pad (a b c d e : Nat) :
    ∀ x r, litV x r ∈ pairBounds a b c d e → litV x (padR r) ∈ pairBounds a b c d e := by
  intro x r h
  simp only [pairBounds, List.mem_cons, List.mem_nil_iff, or_false] at h
  have hrel : ∀ l, litV x r = finalV l → x :: r = l := fun l h => congrArg Version.release h
  rcases h with h | h | h | h | h
  · have := hrel _ h; simp only [List.cons.injEq] at this
    obtain ⟨rfl, rfl⟩ := this
    simp [pairBounds, padR, litV_eq_finalV]
  · have := hrel _ h; simp only [List.cons.injEq] at this
    obtain ⟨rfl, rfl⟩ := this
    simp [pairBounds, padR, litV_eq_finalV]
  · have := hrel _ h; simp only [List.cons.injEq] at this
    obtain ⟨rfl, rfl⟩ := this
    simp [pairBounds, padR, litV_eq_finalV]
  · have := hrel _ h; simp only [List.cons.injEq] at this
    obtain ⟨rfl, rfl⟩ := this
    simp [pairBounds, padR, litV_eq_finalV]
  · have := hrel _ h; simp only [List.cons.injEq] at this
    obtain ⟨rfl, rfl⟩ := this
    simp [pairBounds, padR, litV_eq_finalV]

theorem pvLeafOf_name (sop : Spec.SOp) (ops : String) (a b : Nat) : (pvLeafOf sop ops a b).name = "python_version" := rfl
theorem pfvLeafOf_name (sop : Spec.SOp) (ops : String) (x : Nat) (r : List Nat) :
    (pfvLeafOf sop ops x r).name = "python_full_version" := rfl

/-- the truth of an intermediate marker -/
theorem verLeaf_ev {B : List Version} (hpb : ∀ e ∈ B, PyBound e = true) {E : Env} {X Y Z : Nat}
    (hE : EnvPy E X Y Z) {s : Single} (hs : VerLeaf B "python_full_version" (.single s)) (vc : VC)
    (hc : s.c = .ver vc) : leafEval E (.single s) = vc.allowsPlain (pyV X Y Z) := by
  obtain ⟨hns, _, vs, hvs, hws, hms⟩ := hs
  rw [hc] at hvs; cases hvs
  simp only [leafEval, verLeaf_eval (regB_of_pyBound _ hpb) (verEnv_py hpb hE) (by decide) hns hc hws hms]

/-- the constructor on the range of a `python_version` marker -/
theorem mkpfv_py {E : Env} {X Y Z : Nat} (hE : EnvPy E X Y Z) {sop ops} (h : (sop, ops) ∈ pvOps) (a b c d f : Nat)
    (nm : Single) (hmk : mkSingleOfC "python_full_version" (.ver (gpcOf sop a b)) = .ok nm) :
    VerLeaf (pairBounds a b c d f) "python_full_version" (.single nm) ∧
      leafEval E (.single nm) = (gpcOf sop a b).allowsPlain (pyV X Y Z) := by
  have hpb := pairBounds_py a b c d f
  have m1 : finalV [a, b] ∈ pairBounds a b c d f := by simp [pairBounds]
  have m2 : finalV [a, b + 1] ∈ pairBounds a b c d f := by simp [pairBounds]
  have m3 : litV a [b, 0] ∈ pairBounds a b c d f := by simp [pairBounds, litV_eq_finalV]
  have m4 : litV a [b + 1, 0] ∈ pairBounds a b c d f := by simp [pairBounds, litV_eq_finalV]
  -- the simple shapes
  have simple : ∀ (rc : VC) (bb : Nat), rc = gpcOf sop a b → PyVCok rc → rc.isEmpty = false → rc.isAny = false →
      rc.isSimple = .ok true → (∀ v ∈ boundsOf rc.flatten, v = finalV [a, bb]) → litV a [bb, 0] ∈ pairBounds a b c d f →
      VerLeaf (pairBounds a b c d f) "python_full_version" (.single nm) ∧
        leafEval E (.single nm) = (gpcOf sop a b).allowsPlain (pyV X Y Z) := by
    intro rc bb hrc hok he ha hs hbd hB
    subst hrc
    obtain ⟨s', o', x, r, hmem, hr, hxB, rfl, hall⟩ := mkSingleOfC_pfv hok he ha hs hmk
    have hx := congrArg Version.release (hbd _ hxB)
    simp only [litV_release, finalV, List.cons.injEq] at hx
    obtain ⟨rfl, rfl⟩ := hx
    have hp : padR [bb] = [bb, 0] := rfl
    rw [hp] at hall ⊢
    refine ⟨pfv3_verLeaf hmem x bb 0 hB, ?_⟩
    simp only [leafEval, pfv3_eval hE.2 hmem x bb 0]
    exact hall [X, Y, Z] (by simp)
  simp only [pvOps, List.mem_cons, List.mem_nil_iff, or_false, Prod.mk.injEq] at h
  rcases h with ⟨rfl, rfl⟩ | ⟨rfl, rfl⟩ | ⟨rfl, rfl⟩ | ⟨rfl, rfl⟩ | ⟨rfl, rfl⟩ | ⟨rfl, rfl⟩
  · obtain ⟨g, e⟩ := mkSingleOfC_eqRange hpb a b m1 m2 X Y Z nm hmk
    obtain ⟨_, _, vc, hvc, _, _⟩ := id g
    exact ⟨g, by rw [verLeaf_ev hpb hE g vc hvc]; exact e vc hvc⟩
  · obtain ⟨g, e⟩ := mkSingleOfC_neUnion hpb a b m1 m2 X Y Z nm hmk
    obtain ⟨_, _, vc, hvc, _, _⟩ := id g
    exact ⟨g, by rw [verLeaf_ev hpb hE g vc hvc]; exact e vc hvc⟩
  · exact simple _ b rfl (ok_hi _ false (pb _)) (by simp [gpcOf, VC.isEmpty]) (by simp [gpcOf, VC.isAny, RC.isAny, VRange.isAny])
      (by simp [gpcOf, VC.isSimple, RC.isSimple, VRange.isSimple])
      (by intro v hv; simpa [gpcOf, boundsOf, VC.flatten, RC.bounds, RC.view, VRange.bounds, RC.min, RC.max] using hv) m3
  · exact simple _ (b + 1) rfl (ok_hi _ false (pb _)) (by simp [gpcOf, VC.isEmpty]) (by simp [gpcOf, VC.isAny, RC.isAny, VRange.isAny])
      (by simp [gpcOf, VC.isSimple, RC.isSimple, VRange.isSimple])
      (by intro v hv; simpa [gpcOf, boundsOf, VC.flatten, RC.bounds, RC.view, VRange.bounds, RC.min, RC.max] using hv) m4
  · exact simple _ (b + 1) rfl (ok_lo _ true (pb _)) (by simp [gpcOf, VC.isEmpty]) (by simp [gpcOf, VC.isAny, RC.isAny, VRange.isAny])
      (by simp [gpcOf, VC.isSimple, RC.isSimple, VRange.isSimple])
      (by intro v hv; simpa [gpcOf, boundsOf, VC.flatten, RC.bounds, RC.view, VRange.bounds, RC.min, RC.max] using hv) m4
  · exact simple _ b rfl (ok_lo _ true (pb _)) (by simp [gpcOf, VC.isEmpty]) (by simp [gpcOf, VC.isAny, RC.isAny, VRange.isAny])
      (by simp [gpcOf, VC.isSimple, RC.isSimple, VRange.isSimple])
      (by intro v hv; simpa [gpcOf, boundsOf, VC.flatten, RC.bounds, RC.view, VRange.bounds, RC.min, RC.max] using hv) m3

/-- the component facts of the pairing, for `python_version op "a.b"` against `python_full_version op' "c.d.f"` -/
theorem pairCtx_py {E : Env} {X Y Z : Nat} (hE : EnvPy E X Y Z) {sop ops} (h : (sop, ops) ∈ pvOps) (a b : Nat)
    {sop' ops'} (h' : (sop', ops') ∈ pvOps) (c d f : Nat) :
    PairCtx (leafEval E)
      (fun l => l = .single (pvLeafOf sop ops a b) ∨ l = .single (pfvLeafOf sop' ops' c [d, f]))
      (fun l => PvLeaf l ∨ Pfv3Leaf l)
      (VerLeaf (pairBounds a b c d f) "python_full_version")
      (fun ms => Pfv3Leaf (.single ms))
      (fun nc => nc = gpcOf sop a b)
      (pyV X Y Z) where
  out := by
    rintro l (rfl | rfl)
    · exact Or.inl ⟨sop, ops, a, b, h, rfl⟩
    · exact Or.inr ⟨sop', ops', c, d, f, h', rfl⟩
  gpc := by
    rintro vm nc (hv | hv) hn hg
    · cases hv
      rw [gpcLeaf_pvLeafOf h a b] at hg
      cases hg
      exact ⟨rfl, gpcOf_exact hE h a b⟩
    · cases hv
      simp [pfvLeafOf_name] at hn
  mkpfv := by
    rintro nc nm rfl hmk
    exact mkpfv_py hE h a b c d f nm hmk
  fm := by
    rintro fm (hv | hv) hn
    · cases hv
      simp [pvLeafOf_name] at hn
    · cases hv
      exact ⟨pfv3_verLeaf h' c d f (by simp [pairBounds, litV_eq_finalV]), sop', ops', c, d, f, h', rfl⟩
  single := by
    intro l hl
    cases l with
    | single s => exact ⟨s, rfl, hl.1⟩
    | amulti _ _ => exact hl.elim
    | aunion _ _ => exact hl.elim
  congr := verLeaf_congr (regB_of_pyBound _ (pairBounds_py a b c d f)) (verEnv_py (pairBounds_py a b c d f) hE)
    (by decide)
  inner := by
    intro dd nm fm im mm h1 h2 hm
    obtain ⟨g, e, _⟩ := verLeaf_merge_text (pairBounds_py a b c d f) (pairBounds_pad a b c d f) hE.2 dd _ _ im mm h1 h2 hm
    exact ⟨g, e⟩
  leafOnly := by
    intro dd nm fm im mm h1 h2 hm
    obtain ⟨_, _, o⟩ := verLeaf_merge_text (pairBounds_py a b c d f) (pairBounds_pad a b c d f) hE.2 dd _ _ im mm h1 h2 hm
    rcases o with rfl | rfl | rfl | rfl | ⟨s, rfl, _⟩
    · exact Or.inr (Or.inl rfl)
    · exact Or.inl rfl
    · exact Or.inr (Or.inr ⟨_, rfl⟩)
    · exact Or.inr (Or.inr ⟨_, rfl⟩)
    · exact Or.inr (Or.inr ⟨_, rfl⟩)
  text := by
    rintro dd nc nm fm ms im rfl hmk hF hT hm hb
    obtain ⟨g, _⟩ := mkpfv_py hE h a b c d f nm hmk
    obtain ⟨_, _, o⟩ := verLeaf_merge_text (pairBounds_py a b c d f) (pairBounds_pad a b c d f) hE.2 dd _ _ im _ g hF hm
    rcases o with e | e | e | e | ⟨s, e, hs⟩
    · cases e
    · cases e
    · cases e
      simp [Leaf.beq] at hb
    · cases e; exact hT
    · cases e; exact hs
  notList := by
    rintro ms ⟨s, o, a', b', c', hm, he⟩
    cases he
    simp only [pvOps, List.mem_cons, Prod.mk.injEq, List.mem_nil_iff, or_false] at hm
    rcases hm with ⟨_, rfl⟩ | ⟨_, rfl⟩ | ⟨_, rfl⟩ | ⟨_, rfl⟩ | ⟨_, rfl⟩ | ⟨_, rfl⟩ <;> simp only [pfvLeafOf] <;> decide
  rewrite := by
    rintro ms r hF ⟨s, o, a', b', c', hm, he⟩ hr
    cases he
    have := reparse_rewrite hm a' b' c' (pfvLeafOf s o a' [b', c']).c
    rw [show (⟨"python_full_version", o, Version.relText [a', b', c'], false, (pfvLeafOf s o a' [b', c']).c⟩ : Single) =
      pfvLeafOf s o a' [b', c'] from rfl, hr] at this
    injection this with this
    subst this
    by_cases hc : ((o == "<" || o == ">=") && c' == 0) = true
    · rw [if_pos hc]
      simp only [Bool.and_eq_true, Bool.or_eq_true, beq_iff_eq] at hc
      obtain ⟨hlg, rfl⟩ := hc
      refine ⟨by simp only [M.good_leaf]; exact Or.inl ⟨s, o, a', b', hm, rfl⟩, ?_⟩
      rw [M.sem_leaf, pv_pfv_same hE hm hlg a' b']
      rfl
    · rw [if_neg hc]
      exact ⟨by simp only [M.good_leaf]; exact Or.inr ⟨s, o, a', b', c', hm, rfl⟩, rfl⟩

/-- **the python_version / python_full_version pairing is sound** (the cross-merge part of the `merge` field of
`LeafSpec` on the python leaves) -/
theorem pairSound_py {E : Env} {X Y Z : Nat} (hE : EnvPy E X Y Z) : PairSound (leafEval E) PvLeaf Pfv3Leaf := by
  intro l1 l2 im r hG hm
  -- the two single markers, and which is which
  obtain ⟨s1, s2, rfl, rfl, sop, ops, a, b, h, sop', ops', c, d, f, h', hpair, hG1, hG2⟩ :
      ∃ s1 s2, l1 = .single s1 ∧ l2 = .single s2 ∧ ∃ sop ops a b, (sop, ops) ∈ pvOps ∧ ∃ sop' ops' c d f,
        (sop', ops') ∈ pvOps ∧
        ((s1.name = "python_version" ∧ s2.name = "python_full_version") ∨
          (s1.name = "python_full_version" ∧ s2.name = "python_version")) ∧
        (Leaf.single s1 = .single (pvLeafOf sop ops a b) ∨ Leaf.single s1 = .single (pfvLeafOf sop' ops' c [d, f])) ∧
        (Leaf.single s2 = .single (pvLeafOf sop ops a b) ∨ Leaf.single s2 = .single (pfvLeafOf sop' ops' c [d, f])) := by
    rcases hG with ⟨⟨sop, ops, a, b, h, rfl⟩, ⟨sop', ops', c, d, f, h', rfl⟩⟩ |
      ⟨⟨sop', ops', c, d, f, h', rfl⟩, ⟨sop, ops, a, b, h, rfl⟩⟩
    · exact ⟨_, _, rfl, rfl, sop, ops, a, b, h, sop', ops', c, d, f, h', Or.inl ⟨rfl, rfl⟩, Or.inl rfl, Or.inr rfl⟩
    · exact ⟨_, _, rfl, rfl, sop, ops, a, b, h, sop', ops', c, d, f, h', Or.inr ⟨rfl, rfl⟩, Or.inr rfl, Or.inl rfl⟩
  -- `_merge_single_markers` calls the pairing
  have hcall : mergeLeaves (.single s1) (.single s2) im = mergePythonVersion 1 s1 s2 im := by
    simp only [mergeLeaves]
    rw [mergeSingle.eq_def]
    dsimp only
    rcases hpair with ⟨n1, n2⟩ | ⟨n1, n2⟩ <;> simp [Leaf.name, n1, n2]
  rw [hcall] at hm
  exact mergePythonVersion_sound (pairCtx_py hE h a b h' c d f) 1 s1 s2 im r hG1 hG2 hpair hm

end Poetry.Marker
