/-
Marker text: `__str__` of a marker tree is the text of a grammar tree (`M.toSyn`, `Syn.text`), and walking
that tree with `_compact_markers` gives back a marker with the same truth value — the parenthesisation
of `MultiMarker.__str__` (only `MarkerUnion`-like members get parentheses) is justified against the
precedence `_compact_markers` implements (`and` binds tighter than `or`).
-/
import PoetryVerif.Proofs.MarkerAlgSoundOps
import PoetryVerif.Proofs.MarkerShape

set_option linter.unusedSimpArgs false
set_option linter.unusedVariables false

namespace Poetry.Marker
open Poetry.Generic (GC GS)

/-! ### grammar trees: text and concatenation -/

mutual
def Atom.text : Atom → String
  | .item n op v sw => leafText n op v sw
  | .paren m => "(" ++ m.text ++ ")"
def Syn.text : Syn → String
  | .one a => a.text
  | .more a isOr rest => a.text ++ (if isOr then " or " else " and ") ++ rest.text
end

/-- `t1 <op> t2` as one `marker` node -/
def Syn.append : Syn → Bool → Syn → Syn
  | .one a, isOr, t2 => .more a isOr t2
  | .more a o rest, isOr, t2 => .more a o (Syn.append rest isOr t2)

theorem Syn.text_append : ∀ (t1 : Syn) (isOr : Bool) (t2 : Syn),
    (t1.append isOr t2).text = t1.text ++ (if isOr then " or " else " and ") ++ t2.text
  | .one a, isOr, t2 => by simp [Syn.append, Syn.text]
  | .more a o rest, isOr, t2 => by
      simp [Syn.append, Syn.text, Syn.text_append rest isOr t2, String.append_assoc]

/-! ### `_compact_markers` on a concatenation -/

theorem compactGroups_ne_nil : ∀ (t : Syn) (gs : List (List M)), compactGroups t = .ok gs → gs ≠ []
  | .one a, gs, h => by
      simp only [compactGroups] at h
      obtain ⟨x, hx, h⟩ := bind_ok.1 h
      rw [pure_ok] at h; subst h; simp
  | .more a o rest, gs, h => by
      simp only [compactGroups] at h
      obtain ⟨x, hx, h⟩ := bind_ok.1 h
      obtain ⟨gr, hr, h⟩ := bind_ok.1 h
      cases o with
      | true => simp only [if_true, pure_ok] at h; subst h; simp
      | false =>
        simp only [Bool.false_eq_true, if_false] at h
        cases gr with
        | nil => simp only [pure_ok] at h; subst h; simp
        | cons g gs' => simp only [pure_ok] at h; subst h; simp

/-- the groups of `t1 or t2` are the groups of `t1` followed by those of `t2` -/
theorem compactGroups_append_or : ∀ (t1 t2 : Syn) (gs1 gs2 : List (List M)),
    compactGroups t1 = .ok gs1 → compactGroups t2 = .ok gs2 →
    compactGroups (t1.append true t2) = .ok (gs1 ++ gs2)
  | .one a, t2, gs1, gs2, h1, h2 => by
      simp only [compactGroups] at h1
      obtain ⟨x, hx, h1⟩ := bind_ok.1 h1
      rw [pure_ok] at h1; subst h1
      simp [Syn.append, compactGroups, hx, h2, bind, Except.bind, pure, Except.pure]
  | .more a o rest, t2, gs1, gs2, h1, h2 => by
      simp only [compactGroups] at h1
      obtain ⟨x, hx, h1⟩ := bind_ok.1 h1
      obtain ⟨gr, hr, h1⟩ := bind_ok.1 h1
      have := compactGroups_append_or rest t2 gr gs2 hr h2
      have hne := compactGroups_ne_nil rest gr hr
      cases o with
      | true =>
        simp only [if_true, pure_ok] at h1; subst h1
        simp [Syn.append, compactGroups, hx, this, bind, Except.bind, pure, Except.pure]
      | false =>
        simp only [Bool.false_eq_true, if_false] at h1
        cases gr with
        | nil => exact absurd rfl hne
        | cons g gs =>
          simp only [pure_ok] at h1; subst h1
          simp [Syn.append, compactGroups, hx, this, bind, Except.bind, pure, Except.pure]

/-- the groups of `t1 and t2` when `t1` is one conjunction: its group absorbs the first group of `t2` -/
theorem compactGroups_append_and : ∀ (t1 t2 : Syn) (g : List M) (h : List M) (hs : List (List M)),
    compactGroups t1 = .ok [g] → compactGroups t2 = .ok (h :: hs) →
    compactGroups (t1.append false t2) = .ok ((g ++ h) :: hs)
  | .one a, t2, g, h, hs, h1, h2 => by
      simp only [compactGroups] at h1
      obtain ⟨x, hx, h1⟩ := bind_ok.1 h1
      rw [pure_ok] at h1
      injection h1 with h1 _; subst h1
      simp [Syn.append, compactGroups, hx, h2, bind, Except.bind, pure, Except.pure]
  | .more a o rest, t2, g, h, hs, h1, h2 => by
      simp only [compactGroups] at h1
      obtain ⟨x, hx, h1⟩ := bind_ok.1 h1
      obtain ⟨gr, hr, h1⟩ := bind_ok.1 h1
      have hne := compactGroups_ne_nil rest gr hr
      cases o with
      | true =>
        simp only [if_true, pure_ok] at h1
        injection h1 with _ h1
        exact absurd h1 hne
      | false =>
        simp only [Bool.false_eq_true, if_false] at h1
        cases gr with
        | nil => exact absurd rfl hne
        | cons g' gs' =>
          simp only [pure_ok] at h1
          injection h1 with h1 h1'
          subst h1; subst h1'
          have := compactGroups_append_and rest t2 g' h hs hr h2
          simp [Syn.append, compactGroups, hx, this, bind, Except.bind, pure, Except.pure]

/-! ### the grammar tree of a marker's text -/

/-- `name op1 "v1" <bool> name op2 "v2" …` -/
def atomItems (n : String) (isOr : Bool) : List Generic.Atom → Option Syn
  | [] => none
  | [a] => some (.one (.item n a.op.str a.value false))
  | a :: b :: rest => (atomItems n isOr (b :: rest)).map (fun t => .more (.item n a.op.str a.value false) isOr t)

def gsAtoms : List GS → Option (List Generic.Atom)
  | [] => some []
  | .atom a :: rest => (gsAtoms rest).map (fun as => a :: as)
  | _ :: _ => none

def Leaf.toSyn : Leaf → Option Syn
  | .single s => some (.one (.item s.name s.op s.value s.swapped))
  | .amulti n (.s (.multi _ cs)) => atomItems n false cs
  | .aunion n (.union ms) => (gsAtoms ms).bind (atomItems n true)
  | _ => none

/-- members a `MultiMarker` prints without parentheses -/
def M.plainInMulti : M → Bool
  | .leaf (.single _) => true
  | .leaf (.amulti _ _) => true
  | .multi _ => true
  | _ => false

mutual
/-- the grammar tree whose text is `str(m)`; `none` where `str(m)` is not a marker (Any/Empty or an empty
compound inside) -/
def M.toSyn : M → Option Syn
  | .any => none
  | .empty => none
  | .leaf l => l.toSyn
  | .multi ms => M.toSynMulti ms
  | .union ms => M.toSynUnion ms
def M.toSynMulti : List M → Option Syn
  | [] => none
  | m :: ms =>
    match M.toSyn m with
    | none => none
    | some t =>
      let a : Syn := if m.plainInMulti then t else .one (.paren t)
      match ms with
      | [] => some a
      | _ :: _ =>
        match M.toSynMulti ms with
        | none => none
        | some r => some (a.append false r)
def M.toSynUnion : List M → Option Syn
  | [] => none
  | m :: ms =>
    match M.toSyn m with
    | none => none
    | some t =>
      match ms with
      | [] => some t
      | _ :: _ =>
        match M.toSynUnion ms with
        | none => none
        | some r => some (t.append true r)
end

/-! ### text -/

theorem joinWith_cons2 (sep x y : String) (zs : List String) :
    joinWith sep (x :: y :: zs) = x ++ sep ++ joinWith sep (y :: zs) := rfl

theorem atomItems_text (n : String) (isOr : Bool) : ∀ (as : List Generic.Atom) (t : Syn),
    atomItems n isOr as = some t →
    joinWith (if isOr then " or " else " and ") (as.map (atomClause n)) = t.text
  | [], t, h => by simp [atomItems] at h
  | [a], t, h => by
      simp only [atomItems, Option.some.injEq] at h; subst h
      simp [joinWith, Syn.text, Atom.text, atomClause, leafText]
  | a :: b :: rest, t, h => by
      simp only [atomItems, Option.map_eq_some_iff] at h
      obtain ⟨t', h', rfl⟩ := h
      have := atomItems_text n isOr (b :: rest) t' h'
      simp only [List.map_cons] at this ⊢
      rw [joinWith_cons2, this]
      simp [Syn.text, Atom.text, atomClause, leafText, String.append_assoc]

theorem gsAtoms_mapM (f : GS → Option Generic.Atom) (hf : ∀ a, f (.atom a) = some a) :
    ∀ (ms : List GS) (as : List Generic.Atom), gsAtoms ms = some as → ms.mapM f = some as
  | [], as, h => by simp [gsAtoms] at h; subst h; rfl
  | .atom a :: rest, as, h => by
      simp only [gsAtoms, Option.map_eq_some_iff] at h
      obtain ⟨as', h', rfl⟩ := h
      simp [List.mapM_cons, gsAtoms_mapM f hf rest as' h', hf]
  | .any :: _, as, h => by simp [gsAtoms] at h
  | .empty :: _, as, h => by simp [gsAtoms] at h
  | .multi _ _ :: _, as, h => by simp [gsAtoms] at h

theorem Leaf.toStr_text {l : Leaf} {t : Syn} (h : l.toSyn = some t) : l.toStr = .ok t.text := by
  cases l with
  | single s =>
    simp only [Leaf.toSyn, Option.some.injEq] at h; subst h
    simp [Leaf.toStr, Syn.text, Atom.text]
  | amulti n c =>
    cases c with
    | s gs =>
      cases gs with
      | multi x cs =>
        simp only [Leaf.toSyn] at h
        have := atomItems_text n false cs t h
        simp only [Bool.false_eq_true, if_false] at this
        simp [Leaf.toStr, this]
      | _ => simp [Leaf.toSyn] at h
    | union _ => simp [Leaf.toSyn] at h
  | aunion n c =>
    cases c with
    | s _ => simp [Leaf.toSyn] at h
    | union ms =>
      simp only [Leaf.toSyn, Option.bind_eq_some_iff] at h
      obtain ⟨as, h1, h2⟩ := h
      have := atomItems_text n true as t h2
      simp only [if_true] at this
      simp only [Leaf.toStr]
      rw [gsAtoms_mapM _ (fun a => rfl) ms as h1]
      simp [this]

/-! ### reading the text back -/

variable {ev : Leaf → Bool} {G : Leaf → Prop}

/-- truth of a disjunction of conjunctions -/
def gsem (ev : Leaf → Bool) (gs : List (List M)) : Bool := gs.any (fun g => g.all (M.sem ev))

def GoodGs (G : Leaf → Prop) (gs : List (List M)) : Prop := ∀ g ∈ gs, ∀ x ∈ g, M.Good G x

/-- re-reading the printed text of a leaf gives its truth value back (for a `SingleMarker`: the constructor
applied to its own text rebuilds it, `leafPrintOK_single`) -/
def LeafPrintOK (ev : Leaf → Bool) (G : Leaf → Prop) (l : Leaf) : Prop :=
  ∀ t, l.toSyn = some t → ∃ gs, compactGroups t = .ok gs ∧ GoodGs G gs ∧ gsem ev gs = ev l ∧
    ((∀ n c, l ≠ .aunion n c) → ∃ g, gs = [g])

structure PrintOK (ev : Leaf → Bool) (G : Leaf → Prop) (m : M) (t : Syn) : Prop where
  text : M.toStr m = .ok t.text
  groups : ∃ gs, compactGroups t = .ok gs ∧ GoodGs G gs ∧ gsem ev gs = M.sem ev m ∧
    (m.plainInMulti = true → ∃ g, gs = [g])

theorem groupMarker_spec (S : LeafSpec ev G) (g : List M) (hg : ∀ x ∈ g, M.Good G x) :
    M.Good G (groupMarker g) ∧ M.sem ev (groupMarker g) = g.all (M.sem ev) := by
  match g, hg with
  | [], hg => exact mkMulti_spec S [] hg
  | [m], hg => exact ⟨hg m (by simp), by simp [groupMarker]⟩
  | a :: b :: l, hg => exact mkMulti_spec S _ hg

theorem groups_marker_spec (S : LeafSpec ev G) (gs : List (List M)) (hg : GoodGs G gs) :
    M.Good G (mkUnion (gs.map groupMarker)) ∧ M.sem ev (mkUnion (gs.map groupMarker)) = gsem ev gs := by
  have h1 : ∀ x ∈ gs.map groupMarker, M.Good G x := by
    intro x hx
    simp only [List.mem_map] at hx
    obtain ⟨g, hgm, rfl⟩ := hx
    exact (groupMarker_spec S g (hg g hgm)).1
  have := mkUnion_spec (ev := ev) S _ h1
  refine ⟨this.1, ?_⟩
  rw [this.2]
  simp only [gsem, List.any_map, Function.comp_def]
  have key : ∀ (l : List (List M)), (∀ g ∈ l, ∀ x ∈ g, M.Good G x) →
      (l.any fun x => M.sem ev (groupMarker x)) = l.any fun g => g.all (M.sem ev) := by
    intro l
    induction l with
    | nil => intro _; rfl
    | cons g l ih =>
      intro hl
      simp only [List.any_cons, (groupMarker_spec S g (hl g (by simp))).2,
        ih (fun g' hg' => hl g' (by simp [hg']))]
  exact key gs hg

theorem compactGroups_paren {t : Syn} {gs : List (List M)} (h : compactGroups t = .ok gs) :
    compactGroups (.one (.paren t)) = .ok [[mkUnion (gs.map groupMarker)]] := by
  simp [compactGroups, compactAtom, h, bind, Except.bind, pure, Except.pure]

/-- one member of a `MultiMarker`, printed plainly or in parentheses, is one conjunction when read back -/
theorem part_ok (S : LeafSpec ev G) {m : M} {tm : Syn} (h : PrintOK ev G m tm) :
    ∃ g, compactGroups (if m.plainInMulti then tm else .one (.paren tm)) = .ok [g] ∧
      (∀ x ∈ g, M.Good G x) ∧ g.all (M.sem ev) = M.sem ev m := by
  obtain ⟨gs, h1, h2, h3, h4⟩ := h.groups
  by_cases hp : m.plainInMulti = true
  · obtain ⟨g, rfl⟩ := h4 hp
    refine ⟨g, by simp [hp, h1], fun x hx => h2 g (by simp) x hx, ?_⟩
    simpa [gsem] using h3
  · have := groups_marker_spec S gs h2
    refine ⟨[mkUnion (gs.map groupMarker)], by simp [hp, compactGroups_paren h1], ?_, ?_⟩
    · intro x hx; simp at hx; subst hx; exact this.1
    · simp [this.2, h3]

theorem part_text (m : M) (tm : Syn) :
    (match m with
      | .leaf (.single _) => tm.text
      | .leaf (.amulti _ _) => tm.text
      | .multi _ => tm.text
      | _ => "(" ++ tm.text ++ ")") = (if m.plainInMulti then tm else Syn.one (.paren tm)).text := by
  cases m with
  | leaf l => cases l <;> simp [M.plainInMulti, Syn.text, Atom.text]
  | _ => simp [M.plainInMulti, Syn.text, Atom.text]

mutual
theorem M.print_ok (S : LeafSpec ev G) (hL : ∀ l, G l → LeafPrintOK ev G l) :
    ∀ (m : M) (t : Syn), M.Good G m → M.toSyn m = some t → PrintOK ev G m t
  | .any, t, _, h => by simp [M.toSyn] at h
  | .empty, t, _, h => by simp [M.toSyn] at h
  | .leaf l, t, hg, h => by
      simp only [M.toSyn] at h
      obtain ⟨gs, h1, h2, h3, h4⟩ := hL l (by simpa using hg) t h
      refine ⟨by simp [M.toStr, Leaf.toStr_text h], gs, h1, h2, by simpa using h3, ?_⟩
      intro hp
      apply h4
      intro n c hl; subst hl; simp [M.plainInMulti] at hp
  | .multi ms, t, hg, h => by
      simp only [M.toSyn] at h
      obtain ⟨⟨parts, hp1, hp2⟩, g, h1, h2, h3⟩ := M.printMulti_ok S hL ms t (by simpa using hg) h
      refine ⟨by simp [M.toStr, hp1, hp2, bind, Except.bind, pure, Except.pure], [g], h1, ?_, ?_, fun _ => ⟨g, rfl⟩⟩
      · intro g' hg'; simp at hg'; subst hg'; exact h2
      · simp [gsem, h3]
  | .union ms, t, hg, h => by
      simp only [M.toSyn] at h
      obtain ⟨⟨parts, hp1, hp2⟩, gs, h1, h2, h3⟩ := M.printUnion_ok S hL ms t (by simpa using hg) h
      refine ⟨by simp [M.toStr, hp1, hp2, bind, Except.bind, pure, Except.pure], gs, h1, h2, by simp [h3], ?_⟩
      intro hp; simp [M.plainInMulti] at hp
theorem M.printMulti_ok (S : LeafSpec ev G) (hL : ∀ l, G l → LeafPrintOK ev G l) :
    ∀ (ms : List M) (t : Syn), (∀ x ∈ ms, M.Good G x) → M.toSynMulti ms = some t →
      (∃ parts, M.toStrMultiParts ms = .ok parts ∧ joinWith " and " parts = t.text) ∧
      ∃ g, compactGroups t = .ok [g] ∧ (∀ x ∈ g, M.Good G x) ∧ g.all (M.sem ev) = ms.all (M.sem ev)
  | [], t, _, h => by simp [M.toSynMulti] at h
  | m :: ms, t, hg, h => by
      simp only [M.toSynMulti] at h
      cases hm : M.toSyn m with
      | none => simp [hm] at h
      | some tm =>
        simp only [hm] at h
        have pm := M.print_ok S hL m tm (hg m (by simp)) hm
        obtain ⟨g, hg1, hg2, hg3⟩ := part_ok S pm
        have htxt := part_text m tm
        cases ms with
        | nil =>
          simp only [Option.some.injEq] at h; subst h
          refine ⟨⟨[(if m.plainInMulti then tm else Syn.one (.paren tm)).text], ?_, by simp [joinWith]⟩,
            g, hg1, hg2, by simp [hg3]⟩
          rw [M.toStrMultiParts]
          simp only [pm.text, M.toStrMultiParts, bind, Except.bind, pure, Except.pure]
          clear htxt hg1 hg3 pm hm
          cases m with
          | leaf l => cases l <;> simp [M.plainInMulti, Syn.text, Atom.text]
          | _ => simp [M.plainInMulti, Syn.text, Atom.text]
        | cons m' ms' =>
          simp only at h
          cases hr : M.toSynMulti (m' :: ms') with
          | none => simp [hr] at h
          | some r =>
            simp only [hr, Option.some.injEq] at h; subst h
            obtain ⟨⟨parts, hp1, hp2⟩, g', h1', h2', h3'⟩ :=
              M.printMulti_ok S hL (m' :: ms') r (fun x hx => hg x (by simp [hx])) hr
            refine ⟨⟨(if m.plainInMulti then tm else Syn.one (.paren tm)).text :: parts, ?_, ?_⟩,
              g ++ g', compactGroups_append_and _ _ g g' [] hg1 h1', ?_, ?_⟩
            · rw [M.toStrMultiParts]
              simp only [pm.text, hp1, bind, Except.bind, pure, Except.pure]
              clear htxt hg1 hg3 pm hm
              cases m with
              | leaf l => cases l <;> simp [M.plainInMulti, Syn.text, Atom.text]
              | _ => simp [M.plainInMulti, Syn.text, Atom.text]
            · have hne : parts ≠ [] := by
                intro hc; subst hc
                simp [M.toStrMultiParts, bind, Except.bind, pure, Except.pure] at hp1
                cases hx : M.toStr m' <;> simp [hx] at hp1
                cases hy : M.toStrMultiParts ms' <;> simp [hy] at hp1
              cases parts with
              | nil => exact absurd rfl hne
              | cons p ps =>
                rw [joinWith_cons2, hp2, Syn.text_append]
                simp
            · intro x hx; simp at hx; rcases hx with hx | hx
              · exact hg2 x hx
              · exact h2' x hx
            · simp [List.all_append, hg3, h3']
theorem M.printUnion_ok (S : LeafSpec ev G) (hL : ∀ l, G l → LeafPrintOK ev G l) :
    ∀ (ms : List M) (t : Syn), (∀ x ∈ ms, M.Good G x) → M.toSynUnion ms = some t →
      (∃ parts, M.toStrList ms = .ok parts ∧ joinWith " or " parts = t.text) ∧
      ∃ gs, compactGroups t = .ok gs ∧ GoodGs G gs ∧ gsem ev gs = ms.any (M.sem ev)
  | [], t, _, h => by simp [M.toSynUnion] at h
  | m :: ms, t, hg, h => by
      simp only [M.toSynUnion] at h
      cases hm : M.toSyn m with
      | none => simp [hm] at h
      | some tm =>
        simp only [hm] at h
        have pm := M.print_ok S hL m tm (hg m (by simp)) hm
        obtain ⟨gs, hg1, hg2, hg3, _⟩ := pm.groups
        cases ms with
        | nil =>
          simp only [Option.some.injEq] at h; subst h
          exact ⟨⟨[tm.text], by simp [M.toStrList, pm.text, bind, Except.bind, pure, Except.pure], by simp [joinWith]⟩,
            gs, hg1, hg2, by simp [hg3]⟩
        | cons m' ms' =>
          simp only at h
          cases hr : M.toSynUnion (m' :: ms') with
          | none => simp [hr] at h
          | some r =>
            simp only [hr, Option.some.injEq] at h; subst h
            obtain ⟨⟨parts, hp1, hp2⟩, gs', h1', h2', h3'⟩ :=
              M.printUnion_ok S hL (m' :: ms') r (fun x hx => hg x (by simp [hx])) hr
            refine ⟨⟨tm.text :: parts, ?_, ?_⟩, gs ++ gs', compactGroups_append_or _ _ gs gs' hg1 h1', ?_, ?_⟩
            · rw [M.toStrList]
              simp only [pm.text, hp1, bind, Except.bind, pure, Except.pure]
            · have hne : parts ≠ [] := by
                intro hc; subst hc
                simp [M.toStrList, bind, Except.bind, pure, Except.pure] at hp1
                cases hx : M.toStr m' <;> simp [hx] at hp1
                cases hy : M.toStrList ms' <;> simp [hy] at hp1
              cases parts with
              | nil => exact absurd rfl hne
              | cons p ps =>
                rw [joinWith_cons2, hp2, Syn.text_append]
                simp
            · intro g hgm x hx
              simp only [List.mem_append] at hgm
              rcases hgm with hgm | hgm
              · exact hg2 g hgm x hx
              · exact h2' g hgm x hx
            · simp only [gsem, List.any_append] at hg3 h3' ⊢
              simp [hg3, h3']
end

/-- **Printing then re-reading preserves meaning (tree level).**  If `str(m)` is a marker text
(`M.toSyn m = some t`), then `str(m)` is the text of the grammar tree `t`, `_compact_markers` accepts `t`,
and the marker it builds has the same truth value as `m`. -/
theorem M.print_reparse (S : LeafSpec ev G) (hL : ∀ l, G l → LeafPrintOK ev G l) {m : M} {t : Syn}
    (hg : M.Good G m) (h : M.toSyn m = some t) :
    M.toStr m = .ok t.text ∧ ∃ m', compactRaw t = .ok m' ∧ M.Good G m' ∧ M.sem ev m' = M.sem ev m := by
  have p := M.print_ok S hL m t hg h
  obtain ⟨gs, h1, h2, h3, _⟩ := p.groups
  have := groups_marker_spec S gs h2
  refine ⟨p.text, mkUnion (gs.map groupMarker), ?_, this.1, by rw [this.2, h3]⟩
  simp [compactRaw, compactSubMarkers, h1, bind, Except.bind, pure, Except.pure]

/-- a `SingleMarker` that its own text rebuilds (true of every leaf the constructor returns on the
correspondence streams; `rfl` on concrete leaves) re-reads to itself -/
theorem leafPrintOK_single {s : Single} (hG : G (.single s))
    (hs : mkSingle s.name (itemConstraintString s.op s.value s.swapped) s.swapped = .ok s) :
    LeafPrintOK ev G (.single s) := by
  intro t ht
  simp only [Leaf.toSyn, Option.some.injEq] at ht; subst ht
  refine ⟨[[.leaf (.single s)]], ?_, ?_, by simp [gsem], fun _ => ⟨_, rfl⟩⟩
  · simp [compactGroups, compactAtom, hs, bind, Except.bind, pure, Except.pure]
  · intro g hg x hx; simp at hg; subst hg; simp at hx; subst hx; simpa using hG

/-! ### token level: the text of a tree, as tokens, parses back to the tree -/

inductive Tok where
  | lpar | rpar | and | or
  | item (name op value : String) (swapped : Bool)
deriving DecidableEq, Repr

mutual
def Atom.toks : Atom → List Tok
  | .item n op v sw => [.item n op v sw]
  | .paren m => [.lpar] ++ m.toks ++ [.rpar]
def Syn.toks : Syn → List Tok
  | .one a => a.toks
  | .more a isOr rest => a.toks ++ [if isOr then Tok.or else Tok.and] ++ rest.toks
end

mutual
/-- recursive descent for `marker: _atom (BOOL_OP _atom)*`, `_atom: item | "(" marker ")"` on tokens
(the shape of `parseAtom`/`parseSyn` in Model/MarkerSyn.lean without the lexer) -/
def parseAtomT (fuel : Nat) (s : List Tok) : Option (Atom × List Tok) :=
  match fuel with
  | 0 => none
  | fuel + 1 =>
    match s with
    | .lpar :: r =>
      match parseSynT fuel r with
      | some (m, .rpar :: r3) => some (.paren m, r3)
      | _ => none
    | .item n op v sw :: r => some (.item n op v sw, r)
    | _ => none
def parseSynT (fuel : Nat) (s : List Tok) : Option (Syn × List Tok) :=
  match fuel with
  | 0 => none
  | fuel + 1 =>
    match parseAtomT fuel s with
    | none => none
    | some (a, r) =>
      match r with
      | .and :: r2 =>
        match parseSynT fuel r2 with
        | some (rest, r3) => some (.more a false rest, r3)
        | none => none
      | .or :: r2 =>
        match parseSynT fuel r2 with
        | some (rest, r3) => some (.more a true rest, r3)
        | none => none
      | _ => some (.one a, r)
end

mutual
def Atom.size : Atom → Nat
  | .item .. => 1
  | .paren m => m.size + 1
def Syn.size : Syn → Nat
  | .one a => a.size + 1
  | .more a _ rest => a.size + rest.size + 1
end

/-- what may follow a complete `marker`: the end of the input or a closing parenthesis -/
def stopsMarker : List Tok → Prop
  | [] => True
  | .rpar :: _ => True
  | _ => False

mutual
theorem parseAtomT_toks : ∀ (a : Atom) (fuel : Nat) (rest : List Tok), a.size < fuel →
    parseAtomT fuel (a.toks ++ rest) = some (a, rest)
  | .item n op v sw, fuel, rest, hf => by
      cases fuel with
      | zero => simp [Atom.size] at hf
      | succ fuel => simp [Atom.toks, parseAtomT]
  | .paren m, fuel, rest, hf => by
      cases fuel with
      | zero => simp [Atom.size] at hf
      | succ fuel =>
        simp only [Atom.size] at hf
        have := parseSynT_toks m fuel (.rpar :: rest) (by omega) trivial
        simp [Atom.toks, parseAtomT, List.append_assoc, this]
theorem parseSynT_toks : ∀ (t : Syn) (fuel : Nat) (rest : List Tok), t.size < fuel → stopsMarker rest →
    parseSynT fuel (t.toks ++ rest) = some (t, rest)
  | .one a, fuel, rest, hf, hs => by
      cases fuel with
      | zero => simp [Syn.size] at hf
      | succ fuel =>
        simp only [Syn.size] at hf
        have := parseAtomT_toks a fuel rest (by omega)
        simp only [Syn.toks, parseSynT, this]
        match rest, hs with
        | [], _ => rfl
        | .rpar :: _, _ => rfl
  | .more a isOr r, fuel, rest, hf, hs => by
      cases fuel with
      | zero => simp [Syn.size] at hf
      | succ fuel =>
        simp only [Syn.size] at hf
        have h1 := parseAtomT_toks a fuel ([if isOr then Tok.or else Tok.and] ++ r.toks ++ rest) (by omega)
        have h2 := parseSynT_toks r fuel rest (by omega) hs
        cases isOr <;> simp [Syn.toks, parseSynT, List.append_assoc] at h1 ⊢ <;> simp [h1, h2]
end

/-- **the token stream of a marker text parses back to its tree** (whole input consumed) -/
theorem parseToks_roundtrip (t : Syn) : parseSynT (t.size + 1) t.toks = some (t, []) := by
  have := parseSynT_toks t (t.size + 1) [] (by omega) trivial
  simpa using this

/-! ### normal forms are printable -/

/-- the leaf has a marker text (an atomic multi/union marker over a non-empty constraint of atoms) -/
def Leaf.Printable (l : Leaf) : Prop := l.toSyn.isSome = true

theorem toSynUnion_cons2 (m m' : M) (ms : List M) :
    M.toSynUnion (m :: m' :: ms) =
      match M.toSyn m with
      | none => none
      | some t =>
        match M.toSynUnion (m' :: ms) with
        | none => none
        | some r => some (t.append true r) := by
  rw [M.toSynUnion]

theorem toSynUnion_some : ∀ (ms : List M), ms ≠ [] → (∀ m ∈ ms, (M.toSyn m).isSome = true) →
    (M.toSynUnion ms).isSome = true
  | [], h, _ => absurd rfl h
  | [m], _, hm => by
      have := hm m (by simp)
      simp only [M.toSynUnion]
      cases h : M.toSyn m <;> simp_all
  | m :: m' :: ms, _, hm => by
      have h1 := hm m (by simp)
      have h2 := toSynUnion_some (m' :: ms) (by simp) (fun x hx => hm x (by simp [hx]))
      rw [toSynUnion_cons2]
      cases h : M.toSyn m with
      | none => simp_all
      | some t =>
        cases h' : M.toSynUnion (m' :: ms) with
        | none => simp_all
        | some r => rfl

theorem toSynMulti_cons2 (m m' : M) (ms : List M) :
    M.toSynMulti (m :: m' :: ms) =
      match M.toSyn m with
      | none => none
      | some t =>
        match M.toSynMulti (m' :: ms) with
        | none => none
        | some r => some ((if m.plainInMulti then t else Syn.one (.paren t)).append false r) := by
  rw [M.toSynMulti]

theorem toSynMulti_some : ∀ (ms : List M), ms ≠ [] → (∀ m ∈ ms, (M.toSyn m).isSome = true) →
    (M.toSynMulti ms).isSome = true
  | [], h, _ => absurd rfl h
  | [m], _, hm => by
      have := hm m (by simp)
      simp only [M.toSynMulti]
      cases h : M.toSyn m <;> simp_all
  | m :: m' :: ms, _, hm => by
      have h1 := hm m (by simp)
      have h2 := toSynMulti_some (m' :: ms) (by simp) (fun x hx => hm x (by simp [hx]))
      rw [toSynMulti_cons2]
      cases h : M.toSyn m with
      | none => simp_all
      | some t =>
        cases h' : M.toSynMulti (m' :: ms) with
        | none => simp_all
        | some r => rfl

theorem clause_printable {c : M} (hc : c.isClause = true) (hl : M.Good Leaf.Printable c) :
    (M.toSyn c).isSome = true := by
  cases c with
  | leaf l => simpa [M.toSyn, Leaf.Printable] using hl
  | union ls =>
    simp only [M.isClause, Bool.and_eq_true, List.all_eq_true] at hc
    simp only [M.toSyn]
    apply toSynUnion_some ls (by simpa using hc.1)
    intro m hm
    have h1 := hc.2 m hm
    have h2 : M.Good Leaf.Printable m := (M.good_union ls).1 hl m hm
    cases m with
    | leaf l => simpa [M.toSyn, Leaf.Printable] using h2
    | _ => simp [M.isLeaf] at h1
  | _ => simp [M.isClause] at hc

theorem cube_printable {c : M} (hc : c.isCube = true) (hl : M.Good Leaf.Printable c) :
    (M.toSyn c).isSome = true := by
  cases c with
  | leaf l => simpa [M.toSyn, Leaf.Printable] using hl
  | multi ls =>
    simp only [M.isCube, Bool.and_eq_true, List.all_eq_true] at hc
    simp only [M.toSyn]
    apply toSynMulti_some ls (by simpa using hc.1)
    intro m hm
    have h1 := hc.2 m hm
    have h2 : M.Good Leaf.Printable m := (M.good_multi ls).1 hl m hm
    cases m with
    | leaf l => simpa [M.toSyn, Leaf.Printable] using h2
    | _ => simp [M.isLeaf] at h1
  | _ => simp [M.isCube] at hc

/-- a CNF over printable leaves that is neither Any nor Empty has a marker text -/
theorem cnf_form_printable {r : M} (hc : r.isCnf = true) (hl : M.Good Leaf.Printable r)
    (ha : r.isAny = false) (he : r.isEmpty = false) : (M.toSyn r).isSome = true := by
  cases r with
  | any => simp [M.isAny] at ha
  | empty => simp [M.isEmpty] at he
  | leaf l => exact clause_printable (by simp [M.isClause]) hl
  | union ls => exact clause_printable (by simpa [M.isCnf] using hc) hl
  | multi cs =>
    simp only [M.isCnf, Bool.and_eq_true, List.all_eq_true] at hc
    simp only [M.toSyn]
    apply toSynMulti_some cs (by simpa using hc.1)
    intro m hm
    exact clause_printable (hc.2 m hm) ((M.good_multi cs).1 hl m hm)

theorem dnf_form_printable {r : M} (hc : r.isDnf = true) (hl : M.Good Leaf.Printable r)
    (ha : r.isAny = false) (he : r.isEmpty = false) : (M.toSyn r).isSome = true := by
  cases r with
  | any => simp [M.isAny] at ha
  | empty => simp [M.isEmpty] at he
  | leaf l => exact cube_printable (by simp [M.isCube]) hl
  | multi ls => exact cube_printable (by simpa [M.isDnf] using hc) hl
  | union cs =>
    simp only [M.isDnf, Bool.and_eq_true, List.all_eq_true] at hc
    simp only [M.toSyn]
    apply toSynUnion_some cs (by simpa using hc.1)
    intro m hm
    exact cube_printable (hc.2 m hm) ((M.good_union cs).1 hl m hm)

/-! ### results of `intersect` / `union` are printable -/

/-- Any, Empty, or a marker with a text -/
def M.PrintableE (m : M) : Prop := m.isAny = true ∨ m.isEmpty = true ∨ (M.toSyn m).isSome = true

theorem toSynMulti_mem : ∀ (ms : List M), (M.toSynMulti ms).isSome = true →
    ms ≠ [] ∧ ∀ m ∈ ms, (M.toSyn m).isSome = true
  | [], h => by simp [M.toSynMulti] at h
  | [m], h => by
      simp only [M.toSynMulti] at h
      cases hm : M.toSyn m <;> simp_all
  | m :: m' :: ms, h => by
      rw [toSynMulti_cons2] at h
      cases hm : M.toSyn m with
      | none => simp [hm] at h
      | some t =>
        cases hr : M.toSynMulti (m' :: ms) with
        | none => simp [hm, hr] at h
        | some r =>
          have := toSynMulti_mem (m' :: ms) (by simp [hr])
          refine ⟨by simp, ?_⟩
          intro x hx; simp only [List.mem_cons] at hx
          rcases hx with rfl | hx
          · simp [hm]
          · exact this.2 x (by simpa using hx)

theorem toSynUnion_mem : ∀ (ms : List M), (M.toSynUnion ms).isSome = true →
    ms ≠ [] ∧ ∀ m ∈ ms, (M.toSyn m).isSome = true
  | [], h => by simp [M.toSynUnion] at h
  | [m], h => by
      simp only [M.toSynUnion] at h
      cases hm : M.toSyn m <;> simp_all
  | m :: m' :: ms, h => by
      rw [toSynUnion_cons2] at h
      cases hm : M.toSyn m with
      | none => simp [hm] at h
      | some t =>
        cases hr : M.toSynUnion (m' :: ms) with
        | none => simp [hm, hr] at h
        | some r =>
          have := toSynUnion_mem (m' :: ms) (by simp [hr])
          refine ⟨by simp, ?_⟩
          intro x hx; simp only [List.mem_cons] at hx
          rcases hx with rfl | hx
          · simp [hm]
          · exact this.2 x (by simpa using hx)

theorem appendNew_len_ge (ms : List M) : ∀ (acc : List M), acc.length ≤ (appendNew acc ms).length ∧
    (ms ≠ [] → appendNew acc ms ≠ []) := by
  induction ms with
  | nil => intro acc; simp [appendNew]
  | cons m ms ih =>
    intro acc
    simp only [appendNew, List.foldl_cons]
    have h1 := (ih (if M.mem m acc = true then acc else acc ++ [m])).1
    simp only [appendNew] at h1
    have hlen : acc.length ≤ (if M.mem m acc = true then acc else acc ++ [m]).length := by split <;> simp
    have hpos : 0 < (if M.mem m acc = true then acc else acc ++ [m]).length := by
      split
      · rename_i hmem
        cases acc with
        | nil => simp [M.mem] at hmem
        | cons a l => simp
      · simp
    refine ⟨Nat.le_trans hlen h1, fun _ hnil => ?_⟩
    rw [hnil] at h1; simp only [List.length_nil] at h1; omega

/-- flattening keeps a property that passes from a compound to its members, and keeps the list non-empty -/
theorem flattenAux_closed (b : Bool) (Q : M → Prop)
    (hQ : ∀ inner, Q (if b then .multi inner else .union inner) → inner ≠ [] ∧ ∀ x ∈ inner, Q x)
    (ms acc : List M) : (∀ x ∈ ms, Q x) → (∀ x ∈ acc, Q x) →
    (∀ x ∈ flattenAux b ms acc, Q x) ∧ acc.length ≤ (flattenAux b ms acc).length ∧
    (ms ≠ [] → flattenAux b ms acc ≠ []) := by
  induction ms, acc using flattenAux.induct b with
  | case1 acc => intro _ ha; rw [flattenAux.eq_def]; simpa using ha
  | case2 rest acc inner hb ih1 ih2 =>
    intro hm ha
    subst hb
    rw [flattenAux.eq_def]
    simp only
    have hin := hQ inner (by simpa using hm (.multi inner) (by simp))
    have h1 := ih1 hin.2 (by simp)
    have hne1 : flattenAux true inner [] ≠ [] := h1.2.2 hin.1
    have hQa : ∀ x ∈ appendNew acc (flattenAux true inner []), Q x := by
      intro x hx
      rcases appendNew_mem _ _ hx with h | h
      · exact ha x h
      · exact h1.1 x h
    have h2 := ih2 (fun x hx => hm x (by simp [hx])) hQa
    have h3 := appendNew_len_ge (flattenAux true inner []) acc
    refine ⟨h2.1, Nat.le_trans h3.1 h2.2.1, fun _ hnil => ?_⟩
    have := h2.2.1; rw [hnil] at this
    have h4 := h3.2 hne1
    simp only [List.length_nil, Nat.le_zero, List.length_eq_zero_iff] at this
    exact h4 this
  | case3 rest acc inner hb ih1 ih2 =>
    intro hm ha
    subst hb
    rw [flattenAux.eq_def]
    simp only
    have hin := hQ inner (by simpa using hm (.union inner) (by simp))
    have h1 := ih1 hin.2 (by simp)
    have hne1 : flattenAux false inner [] ≠ [] := h1.2.2 hin.1
    have hQa : ∀ x ∈ appendNew acc (flattenAux false inner []), Q x := by
      intro x hx
      rcases appendNew_mem _ _ hx with h | h
      · exact ha x h
      · exact h1.1 x h
    have h2 := ih2 (fun x hx => hm x (by simp [hx])) hQa
    have h3 := appendNew_len_ge (flattenAux false inner []) acc
    refine ⟨h2.1, Nat.le_trans h3.1 h2.2.1, fun _ hnil => ?_⟩
    have := h2.2.1; rw [hnil] at this
    have h4 := h3.2 hne1
    simp only [List.length_nil, Nat.le_zero, List.length_eq_zero_iff] at this
    exact h4 this
  | case4 rest acc m hn1 hn2 ih =>
    intro hm ha
    have e : flattenAux b (m :: rest) acc = flattenAux b rest (if M.mem m acc = true then acc else acc ++ [m]) := by
      rw [flattenAux.eq_def]
      cases b <;> cases m <;> first | rfl | (exact absurd rfl (fun h => hn1 _ h rfl)) | (exact absurd rfl (fun h => hn2 _ h rfl))
    rw [e]
    simp only [dite_eq_ite] at ih
    have hQa : ∀ x ∈ (if M.mem m acc = true then acc else acc ++ [m]), Q x := by
      intro x hx
      rcases appendOne_mem hx with h | rfl
      · exact ha x h
      · exact hm x (by simp)
    have h2 := ih (fun x hx => hm x (by simp [hx])) hQa
    have hlen : acc.length ≤ (if M.mem m acc = true then acc else acc ++ [m]).length := by split <;> simp
    have hpos : 0 < (if M.mem m acc = true then acc else acc ++ [m]).length := by
      split
      · rename_i hmem
        cases acc with
        | nil => simp [M.mem] at hmem
        | cons a l => simp
      · simp
    refine ⟨h2.1, Nat.le_trans hlen h2.2.1, fun _ hnil => ?_⟩
    have := h2.2.1; rw [hnil] at this; simp only [List.length_nil] at this; omega

theorem mkMulti_printable {ms : List M} (hne : ms ≠ []) (h : ∀ m ∈ ms, (M.toSyn m).isSome = true) :
    (M.toSyn (mkMulti ms)).isSome = true := by
  have := flattenAux_closed true (fun m => (M.toSyn m).isSome = true)
    (fun inner hq => toSynMulti_mem inner (by simpa [M.toSyn] using hq)) ms [] h (by simp)
  simp only [mkMulti, flattenMarkers, M.toSyn]
  exact toSynMulti_some _ (this.2.2 hne) this.1

theorem mkUnion_printable {ms : List M} (hne : ms ≠ []) (h : ∀ m ∈ ms, (M.toSyn m).isSome = true) :
    (M.toSyn (mkUnion ms)).isSome = true := by
  have := flattenAux_closed false (fun m => (M.toSyn m).isSome = true)
    (fun inner hq => toSynUnion_mem inner (by simpa [M.toSyn] using hq)) ms [] h (by simp)
  simp only [mkUnion, flattenMarkers, M.toSyn]
  exact toSynUnion_some _ (this.2.2 hne) this.1

theorem unwrapSingleton_printable (k : Nat) (m : M) (h : (M.toSyn m).isSome = true) :
    (M.toSyn (unwrapSingleton k m)).isSome = true := by
  induction k, m using unwrapSingleton.induct with
  | case1 m => simpa [unwrapSingleton] using h
  | case2 d x ih =>
    simp only [unwrapSingleton]
    exact ih ((toSynMulti_mem [x] (by simpa [M.toSyn] using h)).2 x (by simp))
  | case3 d x ih =>
    simp only [unwrapSingleton]
    exact ih ((toSynUnion_mem [x] (by simpa [M.toSyn] using h)).2 x (by simp))
  | case4 d m h1 h2 =>
    rw [unwrapSingleton]
    · exact h
    · exact h1
    · exact h2

theorem printable_not_any {m : M} (h : (M.toSyn m).isSome = true) : m.isAny = false ∧ m.isEmpty = false := by
  cases m <;> simp_all [M.toSyn, M.isAny, M.isEmpty]

theorem printableE_of_cnf {r : M} (hc : r.isCnf = true) (hl : M.Good Leaf.Printable r) : r.PrintableE := by
  by_cases ha : r.isAny = true
  · exact Or.inl ha
  by_cases he : r.isEmpty = true
  · exact Or.inr (Or.inl he)
  exact Or.inr (Or.inr (cnf_form_printable hc hl (by simpa using ha) (by simpa using he)))

theorem printableE_of_dnf {r : M} (hc : r.isDnf = true) (hl : M.Good Leaf.Printable r) : r.PrintableE := by
  by_cases ha : r.isAny = true
  · exact Or.inl ha
  by_cases he : r.isEmpty = true
  · exact Or.inr (Or.inl he)
  exact Or.inr (Or.inr (dnf_form_printable hc hl (by simpa using ha) (by simpa using he)))

theorem filter_printable_notAny {ms : List M} (h : ∀ m ∈ ms, (M.toSyn m).isSome = true) :
    ms.filter (fun m => !m.isAny) = ms := by
  apply List.filter_eq_self.2
  intro m hm; simp [(printable_not_any (h m hm)).1]

theorem filter_printable_notEmpty {ms : List M} (h : ∀ m ∈ ms, (M.toSyn m).isSome = true) :
    ms.filter (fun m => !m.isEmpty) = ms := by
  apply List.filter_eq_self.2
  intro m hm; simp [(printable_not_any (h m hm)).2]

/-- `intersection(*markers)` of printable markers over printable leaves is Any, Empty or printable -/
theorem intersectionF_printable (S : LeafSpec ev G) (hP : ∀ l, G l → Leaf.Printable l) {n : Nat} {stk : Stack}
    {ms : List M} {r : M} (hne : ms ≠ []) (hg : ∀ x ∈ ms, M.Good G x)
    (hp : ∀ m ∈ ms, (M.toSyn m).isSome = true) (h : intersectionF n stk ms = .ok r) : r.PrintableE := by
  rw [intersectionF.eq_def] at h
  cases n with
  | zero => cases h
  | succ n =>
    simp only at h
    by_cases hs : Stack.has stk false ms = true
    · simp [hs] at h
    · simp only [hs, if_false, Bool.false_eq_true] at h
      rw [filter_printable_notAny hp] at h
      have hUg := (unwrapSingleton_spec (ev := ev) (G := G) (ms.length + 2) _ (mkMulti_spec (ev := ev) S ms hg).1).1
      have hUp := unwrapSingleton_printable (ms.length + 2) _ (mkMulti_printable hne hp)
      generalize unwrapSingleton (ms.length + 2) (mkMulti ms) = U at h hUg hUp
      cases hd : dnf n ((false, ms) :: stk) U with
      | error e => simp [hd] at h
      | ok d =>
        simp only [hd] at h
        have hdg := (dnf_sound S hUg hd).1
        have hdP : d.PrintableE := printableE_of_dnf (dnf_isDnf hd) (M.good_mono hP d hdg)
        have hUP : U.PrintableE := Or.inr (Or.inr hUp)
        split at h
        · rename_i us
          cases hc : cnf n ((false, ms) :: stk) (M.union us) with
          | error e =>
            simp only [hc] at h
            cases e <;> simp only at h <;> first
              | exact min_pick (cs := [_, _]) (P := M.PrintableE) h
                  (by intro c hc'; simp only [List.mem_cons, List.not_mem_nil, or_false] at hc'
                      rcases hc' with rfl | rfl <;> assumption)
              | cases h
          | ok c =>
            simp only [hc] at h
            have hcg := (cnf_sound S hdg hc).1
            have hcP : c.PrintableE := printableE_of_cnf (cnf_isCnf hc) (M.good_mono hP c hcg)
            split at h
            · exact min_pick (cs := [_, _, _]) (P := M.PrintableE) h
                (by intro c' hc'; simp only [List.mem_cons, List.not_mem_nil, or_false] at hc'
                    rcases hc' with rfl | rfl | rfl <;> assumption)
            · cases h; exact hcP
        · cases h; exact hdP

theorem unionF_printable (S : LeafSpec ev G) (hP : ∀ l, G l → Leaf.Printable l) {n : Nat} {stk : Stack}
    {ms : List M} {r : M} (hne : ms ≠ []) (hg : ∀ x ∈ ms, M.Good G x)
    (hp : ∀ m ∈ ms, (M.toSyn m).isSome = true) (h : unionF n stk ms = .ok r) : r.PrintableE := by
  rw [unionF.eq_def] at h
  cases n with
  | zero => cases h
  | succ n =>
    simp only at h
    by_cases hs : Stack.has stk true ms = true
    · simp [hs] at h
    · simp only [hs, if_false, Bool.false_eq_true] at h
      rw [filter_printable_notEmpty hp] at h
      have hUg := (unwrapSingleton_spec (ev := ev) (G := G) (ms.length + 2) _ (mkUnion_spec (ev := ev) S ms hg).1).1
      have hUp := unwrapSingleton_printable (ms.length + 2) _ (mkUnion_printable hne hp)
      generalize unwrapSingleton (ms.length + 2) (mkUnion ms) = U at h hUg hUp
      cases hd : cnf n ((true, ms) :: stk) U with
      | error e => simp [hd] at h
      | ok d =>
        simp only [hd] at h
        have hdg := (cnf_sound S hUg hd).1
        have hdP : d.PrintableE := printableE_of_cnf (cnf_isCnf hd) (M.good_mono hP d hdg)
        have hUP : U.PrintableE := Or.inr (Or.inr hUp)
        split at h
        · rename_i us
          cases hc : dnf n ((true, ms) :: stk) (M.multi us) with
          | error e =>
            simp only [hc] at h
            cases e <;> simp only at h <;> first
              | exact min_pick (cs := [_, _]) (P := M.PrintableE) h
                  (by intro c hc'; simp only [List.mem_cons, List.not_mem_nil, or_false] at hc'
                      rcases hc' with rfl | rfl <;> assumption)
              | cases h
          | ok c =>
            simp only [hc] at h
            have hcg := (dnf_sound S hdg hc).1
            have hcP : c.PrintableE := printableE_of_dnf (dnf_isDnf hc) (M.good_mono hP c hcg)
            split at h
            · exact min_pick (cs := [_, _, _]) (P := M.PrintableE) h
                (by intro c' hc'; simp only [List.mem_cons, List.not_mem_nil, or_false] at hc'
                    rcases hc' with rfl | rfl | rfl <;> assumption)
            · cases h; exact hcP
        · cases h; exact hdP

/-- **`a.intersect(b)` of printable markers is Any, Empty or printable** — every fuel, every stack -/
theorem mIntersect_printable (S : LeafSpec ev G) (hP : ∀ l, G l → Leaf.Printable l) :
    ∀ (n : Nat) (stk : Stack) (a b r : M), M.Good G a → M.Good G b → (M.toSyn a).isSome = true →
    (M.toSyn b).isSome = true → mIntersect n stk a b = .ok r → r.PrintableE := by
  intro n
  induction n with
  | zero => intro stk a b r _ _ _ _ h; rw [mIntersect.eq_def] at h; cases h
  | succ n ih =>
    intro stk a b r ha hb pa pb h
    have hfin : ∀ x, x ∈ [a, b] → M.Good G x := by
      intro x hx; simp at hx; rcases hx with rfl | rfl <;> assumption
    have hfinp : ∀ x, x ∈ [a, b] → (M.toSyn x).isSome = true := by
      intro x hx; simp at hx; rcases hx with rfl | rfl <;> assumption
    rw [mIntersect.eq_def] at h
    simp only at h
    cases a with
    | any => simp [M.toSyn] at pa
    | empty => simp [M.toSyn] at pa
    | leaf la =>
      cases b with
      | leaf lb =>
        simp only at h
        obtain ⟨o, h1, h2⟩ := bind_ok.1 h
        cases o with
        | some x =>
          rw [pure_ok] at h2; subst h2
          have hs := mergeLeaves_shape la lb true x h1
          have hgx := (S.merge la lb true x (by simpa using ha) (by simpa using hb) h1).1
          cases x with
          | any => exact Or.inl rfl
          | empty => exact Or.inr (Or.inl rfl)
          | leaf l => exact Or.inr (Or.inr (by simpa [M.toSyn, Leaf.Printable] using hP l (by simpa using hgx)))
          | multi _ => simp [M.isLitE] at hs
          | union _ => simp [M.isLitE] at hs
        | none =>
          rw [pure_ok] at h2; subst h2
          exact Or.inr (Or.inr (mkMulti_printable (by simp) hfinp))
      | any => simp [M.toSyn] at pb
      | empty => simp [M.toSyn] at pb
      | multi _ => exact ih stk _ _ r hb ha pb pa h
      | union _ => exact ih stk _ _ r hb ha pb pa h
    | multi ms => exact intersectionF_printable S hP (by simp) hfin hfinp h
    | union ms => exact intersectionF_printable S hP (by simp) hfin hfinp h

theorem mUnion_printable (S : LeafSpec ev G) (hP : ∀ l, G l → Leaf.Printable l) :
    ∀ (n : Nat) (stk : Stack) (a b r : M), M.Good G a → M.Good G b → (M.toSyn a).isSome = true →
    (M.toSyn b).isSome = true → mUnion n stk a b = .ok r → r.PrintableE := by
  intro n
  induction n with
  | zero => intro stk a b r _ _ _ _ h; rw [mUnion.eq_def] at h; cases h
  | succ n ih =>
    intro stk a b r ha hb pa pb h
    have hfin : ∀ x, x ∈ [a, b] → M.Good G x := by
      intro x hx; simp at hx; rcases hx with rfl | rfl <;> assumption
    have hfinp : ∀ x, x ∈ [a, b] → (M.toSyn x).isSome = true := by
      intro x hx; simp at hx; rcases hx with rfl | rfl <;> assumption
    rw [mUnion.eq_def] at h
    simp only at h
    cases a with
    | any => simp [M.toSyn] at pa
    | empty => simp [M.toSyn] at pa
    | leaf la =>
      cases b with
      | leaf lb =>
        simp only at h
        obtain ⟨o, h1, h2⟩ := bind_ok.1 h
        cases o with
        | some x =>
          rw [pure_ok] at h2; subst h2
          have hs := mergeLeaves_shape la lb false x h1
          have hgx := (S.merge la lb false x (by simpa using ha) (by simpa using hb) h1).1
          cases x with
          | any => exact Or.inl rfl
          | empty => exact Or.inr (Or.inl rfl)
          | leaf l => exact Or.inr (Or.inr (by simpa [M.toSyn, Leaf.Printable] using hP l (by simpa using hgx)))
          | multi _ => simp [M.isLitE] at hs
          | union _ => simp [M.isLitE] at hs
        | none =>
          rw [pure_ok] at h2; subst h2
          exact Or.inr (Or.inr (mkUnion_printable (by simp) hfinp))
      | any => simp [M.toSyn] at pb
      | empty => simp [M.toSyn] at pb
      | multi _ => exact ih stk _ _ r hb ha pb pa h
      | union _ => exact ih stk _ _ r hb ha pb pa h
    | multi ms => exact unionF_printable S hP (by simp) hfin hfinp h
    | union ms => exact unionF_printable S hP (by simp) hfin hfinp h

end Poetry.Marker
