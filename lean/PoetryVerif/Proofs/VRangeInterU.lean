/-
Intersection at union level in the regular setting (bounds mutually regular, not local): the parts collected by
the merge walk are again regular members, so `VersionUnion.of` accepts them and the result is a well-formed
constraint (helper lemmas for C05, C06).
-/
import PoetryVerif.Proofs.VRangeSepV

set_option linter.unusedSimpArgs false
set_option linter.unusedVariables false

namespace Poetry
open Version

namespace VRange

theorem interFinish_rng {imn imx : Option Version} {iimn iimx : Bool} {r : VRange}
    (h : interFinish imn iimn imx iimx = .ok (.single (.rng r))) :
    r = VRange.any ∨ (r = ⟨imn, imx, iimn, iimx⟩ ∧ optVerEq imn imx = false) := by
  unfold interFinish at h
  split at h
  · simp at h; exact Or.inl h.symm
  · split at h
    · split at h
      · split at h <;> simp at h
      · simp at h
    · rename_i hne
      simp at h
      exact Or.inr ⟨h.symm, by simpa using hne⟩

theorem any_Tidy_NE : VRange.any.Tidy ∧ VRange.any.NE :=
  ⟨⟨fun _ => rfl, fun _ => rfl⟩, by simp [NE, isStrictlyLower, any, allowedMax]⟩

/-- a range assembled from the lower end of `L` and the upper end of `H`, when `H`'s top is not strictly below
`L`'s bottom -/
theorem ends_Tidy_NE (L H : VRange) (hL : L.Tidy) (hH : H.Tidy) (hHp : H.Proper)
    (hne : optVerEq L.min H.max = false) (hsl : H.isStrictlyLower L = false) :
    (⟨L.min, H.max, L.imin, H.imax⟩ : VRange).Tidy ∧ (⟨L.min, H.max, L.imin, H.imax⟩ : VRange).NE := by
  refine ⟨⟨fun h => hL.1 h, fun h => hH.2 h⟩, ?_⟩
  unfold NE
  have hA : (⟨L.min, H.max, L.imin, H.imax⟩ : VRange).allowedMax = H.allowedMax := by
    cases hM : H.max with
    | none => rw [allowedMax_none hM, allowedMax_none (by simp [hM])]
    | some M =>
      rw [allowedMax_eq_of_lt (r := ⟨L.min, some M, L.imin, H.imax⟩) (M := M) rfl (by
          intro m hm
          simp at hm
          rw [hm, hM] at hne
          simp only [optVerEq] at hne
          exact (eqv_false_iff _ _).1 hne),
        allowedMax_eq_of_lt hM (fun m hm => ne_of_lt (hHp m M hm hM))]
  rw [sl_congr_left (b := H) hA rfl]
  have : MinEq (⟨L.min, H.max, L.imin, H.imax⟩ : VRange) L := ⟨(MinEq.refl L).1, rfl⟩
  rw [sl_congr this]
  exact hsl

/-- **range ∩ range, when it is a range, is tidy and inhabited** -/
theorem intersect_rng_Tidy_NE (a b : VRange) (ha : a.WF) (hb : b.WF) (hta : a.Tidy) (htb : b.Tidy)
    (hna : a.NE) (hnb : b.NE) (r : VRange) (h : RC.rngIntersectRng a b = .ok (.single (.rng r))) :
    r.Tidy ∧ r.NE := by
  rw [rngIntersectRng_eq] at h
  have fin : ∀ (L H : VRange), L.Tidy → H.Tidy → H.Proper → H.isStrictlyLower L = false →
      interFinish L.min L.imin H.max H.imax = .ok (.single (.rng r)) → r.Tidy ∧ r.NE := by
    intro L H hL hH hHp hsl hf
    rcases interFinish_rng hf with rfl | ⟨rfl, hne⟩
    · exact any_Tidy_NE
    · exact ends_Tidy_NE L H hL hH hHp hne hsl
  by_cases h1 : a.allowsLower b = true
  · simp only [h1, if_true] at h
    by_cases h2 : a.isStrictlyLower b = true
    · simp [h2] at h
    · simp only [h2, Bool.false_eq_true, if_false] at h
      simp only [Bool.not_eq_true] at h2
      by_cases h3 : a.allowsHigher b = true
      · simp only [h3, if_true] at h
        exact fin b b htb htb hb.2 hnb h
      · simp only [h3, Bool.false_eq_true, if_false] at h
        exact fin b a htb hta ha.2 h2 h
  · simp only [h1, Bool.false_eq_true, if_false] at h
    by_cases h2 : b.isStrictlyLower a = true
    · simp [h2] at h
    · simp only [h2, Bool.false_eq_true, if_false] at h
      simp only [Bool.not_eq_true] at h2
      by_cases h3 : a.allowsHigher b = true
      · simp only [h3, if_true] at h
        exact fin a b hta htb hb.2 h2 h
      · simp only [h3, Bool.false_eq_true, if_false] at h
        exact fin a a hta hta ha.2 hna h

end VRange

/-- **a member-level intersection of regular members consists of regular members** -/
theorem RC.intersect_reg {B : List Version} (hB : RegB B) (a b : RC) (ha : RegMember B a) (hb : RegMember B b)
    (i : VC) (h : RC.intersect a b = .ok i) : ∀ c ∈ i.flatten, RegMember B c := by
  have hnl : ∀ r x, (a = .rng r ∧ b = .ver x) ∨ (a = .ver x ∧ b = .rng r) → ¬ RC.LocalMinCase r x := by
    rintro r x hx ⟨_, m, hm, hloc, _⟩
    have : m ∈ B := by
      rcases hx with ⟨h1, _⟩ | ⟨_, h1⟩
      · exact ha.2.2.2 m (by rw [h1]; exact VRange.mem_bounds_min hm)
      · exact hb.2.2.2 m (by rw [h1]; exact VRange.mem_bounds_min hm)
    rw [hB.noloc m this] at hloc; cases hloc
  obtain ⟨s1, s2, s3⟩ := RC.intersect_struct a b ha.1 hb.1 hnl i h
  intro c hc
  have hcb : ∀ e ∈ c.bounds, e ∈ B := by
    intro e he
    have : e ∈ i.bounds := by
      rw [VC.bounds_eq_flatMap]; exact List.mem_flatMap.2 ⟨c, hc, he⟩
    rcases s3 e this with h1 | h1
    · exact ha.2.2.2 e h1
    · exact hb.2.2.2 e h1
  cases c with
  | ver x => exact ⟨s2 _ hc, trivial, trivial, hcb⟩
  | rng r =>
    -- a range can only come from range ∩ range
    have hi : i = .single (.rng r) := by
      cases i with
      | empty => simp [VC.flatten] at hc
      | union ds => exact absurd s1 (by simp [VC.notUnion])
      | single x => simp [VC.flatten] at hc; rw [hc]
    subst hi
    cases a with
    | ver x =>
      cases b with
      | ver y =>
        simp only [RC.intersect, RC.verIntersectVer, Except.ok.injEq] at h
        split at h
        · cases h
        · split at h <;> cases h
      | rng s =>
        simp only [RC.intersect, RC.rngIntersectVer, Except.ok.injEq] at h
        split at h
        · cases h
        · exfalso
          cases hm : s.min with
          | none => simp [hm] at h
          | some m =>
            have : m.isLocal = false := hB.noloc m (hb.2.2.2 m (VRange.mem_bounds_min hm))
            simp [hm, this] at h
    | rng s =>
      cases b with
      | ver y =>
        simp only [RC.intersect, RC.rngIntersectVer, Except.ok.injEq] at h
        split at h
        · cases h
        · exfalso
          cases hm : s.min with
          | none => simp [hm] at h
          | some m =>
            have : m.isLocal = false := hB.noloc m (ha.2.2.2 m (VRange.mem_bounds_min hm))
            simp [hm, this] at h
      | rng t =>
        have := VRange.intersect_rng_Tidy_NE s t ha.1 hb.1 ha.2.1 hb.2.1 ha.2.2.1 hb.2.2.1 r h
        exact ⟨s2 _ hc, this.1, this.2, hcb⟩

/-- every part the intersection walk collects consists of regular members -/
theorem unionIntersectLoop_parts {B : List Version} (hB : RegB B) : ∀ (fuel : Nat) (ours theirs : List RC)
    (acc parts : List VC), VC.unionIntersectLoop fuel ours theirs acc = .ok parts →
    (∀ c ∈ ours, RegMember B c) → (∀ c ∈ theirs, RegMember B c) →
    (∀ q ∈ acc, ∀ c ∈ q.flatten, RegMember B c) → ∀ q ∈ parts, ∀ c ∈ q.flatten, RegMember B c
  | 0, _, _, _, _, h, _, _, _ => by simp [VC.unionIntersectLoop] at h
  | fuel + 1, [], theirs, acc, parts, h, _, _, ha => by
    simp only [VC.unionIntersectLoop, Except.ok.injEq] at h; subst h; exact ha
  | fuel + 1, o :: os, [], acc, parts, h, _, _, ha => by
    simp only [VC.unionIntersectLoop, Except.ok.injEq] at h; subst h; exact ha
  | fuel + 1, o :: os, t :: ts, acc, parts, h, ho, ht, ha => by
    simp only [VC.unionIntersectLoop, bind, Except.bind] at h
    cases hi : RC.intersect o t with
    | error e => simp [hi] at h
    | ok i =>
      simp only [hi] at h
      have hireg := RC.intersect_reg hB o t (ho o (by simp)) (ht t (by simp)) i hi
      have ha' : ∀ q ∈ (if i.isEmpty = true then acc else acc ++ [i]), ∀ c ∈ q.flatten, RegMember B c := by
        intro q hq
        split at hq
        · exact ha q hq
        · simp only [List.mem_append, List.mem_singleton] at hq
          rcases hq with h1 | rfl
          · exact ha q h1
          · exact hireg
      split at h
      · exact unionIntersectLoop_parts hB fuel os (t :: ts) _ parts h (fun c hc => ho c (by simp [hc])) ht ha'
      · exact unionIntersectLoop_parts hB fuel (o :: os) ts _ parts h ho (fun c hc => ht c (by simp [hc])) ha'

/-- every bound of a collected part is a bound of an operand -/
theorem unionIntersectLoop_bounds (S : List Version) : ∀ (fuel : Nat) (ours theirs : List RC) (acc parts : List VC),
    VC.unionIntersectLoop fuel ours theirs acc = .ok parts →
    (∀ c ∈ ours, c.WF) → (∀ c ∈ theirs, c.WF) → RC.NoLocalMin ours theirs →
    (∀ e, (e ∈ boundsOf ours ∨ e ∈ boundsOf theirs) → e ∈ S) →
    (∀ q ∈ acc, ∀ e ∈ q.bounds, e ∈ S) → ∀ q ∈ parts, ∀ e ∈ q.bounds, e ∈ S
  | 0, _, _, _, _, h, _, _, _, _, _ => by simp [VC.unionIntersectLoop] at h
  | fuel + 1, [], theirs, acc, parts, h, _, _, _, _, ha => by
    simp only [VC.unionIntersectLoop, Except.ok.injEq] at h; subst h; exact ha
  | fuel + 1, o :: os, [], acc, parts, h, _, _, _, _, ha => by
    simp only [VC.unionIntersectLoop, Except.ok.injEq] at h; subst h; exact ha
  | fuel + 1, o :: os, t :: ts, acc, parts, h, ho, ht, hnl, hS, ha => by
    simp only [VC.unionIntersectLoop, bind, Except.bind] at h
    cases hi : RC.intersect o t with
    | error e => simp [hi] at h
    | ok i =>
      simp only [hi] at h
      obtain ⟨_, _, s3⟩ := RC.intersect_struct o t (ho o (by simp)) (ht t (by simp))
        (hnl o (by simp) t (by simp)) i hi
      have hib : ∀ e ∈ i.bounds, e ∈ S := by
        intro e he
        rcases s3 e he with h1 | h1
        · exact hS e (Or.inl (by simp only [boundsOf, List.flatMap_cons, List.mem_append]; exact Or.inl h1))
        · exact hS e (Or.inr (by simp only [boundsOf, List.flatMap_cons, List.mem_append]; exact Or.inl h1))
      have ha' : ∀ q ∈ (if i.isEmpty = true then acc else acc ++ [i]), ∀ e ∈ q.bounds, e ∈ S := by
        intro q hq
        split at hq
        · exact ha q hq
        · simp only [List.mem_append, List.mem_singleton] at hq
          rcases hq with h1 | rfl
          · exact ha q h1
          · exact hib
      split at h
      · exact unionIntersectLoop_bounds S fuel os (t :: ts) _ parts h (fun c hc => ho c (by simp [hc])) ht
          (fun a ha1 b hb1 => hnl a (by simp [ha1]) b hb1)
          (fun e he => hS e (by
            rcases he with h1 | h1
            · exact Or.inl (by simp only [boundsOf, List.flatMap_cons, List.mem_append]; exact Or.inr h1)
            · exact Or.inr h1)) ha'
      · exact unionIntersectLoop_bounds S fuel (o :: os) ts _ parts h ho (fun c hc => ht c (by simp [hc]))
          (fun a ha1 b hb1 => hnl a ha1 b (by simp [hb1]))
          (fun e he => hS e (by
            rcases he with h1 | h1
            · exact Or.inl h1
            · exact Or.inr (by simp only [boundsOf, List.flatMap_cons, List.mem_append]; exact Or.inr h1))) ha'

theorem noLocalMin_of_reg {B : List Version} (hB : RegB B) (ours theirs : List RC)
    (ho : ∀ c ∈ ours, RegMember B c) (ht : ∀ c ∈ theirs, RegMember B c) : RC.NoLocalMin ours theirs := by
  rintro o hoo t htt r x hx ⟨_, m, hm, hloc, _⟩
  have : m ∈ B := by
    rcases hx with ⟨h1, _⟩ | ⟨_, h1⟩
    · exact (ho o hoo).2.2.2 m (by rw [h1]; exact VRange.mem_bounds_min hm)
    · exact (ht t htt).2.2.2 m (by rw [h1]; exact VRange.mem_bounds_min hm)
  rw [hB.noloc m this] at hloc; cases hloc

/-- **union ∩ constraint in the regular setting**: defined; the result is a well-formed constraint over regular
members (so the theorem applies again to it), and it admits a regular probe iff both operands do -/
theorem union_intersect_reg {B : List Version} (hB : RegB B) (rs : List RC) (b : VC)
    (ho : ∀ c ∈ rs, RegMember B c) (ht : ∀ c ∈ b.flatten, RegMember B c)
    (hso : SortedRC rs) (hst : SortedRC b.flatten) :
    ∃ res, VC.intersect (.union rs) b = .ok res ∧ res.WF ∧ (∀ c ∈ res.flatten, RegMember B c) ∧
      ∀ p, p.wf = true → Regular (boundsOf rs ++ boundsOf b.flatten) p →
        res.allowsPlain p = (anyAllows rs p && anyAllows b.flatten p) := by
  obtain ⟨parts, hl, hsem⟩ := unionIntersectLoop_sem (rs.length + b.flatten.length + 1) rs b.flatten []
    (by omega) (fun c hc => (ho c hc).1) (fun c hc => (ht c hc).1) hso hst (noLocalMin_of_reg hB rs b.flatten ho ht)
  have hparts := unionIntersectLoop_parts hB _ rs b.flatten [] parts hl ho ht (by simp)
  have hflat : ∀ c ∈ parts.flatMap VC.flatten, RegMember B c := by
    intro c hc
    obtain ⟨q, hq, hcq⟩ := List.mem_flatMap.1 hc
    exact hparts q hq c hcq
  obtain ⟨res, hres, hwf, hmem, hex⟩ := unionOfFlat_reg hB (parts.flatMap VC.flatten) hflat
  refine ⟨res, by simp only [VC.intersect, hl, bind, Except.bind, VC.unionOf]; exact hres, hwf, hmem, ?_⟩
  intro p hp hreg
  have hsub : ∀ e ∈ boundsOf (parts.flatMap VC.flatten), e ∈ B := by
    intro e he
    simp only [boundsOf, List.mem_flatMap] at he
    obtain ⟨c, hc, hce⟩ := he
    exact (hflat c (List.mem_flatMap.2 hc)).2.2.2 e hce
  -- regularity for the parts' bounds: they are among the operands' bounds? use `B`-regularity instead
  have hregB : Regular (boundsOf (parts.flatMap VC.flatten)) p := by
    -- every bound of a part is a bound of an operand (member-level intersections mention operands' bounds only)
    intro e he
    have hE : e ∈ boundsOf rs ++ boundsOf b.flatten := by
      simp only [boundsOf, List.mem_flatMap] at he
      obtain ⟨c, ⟨q, hq, hcq⟩, hce⟩ := he
      exact unionIntersectLoop_bounds (boundsOf rs ++ boundsOf b.flatten) _ rs b.flatten [] parts hl
        (fun c hc => (ho c hc).1) (fun c hc => (ht c hc).1)
        (noLocalMin_of_reg hB rs b.flatten ho ht) (by intro e he; simpa using he) (by simp) q hq e (by
          rw [VC.bounds_eq_flatMap]; exact List.mem_flatMap.2 ⟨c, hcq, hce⟩)
    exact hreg e hE
  rw [hex p hp hregB]
  apply bool_eq_of_iff
  have e1 : anyAllows (parts.flatMap VC.flatten) p = true ↔ anyPart parts p := by
    simp only [anyAllows, anyPart, VC.allowsPlain, List.any_eq_true, List.mem_flatMap]
    constructor
    · rintro ⟨c, ⟨q, hq, hc⟩, hcp⟩; exact ⟨q, hq, c, hc, hcp⟩
    · rintro ⟨q, hq, c, hc, hcp⟩; exact ⟨c, ⟨q, hq, hc⟩, hcp⟩
  rw [e1, hsem p hp hreg, Bool.and_eq_true]
  simp [anyPart]

theorem VC.intersect_single_union (a : RC) (rs : List RC) :
    VC.intersect (.single a) (.union rs) = VC.intersect (.union rs) (.single a) := rfl

theorem SortedRC_flatten_of_WF (c : VC) (h : c.WF) : SortedRC c.flatten := by
  cases c with
  | empty => simp [SortedRC, VC.flatten]
  | single x => simp [SortedRC, VC.flatten]
  | union ts => exact h.2.2.1

/-- **`a.intersect(b)` for any two well-formed constraints over regular members**: defined, the result is again a
well-formed constraint over regular members, and it admits a regular probe iff both operands do -/
theorem VC.intersect_reg {B : List Version} (hB : RegB B) (a b : VC) (ha : a.WF) (hb : b.WF)
    (hma : ∀ c ∈ a.flatten, RegMember B c) (hmb : ∀ c ∈ b.flatten, RegMember B c) :
    ∃ res, VC.intersect a b = .ok res ∧ res.WF ∧ (∀ c ∈ res.flatten, RegMember B c) ∧
      ∀ p, p.wf = true → Regular (boundsOf a.flatten ++ boundsOf b.flatten) p →
        res.allowsPlain p = (a.allowsPlain p && b.allowsPlain p) := by
  cases a with
  | empty =>
    exact ⟨.empty, rfl, trivial, by simp [VC.flatten], fun p _ _ => by simp [VC.allowsPlain, VC.flatten]⟩
  | union rs => exact union_intersect_reg hB rs b hma hmb ha.2.2.1 (SortedRC_flatten_of_WF b hb)
  | single x =>
    have hx := hma x (by simp [VC.flatten])
    cases b with
    | empty =>
      exact ⟨.empty, rfl, trivial, by simp [VC.flatten], fun p _ _ => by simp [VC.allowsPlain, VC.flatten]⟩
    | union ts =>
      rw [VC.intersect_single_union]
      obtain ⟨res, h1, h2, h3, h4⟩ := union_intersect_reg hB ts (.single x) hmb hma hb.2.2.1
        (by simp [SortedRC, VC.flatten])
      refine ⟨res, h1, h2, h3, fun p hp hreg => ?_⟩
      rw [h4 p hp (hreg.mono (by intro e he; simp only [List.mem_append] at he ⊢; exact he.symm)), Bool.and_comm]
      rfl
    | single y =>
      have hy := hmb y (by simp [VC.flatten])
      have hnl : ∀ r v, (x = .rng r ∧ y = .ver v) ∨ (x = .ver v ∧ y = .rng r) → ¬ RC.LocalMinCase r v := by
        rintro r v hx' ⟨_, m, hm, hloc, _⟩
        have : m ∈ B := by
          rcases hx' with ⟨h1, _⟩ | ⟨_, h1⟩
          · exact hx.2.2.2 m (by rw [h1]; exact VRange.mem_bounds_min hm)
          · exact hy.2.2.2 m (by rw [h1]; exact VRange.mem_bounds_min hm)
        rw [hB.noloc m this] at hloc; cases hloc
      obtain ⟨i, hi, hex⟩ := RC.intersect_plain x y hx.1 hy.1 hnl
      have hreg := RC.intersect_reg hB x y hx hy i hi
      have hnu := RC.intersect_notUnion x y i hi
      refine ⟨i, hi, ?_, hreg, fun p hp hr => ?_⟩
      · cases i with
        | empty => trivial
        | single c => exact ⟨(hreg c (by simp [VC.flatten])).1, (hreg c (by simp [VC.flatten])).2.2.1⟩
        | union ds => exact absurd hnu (by simp [VC.notUnion])
      · rw [hex p hp (hr.mono (by
          intro e he
          simpa [boundsOf, VC.flatten] using he))]
        simp [VC.allowsPlain, VC.flatten]

end Poetry
