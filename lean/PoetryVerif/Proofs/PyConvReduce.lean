/-
The hypotheses of `reduce_exact` (C17) that come from C11, discharged for poetry's own leaf truth: `ReduceCtx`
for `leafEval E`, the invariant `CompLeaf E` and python leaves of the exact shape (helper lemmas for C17).
-/
import PoetryVerif.Proofs.MarkerProjReduce
import PoetryVerif.Proofs.PyConvLeaf
import PoetryVerif.Proofs.PyConvAllows

set_option linter.unusedSimpArgs false
set_option linter.unusedVariables false

namespace Poetry.Marker
open Poetry Poetry.Spec.Pep508

theorem convKey_of_isPyName {n : String} (h : isPyName n = true) : convKey n = pyKey := by
  have : n = "python_full_version" ∨ n = "python_version" := by
    simpa [isPyName, Gen.pythonVersionMarkers] using h
  rcases this with rfl | rfl <;> decide

/-- **`ReduceCtx` for poetry's own evaluation**: what C11 and C12 contribute is discharged — `pyConstraint_exact`
for the python leaves of the input (`leafClause_of_comp`, results in C05's regular setting by `ItemShape`),
`createNested_exact` through `parse_marker` (`createNested_poetry`), canonical names, and C12's two answers at the
probe for constraints of the regular setting (`allowsAll_py`, `allowsAny_py`).  What remains: the leaf specification
`S`, that the project's range is a well-formed constraint (`hpcok`, true of what `parse_constraint`
returns), and `pyConstraint_exact` for the python-only sub-unions the `MarkerUnion` shortcut builds (`hlow`). -/
theorem reduceCtx_poetry (E : Env) (X Y Z : Nat) (hE : EnvPy E X Y Z) (S : LeafSpec (leafEval E) (CompLeaf E))
    (pc : VC) (hd : PyDomVC pc = true) (hpcok : PyVCok pc)
    (hpc : pc.allowsPlain (pyV X Y Z) = true)
    (hlow : ∀ (u : M) (g : VC), M.Good (CompLeaf E) u → (∀ n ∈ M.vars u, n ∈ pyNames) → gpc u = .ok g →
      PyVCok g ∧ (g.allowsPlain (pyV X Y Z) = true → M.sem (leafEval E) u = true)) :
    ReduceCtx (leafEval E) (CompLeaf E) PyShaped PyVCok pc (pyV X Y Z) where
  spec := S
  canon := fun l hl => by obtain ⟨_, _, _, _, hc⟩ := hl; exact hc
  gpcLeaf_exact := fun l c hg hp hn hgl => by
    obtain ⟨s, item, rfl, hop, hitem, ⟨vc, hvc, hb⟩, hshape⟩ :=
      leafClause_of_comp E X Y Z hE l hg hp (convKey_of_isPyName hn)
    rw [gpcLeaf_single s item hn hop hitem, hvc] at hgl
    injection hgl with hgl; subst hgl
    refine ⟨?_, hb⟩
    obtain ⟨hok, hstar, vc', hp', hvc'⟩ := hshape
    have hne : item ≠ "*" := by intro e; apply hstar; rw [e]; rfl
    rw [VParser.parseMarkerVersionConstraint, parseConstraintAux_single item true hok.nosep hne, hp'] at hvc
    injection hvc with hvc; subst hvc; exact hvc'
  gpc_lower := hlow
  allowsAll_sound := fun c hw h => allowsAll_py c pc hw hpcok X Y Z h hpc
  allowsAny_sound := fun c hw h hcp => allowsAny_py c pc hw hpcok X Y Z h ⟨hcp, hpc⟩
  nested_true := fun txt pm ht hm => by
    have := createNested_poetry E S pc hd X Y Z hE txt pm ht hm
    exact ⟨this.1, by rw [this.2.1, hpc]⟩

end Poetry.Marker
