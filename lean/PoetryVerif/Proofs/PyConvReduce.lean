/-
The hypotheses of `reduce_exact` (C17) that come from C11, discharged for poetry's own leaf truth: `ReduceCtx`
for `leafEval E`, the invariant `CompLeaf E` and python leaves of the exact shape (helper lemmas for C17).
-/
import PoetryVerif.Proofs.MarkerProjReduce
import PoetryVerif.Proofs.PyConvLeaf

set_option linter.unusedSimpArgs false
set_option linter.unusedVariables false

namespace Poetry.Marker
open Poetry Poetry.Spec.Pep508

theorem convKey_of_isPyName {n : String} (h : isPyName n = true) : convKey n = pyKey := by
  have : n = "python_full_version" ∨ n = "python_version" := by
    simpa [isPyName, Gen.pythonVersionMarkers] using h
  rcases this with rfl | rfl <;> decide

/-- C12's two answers at the probe, as `reduce_by_python_constraint` uses them: a yes of `allows_all` and a no of
`allows_any` against the project's Python range `pc` are sound at the interpreter `py` that `pc` admits -/
def AllowsSound (pc : VC) (py : Version) : Prop :=
  (∀ c : VC, c.allowsAll pc = .ok true → c.allowsPlain py = true) ∧
  (∀ c : VC, c.allowsAny pc = .ok false → c.allowsPlain py = true → False)

/-- **`ReduceCtx` for poetry's own evaluation**: what C11 contributes is discharged — `pyConstraint_exact` for the
python leaves of the input (`leafClause_of_comp`), `createNested_exact` through `parse_marker`
(`createNested_poetry`), canonical names.  What remains: the leaf specification `S`, `ReparseNames`, C12's two
answers at the probe (`AllowsSound`), and `pyConstraint_exact` for the python-only sub-unions the `MarkerUnion`
shortcut builds (`hlow`). -/
theorem reduceCtx_poetry (E : Env) (X Y Z : Nat) (hE : EnvPy E X Y Z) (S : LeafSpec (leafEval E) (CompLeaf E))
    (HR : ReparseNames) (pc : VC) (hd : PyDomVC pc = true) (hpc : pc.allowsPlain (pyV X Y Z) = true)
    (hAS : AllowsSound pc (pyV X Y Z))
    (hlow : ∀ (u : M) (g : VC), M.Good (CompLeaf E) u → (∀ n ∈ M.vars u, n ∈ pyNames) → gpc u = .ok g →
      g.allowsPlain (pyV X Y Z) = true → M.sem (leafEval E) u = true) :
    ReduceCtx (leafEval E) (CompLeaf E) PyShaped pc (pyV X Y Z) where
  spec := S
  canon := fun l hl => by obtain ⟨_, _, _, _, hc⟩ := hl; exact hc
  reparse := HR
  gpcLeaf_exact := fun l c hg hp hn hgl => by
    obtain ⟨s, item, rfl, hop, hitem, ⟨vc, hvc, hb⟩, _⟩ :=
      leafClause_of_comp E X Y Z hE l hg hp (convKey_of_isPyName hn)
    rw [gpcLeaf_single s item hn hop hitem, hvc] at hgl
    injection hgl with hgl; subst hgl
    exact hb
  gpc_lower := hlow
  allowsAll_sound := hAS.1
  allowsAny_sound := hAS.2
  nested_true := fun txt pm ht hm => by
    have := createNested_poetry E S pc hd X Y Z hE txt pm ht hm
    exact ⟨this.1, by rw [this.2.1, hpc]⟩

end Poetry.Marker
