/-
Helper lemmas for C19 (requirement / dependency part): which error values `Req.parse`
(`Requirement.__init__`) and `Dep.createFromPep508` (`Dependency.create_from_pep_508`) can return, as a
decomposition over the parsers analysed elsewhere (version constraints, marker leaves) and the parts not
analysed (the marker simplifier, `convert_markers`).
-/
import PoetryVerif.Proofs.ParserTotalGM
import PoetryVerif.Model.Dep

set_option linter.unusedSimpArgs false
set_option linter.unusedVariables false

namespace Poetry.ParserTotal
open Poetry Marker Req Dep

/-! ## `Requirement.__init__` -/

theorem urlsplit_err (u : String) (e : PyErr) (h : urlsplit u = .error e) : e = .unmodelled := by
  unfold urlsplit at h
  split at h
  · cases h
  · cases h; rfl

theorem checkUrl_err (u : String) (e : PyErr) (h : checkUrl u = .error e) : e = .value ∨ e = .unmodelled := by
  unfold checkUrl at h
  cases hs : urlsplit u with
  | error e' =>
    simp only [hs, bind, Except.bind] at h
    cases h
    exact .inr (urlsplit_err _ _ hs)
  | ok su =>
    simp only [hs, bind, Except.bind, pure, Except.pure] at h
    repeat' split at h
    all_goals first
      | (cases h; done)
      | (cases h; exact .inl rfl)

theorem vc_star : VParser.parseConstraint "*" = .ok VC.any := by
  simp [VParser.parseConstraint, VParser.parseConstraintAux]

/-- the error is raised by the simplifier `union(*sub_markers)` on raw sub-markers -/
def SimpErr (e : PyErr) : Prop :=
  ∃ subs, (∀ m ∈ subs, RawM m = true) ∧ unionF defaultFuel [] subs = .error e

theorem compactTop_err (hvc : VCErrDocumented) (syn : Syn) (e : PyErr) (h : compactTop syn = .error e) :
    LeafErr e ∨ SimpErr e := by
  unfold compactTop at h
  cases hc : compactSubMarkers syn with
  | error e' =>
    simp only [hc, bind, Except.bind] at h
    cases h
    exact .inl (compactSubMarkers_err hvc syn _ hc)
  | ok subs =>
    simp only [hc, bind, Except.bind] at h
    exact .inr ⟨subs, compactSubMarkers_raw syn subs hc, h⟩

theorem bind_err {α β : Type} (x : PyM α) (f : α → PyM β) (e : PyErr) (h : (x >>= f) = .error e) :
    x = .error e ∨ ∃ a, x = .ok a ∧ f a = .error e := by
  cases x with
  | error e' => left; simpa [bind, Except.bind] using h
  | ok a => right; exact ⟨a, rfl, by simpa [bind, Except.bind] using h⟩

theorem bind_ok {α β : Type} (x : PyM α) (f : α → PyM β) (b : β) (h : (x >>= f) = .ok b) :
    ∃ a, x = .ok a ∧ f a = .ok b := by
  cases x with
  | error e' => simp [bind, Except.bind] at h
  | ok a => exact ⟨a, rfl, by simpa [bind, Except.bind] using h⟩

/-- `Requirement.__init__` after the URL check -/
def ofRawRest (raw : Raw) : PyM Requirement := do
  let c ← (match VParser.parseConstraint (constraintTextOf raw.specs) with
    | .ok c => .ok c
    | .error e => .error e)
  let m ← (match raw.marker with
    | some syn => (compactTop syn).map some
    | none => pure none)
  pure { name := raw.name, url := raw.url, extras := raw.extras,
         constraintText := constraintTextOf raw.specs, constraint := c, marker := m }

theorem ofRaw_eq (raw : Raw) :
    ofRaw raw = (match raw.url with | some u => checkUrl u | none => pure ()) >>= fun _ => ofRawRest raw := by
  unfold ofRaw ofRawRest
  cases raw.url <;> rfl

theorem ofRawRest_err' (raw : Raw) (e : PyErr) (h : ofRawRest raw = .error e) :
    VParser.parseConstraint (constraintTextOf raw.specs) = .error e ∨
    ∃ syn, raw.marker = some syn ∧ compactTop syn = .error e := by
  unfold ofRawRest at h
  rcases bind_err _ _ _ h with h1 | ⟨c, _, h⟩
  · left
    cases hp : VParser.parseConstraint (constraintTextOf raw.specs) with
    | error e' => simp only [hp] at h1; cases h1; rfl
    | ok c => simp [hp] at h1
  · right
    rcases bind_err _ _ _ h with h1 | ⟨m, _, h⟩
    · cases hm : raw.marker with
      | none => simp [hm, pure, Except.pure] at h1
      | some syn =>
        simp only [hm] at h1
        exact ⟨syn, rfl, except_map_err _ _ _ h1⟩
    · simp [pure, Except.pure] at h

/-- errors of `Requirement.__init__` after the grammar, no hypothesis: the URL check (`ValueError`;
`.unmodelled` outside the modelled URL alphabet), the version-constraint parser on the joined specifier
tokens, `_compact_markers` + `union` on the marker -/
theorem ofRaw_err' (raw : Raw) (e : PyErr) (h : ofRaw raw = .error e) :
    (raw.url.isSome ∧ (e = .value ∨ e = .unmodelled)) ∨
    VParser.parseConstraint (constraintTextOf raw.specs) = .error e ∨
    ∃ syn, raw.marker = some syn ∧ compactTop syn = .error e := by
  rw [ofRaw_eq] at h
  rcases bind_err _ _ _ h with h1 | ⟨_, _, h⟩
  · left
    cases hu : raw.url with
    | none => simp [hu, pure, Except.pure] at h1
    | some u => simp only [hu] at h1; exact ⟨rfl, checkUrl_err u _ h1⟩
  · exact .inr (ofRawRest_err' raw e h)

/-- … with the marker leaves classified (under `VCErrDocumented`) -/
theorem ofRaw_err (hvc : VCErrDocumented) (raw : Raw) (e : PyErr) (h : ofRaw raw = .error e) :
    (raw.url.isSome ∧ (e = .value ∨ e = .unmodelled)) ∨
    VParser.parseConstraint (constraintTextOf raw.specs) = .error e ∨
    (raw.marker.isSome ∧ (LeafErr e ∨ SimpErr e)) := by
  rcases ofRaw_err' raw e h with h | h | ⟨syn, hs, h⟩
  · exact .inl h
  · exact .inr (.inl h)
  · exact .inr (.inr ⟨by rw [hs]; rfl, compactTop_err hvc syn e h⟩)

theorem parseL_err (cs : List Char) (e : PyErr) (h : parseL cs = .error e) :
    e = .value ∨ ∃ raw, parseRaw cs = some raw ∧ ofRaw raw = .error e := by
  unfold parseL at h
  cases hr : parseRaw cs with
  | none => simp only [hr] at h; cases h; exact .inl rfl
  | some raw => simp only [hr] at h; exact .inr ⟨raw, rfl, h⟩

/-- a successful `Requirement.__init__` keeps the constraint text and its parse together -/
theorem ofRaw_ok (raw : Raw) (r : Requirement) (h : ofRaw raw = .ok r) :
    VParser.parseConstraint r.constraintText = .ok r.constraint ∧ r.name = raw.name ∧ r.url = raw.url ∧
    r.constraintText = constraintTextOf raw.specs ∧ r.extras = raw.extras := by
  rw [ofRaw_eq] at h
  obtain ⟨_, _, h⟩ := bind_ok _ _ _ h
  unfold ofRawRest at h
  obtain ⟨c, hc, h⟩ := bind_ok _ _ _ h
  obtain ⟨m, _, h⟩ := bind_ok _ _ _ h
  simp only [pure, Except.pure, Except.ok.injEq] at h
  subst h
  refine ⟨?_, rfl, rfl, rfl, rfl⟩
  simp only
  cases hp : VParser.parseConstraint (constraintTextOf raw.specs) with
  | error e' => simp [hp] at hc
  | ok c' => simp only [hp, Except.ok.injEq] at hc; rw [hc]

/-! ## `Dependency.create_from_pep_508` -/

theorem authStep_err (proto : String) (user : Option String) (host r : List Char) (e : PyErr)
    (h : authStep proto user host r = .error e) : e = .unmodelled := by
  unfold authStep at h
  simp only at h
  repeat' split at h
  all_goals first
    | (cases h; done)
    | (cases h; rfl)

theorem parseAuthorityPath_err (proto : String) (s : List Char) (e : PyErr)
    (h : parseAuthorityPath proto s = .error e) : e = .unmodelled := by
  unfold parseAuthorityPath at h
  simp only at h
  repeat' split at h
  all_goals first
    | exact authStep_err _ _ _ _ _ h
    | (cases h; done)
    | (cases h; rfl)

theorem parseScp_err (s : List Char) (e : PyErr) (h : parseScp s = .error e) : e = .unmodelled := by
  unfold parseScp at h
  simp only at h
  repeat' split at h
  all_goals first
    | (cases h; done)
    | (cases h; rfl)

/-- `ParsedUrl.parse` on the restricted grammar: a text outside it is `.unmodelled`, nothing else -/
theorem parseGitUrl_err (s : String) (e : PyErr) (h : parseGitUrl s = .error e) : e = .unmodelled := by
  unfold parseGitUrl parseGitUrlL at h
  simp only at h
  repeat' split at h
  all_goals first
    | exact parseAuthorityPath_err _ _ _ h
    | exact parseScp_err _ _ h
    | (cases h; rfl)

theorem normalizeSourceUrl_err (t u : Option String) (e : PyErr) (h : normalizeSourceUrl t u = .error e) :
    e = .unmodelled := by
  unfold normalizeSourceUrl at h
  split at h
  · rcases bind_err _ _ _ h with h1 | ⟨_, _, h⟩
    · exact parseGitUrl_err _ _ h1
    · simp [pure, Except.pure] at h
  · simp [pure, Except.pure] at h

theorem specMake_err (name : String) (t u r rr sd : Option String) (fs : List String) (e : PyErr)
    (h : Spec.make name t u r rr sd fs = .error e) : e = .unmodelled := by
  unfold Spec.make at h
  rcases bind_err _ _ _ h with h1 | ⟨_, _, h⟩
  · exact normalizeSourceUrl_err _ _ _ h1
  · simp [pure, Except.pure] at h

theorem specMake_registry_ok (name : String) (fs : List String) :
    ∃ sp, Spec.make name none none none none none fs = .ok sp := by
  unfold Spec.make normalizeSourceUrl
  simp [truthy, bind, Except.bind, pure, Except.pure]

theorem mkDepStr_star (spec : Spec) (k : Kind) : ∃ d, mkDepStr spec "*" k = .ok d := by
  unfold mkDepStr
  simp [vc_star, bind, Except.bind, pure, Except.pure]

theorem mkVcsDep_err (name vcs source : String) (b t r d : Option String) (fs : List String) (e : PyErr)
    (h : mkVcsDep name vcs source b t r d fs = .error e) : e = .unmodelled := by
  unfold mkVcsDep at h
  rcases bind_err _ _ _ h with h1 | ⟨sp, _, h⟩
  · exact specMake_err _ _ _ _ _ _ _ _ h1
  · obtain ⟨d', hd⟩ := mkDepStr_star sp (.vcs vcs ((pyOr sp.sourceUrl (some source)).getD source) b t r d)
    simp only at h
    rw [hd] at h; cases h

theorem mkUrlDep_err (name url : String) (d : Option String) (fs : List String) (e : PyErr)
    (h : mkUrlDep name url d fs = .error e) : e = .value ∨ e = .unmodelled := by
  unfold mkUrlDep at h
  rcases bind_err _ _ _ h with h1 | ⟨u, _, h⟩
  · exact .inr (urlsplit_err _ _ h1)
  · split at h
    · cases h; exact .inl rfl
    · rcases bind_err _ _ _ h with h1 | ⟨sp, _, h⟩
      · exact .inr (specMake_err _ _ _ _ _ _ _ _ h1)
      · obtain ⟨d', hd⟩ := mkDepStr_star sp (.url url d)
        rw [hd] at h; cases h

/-- `Dependency(name, constraint_object)`: the only failure is printing the constraint object -/
theorem mkRegistry_err (name : String) (c : VC) (fs : List String) (e : PyErr)
    (h : mkRegistry name c fs = .error e) : c.toStr = .error e := by
  unfold mkRegistry at h
  rcases bind_err _ _ _ h with h1 | ⟨sp, _, h⟩
  · obtain ⟨sp, hsp⟩ := specMake_registry_ok name fs
    rw [hsp] at h1; cases h1
  · unfold mkDep at h
    rcases bind_err _ _ _ h with h1 | ⟨_, _, h⟩
    · exact h1
    · simp [pure, Except.pure] at h

theorem withVersion_err (d : Dep) (v : Option (List Char)) (e : PyErr) (h : withVersion d v = .error e) :
    ∃ t, VParser.parseConstraint t = .error e := by
  unfold withVersion at h
  cases v with
  | none => simp [pure, Except.pure] at h
  | some v =>
    simp only at h
    rcases bind_err _ _ _ h with h1 | ⟨_, _, h⟩
    · exact ⟨_, h1⟩
    · simp [pure, Except.pure] at h

/-! ### the `marker` setter -/

theorem mapM_err {α β : Type} (f : α → PyM β) (e : PyErr) : ∀ (l : List α), l.mapM f = .error e →
    ∃ a ∈ l, f a = .error e := by
  intro l
  induction l with
  | nil => intro h; simp [pure, Except.pure] at h
  | cons a as ih =>
    intro h
    rw [List.mapM_cons] at h
    rcases bind_err _ _ _ h with h1 | ⟨b, _, h⟩
    · exact ⟨a, by simp, h1⟩
    · rcases bind_err _ _ _ h with h1 | ⟨bs, _, h⟩
      · obtain ⟨a', ha', h'⟩ := ih h1
        exact ⟨a', by simp [ha'], h'⟩
      · simp [pure, Except.pure] at h

theorem normalizePyPair_err (op v : String) (e : PyErr) (h : normalizePyPair op v = .error e) : e = .value := by
  unfold normalizePyPair at h
  simp only at h
  repeat' split at h
  all_goals first
    | (cases h; done)
    | (cases h; rename_i hv; exact version_parse_err _ _ hv)

theorem normalizePyConj_err : ∀ (conj : List (String × String)) (alts : List (List String)) (e : PyErr),
    normalizePyConj conj alts = .error e → e = .value
  | [], alts, e, h => by simp [normalizePyConj] at h
  | (op, version) :: rest, alts, e, h => by
    unfold normalizePyConj at h
    split at h
    · exact normalizePyConj_err rest _ e h
    · split at h
      · exact normalizePyConj_err rest _ e h
      · split at h
        · rename_i hp; cases h; exact normalizePyPair_err _ _ _ hp
        · exact normalizePyConj_err rest _ e h

/-- `normalize_python_version_markers`: `InvalidVersionError` of `Version.parse` at most -/
theorem normalizePyMarkers_err (disj : List (List (String × String))) (e : PyErr)
    (h : normalizePyMarkers disj = .error e) : e = .value := by
  unfold normalizePyMarkers at h
  rcases bind_err _ _ _ h with h1 | ⟨_, _, h⟩
  · obtain ⟨conj, _, hc⟩ := mapM_err _ _ _ h1
    rcases bind_err _ _ _ hc with h2 | ⟨_, _, h3⟩
    · exact normalizePyConj_err _ _ _ h2
    · simp [pure, Except.pure] at h3
  · simp [pure, Except.pure] at h

/-- the error is raised by `convert_markers(marker)` (DNF through the simplifier, and the assertion that a
conjunction holds single-marker-likes only) -/
def ConvErr (m : M) (e : PyErr) : Prop := ∃ key, convertMarkersFor key m = .error e

theorem setMarker_err (d : Dep) (m : M) (e : PyErr) (h : d.setMarker m = .error e) :
    e = .value ∨ ConvErr m e ∨ ∃ t, VParser.parseConstraint t = .error e := by
  unfold Dep.setMarker at h
  rcases bind_err _ _ _ h with h1 | ⟨ex, _, h⟩
  · exact .inr (.inl ⟨_, h1⟩)
  · simp only at h
    rcases bind_err _ _ _ h with h1 | ⟨py, _, h⟩
    · exact .inr (.inl ⟨_, h1⟩)
    · rcases bind_err _ _ _ h with h1 | ⟨pv, _, h⟩
      · left
        split at h1
        · simp [pure, Except.pure] at h1
        · split at h1
          · simp [pure, Except.pure] at h1
          · exact normalizePyMarkers_err _ _ h1
      · rcases bind_err _ _ _ h with h1 | ⟨pc, _, h⟩
        · exact .inr (.inr ⟨_, h1⟩)
        · simp [pure, Except.pure] at h

/-! ### `create_from_pep_508` after `parse_requirement` -/

theorem fromReq_err (req : Requirement) (e : PyErr) (h : fromReq req = .error e) :
    e = .value ∨ e = .unmodelled ∨
    (req.url.isSome ∧ ∃ t, VParser.parseConstraint t = .error e) ∨
    (req.url = none ∧ req.constraint.toStr = .error e) ∨
    (∃ (d : Dep) (m : M), req.marker = some m ∧ d.setMarker m = .error e) := by
  unfold fromReq at h
  simp only at h
  split at h
  · cases h; exact .inr (.inl rfl)
  · rcases bind_err _ _ _ h with h1 | ⟨dep, _, h⟩
    · cases hu : req.url with
      | none =>
        simp only [hu] at h1
        exact .inr (.inr (.inr (.inl ⟨rfl, mkRegistry_err _ _ _ _ h1⟩)))
      | some url =>
        simp only [hu] at h1
        have hv : ∀ d v, withVersion d v = .error e →
            e = .value ∨ e = .unmodelled ∨ ((some url).isSome ∧ ∃ t, VParser.parseConstraint t = .error e) ∨
            ((some url) = none ∧ req.constraint.toStr = .error e) ∨
            (∃ (d : Dep) (m : M), req.marker = some m ∧ d.setMarker m = .error e) :=
          fun d v hw => .inr (.inr (.inl ⟨rfl, withVersion_err d v e hw⟩))
        split at h1
        · cases h1; exact .inr (.inl rfl)
        · rcases bind_err _ _ _ h1 with h2 | ⟨u, _, h1⟩
          · exact .inr (.inl (urlsplit_err _ _ h2))
          · split at h1
            · cases h1; exact .inr (.inl rfl)
            · split at h1
              · cases h1; exact .inr (.inl rfl)
              · rcases bind_err _ _ _ h1 with h2 | ⟨⟨nm, ver⟩, _, h1⟩
                · split at h2
                  · split at h2
                    · simp [pure, Except.pure] at h2
                    · cases h2; exact .inl rfl
                  · simp [pure, Except.pure] at h2
                · simp only at h1
                  split at h1
                  · rcases bind_err _ _ _ h1 with h2 | ⟨g, _, h1⟩
                    · exact .inr (.inl (parseGitUrl_err _ _ h2))
                    · rcases bind_err _ _ _ h1 with h2 | ⟨d', _, h1⟩
                      · exact .inr (.inl (mkVcsDep_err _ _ _ _ _ _ _ _ _ h2))
                      · exact hv _ _ h1
                  · split at h1
                    · rcases bind_err _ _ _ h1 with h2 | ⟨d', _, h1⟩
                      · exact .inr (.inl (mkVcsDep_err _ _ _ _ _ _ _ _ _ h2))
                      · exact hv _ _ h1
                    · split at h1
                      · rcases bind_err _ _ _ h1 with h2 | ⟨d', _, h1⟩
                        · rcases mkUrlDep_err _ _ _ _ _ h2 with h3 | h3
                          · exact .inl h3
                          · exact .inr (.inl h3)
                        · exact hv _ _ h1
                      · cases h1; exact .inr (.inl rfl)
    · cases hm : req.marker with
      | none => simp [hm, pure, Except.pure] at h
      | some m =>
        simp only [hm] at h
        exact .inr (.inr (.inr (.inr ⟨dep, m, rfl, h⟩)))

theorem createFromPep508L_err (text : List Char) (e : PyErr) (h : createFromPep508L text = .error e) :
    Req.parseL (stripComment text) = .error e ∨
    ∃ req, Req.parseL (stripComment text) = .ok req ∧ fromReq req = .error e := by
  unfold createFromPep508L at h
  rcases bind_err _ _ _ h with h1 | ⟨req, hr, h⟩
  · exact .inl h1
  · exact .inr ⟨req, hr, h⟩

/-! ### kernel evaluation of error outcomes (for `example`s: `eq_error_of_isErrB _ _ (by decide +kernel)`) -/

def isErrB {α : Type} (x : PyM α) (e : PyErr) : Bool :=
  match x with
  | .error e' => e' == e
  | .ok _ => false

theorem eq_error_of_isErrB {α : Type} (x : PyM α) (e : PyErr) (h : isErrB x e = true) : x = .error e := by
  cases x with
  | error e' => simp [isErrB] at h; rw [h]
  | ok a => simp [isErrB] at h

end Poetry.ParserTotal
