/-
`VersionUnion.difference`: the merge walk `unionDiffLoop` is exact in the regular setting (bounds mutually
regular, none local) — helper lemmas for C05.
-/
import PoetryVerif.Proofs.VRangeInterU

set_option linter.unusedSimpArgs false
set_option linter.unusedVariables false

namespace Poetry
open Version

namespace VRange

/-- in the regular setting a non-degenerate range is inhabited: its lower bound is below its effective top -/
theorem NE_of_reg {B : List Version} (hB : RegB B) (r : VRange) (hr : r.WF) (hb : ∀ e ∈ r.bounds, e ∈ B) : r.NE := by
  unfold NE isStrictlyLower allowedMin
  cases hM : r.max with
  | none => simp [allowedMax_none hM]
  | some M =>
    cases hm : r.min with
    | none =>
      cases hA : r.allowedMax <;> simp
    | some m =>
      have hlt := hr.2 m M hm hM
      obtain ⟨A, hA⟩ : ∃ A, r.allowedMax = some A := by
        cases h : r.allowedMax with
        | none => have := allowedMax_isSome (r := r); simp [h, hM] at this
        | some A => exact ⟨A, rfl⟩
      rw [hA]
      have hrk := relKey_allowedMax hM hA
      have hne : relKey m ≠ relKey M := by
        rcases hB.reg m (hb m (mem_bounds_min hm)) M (hb M (mem_bounds_max hM)) with h | h
        · exact absurd h (ne_of_lt hlt)
        · exact h
      have : vk m < vk A := (lt_congr_right (a := M) (a' := A) (b := m) hrk.symm (fun e => hne e.symm)).1 hlt
      simp [(lt_false_iff A m).2 (le_of_lt this), (gt_iff A m).2 this]

/-- `x`'s written top below `y`'s bottom: `x` is strictly below `y` -/
theorem sl_of_max_lt_min {x y : VRange} {M m : Version} (hM : x.max = some M) (hm : y.min = some m)
    (h : vk M < vk m) : x.isStrictlyLower y = true := by
  unfold isStrictlyLower allowedMin
  obtain ⟨A, hA⟩ : ∃ A, x.allowedMax = some A := by
    cases h' : x.allowedMax with
    | none => have := allowedMax_isSome (r := x); simp [h', hM] at this
    | some A => exact ⟨A, rfl⟩
  rw [hA, hm]
  have : vk A < vk m := lt_of_le_of_lt (allowedMax_le hM hA) h
  simp [(lt_iff A m).2 this]

end VRange

/-- two separated members in sort order: `VersionUnion.of` returns their union unchanged -/
theorem unionOfFlat_pair_sep (x y : RC) (hlt : RC.lt y x = false) (hany : RC.allowsAny x y = .ok false)
    (hadj : x.view.isAdjacentTo y.view = false) (hx : x.isAny = false) (hy : y.isAny = false) :
    unionOfFlat [x, y] = .ok (.union [x, y]) := by
  have hs : sortRCs [x, y] = [x, y] := by simp [sortRCs, insertSorted, hlt]
  simp [unionOfFlat, hx, hy, hs, mergeLoop, hany, hadj, bind, Except.bind, pure, Except.pure]

/-- a well-formed, tidy member over `B` is a regular member -/
theorem regMember_of_good {B : List Version} (hB : RegB B) (c : RC) (hw : c.WF) (ht : c.Tidy)
    (hb : ∀ e ∈ c.bounds, e ∈ B) : RegMember B c := by
  refine ⟨hw, ht, ?_, hb⟩
  cases c with
  | ver x => trivial
  | rng r => exact VRange.NE_of_reg hB r hw hb

namespace VRange

/-- the piece `[.., b.min)` ends below `b`'s lower end, hence (when `a` is not strictly below `b`) within `a`'s top -/
theorem top_before {a b c : VRange} (hcov : a.isStrictlyLower b = false) {y : Version} (hy : b.min = some y)
    (hmax : c.max = some y) (himax : c.imax = !b.imin) (p : Version) (h : c.denHi p) : a.denHi p := by
  have hnb : ¬ b.denLo p := by
    obtain ⟨A, hA⟩ : ∃ A, c.allowedMax = some A := by
      cases h' : c.allowedMax with
      | none => have := allowedMax_isSome (r := c); simp [h', hmax] at this
      | some A => exact ⟨A, rfl⟩
    have hle := allowedMax_le hmax hA
    simp only [denHi, hA, himax] at h
    simp only [denLo, hy]
    cases hbi : b.imin
    · simp only [hbi, Bool.not_false, if_true, Bool.false_eq_true, if_false] at h ⊢
      exact not_lt.2 (le_trans h hle)
    · simp only [hbi, Bool.not_true, Bool.false_eq_true, if_false, if_true] at h ⊢
      exact not_le.2 (lt_of_lt_of_le h hle)
  rcases strictlyLower_false_cover hcov p with h1 | h1
  · exact h1
  · exact absurd h1 hnb

theorem denHi_point (a p : Version) : (point a).denHi p ↔ vk p ≤ vk a := by
  unfold denHi; rw [point_allowedMax]; simp [point]

/-- a version strictly inside a regular range lies below the range's effective top -/
theorem lt_top_of_reg {B : List Version} (hB : RegB B) (r : VRange) (hrb : ∀ e ∈ r.bounds, e ∈ B) (v : Version)
    (hv : v ∈ B) (hlt : ∀ M, r.max = some M → vk v < vk M) (p : Version) (hp : vk p ≤ vk v) : r.denHi p := by
  unfold denHi
  cases hM : r.max with
  | none => simp [allowedMax_none hM]
  | some M =>
    obtain ⟨A, hA⟩ : ∃ A, r.allowedMax = some A := by
      cases h' : r.allowedMax with
      | none => have := allowedMax_isSome (r := r); simp [h', hM] at this
      | some A => exact ⟨A, rfl⟩
    rw [hA]
    have hvM := hlt M hM
    have hne : relKey v ≠ relKey M := by
      rcases hB.reg v hv M (hrb M (mem_bounds_max hM)) with h | h
      · exact absurd h (ne_of_lt hvM)
      · exact h
    have hrk := relKey_allowedMax hM hA
    have : vk v < vk A := (lt_congr_right (a := M) (a' := A) (b := v) hrk.symm (fun e => hne e.symm)).1 hvM
    have hpA : vk p < vk A := lt_of_le_of_lt hp this
    simp only
    cases r.imax
    · simpa using hpA
    · simpa using le_of_lt hpA

end VRange

/-- the regular-setting specification of a member-level difference -/
structure DiffSpecR (B : List Version) (cur r : RC) (d : VC) : Prop where
  base : DiffSpec cur r d
  mem : ∀ c ∈ d.flatten, RegMember B c
  top : ∀ c ∈ d.flatten, ∀ p, c.view.denHi p → cur.view.denHi p
  pairTop : ∀ ds, d = .union ds → ∀ p, r.view.denHi p → cur.view.denHi p

theorem DiffSpecR.of_base {B : List Version} (hB : RegB B) {cur r : RC} {d : VC} (base : DiffSpec cur r d)
    (hcb : ∀ e ∈ cur.bounds, e ∈ B) (hrb : ∀ e ∈ r.bounds, e ∈ B)
    (top : ∀ c ∈ d.flatten, ∀ p, c.view.denHi p → cur.view.denHi p)
    (pairTop : ∀ ds, d = .union ds → ∀ p, r.view.denHi p → cur.view.denHi p) : DiffSpecR B cur r d := by
  refine ⟨base, ?_, top, pairTop⟩
  intro c hc
  have hg := base.good c hc
  exact regMember_of_good hB c hg.1 hg.2 (fun e he => by
    have : e ∈ d.bounds := by rw [VC.bounds_eq_flatMap]; exact List.mem_flatMap.2 ⟨c, hc, he⟩
    rcases base.bounds e this with h | h
    · exact hcb e h
    · exact hrb e h)

namespace VRange

/-- `x` ends (exclusively) where `y` starts or before: `x` is strictly below `y` -/
theorem sl_of_max_le_min_excl {x y : VRange} {M m : Version} (hM : x.max = some M) (hm : y.min = some m)
    (h : vk M ≤ vk m) (hi : x.imax = false) : x.isStrictlyLower y = true := by
  unfold isStrictlyLower allowedMin
  obtain ⟨A, hA⟩ : ∃ A, x.allowedMax = some A := by
    cases h' : x.allowedMax with
    | none => have := allowedMax_isSome (r := x); simp [h', hM] at this
    | some A => exact ⟨A, rfl⟩
  rw [hA, hm]
  have hle : vk A ≤ vk m := le_trans (allowedMax_le hM hA) h
  rcases lt_or_eq_of_le hle with h1 | h1
  · simp [(lt_iff A m).2 h1]
  · have l1 : Version.lt A m = false := by rw [lt_false_iff, h1]
    have l2 : Version.gt A m = false := by rw [gt_false_iff, h1]
    simp [l1, l2, hi]

end VRange

theorem diffSpecR_ver {B : List Version} (hB : RegB B) (a : Version) (c : RC) (ha : a.wf = true) (hc : c.WF)
    (hab : a ∈ B) (hcb : ∀ e ∈ c.bounds, e ∈ B) : DiffSpecR B (.ver a) c (RC.verDifference a c) := by
  refine DiffSpecR.of_base hB (diffSpec_ver a c ha hc) (by intro e he; simp [RC.bounds_ver] at he; subst he; exact hab)
    hcb ?_ ?_
  · intro x hx p hp
    unfold RC.verDifference at hx
    split at hx
    · simp [VC.flatten] at hx
    · simp [VC.flatten] at hx; subst hx; exact hp
  · intro ds hd; unfold RC.verDifference at hd; split at hd <;> cases hd

theorem diffSpecR_rng_ver {B : List Version} (hB : RegB B) (r : VRange) (v : Version) (hr : r.WF) (htr : r.Tidy)
    (hv : v.wf = true) (hrb : ∀ e ∈ r.bounds, e ∈ B) (hvB : v ∈ B) (d : VC)
    (h : RC.rngDifferenceVer r v = .ok d) : DiffSpecR B (.rng r) (.ver v) d := by
  have hvreg : Regular r.bounds v := by
    intro e he
    rcases hB.reg v hvB e (hrb e he) with h' | h'
    · exact Or.inl ((vk_eq_iff _ _).1 h')
    · exact Or.inr h'
  have base := diffSpec_rng_ver r v hr htr hv hvreg d h
  refine DiffSpecR.of_base hB base hrb (by intro e he; simp [RC.bounds_ver] at he; subst he; exact hvB) ?_ ?_
  · -- tops
    have same : ∀ s : VRange, s.max = r.max → s.imax = r.imax → s.Proper → ∀ p, s.denHi p → r.denHi p :=
      fun s h1 h2 hs p hp => (VRange.denHi_congr h1 h2 hs.ne hr.2.ne p).1 hp
    unfold RC.rngDifferenceVer at h
    by_cases h1 : r.allows v = true
    · simp only [h1, Bool.not_true, Bool.false_eq_true, if_false] at h
      have hraw := (VRange.allows_iff_raw r v hr.1 hv hvreg).1 h1
      by_cases h2 : optVerEq (some v) r.min = true
      · simp only [h2, if_true] at h
        cases hi : r.imin
        · simp only [hi, Bool.not_false, if_true, Except.ok.injEq] at h
          subst h; intro c hc p hp; simp [VC.flatten] at hc; subst hc; exact hp
        · simp only [hi, Bool.not_true, Bool.false_eq_true, if_false, Except.ok.injEq] at h
          subst h; intro c hc p hp; simp [VC.flatten] at hc; subst hc
          exact same ⟨r.min, r.max, false, r.imax⟩ rfl rfl hr.2 p hp
      · simp only [h2, Bool.false_eq_true, if_false] at h
        by_cases h3 : optVerEq (some v) r.max = true
        · simp only [h3, if_true] at h
          cases hi : r.imax
          · simp only [hi, Bool.not_false, if_true, Except.ok.injEq] at h
            subst h; intro c hc p hp; simp [VC.flatten] at hc; subst hc; exact hp
          · simp only [hi, Bool.not_true, Bool.false_eq_true, if_false, Except.ok.injEq] at h
            subst h; intro c hc p hp; simp [VC.flatten] at hc; subst hc
            -- the top was included and is now excluded: still below the old top
            obtain ⟨M, hM⟩ : ∃ M, r.max = some M := by
              cases hM : r.max with
              | none => simp [hM, optVerEq] at h3
              | some M => exact ⟨M, rfl⟩
            have hAr : r.allowedMax = some M := by
              rcases VRange.allowedMax_cases hM with h' | h'
              · exact h'
              · rw [hi] at h'; simp at h'
            have hM' : (⟨r.min, r.max, r.imin, false⟩ : VRange).max = some M := hM
            obtain ⟨A, hA⟩ : ∃ A, (⟨r.min, r.max, r.imin, false⟩ : VRange).allowedMax = some A := by
              cases h' : (⟨r.min, r.max, r.imin, false⟩ : VRange).allowedMax with
              | none =>
                have := VRange.allowedMax_isSome (r := ⟨r.min, r.max, r.imin, false⟩)
                rw [h', hM'] at this; simp at this
              | some A => exact ⟨A, rfl⟩
            have hle := VRange.allowedMax_le hM' hA
            simp only [RC.view_rng, VRange.denHi, hA, Bool.false_eq_true, if_false] at hp
            simp only [RC.view_rng, VRange.denHi, hAr, hi, if_true]
            exact le_of_lt (lt_of_lt_of_le hp hle)
        · simp only [h3, Bool.false_eq_true, if_false] at h
          have hhi : ∀ M, r.max = some M → vk v < vk M := by
            intro M hM
            have hne : vk v ≠ vk M := by
              intro e; simp [hM, optVerEq, (eqv_iff _ _).2 e] at h3
            have := hraw.2
            simp only [VRange.rawHi, hM] at this
            cases hi : r.imax <;> simp [hi] at this
            · exact this
            · exact lt_of_le_of_ne this hne
          -- members: what `VersionUnion.of` made of the two pieces; both have tops within `r`'s
          obtain ⟨g1, _, _⟩ := base
          intro c hc p hp
          -- every member's bounds… use the exactness-free route: tops of the two pieces
          have hP1 : ∀ p, (⟨r.min, some v, r.imin, false⟩ : VRange).denHi p → r.denHi p := by
            intro p hp
            obtain ⟨A, hA⟩ : ∃ A, (⟨r.min, some v, r.imin, false⟩ : VRange).allowedMax = some A := by
              cases h' : (⟨r.min, some v, r.imin, false⟩ : VRange).allowedMax with
              | none => have := VRange.allowedMax_isSome (r := ⟨r.min, some v, r.imin, false⟩); simp [h'] at this
              | some A => exact ⟨A, rfl⟩
            have hle := VRange.allowedMax_le (r := ⟨r.min, some v, r.imin, false⟩) (M := v) rfl hA
            simp only [VRange.denHi, hA, Bool.false_eq_true, if_false] at hp
            exact VRange.lt_top_of_reg hB r hrb v hvB hhi p (le_of_lt (lt_of_lt_of_le hp hle))
          -- in the regular setting the two pieces are kept as they are
          have hlo : ∀ m, r.min = some m → vk m < vk v := by
            intro m hm
            have hne : vk v ≠ vk m := by
              intro e; simp [hm, optVerEq, (eqv_iff _ _).2 e] at h2
            have := hraw.1
            simp only [VRange.denLo, hm] at this
            cases hi : r.imin <;> simp [hi] at this
            · exact this
            · exact lt_of_le_of_ne this (fun e => hne e.symm)
          have hsl : (⟨r.min, some v, r.imin, false⟩ : VRange).isStrictlyLower ⟨some v, r.max, false, r.imax⟩ = true :=
            VRange.sl_of_max_le_min_excl (M := v) (m := v) rfl rfl (le_refl _) rfl
          have hres : d = .union [.rng ⟨r.min, some v, r.imin, false⟩, .rng ⟨some v, r.max, false, r.imax⟩] := by
            have hlt : RC.lt (RC.rng ⟨some v, r.max, false, r.imax⟩) (RC.rng ⟨r.min, some v, r.imin, false⟩) = false :=
              RC.lt_false_of_min_gt _ _ v rfl (fun m hm => hlo m hm)
            have hanyf : RC.allowsAny (RC.rng ⟨r.min, some v, r.imin, false⟩) (RC.rng ⟨some v, r.max, false, r.imax⟩) = .ok false := by
              simp [RC.allowsAny, VRange.isStrictlyHigher, hsl]
            have := unionOfFlat_pair_sep _ _ hlt hanyf (by
              simp [RC.view_rng, VRange.isAdjacentTo]) (by simp [RC.isAny, VRange.isAny]) (by simp [RC.isAny, VRange.isAny])
            rw [this] at h
            exact (Except.ok.inj h).symm
          subst hres
          simp only [VC.flatten, List.mem_cons, List.mem_nil_iff, or_false] at hc
          rcases hc with rfl | rfl
          · exact hP1 p hp
          · exact same ⟨some v, r.max, false, r.imax⟩ rfl rfl (by
              intro m M hm hM; simp at hm; subst hm; exact hhi M hM) p hp
    · simp only [h1, Bool.not_false, if_true, Except.ok.injEq] at h
      subst h; intro c hc p hp; simp [VC.flatten] at hc; subst hc; exact hp
  · -- the subtracted version lies below `r`'s top whenever the result is a union
    intro ds hd p hp
    rw [RC.view_ver, VRange.denHi_point] at hp
    subst hd
    -- a union arises only in the split branch, where `v` is strictly inside `r`
    unfold RC.rngDifferenceVer at h
    by_cases h1 : r.allows v = true
    · simp only [h1, Bool.not_true, Bool.false_eq_true, if_false] at h
      have hraw := (VRange.allows_iff_raw r v hr.1 hv hvreg).1 h1
      by_cases h2 : optVerEq (some v) r.min = true
      · simp only [h2, if_true] at h; split at h <;> cases h
      · simp only [h2, Bool.false_eq_true, if_false] at h
        by_cases h3 : optVerEq (some v) r.max = true
        · simp only [h3, if_true] at h; split at h <;> cases h
        · have hhi : ∀ M, r.max = some M → vk v < vk M := by
            intro M hM
            have hne : vk v ≠ vk M := by
              intro e; simp [hM, optVerEq, (eqv_iff _ _).2 e] at h3
            have := hraw.2
            simp only [VRange.rawHi, hM] at this
            cases hi : r.imax <;> simp [hi] at this
            · exact this
            · exact lt_of_le_of_ne this hne
          exact VRange.lt_top_of_reg hB r hrb v hvB hhi p hp
    · simp [h1] at h

theorem diffSpecR_rng_rng {B : List Version} (hB : RegB B) (a b : VRange) (ha : a.WF) (hb : b.WF)
    (hta : a.Tidy) (htb : b.Tidy) (hab : ∀ e ∈ a.bounds, e ∈ B) (hbb : ∀ e ∈ b.bounds, e ∈ B)
    (d : VC) (h : RC.rngDifferenceRng a b = .ok d) : DiffSpecR B (.rng a) (.rng b) d := by
  have hec : VRange.EndsConsistent a b := VRange.endsConsistent_of_reg a b ha hb (fun x y hx hy =>
    hB.reg x (hbb x (VRange.mem_bounds_max hx)) y (hab y (VRange.mem_bounds_max hy)))
  have base := diffSpec_rng_rng a b ha hb hta htb hec d h
  refine DiffSpecR.of_base hB base hab hbb ?_ ?_
  · rw [VRange.rngDifferenceRng_eq] at h
    obtain ⟨any, hany⟩ := RC.allowsAny_ok (.rng a) (.rng b)
    simp only [hany, bind, Except.bind] at h
    cases any with
    | false =>
      simp only [Bool.not_false, if_true, pure, Except.pure, Except.ok.injEq] at h
      subst h; intro c hc p hp; simp [VC.flatten] at hc; subst hc; exact hp
    | true =>
      simp only [Bool.not_true, Bool.false_eq_true, if_false] at h
      simp only [RC.allowsAny, VRange.isStrictlyHigher, Except.ok.injEq, Bool.not_eq_true', Bool.or_eq_false_iff] at hany
      obtain ⟨o1, e1, s1⟩ := VRange.beforePiece_spec a b ha hb hta
      obtain ⟨o2, e2, s2⟩ := VRange.afterPiece_spec a b ha hb hta hec
      simp only [e1, e2] at h
      -- tops of the two kinds of pieces
      have topX : ∀ x, o1 = some x → ∀ p, x.view.denHi p → a.denHi p := by
        intro x hx p hp
        subst hx
        obtain ⟨hlow, hxs⟩ := VRange.beforePiece_some e1
        obtain ⟨y, hy⟩ := VRange.allowsLower_none_right hlow
        rcases hxs with ⟨m, hm, rfl⟩ | rfl
        · -- the single version `a.min == b.min`
          have hopt : optVerEq a.min b.min = true := by
            unfold VRange.beforePiece at e1
            simp only [hlow, Bool.not_true, Bool.false_eq_true, if_false] at e1
            by_cases hq : optVerEq a.min b.min = true
            · exact hq
            · simp [hq] at e1
          simp only [hm, hy, optVerEq, eqv_iff] at hopt
          obtain ⟨_, f2⟩ := VRange.allowsLower_eq_flags hlow hm hy hopt
          rw [RC.view_ver, VRange.denHi_point] at hp
          rcases VRange.strictlyLower_false_cover hany.2 p with h1 | h1
          · exact h1
          · exfalso
            simp only [VRange.denLo, hy, f2, Bool.false_eq_true, if_false] at h1
            rw [← hopt] at h1
            exact absurd (lt_of_lt_of_le h1 hp) (lt_irrefl _)
        · exact VRange.top_before (c := ⟨a.min, b.min, a.imin, !b.imin⟩) hany.2 hy hy rfl p hp
      have topY : ∀ y, o2 = some y → ∀ p, y.view.denHi p → a.denHi p := by
        intro y hy p hp
        subst hy
        obtain ⟨hhigh, hys⟩ := VRange.afterPiece_some e2
        obtain ⟨ywf, _⟩ := s2
        rcases hys with ⟨M, hM, rfl⟩ | rfl
        · obtain ⟨X, hX⟩ := VRange.allowsHigher_none_right hhigh
          have hopt : optVerEq a.max b.max = true := by
            unfold VRange.afterPiece at e2
            simp only [hhigh, Bool.not_true, Bool.false_eq_true, if_false] at e2
            by_cases hq : optVerEq a.max b.max = true
            · exact hq
            · simp [hq] at e2
          simp only [hM, hX, optVerEq, eqv_iff] at hopt
          have himax : a.imax = true := by
            rcases hec hhigh X M hX hM with h1 | h1
            · exact absurd hopt.symm (ne_of_lt h1)
            · exact h1.2.1
          have hA : a.allowedMax = some M := by
            rcases VRange.allowedMax_cases hM with h' | h'
            · exact h'
            · rw [himax] at h'; simp at h'
          rw [RC.view_ver, VRange.denHi_point] at hp
          simpa [VRange.denHi, hA, himax] using hp
        · exact (VRange.denHi_congr (r := ⟨b.max, a.max, !b.imax, a.imax⟩) (s := a) rfl rfl ywf.2.ne ha.2.ne p).1 hp
      cases o1 with
      | none =>
        cases o2 with
        | none =>
          simp only [pure, Except.pure, Except.ok.injEq] at h
          subst h; intro c hc; simp [VC.flatten] at hc
        | some y =>
          simp only [pure, Except.pure, Except.ok.injEq] at h
          subst h; intro c hc p hp; simp [VC.flatten] at hc; subst hc; exact topY _ rfl p hp
      | some x =>
        cases o2 with
        | none =>
          simp only [pure, Except.pure, Except.ok.injEq] at h
          subst h; intro c hc p hp; simp [VC.flatten] at hc; subst hc; exact topX _ rfl p hp
        | some y =>
          simp only at h
          obtain ⟨xw, xt, xb, _, _⟩ := s1
          obtain ⟨yw, yt, yb, _, _⟩ := s2
          -- the two pieces are separated by `b`: `VersionUnion.of` keeps them as they are
          obtain ⟨hlow, hxs⟩ := VRange.beforePiece_some e1
          obtain ⟨hhigh, hys⟩ := VRange.afterPiece_some e2
          obtain ⟨bm, hbm⟩ := VRange.allowsLower_none_right hlow
          obtain ⟨bM, hbM⟩ := VRange.allowsHigher_none_right hhigh
          have hbmM := hb.2 bm bM hbm hbM
          have hxmax : ∃ X, x.view.max = some X ∧ vk X ≤ vk bm := by
            rcases hxs with ⟨m, hm, rfl⟩ | rfl
            · have hopt : optVerEq a.min b.min = true := by
                unfold VRange.beforePiece at e1
                simp only [hlow, Bool.not_true, Bool.false_eq_true, if_false] at e1
                by_cases hq : optVerEq a.min b.min = true
                · exact hq
                · simp [hq] at e1
              simp only [hm, hbm, optVerEq, eqv_iff] at hopt
              exact ⟨m, by simp [RC.view, RC.max], le_of_eq hopt⟩
            · exact ⟨bm, by simp [RC.view_rng, hbm], le_refl _⟩
          have hymin : ∃ Y, y.view.min = some Y ∧ vk bM ≤ vk Y := by
            rcases hys with ⟨M, hM, rfl⟩ | rfl
            · have hopt : optVerEq a.max b.max = true := by
                unfold VRange.afterPiece at e2
                simp only [hhigh, Bool.not_true, Bool.false_eq_true, if_false] at e2
                by_cases hq : optVerEq a.max b.max = true
                · exact hq
                · simp [hq] at e2
              simp only [hM, hbM, optVerEq, eqv_iff] at hopt
              exact ⟨M, by simp [RC.view, RC.min], le_of_eq hopt.symm⟩
            · exact ⟨bM, by simp [RC.view_rng, hbM], le_refl _⟩
          obtain ⟨X, hX1, hX2⟩ := hxmax
          obtain ⟨Y, hY1, hY2⟩ := hymin
          have hXY : vk X < vk Y := lt_of_le_of_lt hX2 (lt_of_lt_of_le hbmM hY2)
          have hsl : x.view.isStrictlyLower y.view = true := VRange.sl_of_max_lt_min hX1 hY1 hXY
          have hxB : ∀ e ∈ x.bounds, e ∈ B := fun e he => by
            rcases xb e he with h' | h'
            · exact hab e h'
            · exact hbb e h'
          have hyB : ∀ e ∈ y.bounds, e ∈ B := fun e he => by
            rcases yb e he with h' | h'
            · exact hab e h'
            · exact hbb e h'
          have hanyf : RC.allowsAny x y = .ok false := by
            rw [RC.allowsAny_view hB x y xw yw hxB hyB]; simp [hsl]
          have hadj : x.view.isAdjacentTo y.view = false := by
            unfold VRange.isAdjacentTo
            rw [hX1, hY1]
            simp [optVerEq, (eqv_false_iff X Y).2 (ne_of_lt hXY)]
          have hlt : RC.lt y x = false := by
            have hxmin : ∀ m, x.view.min = some m → vk m < vk Y := by
              intro m hm
              have hmle : vk m ≤ vk X := by
                -- the lower end of a well-formed member is at most its upper end
                cases x with
                | ver q => simp [RC.view, RC.min, RC.max] at hm hX1; subst hm; subst hX1; exact le_refl _
                | rng q => exact le_of_lt (xw.2 m X hm hX1)
              exact lt_of_le_of_lt hmle hXY
            exact RC.lt_false_of_min_gt x y Y hY1 hxmin
          have hnx : x.isAny = false := by
            cases x with
            | ver q => rfl
            | rng q => simp [RC.isAny, VRange.isAny]; intro _; simp [RC.view_rng] at hX1; simp [hX1]
          have hny : y.isAny = false := by
            cases y with
            | ver q => rfl
            | rng q => simp [RC.isAny, VRange.isAny]; intro hq; simp [RC.view_rng] at hY1; simp [hY1] at hq
          rw [unionOfFlat_pair_sep x y hlt hanyf hadj hnx hny] at h
          cases h
          intro c hc p hp
          simp only [VC.flatten, List.mem_cons, List.mem_nil_iff, or_false] at hc
          rcases hc with rfl | rfl
          · exact topX _ rfl p hp
          · exact topY _ rfl p hp
  · -- a union result means both pieces exist, in particular `a` reaches higher than `b`
    intro ds hd p hp
    subst hd
    rw [VRange.rngDifferenceRng_eq] at h
    obtain ⟨any, hany⟩ := RC.allowsAny_ok (.rng a) (.rng b)
    simp only [hany, bind, Except.bind] at h
    cases any with
    | false => simp [pure, Except.pure] at h
    | true =>
      simp only [Bool.not_true, Bool.false_eq_true, if_false] at h
      obtain ⟨o1, e1, _⟩ := VRange.beforePiece_spec a b ha hb hta
      obtain ⟨o2, e2, _⟩ := VRange.afterPiece_spec a b ha hb hta hec
      simp only [e1, e2] at h
      cases o2 with
      | none => cases o1 <;> simp [pure, Except.pure] at h
      | some y => exact VRange.allowsHigher_true (VRange.afterPiece_some e2).1 p hp

/-- **the regular-setting specification of a member-level difference holds** -/
theorem difference_specR {B : List Version} (hB : RegB B) (cur r : RC) (hc : RegMember B cur) (hr : RegMember B r)
    (d : VC) (h : RC.difference cur r = .ok d) : DiffSpecR B cur r d := by
  cases cur with
  | ver a =>
    simp only [RC.difference, Except.ok.injEq] at h
    subst h
    exact diffSpecR_ver hB a r hc.1 hr.1 (hc.2.2.2 a (by simp [RC.bounds_ver])) hr.2.2.2
  | rng a =>
    cases r with
    | ver v =>
      exact diffSpecR_rng_ver hB a v hc.1 hc.2.1 hr.1 hc.2.2.2 (hr.2.2.2 v (by simp [RC.bounds_ver])) d h
    | rng b => exact diffSpecR_rng_rng hB a b hc.1 hr.1 hc.2.1 hr.2.1 hc.2.2.2 hr.2.2.2 d h

/-! ### the merge walk of `VersionUnion.difference` -/

/-- a collected piece: a single regular member -/
def PieceOK (B : List Version) (q : VC) : Prop := ∃ c, q = .single c ∧ RegMember B c

/-- the state of the walk -/
structure DInv (B : List Version) (cur : RC) (ours : List RC) (their : RC) (theirs : List RC) (acc : List VC) : Prop where
  hcur : RegMember B cur
  hours : ∀ o ∈ ours, RegMember B o
  htheir : RegMember B their
  htheirs : ∀ t ∈ theirs, RegMember B t
  sT : SortedRC (their :: theirs)
  sO : SortedRC ours
  below : ∀ o ∈ ours, ∀ p, ¬ (cur.view.denHi p ∧ o.view.denLo p)
  accOK : ∀ q ∈ acc, PieceOK B q

/-- what the walk computes: the pieces already collected, or (`cur` or a later member of ours) and no member of theirs -/
def DSem (B : List Version) (parts : List VC) (acc : List VC) (cur : RC) (ours : List RC) (theirsAll : List RC) : Prop :=
  ∀ p, p.wf = true → Regular B p →
    (anyPart parts p ↔ (anyPart acc p ∨ ((cur.allows p = true ∨ anyAllows ours p = true) ∧ anyAllows theirsAll p = false)))

theorem anyPart_append (l1 l2 : List VC) (p : Version) : anyPart (l1 ++ l2) p ↔ anyPart l1 p ∨ anyPart l2 p := by
  simp only [anyPart, List.mem_append]
  constructor
  · rintro ⟨q, hq | hq, h⟩
    · exact Or.inl ⟨q, hq, h⟩
    · exact Or.inr ⟨q, hq, h⟩
  · rintro (⟨q, hq, h⟩ | ⟨q, hq, h⟩)
    · exact ⟨q, Or.inl hq, h⟩
    · exact ⟨q, Or.inr hq, h⟩

theorem anyPart_single (c : RC) (p : Version) : anyPart [.single c] p ↔ c.allows p = true := by
  simp [anyPart, VC.allowsPlain, VC.flatten]

theorem anyPart_map_single (l : List RC) (p : Version) : anyPart (l.map VC.single) p ↔ anyAllows l p = true := by
  simp only [anyPart, anyAllows, List.any_eq_true, List.mem_map]
  constructor
  · rintro ⟨q, ⟨a, ha, rfl⟩, h⟩
    exact ⟨a, ha, by simpa [VC.allowsPlain, VC.flatten] using h⟩
  · rintro ⟨a, ha, h⟩
    exact ⟨.single a, ⟨a, ha, rfl⟩, by simpa [VC.allowsPlain, VC.flatten] using h⟩

theorem regular_of_member {B : List Version} {c : RC} (hc : RegMember B c) {p : Version} (h : Regular B p) :
    Regular c.bounds p := h.mono hc.2.2.2

theorem den_of_allows {B : List Version} {c : RC} (hc : RegMember B c) {p : Version} (hp : p.wf = true)
    (h : Regular B p) (ha : c.allows p = true) : c.den p :=
  (RC.allows_iff_den c p hc.1 hp (regular_of_member hc h)).1 ha

/-- `cur` covers: every version is within its top or above its bottom -/
theorem cover_of_member {B : List Version} {c : RC} (hc : RegMember B c) (p : Version) :
    c.view.denHi p ∨ c.view.denLo p :=
  VRange.strictlyLower_false_cover (RC.view_NE hc.2.2.1) p

theorem dkey_union (A : Prop) (bx by' bc bt bo bts : Bool) (hxy : (bx || by') = (bc && !bt))
    (hX : bx = true → bts = false) (hO : bt = true → bo = false) :
    ((A ∨ bx = true) ∨ ((by' = true ∨ bo = true) ∧ bts = false)) ↔
      (A ∨ ((bc = true ∨ bo = true) ∧ (bt || bts) = false)) := by
  cases bx <;> cases by' <;> cases bc <;> cases bt <;> cases bo <;> cases bts <;> simp_all

theorem dkey_their (A : Prop) (bc bt bo bts : Bool) (hO : bt = true → bo = false) :
    (A ∨ (((bc && !bt) = true ∨ bo = true) ∧ bts = false)) ↔
      (A ∨ ((bc = true ∨ bo = true) ∧ (bt || bts) = false)) := by
  cases bc <;> cases bt <;> cases bo <;> cases bts <;> simp_all

theorem dkey_our (A : Prop) (bc bt bo bts : Bool) (hTS : (bc && !bt) = true → bts = false) :
    ((A ∨ (bc && !bt) = true) ∨ (bo = true ∧ (bt || bts) = false)) ↔
      (A ∨ ((bc = true ∨ bo = true) ∧ (bt || bts) = false)) := by
  cases bc <;> cases bt <;> cases bo <;> cases bts <;> simp_all

theorem below_of_sorted {o : RC} {os : List RC} (h : SortedRC (o :: os)) :
    ∀ o' ∈ os, ∀ p, ¬ (o.view.denHi p ∧ o'.view.denLo p) :=
  fun o' ho' p => VRange.strictlyLower_true ((List.pairwise_cons.1 h).1 o' ho') p

/-- **the merge walk of `VersionUnion.difference`** in the regular setting: with the model's fuel it returns;
every collected piece is a single regular member; and the pieces admit a regular probe exactly when one already
collected does, or (`cur` or a later member of ours) does and no member of theirs does. -/
theorem unionDiffLoop_sem {B : List Version} (hB : RegB B) : ∀ (fuel : Nat) (cur : RC) (ours : List RC)
    (their : RC) (theirs : List RC) (acc : List VC),
    ours.length + theirs.length < fuel → DInv B cur ours their theirs acc →
    ∃ parts, VC.unionDiffLoop fuel cur ours their theirs acc = .ok parts ∧ (∀ q ∈ parts, PieceOK B q) ∧
      DSem B parts acc cur ours (their :: theirs)
  | 0, _, _, _, _, _, hf, _ => by omega
  | fuel + 1, cur, ours, their, theirs, acc, hf, inv => by
    -- continuation 1: `their` is finished
    have theirNext : ∀ (e : PyM (List VC)) (cur' : RC) (acc' : List VC),
        (∀ t ts, theirs = t :: ts → e = VC.unionDiffLoop fuel cur' ours t ts acc') →
        (theirs = [] → e = .ok (acc' ++ [.single cur'] ++ ours.map VC.single)) →
        RegMember B cur' → (∀ o ∈ ours, ∀ p, ¬ (cur'.view.denHi p ∧ o.view.denLo p)) →
        (∀ q ∈ acc', PieceOK B q) →
        ∃ parts, e = .ok parts ∧ (∀ q ∈ parts, PieceOK B q) ∧ DSem B parts acc' cur' ours theirs := by
      intro e cur' acc' h1 h2 hc' hb' ha'
      cases hth : theirs with
      | nil =>
        refine ⟨_, h2 hth, ?_, ?_⟩
        · intro q hq
          simp only [List.mem_append, List.mem_singleton, List.mem_map] at hq
          rcases hq with (hq | rfl) | ⟨o, ho, rfl⟩
          · exact ha' q hq
          · exact ⟨cur', rfl, hc'⟩
          · exact ⟨o, rfl, inv.hours o ho⟩
        · intro p _ _
          rw [anyPart_append, anyPart_append, anyPart_single, anyPart_map_single]
          simp [anyAllows, or_assoc]
      | cons t ts =>
        have hts : ∀ x ∈ ts, RegMember B x := fun x hx => inv.htheirs x (by rw [hth]; simp [hx])
        have sT' : SortedRC (t :: ts) := by
          have := (List.pairwise_cons.1 inv.sT).2; rw [hth] at this; exact this
        obtain ⟨parts, p1, p2, p3⟩ := unionDiffLoop_sem hB fuel cur' ours t ts acc'
          (by rw [hth] at hf; simp at hf ⊢; omega)
          ⟨hc', inv.hours, inv.htheirs t (by rw [hth]; simp), hts, sT', inv.sO, hb', ha'⟩
        exact ⟨parts, (h1 t ts hth).trans p1, p2, p3⟩
    -- continuation 2: `cur` is finished
    have ourNext : ∀ (e : PyM (List VC)) (acc'' : List VC),
        (∀ o os, ours = o :: os → e = VC.unionDiffLoop fuel o os their theirs acc'') →
        (ours = [] → e = .ok acc'') → (∀ q ∈ acc'', PieceOK B q) →
        ∃ parts, e = .ok parts ∧ (∀ q ∈ parts, PieceOK B q) ∧
          ∀ p, p.wf = true → Regular B p →
            (anyPart parts p ↔ (anyPart acc'' p ∨ (anyAllows ours p = true ∧ anyAllows (their :: theirs) p = false))) := by
      intro e acc'' h1 h2 ha'
      cases hou : ours with
      | nil => exact ⟨_, h2 hou, ha', fun p _ _ => by simp [anyAllows]⟩
      | cons o os =>
        have hos : ∀ x ∈ os, RegMember B x := fun x hx => inv.hours x (by rw [hou]; simp [hx])
        have sO' : SortedRC (o :: os) := by have := inv.sO; rw [hou] at this; exact this
        obtain ⟨parts, p1, p2, p3⟩ := unionDiffLoop_sem hB fuel o os their theirs acc''
          (by rw [hou] at hf; simp at hf ⊢; omega)
          ⟨inv.hours o (by rw [hou]; simp), hos, inv.htheir, inv.htheirs, inv.sT, (List.pairwise_cons.1 sO').2,
            below_of_sorted sO', ha'⟩
        refine ⟨parts, (h1 o os hou).trans p1, p2, fun p hp hreg => ?_⟩
        rw [p3 p hp hreg, anyAllows_cons o os, Bool.or_eq_true]
    -- facts about the current probe
    have hcov := cover_of_member inv.hcur
    -- no member of ours is met by `their` once `their`'s top is within `cur`'s top
    have oursFree : ∀ p, p.wf = true → Regular B p → (their.view.denHi p → cur.view.denHi p) →
        their.allows p = true → anyAllows ours p = false := by
      intro p hp hreg htop htp
      apply anyAllows_false_of_den (fun c hc => (inv.hours c hc).1) hp
        (hreg.mono (fun e he => by
          simp only [boundsOf, List.mem_flatMap] at he
          obtain ⟨c, hc, hce⟩ := he
          exact (inv.hours c hc).2.2.2 e hce))
      intro o ho hd
      exact inv.below o ho p ⟨htop (den_of_allows inv.htheir hp hreg htp).2, hd.1⟩
    simp only [VC.unionDiffLoop, VRange.isStrictlyHigher]
    by_cases hA : their.view.isStrictlyLower cur.view = true
    · -- `their` lies entirely below `cur`
      simp only [hA, if_true]
      obtain ⟨parts, p1, p2, p3⟩ := theirNext (match theirs with | t :: ts => VC.unionDiffLoop fuel cur ours t ts acc | [] => .ok (acc ++ [.single cur] ++ ours.map VC.single)) cur acc (fun t ts h => by rw [h]) (fun h => by rw [h])
        inv.hcur inv.below inv.accOK
      refine ⟨parts, p1, p2, fun p hp hreg => ?_⟩
      rw [p3 p hp hreg, anyAllows_cons their theirs]
      have hT : (cur.allows p = true ∨ anyAllows ours p = true) → their.allows p = false := by
        intro hco
        cases htp : their.allows p
        · rfl
        · exfalso
          have hdt := den_of_allows inv.htheir hp hreg htp
          have hnl : ¬ cur.view.denLo p := fun h => VRange.strictlyLower_true hA p ⟨hdt.2, h⟩
          rcases hco with hc | ho
          · exact hnl (den_of_allows inv.hcur hp hreg hc).1
          · have hch : cur.view.denHi p := by
              rcases hcov p with h | h
              · exact h
              · exact absurd h hnl
            have := oursFree p hp hreg (fun _ => hch) htp
            rw [this] at ho; cases ho
      constructor
      · rintro (h | ⟨h1, h2⟩)
        · exact Or.inl h
        · exact Or.inr ⟨h1, by simp [hT h1, h2]⟩
      · rintro (h | ⟨h1, h2⟩)
        · exact Or.inl h
        · exact Or.inr ⟨h1, by simp only [Bool.or_eq_false_iff] at h2; exact h2.2⟩
    · simp only [hA, Bool.false_eq_true, if_false]
      by_cases hBr : cur.view.isStrictlyLower their.view = true
      · -- `cur` lies entirely below `their`: it is kept whole
        simp only [hBr, if_true]
        have hacc' : ∀ q ∈ acc ++ [VC.single cur], PieceOK B q := by
          intro q hq
          simp only [List.mem_append, List.mem_singleton] at hq
          rcases hq with h | rfl
          · exact inv.accOK q h
          · exact ⟨cur, rfl, inv.hcur⟩
        obtain ⟨parts, p1, p2, p3⟩ := ourNext (match ours with | o :: os => VC.unionDiffLoop fuel o os their theirs (acc ++ [.single cur]) | [] => .ok (acc ++ [.single cur])) (acc ++ [.single cur]) (fun o os h => by rw [h])
          (fun h => by rw [h]) hacc'
        refine ⟨parts, p1, p2, fun p hp hreg => ?_⟩
        rw [p3 p hp hreg, anyPart_append, anyPart_single]
        have hC : cur.allows p = true → anyAllows (their :: theirs) p = false := fun hc =>
          all_higher (fun c hc' => by
              simp only [List.mem_cons] at hc'
              rcases hc' with rfl | hc'
              · exact ⟨inv.htheir.1, inv.htheir.2.1, inv.htheir.2.2.1⟩
              · exact ⟨(inv.htheirs c hc').1, (inv.htheirs c hc').2.1, (inv.htheirs c hc').2.2.1⟩)
            inv.hcur.1 inv.sT hBr p hp
            (hreg.mono (fun e he => by
              simp only [boundsOf, List.mem_flatMap, List.mem_cons] at he
              obtain ⟨c, hc', hce⟩ := he
              rcases hc' with rfl | hc'
              · exact inv.htheir.2.2.2 e hce
              · exact (inv.htheirs c hc').2.2.2 e hce))
            (regular_of_member inv.hcur hreg) hc
        constructor
        · rintro ((h | h) | ⟨h1, h2⟩)
          · exact Or.inl h
          · exact Or.inr ⟨Or.inl h, hC h⟩
          · exact Or.inr ⟨Or.inr h1, h2⟩
        · rintro (h | ⟨h1 | h1, h2⟩)
          · exact Or.inl (Or.inl h)
          · exact Or.inl (Or.inr h1)
          · exact Or.inr ⟨h1, h2⟩
      · simp only [hBr, Bool.false_eq_true, if_false, bind, Except.bind]
        -- they overlap: subtract
        obtain ⟨d, hd⟩ := difference_ok hB.reg hB.noloc cur their inv.hcur.1 inv.hcur.2.1 inv.htheir.1
          inv.htheir.2.1 inv.hcur.2.2.2 inv.htheir.2.2.2
        have spec := difference_specR hB cur their inv.hcur inv.htheir d hd
        simp only [hd]
        have hex : ∀ p, p.wf = true → Regular B p → d.allowsPlain p = (cur.allows p && !their.allows p) :=
          fun p hp hreg => spec.base.exact p hp (hreg.mono (by
            intro e he
            simp only [List.mem_append] at he
            rcases he with h | h
            · exact inv.hcur.2.2.2 e h
            · exact inv.htheir.2.2.2 e h))
        have belowOf : ∀ c ∈ d.flatten, ∀ o ∈ ours, ∀ p, ¬ (c.view.denHi p ∧ o.view.denLo p) :=
          fun c hc o ho p h => inv.below o ho p ⟨spec.top c hc p h.1, h.2⟩
        have theirsFree : ∀ c, RegMember B c → ∀ p, p.wf = true → Regular B p →
            (c.view.denHi p → their.view.denHi p) → c.allows p = true → anyAllows theirs p = false := by
          intro c hc p hp hreg htop hcp
          apply anyAllows_false_of_den (fun x hx => (inv.htheirs x hx).1) hp
            (hreg.mono (fun e he => by
              simp only [boundsOf, List.mem_flatMap] at he
              obtain ⟨x, hx, hxe⟩ := he
              exact (inv.htheirs x hx).2.2.2 e hxe))
          intro t ht hdt
          exact VRange.strictlyLower_true ((List.pairwise_cons.1 inv.sT).1 t ht) p
            ⟨htop (den_of_allows hc hp hreg hcp).2, hdt.1⟩
        cases d with
        | empty =>
          simp only
          obtain ⟨parts, p1, p2, p3⟩ := ourNext (match ours with | o :: os => VC.unionDiffLoop fuel o os their theirs acc | [] => .ok acc) acc (fun o os h => by rw [h]) (fun h => by rw [h])
            inv.accOK
          refine ⟨parts, p1, p2, fun p hp hreg => ?_⟩
          rw [p3 p hp hreg]
          have h0 := hex p hp hreg
          simp only [VC.allowsPlain, VC.flatten, List.any_nil] at h0
          have hCT : cur.allows p = true → their.allows p = true := by
            intro hc; cases ht : their.allows p
            · simp [hc, ht] at h0
            · rfl
          constructor
          · rintro (h | ⟨h1, h2⟩)
            · exact Or.inl h
            · exact Or.inr ⟨Or.inr h1, h2⟩
          · rintro (h | ⟨h1 | h1, h2⟩)
            · exact Or.inl h
            · exfalso
              rw [anyAllows_cons, hCT h1] at h2; simp at h2
            · exact Or.inr ⟨h1, h2⟩
        | single d' =>
          have hd' := spec.mem d' (by simp [VC.flatten])
          have hD : ∀ p, p.wf = true → Regular B p → d'.allows p = (cur.allows p && !their.allows p) := by
            intro p hp hreg
            have := hex p hp hreg
            simpa [VC.allowsPlain, VC.flatten] using this
          simp only
          by_cases hh : d'.view.allowsHigher their.view = true
          · simp only [hh, if_true]
            obtain ⟨parts, p1, p2, p3⟩ := theirNext (match theirs with | t :: ts => VC.unionDiffLoop fuel d' ours t ts acc | [] => .ok (acc ++ [.single d'] ++ ours.map VC.single)) d' acc (fun t ts h => by rw [h]) (fun h => by rw [h])
              hd' (belowOf d' (by simp [VC.flatten])) inv.accOK
            refine ⟨parts, p1, p2, fun p hp hreg => ?_⟩
            rw [p3 p hp hreg, anyAllows_cons their theirs, hD p hp hreg]
            have hO : their.allows p = true → anyAllows ours p = false := fun ht =>
              oursFree p hp hreg (fun h => spec.top d' (by simp [VC.flatten]) p (VRange.allowsHigher_true hh p h)) ht
            exact dkey_their _ _ _ _ _ hO
          · simp only [hh, Bool.false_eq_true, if_false]
            simp only [Bool.not_eq_true] at hh
            have hacc' : ∀ q ∈ acc ++ [VC.single d'], PieceOK B q := by
              intro q hq
              simp only [List.mem_append, List.mem_singleton] at hq
              rcases hq with h | rfl
              · exact inv.accOK q h
              · exact ⟨d', rfl, hd'⟩
            obtain ⟨parts, p1, p2, p3⟩ := ourNext (match ours with | o :: os => VC.unionDiffLoop fuel o os their theirs (acc ++ [.single d']) | [] => .ok (acc ++ [.single d'])) (acc ++ [.single d']) (fun o os h => by rw [h])
              (fun h => by rw [h]) hacc'
            refine ⟨parts, p1, p2, fun p hp hreg => ?_⟩
            rw [p3 p hp hreg, anyPart_append, anyPart_single, anyAllows_cons their theirs, hD p hp hreg]
            have hTS : d'.allows p = true → anyAllows theirs p = false := fun hdp =>
              theirsFree d' hd' p hp hreg (VRange.allowsHigher_false hh p) hdp
            rw [hD p hp hreg] at hTS
            exact dkey_our _ _ _ _ _ hTS
        | union ds =>
          obtain ⟨x, y, hds, hxlow⟩ := spec.base.pair ds rfl
          subst hds
          have hx := spec.mem x (by simp [VC.flatten])
          have hy := spec.mem y (by simp [VC.flatten])
          simp only [List.length_cons, List.length_nil, bne_self_eq_false, Bool.false_eq_true, if_false]
          have hacc' : ∀ q ∈ acc ++ [VC.single x], PieceOK B q := by
            intro q hq
            simp only [List.mem_append, List.mem_singleton] at hq
            rcases hq with h | rfl
            · exact inv.accOK q h
            · exact ⟨x, rfl, hx⟩
          obtain ⟨parts, p1, p2, p3⟩ := theirNext (match theirs with | t :: ts => VC.unionDiffLoop fuel y ours t ts (acc ++ [.single x]) | [] => .ok ((acc ++ [.single x]) ++ [.single y] ++ ours.map VC.single)) y (acc ++ [.single x]) (fun t ts h => by rw [h])
            (fun h => by rw [h]) hy (belowOf y (by simp [VC.flatten])) hacc'
          refine ⟨parts, p1, p2, fun p hp hreg => ?_⟩
          rw [p3 p hp hreg, anyPart_append, anyPart_single, anyAllows_cons their theirs]
          have hxy := hex p hp hreg
          simp only [VC.allowsPlain, VC.flatten, List.any_cons, List.any_nil, Bool.or_false] at hxy
          have hX : x.allows p = true → anyAllows theirs p = false := by
            intro hxp
            have hsem := (RC.allows_iff_sem x p hx.1.wfB hp (regular_of_member hx hreg)).1 hxp
            exact below_disjoint (fun c hc => by
                simp only [List.mem_cons] at hc
                rcases hc with rfl | hc
                · exact ⟨inv.htheir.1, inv.htheir.2.1, inv.htheir.2.2.1⟩
                · exact ⟨(inv.htheirs c hc).1, (inv.htheirs c hc).2.1, (inv.htheirs c hc).2.2.1⟩)
              inv.sT p hp (hreg.mono (fun e he => by
                simp only [boundsOf, List.mem_flatMap] at he
                obtain ⟨c, hc, hce⟩ := he
                exact (inv.htheirs c hc).2.2.2 e hce)) (hxlow p hsem)
          have hO : their.allows p = true → anyAllows ours p = false := fun ht =>
            oursFree p hp hreg (spec.pairTop _ rfl p) ht
          exact dkey_union _ _ _ _ _ _ _ hxy hX hO

theorem RegB.mono {B B' : List Version} (h : RegB B) (hs : ∀ e ∈ B', e ∈ B) : RegB B' :=
  ⟨fun x hx y hy => h.reg x (hs x hx) y (hs y hy), fun e he => h.noloc e (hs e he)⟩

theorem RegMember.mono {B B' : List Version} {c : RC} (h : RegMember B c) (hs : ∀ e ∈ c.bounds, e ∈ B') :
    RegMember B' c := ⟨h.1, h.2.1, h.2.2.1, hs⟩

/-- **`union.difference(b)` in the regular setting**: defined; the result is a well-formed constraint over regular
members (bounds among the operands'); and it admits a regular probe iff the union does and `b` does not. -/
theorem union_difference_reg {B : List Version} (hB : RegB B) (rs : List RC) (b : VC)
    (hwa : (VC.union rs).WF) (hwb : b.WF)
    (ho : ∀ c ∈ rs, RegMember B c) (ht : ∀ c ∈ b.flatten, RegMember B c) :
    ∃ res, VC.difference (.union rs) b = .ok res ∧ res.WF ∧ (∀ c ∈ res.flatten, RegMember B c) ∧
      ∀ p, p.wf = true → Regular (boundsOf rs ++ boundsOf b.flatten) p →
        res.allowsPlain p = (anyAllows rs p && !anyAllows b.flatten p) := by
  -- work over the operands' own bounds
  let B0 := boundsOf rs ++ boundsOf b.flatten
  have hsub : ∀ e ∈ B0, e ∈ B := by
    intro e he
    simp only [B0, List.mem_append, boundsOf, List.mem_flatMap] at he
    rcases he with ⟨c, hc, hce⟩ | ⟨c, hc, hce⟩
    · exact (ho c hc).2.2.2 e hce
    · exact (ht c hc).2.2.2 e hce
  have hB0 : RegB B0 := hB.mono hsub
  have ho0 : ∀ c ∈ rs, RegMember B0 c := fun c hc => (ho c hc).mono (fun e he =>
    List.mem_append_left _ (mem_boundsOf hc he))
  have ht0 : ∀ c ∈ b.flatten, RegMember B0 c := fun c hc => (ht c hc).mono (fun e he =>
    List.mem_append_right _ (mem_boundsOf hc he))
  have up : ∀ c, RegMember B0 c → RegMember B c := fun c h => h.mono (fun e he => hsub e (h.2.2.2 e he))
  simp only [VC.difference]
  by_cases hbe : b.isEmpty = true
  · simp only [hbe, if_true]
    have : b = .empty := by cases b <;> simp [VC.isEmpty] at hbe; rfl
    subst this
    exact ⟨_, rfl, hwa, ho, fun p _ _ => by simp [VC.allowsPlain, VC.flatten, anyAllows]⟩
  · simp only [hbe, Bool.false_eq_true, if_false]
    cases hrs : rs with
    | nil => rw [hrs] at hwa; simp [VC.WF] at hwa
    | cons cur ours =>
      cases hbf : b.flatten with
      | nil => cases b <;> simp [VC.flatten, VC.isEmpty] at hbf hbe; rw [hbf] at hwb; simp [VC.WF] at hwb
      | cons their theirs =>
        simp only
        have hsO : SortedRC (cur :: ours) := by rw [← hrs]; exact hwa.2.2.1
        have hsT : SortedRC (their :: theirs) := by rw [← hbf]; exact SortedRC_flatten_of_WF b hwb
        have inv : DInv B0 cur ours their theirs [] :=
          ⟨ho0 cur (by rw [hrs]; simp), fun o ho' => ho0 o (by rw [hrs]; simp [ho']),
            ht0 their (by rw [hbf]; simp), fun t ht' => ht0 t (by rw [hbf]; simp [ht']),
            hsT, (List.pairwise_cons.1 hsO).2, below_of_sorted hsO, by simp⟩
        obtain ⟨parts, p1, p2, p3⟩ := unionDiffLoop_sem hB0 (ours.length + theirs.length + 2) cur ours their theirs []
          (by omega) inv
        simp only [p1, bind, Except.bind]
        have hflat : ∀ c ∈ parts.flatMap VC.flatten, RegMember B0 c := by
          intro c hc
          obtain ⟨q, hq, hcq⟩ := List.mem_flatMap.1 hc
          obtain ⟨c', rfl, hc'⟩ := p2 q hq
          simp [VC.flatten] at hcq; subst hcq; exact hc'
        have sem : ∀ p, p.wf = true → Regular B0 p →
            (anyPart parts p ↔ (anyAllows rs p = true ∧ anyAllows b.flatten p = false)) := by
          intro p hp hreg
          rw [p3 p hp hreg, hrs, hbf, anyAllows_cons cur ours, Bool.or_eq_true]
          simp [anyPart]
        have fin : ∀ res : VC, (∀ p, p.wf = true → Regular B0 p → (res.allowsPlain p = true ↔ anyPart parts p)) →
            ∀ p, p.wf = true → Regular (boundsOf (cur :: ours) ++ boundsOf (their :: theirs)) p →
              res.allowsPlain p = (anyAllows (cur :: ours) p && !anyAllows (their :: theirs) p) := by
          intro res hres p hp hreg'
          have hreg : Regular B0 p := by simp only [B0, hrs, hbf]; exact hreg'
          apply bool_eq_of_iff
          rw [hres p hp hreg, sem p hp hreg, hrs, hbf, Bool.and_eq_true, Bool.not_eq_true']
        cases parts with
        | nil =>
          refine ⟨.empty, rfl, trivial, by simp [VC.flatten], fin _ (fun p _ _ => by simp [VC.allowsPlain, VC.flatten, anyPart])⟩
        | cons q qs =>
          cases qs with
          | nil =>
            obtain ⟨c, rfl, hc⟩ := p2 q (by simp)
            refine ⟨.single c, rfl, ⟨hc.1, hc.2.2.1⟩, fun x hx => by simp [VC.flatten] at hx; subst hx; exact up _ hc,
              fin _ (fun p _ _ => by simp [anyPart, VC.allowsPlain, VC.flatten])⟩
          | cons q2 qs2 =>
            obtain ⟨res, hres, hwf, hmem, hex⟩ := unionOfFlat_reg hB0 ((q :: q2 :: qs2).flatMap VC.flatten) hflat
            refine ⟨res, by simp only [VC.unionOf]; exact hres, hwf, fun c hc => up c (hmem c hc), fin res ?_⟩
            intro p hp hreg
            rw [hex p hp (hreg.mono (by
              intro e he
              simp only [boundsOf, List.mem_flatMap] at he
              obtain ⟨c, hc, hce⟩ := he
              exact (hflat c (List.mem_flatMap.2 hc)).2.2.2 e hce))]
            simp only [anyAllows, anyPart, VC.allowsPlain, List.any_eq_true, List.mem_flatMap]
            constructor
            · rintro ⟨c, ⟨q', hq', hc⟩, hcp⟩; exact ⟨q', hq', c, hc, hcp⟩
            · rintro ⟨q', hq', c, hc, hcp⟩; exact ⟨c, ⟨q', hq', hc⟩, hcp⟩

/-! ### well-formedness of member-level differences, `range ∖ union`, and the general dispatch -/

/-- a union returned by a member-level difference was made by `VersionUnion.of` from two pieces -/
theorem difference_union_src (cur r : RC) (ds : List RC) (h : RC.difference cur r = .ok (.union ds)) :
    ∃ x y, unionOfFlat [x, y] = .ok (.union ds) := by
  cases cur with
  | ver a =>
    simp only [RC.difference, RC.verDifference, Except.ok.injEq] at h
    split at h <;> cases h
  | rng a =>
    cases r with
    | ver v =>
      simp only [RC.difference, RC.rngDifferenceVer] at h
      repeat' split at h
      all_goals first | (cases h; done) | exact ⟨_, _, h⟩
    | rng b =>
      simp only [RC.difference] at h
      rw [VRange.rngDifferenceRng_eq] at h
      obtain ⟨any, hany⟩ := RC.allowsAny_ok (.rng a) (.rng b)
      simp only [hany, bind, Except.bind] at h
      cases any with
      | false => simp [pure, Except.pure] at h
      | true =>
        simp only [Bool.not_true, Bool.false_eq_true, if_false] at h
        cases e1 : VRange.beforePiece a b with
        | error e => simp [e1] at h
        | ok o1 =>
          cases e2 : VRange.afterPiece a b with
          | error e => simp [e1, e2] at h
          | ok o2 =>
            simp only [e1, e2] at h
            cases o1 <;> cases o2 <;> simp [pure, Except.pure] at h
            exact ⟨_, _, h⟩

/-- when `VersionUnion.of(x, y)` answers with a union, it is the two members in sort order, found disjoint and
not adjacent -/
theorem unionOfFlat_pair_struct (x y : RC) (ds : List RC) (h : unionOfFlat [x, y] = .ok (.union ds)) :
    ∃ s0 s1, ds = [s0, s1] ∧ RC.lt s1 s0 = false ∧ RC.allowsAny s0 s1 = .ok false ∧
      s0.view.isAdjacentTo s1.view = false := by
  have key : ∀ s0 s1 : RC, sortRCs [x, y] = [s0, s1] → RC.lt s1 s0 = false →
      ∃ s0 s1, ds = [s0, s1] ∧ RC.lt s1 s0 = false ∧ RC.allowsAny s0 s1 = .ok false ∧
        s0.view.isAdjacentTo s1.view = false := by
    intro s0 s1 hs hlt
    unfold unionOfFlat at h
    simp only [List.isEmpty_cons, Bool.false_eq_true, if_false] at h
    split at h
    · simp [VC.any] at h
    · rw [hs] at h
      obtain ⟨any, hany⟩ := RC.allowsAny_ok s0 s1
      simp only [bind, Except.bind] at h
      by_cases hb : (!any && !s0.view.isAdjacentTo s1.view) = true
      · have : mergeLoop [s0, s1] [] = .ok [s0, s1] := by simp [mergeLoop, hany, bind, Except.bind, hb]
        rw [this] at h
        simp only [pure, Except.pure, Except.ok.injEq, VC.union.injEq] at h
        simp only [Bool.and_eq_true, Bool.not_eq_true'] at hb
        exact ⟨s0, s1, h.symm, hlt, by rw [hany, hb.1], hb.2⟩
      · cases hu : rcUnionSingle s0 s1 with
        | error e =>
          have : mergeLoop [s0, s1] [] = .error e := by simp [mergeLoop, hany, bind, Except.bind, hb, hu]
          rw [this] at h; simp at h
        | ok o =>
          cases o with
          | none =>
            have : mergeLoop [s0, s1] [] = .error .recursion := by simp [mergeLoop, hany, bind, Except.bind, hb, hu]
            rw [this] at h; simp at h
          | some u =>
            have : mergeLoop [s0, s1] [] = .ok [u] := by simp [mergeLoop, hany, bind, Except.bind, hb, hu]
            rw [this] at h; simp [pure, Except.pure] at h
  by_cases hlt : RC.lt y x = true
  · exact key y x (by simp [sortRCs, insertSorted, hlt]) (RC.lt_asymm' hlt)
  · exact key x y (by simp [sortRCs, insertSorted, hlt]) (by simpa using hlt)

/-- **a member-level difference of regular members is a well-formed constraint** -/
theorem difference_wfR {B : List Version} (hB : RegB B) (cur r : RC) (hc : RegMember B cur) (hr : RegMember B r)
    (d : VC) (h : RC.difference cur r = .ok d) : d.WF := by
  have spec := difference_specR hB cur r hc hr d h
  cases d with
  | empty => trivial
  | single c => exact ⟨(spec.mem c (by simp [VC.flatten])).1, (spec.mem c (by simp [VC.flatten])).2.2.1⟩
  | union ds =>
    obtain ⟨x, y, hxy⟩ := difference_union_src cur r ds h
    obtain ⟨s0, s1, hds, hlt, hany, hadj⟩ := unionOfFlat_pair_struct x y ds hxy
    subst hds
    have h0 := spec.mem s0 (by simp [VC.flatten])
    have h1 := spec.mem s1 (by simp [VC.flatten])
    have hview := RC.allowsAny_view hB s0 s1 h0.1 h1.1 h0.2.2.2 h1.2.2.2
    rw [hany] at hview
    simp only [Except.ok.injEq] at hview
    have hmin : VRange.minLE s0.view s1.view := VRange.minLE_of_cmp (by
      rw [← RC.lt_iff_cmp]; simp [hlt])
    have hsl : s0.view.isStrictlyLower s1.view = true := by
      have h10 := VRange.strict_of_lower_false (RC.view_NE h1.2.2.1) hmin
      cases hq : s0.view.isStrictlyLower s1.view
      · rw [h10, hq] at hview; simp at hview
      · rfl
    refine ⟨by simp, ?_, ?_, ⟨⟨hsl, hadj⟩, trivial⟩⟩
    · intro c hc'
      simp only [List.mem_cons, List.mem_nil_iff, or_false] at hc'
      rcases hc' with rfl | rfl
      · exact ⟨h0.1, h0.2.2.1⟩
      · exact ⟨h1.1, h1.2.2.1⟩
    · simp only [SortedRC, List.pairwise_cons, List.mem_singleton, forall_eq, List.not_mem_nil, false_implies,
        implies_true, List.Pairwise.nil, and_true]
      exact hsl

theorem unionOfFlat_reg_of_ok {B : List Version} (hB : RegB B) (l : List RC) (hm : ∀ c ∈ l, RegMember B c)
    (res : VC) (h : unionOfFlat l = .ok res) : res.WF ∧ ∀ c ∈ res.flatten, RegMember B c := by
  obtain ⟨res', h1, h2, h3, _⟩ := unionOfFlat_reg hB l hm
  rw [h] at h1; cases h1; exact ⟨h2, h3⟩

theorem finish_wf {B : List Version} (hB : RegB B) (cur : RC) (ranges : List RC) (res : VC)
    (h : VC.rngDiffFinish cur ranges = .ok res) (hc : RegMember B cur) (hg : ∀ c ∈ ranges, RegMember B c) :
    res.WF ∧ ∀ c ∈ res.flatten, RegMember B c := by
  unfold VC.rngDiffFinish at h
  split at h
  · cases h
    exact ⟨⟨hc.1, hc.2.2.1⟩, fun c hc' => by simp [VC.flatten] at hc'; subst hc'; exact hc⟩
  · exact unionOfFlat_reg_of_ok hB _ (by
      intro c hc'
      simp only [List.mem_append, List.mem_singleton] at hc'
      rcases hc' with h1 | rfl
      · exact hg c h1
      · exact hc) res h

/-- `range ∖ union` in the regular setting returns a well-formed constraint over regular members -/
theorem rngDiffUnionLoop_wf {B : List Version} (hB : RegB B) : ∀ (rs : List RC) (cur : RC) (ranges : List RC) (res : VC),
    VC.rngDiffUnionLoop rs cur ranges = .ok res → (∀ c ∈ rs, RegMember B c) → RegMember B cur →
    (∀ c ∈ ranges, RegMember B c) → res.WF ∧ ∀ c ∈ res.flatten, RegMember B c
  | [], cur, ranges, res, h, _, hc, hg => by
    simp only [VC.rngDiffUnionLoop] at h
    exact finish_wf hB cur ranges res h hc hg
  | r :: rest, cur, ranges, res, h, hm, hc, hg => by
    have hrest : ∀ c ∈ rest, RegMember B c := fun c hc' => hm c (by simp [hc'])
    simp only [VC.rngDiffUnionLoop, VRange.isStrictlyHigher] at h
    by_cases h1 : r.view.isStrictlyLower cur.view = true
    · simp only [h1, if_true] at h
      exact rngDiffUnionLoop_wf hB rest cur ranges res h hrest hc hg
    · simp only [h1, Bool.false_eq_true, if_false] at h
      by_cases h2 : cur.view.isStrictlyLower r.view = true
      · simp only [h2, if_true] at h
        exact finish_wf hB cur ranges res h hc hg
      · simp only [h2, Bool.false_eq_true, if_false, bind, Except.bind] at h
        cases hd : RC.difference cur r with
        | error e => simp [hd] at h
        | ok d =>
          simp only [hd] at h
          have spec := difference_specR hB cur r hc (hm r (by simp)) d hd
          cases d with
          | empty => exact unionOfFlat_reg_of_ok hB ranges hg res h
          | single d' =>
            exact rngDiffUnionLoop_wf hB rest d' ranges res h hrest (spec.mem d' (by simp [VC.flatten])) hg
          | union ds =>
            obtain ⟨x, y, hds, _⟩ := spec.base.pair ds rfl
            subst hds
            simp only [List.head?_cons, List.getLast?_cons_cons, List.getLast?_singleton] at h
            exact rngDiffUnionLoop_wf hB rest y (ranges ++ [x]) res h hrest (spec.mem y (by simp [VC.flatten]))
              (by
                intro c hc'
                simp only [List.mem_append, List.mem_singleton] at hc'
                rcases hc' with h' | rfl
                · exact hg c h'
                · exact spec.mem _ (by simp [VC.flatten]))

theorem anyAllows_congr {B : List Version} (l : List RC) (hl : ∀ c ∈ l, RegMember B c) {p v : Version}
    (hp : p.wf = true) (hv : v.wf = true) (hreg : Regular (boundsOf l) p) (h : vk p = vk v) :
    anyAllows l p = anyAllows l v := by
  unfold anyAllows
  induction l with
  | nil => rfl
  | cons c cs ih =>
    simp only [List.any_cons]
    rw [RC.allows_congr c (hl c (by simp)).1 hp hv (hreg.mono (fun e he => mem_boundsOf (by simp) he)) h,
      ih (fun x hx => hl x (by simp [hx])) (hreg.mono (fun e he => by
        simp only [boundsOf, List.flatMap_cons, List.mem_append] at he ⊢; exact Or.inr he))]

/-- **`a.difference(b)` for any two well-formed constraints over regular members**: defined, the result is again a
well-formed constraint over regular members, and it admits a regular probe iff `a` does and `b` does not -/
theorem VC.difference_reg {B : List Version} (hB : RegB B) (a b : VC) (ha : a.WF) (hb : b.WF)
    (hma : ∀ c ∈ a.flatten, RegMember B c) (hmb : ∀ c ∈ b.flatten, RegMember B c) :
    ∃ res, VC.difference a b = .ok res ∧ res.WF ∧ (∀ c ∈ res.flatten, RegMember B c) ∧
      ∀ p, p.wf = true → Regular (boundsOf a.flatten ++ boundsOf b.flatten) p →
        res.allowsPlain p = (a.allowsPlain p && !b.allowsPlain p) := by
  cases a with
  | empty =>
    exact ⟨.empty, rfl, trivial, by simp [VC.flatten], fun p _ _ => by simp [VC.allowsPlain, VC.flatten]⟩
  | union rs => exact union_difference_reg hB rs b ha hb hma hmb
  | single x =>
    have hx := hma x (by simp [VC.flatten])
    cases x with
    | ver v =>
      have hball := VC.allows_of_reg hB b hb hmb v
      simp only [VC.difference, hball, bind, Except.bind, pure, Except.pure]
      have hvwf : v.wf = true := hx.1
      have key : ∀ p, p.wf = true → Regular (boundsOf (VC.single (.ver v)).flatten ++ boundsOf b.flatten) p →
          v.allows p = true → b.allowsPlain p = b.allowsPlain v := by
        intro p hp hreg hvp
        have hpv := (RC.ver_allows_iff v p hvwf hp (hreg.reg1 (by simp [boundsOf, VC.flatten, RC.bounds_ver]))).1 hvp
        exact anyAllows_congr b.flatten hmb hp hvwf hreg.append_right hpv
      cases hbv : b.allowsPlain v
      · refine ⟨.single (.ver v), by simp, ⟨hx.1, trivial⟩, fun c hc => by simp [VC.flatten] at hc; subst hc; exact hx,
          fun p hp hreg => ?_⟩
        have hs1 : (VC.single (RC.ver v)).allowsPlain p = v.allows p := by simp [VC.allowsPlain, VC.flatten, RC.allows]
        rw [hs1]
        cases hvp : v.allows p
        · simp
        · rw [key p hp hreg hvp, hbv]; rfl
      · refine ⟨.empty, by simp, trivial, by simp [VC.flatten], fun p hp hreg => ?_⟩
        have hs1 : (VC.single (RC.ver v)).allowsPlain p = v.allows p := by simp [VC.allowsPlain, VC.flatten, RC.allows]
        have hs0 : VC.empty.allowsPlain p = false := by simp [VC.allowsPlain, VC.flatten]
        rw [hs1, hs0]
        cases hvp : v.allows p
        · simp
        · rw [key p hp hreg hvp, hbv]; rfl
    | rng r =>
      cases b with
      | empty =>
        exact ⟨.single (.rng r), rfl, ha, hma, fun p _ _ => by simp [VC.allowsPlain, VC.flatten]⟩
      | single c =>
        have hc := hmb c (by simp [VC.flatten])
        obtain ⟨d, hd⟩ := difference_ok hB.reg hB.noloc (.rng r) c hx.1 hx.2.1 hc.1 hc.2.1 hx.2.2.2 hc.2.2.2
        have spec := difference_specR hB (.rng r) c hx hc d hd
        refine ⟨d, hd, difference_wfR hB _ _ hx hc d hd, spec.mem, fun p hp hreg => ?_⟩
        rw [spec.base.exact p hp (hreg.mono (by intro e he; simpa [boundsOf, VC.flatten] using he))]
        simp [VC.allowsPlain, VC.flatten]
      | union ts =>
        -- over the operands' own bounds
        let B0 := boundsOf ts ++ r.bounds
        have hsub : ∀ e ∈ B0, e ∈ B := by
          intro e he
          simp only [B0, List.mem_append, boundsOf, List.mem_flatMap] at he
          rcases he with ⟨c, hc, hce⟩ | he
          · exact (hmb c hc).2.2.2 e hce
          · exact hx.2.2.2 e he
        have hB0 : RegB B0 := hB.mono hsub
        have hts0 : ∀ c ∈ ts, UMember c := fun c hc => ⟨(hmb c hc).1, (hmb c hc).2.1, (hmb c hc).2.2.1⟩
        have hall : ∀ e, (e ∈ boundsOf ts ∨ e ∈ (RC.rng r).bounds ∨ e ∈ boundsOf ([] : List RC)) → e ∈ B0 := by
          intro e he
          simp only [B0, List.mem_append]
          rcases he with h' | h' | h'
          · exact Or.inl h'
          · exact Or.inr h'
          · simp [boundsOf] at h'
        obtain ⟨res, hres⟩ := rngDiffUnionLoop_total B0 hB0.reg hB0.noloc ts (.rng r) [] hts0 hx.1 hx.2.1
          (by simp [Good]) hall
        obtain ⟨_, _, g3⟩ := rngDiffUnionLoop_sem B0 hB0.reg ts (.rng r) [] res hres hts0 hb.2.2.1 hx.1 hx.2.1
          (by simp [Good]) hall
        obtain ⟨w1, w2⟩ := rngDiffUnionLoop_wf hB ts (.rng r) [] res hres hmb hx (by simp)
        refine ⟨res, hres, w1, w2, fun p hp hreg => ?_⟩
        rw [g3 p hp (hreg.mono (by
          intro e he
          simp only [B0, List.mem_append] at he
          simp only [List.mem_append, boundsOf, VC.flatten, List.flatMap_cons, List.flatMap_nil, List.append_nil]
          rcases he with h' | h'
          · exact Or.inr h'
          · exact Or.inl h'))]
        simp [anyAllows, VC.allowsPlain, VC.flatten]

/-! ### union, general dispatch -/

theorem unionOf_reg {B : List Version} (hB : RegB B) (cs : List VC) (hm : ∀ c ∈ cs, ∀ x ∈ c.flatten, RegMember B x) :
    ∃ res, VC.unionOf cs = .ok res ∧ res.WF ∧ (∀ c ∈ res.flatten, RegMember B c) ∧
      ∀ p, p.wf = true → Regular (boundsOf (cs.flatMap VC.flatten)) p →
        res.allowsPlain p = anyAllows (cs.flatMap VC.flatten) p :=
  unionOfFlat_reg hB _ (fun x hx => by
    obtain ⟨c, hc, hxc⟩ := List.mem_flatMap.1 hx
    exact hm c hc x hxc)

theorem RC.union_reg {B : List Version} (hB : RegB B) (x y : RC) (hx : RegMember B x) (hy : RegMember B y) :
    ∃ res, RC.union x y = .ok res ∧ res.WF ∧ (∀ c ∈ res.flatten, RegMember B c) ∧
      ∀ p, p.wf = true → Regular (x.bounds ++ y.bounds) p → res.allowsPlain p = (x.allows p || y.allows p) := by
  unfold RC.union
  obtain ⟨o, ho⟩ := rcUnionSingle_ok x y
  simp only [ho, bind, Except.bind]
  cases o with
  | some u =>
    obtain ⟨uw, ut, ub, uex⟩ := RC.rcUnionSingle_exact x y hx.1 hy.1 hx.2.1 hy.2.1 u ho
    have hu : RegMember B u := regMember_of_good hB u uw ut (fun e he => by
      rcases ub e he with h | h
      · exact hx.2.2.2 e h
      · exact hy.2.2.2 e h)
    exact ⟨.single u, rfl, ⟨hu.1, hu.2.2.1⟩, fun c hc => by simp [VC.flatten] at hc; subst hc; exact hu,
      fun p hp hreg => by simpa [VC.allowsPlain, VC.flatten] using uex p hp hreg⟩
  | none =>
    obtain ⟨res, h1, h2, h3, h4⟩ := unionOfFlat_reg hB [x, y] (by
      intro c hc
      simp only [List.mem_cons, List.mem_nil_iff, or_false] at hc
      rcases hc with rfl | rfl
      · exact hx
      · exact hy)
    refine ⟨res, h1, h2, h3, fun p hp hreg => ?_⟩
    rw [h4 p hp (hreg.mono (by intro e he; simpa [boundsOf] using he))]
    simp [anyAllows]

/-- **`a.union(b)` for any two well-formed constraints over regular members**: defined, the result is again a
well-formed constraint over regular members, and it admits a regular probe iff `a` or `b` does -/
theorem VC.unionWith_reg {B : List Version} (hB : RegB B) (a b : VC) (ha : a.WF) (hb : b.WF)
    (hma : ∀ c ∈ a.flatten, RegMember B c) (hmb : ∀ c ∈ b.flatten, RegMember B c) :
    ∃ res, VC.unionWith a b = .ok res ∧ res.WF ∧ (∀ c ∈ res.flatten, RegMember B c) ∧
      ∀ p, p.wf = true → Regular (boundsOf a.flatten ++ boundsOf b.flatten) p →
        res.allowsPlain p = (a.allowsPlain p || b.allowsPlain p) := by
  -- the generic path: `VersionUnion.of(a, b)`
  have viaOf : ∃ res, VC.unionOf [a, b] = .ok res ∧ res.WF ∧ (∀ c ∈ res.flatten, RegMember B c) ∧
      ∀ p, p.wf = true → Regular (boundsOf a.flatten ++ boundsOf b.flatten) p →
        res.allowsPlain p = (a.allowsPlain p || b.allowsPlain p) := by
    obtain ⟨res, h1, h2, h3, h4⟩ := unionOf_reg hB [a, b] (by
      intro c hc
      simp only [List.mem_cons, List.mem_nil_iff, or_false] at hc
      rcases hc with rfl | rfl
      · exact hma
      · exact hmb)
    refine ⟨res, h1, h2, h3, fun p hp hreg => ?_⟩
    rw [h4 p hp (hreg.mono (by intro e he; simpa [boundsOf, List.flatMap_append] using he))]
    simp [anyAllows, VC.allowsPlain, List.any_append]
  cases a with
  | empty =>
    exact ⟨b, rfl, hb, hmb, fun p _ _ => by simp [VC.allowsPlain, VC.flatten]⟩
  | union rs => exact viaOf
  | single x =>
    have hx := hma x (by simp [VC.flatten])
    have viaRC : ∀ c, b = .single c → ∃ res, RC.union x c = .ok res ∧ res.WF ∧ (∀ c' ∈ res.flatten, RegMember B c') ∧
        ∀ p, p.wf = true → Regular (boundsOf (VC.single x).flatten ++ boundsOf b.flatten) p →
          res.allowsPlain p = ((VC.single x).allowsPlain p || b.allowsPlain p) := by
      intro c hc
      subst hc
      obtain ⟨res, h1, h2, h3, h4⟩ := RC.union_reg hB x c hx (hmb c (by simp [VC.flatten]))
      refine ⟨res, h1, h2, h3, fun p hp hreg => ?_⟩
      rw [h4 p hp (hreg.mono (by intro e he; simpa [boundsOf, VC.flatten] using he))]
      simp [VC.allowsPlain, VC.flatten]
    cases x with
    | rng r =>
      cases b with
      | single c => exact viaRC c rfl
      | empty => exact viaOf
      | union ts => exact viaOf
    | ver v =>
      have hball := VC.allows_of_reg hB b hb hmb v
      simp only [VC.unionWith, hball, bind, Except.bind, pure, Except.pure]
      cases hbv : b.allowsPlain v
      · simp only [Bool.false_eq_true, if_false]
        cases b with
        | single c => exact viaRC c rfl
        | empty => exact viaOf
        | union ts => exact viaOf
      · simp only [if_true]
        refine ⟨b, rfl, hb, hmb, fun p hp hreg => ?_⟩
        have hs1 : (VC.single (RC.ver v)).allowsPlain p = v.allows p := by simp [VC.allowsPlain, VC.flatten, RC.allows]
        rw [hs1]
        cases hvp : v.allows p
        · simp
        · have hpv := (RC.ver_allows_iff v p hx.1 hp (hreg.reg1 (by simp [boundsOf, VC.flatten, RC.bounds_ver]))).1 hvp
          have : b.allowsPlain p = b.allowsPlain v := anyAllows_congr b.flatten hmb hp hx.1 hreg.append_right hpv
          rw [this, hbv]; rfl

end Poetry
