/-
`VersionUnion.difference`: the merge walk `unionDiffLoop` is exact in the regular setting (bounds mutually
regular, none local) — helper lemmas for C05.
-/
import PoetryVerif.Proofs.VRangeInterU

set_option linter.unusedSimpArgs false
set_option linter.unusedVariables false

namespace Poetry
open Version

namespace VRange

/-- in the regular setting a non-degenerate range is inhabited: its lower bound is below its effective top -/
theorem NE_of_reg {B : List Version} (hB : RegB B) (r : VRange) (hr : r.WF) (hb : ∀ e ∈ r.bounds, e ∈ B) : r.NE := by
  unfold NE isStrictlyLower allowedMin
  cases hM : r.max with
  | none => simp [allowedMax_none hM]
  | some M =>
    cases hm : r.min with
    | none =>
      cases hA : r.allowedMax <;> simp
    | some m =>
      have hlt := hr.2 m M hm hM
      obtain ⟨A, hA⟩ : ∃ A, r.allowedMax = some A := by
        cases h : r.allowedMax with
        | none => have := allowedMax_isSome (r := r); simp [h, hM] at this
        | some A => exact ⟨A, rfl⟩
      rw [hA]
      have hrk := relKey_allowedMax hM hA
      have hne : relKey m ≠ relKey M := by
        rcases hB.reg m (hb m (mem_bounds_min hm)) M (hb M (mem_bounds_max hM)) with h | h
        · exact absurd h (ne_of_lt hlt)
        · exact h
      have : vk m < vk A := (lt_congr_right (a := M) (a' := A) (b := m) hrk.symm (fun e => hne e.symm)).1 hlt
      simp [(lt_false_iff A m).2 (le_of_lt this), (gt_iff A m).2 this]

/-- `x`'s written top below `y`'s bottom: `x` is strictly below `y` -/
theorem sl_of_max_lt_min {x y : VRange} {M m : Version} (hM : x.max = some M) (hm : y.min = some m)
    (h : vk M < vk m) : x.isStrictlyLower y = true := by
  unfold isStrictlyLower allowedMin
  obtain ⟨A, hA⟩ : ∃ A, x.allowedMax = some A := by
    cases h' : x.allowedMax with
    | none => have := allowedMax_isSome (r := x); simp [h', hM] at this
    | some A => exact ⟨A, rfl⟩
  rw [hA, hm]
  have : vk A < vk m := lt_of_le_of_lt (allowedMax_le hM hA) h
  simp [(lt_iff A m).2 this]

end VRange

/-- two separated members in sort order: `VersionUnion.of` returns their union unchanged -/
theorem unionOfFlat_pair_sep (x y : RC) (hlt : RC.lt y x = false) (hany : RC.allowsAny x y = .ok false)
    (hadj : x.view.isAdjacentTo y.view = false) (hx : x.isAny = false) (hy : y.isAny = false) :
    unionOfFlat [x, y] = .ok (.union [x, y]) := by
  have hs : sortRCs [x, y] = [x, y] := by simp [sortRCs, insertSorted, hlt]
  simp [unionOfFlat, hx, hy, hs, mergeLoop, hany, hadj, bind, Except.bind, pure, Except.pure]

/-- a well-formed, tidy member over `B` is a regular member -/
theorem regMember_of_good {B : List Version} (hB : RegB B) (c : RC) (hw : c.WF) (ht : c.Tidy)
    (hb : ∀ e ∈ c.bounds, e ∈ B) : RegMember B c := by
  refine ⟨hw, ht, ?_, hb⟩
  cases c with
  | ver x => trivial
  | rng r => exact VRange.NE_of_reg hB r hw hb

namespace VRange

/-- the piece `[.., b.min)` ends below `b`'s lower end, hence (when `a` is not strictly below `b`) within `a`'s top -/
theorem top_before {a b c : VRange} (hcov : a.isStrictlyLower b = false) {y : Version} (hy : b.min = some y)
    (hmax : c.max = some y) (himax : c.imax = !b.imin) (p : Version) (h : c.denHi p) : a.denHi p := by
  have hnb : ¬ b.denLo p := by
    obtain ⟨A, hA⟩ : ∃ A, c.allowedMax = some A := by
      cases h' : c.allowedMax with
      | none => have := allowedMax_isSome (r := c); simp [h', hmax] at this
      | some A => exact ⟨A, rfl⟩
    have hle := allowedMax_le hmax hA
    simp only [denHi, hA, himax] at h
    simp only [denLo, hy]
    cases hbi : b.imin
    · simp only [hbi, Bool.not_false, if_true, Bool.false_eq_true, if_false] at h ⊢
      exact not_lt.2 (le_trans h hle)
    · simp only [hbi, Bool.not_true, Bool.false_eq_true, if_false, if_true] at h ⊢
      exact not_le.2 (lt_of_lt_of_le h hle)
  rcases strictlyLower_false_cover hcov p with h1 | h1
  · exact h1
  · exact absurd h1 hnb

theorem denHi_point (a p : Version) : (point a).denHi p ↔ vk p ≤ vk a := by
  unfold denHi; rw [point_allowedMax]; simp [point]

/-- a version strictly inside a regular range lies below the range's effective top -/
theorem lt_top_of_reg {B : List Version} (hB : RegB B) (r : VRange) (hrb : ∀ e ∈ r.bounds, e ∈ B) (v : Version)
    (hv : v ∈ B) (hlt : ∀ M, r.max = some M → vk v < vk M) (p : Version) (hp : vk p ≤ vk v) : r.denHi p := by
  unfold denHi
  cases hM : r.max with
  | none => simp [allowedMax_none hM]
  | some M =>
    obtain ⟨A, hA⟩ : ∃ A, r.allowedMax = some A := by
      cases h' : r.allowedMax with
      | none => have := allowedMax_isSome (r := r); simp [h', hM] at this
      | some A => exact ⟨A, rfl⟩
    rw [hA]
    have hvM := hlt M hM
    have hne : relKey v ≠ relKey M := by
      rcases hB.reg v hv M (hrb M (mem_bounds_max hM)) with h | h
      · exact absurd h (ne_of_lt hvM)
      · exact h
    have hrk := relKey_allowedMax hM hA
    have : vk v < vk A := (lt_congr_right (a := M) (a' := A) (b := v) hrk.symm (fun e => hne e.symm)).1 hvM
    have hpA : vk p < vk A := lt_of_le_of_lt hp this
    simp only
    cases r.imax
    · simpa using hpA
    · simpa using le_of_lt hpA

end VRange

/-- the regular-setting specification of a member-level difference -/
structure DiffSpecR (B : List Version) (cur r : RC) (d : VC) : Prop where
  base : DiffSpec cur r d
  mem : ∀ c ∈ d.flatten, RegMember B c
  top : ∀ c ∈ d.flatten, ∀ p, c.view.denHi p → cur.view.denHi p
  pairTop : ∀ ds, d = .union ds → ∀ p, r.view.denHi p → cur.view.denHi p

theorem DiffSpecR.of_base {B : List Version} (hB : RegB B) {cur r : RC} {d : VC} (base : DiffSpec cur r d)
    (hcb : ∀ e ∈ cur.bounds, e ∈ B) (hrb : ∀ e ∈ r.bounds, e ∈ B)
    (top : ∀ c ∈ d.flatten, ∀ p, c.view.denHi p → cur.view.denHi p)
    (pairTop : ∀ ds, d = .union ds → ∀ p, r.view.denHi p → cur.view.denHi p) : DiffSpecR B cur r d := by
  refine ⟨base, ?_, top, pairTop⟩
  intro c hc
  have hg := base.good c hc
  exact regMember_of_good hB c hg.1 hg.2 (fun e he => by
    have : e ∈ d.bounds := by rw [VC.bounds_eq_flatMap]; exact List.mem_flatMap.2 ⟨c, hc, he⟩
    rcases base.bounds e this with h | h
    · exact hcb e h
    · exact hrb e h)

namespace VRange

/-- `x` ends (exclusively) where `y` starts or before: `x` is strictly below `y` -/
theorem sl_of_max_le_min_excl {x y : VRange} {M m : Version} (hM : x.max = some M) (hm : y.min = some m)
    (h : vk M ≤ vk m) (hi : x.imax = false) : x.isStrictlyLower y = true := by
  unfold isStrictlyLower allowedMin
  obtain ⟨A, hA⟩ : ∃ A, x.allowedMax = some A := by
    cases h' : x.allowedMax with
    | none => have := allowedMax_isSome (r := x); simp [h', hM] at this
    | some A => exact ⟨A, rfl⟩
  rw [hA, hm]
  have hle : vk A ≤ vk m := le_trans (allowedMax_le hM hA) h
  rcases lt_or_eq_of_le hle with h1 | h1
  · simp [(lt_iff A m).2 h1]
  · have l1 : Version.lt A m = false := by rw [lt_false_iff, h1]
    have l2 : Version.gt A m = false := by rw [gt_false_iff, h1]
    simp [l1, l2, hi]

end VRange

theorem diffSpecR_ver {B : List Version} (hB : RegB B) (a : Version) (c : RC) (ha : a.wf = true) (hc : c.WF)
    (hab : a ∈ B) (hcb : ∀ e ∈ c.bounds, e ∈ B) : DiffSpecR B (.ver a) c (RC.verDifference a c) := by
  refine DiffSpecR.of_base hB (diffSpec_ver a c ha hc) (by intro e he; simp [RC.bounds_ver] at he; subst he; exact hab)
    hcb ?_ ?_
  · intro x hx p hp
    unfold RC.verDifference at hx
    split at hx
    · simp [VC.flatten] at hx
    · simp [VC.flatten] at hx; subst hx; exact hp
  · intro ds hd; unfold RC.verDifference at hd; split at hd <;> cases hd

theorem diffSpecR_rng_ver {B : List Version} (hB : RegB B) (r : VRange) (v : Version) (hr : r.WF) (htr : r.Tidy)
    (hv : v.wf = true) (hrb : ∀ e ∈ r.bounds, e ∈ B) (hvB : v ∈ B) (d : VC)
    (h : RC.rngDifferenceVer r v = .ok d) : DiffSpecR B (.rng r) (.ver v) d := by
  have hvreg : Regular r.bounds v := by
    intro e he
    rcases hB.reg v hvB e (hrb e he) with h' | h'
    · exact Or.inl ((vk_eq_iff _ _).1 h')
    · exact Or.inr h'
  have base := diffSpec_rng_ver r v hr htr hv hvreg d h
  refine DiffSpecR.of_base hB base hrb (by intro e he; simp [RC.bounds_ver] at he; subst he; exact hvB) ?_ ?_
  · -- tops
    have same : ∀ s : VRange, s.max = r.max → s.imax = r.imax → s.Proper → ∀ p, s.denHi p → r.denHi p :=
      fun s h1 h2 hs p hp => (VRange.denHi_congr h1 h2 hs.ne hr.2.ne p).1 hp
    unfold RC.rngDifferenceVer at h
    by_cases h1 : r.allows v = true
    · simp only [h1, Bool.not_true, Bool.false_eq_true, if_false] at h
      have hraw := (VRange.allows_iff_raw r v hr.1 hv hvreg).1 h1
      by_cases h2 : optVerEq (some v) r.min = true
      · simp only [h2, if_true] at h
        cases hi : r.imin
        · simp only [hi, Bool.not_false, if_true, Except.ok.injEq] at h
          subst h; intro c hc p hp; simp [VC.flatten] at hc; subst hc; exact hp
        · simp only [hi, Bool.not_true, Bool.false_eq_true, if_false, Except.ok.injEq] at h
          subst h; intro c hc p hp; simp [VC.flatten] at hc; subst hc
          exact same ⟨r.min, r.max, false, r.imax⟩ rfl rfl hr.2 p hp
      · simp only [h2, Bool.false_eq_true, if_false] at h
        by_cases h3 : optVerEq (some v) r.max = true
        · simp only [h3, if_true] at h
          cases hi : r.imax
          · simp only [hi, Bool.not_false, if_true, Except.ok.injEq] at h
            subst h; intro c hc p hp; simp [VC.flatten] at hc; subst hc; exact hp
          · simp only [hi, Bool.not_true, Bool.false_eq_true, if_false, Except.ok.injEq] at h
            subst h; intro c hc p hp; simp [VC.flatten] at hc; subst hc
            -- the top was included and is now excluded: still below the old top
            obtain ⟨M, hM⟩ : ∃ M, r.max = some M := by
              cases hM : r.max with
              | none => simp [hM, optVerEq] at h3
              | some M => exact ⟨M, rfl⟩
            have hAr : r.allowedMax = some M := by
              rcases VRange.allowedMax_cases hM with h' | h'
              · exact h'
              · rw [hi] at h'; simp at h'
            have hM' : (⟨r.min, r.max, r.imin, false⟩ : VRange).max = some M := hM
            obtain ⟨A, hA⟩ : ∃ A, (⟨r.min, r.max, r.imin, false⟩ : VRange).allowedMax = some A := by
              cases h' : (⟨r.min, r.max, r.imin, false⟩ : VRange).allowedMax with
              | none =>
                have := VRange.allowedMax_isSome (r := ⟨r.min, r.max, r.imin, false⟩)
                rw [h', hM'] at this; simp at this
              | some A => exact ⟨A, rfl⟩
            have hle := VRange.allowedMax_le hM' hA
            simp only [RC.view_rng, VRange.denHi, hA, Bool.false_eq_true, if_false] at hp
            simp only [RC.view_rng, VRange.denHi, hAr, hi, if_true]
            exact le_of_lt (lt_of_lt_of_le hp hle)
        · simp only [h3, Bool.false_eq_true, if_false] at h
          have hhi : ∀ M, r.max = some M → vk v < vk M := by
            intro M hM
            have hne : vk v ≠ vk M := by
              intro e; simp [hM, optVerEq, (eqv_iff _ _).2 e] at h3
            have := hraw.2
            simp only [VRange.rawHi, hM] at this
            cases hi : r.imax <;> simp [hi] at this
            · exact this
            · exact lt_of_le_of_ne this hne
          -- members: what `VersionUnion.of` made of the two pieces; both have tops within `r`'s
          obtain ⟨g1, _, _⟩ := base
          intro c hc p hp
          -- every member's bounds… use the exactness-free route: tops of the two pieces
          have hP1 : ∀ p, (⟨r.min, some v, r.imin, false⟩ : VRange).denHi p → r.denHi p := by
            intro p hp
            obtain ⟨A, hA⟩ : ∃ A, (⟨r.min, some v, r.imin, false⟩ : VRange).allowedMax = some A := by
              cases h' : (⟨r.min, some v, r.imin, false⟩ : VRange).allowedMax with
              | none => have := VRange.allowedMax_isSome (r := ⟨r.min, some v, r.imin, false⟩); simp [h'] at this
              | some A => exact ⟨A, rfl⟩
            have hle := VRange.allowedMax_le (r := ⟨r.min, some v, r.imin, false⟩) (M := v) rfl hA
            simp only [VRange.denHi, hA, Bool.false_eq_true, if_false] at hp
            exact VRange.lt_top_of_reg hB r hrb v hvB hhi p (le_of_lt (lt_of_lt_of_le hp hle))
          -- in the regular setting the two pieces are kept as they are
          have hlo : ∀ m, r.min = some m → vk m < vk v := by
            intro m hm
            have hne : vk v ≠ vk m := by
              intro e; simp [hm, optVerEq, (eqv_iff _ _).2 e] at h2
            have := hraw.1
            simp only [VRange.denLo, hm] at this
            cases hi : r.imin <;> simp [hi] at this
            · exact this
            · exact lt_of_le_of_ne this (fun e => hne e.symm)
          have hsl : (⟨r.min, some v, r.imin, false⟩ : VRange).isStrictlyLower ⟨some v, r.max, false, r.imax⟩ = true :=
            VRange.sl_of_max_le_min_excl (M := v) (m := v) rfl rfl (le_refl _) rfl
          have hres : d = .union [.rng ⟨r.min, some v, r.imin, false⟩, .rng ⟨some v, r.max, false, r.imax⟩] := by
            have hlt : RC.lt (RC.rng ⟨some v, r.max, false, r.imax⟩) (RC.rng ⟨r.min, some v, r.imin, false⟩) = false :=
              RC.lt_false_of_min_gt _ _ v rfl (fun m hm => hlo m hm)
            have hanyf : RC.allowsAny (RC.rng ⟨r.min, some v, r.imin, false⟩) (RC.rng ⟨some v, r.max, false, r.imax⟩) = .ok false := by
              simp [RC.allowsAny, VRange.isStrictlyHigher, hsl]
            have := unionOfFlat_pair_sep _ _ hlt hanyf (by
              simp [RC.view_rng, VRange.isAdjacentTo]) (by simp [RC.isAny, VRange.isAny]) (by simp [RC.isAny, VRange.isAny])
            rw [this] at h
            exact (Except.ok.inj h).symm
          subst hres
          simp only [VC.flatten, List.mem_cons, List.mem_nil_iff, or_false] at hc
          rcases hc with rfl | rfl
          · exact hP1 p hp
          · exact same ⟨some v, r.max, false, r.imax⟩ rfl rfl (by
              intro m M hm hM; simp at hm; subst hm; exact hhi M hM) p hp
    · simp only [h1, Bool.not_false, if_true, Except.ok.injEq] at h
      subst h; intro c hc p hp; simp [VC.flatten] at hc; subst hc; exact hp
  · -- the subtracted version lies below `r`'s top whenever the result is a union
    intro ds hd p hp
    rw [RC.view_ver, VRange.denHi_point] at hp
    subst hd
    -- a union arises only in the split branch, where `v` is strictly inside `r`
    unfold RC.rngDifferenceVer at h
    by_cases h1 : r.allows v = true
    · simp only [h1, Bool.not_true, Bool.false_eq_true, if_false] at h
      have hraw := (VRange.allows_iff_raw r v hr.1 hv hvreg).1 h1
      by_cases h2 : optVerEq (some v) r.min = true
      · simp only [h2, if_true] at h; split at h <;> cases h
      · simp only [h2, Bool.false_eq_true, if_false] at h
        by_cases h3 : optVerEq (some v) r.max = true
        · simp only [h3, if_true] at h; split at h <;> cases h
        · have hhi : ∀ M, r.max = some M → vk v < vk M := by
            intro M hM
            have hne : vk v ≠ vk M := by
              intro e; simp [hM, optVerEq, (eqv_iff _ _).2 e] at h3
            have := hraw.2
            simp only [VRange.rawHi, hM] at this
            cases hi : r.imax <;> simp [hi] at this
            · exact this
            · exact lt_of_le_of_ne this hne
          exact VRange.lt_top_of_reg hB r hrb v hvB hhi p hp
    · simp [h1] at h

end Poetry
