/-
`get_python_constraint_from_marker` on whole markers (helper lemmas for C11): the `only` shortcut, the DNF,
the grouping of `convert_markers`, de-duplication and the printed text, relative to the simplifier soundness
(Proofs/MarkerAlgSound.lean), the per-item exactness (Proofs/PyConvNorm.lean) and an explicit statement about
the constraint parser on texts with several clauses (`SplitSound`).
-/
import PoetryVerif.Proofs.MarkerProj
import PoetryVerif.Proofs.MarkerShape
import PoetryVerif.Proofs.PyConvNorm
import PoetryVerif.Proofs.PyConvShape

set_option linter.unusedSimpArgs false
set_option linter.unusedVariables false

namespace Poetry.Marker
open Poetry Poetry.VParser

variable {ev : Leaf → Bool} {G : Leaf → Prop}

def pyKey : String := "python_version"

/-- the python single-marker-likes among the members of a conjunction -/
def pyLeaves : List M → List Leaf
  | [] => []
  | .leaf l :: ms => if convKey l.name == pyKey then l :: pyLeaves ms else pyLeaves ms
  | _ :: ms => pyLeaves ms

theorem conjFold (ms : List M) (acc r : List (String × String))
    (h : ms.foldlM (fun acc m => match m with
      | .leaf l => (.ok (if convKey l.name == pyKey then acc ++ [leafPair l] else acc) : PyM _)
      | _ => .error .assertion) acc = .ok r) :
    (∀ m ∈ ms, ∃ l, m = .leaf l) ∧ r = acc ++ (pyLeaves ms).map leafPair := by
  induction ms generalizing acc with
  | nil => simp [List.foldlM, pure, Except.pure] at h; subst h; simp [pyLeaves]
  | cons m ms ih =>
    simp only [List.foldlM, bind, Except.bind] at h
    cases m with
    | leaf l =>
      simp only at h
      have := ih _ h
      refine ⟨?_, ?_⟩
      · intro x hx
        rcases List.mem_cons.1 hx with rfl | hx
        · exact ⟨l, rfl⟩
        · exact this.1 x hx
      · rw [this.2]
        by_cases hk : (convKey l.name == pyKey) = true <;> simp [pyLeaves, hk]
    | any => simp at h
    | empty => simp at h
    | multi _ => simp at h
    | union _ => simp at h

theorem semAll_pyLeaves (ms : List M) (h : M.semAll ev ms = true) : ∀ l ∈ pyLeaves ms, ev l = true := by
  induction ms with
  | nil => simp [pyLeaves]
  | cons m ms ih =>
    simp only [M.semAll, Bool.and_eq_true] at h
    cases m with
    | leaf l =>
      by_cases hk : (convKey l.name == pyKey) = true
      · simp only [pyLeaves, hk, if_true, List.mem_cons]
        intro x hx
        rcases hx with rfl | hx
        · simpa using h.1
        · exact ih h.2 x hx
      · simpa [pyLeaves, hk] using ih h.2
    | any => simpa [pyLeaves] using ih h.2
    | empty => simpa [pyLeaves] using ih h.2
    | multi _ => simpa [pyLeaves] using ih h.2
    | union _ => simpa [pyLeaves] using ih h.2

/-- the group `convert_markers` records for one conjunction of the DNF: the pairs of its python items; when the
conjunction holds, all of these items hold -/
theorem conjPairs_spec (conj : M) (ps : List (String × String)) (h : conjPairs pyKey conj = .ok ps) :
    ∃ ls : List Leaf, ps = ls.map leafPair ∧ (∀ l ∈ ls, convKey l.name = pyKey) ∧
      (∀ l ∈ ls, l ∈ M.leaves conj) ∧
      (M.sem ev conj = true → ∀ l ∈ ls, ev l = true) := by
  cases conj with
  | multi ms =>
    simp only [conjPairs] at h
    have := conjFold ms [] ps h
    have hpl : ∀ l ∈ pyLeaves ms, convKey l.name = pyKey ∧ l ∈ M.leavesList ms := by
      clear h this
      intro l hl
      induction ms with
      | nil => simp [pyLeaves] at hl
      | cons m ms ih =>
        cases m with
        | leaf l' =>
          by_cases hk : (convKey l'.name == pyKey) = true
          · simp only [pyLeaves, hk, if_true, List.mem_cons] at hl
            rcases hl with rfl | hl
            · exact ⟨by simpa using hk, by simp [M.leavesList, M.leaves]⟩
            · exact ⟨(ih hl).1, by simp [M.leavesList, (ih hl).2]⟩
          · simp only [pyLeaves, hk] at hl; exact ⟨(ih hl).1, by simp [M.leavesList, (ih hl).2]⟩
        | any => have := ih (by simpa [pyLeaves] using hl); exact ⟨this.1, by simp [M.leavesList, this.2]⟩
        | empty => have := ih (by simpa [pyLeaves] using hl); exact ⟨this.1, by simp [M.leavesList, this.2]⟩
        | multi _ => have := ih (by simpa [pyLeaves] using hl); exact ⟨this.1, by simp [M.leavesList, this.2]⟩
        | union _ => have := ih (by simpa [pyLeaves] using hl); exact ⟨this.1, by simp [M.leavesList, this.2]⟩
    exact ⟨pyLeaves ms, by simpa using this.2, fun l hl => (hpl l hl).1,
      fun l hl => by simpa [M.leaves] using (hpl l hl).2,
      fun hs => semAll_pyLeaves ms (by simpa only [M.sem] using hs)⟩
  | leaf l =>
    simp only [conjPairs] at h
    by_cases hk : (convKey l.name == pyKey) = true
    · simp [hk] at h; subst h
      exact ⟨[l], rfl, by simpa using hk, by simp [M.leaves], fun hs => by simpa using hs⟩
    · simp [hk] at h; subst h
      exact ⟨[], rfl, by simp, by simp, by simp⟩
  | any => simp [conjPairs] at h; subst h; exact ⟨[], rfl, by simp, by simp, by simp⟩
  | empty => simp [conjPairs] at h; subst h; exact ⟨[], rfl, by simp, by simp, by simp⟩
  | union _ => simp [conjPairs] at h; subst h; exact ⟨[], rfl, by simp, by simp, by simp⟩


mutual
theorem good_leaves (m : M) (h : M.Good G m) : ∀ l ∈ M.leaves m, G l := by
  cases m with
  | any => simp [M.leaves]
  | empty => simp [M.leaves]
  | leaf l => simpa [M.leaves] using h
  | multi ms => simpa [M.leaves] using good_leavesList ms (by simpa [M.Good] using h)
  | union ms => simpa [M.leaves] using good_leavesList ms (by simpa [M.Good] using h)
theorem good_leavesList (ms : List M) (h : M.GoodAll G ms) : ∀ l ∈ M.leavesList ms, G l := by
  cases ms with
  | nil => simp [M.leavesList]
  | cons m ms =>
    intro l hl
    simp only [M.leavesList, List.mem_append] at hl
    rcases hl with hl | hl
    · exact good_leaves m h.1 l hl
    · exact good_leavesList ms h.2 l hl
end

theorem mapM_ok_mem {α β : Type} (f : α → PyM β) (l : List α) (r : List β) (h : l.mapM f = .ok r) :
    (∀ a ∈ l, ∃ b ∈ r, f a = .ok b) ∧ (∀ b ∈ r, ∃ a ∈ l, f a = .ok b) := by
  induction l generalizing r with
  | nil => simp [List.mapM_nil, pure, Except.pure] at h; subst h; simp
  | cons x xs ih =>
    simp only [List.mapM_cons, bind, Except.bind] at h
    split at h
    · cases h
    · rename_i y hy
      split at h
      · cases h
      · rename_i ys hys
        simp [pure, Except.pure] at h; subst h
        have := ih ys hys
        constructor
        · intro a ha
          rcases List.mem_cons.1 ha with rfl | ha
          · exact ⟨y, by simp, hy⟩
          · obtain ⟨b, hb, hf⟩ := this.1 a ha; exact ⟨b, by simp [hb], hf⟩
        · intro b hb
          rcases List.mem_cons.1 hb with rfl | hb
          · exact ⟨x, by simp, hy⟩
          · obtain ⟨a, ha, hf⟩ := this.2 b hb; exact ⟨a, by simp [ha], hf⟩

theorem dedup_mem_aux (gs seen : List (List (String × String))) (g : List (String × String)) :
    g ∈ gs.foldl (fun seen g => if seen.contains g then seen else seen ++ [g]) seen ↔ g ∈ seen ∨ g ∈ gs := by
  induction gs generalizing seen with
  | nil => simp
  | cons x xs ih =>
    simp only [List.foldl_cons]
    rw [ih]
    by_cases hc : seen.contains x = true
    · have hx : x ∈ seen := by simpa using hc
      simp only [hc, if_true, List.mem_cons]
      constructor
      · rintro (h | h); exact Or.inl h; exact Or.inr (Or.inr h)
      · rintro (h | rfl | h); exact Or.inl h; exact Or.inl hx; exact Or.inr h
    · have hc' : seen.contains x = false := by simpa using hc
      simp only [hc', Bool.false_eq_true, if_false, List.mem_append, List.mem_singleton, List.mem_cons, List.not_mem_nil, or_false]
      constructor
      · rintro ((h | h) | h)
        · exact Or.inl h
        · exact Or.inr (Or.inl h)
        · exact Or.inr (Or.inr h)
      · rintro (h | h | h)
        · exact Or.inl (Or.inl h)
        · exact Or.inl (Or.inr h)
        · exact Or.inr h

theorem dedup_mem (gs : List (List (String × String))) (g : List (String × String)) :
    g ∈ dedupGroups gs ↔ g ∈ gs := by
  unfold dedupGroups
  rw [dedup_mem_aux]; simp


/-! ### the printed text of the groups -/

/-- C11 per item (`normalize_pair_exact` with C06's leaf agreement): the python single-marker-like `l` is a
`SingleMarker` with a comparison operator whose normalised clause means the truth of `l` -/
def LeafClause (ev : Leaf → Bool) (X Y Z : Nat) (l : Leaf) : Prop :=
  ∃ s item, l = .single s ∧ RelOp s.op ∧ normalizePyPair s.op s.value = .ok item ∧
    ClauseMeans item X Y Z (ev l) ∧ ItemShape item

theorem group_items (X Y Z : Nat) (g : List Leaf) (hL : ∀ l ∈ g, LeafClause ev X Y Z l) :
    ∃ items : List String, (g.map leafPair).mapM (fun p => normalizePyPair p.1 p.2) = .ok items ∧
      (∀ p ∈ g.map leafPair, RelOp p.1) ∧ items.length = g.length ∧
      (∀ it ∈ items, ∃ l ∈ g, ClauseMeans it X Y Z (ev l) ∧ ItemShape it) ∧
      (∀ l ∈ g, ∃ it ∈ items, ClauseMeans it X Y Z (ev l)) := by
  induction g with
  | nil => exact ⟨[], rfl, by simp, rfl, by simp, by simp⟩
  | cons l ls ih =>
    obtain ⟨s, item, rfl, hop, hitem, hmean, hshape⟩ := hL l (by simp)
    obtain ⟨items, h1, h2, h3, h4, h5⟩ := ih (fun x hx => hL x (by simp [hx]))
    refine ⟨item :: items, ?_, ?_, by simp [h3], ?_, ?_⟩
    · simp only [List.map_cons, List.mapM_cons, leafPair, hitem, bind, Except.bind, h1, pure, Except.pure]
    · intro p hp
      simp only [List.map_cons, List.mem_cons] at hp
      rcases hp with rfl | hp
      · simpa [leafPair] using hop
      · exact h2 p hp
    · intro it hit
      rcases List.mem_cons.1 hit with rfl | hit
      · exact ⟨_, by simp, hmean, hshape⟩
      · obtain ⟨l, hl, hm⟩ := h4 it hit; exact ⟨l, by simp [hl], hm⟩
    · intro l hl
      rcases List.mem_cons.1 hl with rfl | hl
      · exact ⟨item, by simp, hmean⟩
      · obtain ⟨it, hit, hm⟩ := h5 l hl; exact ⟨it, by simp [hit], hm⟩

theorem normMarkers_groups (X Y Z : Nat) (gs : List (List Leaf))
    (hL : ∀ g ∈ gs, ∀ l ∈ g, LeafClause ev X Y Z l) :
    ∃ itemss : List (List String),
      normalizePyMarkers (gs.map (·.map leafPair)) = .ok (joinWith " || " (itemss.map (joinWith " "))) ∧
      itemss.length = gs.length ∧
      (∀ g ∈ gs, ∃ items ∈ itemss, items.length = g.length ∧ (∀ it ∈ items, ∃ l ∈ g, ClauseMeans it X Y Z (ev l) ∧ ItemShape it) ∧
        (∀ l ∈ g, ∃ it ∈ items, ClauseMeans it X Y Z (ev l))) ∧
      (∀ items ∈ itemss, ∃ g ∈ gs, items.length = g.length ∧ (∀ it ∈ items, ∃ l ∈ g, ClauseMeans it X Y Z (ev l) ∧ ItemShape it) ∧
        (∀ l ∈ g, ∃ it ∈ items, ClauseMeans it X Y Z (ev l))) := by
  have key : ∃ itemss : List (List String),
      (gs.map (·.map leafPair)).mapM (fun conj => do
        let alts ← normalizePyConj conj [[]]
        pure (alts.map (joinWith " "))) = .ok (itemss.map (fun items => [joinWith " " items])) ∧
      itemss.length = gs.length ∧
      (∀ g ∈ gs, ∃ items ∈ itemss, items.length = g.length ∧ (∀ it ∈ items, ∃ l ∈ g, ClauseMeans it X Y Z (ev l) ∧ ItemShape it) ∧
        (∀ l ∈ g, ∃ it ∈ items, ClauseMeans it X Y Z (ev l))) ∧
      (∀ items ∈ itemss, ∃ g ∈ gs, items.length = g.length ∧ (∀ it ∈ items, ∃ l ∈ g, ClauseMeans it X Y Z (ev l) ∧ ItemShape it) ∧
        (∀ l ∈ g, ∃ it ∈ items, ClauseMeans it X Y Z (ev l))) := by
    induction gs with
    | nil => exact ⟨[], rfl, rfl, by simp, by simp⟩
    | cons g gs ih =>
      obtain ⟨items, h1, h2, h3, h4, h5⟩ := group_items X Y Z g (hL g (by simp))
      obtain ⟨itemss, k1, k2, k3, k4⟩ := ih (fun x hx => hL x (by simp [hx]))
      have hc := normConj_items (g.map leafPair) items [[]] h2 h1
      refine ⟨items :: itemss, ?_, by simp [k2], ?_, ?_⟩
      · rw [List.map_cons, List.mapM_cons, k1, hc]
        rfl
      · intro x hx
        rcases List.mem_cons.1 hx with rfl | hx
        · exact ⟨items, by simp, h3, h4, h5⟩
        · obtain ⟨it, hit, hh⟩ := k3 x hx; exact ⟨it, by simp [hit], hh⟩
      · intro x hx
        rcases List.mem_cons.1 hx with rfl | hx
        · exact ⟨g, by simp, h3, h4, h5⟩
        · obtain ⟨g', hg', hh⟩ := k4 x hx; exact ⟨g', by simp [hg'], hh⟩
  obtain ⟨itemss, k1, k2, k3, k4⟩ := key
  refine ⟨itemss, ?_, k2, k3, k4⟩
  have hfl : (itemss.map (fun items => [joinWith " " items])).flatten = itemss.map (joinWith " ") := by
    clear k1 k2 k3 k4
    induction itemss with
    | nil => rfl
    | cons a as ih => simp [List.flatten_cons, ih]
  unfold normalizePyMarkers
  rw [k1]
  simp only [bind, Except.bind, pure, Except.pure, hfl]


/-! ### `get_python_constraint_from_marker` -/

/-- the constraint parser on a text with several clauses (blank = and, `||` = or): C04/C05/C15's subject, used
here as an explicit hypothesis — when every clause is readable, the text is readable; it admits `X.Y.Z` if all
clauses of one group do, and rejects it if in every group some clause does -/
def SplitSound (X Y Z : Nat) : Prop :=
  ∀ gs : List (List String), gs ≠ [] → (∀ g ∈ gs, g ≠ []) →
    (∀ g ∈ gs, ∀ it ∈ g, ItemShape it ∧ ∃ b, ClauseMeans it X Y Z b) →
    ((∃ g ∈ gs, ∀ it ∈ g, ClauseMeans it X Y Z true) →
      ClauseMeans (joinWith " || " (gs.map (joinWith " "))) X Y Z true) ∧
    ((∀ g ∈ gs, ∃ it ∈ g, ClauseMeans it X Y Z false) →
      ClauseMeans (joinWith " || " (gs.map (joinWith " "))) X Y Z false)

theorem choose_groups (P : Leaf → Prop) (dg : List (List (String × String)))
    (h : ∀ g ∈ dg, ∃ ls : List Leaf, g = ls.map leafPair ∧ ∀ l ∈ ls, P l) :
    ∃ gsL : List (List Leaf), dg = gsL.map (·.map leafPair) ∧ ∀ ls ∈ gsL, ∀ l ∈ ls, P l := by
  induction dg with
  | nil => exact ⟨[], rfl, by simp⟩
  | cons g gs ih =>
    obtain ⟨ls, rfl, hl⟩ := h g (by simp)
    obtain ⟨gsL, rfl, hh⟩ := ih (fun x hx => h x (by simp [hx]))
    refine ⟨ls :: gsL, rfl, ?_⟩
    intro x hx
    rcases List.mem_cons.1 hx with rfl | hx
    · exact hl
    · exact hh x hx

theorem semAny_membersIfUnion (d : M) (h : M.sem ev d = true) : ∃ c ∈ membersIfUnion d, M.sem ev c = true := by
  cases d with
  | union ms =>
    simp only [M.sem] at h
    exact semAny_exists ev ms h
  | any => exact ⟨_, by simp [membersIfUnion], h⟩
  | empty => exact ⟨_, by simp [membersIfUnion], h⟩
  | leaf l => exact ⟨_, by simp [membersIfUnion], h⟩
  | multi ms => exact ⟨_, by simp [membersIfUnion], h⟩

theorem good_membersIfUnion (d : M) (h : M.Good G d) : ∀ c ∈ membersIfUnion d, M.Good G c := by
  cases d with
  | union ms => simpa [membersIfUnion] using h
  | any => simp [membersIfUnion]
  | empty => simp [membersIfUnion]
  | leaf l => simpa [membersIfUnion] using h
  | multi ms => intro c hc; simp [membersIfUnion] at hc; subst hc; exact h

/-- **the one-sided part**: wherever the marker holds, its Python constraint admits the interpreter. -/
theorem gpc_upper (S : LeafSpec ev G) (X Y Z : Nat) (m : M) (g : VC) (hg : M.Good G m)
    (hL : ∀ l, G l → convKey l.name = pyKey → LeafClause ev X Y Z l) (hSp : SplitSound X Y Z)
    (h : gpc m = .ok g) (hs : M.sem ev m = true) : g.allowsPlain (pyV X Y Z) = true := by
  simp only [gpc, bind, Except.bind] at h
  split at h
  · cases h
  · rename_i pm hpm
    have how := only_weakens_aux S _ m pm hg hpm
    by_cases ha : pm.isAny = true
    · simp [ha, pure, Except.pure] at h; subst h; exact any_allowsPlain _
    · simp only [ha, Bool.false_eq_true, if_false] at h
      by_cases he : pm.isEmpty = true
      · have := how.2 hs
        rw [M.isEmpty_sem he] at this; cases this
      · simp only [he, Bool.false_eq_true, if_false] at h
        split at h
        · cases h
        · rename_i d0 hd0
          by_cases hde : d0.isEmpty = true
          · exfalso
            have := (dnf_sound S hg hd0).2
            rw [M.isEmpty_sem hde, hs] at this; cases this
          · simp only [hde, Bool.false_eq_true, if_false] at h
            split at h
            · cases h
            · rename_i cm hcm
              simp only [convertMarkersFor, bind, Except.bind] at hcm
              split at hcm
              · cases hcm
              · rename_i d hd
                have hds := dnf_sound S hg hd
                split at hcm
                · cases hcm
                · rename_i groups hgroups
                  by_cases hall : groups.all List.isEmpty = true
                  · simp [hall, pure, Except.pure] at hcm; subst hcm
                    simp [pure, Except.pure] at h; subst h; exact any_allowsPlain _
                  · simp only [hall, Bool.false_eq_true, if_false, pure, Except.pure] at hcm
                    injection hcm with hcm; subst hcm
                    simp only at h
                    by_cases hc : (dedupGroups groups).contains [] = true
                    · simp only [hc, if_true, pure, Except.pure] at h
                      injection h with h; subst h; exact any_allowsPlain _
                    · simp only [hc, Bool.false_eq_true, if_false] at h
                      split at h
                      · cases h
                      · rename_i txt htxt
                        -- every de-duplicated group comes from a conjunction of the DNF
                        have hmm := mapM_ok_mem (conjPairs "python_version") (membersIfUnion d) groups hgroups
                        have hgr : ∀ gr ∈ dedupGroups groups, ∃ ls : List Leaf, gr = ls.map leafPair ∧
                            ∀ l ∈ ls, LeafClause ev X Y Z l := by
                          intro gr hgr
                          obtain ⟨c, hc, hcp⟩ := hmm.2 gr ((dedup_mem groups gr).1 hgr)
                          obtain ⟨ls, h1, h2, h3, _⟩ := conjPairs_spec (ev := ev) c gr hcp
                          refine ⟨ls, h1, fun l hl => hL l ?_ (h2 l hl)⟩
                          exact good_leaves c (good_membersIfUnion d hds.1 c hc) l (h3 l hl)
                        obtain ⟨gsL, hdg, hgsL⟩ := choose_groups _ _ hgr
                        obtain ⟨itemss, hn, hlen, k3, k4⟩ := normMarkers_groups X Y Z gsL hgsL
                        rw [hdg, hn] at htxt
                        injection htxt with htxt; subst htxt
                        -- the conjunction that holds
                        obtain ⟨c, hc1, hc2⟩ := semAny_membersIfUnion d (by rw [hds.2]; exact hs)
                        obtain ⟨gr, hgr1, hgr2⟩ := hmm.1 c hc1
                        obtain ⟨ls, h1, h2, h3, h4⟩ := conjPairs_spec (ev := ev) c gr hgr2
                        have hgd : gr ∈ dedupGroups groups := (dedup_mem groups gr).2 hgr1
                        rw [hdg] at hgd
                        obtain ⟨ls', hls', hls'e⟩ := List.mem_map.1 hgd
                        obtain ⟨items, hit, hitl, hitm, _⟩ := k3 ls' hls'
                        -- items of that group all mean true
                        have htrue : ∀ it ∈ items, ClauseMeans it X Y Z true := by
                          intro it hi
                          obtain ⟨l, hl, hm⟩ := hitm it hi
                          -- `l` has the pair of a leaf of `ls`, whose clause means true
                          have hp : leafPair l ∈ gr := by rw [← hls'e]; exact List.mem_map.2 ⟨l, hl, rfl⟩
                          rw [h1] at hp
                          obtain ⟨l0, hl0, hpe⟩ := List.mem_map.1 hp
                          have hev0 := h4 hc2 l0 hl0
                          obtain ⟨s0, item0, rfl, _, hitem0, hmean0, _⟩ := hL l0
                            (good_leaves c (good_membersIfUnion d hds.1 c hc1) l0 (h3 l0 hl0)) (h2 l0 hl0)
                          obtain ⟨s1, item1, rfl, _, hitem1, hmean1, _⟩ := hgsL ls' hls' l hl
                          simp only [leafPair, Prod.mk.injEq] at hpe
                          rw [hpe.1, hpe.2, hitem1] at hitem0
                          injection hitem0 with hitem0; subst hitem0
                          rw [hev0] at hmean0
                          obtain ⟨vc0, hvc0, hb0⟩ := hmean0
                          obtain ⟨vc1, hvc1, hb1⟩ := hmean1
                          rw [hvc0] at hvc1; injection hvc1 with hvc1; subst hvc1
                          rw [hb0] at hb1
                          rw [← hb1] at hm
                          exact hm.1
                        have hne : itemss ≠ [] := List.ne_nil_of_mem hit
                        have hnn : ∀ its ∈ itemss, its ≠ [] := by
                          intro its hits
                          obtain ⟨g', hg', hl', _, _⟩ := k4 its hits
                          intro e
                          rw [e] at hl'
                          have : g' = [] := List.length_eq_zero_iff.1 hl'.symm
                          subst this
                          apply hc
                          rw [hdg]
                          have : ([] : List (String × String)) ∈ gsL.map (·.map leafPair) :=
                            List.mem_map.2 ⟨[], hg', rfl⟩
                          simpa using this
                        have hpar : ∀ its ∈ itemss, ∀ it ∈ its, ItemShape it ∧ ∃ b, ClauseMeans it X Y Z b := by
                          intro its hits it hi
                          obtain ⟨g', hg', _, hh, _⟩ := k4 its hits
                          obtain ⟨l, _, hm⟩ := hh it hi
                          exact ⟨hm.2, _, hm.1⟩
                        obtain ⟨vc, hvc, hb⟩ := (hSp itemss hne hnn hpar).1 ⟨items, hit, htrue⟩
                        rw [hvc] at h; injection h with h; subst h
                        exact hb


/-! ### exactness on python-only markers with a DNF of python items -/

mutual
theorem only_keeps_aux (S : LeafSpec ev G) (names : List String) (m r : M) (hg : M.Good G m)
    (hv : ∀ n ∈ M.vars m, names.contains n = true) (h : M.only names m = .ok r) :
    M.sem ev r = M.sem ev m := by
  cases m with
  | any => simp [M.only] at h; subst h; rfl
  | empty => simp [M.only] at h; subst h; rfl
  | leaf l =>
    simp [M.only] at h; subst h
    have : names.contains l.name = true := hv l.name (by simp [M.vars])
    simp at this
    simp [this]
  | multi ms =>
    simp only [M.only, bind, Except.bind] at h
    split at h
    · cases h
    · rename_i xs hx
      have hgl : M.GoodAll G ms := by simpa [M.Good] using hg
      have hl := only_keeps_list S names ms xs hgl (by simpa [M.vars] using hv) hx
      have hw := only_weakens_list S names ms xs hgl hx
      rw [(multiOf_sound S hw.1 h).2, hl.1]; simp only [M.sem]
  | union ms =>
    simp only [M.only, bind, Except.bind] at h
    split at h
    · cases h
    · rename_i xs hx
      have hgl : M.GoodAll G ms := by simpa [M.Good] using hg
      have hl := only_keeps_list S names ms xs hgl (by simpa [M.vars] using hv) hx
      have hw := only_weakens_list S names ms xs hgl hx
      rw [(unionOf_sound S hw.1 h).2, hl.2]; simp only [M.sem]
theorem only_keeps_list (S : LeafSpec ev G) (names : List String) (ms xs : List M) (hg : M.GoodAll G ms)
    (hv : ∀ n ∈ M.varsList ms, names.contains n = true) (h : M.onlyList names ms = .ok xs) :
    M.semAll ev xs = M.semAll ev ms ∧ M.semAny ev xs = M.semAny ev ms := by
  cases ms with
  | nil => simp [M.onlyList] at h; subst h; simp
  | cons m rest =>
    simp only [M.onlyList, bind, Except.bind] at h
    split at h
    · cases h
    · rename_i x hx
      split at h
      · cases h
      · rename_i ys hys
        simp [pure, Except.pure] at h; subst h
        have ih := only_keeps_list S names rest ys hg.2 (fun n hn => hv n (by simp [M.varsList, hn])) hys
        have ih1 := only_keeps_aux S names m x hg.1 (fun n hn => hv n (by simp [M.varsList, hn])) hx
        simp only [M.semAll, M.semAny, ih1, ih.1, ih.2, and_self]
end

/-- every conjunction of the DNF is a python item or a conjunction of python items, and there is at least one -/
def DnfPy (d : M) : Prop :=
  membersIfUnion d ≠ [] ∧ ∀ c ∈ membersIfUnion d,
    (∃ l, c = .leaf l ∧ convKey l.name = pyKey) ∨
    (∃ ms, c = .multi ms ∧ ∀ x ∈ ms, ∃ l, x = .leaf l ∧ convKey l.name = pyKey)

theorem pyLeaves_all (ms : List M) (h : ∀ x ∈ ms, ∃ l, x = .leaf l ∧ convKey l.name = pyKey) :
    ms = (pyLeaves ms).map M.leaf := by
  induction ms with
  | nil => rfl
  | cons x xs ih =>
    obtain ⟨l, rfl, hk⟩ := h x (by simp)
    have hk' : (convKey l.name == pyKey) = true := by simpa using hk
    simp only [pyLeaves, hk', if_true, List.map_cons]
    rw [← ih (fun y hy => h y (by simp [hy]))]

theorem semAll_leaves (ls : List Leaf) : M.semAll ev (ls.map M.leaf) = ls.all ev := by
  induction ls with
  | nil => rfl
  | cons l ls ih => simp [M.semAll, ih]

theorem leaf_mem_leavesList (ms : List M) (l : Leaf) (h : M.leaf l ∈ ms) : l ∈ M.leavesList ms := by
  induction ms with
  | nil => cases h
  | cons x xs ih =>
    rcases List.mem_cons.1 h with rfl | hx
    · simp [M.leavesList, M.leaves]
    · simp [M.leavesList, ih hx]

/-- for a conjunction of python items the group lists all of its items, and the conjunction holds exactly
when they all do -/
theorem conjPairs_py (c : M) (ps : List (String × String)) (h : conjPairs pyKey c = .ok ps)
    (hc : (∃ l, c = .leaf l ∧ convKey l.name = pyKey) ∨
      (∃ ms, c = .multi ms ∧ ∀ x ∈ ms, ∃ l, x = .leaf l ∧ convKey l.name = pyKey)) :
    ∃ ls : List Leaf, ps = ls.map leafPair ∧ (∀ l ∈ ls, l ∈ M.leaves c) ∧ M.sem ev c = ls.all ev := by
  rcases hc with ⟨l, rfl, hk⟩ | ⟨ms, rfl, hms⟩
  · have hk' : (convKey l.name == pyKey) = true := by simpa using hk
    simp [conjPairs, hk'] at h; subst h
    exact ⟨[l], rfl, by simp [M.leaves], by simp⟩
  · simp only [conjPairs] at h
    have := conjFold ms [] ps h
    have hall := pyLeaves_all ms hms
    refine ⟨pyLeaves ms, by simpa using this.2, ?_, ?_⟩
    · intro l hl
      have : M.leaf l ∈ ms := by rw [hall]; exact List.mem_map.2 ⟨l, hl, rfl⟩
      simpa [M.leaves] using leaf_mem_leavesList ms l this
    · simp only [M.sem]
      calc M.semAll ev ms = M.semAll ev ((pyLeaves ms).map M.leaf) := congrArg _ hall
        _ = (pyLeaves ms).all ev := semAll_leaves _


theorem leavesList_py (ms : List M) (hms : ∀ x ∈ ms, ∃ l, x = .leaf l ∧ convKey l.name = pyKey) :
    ∀ l ∈ M.leavesList ms, convKey l.name = pyKey := by
  induction ms with
  | nil => simp [M.leavesList]
  | cons x xs ih =>
    obtain ⟨lx, rfl, hkx⟩ := hms x (by simp)
    intro l hl
    simp only [M.leavesList, M.leaves, List.mem_append, List.mem_singleton, List.cons_append,
      List.nil_append, List.mem_cons] at hl
    rcases hl with rfl | hh
    · exact hkx
    · exact ih (fun y hy => hms y (by simp [hy])) l hh

theorem cube_py (c : M) (hc : c.isCube = true) (hp : ∀ l ∈ M.leaves c, convKey l.name = pyKey) :
    (∃ l, c = .leaf l ∧ convKey l.name = pyKey) ∨
    (∃ ms, c = .multi ms ∧ ∀ x ∈ ms, ∃ l, x = .leaf l ∧ convKey l.name = pyKey) := by
  cases c with
  | leaf l => exact Or.inl ⟨l, rfl, hp l (by simp [M.leaves])⟩
  | multi ms =>
    right
    refine ⟨ms, rfl, ?_⟩
    simp only [M.isCube, Bool.and_eq_true, List.all_eq_true] at hc
    intro x hx
    have hxl := hc.2 x hx
    cases x with
    | leaf l => exact ⟨l, rfl, hp l (by simpa [M.leaves] using leaf_mem_leavesList ms l hx)⟩
    | any => simp [M.isLeaf] at hxl
    | empty => simp [M.isLeaf] at hxl
    | multi _ => simp [M.isLeaf] at hxl
    | union _ => simp [M.isLeaf] at hxl
  | any => simp [M.isCube] at hc
  | empty => simp [M.isCube] at hc
  | union _ => simp [M.isCube] at hc

theorem mem_leavesList_of_mem (ms : List M) (c : M) (hc : c ∈ ms) : ∀ l ∈ M.leaves c, l ∈ M.leavesList ms := by
  induction ms with
  | nil => cases hc
  | cons x xs ih =>
    intro l hl
    rcases List.mem_cons.1 hc with rfl | hx
    · simp [M.leavesList, hl]
    · simp [M.leavesList, ih hx l hl]

/-- the shape `dnf` always returns (`dnf_isDnf`), when it is neither Empty nor Any and mentions python variables
only, is the shape the exactness proof uses -/
theorem dnfPy_of (d : M) (hd : d.isDnf = true) (he : d ≠ .empty) (ha : d ≠ .any)
    (hp : ∀ l ∈ M.leaves d, convKey l.name = pyKey) : DnfPy d := by
  cases d with
  | any => exact absurd rfl ha
  | empty => exact absurd rfl he
  | leaf l =>
    refine ⟨by simp [membersIfUnion], fun c hc => ?_⟩
    simp [membersIfUnion] at hc; subst hc
    exact cube_py _ (by simp [M.isCube]) hp
  | multi ms =>
    refine ⟨by simp [membersIfUnion], fun c hc => ?_⟩
    simp [membersIfUnion] at hc; subst hc
    exact cube_py _ (by simpa [M.isDnf] using hd) hp
  | union cs =>
    simp only [M.isDnf, Bool.and_eq_true, List.all_eq_true, Bool.not_eq_true', List.isEmpty_eq_false_iff] at hd
    refine ⟨by simpa [membersIfUnion] using hd.1, fun c hc => ?_⟩
    have hc' : c ∈ cs := by simpa [membersIfUnion] using hc
    exact cube_py c (hd.2 c hc') (fun l hl => hp l (by simpa [M.leaves] using mem_leavesList_of_mem cs c hc' l hl))

theorem sem_of_member_true (d c : M) (hc : c ∈ membersIfUnion d) (h : M.sem ev c = true) : M.sem ev d = true := by
  cases d with
  | union ms => simp only [M.sem]; exact semAny_of_mem ev ms c (by simpa [membersIfUnion] using hc) h
  | any => simp
  | empty => simp [membersIfUnion] at hc; subst hc; exact h
  | leaf l => simp [membersIfUnion] at hc; subst hc; exact h
  | multi ms => simp [membersIfUnion] at hc; subst hc; exact h

theorem member_false_of_sem_false (d c : M) (hc : c ∈ membersIfUnion d) (h : M.sem ev d = false) :
    M.sem ev c = false := by
  cases hs : M.sem ev c with
  | false => rfl
  | true => rw [sem_of_member_true d c hc hs] at h; cases h

theorem empty_allowsPlain (p : Version) : VC.empty.allowsPlain p = false := by
  simp [VC.allowsPlain, VC.flatten]

/-- **exactness on python-only markers**: the range admits exactly the interpreters on which the marker holds,
for a marker over python variables only whose DNF consists of python items (`DnfPy`). -/
theorem gpc_exact (S : LeafSpec ev G) (X Y Z : Nat) (m : M) (g : VC) (hg : M.Good G m)
    (hv : ∀ n ∈ M.vars m, pyNames.contains n = true)
    (hL : ∀ l, G l → convKey l.name = pyKey → LeafClause ev X Y Z l) (hSp : SplitSound X Y Z)
    (hpy : ∀ d, dnf defaultFuel [] m = .ok d → ∀ l ∈ M.leaves d, convKey l.name = pyKey)
    (h : gpc m = .ok g) : M.sem ev m = g.allowsPlain (pyV X Y Z) := by
  cases hs : M.sem ev m with
  | true => exact (gpc_upper S X Y Z m g hg hL hSp h hs).symm
  | false =>
    symm
    simp only [gpc, bind, Except.bind] at h
    split at h
    · cases h
    · rename_i pm hpm
      have hk := only_keeps_aux S _ m pm hg hv hpm
      by_cases ha : pm.isAny = true
      · rw [M.isAny_sem ha, hs] at hk; cases hk
      · simp only [ha, Bool.false_eq_true, if_false] at h
        by_cases he : pm.isEmpty = true
        · simp only [he, if_true, pure, Except.pure] at h
          injection h with h; subst h; exact empty_allowsPlain _
        · simp only [he, Bool.false_eq_true, if_false] at h
          split at h
          · cases h
          · rename_i d0 hd0
            by_cases hde : d0.isEmpty = true
            · simp only [hde, if_true, pure, Except.pure] at h
              injection h with h; subst h; exact empty_allowsPlain _
            · simp only [hde, Bool.false_eq_true, if_false] at h
              split at h
              · cases h
              · rename_i cm hcm
                simp only [convertMarkersFor, bind, Except.bind] at hcm
                split at hcm
                · cases hcm
                · rename_i d hd
                  have hds := dnf_sound S hg hd
                  have hdf : M.sem ev d = false := by rw [hds.2]; exact hs
                  obtain ⟨hne, hsh⟩ := dnfPy_of d (dnf_isDnf hd) (by intro e; rw [hd0] at hd; cases hd; subst e; exact hde rfl)
                    (by intro e; rw [e] at hdf; simp at hdf) (hpy d hd)
                  split at hcm
                  · cases hcm
                  · rename_i groups hgroups
                    have hmm := mapM_ok_mem (conjPairs "python_version") (membersIfUnion d) groups hgroups
                    -- no conjunction of the DNF has an empty group (it would hold)
                    have hnoempty : ∀ gr ∈ groups, gr ≠ [] := by
                      intro gr hgr e
                      subst e
                      obtain ⟨c, hc, hcp⟩ := hmm.2 [] hgr
                      obtain ⟨ls, h1, _, h3⟩ := conjPairs_py (ev := ev) c [] hcp (hsh c hc)
                      have : ls = [] := by simpa using h1.symm
                      subst this
                      have := member_false_of_sem_false d c hc hdf
                      rw [h3] at this; simp at this
                    by_cases hall : groups.all List.isEmpty = true
                    · exfalso
                      obtain ⟨c, hc⟩ := List.exists_mem_of_ne_nil _ hne
                      obtain ⟨gr, hgr, _⟩ := hmm.1 c hc
                      have := List.all_eq_true.1 hall gr hgr
                      exact hnoempty gr hgr (by simpa using this)
                    · simp only [hall, Bool.false_eq_true, if_false, pure, Except.pure] at hcm
                      injection hcm with hcm; subst hcm
                      simp only at h
                      by_cases hc : (dedupGroups groups).contains [] = true
                      · exfalso
                        have : ([] : List (String × String)) ∈ dedupGroups groups := by simpa using hc
                        exact hnoempty [] ((dedup_mem groups []).1 this) rfl
                      · simp only [hc, Bool.false_eq_true, if_false] at h
                        split at h
                        · cases h
                        · rename_i txt htxt
                          have hgr : ∀ gr ∈ dedupGroups groups, ∃ ls : List Leaf, gr = ls.map leafPair ∧
                              ∀ l ∈ ls, LeafClause ev X Y Z l := by
                            intro gr hgr
                            obtain ⟨c, hc, hcp⟩ := hmm.2 gr ((dedup_mem groups gr).1 hgr)
                            obtain ⟨ls, h1, h2, h3, _⟩ := conjPairs_spec (ev := ev) c gr hcp
                            refine ⟨ls, h1, fun l hl => hL l ?_ (h2 l hl)⟩
                            exact good_leaves c (good_membersIfUnion d hds.1 c hc) l (h3 l hl)
                          obtain ⟨gsL, hdg, hgsL⟩ := choose_groups _ _ hgr
                          obtain ⟨itemss, hn, hlen, k3, k4⟩ := normMarkers_groups X Y Z gsL hgsL
                          rw [hdg, hn] at htxt
                          injection htxt with htxt; subst htxt
                          have hne' : itemss ≠ [] := by
                            obtain ⟨c, hc⟩ := List.exists_mem_of_ne_nil _ hne
                            obtain ⟨gr, hgr1, _⟩ := hmm.1 c hc
                            have hgd : gr ∈ dedupGroups groups := (dedup_mem groups gr).2 hgr1
                            rw [hdg] at hgd
                            obtain ⟨ls', hls', _⟩ := List.mem_map.1 hgd
                            obtain ⟨items, hit, _⟩ := k3 ls' hls'
                            exact List.ne_nil_of_mem hit
                          have hnn : ∀ its ∈ itemss, its ≠ [] := by
                            intro its hits
                            obtain ⟨g', hg', hl', _, _⟩ := k4 its hits
                            intro e
                            rw [e] at hl'
                            have : g' = [] := List.length_eq_zero_iff.1 hl'.symm
                            subst this
                            apply hc
                            rw [hdg]
                            have : ([] : List (String × String)) ∈ gsL.map (·.map leafPair) :=
                              List.mem_map.2 ⟨[], hg', rfl⟩
                            simpa using this
                          have hpar : ∀ its ∈ itemss, ∀ it ∈ its, ItemShape it ∧ ∃ b, ClauseMeans it X Y Z b := by
                            intro its hits it hi
                            obtain ⟨g', hg', _, hh, _⟩ := k4 its hits
                            obtain ⟨l, _, hm⟩ := hh it hi
                            exact ⟨hm.2, _, hm.1⟩
                          -- every group has a clause that rejects the interpreter
                          have hfalse : ∀ its ∈ itemss, ∃ it ∈ its, ClauseMeans it X Y Z false := by
                            intro its hits
                            obtain ⟨g', hg', _, _, hconv⟩ := k4 its hits
                            have hgd : g'.map leafPair ∈ dedupGroups groups := by
                              rw [hdg]; exact List.mem_map.2 ⟨g', hg', rfl⟩
                            obtain ⟨c, hc1, hcp⟩ := hmm.2 _ ((dedup_mem groups _).1 hgd)
                            obtain ⟨ls, h1, h2, h3⟩ := conjPairs_py (ev := ev) c _ hcp (hsh c hc1)
                            have hcf := member_false_of_sem_false d c hc1 hdf
                            rw [h3] at hcf
                            obtain ⟨l0, hl0, hev0⟩ : ∃ l0 ∈ ls, ev l0 = false := by
                              have : ¬ (∀ x ∈ ls, ev x = true) := by
                                intro hx; rw [List.all_eq_true.2 hx] at hcf; cases hcf
                              by_contra hcon
                              apply this
                              intro x hx
                              cases hxe : ev x with
                              | true => rfl
                              | false => exact (hcon ⟨x, hx, hxe⟩).elim
                            have hp : leafPair l0 ∈ g'.map leafPair := by rw [h1]; exact List.mem_map.2 ⟨l0, hl0, rfl⟩
                            obtain ⟨l', hl', hpe⟩ := List.mem_map.1 hp
                            obtain ⟨it, hit, hm⟩ := hconv l' hl'
                            refine ⟨it, hit, ?_⟩
                            -- `l'` and `l0` have the same pair, hence the same clause, hence the same truth
                            have hG0 : G l0 := good_leaves c (good_membersIfUnion d hds.1 c hc1) l0 (h2 l0 hl0)
                            have hk0 : convKey l0.name = pyKey := by
                              rcases hsh c hc1 with ⟨l, rfl, hk⟩ | ⟨ms, rfl, hms⟩
                              · have := h2 l0 hl0; simp [M.leaves] at this; subst this; exact hk
                              · have := h2 l0 hl0
                                simp only [M.leaves] at this
                                exact leavesList_py ms hms l0 this
                            obtain ⟨s0, item0, rfl, _, hitem0, hmean0, _⟩ := hL l0 hG0 hk0
                            obtain ⟨s1, item1, rfl, _, hitem1, hmean1, _⟩ := hgsL g' hg' l' hl'
                            simp only [leafPair, Prod.mk.injEq] at hpe
                            rw [← hpe.1, ← hpe.2, hitem1] at hitem0
                            injection hitem0 with hitem0; subst hitem0
                            rw [hev0] at hmean0
                            obtain ⟨vc0, hvc0, hb0⟩ := hmean0
                            obtain ⟨vc1, hvc1, hb1⟩ := hmean1
                            rw [hvc0] at hvc1; injection hvc1 with hvc1; subst hvc1
                            rw [hb0] at hb1
                            rw [← hb1] at hm
                            exact hm
                          obtain ⟨vc, hvc, hb⟩ := (hSp itemss hne' hnn hpar).2 hfalse
                          rw [hvc] at h; injection h with h; subst h
                          exact hb

/-- when only the DNF finds the marker unsatisfiable — `marker.only(…)` is neither the universal nor the empty
marker, `dnf(marker)` is the empty marker — the answer is the empty constraint (before the repair of
`get_python_constraint_from_marker` it was the universal range: `convert_markers` then has no entry for
`python_version` at all, which was read as "python_version is arbitrary") -/
theorem gpc_empty_of_dnf_empty (m pm : M) (ho : m.only Gen.pythonVersionMarkers.reverse = .ok pm)
    (h1 : pm.isAny = false) (h2 : pm.isEmpty = false) (hd : dnf defaultFuel [] m = .ok .empty) :
    gpc m = .ok .empty := by
  have he : M.isEmpty .empty = true := rfl
  simp only [gpc, bind, Except.bind, ho, h1, h2, Bool.false_eq_true, if_false, hd, he, if_true, pure,
    Except.pure]

end Poetry.Marker
