/-
`get_python_constraint_from_marker` on markers with `in` lists (helper lemmas for C11): the development of
Proofs/PyConvGpc.lean with one list of alternative clauses per python item instead of one clause.
-/
import PoetryVerif.Proofs.PyConvGpc
import PoetryVerif.Proofs.PyConvAlts
import PoetryVerif.Proofs.PyConvSplitSound
import PoetryVerif.Proofs.PyConvSplitSoundE

set_option linter.unusedSimpArgs false
set_option linter.unusedVariables false

namespace Poetry.Marker
open Poetry Poetry.VParser

variable {ev : Leaf → Bool} {G : Leaf → Prop}

/-- a python single-marker-like with the alternatives the normaliser prints for it: all readable clauses of the
right shape; the item holds iff one of them admits the interpreter -/
def LeafAlts (ev : Leaf → Bool) (X Y Z : Nat) (l : Leaf) : Prop :=
  ∃ s alts, l = .single s ∧ PairAlts s.op s.value alts ∧ alts ≠ [] ∧
    (∀ it ∈ alts, EntryShape it ∧ ∃ b, ClauseMeans it X Y Z b) ∧
    (ev l = true → ∃ it ∈ alts, ClauseMeans it X Y Z true) ∧
    (ev l = false → ∀ it ∈ alts, ClauseMeans it X Y Z false)

theorem leafAlts_of_clause {X Y Z : Nat} {l : Leaf} (h : LeafClause ev X Y Z l) : LeafAlts ev X Y Z l := by
  obtain ⟨s, item, rfl, hop, hitem, hmean, hshape⟩ := h
  refine ⟨s, [item], rfl, Or.inl ⟨hop, item, hitem, rfl⟩, by simp, ?_, ?_, ?_⟩
  · intro it hit; simp at hit; subst hit; exact ⟨entryShape_item hshape, _, hmean⟩
  · intro he; exact ⟨item, by simp, by rw [← he]; exact hmean⟩
  · intro he it hit; simp at hit; subst hit; rw [← he]; exact hmean

theorem pairAlts_unique {op v : String} {a b : List String} (ha : PairAlts op v a) (hb : PairAlts op v b) : a = b := by
  rcases ha with ⟨hop, i1, h1, rfl⟩ | ⟨rfl, rfl⟩ | ⟨rfl, rfl⟩ <;>
    rcases hb with ⟨hop', i2, h2, rfl⟩ | ⟨hop', rfl⟩ | ⟨hop', rfl⟩
  · rw [h1] at h2; injection h2 with h2; rw [h2]
  · subst hop'; exact absurd (relOp_not_list hop).1 (by decide)
  · subst hop'; exact absurd (relOp_not_list hop).2 (by decide)
  · exact absurd (relOp_not_list hop').1 (by decide)
  · rfl
  · exact absurd hop' (by decide)
  · exact absurd (relOp_not_list hop').2 (by decide)
  · exact absurd hop' (by decide)
  · rfl

/-- what is known about the choices printed for one group of pairs -/
def AltFacts (ev : Leaf → Bool) (X Y Z : Nat) (g : List (String × String)) (chs : List (List String)) : Prop :=
  chs ≠ [] ∧ (∀ ch ∈ chs, ch.length = g.length ∧ ∀ it ∈ ch, EntryShape it ∧ ∃ b, ClauseMeans it X Y Z b) ∧
  ∀ ls : List Leaf, ls.map leafPair = g → (∀ l ∈ ls, LeafAlts ev X Y Z l) →
    ((∀ l ∈ ls, ev l = true) → ∃ ch ∈ chs, ∀ it ∈ ch, ClauseMeans it X Y Z true) ∧
    ((∃ l ∈ ls, ev l = false) → ∀ ch ∈ chs, ∃ it ∈ ch, ClauseMeans it X Y Z false)

theorem group_alts (X Y Z : Nat) (g : List Leaf) (hL : ∀ l ∈ g, LeafAlts ev X Y Z l) :
    ∃ pas : List ((String × String) × List String), pas.map (·.1) = g.map leafPair ∧
      (∀ x ∈ pas, PairAlts x.1.1 x.1.2 x.2) ∧
      AltFacts ev X Y Z (g.map leafPair) (prodAlts (pas.map (·.2))) := by
  induction g with
  | nil =>
    refine ⟨[], rfl, by simp, by simp [prodAlts], ?_, ?_⟩
    · intro ch hch; simp [prodAlts] at hch; subst hch; simp
    · intro ls hls _
      have : ls = [] := by simpa using hls
      subst this
      exact ⟨fun _ => ⟨[], by simp [prodAlts], by simp⟩, fun ⟨l, hl, _⟩ => by cases hl⟩
  | cons l g ih =>
    obtain ⟨s, alts, rfl, hpa, hne, hall, _, _⟩ := hL l (by simp)
    obtain ⟨pas, h1, h2, hne', hch', htr'⟩ := ih (fun x hx => hL x (by simp [hx]))
    refine ⟨((s.op, s.value), alts) :: pas, by simp [h1, leafPair], ?_, ?_, ?_, ?_⟩
    · intro x hx
      rcases List.mem_cons.1 hx with rfl | hx
      · exact hpa
      · exact h2 x hx
    · simp only [List.map_cons, prodAlts]
      obtain ⟨v, hv⟩ := List.exists_mem_of_ne_nil _ hne
      obtain ⟨c, hc⟩ := List.exists_mem_of_ne_nil _ hne'
      exact List.ne_nil_of_mem (List.mem_flatMap.2 ⟨v, hv, List.mem_map.2 ⟨c, hc, rfl⟩⟩)
    · intro ch hch
      simp only [List.map_cons, prodAlts, List.mem_flatMap, List.mem_map] at hch
      obtain ⟨v, hv, c, hc, rfl⟩ := hch
      refine ⟨by simp [(hch' c hc).1], ?_⟩
      intro it hit
      rcases List.mem_cons.1 hit with rfl | hit
      · exact hall _ hv
      · exact (hch' c hc).2 it hit
    · intro ls hls hLs
      cases ls with
      | nil => simp at hls
      | cons l1 ls1 =>
        simp only [List.map_cons, List.cons.injEq] at hls
        obtain ⟨s1, alts1, rfl, hpa1, _, _, ht1, hf1⟩ := hLs l1 (by simp)
        have hp : (s1.op, s1.value) = (s.op, s.value) := by simpa [leafPair] using hls.1
        have hae : alts1 = alts := by
          simp only [Prod.mk.injEq] at hp
          rw [hp.1, hp.2] at hpa1
          exact pairAlts_unique hpa1 hpa
        subst hae
        have ihf := htr' ls1 hls.2 (fun x hx => hLs x (by simp [hx]))
        constructor
        · intro htrue
          obtain ⟨v, hv, hvt⟩ := ht1 (htrue _ (by simp))
          obtain ⟨c, hc, hct⟩ := ihf.1 (fun x hx => htrue x (by simp [hx]))
          refine ⟨v :: c, ?_, ?_⟩
          · simp only [List.map_cons, prodAlts, List.mem_flatMap, List.mem_map]
            exact ⟨v, hv, c, hc, rfl⟩
          · intro it hit
            rcases List.mem_cons.1 hit with rfl | hit
            · exact hvt
            · exact hct it hit
        · rintro ⟨lf, hlf, hfe⟩ ch hch
          simp only [List.map_cons, prodAlts, List.mem_flatMap, List.mem_map] at hch
          obtain ⟨v, hv, c, hc, rfl⟩ := hch
          rcases List.mem_cons.1 hlf with rfl | hlf
          · exact ⟨v, by simp, hf1 hfe v hv⟩
          · obtain ⟨it, hit, hif⟩ := ihf.2 ⟨lf, hlf, hfe⟩ c hc
            exact ⟨it, by simp [hit], hif⟩


theorem normMarkers_alts (X Y Z : Nat) (gs : List (List Leaf))
    (hL : ∀ g ∈ gs, ∀ l ∈ g, LeafAlts ev X Y Z l) :
    ∃ chss : List (List (List String)),
      normalizePyMarkers (gs.map (·.map leafPair)) = .ok (joinWith " || " (chss.flatten.map (joinWith " "))) ∧
      (∀ g ∈ gs, ∃ chs ∈ chss, AltFacts ev X Y Z (g.map leafPair) chs) ∧
      (∀ chs ∈ chss, ∃ g ∈ gs, AltFacts ev X Y Z (g.map leafPair) chs) := by
  have key : ∃ chss : List (List (List String)),
      (gs.map (·.map leafPair)).mapM (fun conj => do
        let alts ← normalizePyConj conj [[]]
        pure (alts.map (joinWith " "))) = .ok (chss.map (fun chs => chs.map (joinWith " "))) ∧
      (∀ g ∈ gs, ∃ chs ∈ chss, AltFacts ev X Y Z (g.map leafPair) chs) ∧
      (∀ chs ∈ chss, ∃ g ∈ gs, AltFacts ev X Y Z (g.map leafPair) chs) := by
    induction gs with
    | nil => exact ⟨[], rfl, by simp, by simp⟩
    | cons g gs ih =>
      obtain ⟨pas, h1, h2, h3⟩ := group_alts X Y Z g (hL g (by simp))
      obtain ⟨chss, k1, k3, k4⟩ := ih (fun x hx => hL x (by simp [hx]))
      have hc := normConj_alts pas h2 [[]]
      rw [h1] at hc
      have hc' : normalizePyConj (g.map leafPair) [[]] = .ok (prodAlts (pas.map (·.2))) := by
        rw [hc]
        congr 1
        simp only [List.flatMap_cons, List.flatMap_nil, List.append_nil, List.nil_append]
        exact List.map_id' _
      refine ⟨prodAlts (pas.map (·.2)) :: chss, ?_, ?_, ?_⟩
      · rw [List.map_cons, List.mapM_cons, k1, hc']
        rfl
      · intro x hx
        rcases List.mem_cons.1 hx with rfl | hx
        · exact ⟨_, by simp, h3⟩
        · obtain ⟨c, hc1, hc2⟩ := k3 x hx; exact ⟨c, by simp [hc1], hc2⟩
      · intro x hx
        rcases List.mem_cons.1 hx with rfl | hx
        · exact ⟨g, by simp, h3⟩
        · obtain ⟨g', hg', hh⟩ := k4 x hx; exact ⟨g', by simp [hg'], hh⟩
  obtain ⟨chss, k1, k3, k4⟩ := key
  refine ⟨chss, ?_, k3, k4⟩
  have hfl : (chss.map (fun chs => chs.map (joinWith " "))).flatten = chss.flatten.map (joinWith " ") := by
    clear k1 k3 k4
    induction chss with
    | nil => rfl
    | cons a as ih => rw [List.map_cons, List.flatten_cons, ih, List.flatten_cons, List.map_append]
  unfold normalizePyMarkers
  rw [k1]
  simp only [bind, Except.bind, pure, Except.pure, hfl]


/-- the facts about the printed text, once `gpc` has reached its last branch -/
theorem gpc_text_facts (S : LeafSpec ev G) (X Y Z : Nat) (d : M) (hdg : M.Good G d)
    (hL : ∀ l, G l → convKey l.name = pyKey → LeafAlts ev X Y Z l)
    (groups : List (List (String × String)))
    (hgroups : (membersIfUnion d).mapM (conjPairs "python_version") = .ok groups)
    (hc : ¬ (dedupGroups groups).contains [] = true) (hgne : groups ≠ [])
    (txt : String) (htxt : normalizePyMarkers (dedupGroups groups) = .ok txt) :
    ∃ chss : List (List (List String)), txt = joinWith " || " (chss.flatten.map (joinWith " ")) ∧
      chss.flatten ≠ [] ∧ (∀ ch ∈ chss.flatten, ch ≠ []) ∧
      (∀ ch ∈ chss.flatten, ∀ it ∈ ch, EntryShape it ∧ ∃ b, ClauseMeans it X Y Z b) ∧
      (∀ gr ∈ groups, ∃ chs ∈ chss, AltFacts ev X Y Z gr chs) ∧
      (∀ chs ∈ chss, ∃ gr ∈ groups, AltFacts ev X Y Z gr chs) := by
  have hmm := mapM_ok_mem (conjPairs "python_version") (membersIfUnion d) groups hgroups
  have hgr : ∀ gr ∈ dedupGroups groups, ∃ ls : List Leaf, gr = ls.map leafPair ∧
      ∀ l ∈ ls, LeafAlts ev X Y Z l := by
    intro gr hgr
    obtain ⟨c, hc, hcp⟩ := hmm.2 gr ((dedup_mem groups gr).1 hgr)
    obtain ⟨ls, h1, h2, h3, _⟩ := conjPairs_spec (ev := ev) c gr hcp
    refine ⟨ls, h1, fun l hl => hL l ?_ (h2 l hl)⟩
    exact good_leaves c (good_membersIfUnion d hdg c hc) l (h3 l hl)
  obtain ⟨gsL, hdgr, hgsL⟩ := choose_groups _ _ hgr
  obtain ⟨chss, hn, k3, k4⟩ := normMarkers_alts X Y Z gsL hgsL
  rw [hdgr, hn] at htxt
  injection htxt with htxt
  have hk3 : ∀ gr ∈ groups, ∃ chs ∈ chss, AltFacts ev X Y Z gr chs := by
    intro gr hgr'
    have hgd : gr ∈ dedupGroups groups := (dedup_mem groups gr).2 hgr'
    rw [hdgr] at hgd
    obtain ⟨ls', hls', hls'e⟩ := List.mem_map.1 hgd
    obtain ⟨chs, hchs, hf⟩ := k3 ls' hls'
    exact ⟨chs, hchs, hls'e ▸ hf⟩
  have hk4 : ∀ chs ∈ chss, ∃ gr ∈ groups, AltFacts ev X Y Z gr chs := by
    intro chs hchs
    obtain ⟨g', hg', hf⟩ := k4 chs hchs
    refine ⟨g'.map leafPair, ?_, hf⟩
    apply (dedup_mem groups _).1
    rw [hdgr]; exact List.mem_map.2 ⟨g', hg', rfl⟩
  refine ⟨chss, htxt.symm, ?_, ?_, ?_, hk3, hk4⟩
  · obtain ⟨gr, hgr'⟩ := List.exists_mem_of_ne_nil _ hgne
    obtain ⟨chs, hchs, hf⟩ := hk3 gr hgr'
    obtain ⟨ch, hch⟩ := List.exists_mem_of_ne_nil _ hf.1
    exact List.ne_nil_of_mem (List.mem_flatten.2 ⟨chs, hchs, hch⟩)
  · intro ch hch
    obtain ⟨chs, hchs, hch'⟩ := List.mem_flatten.1 hch
    obtain ⟨gr, hgr', hf⟩ := hk4 chs hchs
    intro e
    have hl := (hf.2.1 ch hch').1
    rw [e] at hl
    have : gr = [] := List.length_eq_zero_iff.1 hl.symm
    subst this
    apply hc
    have : ([] : List (String × String)) ∈ dedupGroups groups := (dedup_mem groups []).2 hgr'
    simpa using this
  · intro ch hch
    obtain ⟨chs, hchs, hch'⟩ := List.mem_flatten.1 hch
    obtain ⟨gr, _, hf⟩ := hk4 chs hchs
    exact (hf.2.1 ch hch').2

/-- **the one-sided part, `in` lists included** -/
theorem gpc_upper_alts (S : LeafSpec ev G) (X Y Z : Nat) (m : M) (g : VC) (hg : M.Good G m)
    (hL : ∀ l, G l → convKey l.name = pyKey → LeafAlts ev X Y Z l)
    (h : gpc m = .ok g) (hs : M.sem ev m = true) : g.allowsPlain (pyV X Y Z) = true := by
  have hSp := splitSoundE_holds X Y Z
  simp only [gpc, bind, Except.bind] at h
  split at h
  · cases h
  · rename_i pm hpm
    have how := only_weakens_aux S _ m pm hg hpm
    by_cases ha : pm.isAny = true
    · simp [ha, pure, Except.pure] at h; subst h; exact any_allowsPlain _
    · simp only [ha, Bool.false_eq_true, if_false] at h
      by_cases he : pm.isEmpty = true
      · have := how.2 hs
        rw [M.isEmpty_sem he] at this; cases this
      · simp only [he, Bool.false_eq_true, if_false] at h
        split at h
        · cases h
        · rename_i d0 hd0
          by_cases hde : d0.isEmpty = true
          · exfalso
            have := (dnf_sound S hg hd0).2
            rw [M.isEmpty_sem hde, hs] at this; cases this
          · simp only [hde, Bool.false_eq_true, if_false] at h
            split at h
            · cases h
            · rename_i cm hcm
              simp only [convertMarkersFor, bind, Except.bind] at hcm
              split at hcm
              · cases hcm
              · rename_i d hd
                have hds := dnf_sound S hg hd
                split at hcm
                · cases hcm
                · rename_i groups hgroups
                  by_cases hall : groups.all List.isEmpty = true
                  · simp [hall, pure, Except.pure] at hcm; subst hcm
                    simp [pure, Except.pure] at h; subst h; exact any_allowsPlain _
                  · simp only [hall, Bool.false_eq_true, if_false, pure, Except.pure] at hcm
                    injection hcm with hcm; subst hcm
                    simp only at h
                    by_cases hc : (dedupGroups groups).contains [] = true
                    · simp only [hc, if_true, pure, Except.pure] at h
                      injection h with h; subst h; exact any_allowsPlain _
                    · simp only [hc, Bool.false_eq_true, if_false] at h
                      split at h
                      · cases h
                      · rename_i txt htxt
                        have hgne : groups ≠ [] := by intro e; subst e; simp at hall
                        obtain ⟨chss, rfl, f1, f2, f3, f4, f5⟩ :=
                          gpc_text_facts S X Y Z d hds.1 hL groups hgroups hc hgne txt htxt
                        have hmm := mapM_ok_mem (conjPairs "python_version") (membersIfUnion d) groups hgroups
                        obtain ⟨c, hc1, hc2⟩ := semAny_membersIfUnion d (by rw [hds.2]; exact hs)
                        obtain ⟨gr, hgr1, hgr2⟩ := hmm.1 c hc1
                        obtain ⟨ls, h1, h2, h3, h4⟩ := conjPairs_spec (ev := ev) c gr hgr2
                        obtain ⟨chs, hchs, hf⟩ := f4 gr hgr1
                        have hLs : ∀ l ∈ ls, LeafAlts ev X Y Z l := fun l hl =>
                          hL l (good_leaves c (good_membersIfUnion d hds.1 c hc1) l (h3 l hl)) (h2 l hl)
                        obtain ⟨ch, hch, htrue⟩ := (hf.2.2 ls h1.symm hLs).1 (h4 hc2)
                        obtain ⟨vc, hvc, hb⟩ := (hSp chss.flatten f1 f2 f3).1
                          ⟨ch, List.mem_flatten.2 ⟨chs, hchs, hch⟩, htrue⟩
                        rw [hvc] at h; injection h with h; subst h
                        exact hb

/-- **exactness on python-only markers, `in` lists included** -/
theorem gpc_exact_alts (S : LeafSpec ev G) (X Y Z : Nat) (m : M) (g : VC) (hg : M.Good G m)
    (hv : ∀ n ∈ M.vars m, pyNames.contains n = true)
    (hL : ∀ l, G l → convKey l.name = pyKey → LeafAlts ev X Y Z l)
    (hpy : ∀ d, dnf defaultFuel [] m = .ok d → ∀ l ∈ M.leaves d, convKey l.name = pyKey)
    (h : gpc m = .ok g) : M.sem ev m = g.allowsPlain (pyV X Y Z) := by
  have hSp := splitSoundE_holds X Y Z
  cases hs : M.sem ev m with
  | true => exact (gpc_upper_alts S X Y Z m g hg hL h hs).symm
  | false =>
    symm
    simp only [gpc, bind, Except.bind] at h
    split at h
    · cases h
    · rename_i pm hpm
      have hk := only_keeps_aux S _ m pm hg hv hpm
      by_cases ha : pm.isAny = true
      · rw [M.isAny_sem ha, hs] at hk; cases hk
      · simp only [ha, Bool.false_eq_true, if_false] at h
        by_cases he : pm.isEmpty = true
        · simp only [he, if_true, pure, Except.pure] at h
          injection h with h; subst h; exact empty_allowsPlain _
        · simp only [he, Bool.false_eq_true, if_false] at h
          split at h
          · cases h
          · rename_i d0 hd0
            by_cases hde : d0.isEmpty = true
            · simp only [hde, if_true, pure, Except.pure] at h
              injection h with h; subst h; exact empty_allowsPlain _
            · simp only [hde, Bool.false_eq_true, if_false] at h
              split at h
              · cases h
              · rename_i cm hcm
                simp only [convertMarkersFor, bind, Except.bind] at hcm
                split at hcm
                · cases hcm
                · rename_i d hd
                  have hds := dnf_sound S hg hd
                  have hdf : M.sem ev d = false := by rw [hds.2]; exact hs
                  obtain ⟨hne', hsh⟩ := dnfPy_of d (dnf_isDnf hd) (by intro e; rw [hd0] at hd; cases hd; subst e; exact hde rfl)
                    (by intro e; rw [e] at hdf; simp at hdf) (hpy d hd)
                  split at hcm
                  · cases hcm
                  · rename_i groups hgroups
                    have hmm := mapM_ok_mem (conjPairs "python_version") (membersIfUnion d) groups hgroups
                    have hnoempty : ∀ gr ∈ groups, gr ≠ [] := by
                      intro gr hgr e
                      subst e
                      obtain ⟨c, hc, hcp⟩ := hmm.2 [] hgr
                      obtain ⟨ls, h1, _, h3⟩ := conjPairs_py (ev := ev) c [] hcp (hsh c hc)
                      have : ls = [] := by simpa using h1.symm
                      subst this
                      have := member_false_of_sem_false d c hc hdf
                      rw [h3] at this; simp at this
                    have hgne : groups ≠ [] := by
                      obtain ⟨c, hc⟩ := List.exists_mem_of_ne_nil _ hne'
                      obtain ⟨gr, hgr, _⟩ := hmm.1 c hc
                      exact List.ne_nil_of_mem hgr
                    by_cases hall : groups.all List.isEmpty = true
                    · exfalso
                      obtain ⟨gr, hgr⟩ := List.exists_mem_of_ne_nil _ hgne
                      have := List.all_eq_true.1 hall gr hgr
                      exact hnoempty gr hgr (by simpa using this)
                    · simp only [hall, Bool.false_eq_true, if_false, pure, Except.pure] at hcm
                      injection hcm with hcm; subst hcm
                      simp only at h
                      by_cases hc : (dedupGroups groups).contains [] = true
                      · exfalso
                        have : ([] : List (String × String)) ∈ dedupGroups groups := by simpa using hc
                        exact hnoempty [] ((dedup_mem groups []).1 this) rfl
                      · simp only [hc, Bool.false_eq_true, if_false] at h
                        split at h
                        · cases h
                        · rename_i txt htxt
                          obtain ⟨chss, rfl, f1, f2, f3, f4, f5⟩ :=
                            gpc_text_facts S X Y Z d hds.1 hL groups hgroups hc hgne txt htxt
                          have hfalse : ∀ ch ∈ chss.flatten, ∃ it ∈ ch, ClauseMeans it X Y Z false := by
                            intro ch hch
                            obtain ⟨chs, hchs, hch'⟩ := List.mem_flatten.1 hch
                            obtain ⟨gr, hgr', hf⟩ := f5 chs hchs
                            obtain ⟨c, hc1, hcp⟩ := hmm.2 gr hgr'
                            obtain ⟨ls, h1, h2, h3⟩ := conjPairs_py (ev := ev) c gr hcp (hsh c hc1)
                            have hcf := member_false_of_sem_false d c hc1 hdf
                            rw [h3] at hcf
                            obtain ⟨l0, hl0, hev0⟩ : ∃ l0 ∈ ls, ev l0 = false := by
                              have : ¬ (∀ x ∈ ls, ev x = true) := by
                                intro hx; rw [List.all_eq_true.2 hx] at hcf; cases hcf
                              by_contra hcon
                              apply this
                              intro x hx
                              cases hxe : ev x with
                              | true => rfl
                              | false => exact (hcon ⟨x, hx, hxe⟩).elim
                            have hLs : ∀ l ∈ ls, LeafAlts ev X Y Z l := by
                              intro l hl
                              refine hL l (good_leaves c (good_membersIfUnion d hds.1 c hc1) l (h2 l hl)) ?_
                              rcases hsh c hc1 with ⟨l', rfl, hk⟩ | ⟨ms, rfl, hms⟩
                              · have := h2 l hl; simp [M.leaves] at this; subst this; exact hk
                              · have := h2 l hl
                                simp only [M.leaves] at this
                                exact leavesList_py ms hms l this
                            exact (hf.2.2 ls h1.symm hLs).2 ⟨l0, hl0, hev0⟩ ch hch'
                          obtain ⟨vc, hvc, hb⟩ := (hSp chss.flatten f1 f2 f3).2 hfalse
                          rw [hvc] at h; injection h with h; subst h
                          exact hb

end Poetry.Marker
