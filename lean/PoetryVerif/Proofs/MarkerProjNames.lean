/-
The simplifier mentions no variable its operands do not mention (helper lemmas for C17 `only_mentions`,
C11 `pyConstraint_exact`): the variable name of every leaf a successful `_merge_single_markers` returns is the
name of an operand (for the python_version / python_full_version pairing: one of the two), and this is carried
through `MultiMarker.of`, `MarkerUnion.of`, `intersect`, `union`, `cnf`, `dnf` by C07's soundness induction,
instantiated with the leaf invariant "satisfies `G` and is named in `N`".
-/
import PoetryVerif.Proofs.MarkerProj
import PoetryVerif.Proofs.MarkerShape
import PoetryVerif.Proofs.MarkerAlgSoundOps
import PoetryVerif.Proofs.PyConvMarker

set_option linter.unusedSimpArgs false
set_option linter.unusedVariables false

namespace Poetry.Marker
open Poetry

/-! ### names of rebuilt leaves -/

theorem leafPrepare_name' (name cstr : String) (sw : Bool) (p : LeafPrep) (h : leafPrepare name cstr sw = .ok p) :
    p.name = aliasName name := by
  unfold leafPrepare at h
  simp only at h
  split at h
  · cases h
  · repeat' split at h
    all_goals (first | cases h; rfl | skip)

theorem mkSingle_name' (name cstr : String) (sw : Bool) (s : Single) (h : mkSingle name cstr sw = .ok s) :
    s.name = aliasName name := by
  simp only [mkSingle, bind, Except.bind] at h
  split at h
  · cases h
  · rename_i p hp
    split at h
    · cases h
    · simp [pure, Except.pure] at h
      rw [← h]; exact leafPrepare_name' name cstr sw p hp

theorem mkSingleOfC_name (name : String) (c : LeafC) (s : Single) (h : mkSingleOfC name c = .ok s) :
    s.name = aliasName name := by
  simp only [mkSingleOfC, bind, Except.bind] at h
  split at h
  · cases h
  · exact mkSingle_name' _ _ _ _ h

/-- `parse_marker("python_version == \"…\"")`, whatever the value text: the item read is on `python_version` -/
theorem parseItemMarker_pv_name (t : String) (r : M)
    (h : parseItemMarker ("python_version == \"" ++ t ++ "\"") = .ok r) :
    ∃ s, r = .leaf (.single s) ∧ s.name = "python_version" := by
  unfold parseItemMarker at h
  split at h
  · cases h
  · rename_i n op v sw hp
    obtain ⟨s, hs, h2⟩ := bind_ok.1 h
    rw [pure_ok] at h2; subst h2
    refine ⟨s, rfl, ?_⟩
    rw [mkSingle_name' _ _ _ _ hs]
    -- the name the recogniser reads
    have hn : n = "python_version" := by
      unfold parseText at hp
      simp only [String.toList_append] at hp
      generalize hfuel : 2 * ("python_version == \"".toList ++ t.toList ++ "\"".toList).length + 2 = fuel at hp
      obtain ⟨f, rfl⟩ : ∃ f, fuel = f + 2 := ⟨fuel - 2, by omega⟩
      rw [parseSyn] at hp
      rw [parseAtom] at hp
      simp [skipWs, parseItem, markerValue, names_eq, matchWord, stripPrefix?] at hp
      repeat' (split at hp)
      all_goals (first | (cases hp; done) | skip)
      all_goals simp_all
      rename_i heq _
      repeat' (split at heq)
      all_goals (first | (cases heq; done) | skip)
      all_goals (simp at heq)
      rename_i heq2 _ _
      obtain ⟨rfl, rfl⟩ := heq
      repeat' (split at heq2)
      all_goals (first | (cases heq2; done) | skip)
      all_goals (simp at heq2)
      all_goals (exact heq2.1.1.symm)
    rw [hn]; decide
  · cases h


/-! ### `_merge_single_markers` returns leaves named like an operand -/

/-- the leaf's variable is one of `N` and is spelt canonically (aliases resolved, as `SingleMarker.__init__`
stores it) -/
def Named (N : List String) (l : Leaf) : Prop := l.name ∈ N ∧ aliasName l.name = l.name

theorem cand_named (N : List String) (m1 : Leaf) (h1 : Named N m1) (l : Leaf) (t : String)
    (hpi : parseItemMarker ("python_version == \"" ++ t ++ "\"") = .ok (.leaf l))
    (hne : ¬ ((m1.name != "python_version") = true)) : M.Good (Named N) (.leaf l) := by
  obtain ⟨s, hs, hsn⟩ := parseItemMarker_pv_name _ _ hpi
  cases hs
  have hm1 : m1.name = "python_version" := by simpa using hne
  simp only [M.good_leaf, Named, Leaf.name, hsn]
  exact ⟨hm1 ▸ h1.1, by decide⟩

theorem mergeSingle_nonpy_named (N : List String) (depth : Nat) (m1 m2 : Leaf) (im : Bool) (r : M)
    (hp : ((m1.name == "python_version" && m2.name == "python_full_version") ||
                (m1.name == "python_full_version" && m2.name == "python_version")) = false)
    (h1 : Named N m1) (h2 : Named N m2)
    (h : mergeSingle depth m1 m2 im = .ok (some r)) : M.Good (Named N) r := by
  have hs1 : ∀ rc s, mkSingleOfC m1.name rc = .ok s → Named N (.single s) := by
    intro rc s hs
    have hname : (Leaf.single s).name = m1.name := by
      show s.name = _
      rw [mkSingleOfC_name _ _ _ hs, h1.2]
    exact ⟨by rw [hname]; exact h1.1, by rw [hname]; exact h1.2⟩
  rw [mergeSingle.eq_def] at h
  dsimp only at h
  rw [hp] at h
  rw [if_neg Bool.false_ne_true] at h
  by_cases hn : (m1.name != m2.name) = true
  · rw [if_pos hn] at h; cases h
  rw [if_neg hn] at h
  split at h
  · cases h
  · cases h
  · rename_i c1 c2 _ _
    cases im <;> simp only [Bool.false_eq_true, if_false, if_true] at h <;>
    (obtain ⟨rc, _, h⟩ := bind_ok.1 h
     by_cases e1 : rc.isEmpty = true
     · rw [if_pos e1, pure_ok] at h; cases h; simp
     rw [if_neg e1] at h
     by_cases e2 : rc.isAny = true
     · rw [if_pos e2, pure_ok] at h; cases h; simp
     rw [if_neg e2] at h
     by_cases e3 : rc.eqv m1.c = true
     · rw [if_pos e3, pure_ok] at h; cases h; simpa using h1
     rw [if_neg e3] at h
     by_cases e4 : rc.eqv m2.c = true
     · rw [if_pos e4, pure_ok] at h; cases h; simpa using h2
     rw [if_neg e4] at h
     obtain ⟨b, _, h⟩ := bind_ok.1 h
     cases b
     · rw [if_neg Bool.false_ne_true] at h
       repeat' (first
         | (split at h)
         | (obtain ⟨_, hq, h⟩ := bind_ok.1 h)
         | (rw [pure_ok] at h))
       all_goals (first | (cases h; done) | (cases h; simp; done) | (cases h; cases hq; done) | skip)
       all_goals (first
         | (cases h; simpa [Named, Leaf.name] using h1; done)
         | (cases h; simpa using hs1 _ _ hq; done)
         | skip)
       all_goals (
         cases h
         simp only [pure_ok] at hq
         cases hq
         exact cand_named N m1 h1 _ _ (by assumption) (by assumption))
     · rw [if_pos rfl] at h
       obtain ⟨s, hs, h⟩ := bind_ok.1 h
       rw [pure_ok] at h; cases h; simpa using hs1 _ _ hs)


/-! ### the python_version / python_full_version pairing -/

def PyNamed (l : Leaf) : Prop := l.name = "python_version" ∨ l.name = "python_full_version"

/-- the text `_merge_python_version_single_markers` re-parses: the merged `python_full_version` marker, renamed
to `python_version` and/or re-padded -/
def pyRewrite (ms : Single) : String :=
  let str := leafText ms.name ms.op ms.value ms.swapped
  let precision := countChar '.' str + 1
  let lt_ge := ms.op == "<" || ms.op == ">="
  if precision < 3 then
    let target := if lt_ge then 2 else 3
    let s1 := if lt_ge then strReplace str "python_full_version" "python_version" else str
    dropRight s1 1 ++ String.join (List.replicate (target - precision) ".0") ++ "\""
  else if precision == 3 && lt_ge && (dropRight str 1).endsWith ".0" then
    let s1 := strReplace str "python_full_version" "python_version"
    dropRight s1 3 ++ "\""
  else str

/-- the fact about `_merge_python_version_single_markers` proved in `MarkerProjReparse.lean`: re-parsing the
rewritten text of a `python_full_version` marker gives a marker on `python_version` or `python_full_version`
(the rewriting is Python's `str.replace` on the marker text) -/
def ReparseNames : Prop :=
  ∀ (ms : Single) (r : M), ms.name = "python_full_version" → parseItemMarker (pyRewrite ms) = .ok r →
    M.Good PyNamed r


end Poetry.Marker
