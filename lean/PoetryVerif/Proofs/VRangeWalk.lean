/-
The merge walk of `VersionUnion.intersect` over two sorted member lists: total, sound and complete on
regular probes (helper lemmas for C05).
-/
import PoetryVerif.Proofs.VRangeDiff

set_option linter.unusedSimpArgs false
set_option linter.unusedVariables false

namespace Poetry
open Version

namespace RC

/-- the effective interval of a member -/
def den (c : RC) (p : Version) : Prop := c.view.den p

theorem view_wfB {c : RC} (h : c.WF) : c.view.wfB := h.wfB

theorem allows_iff_den (c : RC) (p : Version) (hc : c.WF) (hp : p.wf = true) (hreg : Regular c.bounds p) :
    c.allows p = true ↔ c.den p :=
  (allows_iff_sem c p hc.wfB hp hreg).trans (VRange.den_iff_raw c.view p hreg).symm

theorem intersect_notUnion (a b : RC) (r : VC) (h : RC.intersect a b = .ok r) : r.notUnion := by
  cases a with
  | ver x =>
    cases b with
    | ver y => simp only [intersect, Except.ok.injEq] at h; subst h; exact verIntersectVer_notUnion x y
    | rng s => simp only [intersect, Except.ok.injEq] at h; subst h; exact rngIntersectVer_notUnion s x
  | rng s =>
    cases b with
    | ver y => simp only [intersect, Except.ok.injEq] at h; subst h; exact rngIntersectVer_notUnion s y
    | rng t =>
      simp only [intersect, VRange.rngIntersectRng_eq] at h
      have fin : ∀ a b c d, VRange.interFinish a b c d = .ok r → r.notUnion := by
        intro a b c d hf
        unfold VRange.interFinish at hf
        split at hf
        · cases hf; trivial
        · split at hf
          · split at hf
            · split at hf
              · cases hf; trivial
              · cases hf
            · cases hf
          · cases hf; trivial
      repeat' (split at h)
      all_goals first | (cases h; trivial) | exact fin _ _ _ _ h

/-- no pair of the two lists is the "version / range starting at a local build of it" pair -/
def NoLocalMin (ours theirs : List RC) : Prop :=
  ∀ o ∈ ours, ∀ t ∈ theirs, ∀ r x, (o = .rng r ∧ t = .ver x) ∨ (o = .ver x ∧ t = .rng r) → ¬ LocalMinCase r x

/-- member ∩ member, as `allowsPlain` -/
theorem intersect_plain (a b : RC) (ha : a.WF) (hb : b.WF)
    (hcase : ∀ r x, (a = .rng r ∧ b = .ver x) ∨ (a = .ver x ∧ b = .rng r) → ¬ LocalMinCase r x) :
    ∃ r, RC.intersect a b = .ok r ∧
      ∀ p, p.wf = true → Regular (a.bounds ++ b.bounds) p → r.allowsPlain p = (a.allows p && b.allows p) := by
  obtain ⟨r, hr, hex⟩ := intersect_exact a b ha hb hcase
  refine ⟨r, hr, fun p hp hreg => ?_⟩
  have := hex p hp hreg
  rw [VC.allows_of_notUnion r p (intersect_notUnion a b r hr)] at this
  exact Except.ok.inj this

end RC

/-- shape of a member-level intersection: not a union, members well-formed, bounds among the operands' -/
theorem RC.intersect_struct (a b : RC) (ha : a.WF) (hb : b.WF)
    (hcase : ∀ r x, (a = .rng r ∧ b = .ver x) ∨ (a = .ver x ∧ b = .rng r) → ¬ RC.LocalMinCase r x)
    (i : VC) (h : RC.intersect a b = .ok i) :
    i.notUnion ∧ (∀ c ∈ i.flatten, c.WF) ∧ (∀ e ∈ i.bounds, e ∈ a.bounds ∨ e ∈ b.bounds) := by
  refine ⟨RC.intersect_notUnion a b i h, ?_⟩
  have verCase : ∀ (r : VRange) (x : Version), x.wf = true → ¬ RC.LocalMinCase r x →
      (∀ c ∈ (RC.rngIntersectVer r x).flatten, c.WF) ∧
      (∀ e ∈ (RC.rngIntersectVer r x).bounds, e = x) := by
    intro r x hx hnl
    unfold RC.rngIntersectVer
    by_cases h1 : r.allows x = true
    · simp only [h1, if_true]
      exact ⟨by intro c hc; simp [VC.flatten] at hc; subst hc; exact hx,
        by intro e he; simpa [VC.bounds, RC.bounds_ver] using he⟩
    · rw [if_neg h1]
      cases hm : r.min with
      | none => simp [VC.flatten, VC.bounds]
      | some m =>
        simp only
        by_cases h3 : (m.isLocal && x.allows m) = true
        · exfalso
          simp only [Bool.and_eq_true] at h3
          exact hnl ⟨by simpa using h1, m, hm, h3.1, h3.2⟩
        · rw [if_neg h3]; simp [VC.flatten, VC.bounds]
  cases a with
  | ver x =>
    cases b with
    | ver y =>
      simp only [RC.intersect, Except.ok.injEq] at h; subst h
      unfold RC.verIntersectVer
      split
      · exact ⟨by intro c hc; simp [VC.flatten] at hc; subst hc; exact hb,
          by intro e he; exact Or.inr (by simpa [VC.bounds] using he)⟩
      · split
        · exact ⟨by intro c hc; simp [VC.flatten] at hc; subst hc; exact ha,
            by intro e he; exact Or.inl (by simpa [VC.bounds] using he)⟩
        · simp [VC.flatten, VC.bounds]
    | rng s =>
      simp only [RC.intersect, Except.ok.injEq] at h; subst h
      obtain ⟨h1, h2⟩ := verCase s x ha (hcase s x (Or.inr ⟨rfl, rfl⟩))
      exact ⟨h1, fun e he => Or.inl (by rw [h2 e he]; simp [RC.bounds_ver])⟩
  | rng s =>
    cases b with
    | ver y =>
      simp only [RC.intersect, Except.ok.injEq] at h; subst h
      obtain ⟨h1, h2⟩ := verCase s y hb (hcase s y (Or.inl ⟨rfl, rfl⟩))
      exact ⟨h1, fun e he => Or.inr (by rw [h2 e he]; simp [RC.bounds_ver])⟩
    | rng t =>
      simp only [RC.intersect] at h
      rcases VRange.intersect_den s t ha hb with ⟨h', _⟩ | ⟨x, h', hx, _⟩ | ⟨r, h', hr, hrb, _⟩
      · rw [h'] at h; cases h; simp [VC.flatten, VC.bounds]
      · rw [h'] at h; cases h
        have hxwf : x.wf = true := by
          rcases hx with hx | hx
          · exact ha.1 x hx
          · exact hb.1 x hx
        exact ⟨by intro c hc; simp [VC.flatten] at hc; subst hc; exact hxwf,
          by intro e he; simp [VC.bounds, RC.bounds_ver] at he; subst he; exact hx⟩
      · rw [h'] at h; cases h
        exact ⟨by intro c hc; simp [VC.flatten] at hc; subst hc; exact hr,
          by intro e he; exact hrb e (by simpa [VC.bounds, RC.bounds_rng] using he)⟩

/-- some part admits the probe -/
def anyPart (parts : List VC) (p : Version) : Prop := ∃ q ∈ parts, q.allowsPlain p = true

theorem anyAllows_cons (c : RC) (l : List RC) (p : Version) :
    anyAllows (c :: l) p = (c.allows p || anyAllows l p) := by simp [anyAllows]

/-- when `t` reaches higher than `o`, nothing admitted by `o` is admitted by a member after `t` -/
theorem drop_ours {o t : RC} {ts : List RC} (h : t.view.allowsHigher o.view = true)
    (hs : SortedRC (t :: ts)) (p : Version) (hop : o.den p) : ∀ t' ∈ ts, ¬ t'.den p := by
  intro t' ht' hd
  have h1 : t.view.denHi p := VRange.allowsHigher_true h p hop.2
  have h2 : t.view.isStrictlyLower t'.view = true := (List.pairwise_cons.1 hs).1 t' ht'
  exact VRange.strictlyLower_true h2 p ⟨h1, hd.1⟩

theorem drop_theirs {o t : RC} {os : List RC} (h : t.view.allowsHigher o.view = false)
    (hs : SortedRC (o :: os)) (p : Version) (htp : t.den p) : ∀ o' ∈ os, ¬ o'.den p := by
  intro o' ho' hd
  have h1 : o.view.denHi p := VRange.allowsHigher_false h p htp.2
  have h2 : o.view.isStrictlyLower o'.view = true := (List.pairwise_cons.1 hs).1 o' ho'
  exact VRange.strictlyLower_true h2 p ⟨h1, hd.1⟩

theorem anyAllows_false_of_den {l : List RC} {p : Version} (hl : ∀ c ∈ l, c.WF) (hp : p.wf = true)
    (hreg : Regular (boundsOf l) p) (h : ∀ c ∈ l, ¬ c.den p) : anyAllows l p = false := by
  cases hq : anyAllows l p
  · rfl
  · exfalso
    obtain ⟨c, hc, hcp⟩ := List.any_eq_true.1 hq
    exact h c hc ((RC.allows_iff_den c p (hl c hc) hp (hreg.mono (fun e he => mem_boundsOf hc he))).1 hcp)

/-- **the merge walk of `VersionUnion.intersect`**: with enough fuel it returns, and the parts it collects
admit a regular probe exactly when a member of each list does -/
theorem unionIntersectLoop_sem : ∀ (fuel : Nat) (ours theirs : List RC) (acc : List VC),
    ours.length + theirs.length < fuel →
    (∀ c ∈ ours, c.WF) → (∀ c ∈ theirs, c.WF) → SortedRC ours → SortedRC theirs →
    RC.NoLocalMin ours theirs →
    ∃ parts, VC.unionIntersectLoop fuel ours theirs acc = .ok parts ∧
      ∀ p, p.wf = true → Regular (boundsOf ours ++ boundsOf theirs) p →
        (anyPart parts p ↔ (anyPart acc p ∨ (anyAllows ours p = true ∧ anyAllows theirs p = true)))
  | 0, ours, theirs, acc, hf, _, _, _, _, _ => by omega
  | fuel + 1, [], theirs, acc, _, _, _, _, _, _ => by
    refine ⟨acc, by simp [VC.unionIntersectLoop], fun p _ _ => ?_⟩
    simp [anyAllows]
  | fuel + 1, o :: os, [], acc, _, _, _, _, _, _ => by
    refine ⟨acc, by simp [VC.unionIntersectLoop], fun p _ _ => ?_⟩
    simp [anyAllows]
  | fuel + 1, o :: os, t :: ts, acc, hf, ho, ht, hso, hst, hnl => by
    have how : o.WF := ho o (by simp)
    have htw : t.WF := ht t (by simp)
    obtain ⟨i, hi, hiex⟩ := RC.intersect_plain o t how htw (hnl o (by simp) t (by simp))
    -- adding `i` to the accumulator (or not, when it is the empty constraint)
    have hacc : ∀ p, (anyPart (if i.isEmpty then acc else acc ++ [i]) p ↔ (anyPart acc p ∨ i.allowsPlain p = true)) := by
      intro p
      by_cases he : i.isEmpty = true
      · have : i.allowsPlain p = false := by
          cases i <;> simp [VC.isEmpty] at he
          simp [VC.allowsPlain, VC.flatten]
        simp [he, this]
      · simp only [he, Bool.false_eq_true, if_false, anyPart, List.mem_append, List.mem_singleton]
        constructor
        · rintro ⟨q, hq | hq, hqp⟩
          · exact Or.inl ⟨q, hq, hqp⟩
          · exact Or.inr (hq ▸ hqp)
        · rintro (⟨q, hq, hqp⟩ | h)
          · exact ⟨q, Or.inl hq, hqp⟩
          · exact ⟨i, Or.inr rfl, h⟩
    simp only [VC.unionIntersectLoop, hi, bind, Except.bind]
    by_cases hh : t.view.allowsHigher o.view = true
    · simp only [hh, if_true]
      obtain ⟨parts, hparts, hsem⟩ := unionIntersectLoop_sem fuel os (t :: ts)
        (if i.isEmpty then acc else acc ++ [i]) (by simp at hf ⊢; omega)
        (fun c hc => ho c (by simp [hc])) ht (List.pairwise_cons.1 hso).2 hst
        (fun a ha b hb => hnl a (by simp [ha]) b hb)
      refine ⟨parts, hparts, fun p hp hreg => ?_⟩
      have hregO : Regular (boundsOf (o :: os)) p := hreg.append_left
      have hregT : Regular (boundsOf (t :: ts)) p := hreg.append_right
      rw [hsem p hp (hreg.mono (by
        intro e he
        simp only [List.mem_append, boundsOf, List.flatMap_cons] at he ⊢
        rcases he with he | he
        · exact Or.inl (Or.inr he)
        · exact Or.inr he)), hacc p,
        hiex p hp (hreg.mono (by
          intro e he
          simp only [List.mem_append, boundsOf, List.flatMap_cons] at he ⊢
          rcases he with he | he
          · exact Or.inl (Or.inl he)
          · exact Or.inr (Or.inl he)))]
      -- nothing admitted by `o` is admitted by a later member of theirs
      have key : o.allows p = true → anyAllows ts p = false := by
        intro hop
        have hod := (RC.allows_iff_den o p how hp (hregO.mono (fun e he => mem_boundsOf (by simp) he))).1 hop
        exact anyAllows_false_of_den (fun c hc => ht c (by simp [hc])) hp
          (hregT.mono (fun e he => by simp only [boundsOf, List.flatMap_cons, List.mem_append] at he ⊢; exact Or.inr he))
          (drop_ours hh hst p hod)
      rw [anyAllows_cons o os, anyAllows_cons t ts]
      cases h1 : o.allows p <;> cases h2 : t.allows p <;> cases h3 : anyAllows os p <;>
        cases h4 : anyAllows ts p <;> simp_all
    · simp only [hh, Bool.false_eq_true, if_false]
      simp only [Bool.not_eq_true] at hh
      obtain ⟨parts, hparts, hsem⟩ := unionIntersectLoop_sem fuel (o :: os) ts
        (if i.isEmpty then acc else acc ++ [i]) (by simp at hf ⊢; omega)
        ho (fun c hc => ht c (by simp [hc])) hso (List.pairwise_cons.1 hst).2
        (fun a ha b hb => hnl a ha b (by simp [hb]))
      refine ⟨parts, hparts, fun p hp hreg => ?_⟩
      have hregO : Regular (boundsOf (o :: os)) p := hreg.append_left
      have hregT : Regular (boundsOf (t :: ts)) p := hreg.append_right
      rw [hsem p hp (hreg.mono (by
        intro e he
        simp only [List.mem_append, boundsOf, List.flatMap_cons] at he ⊢
        rcases he with he | he
        · exact Or.inl he
        · exact Or.inr (Or.inr he))), hacc p,
        hiex p hp (hreg.mono (by
          intro e he
          simp only [List.mem_append, boundsOf, List.flatMap_cons] at he ⊢
          rcases he with he | he
          · exact Or.inl (Or.inl he)
          · exact Or.inr (Or.inl he)))]
      have key : t.allows p = true → anyAllows os p = false := by
        intro htp
        have htd := (RC.allows_iff_den t p htw hp (hregT.mono (fun e he => mem_boundsOf (by simp) he))).1 htp
        exact anyAllows_false_of_den (fun c hc => ho c (by simp [hc])) hp
          (hregO.mono (fun e he => by simp only [boundsOf, List.flatMap_cons, List.mem_append] at he ⊢; exact Or.inr he))
          (drop_theirs hh hso p htd)
      rw [anyAllows_cons o os, anyAllows_cons t ts]
      cases h1 : o.allows p <;> cases h2 : t.allows p <;> cases h3 : anyAllows os p <;>
        cases h4 : anyAllows ts p <;> simp_all

/-- **the merge walk of `VersionUnion.allows_any`**: with enough fuel it returns, and a "no" means no regular
probe is admitted by a member of each list -/
theorem unionAllowsAnyLoop_sound : ∀ (fuel : Nat) (ours theirs : List RC),
    ours.length + theirs.length < fuel →
    (∀ c ∈ ours, c.WF) → (∀ c ∈ theirs, c.WF) → SortedRC ours → SortedRC theirs →
    ∃ b, VC.unionAllowsAnyLoop fuel ours theirs = .ok b ∧
      (b = false → ∀ p, p.wf = true → Regular (boundsOf ours ++ boundsOf theirs) p →
        ¬ (anyAllows ours p = true ∧ anyAllows theirs p = true))
  | 0, ours, theirs, hf, _, _, _, _ => by omega
  | fuel + 1, [], theirs, _, _, _, _, _ => by
    refine ⟨false, by simp [VC.unionAllowsAnyLoop], fun _ p _ _ => ?_⟩
    simp [anyAllows]
  | fuel + 1, o :: os, [], _, _, _, _, _ => by
    refine ⟨false, by simp [VC.unionAllowsAnyLoop], fun _ p _ _ => ?_⟩
    simp [anyAllows]
  | fuel + 1, o :: os, t :: ts, hf, ho, ht, hso, hst => by
    have how : o.WF := ho o (by simp)
    have htw : t.WF := ht t (by simp)
    obtain ⟨a, ha⟩ := RC.allowsAny_ok o t
    simp only [VC.unionAllowsAnyLoop, ha, bind, Except.bind]
    cases a with
    | true => exact ⟨true, by simp [pure, Except.pure], fun h => by cases h⟩
    | false =>
      simp only [Bool.false_eq_true, if_false]
      have hpair : ∀ p, p.wf = true → Regular (boundsOf (o :: os) ++ boundsOf (t :: ts)) p →
          ¬ (o.allows p = true ∧ t.allows p = true) := fun p hp hreg =>
        RC.allowsAny_false_sound o t how htw ha p hp (hreg.mono (by
          intro e he
          simp only [List.mem_append, boundsOf, List.flatMap_cons] at he ⊢
          rcases he with he | he
          · exact Or.inl (Or.inl he)
          · exact Or.inr (Or.inl he)))
      by_cases hh : t.view.allowsHigher o.view = true
      · simp only [hh, if_true]
        obtain ⟨b, hb, hsem⟩ := unionAllowsAnyLoop_sound fuel os (t :: ts) (by simp at hf ⊢; omega)
          (fun c hc => ho c (by simp [hc])) ht (List.pairwise_cons.1 hso).2 hst
        refine ⟨b, hb, fun hbf p hp hreg => ?_⟩
        have hregO : Regular (boundsOf (o :: os)) p := hreg.append_left
        have hregT : Regular (boundsOf (t :: ts)) p := hreg.append_right
        have ih := hsem hbf p hp (hreg.mono (by
          intro e he
          simp only [List.mem_append, boundsOf, List.flatMap_cons] at he ⊢
          rcases he with he | he
          · exact Or.inl (Or.inr he)
          · exact Or.inr he))
        have key : o.allows p = true → anyAllows ts p = false := by
          intro hop
          have hod := (RC.allows_iff_den o p how hp (hregO.mono (fun e he => mem_boundsOf (by simp) he))).1 hop
          exact anyAllows_false_of_den (fun c hc => ht c (by simp [hc])) hp
            (hregT.mono (fun e he => by simp only [boundsOf, List.flatMap_cons, List.mem_append] at he ⊢; exact Or.inr he))
            (drop_ours hh hst p hod)
        have hp' := hpair p hp hreg
        rw [anyAllows_cons o os, anyAllows_cons t ts] at *
        cases h1 : o.allows p <;> cases h2 : t.allows p <;> cases h3 : anyAllows os p <;>
          cases h4 : anyAllows ts p <;> simp_all
      · simp only [hh, Bool.false_eq_true, if_false]
        simp only [Bool.not_eq_true] at hh
        obtain ⟨b, hb, hsem⟩ := unionAllowsAnyLoop_sound fuel (o :: os) ts (by simp at hf ⊢; omega)
          ho (fun c hc => ht c (by simp [hc])) hso (List.pairwise_cons.1 hst).2
        refine ⟨b, hb, fun hbf p hp hreg => ?_⟩
        have hregO : Regular (boundsOf (o :: os)) p := hreg.append_left
        have hregT : Regular (boundsOf (t :: ts)) p := hreg.append_right
        have ih := hsem hbf p hp (hreg.mono (by
          intro e he
          simp only [List.mem_append, boundsOf, List.flatMap_cons] at he ⊢
          rcases he with he | he
          · exact Or.inl he
          · exact Or.inr (Or.inr he)))
        have key : t.allows p = true → anyAllows os p = false := by
          intro htp
          have htd := (RC.allows_iff_den t p htw hp (hregT.mono (fun e he => mem_boundsOf (by simp) he))).1 htp
          exact anyAllows_false_of_den (fun c hc => ho c (by simp [hc])) hp
            (hregO.mono (fun e he => by simp only [boundsOf, List.flatMap_cons, List.mem_append] at he ⊢; exact Or.inr he))
            (drop_theirs hh hso p htd)
        have hp' := hpair p hp hreg
        rw [anyAllows_cons o os, anyAllows_cons t ts] at *
        cases h1 : o.allows p <;> cases h2 : t.allows p <;> cases h3 : anyAllows os p <;>
          cases h4 : anyAllows ts p <;> simp_all

/-- **the merge walk of `VersionUnion.allows_all`**: with enough fuel it returns, and a "yes" means every
regular probe admitted by a member of `theirs` is admitted by a member of `ours` -/
theorem unionAllowsAllLoop_sound : ∀ (fuel : Nat) (ours theirs : List RC),
    ours.length + theirs.length < fuel →
    (∀ c ∈ ours, c.WF) → (∀ c ∈ theirs, c.WF) →
    ∃ b, VC.unionAllowsAllLoop fuel ours theirs = .ok b ∧
      (b = true → ∀ p, p.wf = true → Regular (boundsOf ours ++ boundsOf theirs) p →
        anyAllows theirs p = true → anyAllows ours p = true)
  | 0, ours, theirs, hf, _, _ => by omega
  | fuel + 1, ours, [], _, _, _ => by
    refine ⟨true, by cases ours <;> simp [VC.unionAllowsAllLoop], fun _ p _ _ h => ?_⟩
    simp [anyAllows] at h
  | fuel + 1, [], t :: ts, _, _, _ => by
    exact ⟨false, by simp [VC.unionAllowsAllLoop], fun h => by cases h⟩
  | fuel + 1, o :: os, t :: ts, hf, ho, ht => by
    have how : o.WF := ho o (by simp)
    have htw : t.WF := ht t (by simp)
    simp only [VC.unionAllowsAllLoop]
    by_cases hall : RC.allowsAll o t = true
    · simp only [hall, if_true]
      obtain ⟨b, hb, hsem⟩ := unionAllowsAllLoop_sound fuel (o :: os) ts (by simp at hf ⊢; omega)
        ho (fun c hc => ht c (by simp [hc]))
      refine ⟨b, hb, fun hbt p hp hreg hth => ?_⟩
      rw [anyAllows_cons t ts, Bool.or_eq_true] at hth
      rcases hth with hth | hth
      · have := RC.allowsAll_sound o t how htw hall p hp (hreg.mono (by
          intro e he
          simp only [List.mem_append, boundsOf, List.flatMap_cons] at he ⊢
          rcases he with he | he
          · exact Or.inl (Or.inl he)
          · exact Or.inr (Or.inl he))) hth
        rw [anyAllows_cons]; simp [this]
      · exact hsem hbt p hp (hreg.mono (by
          intro e he
          simp only [List.mem_append, boundsOf, List.flatMap_cons] at he ⊢
          rcases he with he | he
          · exact Or.inl he
          · exact Or.inr (Or.inr he))) hth
    · simp only [hall, Bool.false_eq_true, if_false]
      obtain ⟨b, hb, hsem⟩ := unionAllowsAllLoop_sound fuel os (t :: ts) (by simp at hf ⊢; omega)
        (fun c hc => ho c (by simp [hc])) ht
      refine ⟨b, hb, fun hbt p hp hreg hth => ?_⟩
      have := hsem hbt p hp (hreg.mono (by
        intro e he
        simp only [List.mem_append, boundsOf, List.flatMap_cons] at he ⊢
        rcases he with he | he
        · exact Or.inl (Or.inr he)
        · exact Or.inr he)) hth
      rw [anyAllows_cons]; simp [this]

end Poetry
