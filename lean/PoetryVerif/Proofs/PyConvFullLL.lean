/-
C11 / C17 on the full domain with lists on both python variables (`FullLeafLLs E`: plain string variables, `extra`,
`python_version` / `python_full_version` with a comparison operator, `~=`, or an `in` / `not in` list): C07's leaf
specification holds with no hypothesis (`leafSpec_pyLL`), so the conversion and the reduction by a Python range are
exact against `validate` there.
-/
import PoetryVerif.Proofs.MarkerAlgSoundPairLL
import PoetryVerif.Proofs.PyConvFullLists

set_option linter.unusedSimpArgs false
set_option linter.unusedVariables false

namespace Poetry.Marker
open Poetry Poetry.Spec.Pep508 Poetry.VParser

/-- plain string variables, `extra`, and the python leaves with `~=` and lists on both variables -/
def FullLeafLLs (E : Env) (l : Leaf) : Prop := PlainLeaf E l ∨ PyLeafLL l

theorem fullLeafLs_LLs {E : Env} {l : Leaf} (h : FullLeafLs E l) : FullLeafLLs E l := by
  rcases h with h | h | h
  · exact Or.inl h
  · exact Or.inr (Or.inl h)
  · exact Or.inr (Or.inr (Or.inl h))

/-- **C07's leaf specification on the full domain with lists on both python variables** -/
theorem leafSpec_fullLLs {E : Env} {ex : List String} (hX : E.extras = some ex) {X Y Z : Nat} (hE : EnvPy E X Y Z) :
    LeafSpec (leafEval E) (FullLeafLLs E) := by
  refine LeafSpec.or (leafSpec_plain hX) (leafSpec_pyLL hE) ?_
  intro a b ha hb
  have hb' := pyLeafLL_name hb
  rcases plainLeaf_name ha with h | h
  · rcases hb' with hb' | hb' <;> (rw [pyPair, pyPair, h, hb']; decide)
  · simp only [plainStringVars, List.mem_cons, List.mem_nil_iff, or_false] at h
    rcases hb' with hb' | hb' <;>
      rcases h with h | h | h | h | h | h | h <;> (rw [pyPair, pyPair, h, hb']; decide)

theorem fullLeafLLs_evaluable {E : Env} {ex : List String} (hX : E.extras = some ex) {X Y Z : Nat}
    (hE : EnvPy E X Y Z) {l : Leaf} (h : FullLeafLLs E l) : ∃ b, l.validate E = .ok b := by
  rcases h with h | h
  · exact plainLeaf_evaluable hX h
  · exact pyLeafLL_evaluable hE h

/-! ### a `python_full_version` list leaf -/

theorem ptok_means (isIn : Bool) (t : PTok) (X Y Z : Nat) :
    ClauseMeans (t.item isIn) X Y Z (if isIn then t.hit X Y Z else !t.hit X Y Z) := by
  obtain ⟨hok, hstar, hp, _⟩ := ptok_item_ok isIn t
  have hne : t.item isIn ≠ "*" := by intro e; apply hstar; rw [e]; rfl
  exact ⟨t.vc isIn, by rw [parseMarkerVersionConstraint, parseConstraintAux_single _ true hok.nosep hne, hp],
    ptok_vc_allows isIn t X Y Z⟩

/-- the leaf with the alternatives the normaliser prints for it -/
theorem pfvListLeaf_alts {E : Env} {X Y Z : Nat} (hE : EnvPy E X Y Z) {l : Leaf} (h : PfvListLeaf l) :
    LeafAlts (leafEval E) X Y Z l := by
  obtain ⟨isIn, t0, rest, res, hs, hres, rfl⟩ := h
  have hev := pfvListLeaf_means hE.2 isIn t0 rest hs hres
  have hitems := versionListItems_pfv isIn t0 rest hs
  cases isIn
  · -- `not in`: one entry
    have hentry : joinWith ", " (versionListItems false (pfvList t0 rest)) = pfvListText false t0 (rest.map (·.2)) := by
      rw [hitems]; rfl
    obtain ⟨res', B, hres', _, _, hmean⟩ := parse_pfvList_reg false t0 (rest.map (·.2))
    rw [hres] at hres'; cases hres'
    have hmeans : ClauseMeans (pfvListText false t0 (rest.map (·.2))) X Y Z
        (!(t0 :: rest.map (·.2)).any (PTok.hit X Y Z)) := ⟨res, hres, by simpa using hmean X Y Z⟩
    have hshape : EntryShape (pfvListText false t0 (rest.map (·.2))) :=
      ⟨(t0 :: rest.map (·.2)).map (PTok.item false), by simp, rfl, by
        intro it hit
        obtain ⟨t, _, rfl⟩ := List.mem_map.1 hit
        exact ptok_itemShape false t⟩
    simp only [Bool.false_eq_true, if_false] at hev
    refine ⟨_, _, rfl, Or.inr (Or.inr ⟨rfl, rfl⟩), by simp, ?_, ?_, ?_⟩
    · intro it hit
      simp only [List.mem_singleton] at hit
      subst hit
      rw [hentry]; exact ⟨hshape, _, hmeans⟩
    · intro he
      refine ⟨joinWith ", " (versionListItems false (pfvList t0 rest)), by simp, ?_⟩
      rw [hentry]; rw [hev] at he; rwa [he] at hmeans
    · intro he it hit
      simp only [List.mem_singleton] at hit
      subst hit
      rw [hentry]; rw [hev] at he; rwa [he] at hmeans
  · -- `in`: one alternative per token
    simp only [if_true] at hev
    refine ⟨_, _, rfl, Or.inr (Or.inl ⟨rfl, rfl⟩), by rw [hitems]; simp, ?_, ?_, ?_⟩
    · intro it hit
      rw [hitems] at hit
      obtain ⟨t, _, rfl⟩ := List.mem_map.1 hit
      exact ⟨entryShape_item (ptok_itemShape true t), _, ptok_means true t X Y Z⟩
    · intro he
      rw [hev, List.any_eq_true] at he
      obtain ⟨t, ht, hd⟩ := he
      refine ⟨t.item true, by rw [hitems]; exact List.mem_map.2 ⟨t, ht, rfl⟩, ?_⟩
      have := ptok_means true t X Y Z
      simpa [hd] using this
    · intro he it hit
      rw [hitems] at hit
      obtain ⟨t, ht, rfl⟩ := List.mem_map.1 hit
      have hd : t.hit X Y Z = false := by
        rw [hev] at he
        exact List.any_eq_false.1 he t ht |> fun h => by simpa using h
      have := ptok_means true t X Y Z
      simpa [hd] using this

/-- `get_python_constraint_from_marker` of the leaf is its own clause -/
theorem gpcLeaf_pfvList (isIn : Bool) (t0 : PTok) (rest : List (String × PTok)) (hs : ∀ q ∈ rest, SepRun q.1)
    (c : LeafC) :
    gpcLeaf (.single ⟨"python_full_version", listOp isIn, pfvList t0 rest, false, c⟩) =
      parseMarkerVersionConstraint (pfvListText isIn t0 (rest.map (·.2))) := by
  have hpy : isPyName "python_full_version" = true := by decide
  have hitems := versionListItems_pfv isIn t0 rest hs
  cases isIn
  · have h1 : ("not in" == "in") = false := by decide
    simp [gpcLeaf, Leaf.name, hpy, listOp, normalizePyMarkers, normalizePyConj, h1, hitems, bind, Except.bind, pure,
      Except.pure, joinWith, pfvListText]
  · simp [gpcLeaf, Leaf.name, hpy, listOp, normalizePyMarkers, normalizePyConj, hitems, bind, Except.bind, pure,
      Except.pure, pfvListText, List.map_map, Function.comp_def, joinWith]

theorem pfvListLeaf_gpc_exact {E : Env} {X Y Z : Nat} (hE : EnvPy E X Y Z) {l : Leaf} (h : PfvListLeaf l) (c : VC)
    (hg : gpcLeaf l = .ok c) : PyVCok c ∧ c.allowsPlain (pyV X Y Z) = leafEval E l := by
  obtain ⟨isIn, t0, rest, res, hs, hres, rfl⟩ := h
  rw [gpcLeaf_pfvList isIn t0 rest hs, hres] at hg
  cases hg
  obtain ⟨res', B, hres', hreg, hpb, hmean⟩ := parse_pfvList_reg isIn t0 (rest.map (·.2))
  rw [hres] at hres'; cases hres'
  exact ⟨pyVCok_of_reg hpb hreg, by rw [hmean X Y Z, pfvListLeaf_means hE.2 isIn t0 rest hs hres]⟩

/-! ### the theorems on the domain -/

theorem fullLeafLLs_alts {E : Env} {X Y Z : Nat} (hE : EnvPy E X Y Z) (l : Leaf) (h : FullLeafLLs E l)
    (hk : convKey l.name = pyKey) : LeafAlts (leafEval E) X Y Z l := by
  rcases h with h | h | h | h
  · exact fullLeafLs_alts hE l (Or.inl h) hk
  · exact fullLeafLs_alts hE l (Or.inr (Or.inl h)) hk
  · exact fullLeafLs_alts hE l (Or.inr (Or.inr h)) hk
  · exact pfvListLeaf_alts hE h

theorem fullLeafLLs_canon {E : Env} (l : Leaf) (h : FullLeafLLs E l) : Canon l := by
  rcases h with h | h | h | h
  · exact fullLeafLs_canon (E := E) l (Or.inl h)
  · exact fullLeafLs_canon (E := E) l (Or.inr (Or.inl h))
  · exact fullLeafLs_canon (E := E) l (Or.inr (Or.inr h))
  · simp only [Canon]; rw [pfvListLeaf_name h]; decide

theorem gpc_upper_validate_fullLLs {E : Env} {ex : List String} (hX : E.extras = some ex) {X Y Z : Nat}
    (hE : EnvPy E X Y Z) (m : M) (g : VC) (hg : M.Good (FullLeafLLs E) m) (h : gpc m = .ok g)
    (hv : M.validate E m = .ok true) : g.allowsPlain (pyV X Y Z) = true := by
  rw [M.validate_eq_sem E m (good_evaluable E (fun l hl => fullLeafLLs_evaluable hX hE hl) m hg)] at hv
  injection hv with hv
  exact gpc_upper_alts (leafSpec_fullLLs hX hE) X Y Z m g hg (fun l hl hk => fullLeafLLs_alts hE l hl hk) h hv

theorem gpc_exact_validate_fullLLs {E : Env} {ex : List String} (hX : E.extras = some ex) {X Y Z : Nat}
    (hE : EnvPy E X Y Z) (m : M) (g : VC) (hg : M.Good (FullLeafLLs E) m)
    (hvars : ∀ n ∈ M.vars m, pyNames.contains n = true) (h : gpc m = .ok g) :
    M.validate E m = .ok (g.allowsPlain (pyV X Y Z)) := by
  have S := leafSpec_fullLLs hX hE
  rw [M.validate_eq_sem E m (good_evaluable E (fun l hl => fullLeafLLs_evaluable hX hE hl) m hg)]
  congr 1
  refine gpc_exact_alts S X Y Z m g hg hvars (fun l hl hk => fullLeafLLs_alts hE l hl hk) ?_ h
  intro d hd l hl
  have hv := dnf_vars S fullLeafLLs_canon _ _ m d hg hd l.name (leaf_name_mem_vars d l hl)
  exact convKey_of_pyNames (hvars _ hv)

theorem only_mentions_fullLLs {E : Env} {ex : List String} (hX : E.extras = some ex) {X Y Z : Nat}
    (hE : EnvPy E X Y Z) (names : List String) (m r : M) (hg : M.Good (FullLeafLLs E) m)
    (h : m.only names = .ok r) : ∀ n ∈ M.vars r, n ∈ names :=
  only_mentions_thm (leafSpec_fullLLs hX hE) fullLeafLLs_canon names m r hg h

/-- **`ReduceCtx` on the full domain with lists on both python variables** -/
theorem reduceCtx_fullLLs {E : Env} {ex : List String} (hX : E.extras = some ex) {X Y Z : Nat} (hE : EnvPy E X Y Z)
    (pc : VC) (hd : PyDomVC pc = true) (hp2 : PyPrec2 pc) (hpcok : PyVCok pc)
    (hpc : pc.allowsPlain (pyV X Y Z) = true) :
    ReduceCtx (leafEval E) (FullLeafLLs E) (fun _ => True) PyVCok pc (pyV X Y Z) where
  spec := leafSpec_fullLLs hX hE
  canon := fullLeafLLs_canon
  gpcLeaf_exact := fun l c hg _ hn hgl => by
    rcases hg with hg | hg | hg | hg
    · exact (reduceCtx_fullLs hX hE pc hd hp2 hpcok hpc).gpcLeaf_exact l c (Or.inl hg) trivial hn hgl
    · exact (reduceCtx_fullLs hX hE pc hd hp2 hpcok hpc).gpcLeaf_exact l c (Or.inr (Or.inl hg)) trivial hn hgl
    · exact (reduceCtx_fullLs hX hE pc hd hp2 hpcok hpc).gpcLeaf_exact l c (Or.inr (Or.inr hg)) trivial hn hgl
    · exact pfvListLeaf_gpc_exact hE hg c hgl
  gpc_lower := fun u g hgu hvu hgpc => by
    have S := leafSpec_fullLLs hX hE
    have hal : ∀ l, FullLeafLLs E l → convKey l.name = pyKey → LeafAlts (leafEval E) X Y Z l :=
      fun l hl hk => fullLeafLLs_alts hE l hl hk
    refine ⟨gpc_pyVCok S X Y Z u g hgu hal hgpc, ?_⟩
    intro hall
    have hvars : ∀ n ∈ M.vars u, pyNames.contains n = true := fun n hn => by simpa using hvu n hn
    have := gpc_exact_alts S X Y Z u g hgu hvars hal (by
      intro d hdd l hl
      have hv := dnf_vars S fullLeafLLs_canon _ _ u d hgu hdd l.name (leaf_name_mem_vars d l hl)
      exact convKey_of_pyNames (hvars _ hv)) hgpc
    rw [this, hall]
  allowsAll_sound := fun c hw h => allowsAll_py c pc hw hpcok X Y Z h hpc
  allowsAny_sound := fun c hw h hcp => allowsAny_py c pc hw hpcok X Y Z h ⟨hcp, hpc⟩
  nested_true := fun txt pm ht hm => by
    have := createNested_full hX hE pc hd hp2 txt pm ht hm
    exact ⟨M.good_mono (fun l hl => fullLeafLs_LLs (fullLeafC_Ls (fullLeaf_C hl))) pm this.1, by rw [this.2, hpc]⟩

/-- **`reduce_by_python_constraint` is exact against `validate`, lists on both python variables included** -/
theorem reduce_exact_validate_fullLLs {E : Env} {ex : List String} (hX : E.extras = some ex) {X Y Z : Nat}
    (hE : EnvPy E X Y Z) (pc : VC) (hd : PyDomVC pc = true) (hp2 : PyPrec2 pc) (hpcok : PyVCok pc)
    (hpc : pc.allowsPlain (pyV X Y Z) = true) (m r : M) (hg : M.Good (FullLeafLLs E) m)
    (h : M.reduce pc m = .ok r) :
    M.Good (FullLeafLLs E) r ∧ M.validate E r = M.validate E m := by
  have C := reduceCtx_fullLLs hX hE pc hd hp2 hpcok hpc
  have hr := reduce_exact_aux C m r (M.good_mono (fun l hl => ⟨hl, trivial⟩) m hg) h
  have hev : ∀ x, M.Good (FullLeafLLs E) x → M.Evaluable E x := fun x hx =>
    M.good_mono (fun l hl => fullLeafLLs_evaluable hX hE hl) x hx
  exact ⟨hr.1, by rw [M.validate_eq_sem E r (hev r hr.1), M.validate_eq_sem E m (hev m hg), hr.2]⟩

end Poetry.Marker
