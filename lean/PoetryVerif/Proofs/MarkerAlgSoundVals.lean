/-
The atoms of an intersection / union of string constraints come from the operands (no value is invented):
member level by inspection of the algorithms, union level by instantiating the C16 builder's parametric
exactness theorems (`MemberAlg`) with "well-formed ∧ every atom's value satisfies `W`".
-/
import PoetryVerif.Proofs.Generic

set_option linter.unusedSimpArgs false
set_option linter.unusedVariables false

namespace Poetry.Generic

def GS.atoms : GS → List Atom
  | .any => []
  | .empty => []
  | .atom a => [a]
  | .multi _ cs => cs

def GC.atoms : GC → List Atom
  | .s c => c.atoms
  | .union ms => ms.flatMap GS.atoms

theorem filter_eq_mem {p : Atom → Bool} {l l' : List Atom} (h : List.filter p l = l') : ∀ y ∈ l', y ∈ l := by
  subst h; intro y hy; exact (List.mem_filter.1 hy).1

theorem GS.intersectS_atoms (a b r : GS) (h : a.intersectS b = .ok r) :
    ∀ x ∈ r.atoms, x ∈ a.atoms ∨ x ∈ b.atoms := by
  cases a <;> cases b <;>
    simp only [GS.intersectS, Atom.intersectA, multiIntersectA, multiIntersectM, mkMulti] at h <;>
    (repeat' (split at h)) <;>
    (first | (cases h; done) | (cases h; intro x hx; simp [GS.atoms] at hx ⊢ <;> first | done | grind | (have hf := filter_eq_mem ‹List.filter _ _ = _›; grind)))

theorem GS.unionS_atoms (a b : GS) (r : GC) (h : a.unionS b = .ok r) :
    ∀ x ∈ r.atoms, x ∈ a.atoms ∨ x ∈ b.atoms := by
  cases a <;> cases b <;>
    simp only [GS.unionS, Atom.unionA, multiUnionA, multiUnionM, mkMulti] at h <;>
    (repeat' (split at h)) <;>
    (first | (cases h; done) | (cases h; intro x hx; simp [GS.atoms, GC.atoms] at hx ⊢ <;> first | done | grind | (have hf := filter_eq_mem ‹List.filter _ _ = _›; grind)))

variable (W : String → Prop)

/-- well-formed (single-valued variant) and every atom's value satisfies `W` -/
def PGW (c : GS) : Prop := c.wfG = true ∧ ∀ x ∈ c.atoms, W x.value
/-- well-formed (`extra` variant) and every atom's value satisfies `W` -/
def PXW (c : GS) : Prop := c.wfX = true ∧ ∀ x ∈ c.atoms, W x.value

theorem Pc_PGW (c : GC) : Pc (PGW W) c ↔ (c.wfG = true ∧ ∀ x ∈ c.atoms, W x.value) := by
  cases c with
  | s c => rfl
  | union ms =>
    simp only [Pc, PGW, GC.atoms, List.mem_flatMap]
    rw [← Pc_wfG (.union ms)]
    simp only [Pc]
    constructor
    · rintro ⟨h1, h2⟩
      exact ⟨⟨h1, fun m hm => (h2 m hm).1⟩, fun x ⟨m, hm, hx⟩ => (h2 m hm).2 x hx⟩
    · rintro ⟨⟨h1, h2⟩, h3⟩
      exact ⟨h1, fun m hm => ⟨h2 m hm, fun x hx => h3 x ⟨m, hm, hx⟩⟩⟩

theorem Pc_PXW (c : GC) : Pc (PXW W) c ↔ (c.wfX = true ∧ ∀ x ∈ c.atoms, W x.value) := by
  cases c with
  | s c => rfl
  | union ms =>
    simp only [Pc, PXW, GC.atoms, List.mem_flatMap]
    rw [← Pc_wfX (.union ms)]
    simp only [Pc]
    constructor
    · rintro ⟨h1, h2⟩
      exact ⟨⟨h1, fun m hm => (h2 m hm).1⟩, fun x ⟨m, hm, hx⟩ => (h2 m hm).2 x hx⟩
    · rintro ⟨⟨h1, h2⟩, h3⟩
      exact ⟨h1, fun m hm => ⟨h2 m hm, fun x hx => h3 x ⟨m, hm, hx⟩⟩⟩

theorem algGW : MemberAlg (PGW W) FG where
  empty := ⟨rfl, by simp [GS.atoms]⟩
  atoms := fun x cs h c hc => ⟨algG.atoms x cs h.1 c hc, by
    intro y hy; simp [GS.atoms] at hy; subst hy; exact h.2 y (by simpa [GS.atoms] using hc)⟩
  inter := fun a b ha hb => by
    obtain ⟨r, h1, h2, h3⟩ := algG.inter a b ha.1 hb.1
    refine ⟨r, h1, ⟨h2, ?_⟩, h3⟩
    intro x hx
    rcases GS.intersectS_atoms a b r h1 x hx with h | h
    · exact ha.2 x h
    · exact hb.2 x h
  union := fun a b ha hb => by
    obtain ⟨r, h1, h2, h3⟩ := algG.union a b ha.1 hb.1
    refine ⟨r, h1, (Pc_PGW W r).2 ⟨(Pc_wfG r).1 h2, ?_⟩, h3⟩
    intro x hx
    rcases GS.unionS_atoms a b r h1 x hx with h | h
    · exact ha.2 x h
    · exact hb.2 x h

theorem algXW : MemberAlg (PXW W) FX where
  empty := ⟨rfl, by simp [GS.atoms]⟩
  atoms := fun x cs h c hc => ⟨algX.atoms x cs h.1 c hc, by
    intro y hy; simp [GS.atoms] at hy; subst hy; exact h.2 y (by simpa [GS.atoms] using hc)⟩
  inter := fun a b ha hb => by
    obtain ⟨r, h1, h2, h3⟩ := algX.inter a b ha.1 hb.1
    refine ⟨r, h1, ⟨h2, ?_⟩, h3⟩
    intro x hx
    rcases GS.intersectS_atoms a b r h1 x hx with h | h
    · exact ha.2 x h
    · exact hb.2 x h
  union := fun a b ha hb => by
    obtain ⟨r, h1, h2, h3⟩ := algX.union a b ha.1 hb.1
    refine ⟨r, h1, (Pc_PXW W r).2 ⟨(Pc_wfX r).1 h2, ?_⟩, h3⟩
    intro x hx
    rcases GS.unionS_atoms a b r h1 x hx with h | h
    · exact ha.2 x h
    · exact hb.2 x h

/-- **exactness with value tracking** (single-valued variant): the atoms of the result carry values of the
operands' atoms only -/
theorem GC.intersect_GW (a b : GC) (ha : a.wfG = true) (hb : b.wfG = true)
    (hva : ∀ x ∈ a.atoms, W x.value) (hvb : ∀ x ∈ b.atoms, W x.value) :
    ∃ r, a.intersect b = .ok r ∧ r.wfG = true ∧ (∀ x ∈ r.atoms, W x.value) ∧
      ∀ v, r.den v = (a.den v && b.den v) := by
  obtain ⟨r, h1, h2, h3⟩ := GC.intersect_exact (algGW W) ⟨rfl, by simp [GS.atoms]⟩ a b
    ((Pc_PGW W a).2 ⟨ha, hva⟩) ((Pc_PGW W b).2 ⟨hb, hvb⟩)
  have := (Pc_PGW W r).1 h2
  exact ⟨r, h1, this.1, this.2, fun v => h3 _ ⟨v, rfl⟩⟩

theorem GC.unionWith_GW (a b : GC) (ha : a.wfG = true) (hb : b.wfG = true)
    (hva : ∀ x ∈ a.atoms, W x.value) (hvb : ∀ x ∈ b.atoms, W x.value) :
    ∃ r, a.unionWith b = .ok r ∧ r.wfG = true ∧ (∀ x ∈ r.atoms, W x.value) ∧
      ∀ v, r.den v = (a.den v || b.den v) := by
  obtain ⟨r, h1, h2, h3⟩ := GC.unionWith_exact (algGW W) ⟨rfl, by simp [GS.atoms]⟩ a b
    ((Pc_PGW W a).2 ⟨ha, hva⟩) ((Pc_PGW W b).2 ⟨hb, hvb⟩)
  have := (Pc_PGW W r).1 h2
  exact ⟨r, h1, this.1, this.2, fun v => h3 _ ⟨v, rfl⟩⟩

theorem GC.intersect_XW (a b : GC) (ha : a.wfX = true) (hb : b.wfX = true)
    (hva : ∀ x ∈ a.atoms, W x.value) (hvb : ∀ x ∈ b.atoms, W x.value) :
    ∃ r, a.intersect b = .ok r ∧ r.wfX = true ∧ (∀ x ∈ r.atoms, W x.value) ∧
      ∀ E, r.denX E = (a.denX E && b.denX E) := by
  obtain ⟨r, h1, h2, h3⟩ := GC.intersect_exact (algXW W) ⟨rfl, by simp [GS.atoms]⟩ a b
    ((Pc_PXW W a).2 ⟨ha, hva⟩) ((Pc_PXW W b).2 ⟨hb, hvb⟩)
  have := (Pc_PXW W r).1 h2
  exact ⟨r, h1, this.1, this.2, fun E => h3 _ ⟨E, rfl⟩⟩

theorem GC.unionWith_XW (a b : GC) (ha : a.wfX = true) (hb : b.wfX = true)
    (hva : ∀ x ∈ a.atoms, W x.value) (hvb : ∀ x ∈ b.atoms, W x.value) :
    ∃ r, a.unionWith b = .ok r ∧ r.wfX = true ∧ (∀ x ∈ r.atoms, W x.value) ∧
      ∀ E, r.denX E = (a.denX E || b.denX E) := by
  obtain ⟨r, h1, h2, h3⟩ := GC.unionWith_exact (algXW W) ⟨rfl, by simp [GS.atoms]⟩ a b
    ((Pc_PXW W a).2 ⟨ha, hva⟩) ((Pc_PXW W b).2 ⟨hb, hvb⟩)
  have := (Pc_PXW W r).1 h2
  exact ⟨r, h1, this.1, this.2, fun E => h3 _ ⟨E, rfl⟩⟩

end Poetry.Generic
