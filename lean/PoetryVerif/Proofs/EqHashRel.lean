/-
C18 helper lemmas, part 11 (layer 1 of the `allows` congruence): the structural relation between version constraints
the algebra cannot tell apart — same constructors, bounds with equal comparison keys and equal `is_local()`, same
inclusion flags — and its preservation by the version- and range-level primitives: `without_local`,
`without_postrelease`, `first_devrelease`, `Version.allows`, `VersionRange.allows` (in BOTH arguments), `allowed_max`,
`allows_lower`, `allows_higher`, `is_strictly_lower`, `is_adjacent_to`, `_cmp`, `allows_any` on range constraints.
-/
import PoetryVerif.Proofs.EqHashAllows

set_option linter.unusedSimpArgs false
set_option linter.unusedVariables false

namespace Poetry.EqHash
open Poetry Poetry.Version Poetry.Marker

/-! ### the relation -/

def ORel : Option Version → Option Version → Prop
  | none, none => True
  | some a, some b => SameBound a b
  | _, _ => False

structure RRel (r s : VRange) : Prop where
  min : ORel r.min s.min
  max : ORel r.max s.max
  imin : r.imin = s.imin
  imax : r.imax = s.imax

def CRel : RC → RC → Prop
  | .ver a, .ver b => SameBound a b
  | .rng r, .rng s => RRel r s
  | _, _ => False

def LRel : List RC → List RC → Prop
  | [], [] => True
  | a :: as, b :: bs => CRel a b ∧ LRel as bs
  | _, _ => False

def VCRel : VC → VC → Prop
  | .empty, .empty => True
  | .single a, .single b => CRel a b
  | .union as, .union bs => LRel as bs
  | _, _ => False

/-- results of the modelled Python calls: both raise the same exception, or both return related values -/
def PRel {α : Type} (R : α → α → Prop) : PyM α → PyM α → Prop
  | .ok a, .ok b => R a b
  | .error e, .error e' => e = e'
  | _, _ => False

theorem ORel.cases {x y : Option Version} (h : ORel x y) :
    (x = none ∧ y = none) ∨ ∃ a b, x = some a ∧ y = some b ∧ SameBound a b := by
  cases x <;> cases y <;> simp_all [ORel]

theorem ORel.isSome {x y : Option Version} (h : ORel x y) : x.isSome = y.isSome := by
  cases x <;> cases y <;> simp_all [ORel]
theorem ORel.isNone {x y : Option Version} (h : ORel x y) : x.isNone = y.isNone := by
  cases x <;> cases y <;> simp_all [ORel]

theorem SameBound.rfl' (a : Version) : SameBound a a := ⟨rfl, rfl⟩
theorem ORel.rfl' : ∀ x : Option Version, ORel x x
  | none => trivial
  | some a => SameBound.rfl' a

/-! ### versions -/

theorem cmp_congr2 {a a' b b' : Version} (h1 : SameBound a a') (h2 : SameBound b b') :
    Version.cmp a b = Version.cmp a' b' := by
  rw [cmp_congr_left ((cmp_eq_iff_key a a').2 h1.key) b, cmp_congr_right ((cmp_eq_iff_key b b').2 h2.key) a']

theorem lt_congr2 {a a' b b' : Version} (h1 : SameBound a a') (h2 : SameBound b b') :
    Version.lt a b = Version.lt a' b' := by unfold Version.lt; rw [cmp_congr2 h1 h2]
theorem gt_congr2 {a a' b b' : Version} (h1 : SameBound a a') (h2 : SameBound b b') :
    Version.gt a b = Version.gt a' b' := by unfold Version.gt; rw [cmp_congr2 h1 h2]
theorem eqv_congr2 {a a' b b' : Version} (h1 : SameBound a a') (h2 : SameBound b b') :
    Version.eqv a b = Version.eqv a' b' := by unfold Version.eqv; rw [cmp_congr2 h1 h2]

theorem sb_isPost {a b : Version} (h : SameBound a b) : a.isPostrelease = b.isPostrelease := isPost_of_key_eq h.key
theorem sb_isUnstable {a b : Version} (h : SameBound a b) : a.isUnstable = b.isUnstable := isUnstable_of_key_eq h.key

theorem sb_withoutLocal {a b : Version} (h : SameBound a b) : SameBound a.withoutLocal b.withoutLocal := by
  obtain ⟨he, hr, hp, hpo, hd, _⟩ := parts_of_key_eq h.key
  exact ⟨by simp [key, withoutLocal, mk', preK, postK, devK, he, hr, hp, hpo, hd], rfl⟩

theorem sb_withoutPost {a b : Version} (h : SameBound a b) : SameBound a.withoutPostrelease b.withoutPostrelease := by
  obtain ⟨he, hr, hp, hpo, hd, hl⟩ := parts_of_key_eq h.key
  have hloc : a.loc.isSome = b.loc.isSome := h.loc
  unfold withoutPostrelease
  rw [sb_isPost h]
  split
  · exact ⟨by simp [key, mk', preK, postK, devK, he, hr, hp, hl], by simpa [isLocal, mk'] using hloc⟩
  · exact h

theorem sb_firstDev {a b : Version} (h : SameBound a b) : SameBound a.firstDevrelease b.firstDevrelease :=
  ⟨key_firstDev_of_key_eq h.key, rfl⟩

/-- `Version.allows`, both arguments -/
theorem verAllows_congr2 {a a' b b' : Version} (h1 : SameBound a a') (h2 : SameBound b b') :
    a.allows b = a'.allows b' := by
  unfold Version.allows
  rw [h1.loc, h2.loc]
  split
  · exact eqv_congr2 h1 (sb_withoutLocal h2)
  · exact eqv_congr2 h1 h2

theorem optVerEq_congr2 {x x' y y' : Option Version} (h1 : ORel x x') (h2 : ORel y y') :
    optVerEq x y = optVerEq x' y' := by
  rcases h1.cases with ⟨rfl, rfl⟩ | ⟨a, a', rfl, rfl, ha⟩ <;> rcases h2.cases with ⟨rfl, rfl⟩ | ⟨b, b', rfl, rfl, hb⟩ <;>
    simp [optVerEq]
  exact eqv_congr2 ha hb

/-! ### ranges -/

theorem allowedMax_rel {r s : VRange} (h : RRel r s) : ORel r.allowedMax s.allowedMax := by
  unfold VRange.allowedMax
  rcases h.max.cases with ⟨h1, h2⟩ | ⟨M, M', h1, h2, hM⟩
  · simp [h1, h2, ORel]
  · have hopt : optVerEq r.min (some M) = optVerEq s.min (some M') := optVerEq_congr2 h.min (by simpa [ORel] using hM)
    simp only [h1, h2, h.imax, h.imin, sb_isUnstable hM, hopt]
    split
    · exact hM
    · split
      · exact hM
      · exact sb_firstDev hM

theorem allowsLo_congr2 {r s : VRange} (h : RRel r s) {v w : Version} (hv : SameBound v w) :
    r.allowsLo v = s.allowsLo w := by
  unfold VRange.allowsLo
  rcases h.min.cases with ⟨h1, h2⟩ | ⟨m, m', h1, h2, hm⟩
  · simp [h1, h2]
  · simp only [h1, h2, h.imin, sb_isPost hm, sb_isPost hv, hm.loc]
    -- the two adjusted candidates are related
    have ho1 : SameBound (if (!s.imin && !m'.isPostrelease && w.isPostrelease) = true then v.withoutPostrelease else v)
        (if (!s.imin && !m'.isPostrelease && w.isPostrelease) = true then w.withoutPostrelease else w) := by
      split
      · exact sb_withoutPost hv
      · exact hv
    generalize (if (!s.imin && !m'.isPostrelease && w.isPostrelease) = true then v.withoutPostrelease else v) = o1 at ho1 ⊢
    generalize (if (!s.imin && !m'.isPostrelease && w.isPostrelease) = true then w.withoutPostrelease else w) = o1' at ho1 ⊢
    have ho2 : SameBound (if (!m'.isLocal && o1.isLocal) = true then o1.withoutLocal else o1)
        (if (!m'.isLocal && o1'.isLocal) = true then o1'.withoutLocal else o1') := by
      rw [ho1.loc]
      split
      · exact sb_withoutLocal ho1
      · exact ho1
    rw [ho1.loc] at ho2 ⊢
    generalize (if (!m'.isLocal && o1'.isLocal) = true then o1.withoutLocal else o1) = o2 at ho2 ⊢
    generalize (if (!m'.isLocal && o1'.isLocal) = true then o1'.withoutLocal else o1') = o2' at ho2 ⊢
    rw [lt_congr2 ho2 hm, eqv_congr2 ho2 hm]

theorem allowsHi_congr2 {r s : VRange} (h : RRel r s) {v w : Version} (hv : SameBound v w) :
    r.allowsHi v = s.allowsHi w := by
  have ha := allowedMax_rel h
  unfold VRange.allowsHi
  rcases h.max.cases with ⟨h1, h2⟩ | ⟨M, M', h1, h2, hM⟩
  · simp [h1, h2]
  · rcases ha.cases with ⟨a1, a2⟩ | ⟨A, A', a1, a2, hA⟩
    · simp [h1, h2, a1, a2]
    · simp only [h1, h2, a1, a2, h.imax, hA.loc, hv.loc]
      have ho : SameBound (if (!A'.isLocal && w.isLocal) = true then v.withoutLocal else v)
          (if (!A'.isLocal && w.isLocal) = true then w.withoutLocal else w) := by
        split
        · exact sb_withoutLocal hv
        · exact hv
      generalize (if (!A'.isLocal && w.isLocal) = true then v.withoutLocal else v) = o at ho ⊢
      generalize (if (!A'.isLocal && w.isLocal) = true then w.withoutLocal else w) = o' at ho ⊢
      rw [gt_congr2 ho hA, eqv_congr2 ho hM, eqv_congr2 ho hA]

/-- **`VersionRange.allows` respects the relation in the range AND in the candidate** -/
theorem rangeAllows_congr2 {r s : VRange} (h : RRel r s) {v w : Version} (hv : SameBound v w) :
    r.allows v = s.allows w := by
  unfold VRange.allows; rw [allowsLo_congr2 h hv, allowsHi_congr2 h hv]

end Poetry.EqHash
