/-
C19 (version-constraint part): the constraint parser rejects with the documented error only, and what it
returns can be printed.  Helper lemmas (property theorems live in Props/C19vc.lean).
-/
import PoetryVerif.Proofs.VersionParse
import PoetryVerif.Proofs.VRangeBump
import PoetryVerif.Proofs.VRangeOps
import PoetryVerif.Proofs.VRangeMerge
import PoetryVerif.Proofs.VRangeDiff
import PoetryVerif.Model.VParser
import PoetryVerif.Model.VPrint

set_option linter.unusedSimpArgs false
set_option linter.unusedVariables false

namespace Poetry.ParserTotal
open Poetry Version VParser

/-! ## `VersionUnion.of` on ranges only never raises -/

/-- every member is a `VersionRange` (no bare `Version`) -/
def AllRng (l : List RC) : Prop := ∀ c ∈ l, ∃ r, c = RC.rng r

theorem AllRng.nil : AllRng [] := by intro c hc; cases hc

theorem AllRng.cons {r : VRange} {l : List RC} (h : AllRng l) : AllRng (.rng r :: l) := by
  intro c hc
  rcases List.mem_cons.1 hc with rfl | hc
  · exact ⟨r, rfl⟩
  · exact h c hc

theorem AllRng.tail {c : RC} {l : List RC} (h : AllRng (c :: l)) : AllRng l :=
  fun x hx => h x (List.mem_cons_of_mem _ hx)

theorem AllRng.head {c : RC} {l : List RC} (h : AllRng (c :: l)) : ∃ r, c = .rng r :=
  h c (List.mem_cons_self ..)

theorem AllRng.append {l l' : List RC} (h : AllRng l) (h' : AllRng l') : AllRng (l ++ l') := by
  intro c hc
  rcases List.mem_append.1 hc with hc | hc
  · exact h c hc
  · exact h' c hc

theorem AllRng.reverse {l : List RC} (h : AllRng l) : AllRng l.reverse :=
  fun c hc => h c (List.mem_reverse.1 hc)

theorem view_rng (r : VRange) : (RC.rng r).view = r := rfl

/-- two ranges that overlap or are adjacent always merge into their hull -/
theorem rcUnionSingle_rng_of_touch (a b : VRange)
    (h : (!(!(b.isStrictlyLower a || b.isStrictlyHigher a)) && !(a.isAdjacentTo b)) = false) :
    rcUnionSingle (.rng a) (.rng b) = .ok (some (.rng (VRange.hull a b))) := by
  apply VRange.rcUnionSingle_rng_some
  simp only [VRange.edgesTouch, VRange.isAdjacentTo, VRange.isStrictlyHigher] at h ⊢
  revert h
  cases optVerEq a.max b.min <;> cases optVerEq a.min b.max <;> cases a.imax <;> cases b.imin <;>
    cases a.imin <;> cases b.imax <;> cases b.isStrictlyLower a <;> cases a.isStrictlyLower b <;> simp

/-- **the merge loop of `VersionUnion.of` never raises on ranges** (no `RecursionError`), keeps ranges, and
returns at least one member when it was given one -/
theorem mergeLoop_allRng : ∀ (l acc : List RC), AllRng l → AllRng acc →
    ∃ res, mergeLoop l acc = .ok res ∧ AllRng res ∧ (l ≠ [] ∨ acc ≠ [] → res ≠ [])
  | [], acc, _, ha => ⟨acc.reverse, rfl, ha.reverse, by simp⟩
  | c :: rest, [], hl, _ => by
    obtain ⟨res, h1, h2, h3⟩ := mergeLoop_allRng rest [c] hl.tail
      (by intro x hx; simp at hx; subst hx; exact hl.head)
    exact ⟨res, by simpa [mergeLoop] using h1, h2, fun _ => h3 (Or.inr (by simp))⟩
  | c :: rest, last :: more, hl, ha => by
    obtain ⟨b, rfl⟩ := hl.head
    obtain ⟨a, rfl⟩ := ha.head
    simp only [mergeLoop, RC.allowsAny, bind, Except.bind]
    split
    · obtain ⟨res, h1, h2, h3⟩ := mergeLoop_allRng rest (.rng b :: .rng a :: more) hl.tail ha.cons
      exact ⟨res, h1, h2, fun _ => h3 (Or.inr (by simp))⟩
    · next hc =>
      rw [rcUnionSingle_rng_of_touch a b (by simpa [view_rng] using hc)]
      obtain ⟨res, h1, h2, h3⟩ := mergeLoop_allRng rest (.rng (VRange.hull a b) :: more) hl.tail ha.tail.cons
      exact ⟨res, h1, h2, fun _ => h3 (Or.inr (by simp))⟩

theorem AllRng.sort {l : List RC} (h : AllRng l) : AllRng (sortRCs l) :=
  fun c hc => h c ((mem_sortRCs c l).1 hc)

/-- **`VersionUnion.of` never raises on ranges**, and the result consists of ranges -/
theorem unionOfFlat_allRng (l : List RC) (h : AllRng l) :
    ∃ res, unionOfFlat l = .ok res ∧ AllRng res.flatten := by
  unfold unionOfFlat
  split
  · exact ⟨.empty, rfl, AllRng.nil⟩
  · split
    · exact ⟨VC.any, rfl, by intro c hc; simp [VC.any, VC.flatten] at hc; exact ⟨_, hc⟩⟩
    · obtain ⟨res, h1, h2, _⟩ := mergeLoop_allRng (sortRCs l) [] h.sort AllRng.nil
      simp only [h1, bind, Except.bind]
      split
      · next c => exact ⟨_, rfl, by simpa [VC.flatten] using h2⟩
      · exact ⟨_, rfl, by simpa [VC.flatten] using h2⟩


/-! ## `VersionRange.difference(VersionRange)`: the `None.is_empty()` AttributeError is unreachable -/

theorem allowedMax_isSome {r : VRange} {M : Version} (h : r.max = some M) : r.allowedMax.isSome = true := by
  unfold VRange.allowedMax; rw [h]; simp only
  split
  · rfl
  · split <;> rfl

theorem allowedMax_none {r : VRange} (h : r.max = none) : r.allowedMax = none := by
  unfold VRange.allowedMax; rw [h]

/-- the `before` piece never raises: equal lower bounds with `allows_lower` means a bound exists -/
theorem beforePiece_ok (a b : VRange) :
    ∃ o, VRange.beforePiece a b = .ok o ∧
      (o = none ∨ (∃ m, a.min = some m ∧ o = some (.ver m)) ∨ o = some (.rng ⟨a.min, b.min, a.imin, !b.imin⟩)) := by
  unfold VRange.beforePiece
  split
  · exact ⟨none, rfl, Or.inl rfl⟩
  · next h1 =>
    split
    · next h2 =>
      cases ha : a.min with
      | some m => exact ⟨_, rfl, Or.inr (Or.inl ⟨m, rfl, rfl⟩)⟩
      | none =>
        exfalso
        cases hb : b.min with
        | none => simp [VRange.allowsLower, VRange.allowedMin, ha, hb] at h1
        | some y => simp [optVerEq, ha, hb] at h2
    · exact ⟨_, rfl, Or.inr (Or.inr rfl)⟩

theorem afterPiece_ok (a b : VRange) :
    ∃ o, VRange.afterPiece a b = .ok o ∧
      (o = none ∨ (∃ m, a.max = some m ∧ o = some (.ver m)) ∨ o = some (.rng ⟨b.max, a.max, !b.imax, a.imax⟩)) := by
  unfold VRange.afterPiece
  split
  · exact ⟨none, rfl, Or.inl rfl⟩
  · next h1 =>
    split
    · next h2 =>
      cases ha : a.max with
      | some m => exact ⟨_, rfl, Or.inr (Or.inl ⟨m, rfl, rfl⟩)⟩
      | none =>
        exfalso
        cases hb : b.max with
        | none => simp [VRange.allowsHigher, allowedMax_none ha, allowedMax_none hb] at h1
        | some y => simp [optVerEq, ha, hb] at h2
    · exact ⟨_, rfl, Or.inr (Or.inr rfl)⟩

/-- **`VersionRange.difference(VersionRange)` raises only what `VersionUnion.of(before, after)` raises** — in
particular never `AttributeError` -/
theorem rngDifferenceRng_err (a b : VRange) (e : PyErr) (h : RC.rngDifferenceRng a b = .error e) :
    ∃ x y, unionOfFlat [x, y] = .error e := by
  rw [VRange.rngDifferenceRng_eq] at h
  obtain ⟨o1, h1, _⟩ := beforePiece_ok a b
  obtain ⟨o2, h2, _⟩ := afterPiece_ok a b
  simp only [RC.allowsAny, bind, Except.bind, h1, h2, pure, Except.pure] at h
  split at h
  · cases h
  · cases o1 <;> cases o2 <;> simp at h
    exact ⟨_, _, h⟩

/-- what `_make_x_constraint_range` subtracts from `*`: two half lines -/
theorem difference_any_halfOpen (mn mx : Version) :
    VC.difference VC.any (.single (.rng ⟨some mn, some mx, true, false⟩)) =
      unionOfFlat [.rng ⟨none, some mn, false, false⟩, .rng ⟨some mx, none, true, false⟩] := by
  have hM : (VRange.allowedMax ⟨some mn, some mx, true, false⟩).isSome = true := allowedMax_isSome rfl
  cases hM' : VRange.allowedMax ⟨some mn, some mx, true, false⟩ with
  | none => rw [hM'] at hM; cases hM
  | some M' =>
    have hA : VRange.allowedMax ⟨none, none, false, false⟩ = none := rfl
    simp [VC.difference, VC.any, RC.difference, RC.rngDifferenceRng, RC.allowsAny, VRange.any,
      VRange.isStrictlyLower, VRange.isStrictlyHigher, VRange.allowedMin, VRange.allowsLower,
      VRange.allowsHigher, optVerEq, bind, Except.bind, pure, Except.pure, hM', hA]

/-- lower end of the `V.*` range -/
def xMin (v : Version) (isMarker : Bool) : Version := if isMarker then v else v.firstDevrelease

/-- upper end of the `V.*` range -/
def xMax (v : Version) (isMarker : Bool) : Version :=
  let next :=
    if v.isDevrelease then v.nextDevrelease
    else if v.isPostrelease then v.nextPostrelease
    else if v.isStable then v.nextStable
    else v.nextPrerelease
  if isMarker then next else (if !next.isDevrelease then next.firstDevrelease else next)

theorem makeXConstraintRange_eq (v : Version) (invert isMarker : Bool) :
    makeXConstraintRange v invert isMarker =
      if invert then VC.difference VC.any (.single (.rng ⟨some (xMin v isMarker), some (xMax v isMarker), true, false⟩))
      else .ok (.single (.rng ⟨some (xMin v isMarker), some (xMax v isMarker), true, false⟩)) := rfl

/-- **`_make_x_constraint_range` never raises** -/
theorem makeXConstraintRange_ok (v : Version) (invert isMarker : Bool) :
    ∃ c, makeXConstraintRange v invert isMarker = .ok c ∧ AllRng c.flatten := by
  rw [makeXConstraintRange_eq]
  split
  · rw [difference_any_halfOpen]
    exact unionOfFlat_allRng _ (AllRng.nil.cons.cons)
  · exact ⟨_, rfl, by intro c hc; simp [VC.flatten] at hc; exact ⟨_, hc⟩⟩

/-! ## single clauses -/

/-- `Version.parse` rejects with `InvalidVersionError` (a `ValueError`) only -/
theorem Version.parse_err (t : String) (e : PyErr) (h : Version.parse t = .error e) : e = .value := by
  unfold Version.parse at h
  simp only at h
  split at h
  · cases h; rfl
  · split at h
    · cases h
    · cases h; rfl


/-! ### upper ends of `~`, `^`, `~=` are well-formed and strictly above the version -/

theorem stable_nextMajor_wf (v : Version) : v.stable.nextMajor.wf = true :=
  wf_final _ _ (by simp [isIncrementRequired_of_stable (stable_isStable v), relNextMajor])

theorem stable_nextMinor_wf (v : Version) (h : v.wf = true) : v.stable.nextMinor.wf = true := by
  have hne := wf_release_ne h
  exact wf_final _ _ (by
    simp only [isIncrementRequired_of_stable (stable_isStable v), Bool.true_or, if_true, stable_release]
    cases hr : v.release with
    | nil => exact absurd hr hne
    | cons a as => cases as <;> simp [relNextMinor])

theorem stable_nextPatch_wf (v : Version) (h : v.wf = true) : v.stable.nextPatch.wf = true := by
  have hne := wf_release_ne h
  exact wf_final _ _ (by
    simp only [isIncrementRequired_of_stable (stable_isStable v), Bool.true_or, if_true, stable_release]
    cases hr : v.release with
    | nil => exact absurd hr hne
    | cons a as =>
      cases as with
      | nil => simp [relNextPatch]
      | cons b bs => cases bs <;> simp [relNextPatch])

theorem nextBreaking_wf (v : Version) (h : v.wf = true) : v.nextBreaking.wf = true := by
  unfold nextBreaking; split
  · exact stable_nextMajor_wf v
  · split
    · exact stable_nextMinor_wf v h
    · exact stable_nextPatch_wf v h

theorem compatHigh_wf_gt (v : Version) (h : v.wf = true) :
    (compatHigh v).wf = true ∧ vk v < vk (compatHigh v) := by
  unfold compatHigh
  split
  · exact ⟨stable_nextMajor_wf v, (vk_lt_iff _ _).2 (stable_nextMajor_gt v h)⟩
  · next h2 =>
    split
    · exact ⟨stable_nextMinor_wf v h, (vk_lt_iff _ _).2 (stable_nextMinor_gt v h)⟩
    · next h3 =>
      have hp : 2 ≤ v.precision := by omega
      obtain ⟨h1, h2', h3'⟩ := compatHigh_release v hp
      have hc : compatHigh v = Version.mk' v.epoch (Version.bumpSecondToLast v.release) none none none none := by
        simp [compatHigh, h2, h3]
      rw [← hc]
      have hlt' : compare (stripZeros v.release) (stripZeros (compatHigh v).release) = .lt := by
        rw [h1, stripZeros_append_zero]; exact incrLast_dropLast_gt _ hp
      refine ⟨?_, (vk_lt_iff _ _).2 (cmp_lt_of_rel_lt h2'.symm hlt')⟩
      rw [h3']; exact wf_final _ _ (by rw [h1]; simp)

/-! ### what `parse_single_constraint` returns -/

/-- the shapes `parse_single_constraint` builds.  `bump` = `~V`, `^V`, `~=V` (a proper half-open range);
`wild` = `==V.*` / `!=V.*` (whatever `_make_x_constraint_range` returns — for a dev-release of a pre- or
post-release the range is the degenerate `[m, m)`, see `vc_counterexample_degenerate_wildcard`). -/
inductive Clause : VC → Prop
  | any : Clause VC.any
  | ver {v : Version} (h : v.wf = true) : Clause (.single (.ver v))
  | lt {v : Version} (h : v.wf = true) : Clause (.single (.rng ⟨none, some v, false, false⟩))
  | le {v : Version} (h : v.wf = true) : Clause (.single (.rng ⟨none, some v, false, true⟩))
  | gt {v : Version} (h : v.wf = true) : Clause (.single (.rng ⟨some v, none, false, false⟩))
  | ge {v : Version} (h : v.wf = true) : Clause (.single (.rng ⟨some v, none, true, false⟩))
  | bump {v hi : Version} (h : v.wf = true) (hh : hi.wf = true) (hlt : vk v < vk hi) :
      Clause (.single (.rng ⟨some v, some hi, true, false⟩))
  | ne {v : Version} (h : v.wf = true) :
      Clause (.union [.rng ⟨none, some v, false, false⟩, .rng ⟨some v, none, false, false⟩])
  | wild {v : Version} (h : v.wf = true) (invert isMarker : Bool) {c : VC}
      (hc : makeXConstraintRange v invert isMarker = .ok c) : Clause c

/-- result of one parsing step: a clause, or the documented error -/
def Spec (r : PyM VC) : Prop := (∃ c, r = .ok c ∧ Clause c) ∨ r = .error .value

theorem bind_parse_spec (t : String) (f : Version → PyM VC)
    (hf : ∀ v, v.wf = true → Spec (f v)) : Spec (parseVersionText t >>= f) := by
  unfold parseVersionText
  cases hv : Version.parse t with
  | error e => right; rw [Version.parse_err t e hv]; rfl
  | ok v => exact hf v (parse_wf t v hv)

theorem wild_spec (v : Version) (hv : v.wf = true) (invert isMarker : Bool) :
    Spec (makeXConstraintRange v invert isMarker) := by
  obtain ⟨c, hc, _⟩ := makeXConstraintRange_ok v invert isMarker
  exact Or.inl ⟨c, hc, Clause.wild hv invert isMarker hc⟩

/-- **`parse_single_constraint` returns a clause or raises `ValueError`** — for every character sequence -/
theorem parseSingle_spec (cs : List Char) (m : Bool) : Spec (parseSingle cs m) := by
  unfold parseSingle
  split
  · exact Or.inl ⟨_, rfl, Clause.any⟩
  simp only
  split
  · apply bind_parse_spec
    intro v hv
    refine Or.inl ⟨_, rfl, Clause.bump hv ?_ ?_⟩
    · split
      · exact stable_nextMajor_wf v
      · exact stable_nextMinor_wf v hv
    · split
      · exact (vk_lt_iff _ _).2 (stable_nextMajor_gt v hv)
      · exact (vk_lt_iff _ _).2 (stable_nextMinor_gt v hv)
  split
  · apply bind_parse_spec
    intro v hv
    exact Or.inl ⟨_, rfl, Clause.bump hv (compatHigh_wf_gt v hv).1 (compatHigh_wf_gt v hv).2⟩
  split
  · apply bind_parse_spec
    intro v hv
    exact Or.inl ⟨_, rfl, Clause.bump hv (nextBreaking_wf v hv) ((vk_lt_iff _ _).2 (nextBreaking_gt v hv))⟩
  split
  · apply bind_parse_spec
    intro v hv
    exact wild_spec v hv _ _
  split
  · apply bind_parse_spec
    intro v hv
    split
    · exact Or.inl ⟨_, rfl, Clause.lt hv⟩
    · exact Or.inl ⟨_, rfl, Clause.le hv⟩
    · exact Or.inl ⟨_, rfl, Clause.gt hv⟩
    · exact Or.inl ⟨_, rfl, Clause.ge hv⟩
    · split
      · exact wild_spec v hv _ _
      · split
        · exact Or.inl ⟨_, rfl, Clause.ne hv⟩
        · exact Or.inl ⟨_, rfl, Clause.ver hv⟩
  · exact Or.inr rfl


theorem parseSingle_err_value (cs : List Char) (m : Bool) (e : PyErr) (h : parseSingle cs m = .error e) :
    e = .value := by
  rcases parseSingle_spec cs m with ⟨c, hc, _⟩ | hv
  · rw [hc] at h; cases h
  · rw [hv] at h; cases h; rfl

theorem parseSingle_clause (cs : List Char) (m : Bool) (c : VC) (h : parseSingle cs m = .ok c) : Clause c := by
  rcases parseSingle_spec cs m with ⟨c', hc, hk⟩ | hv
  · rw [hc] at h; cases h; exact hk
  · rw [hv] at h; cases h

/-! ## groups and `||` -/

theorem splitAndAux_ne_nil : ∀ (fuel : Nat) (prev : Option Char) (s cur : List Char),
    splitAndAux fuel prev s cur ≠ []
  | 0, _, _, _ => by simp [splitAndAux]
  | fuel + 1, prev, [], cur => by simp [splitAndAux]
  | fuel + 1, prev, c :: cs, cur => by
    simp only [splitAndAux]
    split
    · simp
    · exact splitAndAux_ne_nil fuel _ _ _

/-- the and-splitter always returns at least one piece: the `IndexError` of `parse_constraint`'s group step is
unreachable -/
theorem splitAnd_ne_nil (s : List Char) : splitAnd s ≠ [] := splitAndAux_ne_nil _ _ _ _

/-- a `mapM` in the error monad, element-wise specification -/
theorem mapM_spec {α β : Type} (f : α → PyM β) (Q : β → Prop) (E : PyErr → Prop) :
    ∀ l : List α, (∀ x ∈ l, (∃ y, f x = .ok y ∧ Q y) ∨ (∃ e, f x = .error e ∧ E e)) →
      (∃ ys, l.mapM f = .ok ys ∧ ys.length = l.length ∧ ∀ y ∈ ys, Q y) ∨ (∃ e, l.mapM f = .error e ∧ E e)
  | [], _ => Or.inl ⟨[], by simp [pure, Except.pure], rfl, by simp⟩
  | a :: l, h => by
    rw [List.mapM_cons]
    rcases h a (List.mem_cons_self ..) with ⟨y, hy, hq⟩ | ⟨e, he, hE⟩
    · rcases mapM_spec f Q E l (fun x hx => h x (List.mem_cons_of_mem _ hx)) with ⟨ys, h1, h2, h3⟩ | ⟨e, he, hE⟩
      · left
        refine ⟨y :: ys, by simp [hy, h1, bind, Except.bind, pure, Except.pure], by simp [h2], ?_⟩
        intro z hz
        rcases List.mem_cons.1 hz with rfl | hz
        · exact hq
        · exact h3 z hz
      · right; exact ⟨e, by simp [hy, he, bind, Except.bind], hE⟩
    · right; exact ⟨e, by simp [he, bind, Except.bind], hE⟩

/-- what the parser can feed to the algebra: a clause (`K`), met with further clauses -/
inductive Reach (K : VC → Prop) : VC → Prop
  | clause {c : VC} : K c → Reach K c
  | inter {a n c : VC} : Reach K a → K n → VC.intersect a n = .ok c → Reach K c

/-- the ways `_parse_constraint` can fail: the documented `ValueError`, or an exception escaping from
`acc.intersect(clause)` / `VersionUnion.of(groups)` on operands the parser built -/
def Bad (K : VC → Prop) (e : PyErr) : Prop :=
  e = .value ∨ (∃ a n, Reach K a ∧ K n ∧ VC.intersect a n = .error e) ∨
    (∃ gs, (∀ g ∈ gs, Reach K g) ∧ VC.unionOf gs = .error e)

theorem foldl_spec (K : VC → Prop) : ∀ (rest : List VC) (acc : VC), Reach K acc → (∀ n ∈ rest, K n) →
    (∃ c, rest.foldlM (fun acc n => VC.intersect acc n) acc = .ok c ∧ Reach K c) ∨
    (∃ e, rest.foldlM (fun acc n => VC.intersect acc n) acc = .error e ∧ Bad K e)
  | [], acc, ha, _ => Or.inl ⟨acc, by simp [pure, Except.pure], ha⟩
  | n :: rest, acc, ha, hr => by
    rw [List.foldlM_cons]
    have hn := hr n (List.mem_cons_self ..)
    cases hi : VC.intersect acc n with
    | error e => right; exact ⟨e, by simp [bind, Except.bind], Or.inr (Or.inl ⟨acc, n, ha, hn, hi⟩)⟩
    | ok c =>
      simp only [bind, Except.bind]
      exact foldl_spec K rest c (Reach.inter ha hn hi) (fun x hx => hr x (List.mem_cons_of_mem _ hx))

/-- the clause texts of one `||` group -/
def groupPieces (g : List Char) : List (List Char) := splitAnd (rstripSpaces (rstripCommas g))

/-- all clause texts of a constraint string -/
def pieces (s : String) : List (List Char) := (splitOr (strip s.toList)).flatMap groupPieces

theorem parseGroup_spec (K : VC → Prop) (g : List Char) (m : Bool)
    (hK : ∀ p ∈ groupPieces g, ∀ c, parseSingle p m = .ok c → K c) :
    (∃ c, parseGroup g m = .ok c ∧ Reach K c) ∨ (∃ e, parseGroup g m = .error e ∧ Bad K e) := by
  unfold parseGroup
  simp only [bind, Except.bind]
  have hm := mapM_spec (fun p => parseSingle p m) K (fun e => e = .value) (groupPieces g) (by
    intro p hp
    cases h : parseSingle p m with
    | ok c => exact Or.inl ⟨c, rfl, hK p hp c h⟩
    | error e => exact Or.inr ⟨e, rfl, parseSingle_err_value p m e h⟩)
  unfold groupPieces at hm
  rcases hm with ⟨ys, h1, h2, h3⟩ | ⟨e, he, hE⟩
  · rw [h1]
    cases ys with
    | nil =>
      exfalso
      have := splitAnd_ne_nil (rstripSpaces (rstripCommas g))
      simp at h2
      exact this (List.eq_nil_of_length_eq_zero h2.symm)
    | cons c rest =>
      exact foldl_spec K rest c (Reach.clause (h3 c (List.mem_cons_self ..)))
        (fun n hn => h3 n (List.mem_cons_of_mem _ hn))
  · rw [he]; right; exact ⟨e, rfl, Or.inl hE⟩

/-- **decomposition**: `_parse_constraint` returns a constraint built from clauses by `intersect` and
`VersionUnion.of`, or fails with `ValueError`, or with what one of those two operations raised on operands
the parser built. -/
theorem parseConstraintAux_spec (K : VC → Prop) (s : String) (m : Bool)
    (hK : ∀ p ∈ pieces s, ∀ c, parseSingle p m = .ok c → K c) :
    (∃ c, parseConstraintAux s m = .ok c) ∨ (∃ e, parseConstraintAux s m = .error e ∧ Bad K e) := by
  unfold parseConstraintAux
  split
  · exact Or.inl ⟨_, rfl⟩
  simp only [bind, Except.bind]
  have hm := mapM_spec (fun g => parseGroup g m) (Reach K) (Bad K) (splitOr (strip s.toList)) (by
    intro g hg
    rcases parseGroup_spec K g m (fun p hp => hK p (List.mem_flatMap.2 ⟨g, hg, hp⟩)) with ⟨c, h1, h2⟩ | ⟨e, h1, h2⟩
    · exact Or.inl ⟨c, h1, h2⟩
    · exact Or.inr ⟨e, h1, h2⟩)
  rcases hm with ⟨gs, h1, _, h3⟩ | ⟨e, he, hE⟩
  · rw [h1]
    simp only
    split
    · exact Or.inl ⟨_, rfl⟩
    · cases hu : VC.unionOf gs with
      | ok c => exact Or.inl ⟨c, rfl⟩
      | error e => exact Or.inr ⟨e, rfl, Or.inr (Or.inr ⟨gs, h3, hu⟩)⟩
  · rw [he]; exact Or.inr ⟨e, rfl, hE⟩

/-- the algebra never lets a non-`ValueError` escape on operands the parser builds from `K`-clauses -/
structure AlgebraTotal (K : VC → Prop) : Prop where
  inter : ∀ a n, Reach K a → K n → ∀ e, VC.intersect a n = .error e → e = .value
  union : ∀ gs, (∀ g ∈ gs, Reach K g) → ∀ e, VC.unionOf gs = .error e → e = .value

theorem Bad.value {K : VC → Prop} (hA : AlgebraTotal K) {e : PyErr} (h : Bad K e) : e = .value := by
  rcases h with h | ⟨a, n, ha, hn, h⟩ | ⟨gs, hg, h⟩
  · exact h
  · exact hA.inter a n ha hn e h
  · exact hA.union gs hg e h


/-! ## printing -/

/-- `Release._compare_key` leaves no trailing zero -/
theorem stripZeros_getLast_ne_zero : ∀ (l : List Nat) (x : Nat), (stripZeros l).getLast? = some x → x ≠ 0
  | [], x, h => by simp [stripZeros] at h
  | a :: as, x, h => by
    simp only [stripZeros] at h
    split at h
    · simp at h
    · next hc =>
      cases hr : stripZeros as with
      | nil =>
        rw [hr] at h hc
        simp at h hc
        omega
      | cons b bs =>
        rw [hr] at h
        rw [List.getLast?_cons_cons] at h
        exact stripZeros_getLast_ne_zero as x (by rw [hr]; exact h)

/-- the guard of `_is_wildcard_candidate` (D8): a candidate has a non-empty stripped release -/
theorem isWildcardCandidate_ne_nil {mn mx : Version} {inv : Bool} (h : isWildcardCandidate mn mx inv = true) :
    stripZeros (if inv then mn else mx).release ≠ [] := by
  intro hne
  cases inv <;> simp at hne <;> simp [isWildcardCandidate, hne] at h

/-- **the guard suffices**: `_single_wildcard_range_string` returns whenever the second version's stripped
release is non-empty (or the first is a post-release) — no `IndexError` -/
theorem singleWildcardRangeString_ok (first second : Version)
    (h : first.isPostrelease = true ∨ stripZeros second.release ≠ []) :
    ∃ t, singleWildcardRangeString first second = .ok t := by
  unfold singleWildcardRangeString
  split
  · exact ⟨_, rfl⟩
  · next hp =>
    rcases h with h | h
    · exact absurd h hp
    · simp only
      cases hl : (stripZeros second.release).getLast? with
      | none => exact absurd (List.getLast?_eq_none_iff.1 hl) h
      | some l =>
        simp only
        have := stripZeros_getLast_ne_zero _ _ hl
        rw [if_neg (by simpa using this)]
        exact ⟨_, rfl⟩

/-- **every range prints** -/
theorem VRange.toStr_ok (r : VRange) : ∃ t, r.toStr = .ok t := by
  unfold VRange.toStr
  split
  · next mn mx hmn hmx =>
    split
    · next hw =>
      have hc : isWildcardCandidate mn mx false = true := by
        simp only [VRange.isSingleWildcardRange, hmn, hmx] at hw
        split at hw
        · cases hw
        · exact hw
      obtain ⟨t, ht⟩ := singleWildcardRangeString_ok mn mx
        (Or.inr (by simpa using isWildcardCandidate_ne_nil hc))
      refine ⟨"==" ++ t, ?_⟩
      simp [ht, bind, Except.bind, pure, Except.pure]
    · exact ⟨_, rfl⟩
  · exact ⟨_, rfl⟩
  · exact ⟨_, rfl⟩
  · exact ⟨_, rfl⟩

/-- **every version-or-range prints** -/
theorem RC.toStr_ok (c : RC) : ∃ t, c.toStr = .ok t := by
  cases c with
  | ver v => exact ⟨_, rfl⟩
  | rng r => exact VRange.toStr_ok r

theorem mapM_toStr_ok (rs : List RC) : ∃ ts, rs.mapM RC.toStr = .ok ts := by
  rcases mapM_spec RC.toStr (fun _ => True) (fun _ => False) rs
    (fun c _ => Or.inl (by obtain ⟨t, ht⟩ := RC.toStr_ok c; exact ⟨t, ht, trivial⟩)) with ⟨ts, h, _⟩ | ⟨_, _, h⟩
  · exact ⟨ts, h⟩
  · exact h.elim

theorem excludedWildcard_cand {rs : List RC} {omax tmin : Version}
    (hw : VC.excludedWildcard rs = some (omax, tmin)) : isWildcardCandidate tmin omax true = true := by
  unfold VC.excludedWildcard at hw
  split at hw
  · next r0 r1 =>
    simp only at hw
    generalize (if r0.max.isSome = true then (r0, r1) else (r1, r0)) = pr at hw
    obtain ⟨one, two⟩ := pr
    simp only at hw
    cases hom : one.max with
    | none => simp [hom] at hw
    | some om =>
      cases htm : two.min with
      | none => simp [hom, htm] at hw
      | some tm =>
        simp only [hom, htm] at hw
        by_cases hg : (one.imax || one.min.isSome || !two.imin || two.max.isSome) = true
        · rw [if_pos hg] at hw; cases hw
        · rw [if_neg hg] at hw
          by_cases hcand : isWildcardCandidate tm om true = true
          · rw [if_pos hcand] at hw
            simp only [Option.some.injEq, Prod.mk.injEq] at hw
            obtain ⟨rfl, rfl⟩ := hw
            exact hcand
          · rw [if_neg hcand] at hw; cases hw
  · cases hw

/-- the part of `VersionUnion.__str__` after `excludes_single_version` said no -/
def unionStrTail (rs : List RC) : PyM String :=
  match VC.excludedWildcard rs with
  | some (omax, tmin) => do pure ("!=" ++ (← singleWildcardRangeString omax tmin))
  | none => do
    let parts ← rs.mapM RC.toStr
    pure (joinWith " || " parts)

theorem unionStrTail_ok (rs : List RC) : ∃ t : String, unionStrTail rs = .ok t := by
  unfold unionStrTail
  cases hw : VC.excludedWildcard rs with
  | none =>
    obtain ⟨ts, hts⟩ := mapM_toStr_ok rs
    refine ⟨joinWith " || " ts, ?_⟩
    simp [hts, bind, Except.bind, pure, Except.pure]
  | some pr =>
    obtain ⟨omax, tmin⟩ := pr
    obtain ⟨t, ht⟩ := singleWildcardRangeString_ok omax tmin
      (Or.inr (by simpa using isWildcardCandidate_ne_nil (excludedWildcard_cand hw)))
    refine ⟨"!=" ++ t, ?_⟩
    simp [ht, bind, Except.bind, pure, Except.pure]

theorem VC.union_toStr_eq (rs : List RC) (c : VC) (h : VC.inverted rs = .ok c) :
    (VC.union rs).toStr =
      match c with
      | .single (.ver v) => .ok ("!=" ++ v.text)
      | _ => unionStrTail rs := by
  simp only [VC.toStr, VC.excludedSingleVersion, h, bind, Except.bind, pure, Except.pure]
  cases c with
  | empty => rfl
  | union ds => rfl
  | single d =>
    cases d with
    | ver v => rfl
    | rng r => rfl

/-- **a union prints whenever its complement can be computed** (`_inverted`, used by
`excludes_single_version`): the wildcard branch is guarded, the members print -/
theorem VC.union_toStr_ok (rs : List RC) (c : VC) (h : VC.inverted rs = .ok c) :
    ∃ t, (VC.union rs).toStr = .ok t := by
  rw [VC.union_toStr_eq rs c h]
  cases c with
  | empty => exact unionStrTail_ok rs
  | union ds => exact unionStrTail_ok rs
  | single d =>
    cases d with
    | ver v => exact ⟨_, rfl⟩
    | rng r => exact unionStrTail_ok rs

/-! ## `_inverted` of the unions a single clause builds -/

theorem lt_self (v : Version) : Version.lt v v = false := by simp [Version.lt, cmp_refl]
theorem gt_self (v : Version) : Version.gt v v = false := by simp [Version.gt, cmp_refl]
theorem eqv_self (v : Version) : Version.eqv v v = true := by simp [Version.eqv, cmp_refl]

/-- first step of `_inverted`: `*` minus a range without lower bound `(-∞, M⟩` leaves `⟨M, ∞)` -/
theorem difference_any_upper (M : Version) (imax : Bool) :
    RC.difference (.rng VRange.any) (.rng ⟨none, some M, false, imax⟩) =
      .ok (.single (.rng ⟨some M, none, !imax, false⟩)) := by
  have hM : (VRange.allowedMax ⟨none, some M, false, imax⟩).isSome = true := allowedMax_isSome rfl
  cases hM' : VRange.allowedMax ⟨none, some M, false, imax⟩ with
  | none => rw [hM'] at hM; cases hM
  | some M' =>
    have hA : VRange.allowedMax ⟨none, none, false, false⟩ = none := rfl
    simp [RC.difference, RC.rngDifferenceRng, RC.allowsAny, VRange.any,
      VRange.isStrictlyLower, VRange.isStrictlyHigher, VRange.allowedMin, VRange.allowsLower,
      VRange.allowsHigher, optVerEq, bind, Except.bind, pure, Except.pure, hM', hA]

theorem difference_any_lt (M : Version) :
    RC.difference (.rng VRange.any) (.rng ⟨none, some M, false, false⟩) =
      .ok (.single (.rng ⟨some M, none, true, false⟩)) := difference_any_upper M false

/-- second step for `!=V`: `[V, ∞)` minus `(V, ∞)` is the version `V` -/
theorem difference_ge_gt (v : Version) :
    RC.difference (.rng ⟨some v, none, true, false⟩) (.rng ⟨some v, none, false, false⟩) = .ok (.single (.ver v)) := by
  have hA : ∀ (m : Option Version) (b : Bool), VRange.allowedMax ⟨m, none, b, false⟩ = none := fun _ _ => rfl
  simp [RC.difference, RC.rngDifferenceRng, RC.allowsAny,
      VRange.isStrictlyLower, VRange.isStrictlyHigher, VRange.allowedMin, VRange.allowsLower,
      VRange.allowsHigher, optVerEq, bind, Except.bind, pure, Except.pure, hA, lt_self, gt_self, eqv_self]

theorem strictly_any_left (r : VRange) : r.isStrictlyLower VRange.any = false := by
  simp [VRange.isStrictlyLower, VRange.any, VRange.allowedMin]

theorem strictly_nomax (r s : VRange) (h : r.max = none) : r.isStrictlyLower s = false := by
  simp [VRange.isStrictlyLower, allowedMax_none h]

theorem loop_step_single (r : RC) (rest : List RC) (cur : RC) (ranges : List RC) (d : RC)
    (h1 : r.view.isStrictlyLower cur.view = false) (h2 : cur.view.isStrictlyLower r.view = false)
    (hd : RC.difference cur r = .ok (.single d)) :
    VC.rngDiffUnionLoop (r :: rest) cur ranges = VC.rngDiffUnionLoop rest d ranges := by
  simp [VC.rngDiffUnionLoop, h1, VRange.isStrictlyHigher, h2, hd, bind, Except.bind]

theorem loop_step_empty (r : RC) (rest : List RC) (cur : RC) (ranges : List RC)
    (h1 : r.view.isStrictlyLower cur.view = false) (h2 : cur.view.isStrictlyLower r.view = false)
    (hd : RC.difference cur r = .ok .empty) :
    VC.rngDiffUnionLoop (r :: rest) cur ranges = unionOfFlat ranges := by
  simp [VC.rngDiffUnionLoop, h1, VRange.isStrictlyHigher, h2, hd, bind, Except.bind]

/-- **`_inverted` of what `!=V` parses to is `V`** (needs only reflexivity of the version order) -/
theorem inverted_ne (v : Version) :
    VC.inverted [.rng ⟨none, some v, false, false⟩, .rng ⟨some v, none, false, false⟩] = .ok (.single (.ver v)) := by
  unfold VC.inverted
  rw [loop_step_single _ _ _ _ _ (strictly_any_left _) (strictly_nomax _ _ rfl) (difference_any_lt v)]
  rw [loop_step_single _ _ _ _ _ (strictly_nomax _ _ rfl) (strictly_nomax _ _ rfl) (difference_ge_gt v)]
  rfl

/-- second step for `!=V.*`: `[mn, ∞)` minus `[mx, ∞)` is `[mn, mx)` or empty — never an exception,
whatever the order of `mn` and `mx` -/
theorem difference_ge_ge (mn mx : Version) :
    RC.difference (.rng ⟨some mn, none, true, false⟩) (.rng ⟨some mx, none, true, false⟩) =
      .ok (if Version.lt mn mx then .single (.rng ⟨some mn, some mx, true, false⟩) else .empty) := by
  have hA : ∀ (m : Option Version) (b : Bool), VRange.allowedMax ⟨m, none, b, false⟩ = none := fun _ _ => rfl
  by_cases hlt : Version.lt mn mx = true
  · have he : Version.eqv mn mx = false := by
      simp only [Version.lt, Version.eqv] at hlt ⊢
      cases hc : Version.cmp mn mx <;> simp_all
    simp [RC.difference, RC.rngDifferenceRng, RC.allowsAny,
      VRange.isStrictlyLower, VRange.isStrictlyHigher, VRange.allowedMin, VRange.allowsLower,
      VRange.allowsHigher, optVerEq, bind, Except.bind, pure, Except.pure, hA, hlt, he]
  · simp [RC.difference, RC.rngDifferenceRng, RC.allowsAny,
      VRange.isStrictlyLower, VRange.isStrictlyHigher, VRange.allowedMin, VRange.allowsLower,
      VRange.allowsHigher, optVerEq, bind, Except.bind, pure, Except.pure, hA, hlt]

/-- **`_inverted` of two half lines `<mn || >=mx` never raises** -/
theorem inverted_neWild (mn mx : Version) :
    VC.inverted [.rng ⟨none, some mn, false, false⟩, .rng ⟨some mx, none, true, false⟩] =
      .ok (if Version.lt mn mx then .single (.rng ⟨some mn, some mx, true, false⟩) else .empty) := by
  unfold VC.inverted
  rw [loop_step_single _ _ _ _ _ (strictly_any_left _) (strictly_nomax _ _ rfl) (difference_any_lt mn)]
  by_cases hlt : Version.lt mn mx = true
  · rw [loop_step_single _ _ _ _ (.rng ⟨some mn, some mx, true, false⟩) (strictly_nomax _ _ rfl) (strictly_nomax _ _ rfl)
      (by rw [difference_ge_ge, if_pos hlt])]
    rw [if_pos hlt]; rfl
  · rw [loop_step_empty _ _ _ _ (strictly_nomax _ _ rfl) (strictly_nomax _ _ rfl)
      (by rw [difference_ge_ge, if_neg hlt])]
    rw [if_neg hlt]; rfl

/-- **`!=V` prints as `!=V`**, for every version `V` -/
theorem ne_toStr (v : Version) :
    (VC.union [.rng ⟨none, some v, false, false⟩, .rng ⟨some v, none, false, false⟩]).toStr =
      .ok ("!=" ++ v.text) := by
  rw [VC.union_toStr_eq _ _ (inverted_ne v)]

/-- `VersionUnion.of(<mn, >=mx)`: the two half lines stay apart, or merge into one range -/
theorem unionOfFlat_halflines (mn mx : Version) :
    unionOfFlat [.rng ⟨none, some mn, false, false⟩, .rng ⟨some mx, none, true, false⟩] =
        .ok (.union [.rng ⟨none, some mn, false, false⟩, .rng ⟨some mx, none, true, false⟩]) ∨
    ∃ r, unionOfFlat [.rng ⟨none, some mn, false, false⟩, .rng ⟨some mx, none, true, false⟩] =
        .ok (.single (.rng r)) := by
  have hs : sortRCs [.rng ⟨none, some mn, false, false⟩, .rng ⟨some mx, none, true, false⟩] =
      [.rng ⟨none, some mn, false, false⟩, .rng ⟨some mx, none, true, false⟩] := by
    simp [sortRCs, insertSorted, RC.lt, VRange.cmp, RC.view, RC.min]
  have hm : mergeLoop [.rng ⟨none, some mn, false, false⟩, .rng ⟨some mx, none, true, false⟩] [] =
        .ok [.rng ⟨none, some mn, false, false⟩, .rng ⟨some mx, none, true, false⟩] ∨
      ∃ r, mergeLoop [.rng ⟨none, some mn, false, false⟩, .rng ⟨some mx, none, true, false⟩] [] =
        .ok [.rng r] := by
    simp only [mergeLoop, RC.allowsAny, bind, Except.bind]
    split
    · left; rfl
    · next hc =>
      right
      rw [rcUnionSingle_rng_of_touch _ _ (by simpa [view_rng] using hc)]
      exact ⟨_, rfl⟩
  have e2 : ([.rng ⟨none, some mn, false, false⟩, .rng ⟨some mx, none, true, false⟩] : List RC).any RC.isAny = false := by
    simp [RC.isAny, VRange.isAny]
  unfold unionOfFlat
  rw [hs]
  simp only [List.isEmpty_cons, e2, Bool.false_eq_true, if_false]
  rcases hm with hm | ⟨r, hm⟩
  · left; rw [hm]; rfl
  · right; rw [hm]; exact ⟨r, rfl⟩

theorem VC.single_toStr_ok (c : RC) : ∃ t, (VC.single c).toStr = .ok t := RC.toStr_ok c

/-- **every clause prints** (`!=V` and `!=V.*` included) -/
theorem Clause.printable {c : VC} (h : Clause c) : ∃ t, c.toStr = .ok t := by
  cases h with
  | any => exact VC.single_toStr_ok _
  | ver h => exact VC.single_toStr_ok _
  | lt h => exact VC.single_toStr_ok _
  | le h => exact VC.single_toStr_ok _
  | gt h => exact VC.single_toStr_ok _
  | ge h => exact VC.single_toStr_ok _
  | bump h hh hlt => exact VC.single_toStr_ok _
  | ne h => exact ⟨_, ne_toStr _⟩
  | wild h invert isMarker hc =>
    rw [makeXConstraintRange_eq] at hc
    split at hc
    · rw [difference_any_halfOpen] at hc
      rcases unionOfFlat_halflines _ _ with hu | ⟨r, hu⟩
      · rw [hu] at hc; cases hc
        exact VC.union_toStr_ok _ _ (inverted_neWild _ _)
      · rw [hu] at hc; cases hc
        exact VC.single_toStr_ok _
    · cases hc; exact VC.single_toStr_ok _

/-! ## fragments where the algebra is total -/

/-- `VersionUnion.of` of groups that are ranges only never raises -/
theorem unionOf_allRng (gs : List VC) (h : ∀ g ∈ gs, AllRng g.flatten) : ∃ c, VC.unionOf gs = .ok c := by
  obtain ⟨c, hc, _⟩ := unionOfFlat_allRng (gs.flatMap VC.flatten) (by
    intro x hx
    obtain ⟨g, hg, hxg⟩ := List.mem_flatMap.1 hx
    exact h g hg x hxg)
  exact ⟨c, hc⟩

/-- a group that is one clause: no `intersect` call is made -/
theorem parseGroup_single (g p : List Char) (m : Bool) (hg : groupPieces g = [p]) :
    parseGroup g m = parseSingle p m := by
  unfold groupPieces at hg
  simp only [parseGroup, hg, List.mapM_cons, List.mapM_nil, bind, Except.bind, pure, Except.pure]
  cases parseSingle p m with
  | error e => rfl
  | ok c => simp [List.foldlM, pure, Except.pure]

/-- a string that is one clause (no `||`, no `,`/space separator): `_parse_constraint` is
`parse_single_constraint` -/
theorem parseConstraintAux_single_clause (s : String) (m : Bool) (g p : List Char)
    (hs : splitOr (strip s.toList) = [g]) (hg : groupPieces g = [p]) :
    parseConstraintAux s m = if s == "*" then .ok VC.any else parseSingle p m := by
  unfold parseConstraintAux
  split
  · rfl
  · simp only [hs, List.mapM_cons, List.mapM_nil, parseGroup_single g p m hg, bind, Except.bind, pure, Except.pure]
    cases parseSingle p m with
    | error e => rfl
    | ok c => rfl

/-- every clause except a bare / `==` version consists of ranges -/
theorem Clause.allRng {c : VC} (h : Clause c) (hv : ∀ v, c ≠ .single (.ver v)) : AllRng c.flatten := by
  cases h with
  | any => exact AllRng.nil.cons
  | ver h => exact absurd rfl (hv _)
  | lt h => exact AllRng.nil.cons
  | le h => exact AllRng.nil.cons
  | gt h => exact AllRng.nil.cons
  | ge h => exact AllRng.nil.cons
  | bump h hh hlt => exact AllRng.nil.cons
  | ne h => exact AllRng.nil.cons.cons
  | wild h invert isMarker hc =>
    obtain ⟨c', hc', ha⟩ := makeXConstraintRange_ok _ invert isMarker
    rw [hc] at hc'; cases hc'; exact ha

/-- **`||` of single clauses none of which is a bare version: only `ValueError`.**  (`VersionUnion.of` on
ranges never raises.) -/
theorem parse_or_of_range_clauses (s : String) (m : Bool)
    (h : ∀ g ∈ splitOr (strip s.toList), ∃ p, groupPieces g = [p] ∧
      ∀ v, parseSingle p m ≠ .ok (.single (.ver v))) :
    (∃ c, parseConstraintAux s m = .ok c) ∨ parseConstraintAux s m = .error .value := by
  unfold parseConstraintAux
  split
  · exact Or.inl ⟨_, rfl⟩
  simp only [bind, Except.bind]
  have hm := mapM_spec (fun g => parseGroup g m) (fun c => AllRng c.flatten) (fun e => e = .value)
    (splitOr (strip s.toList)) (by
    intro g hg
    obtain ⟨p, hp, hnv⟩ := h g hg
    simp only [parseGroup_single g p m hp]
    cases hc : parseSingle p m with
    | error e => exact Or.inr ⟨e, rfl, parseSingle_err_value p m e hc⟩
    | ok c =>
      exact Or.inl ⟨c, rfl, (parseSingle_clause p m c hc).allRng (fun v hv => hnv v (by rw [hc, hv]))⟩)
  rcases hm with ⟨gs, h1, _, h3⟩ | ⟨e, he, hE⟩
  · rw [h1]
    simp only
    split
    · exact Or.inl ⟨_, rfl⟩
    · obtain ⟨c, hc⟩ := unionOf_allRng gs h3
      exact Or.inl ⟨c, hc⟩
  · rw [he, hE]; exact Or.inr rfl

end Poetry.ParserTotal
