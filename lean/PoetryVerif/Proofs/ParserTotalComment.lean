/-
C19 helper: the comment stripping at the top of `Dependency.create_from_pep_508`, modelled statement by statement
with the separator of the guard (`" ;" in rest`) and the separator of the extraction (`rest.split(" ;", 1)[1]`) as
two parameters, so that "guard and extraction agree" is a theorem and the seeded edits that make them disagree
(seeded/C19-4, C19-5) are counterexamples of the parametrised statement.
-/
import PoetryVerif.Model.Dep

namespace Poetry.ParserTotal
open Poetry Poetry.Dep

/-- `sep in s` for a non-empty separator -/
def containsSep (sep s : List Char) : Bool := (splitOnceL sep s).2.isSome

/-- the code as written:
```
parts = name.split(" #", 1); name = parts[0].strip()
if len(parts) > 1:
    rest = parts[1]
    if GUARD in rest:
        name += " ;" + rest.split(EXTRACT, 1)[1]
```
`rest.split(EXTRACT, 1)[1]` raises `IndexError` when `EXTRACT` does not occur in `rest`. -/
def stripCommentPy (guardSep extractSep : List Char) (text : List Char) : PyM (List Char) :=
  match splitOnceL [' ', '#'] text with
  | (h, none) => .ok (stripL h)
  | (h, some rest) =>
    let name := stripL h
    if containsSep guardSep rest then
      match (splitOnceL extractSep rest).2 with
      | some m => .ok (name ++ [' ', ';'] ++ m)
      | none => .error .index
    else .ok name

/-- when guard and extraction use the same separator the `IndexError` branch is dead, for every input and every
separator -/
theorem stripCommentPy_same_sep_ok (sep text : List Char) : ∃ r, stripCommentPy sep sep text = .ok r := by
  unfold stripCommentPy
  cases h : splitOnceL [' ', '#'] text with
  | mk hd tl =>
    cases tl with
    | none => exact ⟨_, rfl⟩
    | some rest =>
      simp only
      by_cases hg : containsSep sep rest = true
      · simp only [hg, if_true]
        unfold containsSep at hg
        cases hs : (splitOnceL sep rest).2 with
        | none => simp [hs] at hg
        | some m => exact ⟨_, rfl⟩
      · simp only [hg]; exact ⟨_, rfl⟩

/-- with the separator of the source (`" ;"` twice) the statement-level model is the executable model
`Dep.stripComment` that `createFromPep508` uses -/
theorem stripCommentPy_eq_model (text : List Char) :
    stripCommentPy [' ', ';'] [' ', ';'] text = .ok (stripComment text) := by
  unfold stripCommentPy stripComment containsSep
  cases h : splitOnceL [' ', '#'] text with
  | mk hd tl =>
    cases tl with
    | none => simp
    | some rest =>
      simp only
      cases hs : splitOnceL [' ', ';'] rest with
      | mk h2 t2 => cases t2 <;> simp

end Poetry.ParserTotal
