/-
`~=` leaves on the version-like variables: `python_version ~= "a.b"` (clause `[a.b, (a+1).0)`),
`python_full_version ~= "a.b.c"` (clause `[a.b.c, a.(b+1).0)`), `platform_release ~= "x.y[.z]"`.
Definitions, the constructor on their text, their clauses in C05's regular setting over Python bounds, their truth.
-/
import PoetryVerif.Proofs.MarkerAlgSoundPr
import PoetryVerif.Proofs.MarkerLeafCompat

set_option linter.unusedSimpArgs false
set_option linter.unusedVariables false

namespace Poetry.Marker
open Poetry Poetry.Version

theorem compatHigh2 (a b : Nat) : compatHigh (litV a [b]) = litV (a + 1) [0] := by
  have hprec : (finalV [a, b]).precision = 2 := rfl
  simp [compatHigh, litV_eq_finalV, finalV_stable, finalV_nextMajor, hprec, relNextMajor, relMajor, zeros]

theorem compatHigh3 (a b c : Nat) : compatHigh (litV a [b, c]) = litV a [b + 1, 0] := by
  have hprec : (finalV [a, b, c]).precision = 3 := rfl
  simp [compatHigh, litV_eq_finalV, finalV_stable, finalV_nextMinor, hprec, relNextMinor, zeros]

/-- the clause of `~= lo` with upper bound `hi` -/
def compatVC (lo hi : Version) : VC := .single (.rng ⟨some lo, some hi, true, false⟩)

/-- `python_version ~= "a.b"` -/
def pvCompatOf (a b : Nat) : Single :=
  ⟨"python_version", "~=", Version.relText [a, b], false, .ver (compatVC (litV a [b]) (litV (a + 1) [0]))⟩

/-- `python_full_version ~= "a.b.c"` -/
def pfvCompatOf (a b c : Nat) : Single :=
  ⟨"python_full_version", "~=", Version.relText [a, b, c], false,
    .ver (compatVC (litV a [b, c]) (litV a [b + 1, 0]))⟩

theorem mkSingle_pvCompat (a b : Nat) :
    mkSingle "python_version" ("~=" ++ Version.relText [a, b]) false = .ok (pvCompatOf a b) := by
  have := mkSingle_pv .compat "~=" compat_mem a [b] _ rfl
  rw [compatHigh2] at this
  exact this

theorem mkSingle_pfvCompat (a b c : Nat) :
    mkSingle "python_full_version" ("~=" ++ Version.relText [a, b, c]) false = .ok (pfvCompatOf a b c) := by
  have := mkSingle_pfv3 .compat "~=" compat_mem a [b, c] (by simp) _ rfl
  rw [compatHigh3] at this
  exact this

theorem compatVC_ok2 (a b : Nat) : PyVCok (compatVC (litV a [b]) (litV (a + 1) [0])) :=
  ok_both _ _ (pb [a, b]) (pb [a + 1, 0]) (lt_major2 a b)

theorem compatVC_ok3 (a b c : Nat) : PyVCok (compatVC (litV a [b, c]) (litV a [b + 1, 0])) :=
  ok_both _ _ (pb [a, b, c]) (pb [a, b + 1, 0]) (lt_minor3 a b c)

theorem compatVC_bounds (lo hi : Version) : ∀ m ∈ (compatVC lo hi).flatten, ∀ e ∈ m.bounds, e = lo ∨ e = hi := by
  intro m hm e he
  simp only [compatVC, VC.flatten, List.mem_cons, List.mem_nil_iff, or_false] at hm
  subst hm
  simpa [RC.bounds, RC.view, VRange.bounds, RC.min, RC.max] using he

theorem compatVC_lit2 (a b : Nat) : Lit2 (compatVC (litV a [b]) (litV (a + 1) [0])) := by
  intro m hm e he
  rcases compatVC_bounds _ _ m hm e he with rfl | rfl
  · exact ⟨a, b, rfl⟩
  · exact ⟨a + 1, 0, rfl⟩

/-- the truth of `python_version ~= "a.b"` -/
theorem pvCompat_eval {E : Env} {X Y : Nat} (hE : E.get? "python_version" = some (Version.relText [X, Y]))
    (a b : Nat) :
    (Leaf.single (pvCompatOf a b)).validate E =
      .ok ((compatVC (litV a [b]) (litV (a + 1) [0])).allowsPlain (pvProbe X Y)) := by
  have hok := compatVC_ok2 a b
  have hreg := regVC_of_ok' hok
  have hBp : ∀ e ∈ boundsOf (compatVC (litV a [b]) (litV (a + 1) [0])).flatten, PyBound e = true := by
    intro e he
    simp only [boundsOf, List.mem_flatMap] at he
    obtain ⟨c, hc, hec⟩ := he
    exact (hok.2 c hc).2.2.2 e hec
  simp only [Leaf.validate, pvCompatOf]
  rw [validateLike_ver "python_version" (by decide) _ E X [Y] hE]
  exact VC.allows_of_reg (regB_of_pyBound _ hBp) _ hreg.1 hreg.2 _

/-- a `~=` leaf on `python_full_version` is a leaf of the regular fragment -/
theorem pfvCompat_verLeaf {B : List Version} (a b c : Nat) (h1 : litV a [b, c] ∈ B) (h2 : litV a [b + 1, 0] ∈ B) :
    VerLeaf B "python_full_version" (.single (pfvCompatOf a b c)) := by
  have hok := compatVC_ok3 a b c
  have hreg := regVC_of_ok (B := B) hok (fun m hm e he => by
    rcases compatVC_bounds _ _ m hm e he with rfl | rfl
    · exact h1
    · exact h2)
  refine ⟨rfl, ?_, _, rfl, hreg.1, hreg.2⟩
  simp only [Single.coherent, pfvCompatOf, itemConstraintString, Bool.false_eq_true, if_false]
  rw [mkSingle_pfvCompat a b c]
  simp [pfvCompatOf]

theorem pfvCompat_eval {E : Env} {X : Nat} {R : List Nat}
    (hX : E.get? "python_full_version" = some (Version.relText (X :: R))) (a b c : Nat) :
    (Leaf.single (pfvCompatOf a b c)).validate E =
      .ok ((compatVC (litV a [b, c]) (litV a [b + 1, 0])).allowsPlain (litV X R)) := by
  let B : List Version := [litV a [b, c], litV a [b + 1, 0]]
  have hpb : ∀ e ∈ B, PyBound e = true := by
    intro e he
    simp only [B, List.mem_cons, List.mem_nil_iff, or_false] at he
    rcases he with rfl | rfl
    · exact pb [a, b, c]
    · exact pb [a, b + 1, 0]
  obtain ⟨hns, _, vs, hvs, hws, hms⟩ := pfvCompat_verLeaf (B := B) a b c (by simp [B]) (by simp [B])
  cases hvs
  exact verLeaf_eval (regB_of_pyBound _ hpb) (verEnv_final hpb X R hX) (by decide) hns rfl hws hms

end Poetry.Marker
