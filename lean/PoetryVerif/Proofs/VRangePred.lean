/-
Containment / overlap predicates between range constraints (helper lemmas for C12).
-/
import PoetryVerif.Proofs.VRangeOps

set_option linter.unusedSimpArgs false
set_option linter.unusedVariables false

namespace Poetry
open Version

namespace VRange

/-- the range is inhabited as far as its own ends tell: its effective upper end is not below its
lower end (`>=1.0a1,<1.0` is *not*: its effective upper end is `1.0.dev0`).  Every range the parser
or the algebra builds satisfies this: `intersect` tests exactly this before returning a range. -/
def NE (r : VRange) : Prop := r.isStrictlyLower r = false

theorem allowsLower_self (r : VRange) : r.allowsLower r = false := by
  unfold allowsLower allowedMin
  cases h : r.min with
  | none => rfl
  | some m =>
    have h1 : Version.lt m m = false := by rw [lt_false_iff]
    have h2 : Version.gt m m = false := by rw [gt_false_iff]
    simp [h1, h2]

theorem allowsHigher_self (r : VRange) : r.allowsHigher r = false := by
  unfold allowsHigher
  cases h : r.allowedMax with
  | none => rfl
  | some m =>
    have h1 : Version.lt m m = false := by rw [lt_false_iff]
    have h2 : Version.gt m m = false := by rw [gt_false_iff]
    simp [h1, h2]

/-- with inhabited operands, the one `is_strictly_lower` test `intersect` makes decides both -/
theorem strict_of_lower_true {a b : VRange} (hb : b.NE) (h1 : a.allowsLower b = true) :
    b.isStrictlyLower a = false := by
  unfold NE isStrictlyLower allowedMin at *
  unfold allowsLower allowedMin at h1
  cases ha : a.min <;> cases hbm : b.min <;> cases hB : b.allowedMax <;>
    cases hia : a.imin <;> cases hib : b.imin <;> cases hibx : b.imax <;>
    simp [ha, hbm, hB, hia, hib, hibx, lt_iff, gt_iff] at * <;> grind

theorem strict_of_lower_false {a b : VRange} (ha' : a.NE) (h1 : a.allowsLower b = false) :
    a.isStrictlyLower b = false := by
  unfold NE isStrictlyLower allowedMin at *
  unfold allowsLower allowedMin at h1
  cases ha : a.min <;> cases hbm : b.min <;> cases hA : a.allowedMax <;>
    cases hia : a.imin <;> cases hib : b.imin <;> cases hiax : a.imax <;>
    simp [ha, hbm, hA, hia, hib, hiax, lt_iff, gt_iff] at * <;> grind

end VRange

namespace RC

/-- inhabited range constraint -/
def NE : RC → Prop
  | ver _ => True
  | rng r => r.NE

/-! ### `allows_all` -/

theorem allowsAll_sound (a b : RC) (ha : a.WF) (hb : b.WF) (h : RC.allowsAll a b = true)
    (p : Version) (hp : p.wf = true) (hreg : Regular (a.bounds ++ b.bounds) p)
    (hbp : b.allows p = true) : a.allows p = true := by
  cases a with
  | ver x =>
    have hrx : Reg1 p x := hreg.reg1 (by simp [bounds_ver])
    cases b with
    | ver y =>
      have hry : Reg1 p y := hreg.reg1 (by simp [bounds_ver])
      have hpy := (ver_allows_iff y p hb hp hry).1 hbp
      have hrk := Version.allows_relKey (show x.allows y = true from h)
      rcases hrx with hpx | hpx
      · exact (ver_allows_iff x p ha hp (Or.inl hpx)).2 hpx
      · exact absurd ((relKey_of_vk_eq hpy).trans hrk.symm) hpx
    | rng r =>
      simp only [allowsAll, RC.eqv, VRange.eqv, view, RC.min, RC.max, RC.imin, RC.imax, Bool.and_eq_true,
        beq_iff_eq] at h
      obtain ⟨⟨⟨h1, h2⟩, h3⟩, h4⟩ := h
      have hraw := (VRange.allows_iff_raw r p hb.1 hp hreg.append_right).1 hbp
      cases hm : r.min with
      | none => simp [hm, optVerEq] at h1
      | some m =>
        cases hM : r.max with
        | none => simp [hM, optVerEq] at h2
        | some M =>
          simp only [hm, hM, optVerEq, eqv_iff] at h1 h2
          simp only [VRange.raw, VRange.denLo, VRange.rawHi, hm, hM, h3, h4, if_true] at hraw
          rw [h1, h2] at hraw
          have : vk p = vk x := le_antisymm hraw.2 hraw.1
          exact (ver_allows_iff x p ha hp (Or.inl this)).2 this
  | rng r =>
    cases b with
    | ver y =>
      have hry : Reg1 p y := hreg.reg1 (by simp [bounds_ver])
      have hpy := (ver_allows_iff y p hb hp hry).1 hbp
      have := VRange.allows_congr r ha.1 hp hb hreg.append_left hpy
      show r.allows p = true
      rw [this]; exact h
    | rng s =>
      simp only [allowsAll, Bool.and_eq_true, Bool.not_eq_true'] at h
      have hd := (VRange.allows_iff_den s p hb.1 hp hreg.append_right).1 hbp
      exact (VRange.allows_iff_den r p ha.1 hp hreg.append_left).2
        ⟨VRange.allowsLower_false h.1 p hd.1, VRange.allowsHigher_false h.2 p hd.2⟩

theorem allowsAll_self (c : RC) (hc : c.WF) : RC.allowsAll c c = true := by
  cases c with
  | ver x => exact Version.allows_of_vk_eq hc hc rfl
  | rng r => simp [allowsAll, VRange.allowsLower_self, VRange.allowsHigher_self]

/-! ### `allows_any` -/

theorem allowsAny_ok (a b : RC) : ∃ r, RC.allowsAny a b = .ok r := by
  cases a with
  | ver x => cases b <;> exact ⟨_, rfl⟩
  | rng r => cases b <;> exact ⟨_, rfl⟩

theorem rngVer_allowsAny_eq (r : VRange) (v : Version) :
    RC.allowsAny (rng r) (ver v) = .ok (!(rngIntersectVer r v).isEmpty) := by
  unfold rngIntersectVer allowsAny
  cases h1 : r.allows v
  · cases hm : r.min with
    | none => simp [VC.isEmpty, h1, hm]
    | some m =>
      cases h2 : (m.isLocal && v.allows m)
      · simp [VC.isEmpty, h1, hm, h2]
      · simp [VC.isEmpty, h1, hm, h2]
  · simp [VC.isEmpty, h1]

theorem interFinish_not_empty (imn : Option Version) (iimn : Bool) (imx : Option Version) (iimx : Bool)
    (x : VC) (h : VRange.interFinish imn iimn imx iimx = .ok x) : x.isEmpty = false := by
  unfold VRange.interFinish at h
  split at h
  · cases h; rfl
  · split at h
    · split at h
      · split at h
        · cases h; rfl
        · cases h
      · cases h
    · cases h; rfl

theorem rng_allowsAny_eq (r s : VRange) (hr : r.WF) (hs : s.WF) (hr' : r.NE) (hs' : s.NE) :
    RC.allowsAny (rng r) (rng s) = (do let i ← RC.rngIntersectRng r s; pure (!i.isEmpty)) := by
  obtain ⟨x, hx⟩ : ∃ x, RC.rngIntersectRng r s = .ok x := by
    rcases VRange.intersect_den r s hr hs with ⟨h, _⟩ | ⟨x, h, _⟩ | ⟨x, h, _⟩ <;> exact ⟨_, h⟩
  rw [hx]
  simp only [allowsAny, VRange.isStrictlyHigher, bind, Except.bind, pure, Except.pure]
  congr 1
  rw [VRange.rngIntersectRng_eq] at hx
  by_cases h1 : r.allowsLower s = true
  · have h2 := VRange.strict_of_lower_true hs' h1
    simp only [h1, if_true] at hx
    cases h3 : r.isStrictlyLower s
    · simp only [h3, Bool.false_eq_true, if_false] at hx
      have : x.isEmpty = false := by
        split at hx <;> exact interFinish_not_empty _ _ _ _ x hx
      simp [h2, this]
    · simp only [h3, if_true] at hx
      cases hx
      simp [h2, VC.isEmpty]
  · simp only [Bool.not_eq_true] at h1
    have h2 := VRange.strict_of_lower_false hr' h1
    simp only [h1, Bool.false_eq_true, if_false] at hx
    cases h3 : s.isStrictlyLower r
    · simp only [h3, Bool.false_eq_true, if_false] at hx
      have : x.isEmpty = false := by
        split at hx <;> exact interFinish_not_empty _ _ _ _ x hx
      simp [h2, this]
    · simp only [h3, if_true] at hx
      cases hx
      simp [h2, VC.isEmpty]

/-- `allows_any` is "the intersection is not the empty constraint" -/
theorem allowsAny_eq_intersect (a b : RC) (ha : a.WF) (hb : b.WF) (ha' : a.NE) (hb' : b.NE) :
    RC.allowsAny a b = (do let i ← RC.intersect a b; pure (!i.isEmpty)) := by
  cases a with
  | ver x => rfl
  | rng r =>
    cases b with
    | ver y =>
      rw [rngVer_allowsAny_eq]; rfl
    | rng s => exact rng_allowsAny_eq r s ha hb ha' hb'

/-- a "no" from `allows_any` is never wrong -/
theorem allowsAny_false_sound (a b : RC) (ha : a.WF) (hb : b.WF) (h : RC.allowsAny a b = .ok false)
    (p : Version) (hp : p.wf = true) (hreg : Regular (a.bounds ++ b.bounds) p) :
    ¬ (a.allows p = true ∧ b.allows p = true) := by
  rintro ⟨hap, hbp⟩
  cases a with
  | ver x =>
    have hrx : Reg1 p x := hreg.reg1 (by simp [bounds_ver])
    have hpx := (ver_allows_iff x p ha hp hrx).1 hap
    cases b with
    | ver y =>
      have hry : Reg1 p y := hreg.reg1 (by simp [bounds_ver])
      have hpy := (ver_allows_iff y p hb hp hry).1 hbp
      have hxy : x.allows y = true := Version.allows_of_vk_eq ha hb (hpy.symm.trans hpx)
      simp [allowsAny, intersect, verIntersectVer, hxy, bind, Except.bind, pure, Except.pure, VC.isEmpty] at h
    | rng r =>
      have := VRange.allows_congr r hb.1 hp ha hreg.append_right hpx
      have hrx' : r.allows x = true := by rw [← this]; exact hbp
      simp [allowsAny, intersect, rngIntersectVer, hrx', bind, Except.bind, pure, Except.pure, VC.isEmpty] at h
  | rng r =>
    cases b with
    | ver y =>
      have hry : Reg1 p y := hreg.reg1 (by simp [bounds_ver])
      have hpy := (ver_allows_iff y p hb hp hry).1 hbp
      have := VRange.allows_congr r ha.1 hp hb hreg.append_left hpy
      have hry' : r.allows y = true := by rw [← this]; exact hap
      simp [allowsAny, hry'] at h
    | rng s =>
      simp only [allowsAny, VRange.isStrictlyHigher, Except.ok.injEq, Bool.not_eq_false', Bool.or_eq_true] at h
      have hd1 := (VRange.allows_iff_den r p ha.1 hp hreg.append_left).1 hap
      have hd2 := (VRange.allows_iff_den s p hb.1 hp hreg.append_right).1 hbp
      rcases h with h | h
      · exact VRange.strictlyLower_true h p ⟨hd2.2, hd1.1⟩
      · exact VRange.strictlyLower_true h p ⟨hd1.2, hd2.1⟩

theorem allowsAny_self (c : RC) (hc : c.WF) (hne : c.NE) : RC.allowsAny c c = .ok true := by
  cases c with
  | ver x =>
    have : x.allows x = true := Version.allows_of_vk_eq hc hc rfl
    simp [allowsAny, intersect, verIntersectVer, this, bind, Except.bind, pure, Except.pure, VC.isEmpty]
  | rng r =>
    have : r.isStrictlyLower r = false := hne
    simp [allowsAny, VRange.isStrictlyHigher, this]

end RC

/-- the members are listed from low to high, each strictly below the later ones -/
def SortedRC (l : List RC) : Prop :=
  l.Pairwise (fun x y => x.view.isStrictlyLower y.view = true)

/-- `x` strictly below `y` and not adjacent to it -/
def Sep (x y : RC) : Prop := x.view.isStrictlyLower y.view = true ∧ x.view.isAdjacentTo y.view = false

/-- consecutive members are separated (list from low to high) -/
def ConsecSep : List RC → Prop
  | [] => True
  | [_] => True
  | x :: y :: l => Sep x y ∧ ConsecSep (y :: l)

/-- the invariant of constraints: members well-formed and inhabited; the members of a union are at least
two, sorted (each strictly below all later ones) and consecutive ones are not adjacent — what
`VersionUnion.of` establishes -/
def VC.WF : VC → Prop
  | .empty => True
  | .single c => c.WF ∧ c.NE
  | .union rs => 2 ≤ rs.length ∧ (∀ c ∈ rs, c.WF ∧ c.NE) ∧ SortedRC rs ∧ ConsecSep rs

end Poetry
