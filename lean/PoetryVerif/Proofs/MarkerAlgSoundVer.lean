/-
Leaf facts for same-name leaves on a version-like variable other than `python_version`
(`python_full_version`, `platform_release`): `_merge_single_markers` intersects / unites the two version
constraints; in the regular setting of C05 (`RegB B`: the bounds of all leaves are mutually regular and
none is local; the environment's version is a well-formed probe regular for `B`) that is defined and exact
with the real `allows` (`VC.intersect_reg`, `VC.unionWith_reg`, `VC.allows_of_reg`).  Marker equality
implies equal truth on coherent leaves (the constructor derives the constraint from the compared fields).
Named hypotheses that remain: `EqvAllows` (constraints equal under `==` admit alike — C18's territory) and
`MkVerOK` (`SingleMarker(name, str(constraint))` for a simple constraint re-reads to a leaf of the fragment
that admits the environment's version exactly when the constraint does — C15's round trip).
-/
import PoetryVerif.Proofs.MarkerAlgSoundComb
import PoetryVerif.Proofs.MarkerEval
import PoetryVerif.Proofs.VRangeDiffU

set_option linter.unusedSimpArgs false
set_option linter.unusedVariables false

namespace Poetry.Marker
open Poetry Poetry.Version

/-- the environment gives the variable `n` a well-formed version that is regular for the bounds `B` -/
structure VerEnv (B : List Version) (E : Env) (n : String) (p : Version) : Prop where
  get : ∃ ev, E.get? n = some ev ∧ parseVersionKind (n != "platform_release") ev = .ok (.single (.ver p))
  wf : p.wf = true
  reg : Regular B p

/-- a coherent `SingleMarker` on the version-like variable `n` whose constraint is well-formed over members
regular for `B` -/
def VerLeaf (B : List Version) (n : String) : Leaf → Prop
  | .single s => s.name = n ∧ s.coherent = true ∧
      ∃ vc, s.c = .ver vc ∧ vc.WF ∧ ∀ c ∈ vc.flatten, RegMember B c
  | _ => False

/-- constraints that compare equal admit the same versions -/
def EqvAllows (B : List Version) : Prop :=
  ∀ (a b : VC), a.WF → b.WF → (∀ c ∈ a.flatten, RegMember B c) → (∀ c ∈ b.flatten, RegMember B c) →
    VC.eqv a b = true → ∀ p, a.allowsPlain p = b.allowsPlain p

/-- the constructor on the text of a simple constraint yields a leaf of the fragment that admits `p` exactly
when the constraint does -/
def MkVerOK (B : List Version) (n : String) (p : Version) : Prop :=
  ∀ (rc : VC) (s : Single), rc.WF → (∀ c ∈ rc.flatten, RegMember B c) → rc.isEmpty = false → rc.isAny = false →
    rc.isSimple = .ok true → mkSingleOfC n (.ver rc) = .ok s →
    VerLeaf B n (.single s) ∧ ∀ vc, s.c = .ver vc → vc.allowsPlain p = rc.allowsPlain p

theorem regular_of_members {B : List Version} {p : Version} (hr : Regular B p) {a b : VC}
    (ha : ∀ c ∈ a.flatten, RegMember B c) (hb : ∀ c ∈ b.flatten, RegMember B c) :
    Regular (boundsOf a.flatten ++ boundsOf b.flatten) p := by
  apply hr.mono
  intro e he
  simp only [List.mem_append, boundsOf, List.mem_flatMap] at he
  rcases he with ⟨c, hc, hec⟩ | ⟨c, hc, hec⟩
  · exact (ha c hc).2.2.2 e hec
  · exact (hb c hc).2.2.2 e hec

theorem verLeaf_eval {B : List Version} (hB : RegB B) {E : Env} {n : String} {p : Version}
    (hE : VerEnv B E n p) (hn : (n == "extra") = false) {s : Single} {vc : VC}
    (hs : s.name = n) (hc : s.c = .ver vc) (hw : vc.WF) (hm : ∀ c ∈ vc.flatten, RegMember B c) :
    (Leaf.single s).validate E = .ok (vc.allowsPlain p) := by
  obtain ⟨ev, hev, hpv⟩ := hE.get
  simp only [Leaf.validate, validateLike, hs, hn, Bool.false_eq_true, if_false, hev, hc, validateValue, hpv]
  exact VC.allows_of_reg hB vc hw hm p

theorem verLeaf_congr {B : List Version} (hB : RegB B) {E : Env} {n : String} {p : Version}
    (hE : VerEnv B E n p) (hn : (n == "extra") = false) (a b : Leaf) (ha : VerLeaf B n a) (hb : VerLeaf B n b)
    (h : Leaf.beq a b = true) : leafEval E a = leafEval E b := by
  cases a with
  | single sa =>
    cases b with
    | single sb =>
      obtain ⟨hna, hca, va, hva, hwa, hma⟩ := ha
      obtain ⟨hnb, hcb, vb, hvb, hwb, hmb⟩ := hb
      simp only [Leaf.beq, Bool.and_eq_true, beq_iff_eq] at h
      obtain ⟨⟨⟨h1, h2⟩, h3⟩, h4⟩ := h
      have hc : sa.c = sb.c := by
        simp only [Single.coherent] at hca hcb
        rw [h1, h2, h3, h4] at hca
        cases hm : mkSingle sb.name (itemConstraintString sb.op sb.value sb.swapped) sb.swapped with
        | error e => simp [hm] at hcb
        | ok s' =>
          simp only [hm, beq_iff_eq] at hca hcb
          rw [← hca, ← hcb]
      rw [hva, hvb] at hc
      cases hc
      simp only [leafEval, verLeaf_eval hB hE hn hna hva hwa hma, verLeaf_eval hB hE hn hnb hvb hwb hmb]
    | amulti _ _ => exact hb.elim
    | aunion _ _ => exact hb.elim
  | amulti _ _ => exact ha.elim
  | aunion _ _ => exact ha.elim

theorem vc_allowsPlain_of_isEmpty {c : VC} (h : c.isEmpty = true) (p : Version) : c.allowsPlain p = false := by
  cases c <;> simp_all [VC.isEmpty, VC.allowsPlain, VC.flatten]

theorem vc_allowsPlain_of_isAny {c : VC} (h : c.isAny = true) (p : Version) : c.allowsPlain p = true := by
  cases c with
  | single rc =>
    cases rc with
    | rng r =>
      simp only [VC.isAny, RC.isAny, VRange.isAny, Bool.and_eq_true, Option.isNone_iff_eq_none] at h
      simp [VC.allowsPlain, VC.flatten, RC.allows, VRange.allows, VRange.allowsLo, VRange.allowsHi,
        VRange.allowedMax, h.1, h.2]
    | ver v => simp [VC.isAny, RC.isAny] at h
  | _ => simp [VC.isAny] at h

set_option hygiene false in
/-- the tail of `_merge_single_markers` on a version-like variable once the merged constraint is known -/
macro "ver_tail" : tactic => `(tactic| (
  by_cases q1 : (LeafC.ver r0).isEmpty = true
  · rw [if_pos q1, pure_ok] at h; cases h
    have := vc_allowsPlain_of_isEmpty (c := r0) q1 p
    exact ⟨M.good_empty, by rw [M.sem_empty, this]⟩
  rw [if_neg q1] at h
  by_cases q2 : (LeafC.ver r0).isAny = true
  · rw [if_pos q2, pure_ok] at h; cases h
    have := vc_allowsPlain_of_isAny (c := r0) q2 p
    exact ⟨M.good_any, by rw [M.sem_any, this]⟩
  rw [if_neg q2] at h
  by_cases q3 : (LeafC.ver r0).eqv (LeafC.ver v1) = true
  · rw [if_pos q3, pure_ok] at h; cases h
    refine ⟨(M.good_leaf _).2 h1', ?_⟩
    rw [M.sem_leaf, e1]
    exact (HE r0 v1 hw0 hw1 hm0 hm1 q3 p).symm
  rw [if_neg q3] at h
  by_cases q4 : (LeafC.ver r0).eqv (LeafC.ver v2) = true
  · rw [if_pos q4, pure_ok] at h; cases h
    refine ⟨(M.good_leaf _).2 h2', ?_⟩
    rw [M.sem_leaf, e2]
    exact (HE r0 v2 hw0 hw2 hm0 hm2 q4 p).symm
  rw [if_neg q4] at h
  obtain ⟨b, hb, h⟩ := bind_ok.1 h
  cases b
  · rw [if_neg Bool.false_ne_true] at h
    dsimp only at h
    rw [if_pos (by simpa using hpv)] at h
    rw [pure_ok] at h; cases h
  · rw [if_pos rfl] at h
    obtain ⟨s, hs, h⟩ := bind_ok.1 h
    rw [pure_ok] at h; cases h
    obtain ⟨g, e⟩ := HM r0 s hw0 hm0 (by simpa [LeafC.isEmpty] using q1) (by simpa [LeafC.isAny] using q2) hb hs
    refine ⟨(M.good_leaf _).2 g, ?_⟩
    obtain ⟨hns, _, vs, hvs, hws, hms⟩ := g
    rw [M.sem_leaf]
    simp only [leafEval, verLeaf_eval hB hE hn hns hvs hws hms, e vs hvs]))

/-- `_merge_single_markers` on two leaves of the fragment -/
theorem verLeaf_merge {B : List Version} (hB : RegB B) {E : Env} {n : String} {p : Version}
    (hE : VerEnv B E n p) (hn : (n == "extra") = false) (hpv : (n == "python_version") = false)
    (HE : EqvAllows B) (HM : MkVerOK B n p)
    (l1 l2 : Leaf) (im : Bool) (r : M) (h1 : VerLeaf B n l1) (h2 : VerLeaf B n l2)
    (h : mergeLeaves l1 l2 im = .ok (some r)) :
    M.Good (VerLeaf B n) r ∧
      M.sem (leafEval E) r = (if im then (leafEval E l1 && leafEval E l2) else (leafEval E l1 || leafEval E l2)) := by
  cases l1 with
  | amulti _ _ => exact h1.elim
  | aunion _ _ => exact h1.elim
  | single s1 =>
  cases l2 with
  | amulti _ _ => exact h2.elim
  | aunion _ _ => exact h2.elim
  | single s2 =>
  have h1' := h1
  have h2' := h2
  obtain ⟨hn1, _, v1, hv1, hw1, hm1⟩ := h1
  obtain ⟨hn2, _, v2, hv2, hw2, hm2⟩ := h2
  have e1 : leafEval E (.single s1) = v1.allowsPlain p := by
    simp [leafEval, verLeaf_eval hB hE hn hn1 hv1 hw1 hm1]
  have e2 : leafEval E (.single s2) = v2.allowsPlain p := by
    simp [leafEval, verLeaf_eval hB hE hn hn2 hv2 hw2 hm2]
  have hreg := regular_of_members hE.reg hm1 hm2
  simp only [mergeLeaves] at h
  rw [mergeSingle.eq_def] at h
  dsimp only at h
  simp only [Leaf.name, hn1, hn2, hpv, Bool.false_and, Bool.and_false, Bool.or_self, Bool.false_eq_true,
    if_false, bne_self_eq_false, Leaf.c, hv1, hv2] at h
  have key : ∃ r0, (if im = true then (LeafC.ver v1).intersect (.ver v2) else (LeafC.ver v1).union (.ver v2)) =
        .ok (.ver r0) ∧ r0.WF ∧ (∀ c ∈ r0.flatten, RegMember B c) ∧
        r0.allowsPlain p = (if im = true then (v1.allowsPlain p && v2.allowsPlain p)
          else (v1.allowsPlain p || v2.allowsPlain p)) := by
    cases im
    · obtain ⟨r0, a, b, c, d⟩ := VC.unionWith_reg hB v1 v2 hw1 hw2 hm1 hm2
      exact ⟨r0, by simp [LeafC.union, a, Except.map], b, c, by simp [d p hE.wf hreg]⟩
    · obtain ⟨r0, a, b, c, d⟩ := VC.intersect_reg hB v1 v2 hw1 hw2 hm1 hm2
      exact ⟨r0, by simp [LeafC.intersect, a, Except.map], b, c, by simp [d p hE.wf hreg]⟩
  obtain ⟨r0, hk, hw0, hm0, hden⟩ := key
  have hgoal : (if im = true then (leafEval E (.single s1) && leafEval E (.single s2))
      else (leafEval E (.single s1) || leafEval E (.single s2))) = r0.allowsPlain p := by
    rw [hden, e1, e2]
  rw [hgoal]
  clear hgoal hden
  cases im
  · simp only [Bool.false_eq_true, if_false] at h hk ⊢
    obtain ⟨rc, hrc, h⟩ := bind_ok.1 h
    rw [hk] at hrc; cases hrc
    ver_tail
  · simp only [if_true] at h hk ⊢
    obtain ⟨rc, hrc, h⟩ := bind_ok.1 h
    rw [hk] at hrc; cases hrc
    ver_tail

/-- **`LeafSpec` on same-name leaves of a version-like variable other than `python_version`**, in the regular
setting, given `EqvAllows` and `MkVerOK` -/
theorem leafSpec_ver {B : List Version} (hB : RegB B) {E : Env} {n : String} {p : Version}
    (hE : VerEnv B E n p) (hn : (n == "extra") = false) (hpv : (n == "python_version") = false)
    (HE : EqvAllows B) (HM : MkVerOK B n p) : LeafSpec (leafEval E) (VerLeaf B n) where
  congr := verLeaf_congr hB hE hn
  merge := fun l1 l2 im r h1 h2 h => verLeaf_merge hB hE hn hpv HE HM l1 l2 im r h1 h2 h

theorem verLeaf_evaluable {B : List Version} (hB : RegB B) {E : Env} {n : String} {p : Version}
    (hE : VerEnv B E n p) (hn : (n == "extra") = false) {l : Leaf} (h : VerLeaf B n l) :
    ∃ b, l.validate E = .ok b := by
  cases l with
  | single s =>
    obtain ⟨hns, _, vs, hvs, hws, hms⟩ := h
    exact ⟨_, verLeaf_eval hB hE hn hns hvs hws hms⟩
  | amulti _ _ => exact h.elim
  | aunion _ _ => exact h.elim

end Poetry.Marker
