/-
`create_from_pep_508 ∘ to_pep_508` on URL dependencies without sub-directory: `name[extras] @ url` is read back
(recogniser: Proofs/ReqPrint.lean) and dispatched to `URLDependency(name, url)` again, for http(s) URLs in the normal
form `urlsplit`/`urlunsplit` keep fixed.
-/
import PoetryVerif.Proofs.DepRoundtrip

set_option linter.unusedSimpArgs false
set_option linter.unusedVariables false

namespace Poetry.Dep
open Poetry Poetry.Marker Poetry.Req

/-- an http(s) archive URL in the normal form the round trip keeps fixed (all conditions are computations of the
model's own `urlsplit` / `urlunsplit` on the URL: decidable on every concrete URL) -/
structure UrlNF (url : String) (u : SplitUrl) : Prop where
  split : urlsplit url = .ok u
  http : u.scheme = "http" ∨ u.scheme = "https"
  netloc : u.netloc ≠ ""
  nofrag : u.fragment = ""
  unsplit : urlunsplit u = url
  nopct : u.path.toList.contains '%' = false
  /-- not a wheel (a wheel's file name overrides the requirement's name: `wheel_url_name_counterexample`) -/
  notWheel : (extOf (basenameOf u.path.toList) == ".whl".toList) = false
  nosub : subdirFragment url.toList = none
  uri : UriOK url.toList
  noUnc : startsWithL ['\\', '\\'] url.toList = false
  last : ∃ p z, url.toList = p ++ [z] ∧ isSpace z = false

theorem parseConstraint_star : VParser.parseConstraint "*" = .ok VC.any := by rfl

theorem printed_url_trimmed (name : List Char) (es : List (List Char)) (u : List Char) (hn : Ident name)
    (hu : ∃ p z, u = p ++ [z] ∧ isSpace z = false) :
    Trimmed (name ++ extrasText es ++ urlText (some u) ++ markerText none) := by
  obtain ⟨⟨c, r, hcr, hc⟩, _⟩ := ident_trim hn
  obtain ⟨p, z, hpz, hz⟩ := hu
  exact ⟨⟨c, r ++ extrasText es ++ urlText (some u) ++ markerText none, by rw [hcr]; simp, hc⟩,
    ⟨name ++ extrasText es ++ ' ' :: '@' :: ' ' :: p, z, by simp [markerText, urlText, hpz], hz⟩⟩

/-- **`create_from_pep_508` on a printed URL requirement** is `URLDependency(name, url, extras=…)` -/
theorem createFromPep508_url (t : String) (name : List Char) (es : List (List Char)) (url : String) (u : SplitUrl)
    (htxt : t.toList = name ++ extrasText es ++ urlText (some url.toList) ++ markerText none)
    (hn : Ident name) (he : ∀ e ∈ es, Ident e) (hu : UrlNF url u) (hnc : NoComment t.toList) :
    createFromPep508 t = mkUrlDep (String.ofList name) url none (es.map String.ofList) := by
  have htr : Trimmed t.toList := by rw [htxt]; exact printed_url_trimmed _ _ _ hn hu.last
  unfold createFromPep508 createFromPep508L
  rw [stripComment_id _ hnc htr, htxt]
  unfold Req.parseL
  rw [parseRaw_url name es url.toList none none hn he hu.uri trivial]
  have hname : isUrlName (String.ofList name) = false := by
    have hc := ident_noColon hn
    unfold isUrlName
    rw [String.toList_ofList, hc]
    rfl
  have hfile : (u.scheme == "file") = false := by rcases hu.http with h | h <;> rw [h] <;> decide
  have hgitp : startsWithS "git+" u.scheme = false := by rcases hu.http with h | h <;> rw [h] <;> decide
  have hgit : (u.scheme == "git") = false := by rcases hu.http with h | h <;> rw [h] <;> decide
  have hhttp : (u.scheme == "http" || u.scheme == "https") = true := by rcases hu.http with h | h <;> rw [h] <;> decide
  have hsn : (u.scheme != "" && u.netloc != "") = true := by
    have h1 : (u.scheme != "") = true := by rcases hu.http with h | h <;> rw [h] <;> decide
    have h2 : (u.netloc != "") = true := by simpa using hu.netloc
    simp [h1, h2]
  have hcheck : checkUrl url = .ok () := by
    simp [checkUrl, hu.split, hfile, hsn, bind, Except.bind, pure, Except.pure]
  have hfr : ({ u with fragment := "" } : SplitUrl) = u := by
    have := hu.nofrag
    obtain ⟨a, b, c, d, e⟩ := u
    simp only at this
    subst this
    rfl
  simp only [ofRaw, mkRaw, Option.map, String.ofList_toList, hcheck, constraintTextOf, parseConstraint_star, bind,
    Except.bind, pure, Except.pure]
  simp only [fromReq, hname, hu.noUnc, hu.split, hfile, hu.nopct, hu.notWheel, hgitp, hgit, hhttp, hfr, hu.unsplit,
    hu.nosub, withVersion, bind, Except.bind, pure, Except.pure, Bool.false_eq_true, if_false, if_true]
  cases mkUrlDep (String.ofList name) url none (es.map String.ofList) <;> rfl

/-- how `create_from_pep_508` reads a printed http(s) URL `purl` (all conditions are computations of the model's
`urlsplit` / `urlunsplit` / `subdirectory_fragment` on the concrete text): the URL without fragment is `url`, the
`#subdirectory=` fragment is `dir` -/
structure UrlRead (purl : String) (u : SplitUrl) (url : String) (dir : Option String) : Prop where
  split : urlsplit purl = .ok u
  http : u.scheme = "http" ∨ u.scheme = "https"
  netloc : u.netloc ≠ ""
  unsplit : urlunsplit { u with fragment := "" } = url
  sub : subdirFragment purl.toList = dir
  nopct : u.path.toList.contains '%' = false
  uri : UriOK purl.toList
  noUnc : startsWithL ['\\', '\\'] purl.toList = false
  last : ∃ p z, purl.toList = p ++ [z] ∧ isSpace z = false

/-- **`create_from_pep_508` on a printed URL requirement, general form**: `URLDependency(name', url, directory=dir)`
where `name'` is the requirement's name — or, for a wheel, the distribution name in the wheel's file name, whose version
then becomes the constraint -/
theorem createFromPep508_url_read (t : String) (name : List Char) (es : List (List Char)) (purl url : String)
    (dir : Option String) (u : SplitUrl)
    (htxt : t.toList = name ++ extrasText es ++ urlText (some purl.toList) ++ markerText none)
    (hn : Ident name) (he : ∀ e ∈ es, Ident e) (hu : UrlRead purl u url dir) (hnc : NoComment t.toList) :
    createFromPep508 t =
      (if (extOf (basenameOf u.path.toList) == ".whl".toList) = true then
        match wheelNameVer (if (basenameOf u.path.toList).isEmpty then u.netloc.toList else basenameOf u.path.toList) with
        | some (n, v) => do
          let d ← mkUrlDep (String.ofList n) url dir (es.map String.ofList)
          withVersion d v
        | none => .error .value
       else mkUrlDep (String.ofList name) url dir (es.map String.ofList)) := by
  have htr : Trimmed t.toList := by rw [htxt]; exact printed_url_trimmed _ _ _ hn hu.last
  unfold createFromPep508 createFromPep508L
  rw [stripComment_id _ hnc htr, htxt]
  unfold Req.parseL
  rw [parseRaw_url name es purl.toList none none hn he hu.uri trivial]
  have hname : isUrlName (String.ofList name) = false := by
    have hc := ident_noColon hn
    unfold isUrlName
    rw [String.toList_ofList, hc]
    rfl
  have hfile : (u.scheme == "file") = false := by rcases hu.http with h | h <;> rw [h] <;> decide
  have hgitp : startsWithS "git+" u.scheme = false := by rcases hu.http with h | h <;> rw [h] <;> decide
  have hgit : (u.scheme == "git") = false := by rcases hu.http with h | h <;> rw [h] <;> decide
  have hhttp : (u.scheme == "http" || u.scheme == "https") = true := by rcases hu.http with h | h <;> rw [h] <;> decide
  have hsn : (u.scheme != "" && u.netloc != "") = true := by
    have h1 : (u.scheme != "") = true := by rcases hu.http with h | h <;> rw [h] <;> decide
    have h2 : (u.netloc != "") = true := by simpa using hu.netloc
    simp [h1, h2]
  have hcheck : checkUrl purl = .ok () := by
    simp [checkUrl, hu.split, hfile, hsn, bind, Except.bind, pure, Except.pure]
  simp only [ofRaw, mkRaw, Option.map_some, Option.map_none, String.ofList_toList, hcheck, constraintTextOf,
    parseConstraint_star, bind, Except.bind, pure, Except.pure]
  by_cases hw : (extOf (basenameOf u.path.toList) == ".whl".toList) = true
  · simp only [hw, if_true]
    cases hwn : wheelNameVer (if (basenameOf u.path.toList).isEmpty then u.netloc.toList else basenameOf u.path.toList) with
    | none =>
      simp only [fromReq, hname, hu.noUnc, hu.split, hfile, hu.nopct, hw, hwn, bind, Except.bind, pure, Except.pure,
        Bool.false_eq_true, if_false, if_true]
    | some nv =>
      obtain ⟨n, v⟩ := nv
      simp only [fromReq, hname, hu.noUnc, hu.split, hfile, hu.nopct, hw, hwn, hgitp, hgit, hhttp, hu.unsplit, hu.sub,
        bind, Except.bind, pure, Except.pure, Bool.false_eq_true, if_false, if_true]
      cases mkUrlDep (String.ofList n) url dir (es.map String.ofList) with
      | error e => rfl
      | ok d0 => simp only []; cases withVersion d0 v <;> rfl
  · have hw' : (extOf (basenameOf u.path.toList) == ".whl".toList) = false := by simpa using hw
    simp only [hw', Bool.false_eq_true, if_false]
    simp only [fromReq, hname, hu.noUnc, hu.split, hfile, hu.nopct, hw', hgitp, hgit, hhttp, hu.unsplit, hu.sub,
      withVersion, bind, Except.bind, pure, Except.pure, Bool.false_eq_true, if_false, if_true]
    cases mkUrlDep (String.ofList name) url dir (es.map String.ofList) <;> rfl

/-- what `URLDependency(name, url, directory=dir)` is -/
theorem mkUrlDep_fields_dir (n url : String) (dir : Option String) (es : List String) (d : Dep)
    (h : mkUrlDep n url dir es = .ok d) :
    d.spec.name = canonName n ∧ d.spec.features = normFeatures es ∧ d.kind = .url url dir ∧
    d.spec.sourceType = some "url" ∧ d.spec.sourceUrl = some url ∧ d.spec.sourceSubdirectory = dir ∧
    d.spec.sourceReference = none ∧ d.spec.sourceResolvedReference = none ∧ d.marker = .any ∧ d.constraint = VC.any := by
  unfold mkUrlDep at h
  simp only [bind, Except.bind, pure, Except.pure] at h
  cases hs : urlsplit url with
  | error e => simp [hs] at h
  | ok u =>
    simp only [hs] at h
    split at h
    · cases h
    · simp only [Spec.make, normalizeSourceUrl, mkDepStr, parseConstraint_star, bind, Except.bind, pure, Except.pure] at h
      have hng : (some "url" == some "git") = false := by decide
      simp only [hng, Bool.and_false, Bool.false_eq_true, if_false] at h
      cases h
      exact ⟨rfl, rfl, rfl, rfl, rfl, rfl, rfl, rfl, rfl, rfl⟩

/-- what `URLDependency(name, url)` is -/
theorem mkUrlDep_fields (n url : String) (es : List String) (d : Dep) (h : mkUrlDep n url none es = .ok d) :
    d.spec.name = canonName n ∧ d.spec.features = normFeatures es ∧ d.kind = .url url none ∧
    d.spec.sourceType = some "url" ∧ d.spec.sourceUrl = some url ∧ d.spec.sourceSubdirectory = none ∧
    d.spec.sourceReference = none ∧ d.spec.sourceResolvedReference = none ∧ d.marker = .any := by
  unfold mkUrlDep at h
  simp only [bind, Except.bind, pure, Except.pure] at h
  cases hs : urlsplit url with
  | error e => simp [hs] at h
  | ok u =>
    simp only [hs] at h
    split at h
    · cases h
    · simp only [Spec.make, normalizeSourceUrl, mkDepStr, parseConstraint_star, bind, Except.bind, pure, Except.pure] at h
      have hng : (some "url" == some "git") = false := by decide
      simp only [hng, Bool.and_false, Bool.false_eq_true, if_false] at h
      cases h
      exact ⟨rfl, rfl, rfl, rfl, rfl, rfl, rfl, rfl, rfl⟩

end Poetry.Dep
