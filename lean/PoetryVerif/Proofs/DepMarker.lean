/-
The marker half of the dependency round trip: the marker `create_from_pep_508` rebuilds from the printed text
(`_compact_markers` with its final `union(…)`, `Req.compactTop`) has the truth of the printed marker — from C13's
print/parse machinery (`M.print_ok`, `groupMarker_spec`) and C07's `unionF_sound`; on the full comparison-operator
domain (`FullInvLeaf`) without any hypothesis on the leaves.
-/
import PoetryVerif.Proofs.DepRoundtrip
import PoetryVerif.Proofs.MarkerPrintPy
import PoetryVerif.Proofs.MarkerPrintChars
import PoetryVerif.Proofs.PyConvPairFinal

set_option linter.unusedSimpArgs false
set_option linter.unusedVariables false

namespace Poetry.Dep
open Poetry Poetry.Marker Poetry.Req

variable {ev : Leaf → Bool} {G : Leaf → Prop}

theorem any_congr_mem {α : Type} (l : List α) (f g : α → Bool) (h : ∀ x ∈ l, f x = g x) : l.any f = l.any g := by
  induction l with
  | nil => rfl
  | cons a r ih => simp [h a (by simp), ih (fun x hx => h x (by simp [hx]))]

/-- **the marker rebuilt from the tree of a printed marker means what the printed marker means** -/
theorem compactTop_printed (S : LeafSpec ev G) (hL : ∀ l, G l → LeafPrintOK ev G l) {m : M} {t : Syn}
    (hg : M.Good G m) (h : M.toSyn m = some t) (m' : M) (hc : compactTop t = .ok m') :
    M.Good G m' ∧ M.sem ev m' = M.sem ev m := by
  obtain ⟨gs, h1, h2, h3, _⟩ := (M.print_ok S hL m t hg h).groups
  have hsub : compactSubMarkers t = .ok (gs.map groupMarker) := by
    simp [compactSubMarkers, h1, bind, Except.bind, pure, Except.pure]
  unfold compactTop at hc
  simp only [hsub, bind, Except.bind] at hc
  have hgood : M.GoodAll G (gs.map groupMarker) := by
    rw [M.goodAll_iff]
    intro x hx
    obtain ⟨g, hgm, rfl⟩ := List.mem_map.mp hx
    exact (groupMarker_spec S g (h2 g hgm)).1
  have := unionF_sound S hgood hc
  refine ⟨this.1, ?_⟩
  rw [this.2, M.semAny_eq, ← h3]
  simp only [gsem, List.any_map]
  exact any_congr_mem gs _ _ (fun g hgm => (groupMarker_spec S g (h2 g hgm)).2)

/-! ### a printed marker neither starts with a blank nor ends with white space -/

/-- first character not a blank or tab, last character not white space -/
def Ends (l : List Char) : Prop :=
  (∃ c r, l = c :: r ∧ c ≠ ' ' ∧ c ≠ '\t') ∧ (∃ p z, l = p ++ [z] ∧ isSpace z = false)

def endsB (l : List Char) : Bool :=
  (match l with | c :: _ => c != ' ' && c != '\t' | [] => false) &&
  (match l.reverse with | z :: _ => !isSpace z | [] => false)

theorem ends_of_endsB (l : List Char) (h : endsB l = true) : Ends l := by
  unfold endsB at h
  simp only [Bool.and_eq_true] at h
  obtain ⟨h1, h2⟩ := h
  constructor
  · cases l with
    | nil => simp at h1
    | cons c r => simp at h1; exact ⟨c, r, rfl, h1.1, h1.2⟩
  · cases hr : l.reverse with
    | nil => simp [hr] at h2
    | cons z p =>
      simp [hr] at h2
      refine ⟨p.reverse, z, ?_, h2⟩
      have := congrArg List.reverse hr
      simpa using this

theorem names_ends (n : String) (hn : n ∈ names) : Ends n.toList := by
  apply ends_of_endsB
  rw [names_list] at hn
  simp only [List.mem_cons, List.mem_nil_iff, or_false] at hn
  rcases hn with rfl | rfl | rfl | rfl | rfl | rfl | rfl | rfl | rfl | rfl | rfl | rfl | rfl | rfl | rfl | rfl | rfl | rfl <;>
    decide

theorem ends_append_left (a b : List Char) (ha : ∃ c r, a = c :: r ∧ c ≠ ' ' ∧ c ≠ '\t')
    (hb : ∃ p z, b = p ++ [z] ∧ isSpace z = false) : Ends (a ++ b) := by
  obtain ⟨c, r, rfl, h1, h2⟩ := ha
  obtain ⟨p, z, rfl, hz⟩ := hb
  exact ⟨⟨c, r ++ (p ++ [z]), by simp, h1, h2⟩, ⟨c :: r ++ p, z, by simp, hz⟩⟩

mutual
theorem Atom.chars_ends : ∀ a : Atom, a.Lexable → Ends a.chars
  | .item n op v false, h => by
    obtain ⟨⟨c, r, hcr, h1, h2⟩, _⟩ := names_ends n h.1
    refine ⟨⟨c, r ++ ' ' :: (op.toList ++ ' ' :: '"' :: (v.toList ++ ['"'])), by simp [Atom.chars, hcr], h1, h2⟩, ?_⟩
    exact ⟨n.toList ++ ' ' :: (op.toList ++ ' ' :: '"' :: v.toList), '"', by simp [Atom.chars], by decide⟩
  | .item n op v true, h => by
    obtain ⟨_, ⟨p, z, hpz, hz⟩⟩ := names_ends n h.1
    refine ⟨⟨'"', _, rfl, by decide, by decide⟩, ?_⟩
    exact ⟨'"' :: (v.toList ++ '"' :: ' ' :: (op.toList ++ ' ' :: p)), z, by simp [Atom.chars, hpz], hz⟩
  | .paren m, h => ⟨⟨'(', _, rfl, by decide, by decide⟩, ⟨'(' :: m.chars, ')', by simp [Atom.chars], by decide⟩⟩
theorem Syn.chars_ends : ∀ t : Syn, t.Lexable → Ends t.chars
  | .one a, h => Atom.chars_ends a h
  | .more a isOr rest, h => by
    have ha := Atom.chars_ends a h.1
    have hr := Syn.chars_ends rest h.2
    obtain ⟨p, z, hpz, hz⟩ := hr.2
    have := ends_append_left a.chars ((if isOr then " or " else " and ").toList ++ rest.chars) ha.1
      ⟨(if isOr then " or " else " and ").toList ++ p, z, by rw [hpz]; simp, hz⟩
    simpa [Syn.chars] using this
end

/-- **the printed text of a marker of the domain has no leading blank and no trailing white space** -/
theorem toStr_ends {m : M} {t : Syn} (S : LeafSpec ev G) (hL : ∀ l, G l → LeafPrintOK ev G l)
    (hX : ∀ l, G l → Leaf.Lexable l) (hg : M.Good G m) (h : M.toSyn m = some t) (s : String) (hs : M.toStr m = .ok s) :
    skipWs s.toList = s.toList ∧ ∃ p z, s.toList = p ++ [z] ∧ isSpace z = false := by
  have hlex : t.Lexable := M.toSyn_lexable m t (M.good_mono hX m hg) h
  have htext := (M.print_ok S hL m t hg h).text
  rw [hs] at htext
  injection htext with htext
  rw [htext, Syn.text_chars t hlex]
  obtain ⟨⟨c, r, hcr, h1, h2⟩, hlast⟩ := Syn.chars_ends t hlex
  refine ⟨?_, hlast⟩
  rw [hcr]
  exact skipWs_nonblank c r h1 h2

end Poetry.Dep
