/-
The marker half of the dependency round trip: the marker `create_from_pep_508` rebuilds from the printed text
(`_compact_markers` with its final `union(…)`, `Req.compactTop`) has the truth of the printed marker — from C13's
print/parse machinery (`M.print_ok`, `groupMarker_spec`) and C07's `unionF_sound`; on the full comparison-operator
domain (`FullInvLeaf`) without any hypothesis on the leaves.
-/
import PoetryVerif.Proofs.DepRoundtrip
import PoetryVerif.Proofs.MarkerPrintPy
import PoetryVerif.Proofs.MarkerPrintChars
import PoetryVerif.Proofs.PyConvPairFinal

set_option linter.unusedSimpArgs false
set_option linter.unusedVariables false

namespace Poetry.Dep
open Poetry Poetry.Marker Poetry.Req

variable {ev : Leaf → Bool} {G : Leaf → Prop}

theorem any_congr_mem {α : Type} (l : List α) (f g : α → Bool) (h : ∀ x ∈ l, f x = g x) : l.any f = l.any g := by
  induction l with
  | nil => rfl
  | cons a r ih => simp [h a (by simp), ih (fun x hx => h x (by simp [hx]))]

/-- **the marker rebuilt from the tree of a printed marker means what the printed marker means** -/
theorem compactTop_printed (S : LeafSpec ev G) (hL : ∀ l, G l → LeafPrintOK ev G l) {m : M} {t : Syn}
    (hg : M.Good G m) (h : M.toSyn m = some t) (m' : M) (hc : compactTop t = .ok m') :
    M.Good G m' ∧ M.sem ev m' = M.sem ev m := by
  obtain ⟨gs, h1, h2, h3, _⟩ := (M.print_ok S hL m t hg h).groups
  have hsub : compactSubMarkers t = .ok (gs.map groupMarker) := by
    simp [compactSubMarkers, h1, bind, Except.bind, pure, Except.pure]
  unfold compactTop at hc
  simp only [hsub, bind, Except.bind] at hc
  have hgood : M.GoodAll G (gs.map groupMarker) := by
    rw [M.goodAll_iff]
    intro x hx
    obtain ⟨g, hgm, rfl⟩ := List.mem_map.mp hx
    exact (groupMarker_spec S g (h2 g hgm)).1
  have := unionF_sound S hgood hc
  refine ⟨this.1, ?_⟩
  rw [this.2, M.semAny_eq, ← h3]
  simp only [gsem, List.any_map]
  exact any_congr_mem gs _ _ (fun g hgm => (groupMarker_spec S g (h2 g hgm)).2)

end Poetry.Dep
