/-
C20 helper lemmas, part 3: when does the marker simplifier NOT depend on the `detect_recursion` stack of the caller?
`Model/ConcTaint.lean` runs the simplifier with the caller's frames (`frn`) kept apart and aborts with the taint mark
as soon as one of them answers a membership test.  Here: a taint-free run returns exactly what the model returns with
any stack `s` between the own frames and own ++ foreign frames — by induction on the fuel over the whole mutual block.
-/
import PoetryVerif.Model.ConcTaint

set_option linter.unusedSimpArgs false
set_option linter.unusedVariables false

namespace Poetry.Marker

/-- the taint mark -/
abbrev taint : PyErr := .unmodelled

/-- tainted, or equal to the model's result -/
def Rel {α : Type} (rT r : PyM α) : Prop := rT = .error taint ∨ rT = r

theorem Rel.rfl' {α : Type} (r : PyM α) : Rel r r := Or.inr rfl

/-- `s` answers every membership test like the own frames do, except that it may also answer for foreign frames -/
def Between (own frn s : Stack) : Prop :=
  ∀ b ms, (own.has b ms = true → s.has b ms = true) ∧ (s.has b ms = true → own.has b ms = true ∨ frn.has b ms = true)

theorem has_cons (f : Frame) (stk : Stack) (b : Bool) (ms : List M) :
    Stack.has (f :: stk) b ms = ((f.1 == b && M.beqList f.2 ms) || stk.has b ms) := by
  simp [Stack.has]

theorem Between.push {own frn s : Stack} (h : Between own frn s) (f : Frame) : Between (f :: own) frn (f :: s) := by
  intro b ms
  rw [has_cons, has_cons]
  obtain ⟨h1, h2⟩ := h b ms
  constructor
  · intro hx
    cases hf : (f.1 == b && M.beqList f.2 ms) with
    | true => simp
    | false => rw [hf] at hx; simp at hx; simp [h1 hx]
  · intro hx
    cases hf : (f.1 == b && M.beqList f.2 ms) with
    | true => simp
    | false =>
      rw [hf] at hx; simp at hx
      rcases h2 hx with h | h
      · left; simp [h]
      · right; exact h

theorem between_own (own frn : Stack) : Between own frn own := by
  intro b ms; exact ⟨id, Or.inl⟩

theorem between_append (own frn : Stack) : Between own frn (own ++ frn) := by
  intro b ms
  simp only [Stack.has, List.any_append, Bool.or_eq_true]
  exact ⟨Or.inl, id⟩

/-- the statement for every function of the block at fuel `n` -/
structure TaintAt (n : Nat) : Prop where
  inter : ∀ own frn s a b, Between own frn s → Rel (mIntersectT n own frn a b) (mIntersect n s a b)
  uni : ∀ own frn s a b, Between own frn s → Rel (mUnionT n own frn a b) (mUnion n s a b)
  interF : ∀ own frn s ms, Between own frn s → Rel (intersectionFT n own frn ms) (intersectionF n s ms)
  uniF : ∀ own frn s ms, Between own frn s → Rel (unionFT n own frn ms) (unionF n s ms)
  cnf : ∀ own frn s m, Between own frn s → Rel (cnfT n own frn m) (cnf n s m)
  dnf : ∀ own frn s m, Between own frn s → Rel (dnfT n own frn m) (dnf n s m)
  mOf : ∀ own frn s ms, Between own frn s → Rel (multiOfT n own frn ms) (multiOf n s ms)
  mLoop : ∀ own frn s old new, Between own frn s → Rel (multiOfLoopT n own frn old new) (multiOfLoop n s old new)
  mPass : ∀ own frn s todo new, Between own frn s → Rel (multiPassT n own frn todo new) (multiPass n s todo new)
  mTry : ∀ own frn s marker all i rem, Between own frn s →
    Rel (multiTryT n own frn marker all i rem) (multiTry n s marker all i rem)
  uOf : ∀ own frn s ms, Between own frn s → Rel (unionOfT n own frn ms) (unionOf n s ms)
  uLoop : ∀ own frn s old new, Between own frn s → Rel (unionOfLoopT n own frn old new) (unionOfLoop n s old new)
  uPass : ∀ own frn s todo new, Between own frn s → Rel (unionPassT n own frn todo new) (unionPass n s todo new)
  uTry : ∀ own frn s marker all i rem, Between own frn s →
    Rel (unionTryT n own frn marker all i rem) (unionTry n s marker all i rem)
  iSimp : ∀ own frn s ours other, Between own frn s →
    Rel (intersectSimplifyT n own frn ours other) (intersectSimplify n s ours other)
  uSimp : ∀ own frn s ours other, Between own frn s →
    Rel (unionSimplifyT n own frn ours other) (unionSimplify n s ours other)

/-- use a sub-call's `Rel`: the tainted case closes the goal (the taint propagates through binds and through every
`match` of the block, none of which catches it), otherwise the sub-call is rewritten to the model's -/
macro "use_rel " h:term : tactic =>
  `(tactic| (rcases ($h : Rel _ _) with hp | he
             (left; simp [hp, bind, Except.bind, taint])
             rw [he]))

theorem rel_bind {α β : Type} {xT x : PyM α} {fT f : α → PyM β} (hx : Rel xT x) (hf : ∀ a, Rel (fT a) (f a)) :
    Rel (xT >>= fT) (x >>= f) := by
  rcases hx with hp | he
  · left; simp [hp, bind, Except.bind]
  · rw [he]
    cases x with
    | error e => right; simp [bind, Except.bind]
    | ok a => simpa [bind, Except.bind] using hf a

theorem rel_ite {α : Type} {c : Prop} [Decidable c] {aT a bT b : PyM α} (h1 : c → Rel aT a) (h2 : ¬c → Rel bT b) :
    Rel (if c then aT else bT) (if c then a else b) := by
  by_cases h : c
  · simpa [h] using h1 h
  · simpa [h] using h2 h

section maps
variable {n : Nat} {own frn s : Stack}

theorem mapCnf_rel (h : ∀ m, Rel (cnfT n own frn m) (cnf n s m)) :
    ∀ ms, Rel (mapCnfT n own frn ms) (mapCnf n s ms)
  | [] => by rw [mapCnfT.eq_def, mapCnf.eq_def]; exact Rel.rfl' _
  | m :: ms => by
    rw [mapCnfT.eq_def, mapCnf.eq_def]; simp only
    use_rel h m
    cases hx : cnf n s m with
    | error e => right; simp [bind, Except.bind]
    | ok x =>
      simp only [bind, Except.bind]
      use_rel mapCnf_rel h ms
      exact Rel.rfl' _

theorem mapDnf_rel (h : ∀ m, Rel (dnfT n own frn m) (dnf n s m)) :
    ∀ ms, Rel (mapDnfT n own frn ms) (mapDnf n s ms)
  | [] => by rw [mapDnfT.eq_def, mapDnf.eq_def]; exact Rel.rfl' _
  | m :: ms => by
    rw [mapDnfT.eq_def, mapDnf.eq_def]; simp only
    use_rel h m
    cases hx : dnf n s m with
    | error e => right; simp [bind, Except.bind]
    | ok x =>
      simp only [bind, Except.bind]
      use_rel mapDnf_rel h ms
      exact Rel.rfl' _

theorem mapUnionOf_rel (h : ∀ c, Rel (unionOfT n own frn c) (unionOf n s c)) :
    ∀ cs, Rel (mapUnionOfT n own frn cs) (mapUnionOf n s cs)
  | [] => by rw [mapUnionOfT.eq_def, mapUnionOf.eq_def]; exact Rel.rfl' _
  | c :: cs => by
    rw [mapUnionOfT.eq_def, mapUnionOf.eq_def]; simp only
    use_rel h c
    cases hx : unionOf n s c with
    | error e => right; simp [bind, Except.bind]
    | ok x =>
      simp only [bind, Except.bind]
      use_rel mapUnionOf_rel h cs
      exact Rel.rfl' _

theorem mapMultiOf_rel (h : ∀ c, Rel (multiOfT n own frn c) (multiOf n s c)) :
    ∀ cs, Rel (mapMultiOfT n own frn cs) (mapMultiOf n s cs)
  | [] => by rw [mapMultiOfT.eq_def, mapMultiOf.eq_def]; exact Rel.rfl' _
  | c :: cs => by
    rw [mapMultiOfT.eq_def, mapMultiOf.eq_def]; simp only
    use_rel h c
    cases hx : multiOf n s c with
    | error e => right; simp [bind, Except.bind]
    | ok x =>
      simp only [bind, Except.bind]
      use_rel mapMultiOf_rel h cs
      exact Rel.rfl' _

end maps

/-- closes a goal `Rel x x`, or one that an induction hypothesis states -/
macro "rel_close " ih:ident hb:ident : tactic =>
  `(tactic| first
    | exact Rel.rfl' _
    | exact TaintAt.inter $ih _ _ _ _ _ $hb | exact TaintAt.uni $ih _ _ _ _ _ $hb
    | exact TaintAt.interF $ih _ _ _ _ $hb | exact TaintAt.uniF $ih _ _ _ _ $hb
    | exact TaintAt.cnf $ih _ _ _ _ $hb | exact TaintAt.dnf $ih _ _ _ _ $hb
    | exact TaintAt.mOf $ih _ _ _ _ $hb | exact TaintAt.uOf $ih _ _ _ _ $hb
    | exact TaintAt.mLoop $ih _ _ _ _ _ $hb | exact TaintAt.uLoop $ih _ _ _ _ _ $hb
    | exact TaintAt.mPass $ih _ _ _ _ _ $hb | exact TaintAt.uPass $ih _ _ _ _ _ $hb
    | exact TaintAt.mTry $ih _ _ _ _ _ _ _ $hb | exact TaintAt.uTry $ih _ _ _ _ _ _ _ $hb
    | exact TaintAt.iSimp $ih _ _ _ _ _ $hb | exact TaintAt.uSimp $ih _ _ _ _ _ $hb)

variable {n : Nat}

theorem cnf_step (ih : TaintAt n) :
    ∀ own frn s m, Between own frn s → Rel (cnfT (n + 1) own frn m) (cnf (n + 1) s m) := by
  intro own frn s m hb
  rw [cnfT.eq_def, cnf.eq_def]; simp only
  cases m <;> simp only <;> try exact Rel.rfl' _
  · refine rel_bind (mapCnf_rel (fun m => ih.cnf own frn s m hb) _) (fun cs => ?_)
    exact ih.mOf own frn s cs hb
  · refine rel_bind (mapCnf_rel (fun m => ih.cnf own frn s m hb) _) (fun cs => ?_)
    refine rel_bind (mapUnionOf_rel (fun c => ih.uOf own frn s c hb) _) (fun us => ?_)
    exact ih.mOf own frn s us hb

theorem dnf_step (ih : TaintAt n) :
    ∀ own frn s m, Between own frn s → Rel (dnfT (n + 1) own frn m) (dnf (n + 1) s m) := by
  intro own frn s m hb
  rw [dnfT.eq_def, dnf.eq_def]; simp only
  cases m <;> simp only <;> try exact Rel.rfl' _
  · refine rel_bind (mapDnf_rel (fun m => ih.dnf own frn s m hb) _) (fun ds => ?_)
    refine rel_bind (mapMultiOf_rel (fun c => ih.mOf own frn s c hb) _) (fun us => ?_)
    exact ih.uOf own frn s us hb
  · refine rel_bind (mapDnf_rel (fun m => ih.dnf own frn s m hb) _) (fun ds => ?_)
    exact ih.uOf own frn s ds hb

theorem multiOf_step (ih : TaintAt n) :
    ∀ own frn s ms, Between own frn s → Rel (multiOfT (n + 1) own frn ms) (multiOf (n + 1) s ms) := by
  intro own frn s ms hb
  rw [multiOfT.eq_def, multiOf.eq_def]; simp only
  exact ih.mLoop own frn s _ _ hb

theorem unionOf_step (ih : TaintAt n) :
    ∀ own frn s ms, Between own frn s → Rel (unionOfT (n + 1) own frn ms) (unionOf (n + 1) s ms) := by
  intro own frn s ms hb
  rw [unionOfT.eq_def, unionOf.eq_def]; simp only
  exact ih.uLoop own frn s _ _ hb

theorem multiOfLoop_step (ih : TaintAt n) :
    ∀ own frn s old new, Between own frn s →
      Rel (multiOfLoopT (n + 1) own frn old new) (multiOfLoop (n + 1) s old new) := by
  intro own frn s old new hb
  rw [multiOfLoopT.eq_def, multiOfLoop.eq_def]; simp only
  refine rel_ite (fun _ => Rel.rfl' _) (fun _ => ?_)
  refine rel_bind (ih.mPass own frn s _ _ hb) (fun o => ?_)
  cases o <;> simp only <;> rel_close ih hb

theorem unionOfLoop_step (ih : TaintAt n) :
    ∀ own frn s old new, Between own frn s →
      Rel (unionOfLoopT (n + 1) own frn old new) (unionOfLoop (n + 1) s old new) := by
  intro own frn s old new hb
  rw [unionOfLoopT.eq_def, unionOfLoop.eq_def]; simp only
  refine rel_ite (fun _ => Rel.rfl' _) (fun _ => ?_)
  refine rel_bind (ih.uPass own frn s _ _ hb) (fun o => ?_)
  cases o <;> simp only <;> rel_close ih hb

theorem multiPass_step (ih : TaintAt n) :
    ∀ own frn s todo new, Between own frn s →
      Rel (multiPassT (n + 1) own frn todo new) (multiPass (n + 1) s todo new) := by
  intro own frn s todo new hb
  rw [multiPassT.eq_def, multiPass.eq_def]; simp only
  cases todo with
  | nil => exact Rel.rfl' _
  | cons marker rest =>
    simp only
    refine rel_ite (fun _ => ih.mPass own frn s _ _ hb) (fun _ => ?_)
    refine rel_ite (fun _ => ih.mPass own frn s _ _ hb) (fun _ => ?_)
    refine rel_bind (ih.mTry own frn s _ _ _ _ hb) (fun o => ?_)
    rcases o with ⟨⟨⟩⟩ | (_ | new') <;> simp only <;> rel_close ih hb

theorem unionPass_step (ih : TaintAt n) :
    ∀ own frn s todo new, Between own frn s →
      Rel (unionPassT (n + 1) own frn todo new) (unionPass (n + 1) s todo new) := by
  intro own frn s todo new hb
  rw [unionPassT.eq_def, unionPass.eq_def]; simp only
  cases todo with
  | nil => exact Rel.rfl' _
  | cons marker rest =>
    simp only
    refine rel_ite (fun _ => ih.uPass own frn s _ _ hb) (fun _ => ?_)
    refine rel_ite (fun _ => ih.uPass own frn s _ _ hb) (fun _ => ?_)
    refine rel_bind (ih.uTry own frn s _ _ _ _ hb) (fun o => ?_)
    rcases o with ⟨⟨⟩⟩ | (_ | new') <;> simp only <;> rel_close ih hb

theorem multiTry_step (ih : TaintAt n) :
    ∀ own frn s marker all i rem, Between own frn s →
      Rel (multiTryT (n + 1) own frn marker all i rem) (multiTry (n + 1) s marker all i rem) := by
  intro own frn s marker all i rem hb
  rw [multiTryT.eq_def, multiTry.eq_def]; simp only
  cases rem with
  | nil => exact Rel.rfl' _
  | cons mark more =>
    simp only
    cases mark <;> cases marker <;> simp only [pure_bind] <;>
      first
      | rel_close ih hb
      | (refine rel_bind (TaintAt.iSimp ih own frn s _ _ hb) (fun r => ?_)
         cases r <;> simp only [pure_bind] <;> rel_close ih hb)
      | (refine rel_bind (TaintAt.inter ih own frn s _ _ hb) (fun nm => ?_)
         refine rel_ite (fun _ => Rel.rfl' _) (fun _ => ?_)
         cases nm <;> simp only <;> rel_close ih hb)

theorem unionTry_step (ih : TaintAt n) :
    ∀ own frn s marker all i rem, Between own frn s →
      Rel (unionTryT (n + 1) own frn marker all i rem) (unionTry (n + 1) s marker all i rem) := by
  intro own frn s marker all i rem hb
  rw [unionTryT.eq_def, unionTry.eq_def]; simp only
  cases rem with
  | nil => exact Rel.rfl' _
  | cons mark more =>
    simp only
    cases mark <;> cases marker <;> simp only [pure_bind] <;>
      first
      | rel_close ih hb
      | (refine rel_bind (TaintAt.uSimp ih own frn s _ _ hb) (fun r => ?_)
         cases r <;> simp only [pure_bind] <;> rel_close ih hb)
      | (refine rel_bind (TaintAt.uni ih own frn s _ _ hb) (fun nm => ?_)
         refine rel_ite (fun _ => Rel.rfl' _) (fun _ => ?_)
         cases nm <;> simp only <;> rel_close ih hb)

theorem intersectSimplify_step (ih : TaintAt n) :
    ∀ own frn s ours other, Between own frn s →
      Rel (intersectSimplifyT (n + 1) own frn ours other) (intersectSimplify (n + 1) s ours other) := by
  intro own frn s ours other hb
  rw [intersectSimplifyT.eq_def, intersectSimplify.eq_def]; simp only
  refine rel_ite (fun _ => Rel.rfl' _) (fun _ => ?_)
  cases other <;> simp only <;> try exact Rel.rfl' _
  refine rel_ite (fun _ => Rel.rfl' _) (fun _ => ?_)
  refine rel_ite (fun _ => Rel.rfl' _) (fun _ => ?_)
  refine rel_ite (fun _ => Rel.rfl' _) (fun _ => ?_)
  refine rel_bind (ih.inter own frn s _ _ hb) (fun ui => ?_)
  cases ui <;> simp only <;>
    first
    | exact Rel.rfl' _
    | exact rel_bind (ih.uni own frn s _ _ hb) (fun _ => Rel.rfl' _)

theorem unionSimplify_step (ih : TaintAt n) :
    ∀ own frn s ours other, Between own frn s →
      Rel (unionSimplifyT (n + 1) own frn ours other) (unionSimplify (n + 1) s ours other) := by
  intro own frn s ours other hb
  rw [unionSimplifyT.eq_def, unionSimplify.eq_def]; simp only
  refine rel_ite (fun _ => Rel.rfl' _) (fun _ => ?_)
  cases other <;> simp only <;> try exact Rel.rfl' _
  refine rel_ite (fun _ => Rel.rfl' _) (fun _ => ?_)
  refine rel_ite (fun _ => Rel.rfl' _) (fun _ => ?_)
  refine rel_ite (fun _ => Rel.rfl' _) (fun _ => ?_)
  refine rel_bind (ih.uni own frn s _ _ hb) (fun uu => ?_)
  cases uu <;> simp only <;>
    first
    | exact Rel.rfl' _
    | exact rel_bind (ih.inter own frn s _ _ hb) (fun _ => Rel.rfl' _)

theorem mIntersect_step (ih : TaintAt n) :
    ∀ own frn s a b, Between own frn s → Rel (mIntersectT (n + 1) own frn a b) (mIntersect (n + 1) s a b) := by
  intro own frn s a b hb
  rw [mIntersectT.eq_def, mIntersect.eq_def]; simp only
  cases a <;> simp only <;> try rel_close ih hb
  cases b <;> simp only <;> rel_close ih hb

theorem mUnion_step (ih : TaintAt n) :
    ∀ own frn s a b, Between own frn s → Rel (mUnionT (n + 1) own frn a b) (mUnion (n + 1) s a b) := by
  intro own frn s a b hb
  rw [mUnionT.eq_def, mUnion.eq_def]; simp only
  cases a <;> simp only <;> try rel_close ih hb
  cases b <;> simp only <;> rel_close ih hb

/-- the three-way answer of the `detect_recursion` test under `Between` -/
theorem guard_cases {own frn s : Stack} (hb : Between own frn s) (b : Bool) (ms : List M) :
    (own.has b ms = true ∧ s.has b ms = true) ∨
    (own.has b ms = false ∧ frn.has b ms = true) ∨
    (own.has b ms = false ∧ frn.has b ms = false ∧ s.has b ms = false) := by
  obtain ⟨h1, h2⟩ := hb b ms
  cases ho : own.has b ms with
  | true => left; exact ⟨rfl, h1 ho⟩
  | false =>
    right
    cases hf : frn.has b ms with
    | true => left; exact ⟨rfl, rfl⟩
    | false =>
      right
      refine ⟨rfl, rfl, ?_⟩
      cases hs : s.has b ms with
      | false => rfl
      | true => rcases h2 hs with h | h <;> simp_all

theorem intersectionF_step (ih : TaintAt n) :
    ∀ own frn s ms, Between own frn s → Rel (intersectionFT (n + 1) own frn ms) (intersectionF (n + 1) s ms) := by
  intro own frn s ms hb
  rw [intersectionFT.eq_def, intersectionF.eq_def]; simp only
  rcases guard_cases hb false ms with ⟨ho, hs⟩ | ⟨ho, hf⟩ | ⟨ho, hf, hs⟩
  · right; simp [ho, hs]
  · left; simp [ho, hf, taint]
  · simp only [ho, hf, hs, Bool.false_eq_true, if_false]
    have hb' := hb.push (false, ms)
    generalize unwrapSingleton (ms.length + 2) (mkMulti (ms.filter fun m => !m.isAny)) = U
    use_rel ih.dnf ((false, ms) :: own) frn ((false, ms) :: s) U hb'
    cases hd : dnf n ((false, ms) :: s) U with
    | error e => exact Rel.rfl' _
    | ok d =>
      simp only
      cases d with
      | union us =>
        simp only
        use_rel ih.cnf ((false, ms) :: own) frn ((false, ms) :: s) (M.union us) hb'
        exact Rel.rfl' _
      | any => exact Rel.rfl' _
      | empty => exact Rel.rfl' _
      | leaf l => exact Rel.rfl' _
      | multi l => exact Rel.rfl' _

theorem unionF_step (ih : TaintAt n) :
    ∀ own frn s ms, Between own frn s → Rel (unionFT (n + 1) own frn ms) (unionF (n + 1) s ms) := by
  intro own frn s ms hb
  rw [unionFT.eq_def, unionF.eq_def]; simp only
  rcases guard_cases hb true ms with ⟨ho, hs⟩ | ⟨ho, hf⟩ | ⟨ho, hf, hs⟩
  · right; simp [ho, hs]
  · left; simp [ho, hf, taint]
  · simp only [ho, hf, hs, Bool.false_eq_true, if_false]
    have hb' := hb.push (true, ms)
    generalize unwrapSingleton (ms.length + 2) (mkUnion (ms.filter fun m => !m.isEmpty)) = U
    use_rel ih.cnf ((true, ms) :: own) frn ((true, ms) :: s) U hb'
    cases hd : cnf n ((true, ms) :: s) U with
    | error e => exact Rel.rfl' _
    | ok c =>
      simp only
      cases c with
      | multi us =>
        simp only
        use_rel ih.dnf ((true, ms) :: own) frn ((true, ms) :: s) (M.multi us) hb'
        exact Rel.rfl' _
      | any => exact Rel.rfl' _
      | empty => exact Rel.rfl' _
      | leaf l => exact Rel.rfl' _
      | union l => exact Rel.rfl' _

/-! ### assembly -/

theorem taintAt_zero : TaintAt 0 where
  inter := by intros; rw [mIntersectT.eq_def, mIntersect.eq_def]; exact Rel.rfl' _
  uni := by intros; rw [mUnionT.eq_def, mUnion.eq_def]; exact Rel.rfl' _
  interF := by intros; rw [intersectionFT.eq_def, intersectionF.eq_def]; exact Rel.rfl' _
  uniF := by intros; rw [unionFT.eq_def, unionF.eq_def]; exact Rel.rfl' _
  cnf := by intros; rw [cnfT.eq_def, cnf.eq_def]; exact Rel.rfl' _
  dnf := by intros; rw [dnfT.eq_def, dnf.eq_def]; exact Rel.rfl' _
  mOf := by intros; rw [multiOfT.eq_def, multiOf.eq_def]; exact Rel.rfl' _
  mLoop := by intros; rw [multiOfLoopT.eq_def, multiOfLoop.eq_def]; exact Rel.rfl' _
  mPass := by intros; rw [multiPassT.eq_def, multiPass.eq_def]; exact Rel.rfl' _
  mTry := by intros; rw [multiTryT.eq_def, multiTry.eq_def]; exact Rel.rfl' _
  uOf := by intros; rw [unionOfT.eq_def, unionOf.eq_def]; exact Rel.rfl' _
  uLoop := by intros; rw [unionOfLoopT.eq_def, unionOfLoop.eq_def]; exact Rel.rfl' _
  uPass := by intros; rw [unionPassT.eq_def, unionPass.eq_def]; exact Rel.rfl' _
  uTry := by intros; rw [unionTryT.eq_def, unionTry.eq_def]; exact Rel.rfl' _
  iSimp := by intros; rw [intersectSimplifyT.eq_def, intersectSimplify.eq_def]; exact Rel.rfl' _
  uSimp := by intros; rw [unionSimplifyT.eq_def, unionSimplify.eq_def]; exact Rel.rfl' _

/-- the whole mutual block, every fuel value -/
theorem taintAt : ∀ n, TaintAt n
  | 0 => taintAt_zero
  | n + 1 =>
    have ih := taintAt n
    { inter := mIntersect_step ih, uni := mUnion_step ih, interF := intersectionF_step ih, uniF := unionF_step ih,
      cnf := cnf_step ih, dnf := dnf_step ih, mOf := multiOf_step ih, mLoop := multiOfLoop_step ih,
      mPass := multiPass_step ih, mTry := multiTry_step ih, uOf := unionOf_step ih, uLoop := unionOfLoop_step ih,
      uPass := unionPass_step ih, uTry := unionTry_step ih, iSimp := intersectSimplify_step ih,
      uSimp := unionSimplify_step ih }

end Poetry.Marker
