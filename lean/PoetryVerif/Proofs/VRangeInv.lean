/-
`VersionRange.difference(VersionUnion)` — the loop `rngDiffUnionLoop`, hence `VersionUnion._inverted` and
`excludes_single_version` — is exact on regular probes whenever it returns; consequence: `VersionUnion.allows`
is the disjunction over the members (helper lemmas for C05, C12).
-/
import PoetryVerif.Proofs.VRangeSep
import PoetryVerif.Proofs.VRangeWalk

set_option linter.unusedSimpArgs false
set_option linter.unusedVariables false

namespace Poetry
open Version

attribute [local instance] lexOrd

/-! ### key equality determines the effective upper end -/

theorem isSome_pre_of_vk_eq {x y : Version} (h : vk x = vk y) : x.pre.isSome = y.pre.isSome := by
  have hk := (vk_eq_iff_key x y).1 h
  simp only [key, Prod.mk.injEq] at hk
  have hp := hk.2.2.1
  unfold preK at hp
  cases hx : x.pre <;> cases hy : y.pre <;> simp [hx, hy] at hp ⊢
  · split at hp <;> simp [tagK, negInfTagK, infTagK, NumK.fin, NumK.negInf, NumK.inf] at hp
  · split at hp <;> simp [tagK, negInfTagK, infTagK, NumK.fin, NumK.negInf, NumK.inf] at hp

theorem isSome_dev_of_vk_eq {x y : Version} (h : vk x = vk y) : x.dev.isSome = y.dev.isSome := by
  have hk := (vk_eq_iff_key x y).1 h
  simp only [key, Prod.mk.injEq] at hk
  have hp := hk.2.2.2.2.1
  unfold devK at hp
  cases hx : x.dev <;> cases hy : y.dev <;> simp [hx, hy, tagK, infTagK, NumK.fin, NumK.inf] at hp ⊢

theorem isSome_post_of_vk_eq {x y : Version} (h : vk x = vk y) : x.post.isSome = y.post.isSome := by
  have := isPost_of_vk_eq h
  simpa [isPostrelease] using this

theorem isUnstable_of_vk_eq {x y : Version} (h : vk x = vk y) : x.isUnstable = y.isUnstable := by
  simp [isUnstable, isPrerelease, isDevrelease, isSome_pre_of_vk_eq h, isSome_dev_of_vk_eq h]

theorem firstDev_vk_congr {x y : Version} (h : vk x = vk y) : vk x.firstDevrelease = vk y.firstDevrelease := by
  have hk := (vk_eq_iff_key x y).1 h
  rw [vk_eq_iff_key]
  simp only [key, Prod.mk.injEq] at hk ⊢
  obtain ⟨h1, h2, h3, h4, h5, h6⟩ := hk
  have e1 := isSome_pre_of_vk_eq h
  have e2 := isSome_post_of_vk_eq h
  refine ⟨h1, h2, ?_, ?_, rfl, rfl⟩
  · simp only [firstDevrelease, mk', preK, Option.isSome_some, Bool.and_true]
    unfold preK at h3
    cases hx : x.pre <;> cases hy : y.pre <;> simp [hx, hy] at e1 h3 ⊢
    · cases hpx : x.post <;> cases hpy : y.post <;> simp [hpx, hpy] at e2 ⊢
    · exact h3
  · simpa [firstDevrelease, mk', postK] using h4

/-- when the two written upper ends are mutually regular, `allows_higher` (on the effective ends) agrees with them -/
theorem VRange.endsConsistent_of_reg (a b : VRange) (ha : a.WF) (hb : b.WF)
    (hreg : ∀ x y, b.max = some x → a.max = some y → Reg1 x y) : VRange.EndsConsistent a b := by
  intro hh x y hx hy
  obtain ⟨A, hA⟩ : ∃ A, a.allowedMax = some A := by
    cases h : a.allowedMax with
    | none => have := VRange.allowedMax_isSome (r := a); simp [h, hy] at this
    | some A => exact ⟨A, rfl⟩
  obtain ⟨B, hB⟩ : ∃ B, b.allowedMax = some B := by
    cases h : b.allowedMax with
    | none => have := VRange.allowedMax_isSome (r := b); simp [h, hx] at this
    | some B => exact ⟨B, rfl⟩
  have hrA := VRange.relKey_allowedMax hy hA
  have hrB := VRange.relKey_allowedMax hx hB
  unfold VRange.allowsHigher at hh
  rw [hA, hB] at hh
  simp only at hh
  have hnlt : ¬ vk A < vk B := by
    intro h; simp [(lt_iff _ _).2 h] at hh
  rcases hreg x y hx hy with heq | hne
  · right
    refine ⟨heq, ?_⟩
    have hAle := VRange.allowedMax_le hy hA
    have hBle := VRange.allowedMax_le hx hB
    have hgtiff : Version.gt A B = true → vk B < vk A := (gt_iff A B).1
    cases hia : a.imax <;> cases hib : b.imax
    · -- both exclusive: the effective ends are equal
      exfalso
      have eA := VRange.allowedMax_eq_of_lt hy (fun m hm => ne_of_lt (ha.2 m y hm hy))
      have eB := VRange.allowedMax_eq_of_lt hx (fun m hm => ne_of_lt (hb.2 m x hm hx))
      rw [hA, hia] at eA; rw [hB, hib] at eB
      simp only [Bool.false_or, Option.some.injEq] at eA eB
      have hu := isUnstable_of_vk_eq heq
      have : vk A = vk B := by
        rw [eA, eB, hu]
        cases y.isUnstable
        · simpa using (firstDev_vk_congr heq).symm
        · simpa using heq.symm
      have h1 : Version.lt A B = false := by rw [lt_false_iff, this]
      have h2 : Version.gt A B = false := by rw [gt_false_iff, this]
      simp [h1, h2, hia] at hh
    · -- a exclusive, b inclusive
      exfalso
      have hBx : B = x := by
        rcases VRange.allowedMax_cases hx with h | h
        · rw [hB] at h; exact Option.some.inj h
        · rw [hib] at h; simp at h
      have hle : vk A ≤ vk B := by rw [hBx, heq]; exact hAle
      have h2 : Version.gt A B = false := (gt_false_iff _ _).2 hle
      simp [h2, hia] at hh
    · exact ⟨rfl, rfl⟩
    · -- both inclusive
      exfalso
      have hAy : A = y := by
        rcases VRange.allowedMax_cases hy with h | h
        · rw [hA] at h; exact Option.some.inj h
        · rw [hia] at h; simp at h
      have hBx : B = x := by
        rcases VRange.allowedMax_cases hx with h | h
        · rw [hB] at h; exact Option.some.inj h
        · rw [hib] at h; simp at h
      have : vk A = vk B := by rw [hAy, hBx, heq]
      have h1 : Version.lt A B = false := by rw [lt_false_iff, this]
      have h2 : Version.gt A B = false := by rw [gt_false_iff, this]
      simp [h1, h2, hib] at hh
  · left
    have hAB : relKey B ≠ relKey A := by rw [hrA, hrB]; exact hne
    have c1 : vk B < vk A ↔ vk x < vk A := lt_congr_left hrB hAB
    have c2 : vk x < vk A ↔ vk x < vk y := lt_congr_right hrA (by rw [hrA]; exact fun e => hne e.symm)
    have hneq : vk A ≠ vk B := fun e => hAB (relKey_of_vk_eq e).symm
    have : vk B < vk A := lt_of_le_of_ne (not_lt.1 hnlt) (fun e => hneq e.symm)
    exact c2.1 (c1.1 this)

/-! ### the shape of a two-piece difference -/

/-- when `VersionUnion.of(x, y)` answers with a union and `y` does not sort before `x`, the union is `[x, y]` -/
theorem unionOfFlat_pair_union (x y : RC) (ds : List RC) (h : unionOfFlat [x, y] = .ok (.union ds))
    (hlt : RC.lt y x = false) : ds = [x, y] := by
  unfold unionOfFlat at h
  simp only [List.isEmpty_cons, Bool.false_eq_true, if_false] at h
  split at h
  · simp [VC.any] at h
  · have hs : sortRCs [x, y] = [x, y] := by simp [sortRCs, insertSorted, hlt]
    rw [hs] at h
    obtain ⟨any, hany⟩ := RC.allowsAny_ok x y
    simp only [bind, Except.bind] at h
    by_cases hb : (!any && !x.view.isAdjacentTo y.view) = true
    · have : mergeLoop [x, y] [] = .ok [x, y] := by simp [mergeLoop, hany, bind, Except.bind, hb]
      rw [this] at h
      simp only [pure, Except.pure, Except.ok.injEq, VC.union.injEq] at h
      exact h.symm
    · cases hu : rcUnionSingle x y with
      | error e =>
        have : mergeLoop [x, y] [] = .error e := by simp [mergeLoop, hany, bind, Except.bind, hb, hu]
        rw [this] at h; simp at h
      | ok o =>
        cases o with
        | none =>
          have : mergeLoop [x, y] [] = .error .recursion := by simp [mergeLoop, hany, bind, Except.bind, hb, hu]
          rw [this] at h; simp at h
        | some u =>
          have : mergeLoop [x, y] [] = .ok [u] := by simp [mergeLoop, hany, bind, Except.bind, hb, hu]
          rw [this] at h; simp [pure, Except.pure] at h

namespace VRange

theorem beforePiece_some {a b : VRange} {x : RC} (h : beforePiece a b = .ok (some x)) :
    a.allowsLower b = true ∧
    ((∃ m, a.min = some m ∧ x = .ver m) ∨ x = .rng ⟨a.min, b.min, a.imin, !b.imin⟩) := by
  unfold beforePiece at h
  cases h1 : a.allowsLower b
  · simp [h1] at h
  · simp only [h1, Bool.not_true, Bool.false_eq_true, if_false] at h
    refine ⟨rfl, ?_⟩
    split at h
    · cases hm : a.min with
      | none => simp [hm] at h
      | some m => simp [hm] at h; exact Or.inl ⟨m, rfl, h.symm⟩
    · simp at h; exact Or.inr h.symm

theorem afterPiece_some {a b : VRange} {y : RC} (h : afterPiece a b = .ok (some y)) :
    a.allowsHigher b = true ∧
    ((∃ M, a.max = some M ∧ y = .ver M) ∨ y = .rng ⟨b.max, a.max, !b.imax, a.imax⟩) := by
  unfold afterPiece at h
  cases h1 : a.allowsHigher b
  · simp [h1] at h
  · simp only [h1, Bool.not_true, Bool.false_eq_true, if_false] at h
    refine ⟨rfl, ?_⟩
    split at h
    · cases hm : a.max with
      | none => simp [hm] at h
      | some m => simp [hm] at h; exact Or.inl ⟨m, rfl, h.symm⟩
    · simp at h; exact Or.inr h.symm

end VRange
/-- a member whose lower end is strictly above another's does not sort before it -/
theorem RC.lt_false_of_min_gt (x y : RC) (Y : Version) (hY : y.view.min = some Y)
    (h : ∀ m, x.view.min = some m → vk m < vk Y) : RC.lt y x = false := by
  rw [← Bool.not_eq_true, RC.lt_iff_cmp, VRange.cmp_eq]
  have : VRange.minPart y.view x.view = 1 := by
    unfold VRange.minPart
    rw [hY]
    cases hx : x.view.min with
    | none => rfl
    | some m =>
      have := h m hx
      simp [(gt_iff Y m).2 this]
  simp [this]

/-- what a member-level difference `cur ∖ r` returns: members well-formed and tidy over the operands' bounds,
exact on regular probes, and when it is a union it is `[x, y]` with `x` entirely below `r`'s lower end -/
structure DiffSpec (cur r : RC) (d : VC) : Prop where
  good : Good d.flatten
  bounds : ∀ e ∈ d.bounds, e ∈ cur.bounds ∨ e ∈ r.bounds
  exact : ∀ p, p.wf = true → Regular (cur.bounds ++ r.bounds) p → d.allowsPlain p = (cur.allows p && !r.allows p)
  pair : ∀ ds, d = .union ds → ∃ x y, ds = [x, y] ∧ ∀ p, x.sem p → ¬ r.view.denLo p

theorem diffSpec_ver (a : Version) (c : RC) (ha : a.wf = true) (hc : c.WF) :
    DiffSpec (.ver a) c (RC.verDifference a c) := by
  refine ⟨?_, ?_, fun p hp hreg => RC.verDifference_exact a c ha hc p hp hreg, ?_⟩
  · unfold RC.verDifference; split
    · simp [Good, VC.flatten]
    · intro x hx; simp [VC.flatten] at hx; subst hx; exact ⟨ha, trivial⟩
  · unfold RC.verDifference; split
    · simp [VC.bounds]
    · intro e he; exact Or.inl he
  · intro ds h; unfold RC.verDifference at h; split at h <;> cases h

theorem diffSpec_rng_rng (a b : VRange) (ha : a.WF) (hb : b.WF) (hta : a.Tidy) (htb : b.Tidy)
    (hec : VRange.EndsConsistent a b) (d : VC) (h : RC.rngDifferenceRng a b = .ok d) :
    DiffSpec (.rng a) (.rng b) d := by
  have hexact := VRange.difference_exact a b ha hb hta htb hec d h
  rw [VRange.rngDifferenceRng_eq] at h
  obtain ⟨any, hany⟩ := RC.allowsAny_ok (.rng a) (.rng b)
  simp only [hany, bind, Except.bind] at h
  cases any with
  | false =>
    simp only [Bool.not_false, if_true, pure, Except.pure, Except.ok.injEq] at h
    subst h
    refine ⟨?_, fun e he => Or.inl he, hexact, fun ds hd => by cases hd⟩
    intro x hx; simp [VC.flatten] at hx; subst hx; exact ⟨ha, hta⟩
  | true =>
    simp only [Bool.not_true, Bool.false_eq_true, if_false] at h
    obtain ⟨o1, e1, s1⟩ := VRange.beforePiece_spec a b ha hb hta
    obtain ⟨o2, e2, s2⟩ := VRange.afterPiece_spec a b ha hb hta hec
    simp only [e1, e2] at h
    have single : ∀ x : RC, x.WF → x.Tidy → (∀ e ∈ x.bounds, e ∈ a.bounds ∨ e ∈ b.bounds) →
        d = .single x → DiffSpec (.rng a) (.rng b) d := by
      intro x xw xt xb hd
      subst hd
      refine ⟨?_, xb, hexact, fun ds hd => by cases hd⟩
      intro c hc; simp [VC.flatten] at hc; subst hc; exact ⟨xw, xt⟩
    cases o1 with
    | none =>
      cases o2 with
      | none =>
        simp only [pure, Except.pure, Except.ok.injEq] at h
        subst h
        exact ⟨by simp [Good, VC.flatten], by simp [VC.bounds], hexact, fun ds hd => by cases hd⟩
      | some y =>
        obtain ⟨yw, yt, yb, _, _⟩ := s2
        simp only [pure, Except.pure, Except.ok.injEq] at h
        exact single y yw yt yb h.symm
    | some x =>
      obtain ⟨xw, xt, xb, xsem, _⟩ := s1
      cases o2 with
      | none =>
        simp only [pure, Except.pure, Except.ok.injEq] at h
        exact single x xw xt xb h.symm
      | some y =>
        obtain ⟨yw, yt, yb, _, _⟩ := s2
        simp only at h
        have hgood : Good [x, y] := by
          intro c hc
          simp only [List.mem_cons, List.mem_nil_iff, or_false] at hc
          rcases hc with rfl | rfl
          · exact ⟨xw, xt⟩
          · exact ⟨yw, yt⟩
        obtain ⟨g1, g2, _⟩ := unionOfFlat_sem [x, y] d h hgood
        refine ⟨g1, ?_, hexact, ?_⟩
        · intro e he
          have := g2 e he
          simp only [boundsOf, List.flatMap_cons, List.flatMap_nil, List.append_nil, List.mem_append] at this
          rcases this with h1 | h1
          · exact xb e h1
          · exact yb e h1
        · intro ds hd
          subst hd
          -- `y` starts strictly above `x`
          obtain ⟨hlow, hxs⟩ := VRange.beforePiece_some e1
          obtain ⟨_, hys⟩ := VRange.afterPiece_some e2
          obtain ⟨bm, hbm⟩ := VRange.allowsLower_none_right hlow
          have hxmin : x.view.min = a.min := by
            rcases hxs with ⟨m, hm, rfl⟩ | rfl
            · simp [RC.view, RC.min, hm]
            · rfl
          have hylt : ∃ Y, y.view.min = some Y ∧ ∀ m, a.min = some m → vk m < vk Y := by
            rcases hys with ⟨M, hM, rfl⟩ | rfl
            · exact ⟨M, by simp [RC.view, RC.min], fun m hm => ha.2 m M hm hM⟩
            · obtain ⟨X, hX⟩ := VRange.allowsHigher_none_right (a := a) (b := b) (by
                exact (VRange.afterPiece_some e2).1)
              refine ⟨X, by simp [RC.view, RC.min, hX], fun m hm => ?_⟩
              exact lt_of_le_of_lt (VRange.allowsLower_true_le hlow hm hbm) (hb.2 bm X hbm hX)
          obtain ⟨Y, hY1, hY2⟩ := hylt
          have hlt : RC.lt y x = false :=
            RC.lt_false_of_min_gt x y Y hY1 (fun m hm => hY2 m (hxmin ▸ hm))
          refine ⟨x, y, unionOfFlat_pair_union x y ds h hlt, fun p hp => ?_⟩
          exact ((xsem p).1 hp).2

theorem diffSpec_rng_ver (r : VRange) (v : Version) (hr : r.WF) (htr : r.Tidy) (hv : v.wf = true)
    (hvreg : Regular r.bounds v) (d : VC) (h : RC.rngDifferenceVer r v = .ok d) :
    DiffSpec (.rng r) (.ver v) d := by
  have hexact := RC.rngDifferenceVer_exact r v hr htr hv hvreg d h
  have single : ∀ s : VRange, s.WF → s.Tidy → (∀ e ∈ s.bounds, e ∈ r.bounds) →
      d = .single (.rng s) → DiffSpec (.rng r) (.ver v) d := by
    intro s sw st sb hd
    subst hd
    refine ⟨?_, fun e he => Or.inl (sb e he), hexact, fun ds hd => by cases hd⟩
    intro c hc; simp [VC.flatten] at hc; subst hc; exact ⟨sw, st⟩
  unfold RC.rngDifferenceVer at h
  by_cases h1 : r.allows v = true
  · simp only [h1, Bool.not_true, Bool.false_eq_true, if_false] at h
    have hraw := (VRange.allows_iff_raw r v hr.1 hv hvreg).1 h1
    by_cases h2 : optVerEq (some v) r.min = true
    · simp only [h2, if_true] at h
      cases hi : r.imin
      · simp only [hi, Bool.not_false, if_true, Except.ok.injEq] at h
        exact single r hr htr (fun e he => he) h.symm
      · simp only [hi, Bool.not_true, Bool.false_eq_true, if_false, Except.ok.injEq] at h
        exact single ⟨r.min, r.max, false, r.imax⟩ ⟨hr.1, hr.2⟩ ⟨fun _ => rfl, htr.2⟩ (fun e he => he) h.symm
    · simp only [h2, Bool.false_eq_true, if_false] at h
      by_cases h3 : optVerEq (some v) r.max = true
      · simp only [h3, if_true] at h
        cases hi : r.imax
        · simp only [hi, Bool.not_false, if_true, Except.ok.injEq] at h
          exact single r hr htr (fun e he => he) h.symm
        · simp only [hi, Bool.not_true, Bool.false_eq_true, if_false, Except.ok.injEq] at h
          exact single ⟨r.min, r.max, r.imin, false⟩ ⟨hr.1, hr.2⟩ ⟨htr.1, fun _ => rfl⟩ (fun e he => he) h.symm
      · simp only [h3, Bool.false_eq_true, if_false] at h
        have hlo : ∀ m, r.min = some m → vk m < vk v := by
          intro m hm
          have hne : vk v ≠ vk m := by
            intro e; simp [hm, optVerEq, (eqv_iff _ _).2 e] at h2
          have := hraw.1
          simp only [VRange.denLo, hm] at this
          cases hi : r.imin <;> simp [hi] at this
          · exact this
          · exact lt_of_le_of_ne this (fun e => hne e.symm)
        have hhi : ∀ M, r.max = some M → vk v < vk M := by
          intro M hM
          have hne : vk v ≠ vk M := by
            intro e; simp [hM, optVerEq, (eqv_iff _ _).2 e] at h3
          have := hraw.2
          simp only [VRange.rawHi, hM] at this
          cases hi : r.imax <;> simp [hi] at this
          · exact this
          · exact lt_of_le_of_ne this hne
        have w1 : (⟨r.min, some v, r.imin, false⟩ : VRange).WF := by
          refine ⟨?_, ?_⟩
          · intro e he
            simp only [VRange.bounds, List.mem_append, Option.mem_toList] at he
            rcases he with he | he
            · exact hr.1 e (VRange.mem_bounds_min he)
            · simp at he; subst he; exact hv
          · intro m M hm hM; simp at hM; subst hM; exact hlo m hm
        have w2 : (⟨some v, r.max, false, r.imax⟩ : VRange).WF := by
          refine ⟨?_, ?_⟩
          · intro e he
            simp only [VRange.bounds, List.mem_append, Option.mem_toList] at he
            rcases he with he | he
            · simp at he; subst he; exact hv
            · exact hr.1 e (VRange.mem_bounds_max he)
          · intro m M hm hM; simp at hm; subst hm; exact hhi M hM
        have hgood : Good [RC.rng ⟨r.min, some v, r.imin, false⟩, RC.rng ⟨some v, r.max, false, r.imax⟩] := by
          intro c hc
          simp only [List.mem_cons, List.mem_nil_iff, or_false] at hc
          rcases hc with rfl | rfl
          · exact ⟨w1, ⟨fun e => htr.1 e, fun e => by simp at e⟩⟩
          · exact ⟨w2, ⟨fun e => by simp at e, fun e => htr.2 e⟩⟩
        obtain ⟨g1, g2, _⟩ := unionOfFlat_sem _ d h hgood
        refine ⟨g1, ?_, hexact, ?_⟩
        · intro e he
          have := g2 e he
          simp only [boundsOf, List.flatMap_cons, List.flatMap_nil, List.append_nil, List.mem_append,
            RC.bounds_rng, VRange.bounds, Option.mem_toList] at this
          simp only [RC.bounds_rng, RC.bounds_ver, VRange.bounds, List.mem_append, Option.mem_toList,
            List.mem_cons]
          grind
        · intro ds hd
          subst hd
          have hlt : RC.lt (RC.rng ⟨some v, r.max, false, r.imax⟩) (RC.rng ⟨r.min, some v, r.imin, false⟩) = false :=
            RC.lt_false_of_min_gt _ _ v rfl (fun m hm => hlo m hm)
          refine ⟨_, _, unionOfFlat_pair_union _ _ ds h hlt, fun p hp => ?_⟩
          have : vk p < vk v := by
            have := hp.2
            simpa [RC.view_rng, VRange.rawHi] using this
          simp only [RC.view, RC.min, RC.imin, VRange.denLo, if_true]
          exact not_le.2 this
  · simp only [h1, Bool.not_false, if_true, Except.ok.injEq] at h
    exact single r hr htr (fun e he => he) h.symm

/-- **structure and exactness of a member-level difference** -/
theorem difference_spec (cur r : RC) (hc : cur.WF) (hct : cur.Tidy) (hr : r.WF) (hrt : r.Tidy)
    (hside : ∀ a, cur = .rng a →
      (∀ b, r = .rng b → VRange.EndsConsistent a b) ∧ (∀ v, r = .ver v → Regular a.bounds v))
    (d : VC) (h : RC.difference cur r = .ok d) : DiffSpec cur r d := by
  cases cur with
  | ver a =>
    simp only [RC.difference, Except.ok.injEq] at h
    subst h
    exact diffSpec_ver a r hc hr
  | rng a =>
    cases r with
    | ver v => exact diffSpec_rng_ver a v hc hct hr ((hside a rfl).2 v rfl) d h
    | rng b => exact diffSpec_rng_rng a b hc hr hct hrt ((hside a rfl).1 b rfl) d h

/-! ### the loop -/

/-- the bounds are mutually regular: any two are equal or of different releases -/
def MutReg (B : List Version) : Prop := ∀ x ∈ B, ∀ y ∈ B, Reg1 x y

theorem Regular.of_subset {B : List Version} {l : List Version} {p : Version} (h : Regular B p)
    (hs : ∀ e ∈ l, e ∈ B) : Regular l p := h.mono hs

/-- what the loop needs of a member of the subtracted union -/
def UMember (c : RC) : Prop := c.WF ∧ c.Tidy ∧ c.NE

theorem finish_sem (cur : RC) (ranges : List RC) (res : VC) (h : VC.rngDiffFinish cur ranges = .ok res)
    (hc : cur.WF) (hct : cur.Tidy) (hg : Good ranges) :
    Good res.flatten ∧ (∀ e ∈ res.bounds, e ∈ boundsOf ranges ∨ e ∈ cur.bounds) ∧
    ∀ p, p.wf = true → Regular (boundsOf ranges ++ cur.bounds) p →
      res.allowsPlain p = (anyAllows ranges p || cur.allows p) := by
  unfold VC.rngDiffFinish at h
  by_cases he : ranges.isEmpty = true
  · simp only [he, if_true, Except.ok.injEq] at h
    subst h
    have : ranges = [] := List.isEmpty_iff.mp he
    subst this
    refine ⟨?_, fun e he' => Or.inr he', fun p _ _ => by simp [VC.allowsPlain, VC.flatten, anyAllows]⟩
    intro c hc'; simp [VC.flatten] at hc'; subst hc'; exact ⟨hc, hct⟩
  · simp only [he, Bool.false_eq_true, if_false] at h
    have hg' : Good (ranges ++ [cur]) := by
      intro c hc'
      simp only [List.mem_append, List.mem_singleton] at hc'
      rcases hc' with h1 | rfl
      · exact hg c h1
      · exact ⟨hc, hct⟩
    obtain ⟨g1, g2, g3⟩ := unionOfFlat_sem _ res h hg'
    refine ⟨g1, ?_, ?_⟩
    · intro e he'
      have := g2 e he'
      simpa [boundsOf, List.flatMap_append] using this
    · intro p hp hreg
      rw [g3 p hp (hreg.mono (by intro e he'; simpa [boundsOf, List.flatMap_append] using he'))]
      simp [anyAllows, List.any_append]

/-- a member strictly below `cur` admits nothing `cur` admits -/
theorem skip_lower {r cur : RC} (hr : r.WF) (hc : cur.WF) (h : r.view.isStrictlyLower cur.view = true)
    (p : Version) (hp : p.wf = true) (hrr : Regular r.bounds p) (hrc : Regular cur.bounds p)
    (hcp : cur.allows p = true) : r.allows p = false := by
  cases hrp : r.allows p
  · rfl
  · exfalso
    have d1 := (RC.allows_iff_den r p hr hp hrr).1 hrp
    have d2 := (RC.allows_iff_den cur p hc hp hrc).1 hcp
    exact VRange.strictlyLower_true h p ⟨d1.2, d2.1⟩

/-- once `cur` is strictly below `r`, it is below every later member too -/
theorem all_higher {r cur : RC} {rest : List RC} (hm : ∀ c ∈ r :: rest, UMember c) (hc : cur.WF)
    (hs : SortedRC (r :: rest)) (h : cur.view.isStrictlyLower r.view = true)
    (p : Version) (hp : p.wf = true) (hrr : Regular (boundsOf (r :: rest)) p) (hrc : Regular cur.bounds p)
    (hcp : cur.allows p = true) : anyAllows (r :: rest) p = false := by
  cases hq : anyAllows (r :: rest) p
  · rfl
  · exfalso
    obtain ⟨c, hcm, hcp'⟩ := List.any_eq_true.1 hq
    have hsl : cur.view.isStrictlyLower c.view = true := by
      simp only [List.mem_cons] at hcm
      rcases hcm with rfl | hcm
      · exact h
      · exact VRange.sl_trans h (RC.view_NE (hm r (by simp)).2.2) ((List.pairwise_cons.1 hs).1 c hcm)
    have hcr := skip_lower hc (hm c hcm).1 hsl p hp hrc (hrr.mono (fun e he => mem_boundsOf hcm he)) hcp'
    rw [hcr] at hcp; cases hcp

/-- what lies below `r`'s lower end is admitted by no later member -/
theorem below_disjoint {r : RC} {rest : List RC} (hm : ∀ c ∈ r :: rest, UMember c)
    (hs : SortedRC (r :: rest)) (p : Version) (hp : p.wf = true) (hrr : Regular (boundsOf rest) p)
    (hx : ¬ r.view.denLo p) : anyAllows rest p = false := by
  apply anyAllows_false_of_den (fun c hc => (hm c (by simp [hc])).1) hp hrr
  intro c hc hd
  have hsl := (List.pairwise_cons.1 hs).1 c hc
  have hne : r.view.isStrictlyLower r.view = false := RC.view_NE (hm r (by simp)).2.2
  rcases VRange.strictlyLower_false_cover hne p with h1 | h1
  · exact VRange.strictlyLower_true hsl p ⟨h1, hd.1⟩
  · exact hx h1

theorem side_of_mutReg {B : List Version} (hB : MutReg B) (cur r : RC) (hc : cur.WF) (hr : r.WF)
    (hcb : ∀ e ∈ cur.bounds, e ∈ B) (hrb : ∀ e ∈ r.bounds, e ∈ B) :
    ∀ a, cur = .rng a →
      (∀ b, r = .rng b → VRange.EndsConsistent a b) ∧ (∀ v, r = .ver v → Regular a.bounds v) := by
  intro a ha
  subst ha
  refine ⟨?_, ?_⟩
  · intro b hb
    subst hb
    exact VRange.endsConsistent_of_reg a b hc hr (fun x y hx hy =>
      hB x (hrb x (VRange.mem_bounds_max hx)) y (hcb y (VRange.mem_bounds_max hy)))
  · intro v hv
    subst hv
    intro e he
    have := hB v (hrb v (by simp [RC.bounds_ver])) e (hcb e he)
    rcases this with h | h
    · exact Or.inl ((vk_eq_iff _ _).1 h)
    · exact Or.inr h

/-- **`VersionRange.difference(VersionUnion)` is exact whenever it returns**: with the union's members
well-formed, tidy, inhabited and sorted, and all bounds in play mutually regular, the result's members are
well-formed over those bounds and it admits a regular probe iff one of the pieces already split off does, or
`cur` does and no member of the union does. -/
theorem rngDiffUnionLoop_sem (B : List Version) (hB : MutReg B) :
    ∀ (rs : List RC) (cur : RC) (ranges : List RC) (res : VC), VC.rngDiffUnionLoop rs cur ranges = .ok res →
    (∀ c ∈ rs, UMember c) → SortedRC rs → cur.WF → cur.Tidy → Good ranges →
    (∀ e, (e ∈ boundsOf rs ∨ e ∈ cur.bounds ∨ e ∈ boundsOf ranges) → e ∈ B) →
    Good res.flatten ∧ (∀ e ∈ res.bounds, e ∈ B) ∧
    ∀ p, p.wf = true → Regular B p →
      res.allowsPlain p = (anyAllows ranges p || (cur.allows p && !anyAllows rs p))
  | [], cur, ranges, res, h, _, _, hc, hct, hg, hb => by
    simp only [VC.rngDiffUnionLoop] at h
    obtain ⟨g1, g2, g3⟩ := finish_sem cur ranges res h hc hct hg
    refine ⟨g1, ?_, ?_⟩
    · intro e he
      rcases g2 e he with h1 | h1
      · exact hb e (Or.inr (Or.inr h1))
      · exact hb e (Or.inr (Or.inl h1))
    · intro p hp hreg
      rw [g3 p hp (hreg.mono (by
        intro e he
        simp only [List.mem_append] at he
        rcases he with h1 | h1
        · exact hb e (Or.inr (Or.inr h1))
        · exact hb e (Or.inr (Or.inl h1))))]
      simp [anyAllows]
  | r :: rest, cur, ranges, res, h, hm, hs, hc, hct, hg, hb => by
    have hrm := hm r (by simp)
    have hrestm : ∀ c ∈ rest, UMember c := fun c hc' => hm c (by simp [hc'])
    have hrests : SortedRC rest := (List.pairwise_cons.1 hs).2
    have hrb : ∀ e ∈ r.bounds, e ∈ B := fun e he =>
      hb e (Or.inl (by simp only [boundsOf, List.flatMap_cons, List.mem_append]; exact Or.inl he))
    have hrestb : ∀ e ∈ boundsOf rest, e ∈ B := fun e he =>
      hb e (Or.inl (by simp only [boundsOf, List.flatMap_cons, List.mem_append]; exact Or.inr he))
    have hcb : ∀ e ∈ cur.bounds, e ∈ B := fun e he => hb e (Or.inr (Or.inl he))
    have hgb : ∀ e ∈ boundsOf ranges, e ∈ B := fun e he => hb e (Or.inr (Or.inr he))
    simp only [VC.rngDiffUnionLoop, VRange.isStrictlyHigher] at h
    by_cases h1 : r.view.isStrictlyLower cur.view = true
    · simp only [h1, if_true] at h
      obtain ⟨g1, g2, g3⟩ := rngDiffUnionLoop_sem B hB rest cur ranges res h hrestm hrests hc hct hg (by
        intro e he
        rcases he with h' | h' | h'
        · exact hrestb e h'
        · exact hcb e h'
        · exact hgb e h')
      refine ⟨g1, g2, fun p hp hreg => ?_⟩
      rw [g3 p hp hreg, anyAllows_cons r rest]
      have := skip_lower hrm.1 hc h1 p hp (hreg.mono hrb) (hreg.mono hcb)
      cases hcp : cur.allows p
      · simp
      · simp [this hcp]
    · simp only [h1, Bool.false_eq_true, if_false] at h
      by_cases h2 : cur.view.isStrictlyLower r.view = true
      · simp only [h2, if_true] at h
        obtain ⟨g1, g2, g3⟩ := finish_sem cur ranges res h hc hct hg
        refine ⟨g1, ?_, ?_⟩
        · intro e he
          rcases g2 e he with h' | h'
          · exact hgb e h'
          · exact hcb e h'
        · intro p hp hreg
          rw [g3 p hp (hreg.mono (by
            intro e he
            simp only [List.mem_append] at he
            rcases he with h' | h'
            · exact hgb e h'
            · exact hcb e h'))]
          have := all_higher hm hc hs h2 p hp (hreg.mono (by
            intro e he; exact hb e (Or.inl he))) (hreg.mono hcb)
          cases hcp : cur.allows p
          · simp
          · simp [this hcp]
      · simp only [h2, Bool.false_eq_true, if_false, bind, Except.bind] at h
        cases hd : RC.difference cur r with
        | error e => simp [hd] at h
        | ok d =>
          simp only [hd] at h
          have spec := difference_spec cur r hc hct hrm.1 hrm.2.1 (side_of_mutReg hB cur r hc hrm.1 hcb hrb) d hd
          have hdb : ∀ e ∈ d.bounds, e ∈ B := fun e he => by
            rcases spec.bounds e he with h' | h'
            · exact hcb e h'
            · exact hrb e h'
          have hex : ∀ p, p.wf = true → Regular B p → d.allowsPlain p = (cur.allows p && !r.allows p) :=
            fun p hp hreg => spec.exact p hp (hreg.mono (by
              intro e he
              simp only [List.mem_append] at he
              rcases he with h' | h'
              · exact hcb e h'
              · exact hrb e h'))
          cases d with
          | empty =>
            simp only at h
            obtain ⟨g1, g2, g3⟩ := unionOfFlat_sem ranges res h hg
            refine ⟨g1, fun e he => hgb e (g2 e he), fun p hp hreg => ?_⟩
            rw [g3 p hp (hreg.mono hgb), anyAllows_cons r rest]
            have := hex p hp hreg
            simp only [VC.allowsPlain, VC.flatten, List.any_nil] at this
            have key : ∀ (bc br brest bg : Bool), false = (bc && !br) → bg = (bg || (bc && !(br || brest))) := by
              decide
            exact key _ _ _ _ this
          | single d' =>
            simp only at h
            have hd' := spec.good d' (by simp [VC.flatten])
            obtain ⟨g1, g2, g3⟩ := rngDiffUnionLoop_sem B hB rest d' ranges res h hrestm hrests hd'.1 hd'.2 hg (by
              intro e he
              rcases he with h' | h' | h'
              · exact hrestb e h'
              · exact hdb e (by simpa [VC.bounds] using h')
              · exact hgb e h')
            refine ⟨g1, g2, fun p hp hreg => ?_⟩
            rw [g3 p hp hreg, anyAllows_cons r rest]
            have := hex p hp hreg
            simp only [VC.allowsPlain, VC.flatten, List.any_cons, List.any_nil, Bool.or_false] at this
            rw [this]
            cases cur.allows p <;> cases r.allows p <;> cases anyAllows rest p <;> simp
          | union ds =>
            obtain ⟨x, y, hds, hxlow⟩ := spec.pair ds rfl
            subst hds
            simp only [List.head?_cons, List.getLast?_cons_cons, List.getLast?_singleton] at h
            have hx := spec.good x (by simp [VC.flatten])
            have hy := spec.good y (by simp [VC.flatten])
            have hxb : ∀ e ∈ x.bounds, e ∈ B := fun e he =>
              hdb e (by simp only [VC.bounds, List.flatMap_cons, List.mem_append]; exact Or.inl he)
            have hyb : ∀ e ∈ y.bounds, e ∈ B := fun e he =>
              hdb e (by simp only [VC.bounds, List.flatMap_cons, List.flatMap_nil, List.append_nil, List.mem_append]; exact Or.inr he)
            have hg' : Good (ranges ++ [x]) := by
              intro c hc'
              simp only [List.mem_append, List.mem_singleton] at hc'
              rcases hc' with h' | rfl
              · exact hg c h'
              · exact hx
            obtain ⟨g1, g2, g3⟩ := rngDiffUnionLoop_sem B hB rest y (ranges ++ [x]) res h hrestm hrests hy.1 hy.2 hg' (by
              intro e he
              rcases he with h' | h' | h'
              · exact hrestb e h'
              · exact hyb e h'
              · simp only [boundsOf, List.flatMap_append, List.flatMap_cons, List.flatMap_nil, List.append_nil,
                  List.mem_append] at h'
                rcases h' with h'' | h''
                · exact hgb e h''
                · exact hxb e h'')
            refine ⟨g1, g2, fun p hp hreg => ?_⟩
            rw [g3 p hp hreg, anyAllows_cons r rest]
            have hxy := hex p hp hreg
            simp only [VC.allowsPlain, VC.flatten, List.any_cons, List.any_nil, Bool.or_false] at hxy
            have hxd : x.allows p = true → anyAllows rest p = false := by
              intro hxp
              have hsem := (RC.allows_iff_sem x p hx.1.wfB hp (hreg.mono hxb)).1 hxp
              exact below_disjoint hm hs p hp (hreg.mono hrestb) (hxlow p hsem)
            have key : ∀ (bx by' bc br brest bg : Bool), (bx || by') = (bc && !br) → (bx = true → brest = false) →
                ((bg || bx) || (by' && !brest)) = (bg || (bc && !(br || brest))) := by decide
            have e : anyAllows (ranges ++ [x]) p = (anyAllows ranges p || x.allows p) := by
              simp [anyAllows, List.any_append]
            rw [e]
            exact key _ _ _ _ _ _ hxy hxd

/-! ### `_inverted`, `excludes_single_version`, `VersionUnion.allows` -/

/-- the hypotheses on the member list of a union for the theorems about `allows`: members well-formed, tidy,
inhabited, sorted; bounds mutually regular -/
def UnionOK (rs : List RC) : Prop :=
  (∀ c ∈ rs, UMember c) ∧ SortedRC rs ∧ MutReg (boundsOf rs)

/-- **`VersionUnion._inverted` is the complement** on regular probes, whenever it returns -/
theorem inverted_sem (rs : List RC) (hok : UnionOK rs) (res : VC) (h : VC.inverted rs = .ok res) :
    Good res.flatten ∧ (∀ e ∈ res.bounds, e ∈ boundsOf rs) ∧
    ∀ p, p.wf = true → Regular (boundsOf rs) p → res.allowsPlain p = !anyAllows rs p := by
  obtain ⟨hm, hs, hB⟩ := hok
  have hany : (RC.rng VRange.any).WF :=
    ⟨by intro e he; simp [VRange.bounds, VRange.any] at he, by intro m M hm'; simp [VRange.any] at hm'⟩
  obtain ⟨g1, g2, g3⟩ := rngDiffUnionLoop_sem (boundsOf rs) hB rs (.rng VRange.any) [] res h hm hs hany
    ⟨fun _ => rfl, fun _ => rfl⟩ (by simp [Good]) (by
      intro e he
      rcases he with h' | h' | h'
      · exact h'
      · simp [RC.bounds, RC.view, VRange.bounds, VRange.any, RC.min, RC.max] at h'
      · simp [boundsOf] at h')
  refine ⟨g1, g2, fun p hp hreg => ?_⟩
  rw [g3 p hp hreg]
  simp [anyAllows, RC.allows, VRange.allows, VRange.allowsLo, VRange.allowsHi, VRange.any]

/-- **`VersionUnion.allows` is the disjunction over the members** on regular probes, whenever it returns
(the path `not (excluded == v)` taken when the union excludes a single local version agrees with it) -/
theorem union_allows_eq_plain (rs : List RC) (hok : UnionOK rs) (p : Version) (hp : p.wf = true)
    (hreg : Regular (boundsOf rs) p) (b : Bool) (h : VC.allows (.union rs) p = .ok b) :
    b = (VC.union rs).allowsPlain p := by
  simp only [VC.allows, VC.excludedSingleVersion, bind, Except.bind] at h
  cases hinv : VC.inverted rs with
  | error e => simp [hinv] at h
  | ok res =>
    simp only [hinv] at h
    obtain ⟨g1, g2, g3⟩ := inverted_sem rs hok res hinv
    have plain : (VC.union rs).allowsPlain p = anyAllows rs p := rfl
    have other : ∀ o : Option Version, (∀ ex, o = some ex → ex.isLocal = false) →
        (match o with
          | some ex => if ex.isLocal = true then (pure (!Version.eqv ex p) : PyM Bool)
              else pure (rs.any fun c => c.allows p)
          | none => pure (rs.any fun c => c.allows p)) = .ok b → b = anyAllows rs p := by
      intro o ho hb
      cases o with
      | none => simpa [pure, Except.pure, anyAllows] using hb.symm
      | some ex => simp only [ho ex rfl, Bool.false_eq_true, if_false] at hb
                   simpa [pure, Except.pure, anyAllows] using hb.symm
    rw [plain]
    cases res with
    | empty => exact other none (fun _ h' => by cases h') (by simpa [pure, Except.pure] using h)
    | union ds => exact other none (fun _ h' => by cases h') (by simpa [pure, Except.pure] using h)
    | single c =>
      cases c with
      | rng r => exact other none (fun _ h' => by cases h') (by simpa [pure, Except.pure] using h)
      | ver ex =>
        simp only [pure, Except.pure] at h
        by_cases hl : ex.isLocal = true
        · simp only [hl, if_true, Except.ok.injEq] at h
          have hexb : ex ∈ boundsOf rs := g2 ex (by simp [VC.bounds, RC.bounds_ver])
          have hexwf : ex.wf = true := (g1 (.ver ex) (by simp [VC.flatten])).1
          have hr1 : Reg1 p ex := hreg.reg1 hexb
          have hsem := g3 p hp hreg
          simp only [VC.allowsPlain, VC.flatten, List.any_cons, List.any_nil, Bool.or_false, RC.allows] at hsem
          have hiff := RC.ver_allows_iff ex p hexwf hp hr1
          rw [← h]
          cases he : Version.eqv ex p
          · have : ex.allows p = false := by
              cases ha : ex.allows p
              · rfl
              · have := (eqv_iff ex p).2 (hiff.1 ha).symm
                rw [he] at this; cases this
            rw [this] at hsem
            simpa using hsem.symm
          · have : ex.allows p = true := hiff.2 ((eqv_iff ex p).1 he).symm
            rw [this] at hsem
            simpa using hsem.symm
        · exact other (some ex) (fun e h' => by cases h'; simpa using hl) (by simpa [pure, Except.pure] using h)

/-- for any constraint: `allows`, whenever it returns, is `allowsPlain` on regular probes (a union must satisfy
`UnionOK`) -/
theorem VC.allows_eq_plain (c : VC) (hok : ∀ rs, c = .union rs → UnionOK rs) (p : Version) (hp : p.wf = true)
    (hreg : Regular c.bounds p) (b : Bool) (h : c.allows p = .ok b) : b = c.allowsPlain p := by
  cases c with
  | empty => simpa [VC.allows, VC.allowsPlain, VC.flatten] using h.symm
  | single x => simpa [VC.allows, VC.allowsPlain, VC.flatten] using h.symm
  | union rs => exact union_allows_eq_plain rs (hok rs rfl) p hp hreg b h

/-! ### totality, when no bound is a local build -/

theorem rngDifferenceVer_ok (r : VRange) (v : Version) (hr : r.WF) (htr : r.Tidy) (hv : v.wf = true)
    (hvreg : Regular r.bounds v) (hl1 : ∀ m, r.min = some m → m.isLocal = false) (hl2 : v.isLocal = false) :
    ∃ d, RC.rngDifferenceVer r v = .ok d := by
  unfold RC.rngDifferenceVer
  by_cases h1 : r.allows v = true
  · simp only [h1, Bool.not_true, Bool.false_eq_true, if_false]
    have hraw := (VRange.allows_iff_raw r v hr.1 hv hvreg).1 h1
    by_cases h2 : optVerEq (some v) r.min = true
    · simp only [h2, if_true]; split <;> exact ⟨_, rfl⟩
    · simp only [h2, Bool.false_eq_true, if_false]
      by_cases h3 : optVerEq (some v) r.max = true
      · simp only [h3, if_true]; split <;> exact ⟨_, rfl⟩
      · simp only [h3, Bool.false_eq_true, if_false]
        have hlo : ∀ m, r.min = some m → vk m < vk v := by
          intro m hm
          have hne : vk v ≠ vk m := by
            intro e; simp [hm, optVerEq, (eqv_iff _ _).2 e] at h2
          have := hraw.1
          simp only [VRange.denLo, hm] at this
          cases hi : r.imin <;> simp [hi] at this
          · exact this
          · exact lt_of_le_of_ne this (fun e => hne e.symm)
        have hhi : ∀ M, r.max = some M → vk v < vk M := by
          intro M hM
          have hne : vk v ≠ vk M := by
            intro e; simp [hM, optVerEq, (eqv_iff _ _).2 e] at h3
          have := hraw.2
          simp only [VRange.rawHi, hM] at this
          cases hi : r.imax <;> simp [hi] at this
          · exact this
          · exact lt_of_le_of_ne this hne
        have hgood : Good [RC.rng ⟨r.min, some v, r.imin, false⟩, RC.rng ⟨some v, r.max, false, r.imax⟩] := by
          intro c hc
          simp only [List.mem_cons, List.mem_nil_iff, or_false] at hc
          rcases hc with rfl | rfl
          · refine ⟨⟨?_, ?_⟩, ⟨fun e => htr.1 e, fun e => by simp at e⟩⟩
            · intro e he
              simp only [VRange.bounds, List.mem_append, Option.mem_toList] at he
              rcases he with he | he
              · exact hr.1 e (VRange.mem_bounds_min he)
              · simp at he; subst he; exact hv
            · intro m M hm hM; simp at hM; subst hM; exact hlo m hm
          · refine ⟨⟨?_, ?_⟩, ⟨fun e => by simp at e, fun e => htr.2 e⟩⟩
            · intro e he
              simp only [VRange.bounds, List.mem_append, Option.mem_toList] at he
              rcases he with he | he
              · simp at he; subst he; exact hv
              · exact hr.1 e (VRange.mem_bounds_max he)
            · intro m M hm hM; simp at hm; subst hm; exact hhi M hM
        have hn : NoLocalLower [RC.rng ⟨r.min, some v, r.imin, false⟩, RC.rng ⟨some v, r.max, false, r.imax⟩] := by
          intro c hc m hm
          simp only [List.mem_cons, List.mem_nil_iff, or_false] at hc
          rcases hc with rfl | rfl
          · exact hl1 m hm
          · simp [RC.min] at hm; subst hm; exact hl2
        obtain ⟨res, hres, _⟩ := unionOfFlat_total _ hgood hn
        exact ⟨res, hres⟩
  · exact ⟨.single (.rng r), by simp [h1]⟩

/-- bounds that are not local builds -/
def NoLocal (B : List Version) : Prop := ∀ e ∈ B, e.isLocal = false

theorem difference_ok {B : List Version} (hB : MutReg B) (hN : NoLocal B) (cur r : RC) (hc : cur.WF)
    (hct : cur.Tidy) (hr : r.WF) (hrt : r.Tidy) (hcb : ∀ e ∈ cur.bounds, e ∈ B) (hrb : ∀ e ∈ r.bounds, e ∈ B) :
    ∃ d, RC.difference cur r = .ok d := by
  have hside := side_of_mutReg hB cur r hc hr hcb hrb
  cases cur with
  | ver a => exact ⟨_, rfl⟩
  | rng a =>
    cases r with
    | ver v =>
      exact rngDifferenceVer_ok a v hc hct hr ((hside a rfl).2 v rfl)
        (fun m hm => hN m (hcb m (VRange.mem_bounds_min hm))) (hN v (hrb v (by simp [RC.bounds_ver])))
    | rng b =>
      obtain ⟨res, hres, _⟩ := VRange.difference_total a b hc hr hct hrt ((hside a rfl).1 b rfl) (by
        intro m hm
        rcases hm with h | h | h
        · exact hN m (hcb m (VRange.mem_bounds_min h))
        · exact hN m (hcb m (VRange.mem_bounds_max h))
        · exact hN m (hrb m (VRange.mem_bounds_max h)))
      exact ⟨res, hres⟩

theorem noLocalLower_of_bounds {B : List Version} (hN : NoLocal B) (l : List RC)
    (hb : ∀ e ∈ boundsOf l, e ∈ B) : NoLocalLower l := by
  intro c hc m hm
  apply hN m (hb m (mem_boundsOf hc ?_))
  cases c with
  | ver x => simp [RC.min] at hm; subst hm; simp [RC.bounds_ver]
  | rng r => exact VRange.mem_bounds_min hm

theorem finish_ok {B : List Version} (hN : NoLocal B) (cur : RC) (ranges : List RC) (hc : cur.WF) (hct : cur.Tidy)
    (hg : Good ranges) (hb : ∀ e, (e ∈ cur.bounds ∨ e ∈ boundsOf ranges) → e ∈ B) :
    ∃ res, VC.rngDiffFinish cur ranges = .ok res := by
  unfold VC.rngDiffFinish
  split
  · exact ⟨_, rfl⟩
  · have hg' : Good (ranges ++ [cur]) := by
      intro c hc'
      simp only [List.mem_append, List.mem_singleton] at hc'
      rcases hc' with h1 | rfl
      · exact hg c h1
      · exact ⟨hc, hct⟩
    obtain ⟨res, hres, _⟩ := unionOfFlat_total _ hg' (noLocalLower_of_bounds hN _ (by
      intro e he
      simp only [boundsOf, List.flatMap_append, List.flatMap_cons, List.flatMap_nil, List.append_nil,
        List.mem_append] at he
      rcases he with h | h
      · exact hb e (Or.inr h)
      · exact hb e (Or.inl h)))
    exact ⟨res, hres⟩

/-- **`VersionRange.difference(VersionUnion)` always returns** when no bound in play is a local build -/
theorem rngDiffUnionLoop_total (B : List Version) (hB : MutReg B) (hN : NoLocal B) :
    ∀ (rs : List RC) (cur : RC) (ranges : List RC),
    (∀ c ∈ rs, UMember c) → cur.WF → cur.Tidy → Good ranges →
    (∀ e, (e ∈ boundsOf rs ∨ e ∈ cur.bounds ∨ e ∈ boundsOf ranges) → e ∈ B) →
    ∃ res, VC.rngDiffUnionLoop rs cur ranges = .ok res
  | [], cur, ranges, _, hc, hct, hg, hb => by
    simp only [VC.rngDiffUnionLoop]
    exact finish_ok hN cur ranges hc hct hg (fun e he => hb e (Or.inr he))
  | r :: rest, cur, ranges, hm, hc, hct, hg, hb => by
    have hrm := hm r (by simp)
    have hrestm : ∀ c ∈ rest, UMember c := fun c hc' => hm c (by simp [hc'])
    have hrb : ∀ e ∈ r.bounds, e ∈ B := fun e he =>
      hb e (Or.inl (by simp only [boundsOf, List.flatMap_cons, List.mem_append]; exact Or.inl he))
    have hrestb : ∀ e ∈ boundsOf rest, e ∈ B := fun e he =>
      hb e (Or.inl (by simp only [boundsOf, List.flatMap_cons, List.mem_append]; exact Or.inr he))
    have hcb : ∀ e ∈ cur.bounds, e ∈ B := fun e he => hb e (Or.inr (Or.inl he))
    have hgb : ∀ e ∈ boundsOf ranges, e ∈ B := fun e he => hb e (Or.inr (Or.inr he))
    simp only [VC.rngDiffUnionLoop, VRange.isStrictlyHigher]
    by_cases h1 : r.view.isStrictlyLower cur.view = true
    · simp only [h1, if_true]
      exact rngDiffUnionLoop_total B hB hN rest cur ranges hrestm hc hct hg (by
        intro e he
        rcases he with h' | h' | h'
        · exact hrestb e h'
        · exact hcb e h'
        · exact hgb e h')
    · simp only [h1, Bool.false_eq_true, if_false]
      by_cases h2 : cur.view.isStrictlyLower r.view = true
      · simp only [h2, if_true]
        exact finish_ok hN cur ranges hc hct hg (fun e he => hb e (Or.inr he))
      · simp only [h2, Bool.false_eq_true, if_false]
        obtain ⟨d, hd⟩ := difference_ok hB hN cur r hc hct hrm.1 hrm.2.1 hcb hrb
        have spec := difference_spec cur r hc hct hrm.1 hrm.2.1 (side_of_mutReg hB cur r hc hrm.1 hcb hrb) d hd
        have hdb : ∀ e ∈ d.bounds, e ∈ B := fun e he => by
          rcases spec.bounds e he with h' | h'
          · exact hcb e h'
          · exact hrb e h'
        simp only [hd, bind, Except.bind]
        cases d with
        | empty =>
          obtain ⟨res, hres, _⟩ := unionOfFlat_total ranges hg (noLocalLower_of_bounds hN _ hgb)
          exact ⟨res, hres⟩
        | single d' =>
          have hd' := spec.good d' (by simp [VC.flatten])
          exact rngDiffUnionLoop_total B hB hN rest d' ranges hrestm hd'.1 hd'.2 hg (by
            intro e he
            rcases he with h' | h' | h'
            · exact hrestb e h'
            · exact hdb e (by simpa [VC.bounds] using h')
            · exact hgb e h')
        | union ds =>
          obtain ⟨x, y, hds, _⟩ := spec.pair ds rfl
          subst hds
          simp only [List.head?_cons, List.getLast?_cons_cons, List.getLast?_singleton]
          have hx := spec.good x (by simp [VC.flatten])
          have hy := spec.good y (by simp [VC.flatten])
          have hxb : ∀ e ∈ x.bounds, e ∈ B := fun e he =>
            hdb e (by simp only [VC.bounds, List.flatMap_cons, List.mem_append]; exact Or.inl he)
          have hyb : ∀ e ∈ y.bounds, e ∈ B := fun e he =>
            hdb e (by simp only [VC.bounds, List.flatMap_cons, List.flatMap_nil, List.append_nil, List.mem_append]; exact Or.inr he)
          have hg' : Good (ranges ++ [x]) := by
            intro c hc'
            simp only [List.mem_append, List.mem_singleton] at hc'
            rcases hc' with h' | rfl
            · exact hg c h'
            · exact hx
          exact rngDiffUnionLoop_total B hB hN rest y (ranges ++ [x]) hrestm hy.1 hy.2 hg' (by
            intro e he
            rcases he with h' | h' | h'
            · exact hrestb e h'
            · exact hyb e h'
            · simp only [boundsOf, List.flatMap_append, List.flatMap_cons, List.flatMap_nil, List.append_nil,
                List.mem_append] at h'
              rcases h' with h'' | h''
              · exact hgb e h''
              · exact hxb e h'')

/-- **`VersionUnion._inverted` always returns** for a union satisfying `UnionOK` none of whose bounds is local -/
theorem inverted_total (rs : List RC) (hok : UnionOK rs) (hN : NoLocal (boundsOf rs)) :
    ∃ res, VC.inverted rs = .ok res := by
  obtain ⟨hm, _, hB⟩ := hok
  have hany : (RC.rng VRange.any).WF :=
    ⟨by intro e he; simp [VRange.bounds, VRange.any] at he, by intro m M hm'; simp [VRange.any] at hm'⟩
  exact rngDiffUnionLoop_total (boundsOf rs) hB hN rs (.rng VRange.any) [] hm hany ⟨fun _ => rfl, fun _ => rfl⟩
    (by simp [Good]) (by
      intro e he
      rcases he with h' | h' | h'
      · exact h'
      · simp [RC.bounds, RC.view, VRange.bounds, VRange.any, RC.min, RC.max] at h'
      · simp [boundsOf] at h')

/-- **`VersionUnion.allows` never raises and is the disjunction over the members, for every version** — for
a union satisfying `UnionOK` none of whose bounds is a local build (the `not (excluded == v)` path is then never
taken: an excluded single version is one of the bounds) -/
theorem union_allows_total (rs : List RC) (hok : UnionOK rs) (hN : NoLocal (boundsOf rs)) (v : Version) :
    VC.allows (.union rs) v = .ok (rs.any (fun c => c.allows v)) := by
  obtain ⟨res, hres⟩ := inverted_total rs hok hN
  obtain ⟨_, g2, _⟩ := inverted_sem rs hok res hres
  simp only [VC.allows, VC.excludedSingleVersion, hres, bind, Except.bind, pure, Except.pure]
  cases res with
  | empty => rfl
  | union ds => rfl
  | single c =>
    cases c with
    | rng r => rfl
    | ver ex =>
      have : ex.isLocal = false := hN ex (g2 ex (by simp [VC.bounds, RC.bounds_ver]))
      simp [this]

end Poetry
